import UrcuVerif.Machine.Fair
import UrcuVerif.Gp.FlipInv
/-! Step-level lemmas for `Props/LiveC02Gp.lean` (liveness of `synchronize_rcu()` on the two-pass phase-flip model):
when does the memory copy of a reader's word become – and stay – acceptable for the scan of the current pass.

Fix a reader `j` and the value `g` of `rcu_gp.ctr`'s phase during the pass.  The scan accepts `j` iff its word in
memory is inactive or carries phase `g` (`MemGood`).  What can make it unacceptable again: a section entered with a
STALE snapshot of the phase – the snapshot is taken by the load `rLd` and may sit in `rpc j = ld g'` or, for
`rcu_read_lock()` frames interrupted by signal handlers, in the stack `held j`.  `phi` counts the stale snapshots
reader `j` still holds; it never increases while the phase is `g` and decreases when a stale snapshot is stored. -/
set_option linter.unusedSimpArgs false
set_option linter.unusedVariables false
namespace UrcuVerif.Gp
open UrcuVerif UrcuVerif.Fair

/-- number of stale phase snapshots reader `j` can still store -/
def stl (g x : Bool) : Nat := if x = g then 0 else 1

def ldStale (g : Bool) : RPc → Nat
  | .ld g' => stl g g'
  | .out => 0 | .fence => 0 | .cs => 0

def phi (j : Nat) (g : Bool) (s : State) : Nat := ((s.held j).map (stl g)).sum + ldStale g (s.rpc j)

/-- the reader's own view of its word is inactive or carries the current phase -/
def LocalGood (j : Nat) (g : Bool) (s : State) : Prop := s.lnest j = 0 ∨ s.lph j = g

/-- a buffered store that would make the memory word unacceptable -/
def badE (g : Bool) (e : Nat × Bool) : Bool := e.1 != 0 && e.2 != g

/-- length of the shortest prefix of the store buffer that contains all unacceptable stores -/
def lastBad (g : Bool) : List (Nat × Bool) → Nat
  | [] => 0
  | e :: r => if lastBad g r = 0 then (if badE g e then 1 else 0) else lastBad g r + 1

def MemGood (j : Nat) (g : Bool) (s : State) : Prop := s.mnest j = 0 ∨ s.mph j = g

/-- flushes still needed until the memory word is acceptable for good -/
def mM (j : Nat) (g : Bool) (s : State) : Nat :=
  2 * lastBad g (s.buf j) + (if s.mnest j = 0 ∨ s.mph j = g then 0 else 1)

theorem lastBad_snoc_good (g : Bool) (l : List (Nat × Bool)) (e : Nat × Bool) (h : badE g e = false) :
    lastBad g (l ++ [e]) = lastBad g l := by
  induction l with
  | nil => simp [lastBad, h]
  | cons a r ih => simp only [List.cons_append, lastBad, ih]

theorem lastBad_tail (g : Bool) (e : Nat × Bool) (r : List (Nat × Bool)) : lastBad g r = lastBad g (e :: r) - 1 := by
  simp only [lastBad]
  split
  · rename_i h; rw [h]; split <;> rfl
  · omega

theorem lastBad_head_good (g : Bool) (e : Nat × Bool) (r : List (Nat × Bool)) (h : lastBad g (e :: r) = 0) :
    badE g e = false := by
  simp only [lastBad] at h
  split at h
  · split at h
    · omega
    · rename_i hb; simpa using hb
  · omega

theorem lastBad_pos_ne_nil (g : Bool) (l : List (Nat × Bool)) (h : lastBad g l ≠ 0) : l ≠ [] := by
  intro e; rw [e] at h; simp [lastBad] at h

/-- the labels that touch reader `j`'s word (its own stores, the commit of its store buffer, the forced fence) -/
def wordLabel (j : Nat) : Label → Prop
  | .rSt i | .rInc i | .rDec i | .rUnlock i | .flush i | .forced i => i = j
  | _ => False

set_option hygiene false in
macro "g_bash" : tactic => `(tactic| (
  simp only [step] at st <;> (repeat' split at st) <;>
  (first | (simp at st; done) | skip) <;>
  simp only [Option.some.injEq] at st <;> subst st))

/-- other steps leave the word of reader `j` (memory copy, own view, store buffer) alone -/
theorem word_frame (c : Cfg) {s s' : State} {l : Label} (j : Nat) (hl : ¬ wordLabel j l) (st : step c s l = some s') :
    s'.buf j = s.buf j ∧ s'.mnest j = s.mnest j ∧ s'.mph j = s.mph j ∧ s'.lnest j = s.lnest j ∧ s'.lph j = s.lph j := by
  cases l <;> simp only [wordLabel] at hl <;> g_bash <;> simp only [upd] <;> grind

/-- while the phase is `g`, the number of stale snapshots of reader `j` does not increase -/
theorem phi_step (c : Cfg) {s s' : State} {l : Label} (j : Nat) (g : Bool) (hg : s.gp = g) (st : step c s l = some s') :
    phi j g s' ≤ phi j g s := by
  cases l <;> g_bash <;> simp only [phi, upd] <;> (try (split <;> simp_all [ldStale, stl])) <;>
    (first | exact Nat.le_refl _ | omega | skip)

theorem mM_congr (j : Nat) (g : Bool) {s s' : State} (h1 : s'.buf j = s.buf j) (h2 : s'.mnest j = s.mnest j)
    (h3 : s'.mph j = s.mph j) : mM j g s' = mM j g s := by
  simp only [mM, h1, h2, h3]

/-- one step from a state in which reader `j`'s own view is acceptable: either a stale snapshot is consumed, or the view
stays acceptable, the number of flushes still needed does not increase, and a commit of `j`'s store buffer decreases it -/
theorem settle_step (c : Cfg) {s s' : State} {l : Label} (I : Inv c s) (j : Nat) (g : Bool) (hg : s.gp = g)
    (hlg : LocalGood j g s) (st : step c s l = some s') :
    phi j g s' < phi j g s ∨
      (LocalGood j g s' ∧ mM j g s' ≤ mM j g s ∧ (l = .flush j → mM j g s ≠ 0 → mM j g s' < mM j g s)) := by
  by_cases hw : wordLabel j l
  · have hcs := I.cs_nest j
    unfold LocalGood at hlg ⊢
    cases l <;> simp only [wordLabel] at hw <;> (have hw' := hw.symm; subst hw')
    case rSt =>
      simp only [step] at st
      split at st
      · rename_i g' hq
        split at st
        · simp only [Option.some.injEq] at st; subst st
          by_cases hgg : g' = g
          · subst hgg
            right
            refine ⟨by simp [upd], ?_, by intro h; cases h⟩
            simp only [mM, upd, ↓reduceIte]
            rw [lastBad_snoc_good _ _ _ (by simp [badE])]; exact Nat.le_refl _
          · left
            simp [phi, upd, hq, ldStale, stl, hgg]
        · simp at st
      · simp at st
    case rInc =>
      simp only [step] at st
      split at st
      · rename_i hq
        simp only [Option.some.injEq] at st; subst st
        have h1 : 1 ≤ s.lnest j := hcs.mp hq.2
        have hph : s.lph j = g := by rcases hlg with h | h; omega; exact h
        right
        refine ⟨by simp [upd, hph], ?_, by intro h; cases h⟩
        simp only [mM, upd, ↓reduceIte]
        rw [lastBad_snoc_good _ _ _ (by simp [badE, hph])]; exact Nat.le_refl _
      · simp at st
    case rDec =>
      simp only [step] at st
      split at st
      · rename_i hq
        simp only [Option.some.injEq] at st; subst st
        have h1 : 1 ≤ s.lnest j := hcs.mp hq.2.1
        have hph : s.lph j = g := by rcases hlg with h | h; omega; exact h
        right
        refine ⟨by simp [upd, hph], ?_, by intro h; cases h⟩
        simp only [mM, upd, ↓reduceIte]
        rw [lastBad_snoc_good _ _ _ (by simp [badE, hph])]; exact Nat.le_refl _
      · simp at st
    case rUnlock =>
      simp only [step] at st
      split at st
      · simp only [Option.some.injEq] at st; subst st
        right
        refine ⟨by simp [upd], ?_, by intro h; cases h⟩
        simp only [mM, upd, ↓reduceIte]
        rw [lastBad_snoc_good _ _ _ (by simp [badE])]; exact Nat.le_refl _
      · simp at st
    case flush =>
      simp only [step] at st
      split at st
      · rename_i e rest hb
        simp only [Option.some.injEq] at st; subst st
        right
        have ht := lastBad_tail g e rest
        refine ⟨by simpa [upd] using hlg, ?_, ?_⟩
        · simp only [mM, upd, ↓reduceIte, hb]
          by_cases hk : lastBad g (e :: rest) = 0
          · have hge := lastBad_head_good g e rest hk
            have : e.1 = 0 ∨ e.2 = g := by
              simp only [badE, Bool.and_eq_false_iff, bne_eq_false_iff_eq] at hge; exact hge
            rw [if_pos this]; omega
          · split <;> split <;> omega
        · intro _ hm
          simp only [mM, upd, ↓reduceIte, hb] at hm ⊢
          by_cases hk : lastBad g (e :: rest) = 0
          · have hge := lastBad_head_good g e rest hk
            have : e.1 = 0 ∨ e.2 = g := by
              simp only [badE, Bool.and_eq_false_iff, bne_eq_false_iff_eq] at hge; exact hge
            rw [if_pos this]
            rw [hk] at hm ht ⊢
            by_cases hmg : s.mnest j = 0 ∨ s.mph j = g
            · rw [if_pos hmg] at hm; omega
            · rw [if_neg hmg]; omega
          · split <;> split <;> omega
      · simp at st
    case forced =>
      simp only [step] at st
      split at st
      · simp only [Option.some.injEq] at st; subst st
        right
        refine ⟨by simpa [upd] using hlg, ?_, by intro h; cases h⟩
        simp only [mM, upd, ↓reduceIte, lastBad]
        rw [if_pos hlg]; omega
      · simp at st
  · right
    obtain ⟨h1, h2, h3, h4, h5⟩ := word_frame c j hw st
    refine ⟨by unfold LocalGood at hlg ⊢; rw [h4, h5]; exact hlg, Nat.le_of_eq (mM_congr j g h1 h2 h3), ?_⟩
    intro e; subst e; exact absurd rfl hw

/-- as long as flushes are still needed the store buffer is not empty -/
theorem settle_enabled (c : Cfg) {s : State} (I : Inv c s) (j : Nat) (g : Bool) (hlg : LocalGood j g s)
    (hm : mM j g s ≠ 0) : (step c s (.flush j)).isSome = true := by
  have : s.buf j ≠ [] := by
    intro hb
    have hv := I.empty_view j hb
    unfold LocalGood at hlg
    simp only [mM, hb, lastBad] at hm
    rw [if_pos (by rw [hv.1, hv.2]; exact hlg)] at hm
    exact hm rfl
  simp only [step]
  cases hb : s.buf j with
  | nil => exact absurd hb this
  | cons e r => rfl

theorem mM_zero_good (j : Nat) (g : Bool) {s : State} (h : mM j g s = 0) : MemGood j g s := by
  unfold mM at h
  unfold MemGood
  split at h
  · assumption
  · omega

end UrcuVerif.Gp
