import UrcuVerif.Machine.Upd
/-!
# C01/C02/C15 — QSBR flavor (`src/urcu-qsbr.c`, 64-bit single-pass variant) on x86-TSO

A reader is *online* while its announced counter is non-zero; its implicit read-side sections are
the intervals between two `rcu_quiescent_state()` / `rcu_thread_offline()` calls.  Every reader
store to its word is followed by a full fence before the reader does anything else
(`CMM_SEQ_CST` store, or store + `cmm_smp_mb()` in `rcu_thread_online`), so the store buffer
holds at most the one store the reader is currently fencing.

ghost: `inD i` = reader i's current section began before the tracked grace period incremented
`rcu_gp.ctr`; a section ends when the call that announces the next quiescent state *starts* and
the next one begins when that call returns.  Counters do not wrap (trusted base 7).
-/
namespace UrcuVerif.Qsbr

structure Cfg where
  n : Nat

inductive RPc | out | ld (g : Nat) | fence
  deriving DecidableEq, Repr
inductive UPc | idle | scan
  deriving DecidableEq, Repr

structure State where
  gp    : Nat                 -- rcu_gp.ctr / URCU_QSBR_GP_CTR (starts at 1: ONLINE bit folded in)
  reg   : Nat → Bool
  mctr  : Nat → Nat           -- memory copy of reader word (0 = offline)
  lctr  : Nat → Nat           -- reader's own view
  buf   : Nat → List Nat      -- store buffer, oldest first
  rpc   : Nat → RPc
  inD   : Nat → Bool
  sawX0 : Nat → Bool
  sawY1 : Nat → Bool
  xset  : Bool
  yset  : Bool
  tracked : Bool
  trackedDone : Bool
  upc   : UPc
  inp   : Nat → Bool

def init : State :=
  { gp := 1, reg := fun _ => false, mctr := fun _ => 0, lctr := fun _ => 0, buf := fun _ => [],
    rpc := fun _ => .out, inD := fun _ => false, sawX0 := fun _ => false, sawY1 := fun _ => false,
    xset := false, yset := false, tracked := false, trackedDone := false, upc := .idle, inp := fun _ => false }

inductive Label
  | reg (i : Nat) | unreg (i : Nat)
  | qLd (i : Nat)        -- quiescent_state()/thread_online(): load rcu_gp.ctr (ends the current section)
  | qSkip (i : Nat)      -- quiescent_state(): loaded value equals own word: nothing announced
  | qSt (i : Nat)        -- store own word := loaded value
  | qOff (i : Nat)       -- thread_offline(): store own word := 0 (ends the current section)
  | qFence (i : Nat)     -- the fence after the store completes: the call returns
  | rRead (i : Nat)      -- data loads of an online reader
  | flush (i : Nat)
  | uInc (trk : Bool)    -- registry non-empty: rcu_gp.ctr += GP_CTR reaches memory
  | uEmpty (trk : Bool)  -- registry empty
  | uScan (j : Nat)      -- reader j observed offline or current: moved to qsreaders
  | uEnd
  | setY
  deriving DecidableEq, Repr

def step (c : Cfg) (s : State) : Label → Option State
  | .reg i =>
    if i < c.n ∧ s.reg i = false ∧ s.rpc i = .out ∧ s.lctr i = 0 then
      some { s with reg := upd s.reg i true, inp := if s.upc = .scan then upd s.inp i true else s.inp }
    else none
  | .unreg i =>
    -- rcu_unregister_thread() goes offline first
    if i < c.n ∧ s.reg i = true ∧ s.rpc i = .out ∧ s.lctr i = 0 then
      some { s with reg := upd s.reg i false, inp := upd s.inp i false }
    else none
  | .qLd i =>
    if i < c.n ∧ s.reg i = true ∧ s.rpc i = .out then
      some { s with rpc := upd s.rpc i (.ld s.gp), inD := upd s.inD i false }
    else none
  | .qSkip i =>
    match s.rpc i with
    | .ld g =>
      if i < c.n ∧ g = s.lctr i ∧ s.lctr i ≠ 0 then
        some { s with rpc := upd s.rpc i .out, inD := upd s.inD i (!s.xset),
                      sawX0 := upd s.sawX0 i false, sawY1 := upd s.sawY1 i false }
      else none
    | _ => none
  | .qSt i =>
    match s.rpc i with
    | .ld g =>
      if i < c.n ∧ g ≠ s.lctr i then
        some { s with lctr := upd s.lctr i g, buf := upd s.buf i (s.buf i ++ [g]), rpc := upd s.rpc i .fence }
      else none
    | _ => none
  | .qOff i =>
    -- (rcu_unregister_thread() calls it unconditionally: an offline thread stores 0 again)
    if i < c.n ∧ s.reg i = true ∧ s.rpc i = .out then
      some { s with lctr := upd s.lctr i 0, buf := upd s.buf i (s.buf i ++ [0]), rpc := upd s.rpc i .fence,
                    inD := upd s.inD i false }
    else none
  | .qFence i =>
    if i < c.n ∧ s.rpc i = .fence ∧ s.buf i = [] then
      some { s with rpc := upd s.rpc i .out, inD := upd s.inD i (decide (s.lctr i ≠ 0) && !s.xset),
                    sawX0 := upd s.sawX0 i false, sawY1 := upd s.sawY1 i false }
    else none
  | .rRead i =>
    if i < c.n ∧ s.rpc i = .out ∧ s.lctr i ≠ 0 then
      some { s with sawX0 := upd s.sawX0 i (s.sawX0 i || !s.xset), sawY1 := upd s.sawY1 i (s.sawY1 i || s.yset) }
    else none
  | .flush i =>
    match s.buf i with
    | e :: rest => some { s with mctr := upd s.mctr i e, buf := upd s.buf i rest }
    | [] => none
  | .uInc trk =>
    if s.upc = .idle ∧ (trk = true → s.xset = false) ∧ (∃ i, i < c.n ∧ s.reg i = true) then
      some { s with gp := s.gp + 1, upc := .scan, inp := s.reg, xset := s.xset || trk, tracked := trk }
    else none
  | .uEmpty trk =>
    if s.upc = .idle ∧ (trk = true → s.xset = false) ∧ (∀ i, i < c.n → s.reg i = false) then
      some { s with xset := s.xset || trk, trackedDone := s.trackedDone || trk }
    else none
  | .uScan j =>
    if s.upc = .scan ∧ j < c.n ∧ s.inp j = true ∧ (s.mctr j = 0 ∨ s.mctr j = s.gp) then
      some { s with inp := upd s.inp j false }
    else none
  | .uEnd =>
    if s.upc = .scan ∧ (∀ j, j < c.n → s.inp j = false) then
      some { s with upc := .idle, trackedDone := s.trackedDone || s.tracked, tracked := false }
    else none
  | .setY => if s.trackedDone = true then some { s with yset := true } else none

inductive Reach (c : Cfg) : State → Prop
  | init : Reach c init
  | step {s s' l} : Reach c s → step c s l = some s' → Reach c s'

structure Inv (c : Cfg) (s : State) : Prop where
  gp_pos : 1 ≤ s.gp
  lctr_le : ∀ i, s.lctr i ≤ s.gp
  ld_le : ∀ i g, s.rpc i = .ld g → g ≤ s.gp ∧ 1 ≤ g
  d_out : ∀ i, s.inD i = true → s.rpc i = .out ∧ s.lctr i ≠ 0
  rpc_reg : ∀ i, (s.rpc i ≠ .out ∨ s.lctr i ≠ 0) → s.reg i = true ∧ i < c.n
  out_view : ∀ i, s.rpc i ≠ .fence → s.buf i = []
  empty_view : ∀ i, s.buf i = [] → s.mctr i = s.lctr i
  buf_last : ∀ i e, (s.buf i).getLast? = some e → e = s.lctr i
  trk_x : s.tracked = true → s.xset = true
  td_x : s.trackedDone = true → s.xset = true
  y_td : s.yset = true → s.trackedDone = true
  idle_untracked : s.upc = .idle → s.tracked = false
  d_old : s.tracked = true → ∀ i, s.inD i = true → s.lctr i < s.gp ∧ s.inp i = true
  done_td : s.trackedDone = true → ∀ i, s.inD i = false
  old_in_d : ∀ i, s.rpc i = .out → s.lctr i ≠ 0 → s.xset = false → s.inD i = true
  x0_in_d : ∀ i, s.rpc i = .out → s.lctr i ≠ 0 → s.sawX0 i = true → s.inD i = true
  y1_not_d : ∀ i, s.rpc i = .out → s.lctr i ≠ 0 → s.sawY1 i = true → s.inD i = false
  inp_reg : s.upc = .scan → ∀ i, s.inp i = true → s.reg i = true

theorem inv_init (c) : Inv c init := by
  constructor <;> simp [init]

set_option hygiene false in
macro "q_tac" : tactic => `(tactic| (
  simp only [step] at st
  (repeat' split at st)
  all_goals (first | (simp at st; done) | skip)
  all_goals (simp only [Option.some.injEq] at st; subst st)
  all_goals (constructor <;> simp only [upd] at * <;>
    grind [getLast?_snoc, snoc_ne_nil, getLast?_cons_cons', getLast?_single])))

set_option linter.unusedVariables false

theorem inv_reg (c : Cfg) {s s' : State} (h : Inv c s) (i)
    (st : step c s (.reg i) = some s') : Inv c s' := by
  obtain ⟨h1, h2, h3, h4, h5, h6, h6b, h7, h8, h9, h10, h11, h12, h13, h14, h15, h16, h17⟩ := h
  q_tac

theorem inv_unreg (c : Cfg) {s s' : State} (h : Inv c s) (i)
    (st : step c s (.unreg i) = some s') : Inv c s' := by
  obtain ⟨h1, h2, h3, h4, h5, h6, h6b, h7, h8, h9, h10, h11, h12, h13, h14, h15, h16, h17⟩ := h
  q_tac

theorem inv_qLd (c : Cfg) {s s' : State} (h : Inv c s) (i)
    (st : step c s (.qLd i) = some s') : Inv c s' := by
  obtain ⟨h1, h2, h3, h4, h5, h6, h6b, h7, h8, h9, h10, h11, h12, h13, h14, h15, h16, h17⟩ := h
  q_tac

theorem inv_qSkip (c : Cfg) {s s' : State} (h : Inv c s) (i)
    (st : step c s (.qSkip i) = some s') : Inv c s' := by
  obtain ⟨h1, h2, h3, h4, h5, h6, h6b, h7, h8, h9, h10, h11, h12, h13, h14, h15, h16, h17⟩ := h
  q_tac

theorem inv_qSt (c : Cfg) {s s' : State} (h : Inv c s) (i)
    (st : step c s (.qSt i) = some s') : Inv c s' := by
  obtain ⟨h1, h2, h3, h4, h5, h6, h6b, h7, h8, h9, h10, h11, h12, h13, h14, h15, h16, h17⟩ := h
  q_tac

theorem inv_qOff (c : Cfg) {s s' : State} (h : Inv c s) (i)
    (st : step c s (.qOff i) = some s') : Inv c s' := by
  obtain ⟨h1, h2, h3, h4, h5, h6, h6b, h7, h8, h9, h10, h11, h12, h13, h14, h15, h16, h17⟩ := h
  q_tac

theorem inv_qFence (c : Cfg) {s s' : State} (h : Inv c s) (i)
    (st : step c s (.qFence i) = some s') : Inv c s' := by
  obtain ⟨h1, h2, h3, h4, h5, h6, h6b, h7, h8, h9, h10, h11, h12, h13, h14, h15, h16, h17⟩ := h
  q_tac

theorem inv_rRead (c : Cfg) {s s' : State} (h : Inv c s) (i)
    (st : step c s (.rRead i) = some s') : Inv c s' := by
  obtain ⟨h1, h2, h3, h4, h5, h6, h6b, h7, h8, h9, h10, h11, h12, h13, h14, h15, h16, h17⟩ := h
  q_tac

theorem inv_flush (c : Cfg) {s s' : State} (h : Inv c s) (i)
    (st : step c s (.flush i) = some s') : Inv c s' := by
  obtain ⟨h1, h2, h3, h4, h5, h6, h6b, h7, h8, h9, h10, h11, h12, h13, h14, h15, h16, h17⟩ := h
  q_tac

theorem inv_uInc (c : Cfg) {s s' : State} (h : Inv c s) (trk)
    (st : step c s (.uInc trk) = some s') : Inv c s' := by
  obtain ⟨h1, h2, h3, h4, h5, h6, h6b, h7, h8, h9, h10, h11, h12, h13, h14, h15, h16, h17⟩ := h
  q_tac

theorem inv_uEmpty (c : Cfg) {s s' : State} (h : Inv c s) (trk)
    (st : step c s (.uEmpty trk) = some s') : Inv c s' := by
  obtain ⟨h1, h2, h3, h4, h5, h6, h6b, h7, h8, h9, h10, h11, h12, h13, h14, h15, h16, h17⟩ := h
  q_tac

theorem inv_uScan (c : Cfg) {s s' : State} (h : Inv c s) (j)
    (st : step c s (.uScan j) = some s') : Inv c s' := by
  obtain ⟨h1, h2, h3, h4, h5, h6, h6b, h7, h8, h9, h10, h11, h12, h13, h14, h15, h16, h17⟩ := h
  q_tac

theorem inv_uEnd (c : Cfg) {s s' : State} (h : Inv c s)
    (st : step c s .uEnd = some s') : Inv c s' := by
  obtain ⟨h1, h2, h3, h4, h5, h6, h6b, h7, h8, h9, h10, h11, h12, h13, h14, h15, h16, h17⟩ := h
  q_tac

theorem inv_setY (c : Cfg) {s s' : State} (h : Inv c s)
    (st : step c s .setY = some s') : Inv c s' := by
  obtain ⟨h1, h2, h3, h4, h5, h6, h6b, h7, h8, h9, h10, h11, h12, h13, h14, h15, h16, h17⟩ := h
  q_tac

theorem inv_step (c : Cfg) {s s' : State} {l : Label} (h : Inv c s)
    (st : step c s l = some s') : Inv c s' := by
  cases l with
  | reg i => exact inv_reg c h i st
  | unreg i => exact inv_unreg c h i st
  | qLd i => exact inv_qLd c h i st
  | qSkip i => exact inv_qSkip c h i st
  | qSt i => exact inv_qSt c h i st
  | qOff i => exact inv_qOff c h i st
  | qFence i => exact inv_qFence c h i st
  | rRead i => exact inv_rRead c h i st
  | flush i => exact inv_flush c h i st
  | uInc trk => exact inv_uInc c h trk st
  | uEmpty trk => exact inv_uEmpty c h trk st
  | uScan j => exact inv_uScan c h j st
  | uEnd => exact inv_uEnd c h st
  | setY => exact inv_setY c h st

theorem inv_reach (c : Cfg) {s : State} (h : Reach c s) : Inv c s := by
  induction h with
  | init => exact inv_init c
  | step _ st ih => exact inv_step c ih st

end UrcuVerif.Qsbr
