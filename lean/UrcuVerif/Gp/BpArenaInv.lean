import UrcuVerif.Gp.BpArena
/-! Invariants of the bp registry arena model and of the registration-versus-signals model
(helper lemmas; the property statements are in `Props/C15Bp.lean`). -/
namespace UrcuVerif.BpArena
open UrcuVerif.Gen (INIT_READER_COUNT)

/-- side condition on the generated constant, re-proved on every run -/
theorem init_reader_count_pos : 0 < INIT_READER_COUNT := by decide

/-! ### chunks -/

/-- the data invariant of one chunk: `readers[]` has `capacity` elements and `used` counts the
allocated ones -/
structure Chunk.WF (c : Chunk) : Prop where
  len  : c.slots.length = c.cap
  used : c.used = c.slots.countP (·.isSome)

theorem Chunk.fresh_wf (n : Nat) : (Chunk.fresh n).WF := by
  constructor <;> simp [Chunk.fresh, List.countP_replicate]

theorem Chunk.grow_wf {c : Chunk} (h : c.WF) : c.grow.WF := by
  obtain ⟨h1, h2⟩ := h
  constructor
  · simp [Chunk.grow, h1]; omega
  · simp [Chunk.grow, List.countP_append, List.countP_replicate, h2]

theorem full_iff {c : Chunk} (h : c.WF) : c.used = c.cap ↔ ∀ x ∈ c.slots, x.isSome = true := by
  rw [h.used, ← h.len]
  exact List.countP_eq_length

/-! ### slot lookup under the primitive updates -/

theorem slotAt_some_iff {cs : List Chunk} {k i t : Nat} :
    slotAt cs k i = some t ↔ ∃ c, cs[k]? = some c ∧ c.slots[i]? = some (some t) := by
  unfold slotAt
  cases h : cs[k]? with
  | none => simp
  | some c =>
    simp only [Option.some.injEq, exists_eq_left']
    rcases h2 : c.slots[i]? with _ | _ | u <;> simp

theorem slotAt_none_of_free {cs : List Chunk} {k i : Nat} {c : Chunk} (hk : cs[k]? = some c)
    (hi : c.slots[i]? = some none) : slotAt cs k i = none := by
  simp [slotAt, hk, hi]

theorem slotAt_mark {cs : List Chunk} {k i t : Nat} {c : Chunk} (hk : cs[k]? = some c)
    (hi : i < c.slots.length) (k' i' : Nat) :
    slotAt (mark cs k i t) k' i' = if k' = k ∧ i' = i then some t else slotAt cs k' i' := by
  unfold slotAt mark
  rw [List.getElem?_modify]
  by_cases hkk : k = k'
  · subst hkk
    simp only [hk, Option.map_eq_map, Option.map_some, if_true, true_and]
    rw [List.getElem?_set]
    by_cases hii : i = i'
    · subst hii; simp [hi]
    · simp [hii, Ne.symm hii]
  · have : ¬ (k' = k ∧ i' = i) := fun h => hkk h.1.symm
    simp only [hkk, if_false, this]
    cases cs[k']? <;> simp

theorem slotAt_clear (cs : List Chunk) (k i k' i' : Nat) :
    slotAt (clear cs k i) k' i' = if k' = k ∧ i' = i then none else slotAt cs k' i' := by
  unfold slotAt clear
  rw [List.getElem?_modify]
  by_cases hkk : k = k'
  · subst hkk
    cases hk : cs[k]? with
    | none => simp
    | some c =>
      simp only [Option.map_eq_map, Option.map_some, if_true, true_and]
      rw [List.getElem?_set]
      by_cases hii : i = i'
      · subst hii
        by_cases hl : i < c.slots.length <;> simp [hl]
      · simp [hii, Ne.symm hii]
  · have : ¬ (k' = k ∧ i' = i) := fun h => hkk h.1.symm
    simp only [hkk, if_false, this]
    cases cs[k']? <;> simp

theorem prune_aux (t : Nat) (o : Option (Option Nat)) :
    (o.map (fun x => if x = some t then x else none)).join =
      if o.join = some t then some t else none := by
  rcases o with _ | _ | u
  · simp
  · simp
  · by_cases hu : u = t <;> simp [hu]

theorem slotAt_prune (cs : List Chunk) (t k i : Nat) :
    slotAt (cs.map (pruneChunk t)) k i = if slotAt cs k i = some t then some t else none := by
  unfold slotAt
  rw [List.getElem?_map]
  cases cs[k]? with
  | none => simp
  | some c =>
    simp only [Option.map_some, pruneChunk, List.getElem?_map]
    exact prune_aux t _

theorem slotAt_append (l : List Chunk) (c : Chunk) (k i : Nat) :
    slotAt (l ++ [c]) k i =
      if k < l.length then slotAt l k i else if k = l.length then slotAt [c] 0 i else none := by
  unfold slotAt
  rw [List.getElem?_append]
  by_cases h : k < l.length
  · simp [h]
  · simp only [h, if_false]
    by_cases h2 : k = l.length
    · simp [h2]
    · have : 0 < k - l.length := by omega
      have h3 : [c][k - l.length]? = none := by
        apply List.getElem?_eq_none; simp; omega
      simp [h2, h3]

theorem slotAt_fresh (n i : Nat) : slotAt [Chunk.fresh n] 0 i = none := by
  simp only [slotAt, Chunk.fresh, List.getElem?_cons_zero, List.getElem?_replicate]
  by_cases h : i < n <;> simp [h]

theorem slotAt_grow (c : Chunk) (i : Nat) : slotAt [c.grow] 0 i = slotAt [c] 0 i := by
  simp only [slotAt, Chunk.grow, List.getElem?_cons_zero, List.getElem?_append,
    List.getElem?_replicate]
  by_cases h : i < c.slots.length
  · simp [h]
  · have : c.slots[i]? = none := List.getElem?_eq_none (by omega)
    simp only [h, if_false, this]
    by_cases h2 : i - c.slots.length < c.cap * 2 - c.cap <;> simp [h2]

/-! ### `expand_arena` in append form -/

theorem modify_last {α} (l : List α) (x : α) (f : α → α) :
    (l ++ [x]).modify ((l ++ [x]).length - 1) f = l ++ [f x] := by
  induction l with
  | nil => simp [List.modify]
  | cons a l ih =>
    have : (a :: (l ++ [x])).length - 1 = (l ++ [x]).length - 1 + 1 := by simp
    rw [List.cons_append, this, List.modify_succ_cons, ih]; rfl

theorem expand_nil (g : Growth) : expand [] g = ([Chunk.fresh INIT_READER_COUNT], .first) := by
  simp [expand]

theorem expand_snoc (l : List Chunk) (c : Chunk) (g : Growth) :
    expand (l ++ [c]) g =
      match g with
      | .inPlace => (l ++ [c.grow], .inPlace)
      | .newChunk => (l ++ [c] ++ [Chunk.fresh (c.cap * 2)], .newChunk) := by
  unfold expand
  rw [List.getLast?_concat]
  cases g with
  | inPlace => simp only [modify_last]
  | newChunk => rfl

theorem nil_or_snoc {α} (l : List α) : l = [] ∨ ∃ l0 x, l = l0 ++ [x] := by
  cases h : l.getLast? with
  | none => left; simpa using h
  | some x => right; obtain ⟨ys, hy⟩ := List.getLast?_eq_some_iff.mp h; exact ⟨ys, x, hy⟩

theorem slotAt_expand (cs : List Chunk) (g : Growth) (k i : Nat) :
    slotAt (expand cs g).1 k i = slotAt cs k i := by
  rcases nil_or_snoc cs with rfl | ⟨l, c, rfl⟩
  · rw [expand_nil]
    cases k with
    | zero => rw [slotAt_fresh]; simp [slotAt]
    | succ k => simp [slotAt]
  · rw [expand_snoc]
    cases g with
    | inPlace =>
      simp only [slotAt_append, slotAt_grow]
    | newChunk =>
      simp only
      rw [slotAt_append (l ++ [c])]
      have hl : (l ++ [c]).length = l.length + 1 := by simp
      by_cases h : k < (l ++ [c]).length
      · rw [if_pos h]
      · rw [if_neg h]
        simp only [slotAt_fresh]
        rw [slotAt_append]
        have h1 : ¬ k < l.length := by omega
        have h2 : ¬ k = l.length := by omega
        simp [h1, h2]

theorem expand_wf {cs : List Chunk} (h : ∀ c ∈ cs, c.WF) (g : Growth) :
    ∀ c ∈ (expand cs g).1, c.WF := by
  rcases nil_or_snoc cs with rfl | ⟨l, c, rfl⟩
  · rw [expand_nil]; intro c hc; simp at hc; subst hc; exact Chunk.fresh_wf _
  · rw [expand_snoc]
    cases g with
    | inPlace =>
      intro x hx
      simp only [List.mem_append, List.mem_singleton] at hx
      rcases hx with hx | rfl
      · exact h x (by simp [hx])
      · exact Chunk.grow_wf (h c (by simp))
    | newChunk =>
      intro x hx
      simp only [List.mem_append, List.mem_singleton] at hx
      rcases hx with hx | rfl
      · exact h x (by simpa using hx)
      · exact Chunk.fresh_wf _

/-! ### the scan of `arena_alloc` -/

theorem scan_some {cs : List Chunk} (hwf : ∀ c ∈ cs, c.WF) {k0 k i : Nat}
    (h : scan cs k0 = some (k, i)) :
    k0 ≤ k ∧ ∃ c, cs[k - k0]? = some c ∧ c.slots[i]? = some none ∧
      (∀ j, j < i → ∃ t, c.slots[j]? = some (some t)) ∧
      (∀ k' c', k' < k - k0 → cs[k']? = some c' → ∀ x ∈ c'.slots, x.isSome = true) := by
  induction cs generalizing k0 with
  | nil => simp [scan] at h
  | cons c cs ih =>
    have hc := hwf c (by simp)
    have hrest : ∀ c ∈ cs, c.WF := fun x hx => hwf x (by simp [hx])
    have skip : (∀ x ∈ c.slots, x.isSome = true) → scan cs (k0 + 1) = some (k, i) →
        k0 ≤ k ∧ ∃ c', (c :: cs)[k - k0]? = some c' ∧ c'.slots[i]? = some none ∧
        (∀ j, j < i → ∃ t, c'.slots[j]? = some (some t)) ∧
        (∀ k' c'', k' < k - k0 → (c :: cs)[k']? = some c'' → ∀ x ∈ c''.slots, x.isSome = true) := by
      intro hfull h
      obtain ⟨h1, c', h2, h3, h4, h5⟩ := ih hrest h
      refine ⟨by omega, c', ?_, h3, h4, ?_⟩
      · have : k - k0 = (k - (k0 + 1)) + 1 := by omega
        rw [this, List.getElem?_cons_succ]; exact h2
      · intro k' c'' hk' hc''
        cases k' with
        | zero => simp at hc''; subst hc''; exact hfull
        | succ k' =>
          rw [List.getElem?_cons_succ] at hc''
          exact h5 k' c'' (by omega) hc''
    simp only [scan] at h
    split at h
    · next hu => exact skip ((full_iff hc).mp hu) h
    · next hu =>
      split at h
      · next j hj =>
        simp only [Option.some.injEq, Prod.mk.injEq] at h
        obtain ⟨rfl, rfl⟩ := h
        obtain ⟨hlt, hp, hbefore⟩ := List.findIdx?_eq_some_iff_getElem.mp hj
        refine ⟨Nat.le_refl _, c, by simp, ?_, ?_, ?_⟩
        · rw [List.getElem?_eq_getElem hlt]
          cases hx : c.slots[j] with
          | none => rfl
          | some t => simp [hx] at hp
        · intro j' hj'
          have := hbefore j' hj'
          have hlt' : j' < c.slots.length := by omega
          rw [List.getElem?_eq_getElem hlt']
          cases hx : c.slots[j'] with
          | none => simp [hx] at this
          | some t => exact ⟨t, rfl⟩
        · intro k' c' hk'; omega
      · next hj =>
        exfalso
        apply hu
        apply (full_iff hc).mpr
        intro x hx
        have := List.findIdx?_eq_none_iff.mp hj x hx
        cases x <;> simp_all

theorem scan_none {cs : List Chunk} (hwf : ∀ c ∈ cs, c.WF) {k0 : Nat} (h : scan cs k0 = none) :
    ∀ c ∈ cs, ∀ x ∈ c.slots, x.isSome = true := by
  induction cs generalizing k0 with
  | nil => simp
  | cons c cs ih =>
    have hc := hwf c (by simp)
    have hrest : ∀ c ∈ cs, c.WF := fun x hx => hwf x (by simp [hx])
    simp only [scan] at h
    split at h
    · next hu =>
      intro x hx
      simp only [List.mem_cons] at hx
      rcases hx with rfl | hx
      · exact (full_iff hc).mp hu
      · exact ih hrest h x hx
    · next hu =>
      split at h
      · simp at h
      · next hj =>
        exfalso
        apply hu
        apply (full_iff hc).mpr
        intro x hx
        have := List.findIdx?_eq_none_iff.mp hj x hx
        cases x <;> simp_all

/-! ### the primitive updates keep every chunk well formed -/

theorem mem_modify {α} {l : List α} {k : Nat} {f : α → α} {x : α} (h : x ∈ l.modify k f) :
    x ∈ l ∨ ∃ y, l[k]? = some y ∧ x = f y := by
  obtain ⟨j, hj⟩ := List.mem_iff_getElem?.mp h
  rw [List.getElem?_modify] at hj
  cases hy : l[j]? with
  | none => simp [hy] at hj
  | some y =>
    simp only [hy, Option.map_eq_map, Option.map_some, Option.some.injEq] at hj
    by_cases hk : k = j
    · subst hk; right; exact ⟨y, hy, by simpa using hj.symm⟩
    · left; simp only [hk, if_false] at hj; subst hj; exact List.mem_of_getElem? hy

theorem mark_wf {cs : List Chunk} (h : ∀ c ∈ cs, c.WF) {k i t : Nat} {c : Chunk}
    (hk : cs[k]? = some c) (hi : c.slots[i]? = some none) : ∀ c' ∈ mark cs k i t, c'.WF := by
  intro c' hc'
  rcases mem_modify hc' with hm | ⟨y, hy, rfl⟩
  · exact h c' hm
  · rw [hk] at hy; cases hy
    obtain ⟨hlt, hv⟩ := List.getElem?_eq_some_iff.mp hi
    have hw := h c (List.mem_of_getElem? hk)
    constructor
    · simp [hw.len]
    · simp only
      rw [List.countP_set hlt, hv, hw.used]; simp

theorem clear_wf {cs : List Chunk} (h : ∀ c ∈ cs, c.WF) {k i t : Nat}
    (hs : slotAt cs k i = some t) : ∀ c' ∈ clear cs k i, c'.WF := by
  obtain ⟨c, hk, hi⟩ := slotAt_some_iff.mp hs
  intro c' hc'
  rcases mem_modify hc' with hm | ⟨y, hy, rfl⟩
  · exact h c' hm
  · rw [hk] at hy; cases hy
    obtain ⟨hlt, hv⟩ := List.getElem?_eq_some_iff.mp hi
    have hw := h c (List.mem_of_getElem? hk)
    constructor
    · simp [hw.len]
    · simp only
      rw [List.countP_set hlt, hv, hw.used]; simp

theorem countP_prune (t : Nat) (l : List (Option Nat)) :
    (l.map fun x => if x = some t then x else none).countP (·.isSome) +
      l.countP (fun x => x.isSome && x != some t) = l.countP (·.isSome) := by
  induction l with
  | nil => simp
  | cons a l ih =>
    rw [List.countP_map] at ih ⊢
    simp only [List.countP_cons, Function.comp]
    rcases a with _ | u
    · simp only [reduceCtorEq, if_false, Option.isSome_none, Bool.false_and, Bool.false_eq_true]
      omega
    · by_cases hu : u = t
      · subst hu; simp; omega
      · simp [hu]; omega

theorem pruneChunk_wf (t : Nat) {c : Chunk} (h : c.WF) : (pruneChunk t c).WF := by
  constructor
  · simp [pruneChunk, h.len]
  · simp only [pruneChunk]
    have := countP_prune t c.slots
    rw [h.used]; omega

/-! ### the invariant -/

structure Inv (s : State) : Prop where
  wf        : ∀ c ∈ s.chunks, c.WF
  reg_nodup : s.registry.Nodup
  reg_iff   : ∀ k i, (k, i) ∈ s.registry ↔ (slotAt s.chunks k i).isSome = true
  tls_slot  : ∀ t k i, s.tls t = some (k, i) ↔ slotAt s.chunks k i = some t
  refc      : s.registry.length ≤ s.refcount

inductive Reach : State → Prop
  | init : Reach init
  | step {s s' op out} : Reach s → step s op = some (s', out) → Reach s'

theorem inv_init : Inv init := by
  constructor <;> simp [init, slotAt]

/-- what `arena_alloc` guarantees about the chunk list and slot it returns -/
theorem arenaAlloc_spec {cs cs' : List Chunk} {g : Growth} {k i : Nat} {gr : Grew}
    (hwf : ∀ c ∈ cs, c.WF) (h : arenaAlloc cs g = some (cs', (k, i), gr)) :
    (∀ c ∈ cs', c.WF) ∧ (∀ k' i', slotAt cs' k' i' = slotAt cs k' i') ∧
    (∃ c, cs'[k]? = some c ∧ c.slots[i]? = some none) ∧
    (gr = .no → cs' = cs) ∧ (gr ≠ .no → (cs', gr) = expand cs g ∧ scan cs 0 = none) := by
  unfold arenaAlloc at h
  split at h
  · next sl hsl =>
    simp only [Option.some.injEq, Prod.mk.injEq] at h
    obtain ⟨rfl, rfl, rfl⟩ := h
    obtain ⟨-, c, h2, h3, -, -⟩ := scan_some hwf hsl
    exact ⟨hwf, fun _ _ => rfl, ⟨c, by simpa using h2, h3⟩, fun _ => rfl, fun h => absurd rfl h⟩
  · next hnone =>
    have hw := expand_wf hwf g
    have hs := slotAt_expand cs g
    cases he : expand cs g with
    | mk cs1 g1 =>
      rw [he] at hw hs h
      simp only at h hw hs
      split at h
      · next sl hsl =>
        simp only [Option.some.injEq, Prod.mk.injEq] at h
        obtain ⟨rfl, rfl, rfl⟩ := h
        obtain ⟨-, c, h2, h3, -, -⟩ := scan_some hw hsl
        refine ⟨hw, hs, ⟨c, by simpa using h2, h3⟩, ?_, fun _ => ⟨rfl, hnone⟩⟩
        intro hno
        -- expand never answers `.no`
        exfalso
        rcases nil_or_snoc cs with rfl | ⟨l, c0, rfl⟩
        · rw [expand_nil] at he; cases he; cases hno
        · rw [expand_snoc] at he; cases g <;> simp at he <;> (obtain ⟨-, rfl⟩ := he; cases hno)
      · simp at h

theorem inv_step {s s' : State} {op : Op} {out : Out} (h : Inv s)
    (st : step s op = some (s', out)) : Inv s' := by
  obtain ⟨hwf, hnd, hri, hts, hrc⟩ := h
  cases op with
  | register t g =>
    simp only [step] at st
    split at st
    · simp at st
    · next htls =>
      split at st
      · next hguard =>
        split at st
        · simp at st
        · next cs k i gr ha =>
          simp only [Option.some.injEq, Prod.mk.injEq] at st
          obtain ⟨rfl, -⟩ := st
          obtain ⟨hw', hsame, ⟨c, hk, hi⟩, -, -⟩ := arenaAlloc_spec hwf ha
          have hlt : i < c.slots.length := (List.getElem?_eq_some_iff.mp hi).1
          have hfree : slotAt s.chunks k i = none := by
            rw [← hsame]; exact slotAt_none_of_free hk hi
          have hnotin : (k, i) ∉ s.registry := by
            intro hm; have := (hri k i).mp hm; simp [hfree] at this
          have hnot : ∀ k' i', slotAt s.chunks k' i' ≠ some t := by
            intro k' i' hc
            have := (hts t k' i').mpr hc
            simp [htls] at this
          constructor
          · exact mark_wf hw' hk hi
          · exact List.nodup_cons.mpr ⟨hnotin, hnd⟩
          · intro k' i'
            simp only [slotAt_mark hk hlt, hsame, List.mem_cons, Prod.mk.injEq]
            by_cases hc : k' = k ∧ i' = i
            · simp [hc]
            · simp only [hc, false_or, if_false]; exact hri k' i'
          · intro u k' i'
            simp only [slotAt_mark hk hlt, hsame, upd]
            by_cases hu : u = t
            · subst hu
              by_cases hc : k' = k ∧ i' = i
              · simp [hc]
              · simp only [if_true, hc, if_false, Option.some.injEq, Prod.mk.injEq]
                constructor
                · intro hx; exact absurd ⟨hx.1.symm, hx.2.symm⟩ hc
                · intro hx; exact absurd hx (hnot k' i')
            · simp only [hu, if_false]
              by_cases hc : k' = k ∧ i' = i
              · simp only [hc, and_self, if_true, Option.some.injEq]
                obtain ⟨rfl, rfl⟩ := hc
                constructor
                · intro hx; have := (hts u k' i').mp hx; simp [hfree] at this
                · intro hx; exact absurd hx.symm hu
              · simp only [hc, if_false]; exact hts u k' i'
          · simp only [List.length_cons]; omega
      · simp at st
  | unregister t =>
    simp only [step] at st
    split at st
    · simp at st
    · next k i htls =>
      simp only [Option.some.injEq, Prod.mk.injEq] at st
      obtain ⟨rfl, -⟩ := st
      have hs : slotAt s.chunks k i = some t := (hts t k i).mp htls
      have hin : (k, i) ∈ s.registry := (hri k i).mpr (by simp [hs])
      constructor
      · exact clear_wf hwf hs
      · exact hnd.erase _
      · intro k' i'
        simp only [slotAt_clear, hnd.mem_erase_iff, ne_eq, Prod.mk.injEq]
        by_cases hc : k' = k ∧ i' = i
        · simp [hc]
        · simp only [hc, not_false_eq_true, true_and, if_false]; exact hri k' i'
      · intro u k' i'
        simp only [slotAt_clear, upd]
        by_cases hu : u = t
        · subst hu
          simp only [if_true, reduceCtorEq, false_iff]
          by_cases hc : k' = k ∧ i' = i
          · simp [hc]
          · simp only [hc, if_false]
            intro hx
            have := (hts u k' i').mpr hx
            rw [htls] at this
            simp only [Option.some.injEq, Prod.mk.injEq] at this
            exact hc ⟨this.1.symm, this.2.symm⟩
        · simp only [hu, if_false]
          by_cases hc : k' = k ∧ i' = i
          · obtain ⟨rfl, rfl⟩ := hc
            simp only [and_self, if_true, reduceCtorEq, iff_false]
            intro hx
            have := (hts u k' i').mp hx
            rw [hs] at this
            exact hu (Option.some.inj this).symm
          · simp only [hc, if_false]; exact hts u k' i'
      · have := List.length_erase_of_mem hin
        simp only; omega
  | prune t =>
    simp only [step, Option.some.injEq, Prod.mk.injEq] at st
    obtain ⟨rfl, -⟩ := st
    constructor
    · intro c hc
      obtain ⟨c0, hc0, rfl⟩ := List.mem_map.mp hc
      exact pruneChunk_wf t (hwf c0 hc0)
    · exact List.filter_sublist.nodup hnd
    · intro k i
      simp only [slotAt_prune, List.mem_filter, beq_iff_eq]
      by_cases hx : slotAt s.chunks k i = some t
      · simp [hx, hri k i]
      · simp [hx]
    · intro u k i
      simp only [slotAt_prune]
      by_cases hu : u = t
      · subst hu
        simp only [if_true]
        rw [hts u k i]
        by_cases hx : slotAt s.chunks k i = some u <;> simp [hx]
      · simp only [hu, if_false, reduceCtorEq, false_iff]
        by_cases hx : slotAt s.chunks k i = some t
        · simp only [hx, if_true, Option.some.injEq]; exact fun h => hu h.symm
        · simp [hx]
    · have := List.length_filter_le (fun (x : Nat × Nat) => slotAt s.chunks x.1 x.2 == some t) s.registry
      simp only; omega
  | libInit =>
    simp only [step, Option.some.injEq, Prod.mk.injEq] at st
    obtain ⟨rfl, -⟩ := st
    exact ⟨hwf, hnd, hri, hts, by simp only; omega⟩
  | libExit =>
    simp only [step] at st
    split at st
    · next hguard =>
      split at st
      · next hz =>
        simp only [Option.some.injEq, Prod.mk.injEq] at st
        obtain ⟨rfl, -⟩ := st
        have hempty : s.registry = [] := List.eq_nil_of_length_eq_zero (by omega)
        have hnone : ∀ k i, slotAt s.chunks k i = none := by
          intro k i
          cases hx : slotAt s.chunks k i with
          | none => rfl
          | some u =>
            have := (hri k i).mpr (by simp [hx])
            simp [hempty] at this
        constructor
        · simp
        · exact hnd
        · intro k i; simp [hempty, slotAt]
        · intro u k i
          simp only [slotAt, List.getElem?_nil, reduceCtorEq, iff_false]
          intro hx
          have := (hts u k i).mp hx
          simp [hnone] at this
        · simp only; omega
      · simp only [Option.some.injEq, Prod.mk.injEq] at st
        obtain ⟨rfl, -⟩ := st
        exact ⟨hwf, hnd, hri, hts, by simp only; omega⟩
    · simp at st

theorem inv_reach {s : State} (h : Reach s) : Inv s := by
  induction h with
  | init => exact inv_init
  | step _ st ih => exact inv_step ih st

/-! ### capacities -/

/-- the chunk capacities, in chunk-list order -/
def caps (cs : List Chunk) : List Nat := cs.map (·.cap)

theorem caps_modify {cs : List Chunk} {k : Nat} {f : Chunk → Chunk} (hf : ∀ c, (f c).cap = c.cap) :
    caps (cs.modify k f) = caps cs := by
  apply List.ext_getElem?
  intro j
  simp only [caps, List.getElem?_map, List.getElem?_modify]
  cases cs[j]? with
  | none => rfl
  | some c => by_cases h : k = j <;> simp [h, hf]

theorem caps_mark (cs k i t) : caps (mark cs k i t) = caps cs := caps_modify (fun _ => rfl)
theorem caps_clear (cs k i) : caps (clear cs k i) = caps cs := caps_modify (fun _ => rfl)
theorem caps_prune (cs t) : caps (cs.map (pruneChunk t)) = caps cs := by
  simp [caps, pruneChunk, Function.comp_def]

/-- **the capacity rule of `expand_arena`**, on the list of capacities -/
theorem caps_expand (cs : List Chunk) (g : Growth) :
    (cs = [] ∧ expand cs g = ([Chunk.fresh INIT_READER_COUNT], .first)) ∨
    (∃ l x, caps cs = l ++ [x] ∧
      ((g = .inPlace ∧ (expand cs g).2 = .inPlace ∧ caps (expand cs g).1 = l ++ [x * 2]) ∨
       (g = .newChunk ∧ (expand cs g).2 = .newChunk ∧ caps (expand cs g).1 = l ++ [x, x * 2]))) := by
  rcases nil_or_snoc cs with rfl | ⟨l, c, rfl⟩
  · left; exact ⟨rfl, expand_nil g⟩
  · right
    refine ⟨caps l, c.cap, by simp [caps], ?_⟩
    rw [expand_snoc]
    cases g with
    | inPlace => left; simp [caps, Chunk.grow]
    | newChunk => right; simp [caps, Chunk.fresh]

/-- closed form of the capacities after `n` expansions since the chunk list was last empty -/
structure CapsOk (l : List Nat) (n : Nat) : Prop where
  nil_iff : l = [] ↔ n = 0
  last    : ∀ x, l.getLast? = some x → x = INIT_READER_COUNT * 2 ^ (n - 1)
  incr    : l.Pairwise (· < ·)
  pow     : ∀ x ∈ l, ∃ e, e < n ∧ x = INIT_READER_COUNT * 2 ^ e

theorem capsOk_nil : CapsOk [] 0 := by
  constructor <;> simp

theorem capsOk_first : CapsOk [INIT_READER_COUNT] 1 := by
  constructor <;> simp

theorem pow_pred {n : Nat} (h : n ≠ 0) : 2 ^ n = 2 ^ (n - 1) * 2 := by
  cases n with
  | zero => exact absurd rfl h
  | succ n => simp [Nat.pow_succ]

theorem capsOk_inplace {l : List Nat} {x n : Nat} (h : CapsOk (l ++ [x]) n) :
    CapsOk (l ++ [x * 2]) (n + 1) := by
  obtain ⟨h1, h2, h3, h4⟩ := h
  have hn : n ≠ 0 := fun hn => by have := h1.mpr hn; simp at this
  have hx := h2 x (by simp)
  have hp := List.pairwise_append.mp h3
  constructor
  · simp
  · intro y hy
    simp only [List.getLast?_concat, Option.some.injEq] at hy
    subst hy
    simp only [Nat.add_sub_cancel]
    rw [pow_pred hn, ← Nat.mul_assoc, ← hx]
  · apply List.pairwise_append.mpr
    refine ⟨hp.1, by simp, ?_⟩
    intro a ha b hb
    simp only [List.mem_singleton] at hb
    subst hb
    have := hp.2.2 a ha x (by simp)
    omega
  · intro y hy
    simp only [List.mem_append, List.mem_singleton] at hy
    rcases hy with hy | rfl
    · obtain ⟨e, he, rfl⟩ := h4 y (by simp [hy])
      exact ⟨e, by omega, rfl⟩
    · exact ⟨n, by omega, by rw [pow_pred hn, ← Nat.mul_assoc, ← hx]⟩

theorem capsOk_newchunk {l : List Nat} {x n : Nat} (h : CapsOk (l ++ [x]) n) :
    CapsOk (l ++ [x, x * 2]) (n + 1) := by
  obtain ⟨h1, h2, h3, h4⟩ := h
  have hn : n ≠ 0 := fun hn => by have := h1.mpr hn; simp at this
  have hx := h2 x (by simp)
  have hpos : 0 < x := by
    rw [hx]; exact Nat.mul_pos init_reader_count_pos (Nat.pow_pos (by decide))
  have hp := List.pairwise_append.mp h3
  have e1 : l ++ [x, x * 2] = (l ++ [x]) ++ [x * 2] := by simp
  constructor
  · simp
  · intro y hy
    rw [e1, List.getLast?_concat] at hy
    simp only [Option.some.injEq] at hy
    subst hy
    simp only [Nat.add_sub_cancel]
    rw [pow_pred hn, ← Nat.mul_assoc, ← hx]
  · rw [e1]
    apply List.pairwise_append.mpr
    refine ⟨h3, by simp, ?_⟩
    intro a ha b hb
    simp only [List.mem_singleton] at hb
    subst hb
    simp only [List.mem_append, List.mem_singleton] at ha
    rcases ha with ha | rfl
    · have := hp.2.2 a ha x (by simp); omega
    · omega
  · intro y hy
    rw [e1] at hy
    simp only [List.mem_append, List.mem_singleton] at hy
    rcases hy with (hy | rfl) | rfl
    · obtain ⟨e, he, rfl⟩ := h4 y (by simp [hy])
      exact ⟨e, by omega, rfl⟩
    · obtain ⟨e, he, h⟩ := h4 y (by simp)
      exact ⟨e, by omega, h⟩
    · exact ⟨n, by omega, by rw [pow_pred hn, ← Nat.mul_assoc, ← hx]⟩

/-- what a successful `register` does to the capacities -/
theorem register_caps {s s' : State} {t : Nat} {g : Growth} {k i : Nat} {gr : Grew}
    (hwf : ∀ c ∈ s.chunks, c.WF)
    (st : step s (.register t g) = some (s', .slot k i gr)) :
    match gr with
    | .no => caps s'.chunks = caps s.chunks ∧ s'.nexp = s.nexp
    | .first => s.chunks = [] ∧ caps s'.chunks = [INIT_READER_COUNT] ∧ s'.nexp = s.nexp + 1
    | .inPlace => ∃ l x, caps s.chunks = l ++ [x] ∧ caps s'.chunks = l ++ [x * 2] ∧ s'.nexp = s.nexp + 1
    | .newChunk => ∃ l x, caps s.chunks = l ++ [x] ∧ caps s'.chunks = l ++ [x, x * 2] ∧ s'.nexp = s.nexp + 1 := by
  simp only [step] at st
  split at st
  · simp at st
  · split at st
    · split at st
      · simp at st
      · next cs k' i' gr' ha =>
        simp only [Option.some.injEq, Prod.mk.injEq, Out.slot.injEq] at st
        obtain ⟨rfl, rfl, rfl, rfl⟩ := st
        obtain ⟨-, -, -, hno, hgr⟩ := arenaAlloc_spec hwf ha
        simp only [caps_mark]
        cases gr' with
        | no => simp [hno rfl]
        | first =>
          obtain ⟨he, -⟩ := hgr (by simp)
          rcases caps_expand s.chunks g with ⟨hnil, hex⟩ | ⟨l, x, hc, h | h⟩
          · rw [hex] at he; cases he; exact ⟨hnil, by simp [caps, Chunk.fresh], by simp⟩
          · rw [← he] at h; simp at h
          · rw [← he] at h; simp at h
        | inPlace =>
          obtain ⟨he, -⟩ := hgr (by simp)
          rcases caps_expand s.chunks g with ⟨hnil, hex⟩ | ⟨l, x, hc, h | h⟩
          · rw [hex] at he; cases he
          · rw [← he] at h; exact ⟨l, x, hc, h.2.2, by simp⟩
          · rw [← he] at h; simp at h
        | newChunk =>
          obtain ⟨he, -⟩ := hgr (by simp)
          rcases caps_expand s.chunks g with ⟨hnil, hex⟩ | ⟨l, x, hc, h | h⟩
          · rw [hex] at he; cases he
          · rw [← he] at h; simp at h
          · rw [← he] at h; exact ⟨l, x, hc, h.2.2, by simp⟩
    · simp at st

theorem capsOk_step {s s' : State} {op : Op} {out : Out} (hwf : ∀ c ∈ s.chunks, c.WF)
    (h : CapsOk (caps s.chunks) s.nexp) (st : step s op = some (s', out)) :
    CapsOk (caps s'.chunks) s'.nexp := by
  cases op with
  | register t g =>
    cases out with
    | slot k i gr =>
      have := register_caps hwf st
      cases gr with
      | no => simp only at this; rw [this.1, this.2]; exact h
      | first =>
        simp only at this
        obtain ⟨hnil, hc, hn⟩ := this
        have : s.nexp = 0 := h.nil_iff.mp (by simp [caps, hnil])
        rw [hc, hn, this]; exact capsOk_first
      | inPlace =>
        simp only at this
        obtain ⟨l, x, hc, hc', hn⟩ := this
        rw [hc', hn]; rw [hc] at h; exact capsOk_inplace h
      | newChunk =>
        simp only at this
        obtain ⟨l, x, hc, hc', hn⟩ := this
        rw [hc', hn]; rw [hc] at h; exact capsOk_newchunk h
    | freed | pruned | unit =>
      simp only [step] at st
      split at st
      · simp at st
      · split at st
        · split at st <;> simp at st
        · simp at st
  | unregister t =>
    simp only [step] at st
    split at st
    · simp at st
    · simp only [Option.some.injEq, Prod.mk.injEq] at st
      obtain ⟨rfl, -⟩ := st
      simpa [caps_clear] using h
  | prune t =>
    simp only [step, Option.some.injEq, Prod.mk.injEq] at st
    obtain ⟨rfl, -⟩ := st
    simpa [caps_prune] using h
  | libInit =>
    simp only [step, Option.some.injEq, Prod.mk.injEq] at st
    obtain ⟨rfl, -⟩ := st
    exact h
  | libExit =>
    simp only [step] at st
    split at st
    · split at st <;> simp only [Option.some.injEq, Prod.mk.injEq] at st <;> obtain ⟨rfl, -⟩ := st
      · exact capsOk_nil
      · exact h
    · simp at st

theorem capsOk_reach {s : State} (h : Reach s) : CapsOk (caps s.chunks) s.nexp := by
  induction h with
  | init => exact capsOk_nil
  | step hr st ih => exact capsOk_step (inv_reach hr).wf ih st

/-! ### consequences used by the property statements -/

theorem tls_preserved_step {s s' : State} {op : Op} {out : Out} {t k i : Nat}
    (st : step s op = some (s', out)) (hl : s.tls t = some (k, i))
    (h1 : op ≠ .unregister t) (h2 : ∀ u, op = .prune u → u = t) : s'.tls t = some (k, i) := by
  cases op with
  | register u g =>
    simp only [step] at st
    split at st
    · simp at st
    · next hu =>
      split at st
      · split at st
        · simp at st
        · simp only [Option.some.injEq, Prod.mk.injEq] at st
          obtain ⟨rfl, -⟩ := st
          have : t ≠ u := fun h => by subst h; simp [hl] at hu
          simp [upd, this, hl]
      · simp at st
  | unregister u =>
    simp only [step] at st
    split at st
    · simp at st
    · simp only [Option.some.injEq, Prod.mk.injEq] at st
      obtain ⟨rfl, -⟩ := st
      have : t ≠ u := fun h => h1 (by rw [h])
      simp [upd, this, hl]
  | prune u =>
    simp only [step, Option.some.injEq, Prod.mk.injEq] at st
    obtain ⟨rfl, -⟩ := st
    have := h2 u rfl
    subst this
    simp [hl]
  | libInit =>
    simp only [step, Option.some.injEq, Prod.mk.injEq] at st
    obtain ⟨rfl, -⟩ := st
    exact hl
  | libExit =>
    simp only [step] at st
    split at st
    · split at st <;> simp only [Option.some.injEq, Prod.mk.injEq] at st <;> obtain ⟨rfl, -⟩ := st <;> exact hl
    · simp at st

/-- what `register` returns, in terms of the state before the call -/
theorem register_spec {s s' : State} {t : Nat} {g : Growth} {k i : Nat} {gr : Grew} (h : Inv s)
    (st : step s (.register t g) = some (s', .slot k i gr)) :
    slotAt s.chunks k i = none ∧
    (gr = .no → ∃ c, s.chunks[k]? = some c ∧ c.slots[i]? = some none ∧
        (∀ j, j < i → ∃ u, c.slots[j]? = some (some u)) ∧
        ∀ k' c', k' < k → s.chunks[k']? = some c' → ∀ x ∈ c'.slots, x.isSome = true) ∧
    (gr ≠ .no → ∀ c ∈ s.chunks, ∀ x ∈ c.slots, x.isSome = true) := by
  simp only [step] at st
  split at st
  · simp at st
  · split at st
    · split at st
      · simp at st
      · next cs k' i' gr' ha =>
        simp only [Option.some.injEq, Prod.mk.injEq, Out.slot.injEq] at st
        obtain ⟨-, rfl, rfl, rfl⟩ := st
        obtain ⟨-, hsame, ⟨c, hk, hi⟩, hno, hgr⟩ := arenaAlloc_spec h.wf ha
        refine ⟨by rw [← hsame]; exact slotAt_none_of_free hk hi, ?_, ?_⟩
        · intro hg
          subst hg
          have := hno rfl
          subst this
          unfold arenaAlloc at ha
          split at ha
          · next sl hsl =>
            simp only [Option.some.injEq, Prod.mk.injEq] at ha
            obtain ⟨-, rfl, -⟩ := ha
            obtain ⟨-, c, h2, h3, h4, h5⟩ := scan_some h.wf hsl
            exact ⟨c, by simpa using h2, h3, h4, fun k' c' hk' => h5 k' c' (by simpa using hk')⟩
          · next hnone =>
            exfalso
            cases he : expand s.chunks g with
            | mk cs1 g1 =>
              rw [he] at ha
              simp only at ha
              split at ha
              · simp only [Option.some.injEq, Prod.mk.injEq] at ha
                obtain ⟨-, -, rfl⟩ := ha
                rcases nil_or_snoc s.chunks with hnil | ⟨l, c0, hsn⟩
                · rw [hnil, expand_nil] at he; cases he
                · rw [hsn, expand_snoc] at he; cases g <;> simp at he
              · simp at ha
        · intro hg
          exact scan_none h.wf (hgr hg).2
    · simp at st

theorem exists_free_of_scan {cs : List Chunk} (hwf : ∀ c ∈ cs, c.WF) {c : Chunk} (hc : c ∈ cs)
    (hfree : none ∈ c.slots) : scan cs 0 ≠ none := by
  intro hs
  have := scan_none hwf hs c hc none hfree
  simp at this

theorem register_never_fails {s : State} (hr : Reach s) (t : Nat) (g : Growth)
    (ht : s.tls t = none) (hg : s.registry.length < s.refcount) :
    ∃ s' k i gr, step s (.register t g) = some (s', .slot k i gr) := by
  have I := inv_reach hr
  have C := capsOk_reach hr
  have key : ∃ r, arenaAlloc s.chunks g = some r := by
    unfold arenaAlloc
    split
    · exact ⟨_, rfl⟩
    · next hnone =>
      have hw := expand_wf I.wf g
      cases he : expand s.chunks g with
      | mk cs1 g1 =>
        rw [he] at hw
        simp only at hw ⊢
        have : scan cs1 0 ≠ none := by
          rcases nil_or_snoc s.chunks with hnil | ⟨l, c, hsn⟩
          · rw [hnil, expand_nil] at he
            cases he
            apply exists_free_of_scan hw (c := Chunk.fresh INIT_READER_COUNT) (by simp)
            simp only [Chunk.fresh, List.mem_replicate]
            exact ⟨Nat.ne_of_gt init_reader_count_pos, trivial⟩
          · have hcap : 0 < c.cap := by
              obtain ⟨e, -, hx⟩ := C.pow c.cap (by simp [caps, hsn])
              rw [hx]; exact Nat.mul_pos init_reader_count_pos (Nat.pow_pos (by decide))
            rw [hsn, expand_snoc] at he
            cases g with
            | inPlace =>
              cases he
              apply exists_free_of_scan hw (c := c.grow) (by simp)
              simp only [Chunk.grow, List.mem_append, List.mem_replicate]
              right; exact ⟨by omega, trivial⟩
            | newChunk =>
              cases he
              apply exists_free_of_scan hw (c := Chunk.fresh (c.cap * 2)) (by simp)
              simp only [Chunk.fresh, List.mem_replicate]
              exact ⟨by omega, trivial⟩
        cases hs : scan cs1 0 with
        | none => exact absurd hs this
        | some sl => exact ⟨_, rfl⟩
  obtain ⟨⟨cs, ⟨k, i⟩, gr⟩, hk⟩ := key
  simp only [step, ht, hg, if_true, hk]
  exact ⟨_, k, i, gr, rfl⟩

theorem eq_singleton_of_nodup {α} {l : List α} {a : α} (hn : l.Nodup) (h : ∀ x, x ∈ l ↔ x = a) :
    l = [a] := by
  cases l with
  | nil => have := (h a).mpr rfl; simp at this
  | cons b r =>
    have hb : b = a := (h b).mp (by simp)
    subst hb
    have hr : r = [] := by
      apply List.eq_nil_iff_forall_not_mem.mpr
      intro y hy
      have := (h y).mp (by simp [hy])
      subst this
      exact (List.nodup_cons.mp hn).1 hy
    rw [hr]
/-! ### `find_chunk` on addresses -/

/-- two chunk mappings do not overlap (OS contract for `mmap`; kept by an in-place `mremap`) -/
def Disj (sz : Nat) (x y : Nat × Nat) : Prop := x.1 + x.2 * sz ≤ y.1 ∨ y.1 + y.2 * sz ≤ x.1

theorem findChunk_correct_aux (sz : Nat) (hsz : 0 < sz) (layout : List (Nat × Nat))
    (hd : layout.Pairwise (Disj sz)) (k0 k base cap i : Nat)
    (hk : layout[k]? = some (base, cap)) (hi : i < cap) :
    findChunk sz layout (base + i * sz) k0 = some (k0 + k) := by
  have hin : base + i * sz < base + cap * sz := by
    have : (i + 1) * sz ≤ cap * sz := Nat.mul_le_mul_right sz hi
    rw [Nat.add_mul] at this; omega
  induction layout generalizing k0 k with
  | nil => simp at hk
  | cons x rest ih =>
    obtain ⟨b, c⟩ := x
    cases k with
    | zero =>
      simp only [List.getElem?_cons_zero, Option.some.injEq, Prod.mk.injEq] at hk
      obtain ⟨rfl, rfl⟩ := hk
      simp only [findChunk]
      have h1 : ¬ (b + i * sz < b) := by omega
      have h2 : ¬ (b + i * sz ≥ b + c * sz) := by omega
      simp [h1, h2]
    | succ k =>
      rw [List.getElem?_cons_succ] at hk
      have hp := List.pairwise_cons.mp hd
      have hdis := hp.1 (base, cap) (List.mem_of_getElem? hk)
      simp only [findChunk]
      unfold Disj at hdis
      simp only at hdis
      by_cases h1 : base + i * sz < b
      · simp only [h1, if_true]
        rw [ih hp.2 (k0 + 1) k hk]; congr 1; omega
      · have h2 : base + i * sz ≥ b + c * sz := by omega
        simp only [h1, if_false, h2, if_true]
        rw [ih hp.2 (k0 + 1) k hk]; congr 1; omega
end UrcuVerif.BpArena

/-! ### registration versus signals -/
namespace UrcuVerif.BpArena.Sig
set_option linter.unusedSimpArgs false

def Pc.holdsReg : Pc → Bool
  | .add | .unlock | .xremove | .xunlock => true
  | _ => false
def Pc.holdsInit : Pc → Bool
  | .initInc | .initUnlock | .xdec | .xinitUnlock => true
  | _ => false
def Pc.preAdd : Pc → Bool
  | .initLock | .initInc | .initUnlock | .lock | .add => true
  | _ => false
def Pc.preRemove : Pc → Bool
  | .xmask | .xlock | .xremove => true
  | _ => false
def Pc.postAdd : Pc → Bool
  | .unlock | .unmask | .cs => true
  | _ => false
def Pc.isX : Pc → Bool
  | .xmask | .xlock | .xremove | .xunlock | .xunmask | .xinitLock | .xdec | .xinitUnlock => true
  | _ => false

/-- only the last interrupted frame (the thread's normal code) can be on the exit path -/
def xLast : List Pc → Bool
  | [] => true
  | p :: rest => (!p.isX || rest.isEmpty) && xLast rest

inductive Reach (c : Cfg) : State → Prop
  | init : Reach c init
  | step {s s' l} : Reach c s → step c s l = some s' → Reach c s'

/-- the invariant, parametrised by the set `w` of pcs inside the blocked window (it differs between
the code as it is and the code before 760a93b) -/
structure Inv (w : Pc → Bool) (s : State) : Prop where
  blk     : s.blocked = w s.top
  bel_win : ∀ p ∈ s.below, w p = false
  regH    : s.regHeld = s.top.holdsReg
  initH   : s.initHeld = (s.top.holdsInit || s.below.any Pc.holdsInit)
  pre_add : s.top.preAdd = true → s.tls = false
  pre_rm  : s.top.preRemove = true → s.tls = true
  bel_rm  : ∀ p ∈ s.below, p.preRemove = true → s.tls = true
  post_add : s.top.postAdd = true → s.tls = true
  bel_cs  : ∀ p ∈ s.below, p.postAdd = true → s.tls = true
  regs    : s.regs = s.tls.toNat
  topX    : s.top.isX = true → s.below = []
  belX    : xLast s.below = true
  top_init : (s.top = .initInc ∨ s.top = .initUnlock) → s.below.any Pc.holdsInit = false

macro "sig_tac" : tactic => `(tactic|
  (constructor <;> simp only [List.mem_cons, List.any_cons, xLast, forall_eq_or_imp] <;>
   grind [Pc.inWindow, Pc.inWindowUnfixed, Pc.holdsReg, Pc.holdsInit, Pc.preAdd, Pc.preRemove, Pc.postAdd,
          Pc.isX, xLast]))

theorem reach_of_run {c : Cfg} {s s' : State} {ls : List Lbl} (h : Reach c s)
    (hr : runLbls c s ls = some s') : Reach c s' := by
  induction ls generalizing s with
  | nil => simp only [runLbls, Option.some.injEq] at hr; exact hr ▸ h
  | cons l ls ih =>
    simp only [runLbls] at hr
    split at hr
    · simp at hr
    · next s1 h1 => exact ih (Reach.step h h1) hr

theorem reach_of_run_get (c : Cfg) (ls : List Lbl) (h : (runLbls c init ls).isSome = true) :
    Reach c ((runLbls c init ls).get h) := by
  have hr : runLbls c init ls = some ((runLbls c init ls).get h) := by simp
  exact reach_of_run Reach.init hr

/-! #### the code as it is (`real`) -/

theorem inv_init : Inv Pc.inWindow init := by
  constructor <;> simp [init, Pc.inWindow, Pc.holdsReg, Pc.holdsInit, Pc.preAdd, Pc.preRemove, Pc.postAdd, Pc.isX, xLast]

theorem inv_step_signal {s s' : State} (h : Inv Pc.inWindow s) (st : step real s .signal = some s') :
    Inv Pc.inWindow s' := by
  obtain ⟨h1, h2, h3, h4, h5, h6, h7, h8, h9, h10, h11, h12, h13⟩ := h
  rcases s with ⟨top, below, blocked, tls, regs, regHeld, initHeld, refs⟩
  simp only [step] at st
  split at st
  · simp at st
  · obtain rfl := Option.some.inj st
    cases top <;> sig_tac

theorem inv_step_call {s s' : State} {l : Lbl} (hl : l = .readLock ∨ l = .exit) (h : Inv Pc.inWindow s)
    (st : step real s l = some s') : Inv Pc.inWindow s' := by
  obtain ⟨h1, h2, h3, h4, h5, h6, h7, h8, h9, h10, h11, h12, h13⟩ := h
  rcases s with ⟨top, below, blocked, tls, regs, regHeld, initHeld, refs⟩
  rcases hl with rfl | rfl <;> simp only [step] at st <;> split at st <;> (try (simp at st; done)) <;>
    (obtain rfl := Option.some.inj st) <;> sig_tac

theorem inv_step_run_a {s s' : State} (hx : s.top.isX = false) (h : Inv Pc.inWindow s)
    (st : step real s .run = some s') : Inv Pc.inWindow s' := by
  obtain ⟨h1, h2, h3, h4, h5, h6, h7, h8, h9, h10, h11, h12, h13⟩ := h
  rcases s with ⟨top, below, blocked, tls, regs, regHeld, initHeld, refs⟩
  cases top <;> (try (simp [Pc.isX] at hx; done)) <;>
    simp only [step, real, Bool.false_eq_true, ↓reduceIte, false_and, false_or, true_and, not_false_eq_true] at st <;>
    (try split at st) <;>
    (try (simp at st; done)) <;> (obtain rfl := Option.some.inj st) <;> sig_tac

theorem inv_step_run_b {s s' : State} (hx : s.top.isX = true) (h : Inv Pc.inWindow s)
    (st : step real s .run = some s') : Inv Pc.inWindow s' := by
  obtain ⟨h1, h2, h3, h4, h5, h6, h7, h8, h9, h10, h11, h12, h13⟩ := h
  rcases s with ⟨top, below, blocked, tls, regs, regHeld, initHeld, refs⟩
  cases top <;> (try (simp [Pc.isX] at hx; done)) <;>
    simp only [step, real, Bool.false_eq_true, ↓reduceIte, false_and, false_or, true_and, not_false_eq_true] at st <;>
    (try split at st) <;>
    (try (simp at st; done)) <;> (obtain rfl := Option.some.inj st) <;> sig_tac

theorem inv_step {s s' : State} {l : Lbl} (h : Inv Pc.inWindow s) (st : step real s l = some s') :
    Inv Pc.inWindow s' := by
  cases l with
  | signal => exact inv_step_signal h st
  | readLock => exact inv_step_call (Or.inl rfl) h st
  | exit => exact inv_step_call (Or.inr rfl) h st
  | run =>
    cases hx : s.top.isX with
    | false => exact inv_step_run_a hx h st
    | true => exact inv_step_run_b hx h st

theorem inv_reach {s : State} (h : Reach real s) : Inv Pc.inWindow s := by
  induction h with
  | init => exact inv_init
  | step _ st ih => exact inv_step ih st

/-! #### the code before 760a93b (`unfixed`) -/
namespace Unfixed

theorem inv_init : Inv Pc.inWindowUnfixed init := by
  constructor <;> simp [init, Pc.inWindowUnfixed, Pc.holdsReg, Pc.holdsInit, Pc.preAdd, Pc.preRemove, Pc.postAdd, Pc.isX, xLast]

theorem inv_step_signal {s s' : State} (h : Inv Pc.inWindowUnfixed s) (st : step unfixed s .signal = some s') :
    Inv Pc.inWindowUnfixed s' := by
  obtain ⟨h1, h2, h3, h4, h5, h6, h7, h8, h9, h10, h11, h12, h13⟩ := h
  rcases s with ⟨top, below, blocked, tls, regs, regHeld, initHeld, refs⟩
  simp only [step] at st
  split at st
  · simp at st
  · obtain rfl := Option.some.inj st
    cases top <;> sig_tac

theorem inv_step_call {s s' : State} {l : Lbl} (hl : l = .readLock ∨ l = .exit) (h : Inv Pc.inWindowUnfixed s)
    (st : step unfixed s l = some s') : Inv Pc.inWindowUnfixed s' := by
  obtain ⟨h1, h2, h3, h4, h5, h6, h7, h8, h9, h10, h11, h12, h13⟩ := h
  rcases s with ⟨top, below, blocked, tls, regs, regHeld, initHeld, refs⟩
  rcases hl with rfl | rfl <;> simp only [step] at st <;> split at st <;> (try (simp at st; done)) <;>
    (obtain rfl := Option.some.inj st) <;> sig_tac

theorem inv_step_run_a {s s' : State} (hx : s.top.isX = false) (h : Inv Pc.inWindowUnfixed s)
    (st : step unfixed s .run = some s') : Inv Pc.inWindowUnfixed s' := by
  obtain ⟨h1, h2, h3, h4, h5, h6, h7, h8, h9, h10, h11, h12, h13⟩ := h
  rcases s with ⟨top, below, blocked, tls, regs, regHeld, initHeld, refs⟩
  cases top <;> (try (simp [Pc.isX] at hx; done)) <;>
    simp only [step, unfixed, Bool.false_eq_true, ↓reduceIte, false_and, false_or, or_false, and_false, true_and, not_false_eq_true] at st <;>
    (try split at st) <;>
    (try (simp at st; done)) <;> (obtain rfl := Option.some.inj st) <;> sig_tac

theorem inv_step_run_b {s s' : State} (hx : s.top.isX = true) (h : Inv Pc.inWindowUnfixed s)
    (st : step unfixed s .run = some s') : Inv Pc.inWindowUnfixed s' := by
  obtain ⟨h1, h2, h3, h4, h5, h6, h7, h8, h9, h10, h11, h12, h13⟩ := h
  rcases s with ⟨top, below, blocked, tls, regs, regHeld, initHeld, refs⟩
  cases top <;> (try (simp [Pc.isX] at hx; done)) <;>
    simp only [step, unfixed, Bool.false_eq_true, ↓reduceIte, false_and, false_or, or_false, and_false, true_and, not_false_eq_true] at st <;>
    (try split at st) <;>
    (try (simp at st; done)) <;> (obtain rfl := Option.some.inj st) <;> sig_tac

theorem inv_step {s s' : State} {l : Lbl} (h : Inv Pc.inWindowUnfixed s) (st : step unfixed s l = some s') :
    Inv Pc.inWindowUnfixed s' := by
  cases l with
  | signal => exact inv_step_signal h st
  | readLock => exact inv_step_call (Or.inl rfl) h st
  | exit => exact inv_step_call (Or.inr rfl) h st
  | run =>
    cases hx : s.top.isX with
    | false => exact inv_step_run_a hx h st
    | true => exact inv_step_run_b hx h st

theorem inv_reach {s : State} (h : Reach unfixed s) : Inv Pc.inWindowUnfixed s := by
  induction h with
  | init => exact inv_init
  | step _ st ih => exact inv_step ih st

end Unfixed
end UrcuVerif.BpArena.Sig
