import UrcuVerif.Gp.BpArena
/-! Invariants of the bp registry arena model and of the registration-versus-signals model
(helper lemmas; the property statements are in `Props/C15Bp.lean`). -/
namespace UrcuVerif.BpArena
open UrcuVerif.Gen (INIT_READER_COUNT)

/-- side condition on the generated constant, re-proved on every run -/
theorem init_reader_count_pos : 0 < INIT_READER_COUNT := by decide

/-! ### chunks -/

/-- the data invariant of one chunk: `readers[]` has `capacity` elements and `used` counts the
allocated ones -/
structure Chunk.WF (c : Chunk) : Prop where
  len  : c.slots.length = c.cap
  used : c.used = c.slots.countP (·.isSome)

theorem Chunk.fresh_wf (n : Nat) : (Chunk.fresh n).WF := by
  constructor <;> simp [Chunk.fresh, List.countP_replicate]

theorem Chunk.grow_wf {c : Chunk} (h : c.WF) : c.grow.WF := by
  obtain ⟨h1, h2⟩ := h
  constructor
  · simp [Chunk.grow, h1]; omega
  · simp [Chunk.grow, List.countP_append, List.countP_replicate, h2]

theorem full_iff {c : Chunk} (h : c.WF) : c.used = c.cap ↔ ∀ x ∈ c.slots, x.isSome = true := by
  rw [h.used, ← h.len]
  exact List.countP_eq_length

/-! ### slot lookup under the primitive updates -/

theorem slotAt_some_iff {cs : List Chunk} {k i t : Nat} :
    slotAt cs k i = some t ↔ ∃ c, cs[k]? = some c ∧ c.slots[i]? = some (some t) := by
  unfold slotAt
  cases h : cs[k]? with
  | none => simp
  | some c =>
    simp only [Option.some.injEq, exists_eq_left']
    cases h2 : c.slots[i]? with
    | none => simp
    | some x => cases x <;> simp

theorem slotAt_none_of_free {cs : List Chunk} {k i : Nat} {c : Chunk} (hk : cs[k]? = some c)
    (hi : c.slots[i]? = some none) : slotAt cs k i = none := by
  simp [slotAt, hk, hi]

theorem slotAt_mark {cs : List Chunk} {k i t : Nat} {c : Chunk} (hk : cs[k]? = some c)
    (hi : i < c.slots.length) (k' i' : Nat) :
    slotAt (mark cs k i t) k' i' = if k' = k ∧ i' = i then some t else slotAt cs k' i' := by
  unfold slotAt mark
  rw [List.getElem?_modify]
  by_cases hkk : k = k'
  · subst hkk
    simp only [hk, Option.map_eq_map, Option.map_some, if_true, true_and]
    rw [List.getElem?_set]
    by_cases hii : i = i'
    · subst hii; simp [hi]
    · simp [hii, Ne.symm hii]
  · have : ¬ (k' = k ∧ i' = i) := fun h => hkk h.1.symm
    simp only [hkk, if_false, this]
    cases cs[k']? <;> simp

theorem slotAt_clear (cs : List Chunk) (k i k' i' : Nat) :
    slotAt (clear cs k i) k' i' = if k' = k ∧ i' = i then none else slotAt cs k' i' := by
  unfold slotAt clear
  rw [List.getElem?_modify]
  by_cases hkk : k = k'
  · subst hkk
    cases hk : cs[k]? with
    | none => simp
    | some c =>
      simp only [Option.map_eq_map, Option.map_some, if_true, true_and]
      rw [List.getElem?_set]
      by_cases hii : i = i'
      · subst hii
        by_cases hl : i < c.slots.length <;> simp [hl]
      · simp [hii, Ne.symm hii]
  · have : ¬ (k' = k ∧ i' = i) := fun h => hkk h.1.symm
    simp only [hkk, if_false, this]
    cases cs[k']? <;> simp

theorem slotAt_prune (cs : List Chunk) (t k i : Nat) :
    slotAt (cs.map (pruneChunk t)) k i = if slotAt cs k i = some t then some t else none := by
  unfold slotAt
  rw [List.getElem?_map]
  cases cs[k]? with
  | none => simp
  | some c =>
    simp only [Option.map_some, pruneChunk, List.getElem?_map]
    cases c.slots[i]? with
    | none => simp
    | some x =>
      cases x with
      | none => simp
      | some u => by_cases hu : u = t <;> simp [hu]

theorem slotAt_append (l : List Chunk) (c : Chunk) (k i : Nat) :
    slotAt (l ++ [c]) k i =
      if k < l.length then slotAt l k i else if k = l.length then slotAt [c] 0 i else none := by
  unfold slotAt
  rw [List.getElem?_append]
  by_cases h : k < l.length
  · simp [h]
  · simp only [h, if_false]
    by_cases h2 : k = l.length
    · simp [h2]
    · have : 0 < k - l.length := by omega
      have h3 : [c][k - l.length]? = none := by
        apply List.getElem?_eq_none; simp; omega
      simp [h2, h3]

theorem slotAt_fresh (n i : Nat) : slotAt [Chunk.fresh n] 0 i = none := by
  simp only [slotAt, Chunk.fresh, List.getElem?_cons_zero, List.getElem?_replicate]
  by_cases h : i < n <;> simp [h]

theorem slotAt_grow (c : Chunk) (i : Nat) : slotAt [c.grow] 0 i = slotAt [c] 0 i := by
  simp only [slotAt, Chunk.grow, List.getElem?_cons_zero, List.getElem?_append,
    List.getElem?_replicate]
  by_cases h : i < c.slots.length
  · simp [h]
  · have : c.slots[i]? = none := List.getElem?_eq_none (by omega)
    simp only [h, if_false, this]
    split <;> simp

/-! ### `expand_arena` in append form -/

theorem modify_last {α} (l : List α) (x : α) (f : α → α) :
    (l ++ [x]).modify ((l ++ [x]).length - 1) f = l ++ [f x] := by
  induction l with
  | nil => simp [List.modify]
  | cons a l ih =>
    have : (a :: l ++ [x]).length - 1 = (l ++ [x]).length - 1 + 1 := by simp
    rw [List.cons_append, this, List.modify_succ_cons, ih]; rfl

theorem expand_nil (g : Growth) : expand [] g = ([Chunk.fresh INIT_READER_COUNT], .first) := by
  simp [expand]

theorem expand_snoc (l : List Chunk) (c : Chunk) (g : Growth) :
    expand (l ++ [c]) g =
      match g with
      | .inPlace => (l ++ [c.grow], .inPlace)
      | .newChunk => (l ++ [c] ++ [Chunk.fresh (c.cap * 2)], .newChunk) := by
  unfold expand
  rw [List.getLast?_concat]
  cases g with
  | inPlace => simp only [modify_last]
  | newChunk => rfl

theorem nil_or_snoc {α} (l : List α) : l = [] ∨ ∃ l0 x, l = l0 ++ [x] := by
  cases h : l.getLast? with
  | none => left; simpa using h
  | some x => right; obtain ⟨ys, hy⟩ := List.getLast?_eq_some_iff.mp h; exact ⟨ys, x, hy⟩

theorem slotAt_expand (cs : List Chunk) (g : Growth) (k i : Nat) :
    slotAt (expand cs g).1 k i = slotAt cs k i := by
  rcases nil_or_snoc cs with rfl | ⟨l, c, rfl⟩
  · rw [expand_nil]
    cases k with
    | zero => rw [slotAt_fresh]; simp [slotAt]
    | succ k => simp [slotAt]
  · rw [expand_snoc]
    cases g with
    | inPlace =>
      simp only [slotAt_append, slotAt_grow]
    | newChunk =>
      simp only
      rw [slotAt_append]
      have hl : (l ++ [c]).length = l.length + 1 := by simp
      by_cases h : k < (l ++ [c]).length
      · simp [h]
      · simp only [h, if_false, slotAt_fresh]
        rw [slotAt_append]
        have h1 : ¬ k < l.length := by omega
        have h2 : ¬ k = l.length := by omega
        simp [h1, h2]

theorem expand_wf {cs : List Chunk} (h : ∀ c ∈ cs, c.WF) (g : Growth) :
    ∀ c ∈ (expand cs g).1, c.WF := by
  rcases nil_or_snoc cs with rfl | ⟨l, c, rfl⟩
  · rw [expand_nil]; intro c hc; simp at hc; subst hc; exact Chunk.fresh_wf _
  · rw [expand_snoc]
    cases g with
    | inPlace =>
      intro x hx
      simp only [List.mem_append, List.mem_singleton] at hx
      rcases hx with hx | rfl
      · exact h x (by simp [hx])
      · exact Chunk.grow_wf (h c (by simp))
    | newChunk =>
      intro x hx
      simp only [List.mem_append, List.mem_singleton] at hx
      rcases hx with hx | rfl
      · exact h x (by simpa using hx)
      · exact Chunk.fresh_wf _

/-! ### the scan of `arena_alloc` -/

theorem scan_some {cs : List Chunk} (hwf : ∀ c ∈ cs, c.WF) {k0 k i : Nat}
    (h : scan cs k0 = some (k, i)) :
    k0 ≤ k ∧ ∃ c, cs[k - k0]? = some c ∧ c.slots[i]? = some none ∧
      (∀ j, j < i → ∃ t, c.slots[j]? = some (some t)) ∧
      (∀ k' c', k' < k - k0 → cs[k']? = some c' → ∀ x ∈ c'.slots, x.isSome = true) := by
  induction cs generalizing k0 with
  | nil => simp [scan] at h
  | cons c cs ih =>
    have hc := hwf c (by simp)
    have hrest : ∀ c ∈ cs, c.WF := fun x hx => hwf x (by simp [hx])
    have skip : (∀ x ∈ c.slots, x.isSome = true) → scan cs (k0 + 1) = some (k, i) →
        k0 ≤ k ∧ ∃ c', (c :: cs)[k - k0]? = some c' ∧ c'.slots[i]? = some none ∧
        (∀ j, j < i → ∃ t, c'.slots[j]? = some (some t)) ∧
        (∀ k' c'', k' < k - k0 → (c :: cs)[k']? = some c'' → ∀ x ∈ c''.slots, x.isSome = true) := by
      intro hfull h
      obtain ⟨h1, c', h2, h3, h4, h5⟩ := ih hrest h
      refine ⟨by omega, c', ?_, h3, h4, ?_⟩
      · have : k - k0 = (k - (k0 + 1)) + 1 := by omega
        rw [this, List.getElem?_cons_succ]; exact h2
      · intro k' c'' hk' hc''
        cases k' with
        | zero => simp at hc''; subst hc''; exact hfull
        | succ k' =>
          rw [List.getElem?_cons_succ] at hc''
          exact h5 k' c'' (by omega) hc''
    simp only [scan] at h
    split at h
    · next hu => exact skip ((full_iff hc).mp hu) h
    · next hu =>
      split at h
      · next j hj =>
        simp only [Option.some.injEq, Prod.mk.injEq] at h
        obtain ⟨rfl, rfl⟩ := h
        obtain ⟨hlt, hp, hbefore⟩ := List.findIdx?_eq_some_iff_getElem.mp hj
        refine ⟨Nat.le_refl _, c, by simp, ?_, ?_, ?_⟩
        · rw [List.getElem?_eq_getElem hlt]
          cases hx : c.slots[j] with
          | none => rfl
          | some t => simp [hx] at hp
        · intro j' hj'
          have := hbefore j' hj'
          have hlt' : j' < c.slots.length := by omega
          rw [List.getElem?_eq_getElem hlt']
          cases hx : c.slots[j'] with
          | none => simp [hx] at this
          | some t => exact ⟨t, rfl⟩
        · intro k' c' hk'; omega
      · next hj =>
        exfalso
        apply hu
        apply (full_iff hc).mpr
        intro x hx
        have := List.findIdx?_eq_none_iff.mp hj x hx
        cases x <;> simp_all

theorem scan_none {cs : List Chunk} (hwf : ∀ c ∈ cs, c.WF) {k0 : Nat} (h : scan cs k0 = none) :
    ∀ c ∈ cs, ∀ x ∈ c.slots, x.isSome = true := by
  induction cs generalizing k0 with
  | nil => simp
  | cons c cs ih =>
    have hc := hwf c (by simp)
    have hrest : ∀ c ∈ cs, c.WF := fun x hx => hwf x (by simp [hx])
    simp only [scan] at h
    split at h
    · next hu =>
      intro x hx
      simp only [List.mem_cons] at hx
      rcases hx with rfl | hx
      · exact (full_iff hc).mp hu
      · exact ih hrest h x hx
    · next hu =>
      split at h
      · simp at h
      · next hj =>
        exfalso
        apply hu
        apply (full_iff hc).mpr
        intro x hx
        have := List.findIdx?_eq_none_iff.mp hj x hx
        cases x <;> simp_all

end UrcuVerif.BpArena
