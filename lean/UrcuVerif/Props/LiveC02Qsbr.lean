import UrcuVerif.Gp.LiveQsbrRun
import UrcuVerif.Props.C01Qsbr
/-!
# C02, core clause, QSBR flavour — `synchronize_rcu()` returns if every reader keeps announcing quiescent states

Model `Gp/Qsbr.lean` (x86-TSO).  Hypotheses about the run: (a) the grace-period leader is scheduled fairly (`uLabel`:
scans, the end); (b) the store buffer of every reader drains (`flush j`); (c) every reader again and again has announced
a quiescent state for the current value of `rcu_gp.ctr`, or is offline (its own view `lctr j` is 0 or `rcu_gp.ctr`) –
the QSBR form of "every read-side section ends"; (e) registration churn stops eventually.  Argument as for the
phase-flip model (`Props/LiveC02Gp.lean`), with a single pass and at most one stale snapshot per reader (the
`rcu_gp.ctr` value loaded by a `rcu_quiescent_state()` still in progress).
-/
namespace UrcuVerif.Qsbr
open UrcuVerif UrcuVerif.Fair

/-- **qsbr_synchronize_rcu_eventually_returns**: a grace period that has started (`upc = scan`) eventually ends
(`uEnd` is taken, the leader is idle again). -/
theorem qsbr_synchronize_rcu_eventually_returns (c : Cfg) {ρ : Nat → State} {ℓ : Nat → Option Label}
    (hrun : IsRun (step c) ρ ℓ) (hreach : Reach c (ρ 0))
    (hupd : WeakFair (step c) ρ ℓ uLabel)
    (hflush : ∀ j, j < c.n → WeakFair (step c) ρ ℓ (fun l => l = .flush j))
    (hq : ∀ j, j < c.n → ∀ t, ∃ t', t ≤ t' ∧ ((ρ t').lctr j = 0 ∨ (ρ t').lctr j = (ρ t').gp))
    (hreg : ∃ N, ∀ t l, N ≤ t → ℓ t = some l → isReg l = false) :
    ∀ i, (ρ i).upc ≠ .idle → ∃ t, i ≤ t ∧ ℓ t = some .uEnd ∧ (ρ (t + 1)).upc = .idle := by
  intro i hni
  have hR := qreach_along c hrun hreach
  obtain ⟨N, hN⟩ := hreg
  have hidle : ∃ t, i ≤ t ∧ (ρ t).upc = .idle := by
    cases hq' : (ρ (max i N)).upc with
    | idle => exact ⟨max i N, by omega, hq'⟩
    | scan =>
      obtain ⟨t, ht, h⟩ := pass_terminates c hrun hR .scan .idle (fun s => s.inp)
        (fun s l s' hp hl st => scan_own c hp hl st) (fun s l s' hp hl hr st => scan_other c hp hl hr st)
        (fun s hp h => scan_exit_enabled c hp h) (fun s j hp hj hf hg => scan_scan_enabled c hp j hj hf hg)
        hupd hflush hq (max i N) (fun t l ht hl => hN t l (by omega) hl) hq'
      exact ⟨t, by omega, h⟩
  obtain ⟨t, ht, hidle⟩ := hidle
  obtain ⟨m, hm1, hm2, hin, hout⟩ := change_step (ρ := ρ) (fun s => s.upc ≠ .idle) ht hni (by simpa using hidle)
  have hout : (ρ (m + 1)).upc = .idle := by simpa using hout
  cases hl : ℓ m with
  | none => rw [hrun.idle m hl] at hout; exact absurd hout hin
  | some l =>
    have := idle_by_uEnd c hin hout (hrun.move m l hl)
    subst this
    exact ⟨m, hm1, hl, hout⟩

/-! ### Non-vacuity: reader 0 is online with the old counter when the grace period starts (position 6), announces a
quiescent state for the new counter (store buffered, then flushed), the scan accepts it, `synchronize_rcu()` returns
(position 11); then idling. -/
def qgpPrefix : List Label :=
  [.reg 0, .qLd 0, .qSt 0, .flush 0, .qFence 0, .uInc true, .qLd 0, .qSt 0, .flush 0, .qFence 0, .uScan 0, .uEnd]

example : ∃ t, 6 ≤ t ∧ (fun i => qgpPrefix[i]?) t = some Label.uEnd ∧
    (prefixState (step { n := 1 }) init qgpPrefix (t + 1)).upc = .idle := by
  have h1 : (prefixFinal (step { n := 1 }) init qgpPrefix).isSome = true := by decide
  obtain ⟨sf, hsf⟩ := Option.isSome_iff_exists.mp h1
  have h2 : (prefixFinal (step { n := 1 }) init qgpPrefix).map
      (fun s => (s.upc, s.buf 0, s.lctr 0, s.gp)) = some (.idle, [], 2, 2) := by decide
  rw [hsf] at h2
  simp only [Option.map_some, Option.some.injEq, Prod.mk.injEq] at h2
  obtain ⟨e1, e2, e3, e4⟩ := h2
  have hfin := prefixState_final (step { n := 1 }) init qgpPrefix sf hsf
  refine qsbr_synchronize_rcu_eventually_returns { n := 1 } (ℓ := fun i => qgpPrefix[i]?)
    (prefix_isRun _ _ _ sf hsf) Reach.init ?_ ?_ ?_ ⟨qgpPrefix.length, ?_⟩ 6 (by decide)
  · refine weakFair_of_final _ qgpPrefix.length sf hfin ?_
    rintro ⟨l, hl, he⟩
    cases l <;> simp only [uLabel] at hl <;> simp [step, e1] at he
  · intro j hj
    have : j = 0 := by simp at hj; exact hj
    subst this
    refine weakFair_of_final _ qgpPrefix.length sf hfin ?_
    rintro ⟨l, rfl, he⟩
    simp [step, e2] at he
  · intro j hj t
    have : j = 0 := by simp at hj; exact hj
    subst this
    refine ⟨t + qgpPrefix.length, by omega, Or.inr ?_⟩
    rw [hfin _ (by omega), e3, e4]
  · intro t l ht hl
    have : qgpPrefix[t]? = none := by simp; exact ht
    simp [this] at hl
example : (prefixState (step { n := 1 }) init qgpPrefix 6).upc = .scan ∧ (prefixState (step { n := 1 }) init qgpPrefix 6).mctr 0 = 1 ∧
    (prefixState (step { n := 1 }) init qgpPrefix 12).upc = .idle := by decide

end UrcuVerif.Qsbr
