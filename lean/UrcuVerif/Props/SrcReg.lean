import UrcuVerif.Src.RegRefine
import UrcuVerif.Src.RegBp
/-!
# Source refinement, registration (C15): final statements

"The generated source IR of `rcu_register_thread` / `rcu_unregister_thread` (memb: `src/urcu.c`, qsbr: `src/urcu-qsbr.c`;
values of `Gen/Src.lean`, regenerated from the C text of /repo on every run) refines, thread-locally, the registration labels
`reg i` / `unreg i` of `Gp/Flip.lean` / `Gp/Qsbr.lean`."

The local automaton (`Src/RegLocal.lean`) is the product of a protocol skeleton (`Reg.Pc`: where in the call the thread is,
whether it holds `rcu_registry_lock`) with the read side's thread-local projection of L2.  The event abstraction
(`Reg.absEvP`, header of `Src/RegRefine.lean`) maps

* `pthread_self()` ↦ `self`; `mutex_lock(&rcu_registry_lock)` ↦ `lock`; `mutex_unlock(&rcu_registry_lock)` ↦ `unlock`
  (no L2 counterpart: L2's `reg i` / `unreg i` are atomic, which the lock justifies – `bracket` below);
* `cds_list_add(&reader.node, &registry)` ↦ `listAdd` = L2's `reg i`; `cds_list_del(&reader.node)` ↦ `listDel` = L2's `unreg i`;
* the system calls of `rcu_init()` (`membarrier`, `errno`, `urcu_die`) ↦ `initEv` (accepted only under the lock, before the
  list operation; no L2 counterpart);
* the same calls with any other argument (another mutex, another list, another node) ↦ `bad`, never accepted;
* memb: every other event is rejected; qsbr: every other event goes through the read side's abstraction `ReadQsbr.absEvQ`
  (`ld urcu_qsbr_gp.ctr` ↦ `qLd`, `st reader.ctr` ↦ `qSt` / `qOff` (+ `qFence` for a `CMM_SEQ_CST` store), `cmm_smp_mb()` after
  the store ↦ `qFence`, `cmm_barrier()` and the accesses of `urcu_qsbr_wake_up_gp` silent) and is accepted only OUTSIDE the
  protocol (pc `idle`).

Side conditions = the `urcu_posix_assert`s of the C text (which the translator drops: they are not in the IR) and the API
contract: `register`: not registered (`reg = false`), not inside a read-side section or a `rcu_read_lock()` frame
(`rpc = out`), qsbr: `ctr == 0` (`lctr = 0`); `unregister`: registered, `rpc = out`, memb: no interrupted `rcu_read_lock()`
frame (`held = []`) – these are exactly the guards of L2's `reg i` / `unreg i`.  memb `register` additionally assumes
`init_done ≠ 0` in `memb_rcu_register_thread_refines` (the library constructor `rcu_init()` has run, so the call under the lock
returns at once).
-/
set_option maxRecDepth 8192
namespace UrcuVerif.Props.SrcReg
open UrcuVerif UrcuVerif.Src UrcuVerif.Src.Reg

/-! ## memb (`src/urcu.c`) -/

/-- every run (every oracle, hence every prefix) of `rcu_register_thread` succeeds, its events are accepted by the local
automaton, the L2 label `reg` being the `cds_list_add` under the lock; a completed call performed exactly
`self, lock, listAdd, unlock` and the plain stores `tid = pthread_self()`, `registered = 1` -/
theorem memb_rcu_register_thread_refines (sf : Bool) (fuel : Nat) (env : Env) (inp : List Val) (s : MState) (d : Int)
    (hinit : env.priv (.glob "init_done") = some (.int d)) (hd : d ≠ 0)
    (hpc : s.pc = .idle) (hreg : s.inner.reg = false) (hout : s.inner.rpc = .out) :
    ∃ out, exec fuel Gen.Src.«memb.rcu_register_thread» env inp = .ok out ∧
      ∃ labs s', absRunM sf s out.events = some (labs, s') ∧ mrun sf s labs = some s' ∧
        (out.ctl = .normal ∨ out.ctl = .blocked) ∧
        (out.ctl = .normal →
          s' = ⟨.idle, { s.inner with reg := true }⟩ ∧ labs = [.self, .lock, .listAdd, .unlock] ∧
          ∃ tid, out.events.head? = some (.ext "pthread_self" [] tid) ∧
            ∀ l, out.env.priv l =
              if l = regLoc "rcu_reader" then some (.int 1)
              else if l = tidLoc "rcu_reader" then some tid else env.priv l) := by
  obtain ⟨out, he, labs, s', ha, hc, hn⟩ := memb_register sf fuel env inp s d hinit hd hpc hreg hout
  exact ⟨out, he, labs, s', ha, absRunM_mrun sf _ _ _ _ ha, hc, hn⟩

theorem memb_rcu_unregister_thread_refines (sf : Bool) (fuel : Nat) (env : Env) (inp : List Val) (s : MState)
    (hpc : s.pc = .idle) (hreg : s.inner.reg = true) (hout : s.inner.rpc = .out) (hheld : s.inner.held = []) :
    ∃ out, exec fuel Gen.Src.«memb.rcu_unregister_thread» env inp = .ok out ∧
      ∃ labs s', absRunM sf s out.events = some (labs, s') ∧ mrun sf s labs = some s' ∧
        (out.ctl = .normal ∨ out.ctl = .blocked) ∧
        (out.ctl = .normal →
          s' = ⟨.idle, { s.inner with reg := false }⟩ ∧ labs = [.lock, .listDel, .unlock] ∧
          ∀ l, out.env.priv l = if l = regLoc "rcu_reader" then some (.int 0) else env.priv l) := by
  obtain ⟨out, he, labs, s', ha, hc, hn⟩ := memb_unregister sf fuel env inp s hpc hreg hout hheld
  exact ⟨out, he, labs, s', ha, absRunM_mrun sf _ _ _ _ ha, hc, hn⟩

/-! ## qsbr (`src/urcu-qsbr.c`) -/

/-- `urcu_qsbr_register_thread`: `self, lock, listAdd (= reg), unlock`, then `_urcu_qsbr_thread_online()`:
`qLd g` (load of `urcu_qsbr_gp.ctr`), `qSt g` (store to the own word), `qFence` (`cmm_smp_mb()`).  The part about the automaton
assumes that the value loaded from `urcu_qsbr_gp.ctr` is `ONLINE + k·GP_CTR` (`QShape`, updater-side invariant). -/
theorem qsbr_urcu_qsbr_register_thread_refines (fuel : Nat) (env : Env) (inp : List Val) (s : QPState)
    (hpc : s.pc = .idle) (hreg : s.inner.reg = false) (hout : s.inner.rpc = .out) (hoff : s.inner.lctr = 0) :
    ∃ out, exec fuel Gen.Src.«qsbr.urcu_qsbr_register_thread» env inp = .ok out ∧
      (out.ctl = .normal ∨ out.ctl = .blocked) ∧
      ((∀ v mo, .ld ReadQsbr.qGpCtr v mo ∈ out.events → ReadQsbr.QShape v) →
        ∃ labs s', absRunQR s out.events = some (labs, s') ∧ qrrun s labs = some s' ∧
          (out.ctl = .normal →
            ∃ tid g, 1 ≤ g ∧
              s' = ⟨.idle, { rpc := .out, reg := true, lctr := g }⟩ ∧
              labs = [.self, .lock, .listAdd, .unlock, .q (.qLd g), .q (.qSt g), .q .qFence] ∧
              out.events.head? = some (.ext "pthread_self" [] tid) ∧
              ∀ l, out.env.priv l =
                if l = ReadQsbr.qRdCtr then some (.int (ReadQsbr.encq g))
                else if l = regLoc "urcu_qsbr_reader" then some (.int 1)
                else if l = tidLoc "urcu_qsbr_reader" then some tid else env.priv l)) := by
  obtain ⟨out, he, hc, hw⟩ := qsbr_register fuel env inp s hpc hreg hout hoff
  refine ⟨out, he, hc, fun hq => ?_⟩
  obtain ⟨labs, s', ha, hn⟩ := hw hq
  exact ⟨labs, s', ha, absRunQR_qrrun _ _ _ _ ha, hn⟩

/-- `urcu_qsbr_unregister_thread`: `_urcu_qsbr_thread_offline()` first (`qOff`, `qFence`), then `lock, listDel (= unreg),
unlock`.  `hint`: the oracle values are integers. -/
theorem qsbr_urcu_qsbr_unregister_thread_refines (fuel : Nat) (env : Env) (inp : List Val) (s : QPState)
    (hpc : s.pc = .idle) (hreg : s.inner.reg = true) (hout : s.inner.rpc = .out)
    (hint : ∀ v, v ∈ inp → ∃ n : Int, v = .int n) :
    ∃ out, exec fuel Gen.Src.«qsbr.urcu_qsbr_unregister_thread» env inp = .ok out ∧
      ∃ labs s', absRunQR s out.events = some (labs, s') ∧ qrrun s labs = some s' ∧
        (out.ctl = .normal ∨ out.ctl = .blocked) ∧
        (out.ctl = .normal →
          s' = ⟨.idle, { rpc := .out, reg := false, lctr := 0 }⟩ ∧
          labs = [.q .qOff, .q .qFence, .lock, .listDel, .unlock] ∧
          ∀ l, l ≠ ReadQsbr.qWaiting → l ≠ ReadQsbr.qFutex → out.env.priv l =
            if l = regLoc "urcu_qsbr_reader" then some (.int 0)
            else if l = ReadQsbr.qRdCtr then some (.int 0) else env.priv l) := by
  obtain ⟨out, he, labs, s', ha, hc, hn⟩ := qsbr_unregister fuel env inp s hpc hreg hout hint
  exact ⟨out, he, labs, s', ha, absRunQR_qrrun _ _ _ _ ha, hc, hn⟩

/-! ## the local automaton versus the real L2 `step` (re-exported from `Src/RegLocal.lean`) -/

/-- **bracket shape** (both flavors): L2's `reg` / `unreg` are performed by `listAdd` / `listDel` only, at a pc that holds
`rcu_registry_lock`, and the lock is still held afterwards; the lock is taken by `lock` and released by `unlock` only; the
thread's other L2 labels (`q x`) are never `reg` / `unreg` and are performed without the lock -/
theorem bracket {σ L : Type} [DecidableEq L] (istep : σ → L → Option σ) (regL unregL : L) (s s' : PState σ) (l : RLabel L)
    (h : rstep istep regL unregL s l = some s') :
    ((l.toL2 regL unregL = some regL ∨ l.toL2 regL unregL = some unregL) →
        (l = .listAdd ∨ l = .listDel) ∧ s.pc.holdsLock = true ∧ s'.pc.holdsLock = true) ∧
    (s.pc.holdsLock = false → s'.pc.holdsLock = true → l = .lock) ∧
    (s.pc.holdsLock = true → s'.pc.holdsLock = false → l = .unlock) ∧
    (∀ x, l = .q x → s.pc = .idle ∧ s'.pc = .idle) :=
  rstep_holdsLock istep regL unregL s s' l h

theorem flip_reg_proj_step (c : Gp.Cfg) (s s' : Gp.State) (i : Nat) (pc pc' : Pc) (l : MLabel) (l2 : Read.LLabel)
    (h2 : l.toL2 = some l2) (hp : pcStep .reg .unreg pc l = some pc')
    (st : Gp.step c s (l2.toL2 i) = some s') (ho : Read.Obs c s s' i l2) :
    mstep c.slaveFence (mproj s i pc) l = some (mproj s' i pc') := flip_proj_step c s s' i pc pc' l l2 h2 hp st ho
theorem flip_reg_proj_silent (sf : Bool) (s : Gp.State) (i : Nat) (pc : Pc) (l : MLabel) (h2 : l.toL2 = none) :
    mstep sf (mproj s i pc) l = (pcStep .reg .unreg pc l).map (fun pc' => mproj s i pc') :=
  flip_proj_silent sf s i pc l h2
theorem flip_reg_proj_enabled (c : Gp.Cfg) (s : Gp.State) (i : Nat) (pc : Pc) (l : MLabel) (l2 : Read.LLabel) (ls' : MState)
    (h2 : l.toL2 = some l2) (hl : mstep c.slaveFence (mproj s i pc) l = some ls') (hi : i < c.n)
    (hg : Read.Guard c s i l2) :
    ∃ s', Gp.step c s (l2.toL2 i) = some s' ∧ ls' = mproj s' i ls'.pc ∧ Read.Obs c s s' i l2 :=
  flip_proj_enabled c s i pc l l2 ls' h2 hl hi hg
theorem flip_reg_proj_frame (c : Gp.Cfg) (s s' : Gp.State) (i : Nat) (pc : Pc) (l : Gp.Label)
    (st : Gp.step c s l = some s') (ho : Read.owner l ≠ some i) : mproj s' i pc = mproj s i pc :=
  flip_proj_frame c s s' i pc l st ho

theorem qsbr_reg_proj_step (c : Qsbr.Cfg) (s s' : Qsbr.State) (i : Nat) (pc pc' : Pc) (l : QRLabel) (l2 : ReadQsbr.QLabel)
    (h2 : l.toL2 = some l2) (hp : pcStep .reg .unreg pc l = some pc')
    (st : Qsbr.step c s (l2.toL2 i) = some s') (ho : ReadQsbr.ObsQ s s' i l2) :
    qrstep (qproj s i pc) l = some (qproj s' i pc') := qsbr_proj_step c s s' i pc pc' l l2 h2 hp st ho
theorem qsbr_reg_proj_silent (s : Qsbr.State) (i : Nat) (pc : Pc) (l : QRLabel) (h2 : l.toL2 = none) :
    qrstep (qproj s i pc) l = (pcStep .reg .unreg pc l).map (fun pc' => qproj s i pc') := qsbr_proj_silent s i pc l h2
theorem qsbr_reg_proj_enabled (c : Qsbr.Cfg) (s : Qsbr.State) (i : Nat) (pc : Pc) (l : QRLabel) (l2 : ReadQsbr.QLabel)
    (ls' : QPState) (h2 : l.toL2 = some l2) (hl : qrstep (qproj s i pc) l = some ls') (hi : i < c.n)
    (hg : ReadQsbr.GuardQ s i l2) :
    ∃ s', Qsbr.step c s (l2.toL2 i) = some s' ∧ ls' = qproj s' i ls'.pc ∧ ReadQsbr.ObsQ s s' i l2 :=
  qsbr_proj_enabled c s i pc l l2 ls' h2 hl hi hg
theorem qsbr_reg_proj_frame (c : Qsbr.Cfg) (s s' : Qsbr.State) (i : Nat) (pc : Pc) (l : Qsbr.Label)
    (st : Qsbr.step c s l = some s') (ho : ReadQsbr.ownerQ l ≠ some i) : qproj s' i pc = qproj s i pc :=
  qsbr_proj_frame c s s' i pc l st ho

/-! ## non-vacuity: concrete runs -/

def envInit : Env :=
  { vars := fun _ => none, priv := fun l => if l = .glob "init_done" then some (.int 1) else none }
def mOut (r : Bool) : MState := ⟨.idle, { rpc := .out, reg := r, held := [], lnest := 0, lph := false }⟩
def qOut (r : Bool) (c : Nat) : QPState := ⟨.idle, { rpc := .out, reg := r, lctr := c }⟩

/-- memb register: 4 events, L2 label `reg` at the third -/
example : (exec 0 Gen.Src.«memb.rcu_register_thread» envInit [.int 77, .int 0, .int 0, .int 0]).toOption.map (·.events) =
    some [.ext "pthread_self" [] (.int 77), .ext "mutex_lock" [.ptr lockLoc] (.int 0),
          .ext "cds_list_add" [.ptr (nodeLoc "rcu_reader"), .ptr registryLoc] (.int 0),
          .ext "mutex_unlock" [.ptr lockLoc] (.int 0)] := by decide
example : absRunM true (mOut false)
      [.ext "pthread_self" [] (.int 77), .ext "mutex_lock" [.ptr lockLoc] (.int 0),
       .ext "cds_list_add" [.ptr (nodeLoc "rcu_reader"), .ptr registryLoc] (.int 0),
       .ext "mutex_unlock" [.ptr lockLoc] (.int 0)] =
    some ([.self, .lock, .listAdd, .unlock], mOut true) := by decide
/-- the list operation outside the lock, on another list, or a second registration are rejected -/
example : absRunM true (mOut false)
      [.ext "pthread_self" [] (.int 77), .ext "cds_list_add" [.ptr (nodeLoc "rcu_reader"), .ptr registryLoc] (.int 0)] = none := by
  decide
example : absRunM true (mOut false)
      [.ext "pthread_self" [] (.int 77), .ext "mutex_lock" [.ptr lockLoc] (.int 0),
       .ext "cds_list_add" [.ptr (nodeLoc "rcu_reader"), .ptr (.glob "other")] (.int 0)] = none := by decide
example : absRunM true (mOut true)
      [.ext "pthread_self" [] (.int 77), .ext "mutex_lock" [.ptr lockLoc] (.int 0),
       .ext "cds_list_add" [.ptr (nodeLoc "rcu_reader"), .ptr registryLoc] (.int 0)] = none := by decide
example := memb_rcu_register_thread_refines true 0 envInit [.int 77, .int 0, .int 0, .int 0] (mOut false) 1 rfl (by decide)
  rfl rfl rfl

/-- memb unregister: 3 events -/
example : (exec 0 Gen.Src.«memb.rcu_unregister_thread» envInit [.int 0, .int 0, .int 0]).toOption.map (·.events) =
    some [.ext "mutex_lock" [.ptr lockLoc] (.int 0), .ext "cds_list_del" [.ptr (nodeLoc "rcu_reader")] (.int 0),
          .ext "mutex_unlock" [.ptr lockLoc] (.int 0)] := by decide
example : absRunM true (mOut true)
      [.ext "mutex_lock" [.ptr lockLoc] (.int 0), .ext "cds_list_del" [.ptr (nodeLoc "rcu_reader")] (.int 0),
       .ext "mutex_unlock" [.ptr lockLoc] (.int 0)] = some ([.lock, .listDel, .unlock], mOut false) := by decide
example := memb_rcu_unregister_thread_refines true 0 envInit [.int 0, .int 0, .int 0] (mOut true) rfl rfl rfl rfl

/-- qsbr register: 8 events; gp counter value 3 = `encq 2` -/
example : (exec 0 Gen.Src.«qsbr.urcu_qsbr_register_thread» Env.empty [.int 77, .int 0, .int 0, .int 0, .int 3]).toOption.map
      (·.events) =
    some [.ext "pthread_self" [] (.int 77), .ext "mutex_lock" [.ptr lockLoc] (.int 0),
          .ext "cds_list_add" [.ptr (nodeLoc "urcu_qsbr_reader"), .ptr registryLoc] (.int 0),
          .ext "mutex_unlock" [.ptr lockLoc] (.int 0), .fence .barrier, .ld ReadQsbr.qGpCtr (.int 3) 0,
          .st ReadQsbr.qRdCtr (.int 3) 0, .fence .mb] := by decide
example : absRunQR (qOut false 0)
      [.ext "pthread_self" [] (.int 77), .ext "mutex_lock" [.ptr lockLoc] (.int 0),
       .ext "cds_list_add" [.ptr (nodeLoc "urcu_qsbr_reader"), .ptr registryLoc] (.int 0),
       .ext "mutex_unlock" [.ptr lockLoc] (.int 0), .fence .barrier, .ld ReadQsbr.qGpCtr (.int 3) 0,
       .st ReadQsbr.qRdCtr (.int 3) 0, .fence .mb] =
    some ([.self, .lock, .listAdd, .unlock, .q (.qLd 2), .q (.qSt 2), .q .qFence], qOut true 2) := by decide
/-- going online under the registry lock is rejected -/
example : absRunQR (qOut false 0)
      [.ext "pthread_self" [] (.int 77), .ext "mutex_lock" [.ptr lockLoc] (.int 0),
       .ext "cds_list_add" [.ptr (nodeLoc "urcu_qsbr_reader"), .ptr registryLoc] (.int 0),
       .ld ReadQsbr.qGpCtr (.int 3) 0] = none := by decide

/-- qsbr unregister (no waiting updater): 6 events -/
example : (exec 0 Gen.Src.«qsbr.urcu_qsbr_unregister_thread» Env.empty [.int 0, .int 0, .int 0, .int 0]).toOption.map
      (·.events) =
    some [.st ReadQsbr.qRdCtr (.int 0) 5, .ld ReadQsbr.qWaiting (.int 0) 0, .fence .barrier,
          .ext "mutex_lock" [.ptr lockLoc] (.int 0), .ext "cds_list_del" [.ptr (nodeLoc "urcu_qsbr_reader")] (.int 0),
          .ext "mutex_unlock" [.ptr lockLoc] (.int 0)] := by decide
example : absRunQR (qOut true 2)
      [.st ReadQsbr.qRdCtr (.int 0) 5, .ld ReadQsbr.qWaiting (.int 0) 0, .fence .barrier,
       .ext "mutex_lock" [.ptr lockLoc] (.int 0), .ext "cds_list_del" [.ptr (nodeLoc "urcu_qsbr_reader")] (.int 0),
       .ext "mutex_unlock" [.ptr lockLoc] (.int 0)] =
    some ([.q .qOff, .q .qFence, .lock, .listDel, .unlock], qOut false 0) := by decide
example := qsbr_urcu_qsbr_unregister_thread_refines 0 Env.empty [.int 0, .int 0, .int 0, .int 0] (qOut true 2) rfl rfl rfl
  (by intro v hv; simp at hv; exact ⟨0, hv⟩)

/-! ## bp (`src/urcu-bp.c`): bracket shape of `urcu_bp_register` / `urcu_bp_unregister`

Definitions (tags of the external calls, the bracket automaton `K` on `(masked, lockI, lockR)`, the syntactic abstract
interpreter `flow` and its soundness theorem): header of `Src/RegBp.lean`.  `Good s s' out`: the events of the run are accepted by
`K` from `s`; the checker state reached is *dead* (an `abort` / `urcu_die` happened) or the run ended `normal` / `blocked` /
`fuel`, and if `normal` in state `s'`.  No hypothesis on the environment or the oracle: the statements are about every `.ok` run
(a run that dereferences an unset local / private location is `.error` and not covered). -/
open UrcuVerif.Src.RegBp

/-- `urcu_bp_register`: from "signals open, no lock" back to it; in between `pthread_sigmask(SIG_BLOCK)` … `SIG_SETMASK` bracket
`mutex_lock(&init_lock)` … `mutex_unlock(&init_lock)` (around `pthread_key_create`, `membarrier` …) and then
`mutex_lock(&rcu_registry_lock)` … `mutex_unlock(&rcu_registry_lock)` around everything `add_thread` does (arena scan / expansion,
`pthread_setspecific`, `cds_list_add(&reader->node, &registry)`) -/
theorem bp_urcu_bp_register_refines (fuel : Nat) (env : Env) (inp : List Val) (out : Out)
    (h : exec fuel Gen.Src.«bp.urcu_bp_register» env inp = .ok out) : Good B0 (some B0) out :=
  flow_sound _ _ _ flow_register fuel env inp out h

/-- `urcu_bp_unregister`: mask; `rcu_registry_lock` around `remove_thread` (`find_chunk`, `cds_list_del`); then `urcu_bp_exit()`
under `init_lock` (`munmap` of the chunks …) BEFORE the mask is restored (the order since commit 760a93b) -/
theorem bp_urcu_bp_unregister_refines (fuel : Nat) (env : Env) (inp : List Val) (out : Out)
    (h : exec fuel Gen.Src.«bp.urcu_bp_unregister» env inp = .ok out) : Good B0 (some B0) out :=
  flow_sound _ _ _ flow_unregister fuel env inp out h

/-- `add_thread` (with `arena_alloc`, `expand_arena`) on its own: all its events are registry-section events (`arena`,
`regList`, `abort`): accepted when signals are blocked and `rcu_registry_lock` is held, state unchanged (or dead) -/
theorem bp_add_thread_refines (fuel : Nat) (env : Env) (inp : List Val) (out : Out)
    (h : exec fuel Gen.Src.«bp.add_thread» env inp = .ok out) :
    ∃ t, runB (some BR) out.events = some t ∧ (t = none ∨ t = some BR) :=
  keeps_run BR out.events (exec_prims (keeps BR) _ add_thread_keeps fuel env inp out h)

theorem bp_remove_thread_refines (fuel : Nat) (env : Env) (inp : List Val) (out : Out)
    (h : exec fuel Gen.Src.«bp.remove_thread» env inp = .ok out) :
    ∃ t, runB (some BR) out.events = some t ∧ (t = none ∨ t = some BR) :=
  keeps_run BR out.events (exec_prims (keeps BR) _ remove_thread_keeps fuel env inp out h)

/-- `cleanup_thread(chunk, r)` = `BpArena.clear` on the fields the model tracks: one event `cds_list_del(&r->node)` (the model's
`registry.erase`), plain stores `r->ctr = 0`, `r->tid = 0`, `r->alloc = 0` (slot := `none`), `chunk->used = used - 1` -/
theorem bp_cleanup_thread_refines (fuel : Nat) (env : Env) (C R : Loc) (u : Int) (v : Val) (rest : List Val)
    (hc : env.vars "chunk" = some (.ptr C)) (hr : env.vars "rcu_reader_reg" = some (.ptr R))
    (hu : env.priv (.field C "used") = some (.int u)) :
    ∃ out, exec fuel Gen.Src.«bp.cleanup_thread» env (v :: rest) = .ok out ∧
      out.events = [.ext "cds_list_del" [.ptr (.field R "node")] v] ∧ out.ctl = .normal ∧ out.inp = rest ∧
      ∀ l, out.env.priv l =
        if l = .field C "used" then some (.int (u - 1))
        else if l = .field R "alloc" then some (.int 0)
        else if l = .field R "tid" then some (.int 0)
        else if l = .field R "ctr" then some (.int 0) else env.priv l :=
  bp_cleanup_thread fuel env C R u v rest hc hr hu

/-- `expand_arena`, empty chunk list = `BpArena.expand [] _ = ([Chunk.fresh INIT_READER_COUNT], .first)`: `mmap` of
`8 * sizeof(reader) + sizeof(chunk)` bytes, `memset 0` (all slots free), `capacity = 8`, `cds_list_add_tail` (append) -/
theorem bp_expand_arena_first_refines (fuel : Nat) (env : Env) (A N : Loc) (v1 v3 v4 : Val) (rest : List Val)
    (ha : env.vars "arena" = some (.ptr A)) (h1 : v1.truthy = true) :
    ∃ out, exec fuel Gen.Src.«bp.expand_arena» env (v1 :: .ptr N :: v3 :: v4 :: rest) = .ok out ∧
      out.events = [.ext "cds_list_empty" [.ptr (.field A "chunk_list")] v1,
                    .ext "mmap" [.int 0, .int (8 * 256 + 128), .int 3, .int 34, .int (-1), .int 0] (.ptr N),
                    .ext "memset" [.ptr N, .int 0, .int (8 * 256 + 128)] v3,
                    .ext "cds_list_add_tail" [.ptr (.field N "node"), .ptr (.field A "chunk_list")] v4] ∧
      out.ctl = .ret none ∧ out.inp = rest ∧
      ∀ l, out.env.priv l = if l = .field N "capacity" then some (.int 8) else env.priv l :=
  bp_expand_arena_first fuel env A N v1 v3 v4 rest ha h1
example : UrcuVerif.Gen.INIT_READER_COUNT = 8 := by decide

/-- `expand_arena`, `mremap` fails = `BpArena.expand cs .newChunk = (cs ++ [Chunk.fresh (last.cap * 2)], .newChunk)`: the new
chunk's capacity is twice the last chunk's, it is zeroed and appended -/
theorem bp_expand_arena_new_refines (fuel : Nat) (env : Env) (A Lc N : Loc) (c : Nat) (v4 v5 : Val) (rest : List Val)
    (ha : env.vars "arena" = some (.ptr A))
    (hprev : env.priv (.field (.field A "chunk_list") "prev") = some (.ptr (.field Lc "node")))
    (hcap : env.priv (.field Lc "capacity") = some (.int (c : Int))) :
    ∃ out, exec fuel Gen.Src.«bp.expand_arena» env (.int 0 :: .int (-1) :: .ptr N :: v4 :: v5 :: rest) = .ok out ∧
      out.events = [.ext "cds_list_empty" [.ptr (.field A "chunk_list")] (.int 0),
                    .ext "mremap" [.ptr Lc, .int ((c : Int) * 256 + 128), .int (((2 * c : Nat) : Int) * 256 + 128), .int 0] (.int (-1)),
                    .ext "mmap" [.int 0, .int (((2 * c : Nat) : Int) * 256 + 128), .int 3, .int 34, .int (-1), .int 0] (.ptr N),
                    .ext "memset" [.ptr N, .int 0, .int (((2 * c : Nat) : Int) * 256 + 128)] v4,
                    .ext "cds_list_add_tail" [.ptr (.field N "node"), .ptr (.field A "chunk_list")] v5] ∧
      out.ctl = .normal ∧ out.inp = rest ∧
      ∀ l, out.env.priv l = if l = .field N "capacity" then some (.int ((2 * c : Nat) : Int)) else env.priv l :=
  bp_expand_arena_new fuel env A Lc N c v4 v5 rest ha hprev hcap

/-- outside the registry section (lock not held, or signals open) the first registry-list operation is rejected -/
example : runB (some ⟨true, false, false⟩) [.ext "cds_list_add" [.ptr (.field (.obj 1) "node"), .ptr registryLoc] (.int 0)] = none := by
  decide
example : runB (some ⟨false, false, true⟩) [.ext "cds_list_del" [.ptr (.field (.obj 1) "node")] (.int 0)] = none := by decide
/-- restoring the mask with a lock held, or taking `init_lock` inside the registry section, is rejected -/
example : runB (some BR) [.ext "pthread_sigmask" [.int 2, .ptr (.glob "&oldmask"), .int 0] (.int 0)] = none := by decide
example : runB (some BR) [.ext "mutex_lock" [.ptr (.glob "init_lock")] (.int 0)] = none := by decide

/-- the bracket automaton is the projection of L2 (`BpArena.Sig`, the code as it is) on `(blocked, initHeld, regHeld)` -/
theorem bp_sig_proj_enabled (s : BpArena.Sig.State) (t : Tag) (b' : B) (ht : tagAt s.top = some t)
    (hk : K (projB s) t = some (some b')) : ∃ s', BpArena.Sig.step BpArena.Sig.real s .run = some s' ∧ projB s' = b' :=
  sig_proj_enabled s t b' ht hk
theorem bp_sig_proj_silent (s s' : BpArena.Sig.State) (ht : tagAt s.top = none)
    (h : BpArena.Sig.step BpArena.Sig.real s .run = some s') : projB s' = projB s := sig_proj_silent s s' ht h

/-- non-vacuity: an already registered thread (`URCU_TLS(urcu_bp_reader) != NULL`, e.g. registered by a signal handler between
the caller's test and the mask): 3 events, mask and unmask only -/
def envBpReg : Env :=
  { vars := fun _ => none, priv := fun l => if l = .tls "urcu_bp_reader" then some (.ptr (.obj 7)) else none }
example : (exec 0 Gen.Src.«bp.urcu_bp_register» envBpReg [.int 0, .int 0, .int 0]).toOption.map (·.events) =
    some [.ext "sigfillset" [.ptr (.glob "&newmask")] (.int 0),
          .ext "pthread_sigmask" [.int 0, .ptr (.glob "&newmask"), .ptr (.glob "&oldmask")] (.int 0),
          .ext "pthread_sigmask" [.int 2, .ptr (.glob "&oldmask"), .int 0] (.int 0)] := by decide
example : runB (some B0)
      [.ext "sigfillset" [.ptr (.glob "&newmask")] (.int 0),
       .ext "pthread_sigmask" [.int 0, .ptr (.glob "&newmask"), .ptr (.glob "&oldmask")] (.int 0),
       .ext "pthread_sigmask" [.int 2, .ptr (.glob "&oldmask"), .int 0] (.int 0)] = some (some B0) := by decide

end UrcuVerif.Props.SrcReg
