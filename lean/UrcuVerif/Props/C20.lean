import UrcuVerif.Uatomic.Lemmas
import UrcuVerif.Uatomic.Tso
/-!
# C20 — uatomic ops are atomic and return the documented value for every width/operand

Statements only (helper lemmas: `UrcuVerif/Uatomic/Lemmas.lean`, invariant of the litmus:
`UrcuVerif/Uatomic/Tso.lean`).  Model: `UrcuVerif/Uatomic/Model.lean` – byte memory, the two
implementations compiled on x86-64 (`Impl.x86`: `x86.h` + `generic.h`; `Impl.builtins`:
`builtins-generic.h`) with their operand/result casts explicit, and `spec`, the documented
sequential semantics.

Tie: `harness/scen/uatomic.c` runs the REAL headers (no shim; built with and without
`-DCONFIG_RCU_USE_ATOMIC_BUILTINS`) on every op × width × signedness × naturally aligned offset of a
16-byte buffer × operand C type, prints result and memory image, and `Driver/Uatomic.lean`
replays every line on `exec`.

## What is proved (all widths `w ≤ 64`, all operand values and operand types, both builds)

* `op_semantics`: every operation, as implemented through the casts and `case` arms, stores and
  returns exactly `spec` on the operands converted to the pointee type; in particular the result
  does not depend on the bits of the 64-bit extended operand above `w`
  (`upper_bits_irrelevant`, `trunc_add_ext`, `trunc_neg_ext`, `trunc_sub_ext`,
  `cmpxchg_compare_truncated`, `add_return_cast_truncates`);
* `neighbours_untouched`: no byte outside `[o, o + w/8)` changes;
* `rmw_no_lost_update`, `rmw_order_irrelevant`, `xchg_tokens_conserved`: for ANY schedule of
  atomic steps by any threads.  These hold *by construction* of the model – each operation is one
  atomic `exec` step – and are recorded as such: they say that atomic steps compose as expected
  (also across adjacent objects in one word), not that the hardware step is atomic;
* `rmw_is_fence`, `sb_reachable_plain`, `sb_reachable_one_sided` on an explicit x86-TSO machine.

## What is NOT provable here (trusted, stated in the evidence)

* that the CPU honours the `lock` prefix / the implicit lock of `xchg` (atomicity of the
  read-modify-write, draining of the store buffer), and that gcc's `__atomic` builtins expand to
  such instructions: hardware + compiler.  The check inspects the *emitted instructions*
  (disassembly of one function per op/width) and hammers the real operations from several threads,
  but neither is a proof;
* the *compiler contract* of the inline-asm operand constraints (what gcc may assume about plain C
  accesses to the same object around a uatomic call).  The model describes what the instruction
  does to memory, not what the optimizer is told.  A genuine defect lived exactly there: `x86.h`
  declared the memory operand of `add/sub/inc/dec/and/or` write-only (`"=m"`), so gcc deleted a
  preceding plain store (`g = 10; uatomic_inc(&g)` gave a stale value + 1; repaired in /repo).  The
  harness' `plainstore` mode checks this at oracle level (real headers at -O1, -O2 and -O3, plain store
  then RMW / RMW then plain load, on globals, statics, malloc'ed objects and pointer parameters) –
  a test of this compiler on those function shapes, not a theorem;
* the exhaustive 8-bit operand-pair runs of the tie are *tests* of the correspondence between the
  compiled headers and `exec` (they cover every 8-bit input of every op); they are not kernel
  proofs and the theorems below do not depend on them.  The theorems are general in `w`.
-/
namespace UrcuVerif.Uatomic

/-! ## Truncation laws (the reason the upper bits of the extended operand never matter) -/

/-- adding at 64 bits and truncating = adding the truncations -/
theorem trunc_add_ext (w : Nat) (hw : w ≤ 64) (e₁ e₂ : BitVec 64) :
    (e₁ + e₂).setWidth w = e₁.setWidth w + e₂.setWidth w := BitVec.setWidth_add e₁ e₂ hw

/-- `uatomic_sub`: negating at full width (`-(caa_cast_long_keep_sign(v))`) and truncating in the
`case` arm = negating at width `w` -/
theorem trunc_neg_ext (w : Nat) (hw : w ≤ 64) (e : BitVec 64) : (-e).setWidth w = -(e.setWidth w) :=
  setWidth_neg_of_le w hw e

theorem trunc_sub_ext (w : Nat) (hw : w ≤ 64) (e₁ e₂ : BitVec 64) :
    (e₁ - e₂).setWidth w = e₁.setWidth w - e₂.setWidth w := by
  have : e₁ - e₂ = e₁ + -e₂ := by grind
  rw [this, BitVec.setWidth_add _ _ hw, setWidth_neg_of_le w hw]
  grind

/-- `(unsigned long)(v)` followed by the arm's `(unsigned T)` cast = direct conversion of the
operand to the `w`-bit type, whatever the operand's own type (narrower or wider, signed or not) -/
theorem trunc_cast_long (a : Arg) (w : Nat) (hw : w ≤ 64) : a.long.setWidth w = a.to w :=
  long_trunc a w hw

/-- the value a caller sees after converting the returned expression to `long` determines the
returned `w`-bit value (used by the driver's comparison) -/
theorem retLong_trunc {w : Nat} (hw : w ≤ 64) (sgn : Bool) (r : BitVec w) : (retLong sgn r).setWidth w = r := by
  rw [retLong, convTo_trunc sgn r w hw]
  cases sgn <;> simp [convTo]

/-! ## Operation semantics -/

/-- **op_semantics** (macro level): for every implementation, operation, width and operand
expressions, the effect equals the documented semantics on the converted operands. -/
theorem op_semantics_eff (impl : Impl) (op : Op) (w : Nat) (hw : w ≤ 64) (mem : BitVec w) (a b : Arg) :
    macroEff impl op w mem a b = spec op mem (a.to w) (b.to w) :=
  macroEff_eq_spec impl op w hw mem a b

/-- **op_semantics** (memory level): one implementation step = one `spec` step on memory. -/
theorem op_semantics (impl : Impl) (op : Op) (w : Nat) (hw : w ≤ 64) (m : Nat → BitVec 8) (o : Nat)
    (a b : Arg) : exec impl op w m o a b = specExec op w m o (a.to w) (b.to w) :=
  exec_eq_specExec impl op w hw m o a b

/-- …and read back: after the step the object holds the value `spec` stores (or its old value when
`spec` stores nothing), and the step returns what `spec` returns.  (`w = 8·k`, `k ≤ 8` bytes.) -/
theorem op_semantics_value (impl : Impl) (op : Op) (k : Nat) (hk : k ≤ 8) (m : Nat → BitVec 8) (o : Nat)
    (a b : Arg) :
    let old := load (8 * k) m o
    let r := exec impl op (8 * k) m o a b
    let e := spec op old (a.to (8 * k)) (b.to (8 * k))
    load (8 * k) r.1 o = e.st.getD old ∧ r.2 = e.ret := by
  have hw : 8 * k ≤ 64 := by omega
  simp only [exec_eq_specExec impl op (8 * k) hw, specExec]
  exact ⟨load_commit_same k m o _, rfl⟩

/-- **upper_bits_irrelevant**: on the x86 path, where operands travel as `unsigned long`, two
operand pairs that agree on their low `w` bits give the same effect – for every operation. -/
theorem upper_bits_irrelevant (op : Op) (w : Nat) (hw : w ≤ 64) (mem : BitVec w) (e₁ e₂ e₁' e₂' : BitVec 64)
    (h₁ : e₁.setWidth w = e₁'.setWidth w) (h₂ : e₂.setWidth w = e₂'.setWidth w) :
    x86Macro op w mem (Arg.ulong e₁) (Arg.ulong e₂) = x86Macro op w mem (Arg.ulong e₁') (Arg.ulong e₂') := by
  have t : ∀ e : BitVec 64, (Arg.ulong e).to w = e.setWidth w := fun e => by simp [Arg.ulong, Arg.to, convTo]
  simp only [x86_macro_eq_spec op w hw, t, h₁, h₂]

/-- **cmpxchg_compare_truncated**: `__uatomic_cmpxchg`'s arm compares memory with the *truncated*
expected value, stores the truncated new value iff equal, and always returns the old content. -/
theorem cmpxchg_compare_truncated (w : Nat) (hw : w ≤ 64) (mem : BitVec w) (eold enew : BitVec 64) :
    (x86Cmpxchg w mem eold enew).cast =
      ⟨if mem = eold.setWidth w then some (enew.setWidth w) else none, some mem⟩ :=
  x86Cmpxchg_cast w hw mem eold enew

/-- **add_return_cast_truncates**: the `unsigned long` returned by `__uatomic_add_return` may exceed
`2^w` (1- and 2-byte arms), the macro's cast brings it back to `mem + v` at width `w`. -/
theorem add_return_cast_truncates (w : Nat) (hw : w ≤ 64) (mem : BitVec w) (e : BitVec 64) :
    (x86AddReturn w mem e).cast = ⟨some (mem + e.setWidth w), some (mem + e.setWidth w)⟩ :=
  x86AddReturn_cast w hw mem e

/-- the un-cast inner return value really is out of range: `0xff + 0xff` in the 1-byte arm -/
example : (x86AddReturn 8 0xff#8 0xff#64).ret = some 0x1fe#64 := by decide
example : (x86AddReturn 8 0xff#8 0xff#64).cast.ret = some 0xfe#8 := by decide

/-- `uatomic_sub_return(addr, v)` = `uatomic_add_return(addr, -v)` (documented as decrement) -/
theorem sub_is_add_neg {w : Nat} (old a b : BitVec w) :
    spec .subReturn old a b = spec .addReturn old (-a) b ∧ spec .sub old a b = spec .add old (-a) b := by
  simp [spec, BitVec.sub_eq_add_neg]

/-! ## Neighbouring bytes -/

/-- **neighbours_untouched**: no operation of either implementation changes a byte outside
`[o, o + w/8)` – for every offset (in particular all offsets inside a 16-byte window and the canary
bytes around it), every width and operand. -/
theorem neighbours_untouched (impl : Impl) (op : Op) (w : Nat) (m : Nat → BitVec 8) (o : Nat) (a b : Arg)
    (addr : Nat) (h : addr < o ∨ o + w / 8 ≤ addr) : (exec impl op w m o a b).1 addr = m addr :=
  commit_outside w m o _ addr h

/-- an object next to the one operated on keeps its value -/
theorem adjacent_object_untouched (impl : Impl) (op : Op) (w : Nat) (m : Nat → BitVec 8) (o o' : Nat) (a b : Arg)
    (h : o' + w / 8 ≤ o ∨ o + w / 8 ≤ o') : load w (exec impl op w m o' a b).1 o = load w m o :=
  load_commit_disjoint w m o o' _ h

/-! ## Concurrent read-modify-writes: no lost update (true by construction of atomic steps) -/

/-- **rmw_no_lost_update**: let any number of threads apply, in any interleaving `sched` (each
element one atomic step), additive RMWs (`add`, `sub`, `inc`, `dec`, `add_return`, `sub_return`,
any operand types) to the object at `o`, and arbitrary operations to objects of the same width that
do not overlap it (adjacent bytes of the same word included).  Then the object ends up with its
initial value plus the sum of everything that was added, modulo `2^w`.

This is a statement about composing atomic steps; that one `lock add` IS one atomic step is the
hardware assumption. -/
theorem rmw_no_lost_update (impl : Impl) (k : Nat) (hk : k ≤ 8) (o : Nat) (sched : List Sched)
    (m : Nat → BitVec 8)
    (hloc : ∀ s ∈ sched, s.off = o ∨ s.off + k ≤ o ∨ o + k ≤ s.off)
    (hadd : ∀ s ∈ sched, s.off = o → (delta s.op (s.a.to (8 * k))).isSome) :
    load (8 * k) (runSched impl (8 * k) m sched) o =
      load (8 * k) m o +
        sumBV ((sched.filter (fun s => s.off = o)).map (fun s => (delta s.op (s.a.to (8 * k))).getD 0)) :=
  runSched_sum impl k hk o sched m hloc hadd

/-- …hence the final value does not depend on the order in which the threads' steps were
scheduled. -/
theorem rmw_order_irrelevant (impl : Impl) (k : Nat) (hk : k ≤ 8) (o : Nat) (sched sched' : List Sched)
    (m : Nat → BitVec 8) (hp : sched.Perm sched')
    (hloc : ∀ s ∈ sched, s.off = o ∨ s.off + k ≤ o ∨ o + k ≤ s.off)
    (hadd : ∀ s ∈ sched, s.off = o → (delta s.op (s.a.to (8 * k))).isSome) :
    load (8 * k) (runSched impl (8 * k) m sched) o = load (8 * k) (runSched impl (8 * k) m sched') o := by
  rw [runSched_sum impl k hk o sched m hloc hadd,
    runSched_sum impl k hk o sched' m (fun s h => hloc s (hp.mem_iff.mpr h)) (fun s h => hadd s (hp.mem_iff.mpr h))]
  congr 1
  exact sumBV_perm ((hp.filter _).map _)

/-- **xchg_tokens_conserved**: threads repeatedly exchange the token they hold with a shared
object (`held[t] := uatomic_xchg(addr, held[t])`), any schedule `ts` of thread ids: the multiset
of tokens (the object's content plus every thread's token) never changes – none is lost, none is
duplicated. -/
theorem xchg_tokens_conserved (impl : Impl) (k : Nat) (hk : k ≤ 8) (o : Nat) (ts : List Nat) :
    ∀ (st : (Nat → BitVec 8) × List (BitVec (8 * k))),
      let r := runXchg impl (8 * k) o st ts
      (load (8 * k) r.1 o :: r.2).Perm (load (8 * k) st.1 o :: st.2) := by
  induction ts with
  | nil => intro st; exact List.Perm.refl _
  | cons t ts ih =>
    intro st
    simp only [runXchg]
    exact (ih _).trans (xchgStep_perm impl k hk o st t)

/-! ## Full-barrier behaviour on x86-TSO -/

open Tso in
/-- what stands between the store and the load of a litmus thread when it calls `uatomic_<op>`
on a third location with converted operands `a`, `b` (width `w`) -/
def midOfOp (op : Op) (w : Nat) (a b : BitVec w) : Tso.Mid :=
  .rmw (fun c => ((spec op (BitVec.ofNat w c) a b).st.getD (BitVec.ofNat w c)).toNat)

open Tso in
/-- **rmw_is_fence**: store-buffering litmus `T0: x:=1; RMW0; r0:=y ∥ T1: y:=1; RMW1; r1:=x` on the
explicit x86-TSO machine, for ALL interleavings of thread steps and store-buffer flushes: if each
thread performs a locked read-modify-write (any update function: `uatomic_xchg`, `uatomic_cmpxchg`
successful or not, `uatomic_add_return`, `uatomic_sub_return`, …) between its store and its load,
the outcome `r0 = 0 ∧ r1 = 0` is unreachable. -/
theorem rmw_is_fence (k : Bool → Mid) (hk : ∀ t, ∃ f, k t = .rmw f) {s : S} (h : Reach k s) : ¬ BothZero s := by
  intro ⟨h1, h2, h3, h4⟩
  have := (inv_reach hk h).key true h1 h3 (by simpa using h2)
  simp_all

open Tso in
/-- instance for the four operations documented as full barriers, any width and operands, possibly
different operations in the two threads -/
theorem rmw_is_fence_uatomic (op0 op1 : Op) (w : Nat) (a0 b0 a1 b1 : BitVec w) {s : S}
    (h : Reach (fun t => if t then midOfOp op1 w a1 b1 else midOfOp op0 w a0 b0) s) : ¬ BothZero s :=
  rmw_is_fence _ (fun t => by cases t <;> simp [midOfOp]) h

open Tso in
/-- after a locked RMW the issuing thread's store buffer is empty, and the RMW was enabled only
with an empty buffer: every earlier store of the thread is globally visible before it -/
theorem rmw_leaves_buffer_empty {T L : Type} [DecidableEq T] [DecidableEq L] {s s' : M T L} {t l f old}
    (h : s.rmw t l f = some (s', old)) : s.buf t = [] ∧ s'.buf t = [] :=
  ⟨rmw_requires_empty h, rmw_leaves_empty h⟩

open Tso in
/-- **sb_reachable_plain**: with plain stores only (`uatomic_set`, nothing in between) the outcome
`r0 = r1 = 0` IS reachable on the same machine – explicit witness schedule. -/
theorem sb_reachable_plain : ∃ s, Reach (fun _ => Mid.plain) s ∧ BothZero s := by
  let sched : List (Bool × Act) :=
    [(false, .store), (true, .store), (false, .mid), (true, .mid), (false, .load), (true, .load)]
  cases hr : run (fun _ => Mid.plain) init sched with
  | none => exact absurd hr (by decide)
  | some s =>
    refine ⟨s, reach_run _ sched init s Reach.init hr, ?_⟩
    have h : (run (fun _ => Mid.plain) init sched).map (fun s => (s.pc true, s.pc false, s.r true, s.r false))
        = some (.fin, .fin, 0, 0) := by decide
    rw [hr] at h
    simp only [Option.map_some, Option.some.injEq, Prod.mk.injEq] at h
    exact h

open Tso in
/-- **sb_reachable_one_sided**: one RMW is not enough – if only thread 0 has the locked RMW and
thread 1 uses plain accesses, `r0 = r1 = 0` is still reachable (both barriers are necessary). -/
theorem sb_reachable_one_sided (f : Nat → Nat) :
    ∃ s, Reach (fun t => if t then Mid.plain else Mid.rmw f) s ∧ BothZero s := by
  let k : Bool → Mid := fun t => if t then Mid.plain else Mid.rmw f
  let sched : List (Bool × Act) :=
    [(true, .store), (true, .mid), (true, .load), (false, .store), (false, .flush), (false, .mid), (false, .load)]
  have h : (run k init sched).map (fun s => (s.pc true, s.pc false, s.r true, s.r false))
      = some (.fin, .fin, 0, 0) := by
    simp [run, step, init, k, sched, M.store, M.flush, M.rmw, M.load, lookup, updF, myLoc, otherLoc]
  cases hr : run k init sched with
  | none => rw [hr] at h; simp at h
  | some s =>
    refine ⟨s, reach_run _ sched init s Reach.init hr, ?_⟩
    rw [hr] at h
    simp only [Option.map_some, Option.some.injEq, Prod.mk.injEq] at h
    exact h

/-! ## Non-vacuity: concrete, non-trivial instances of the hypotheses -/

/-- a 16-byte window `00 11 22 … ff` -/
def exMem : Nat → BitVec 8 := fun a => BitVec.ofNat 8 (a * 17)

/-- `uatomic_add_return((signed char *)p + 3, -1)` with the `int` literal `-1`, both builds: the byte
`0x33` becomes `0x32`, returned `0x32`, neighbours `0x22` and `0x44` untouched -/
example : let r := exec .x86 .addReturn 8 exMem 3 (Arg.int (-1)) (Arg.int 0)
    (r.2, r.1 2, r.1 3, r.1 4) = (some 0x32#8, 0x22#8, 0x32#8, 0x44#8) := by decide
example : let r := exec .builtins .addReturn 8 exMem 3 (Arg.int (-1)) (Arg.int 0)
    (r.2, r.1 2, r.1 3, r.1 4) = (some 0x32#8, 0x22#8, 0x32#8, 0x44#8) := by decide

/-- operands that differ only above bit 16 behave identically on a 16-bit object -/
example : (exec .x86 .cmpxchg 16 exMem 2 (Arg.ulong 0xdead0000_00003322#64)
    (Arg.ulong 0xffff0000_0000beef#64)).2 = some 0x3322#16 := by decide
example : load 16 (exec .x86 .cmpxchg 16 exMem 2 (Arg.ulong 0xdead0000_00003322#64)
    (Arg.ulong 0xffff0000_0000beef#64)).1 2 = 0xbeef#16 := by decide

/-- `uatomic_sub(&ulong, (unsigned int)2)`: the negation happens at 64 bits (result `old - 2`, not
`old + 0xfffffffe`) -/
example : load 64 (exec .x86 .sub 64 (fun _ => 0) 0 ⟨false, 32, 2#32⟩ (Arg.int 0)).1 0 = 0xffffffff_fffffffe#64 := by
  decide

/-- hypotheses of `rmw_no_lost_update` are satisfiable: three threads, two adjacent bytes -/
example : let sched : List Sched :=
      [⟨0, 5, .add, Arg.int 200, Arg.int 0⟩, ⟨1, 6, .xchg, Arg.int 9, Arg.int 0⟩, ⟨2, 5, .inc, Arg.int 0, Arg.int 0⟩,
       ⟨1, 5, .subReturn, Arg.int 3, Arg.int 0⟩, ⟨0, 5, .add, Arg.int 100, Arg.int 0⟩]
    load 8 (runSched .x86 8 exMem sched) 5 = 0x55#8 + 200#8 + 1#8 - 3#8 + 100#8 ∧
    load 8 (runSched .x86 8 exMem sched) 6 = 9#8 := by decide

/-- token exchange: three threads, one slot -/
example : (runXchg .builtins 8 0 (exMem, [1#8, 2#8, 3#8]) [0, 2, 1, 0]).2 = [2#8, 3#8, 1#8] ∧
    load 8 (runXchg .builtins 8 0 (exMem, [1#8, 2#8, 3#8]) [0, 2, 1, 0]).1 0 = 0#8 := by decide

open Tso in
/-- the litmus with `uatomic_xchg` in both threads has complete runs (the theorem is not vacuous):
here `r0 = 0`, `r1 = 1` -/
example : (run (fun _ => midOfOp .xchg 32 5#32 0#32) init
      [(false, .store), (false, .flush), (false, .mid), (false, .load),
       (true, .store), (true, .flush), (true, .mid), (true, .load)]).map
      (fun s => [s.r false, s.r true, s.ret false, s.ret true, s.m.mem .z])
    = some [0, 1, 0, 5, 5] := by decide

open Tso in
/-- and the RMW step is refused while the thread's own store is still buffered -/
example : run (fun _ => midOfOp .addReturn 32 1#32 0#32) init [(false, .store), (false, .mid)] |>.isNone := by
  decide

end UrcuVerif.Uatomic
