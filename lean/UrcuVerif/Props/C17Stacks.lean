import UrcuVerif.Wfs.Solo
import UrcuVerif.Lfs.Solo
/-!
# C17 (stack facets) — progress guarantees of `cds_wfs` and `cds_lfs`

Solo-run theorems on the step-level models of C11 (`Wfs/Model.lean`, `Lfs/Model.lean`, x86-TSO):
`solo c t k s` = thread `t` takes `k` steps of its own from state `s` (its next instruction, or
the draining of its own store buffer when that instruction is a locked RMW) while **all other
threads stay frozen wherever they are**; `none` would mean it needs somebody else.  `s` ranges
over all reachable states, so the other threads are suspended at arbitrary points inside their
operations (between the `xchg` and the `next` store of a wfstack push, between load and cmpxchg
of a pop, with stores sitting in their buffers, …).

The wfstack theorems hold for every synchronisation scheme of the model, including concurrent
poppers under RCU (`Wfs.Cfg.scheme = .rcu`); those that use the invariant take `c.WF`.

Blocking operations (`___cds_wfs_node_sync_next(blocking)`, hence `__cds_wfs_pop_blocking`,
`cds_wfs_next_blocking`, and the mutex-taking wrappers) are *not* claimed.
-/
namespace UrcuVerif.C17Stacks

/-- **wfstack push is wait-free** -/
theorem wfs_push_wait_free (c : Wfs.Cfg) {s : Wfs.State} (h : Wfs.Reach c s) (t n : Nat)
    (hp : s.pc t = .pushX n) :
    ∃ k s', k ≤ 4 ∧ Wfs.solo c t k s = some s' ∧ s'.pc t = .idle ∧ (∃ b, s'.ret t = .flag b) ∧
      Wfs.Reach c s' :=
  Wfs.push_wait_free c h t n hp

/-- … and no step of another thread (instruction or buffer flush) can undo the pusher's progress:
other threads never touch its pc, its store buffer or its result -/
theorem wfs_others_cannot_delay (c : Wfs.Cfg) {s s' : Wfs.State} {l : Wfs.Label}
    (st : Wfs.step c s l = some s') (t : Nat) (ht : l.tid ≠ some t) :
    s'.pc t = s.pc t ∧ s'.buf t = s.buf t ∧ s'.ret t = s.ret t :=
  let h := Wfs.step_frame c st t ht; ⟨h.1, h.2.1, h.2.2.1⟩

/-- **pop_all is wait-free** (both stacks): one unconditional `xchg` -/
theorem wfs_pop_all_one_rmw (c : Wfs.Cfg) {s : Wfs.State} (t : Nat) (hp : s.pc t = .idle)
    (hr : Wfs.hasRightAll c s t) (hb : s.buf t = []) (hv : s.priv t = []) :
    ∃ s', Wfs.step c s (.popAll t) = some s' ∧ s'.pc t = .idle ∧ s'.head = Wfs.END :=
  Wfs.popAll_one_step c t hp hr hb hv

theorem lfs_pop_all_one_rmw (c : Lfs.Cfg) {s : Lfs.State} (t : Nat) (hp : s.pc t = .idle)
    (hr : Lfs.mayPopAll c s t) (hb : s.buf t = []) (hv : s.priv t = []) :
    ∃ s', Lfs.step c s (.popAll t) = some s' ∧ s'.pc t = .idle ∧ s'.head = 0 :=
  Lfs.popAll_one_step c t hp hr hb hv

/-- **lfstack push is lock-free** (`solo_terminates`): from any reachable state, anywhere inside
`cds_lfs_push`, the solo run returns within 6 own steps -/
theorem lfs_push_solo_terminates (c : Lfs.Cfg) (wf : c.WF) {s : Lfs.State} (h : Lfs.Reach c s)
    (t n h0 : Nat) (hp : s.pc t = .pushSt n h0 ∨ s.pc t = .pushCas n h0) :
    ∃ k s', k ≤ 6 ∧ Lfs.solo c t k s = some s' ∧ s'.pc t = .idle ∧ (∃ b, s'.ret t = .flag b) ∧
      Lfs.Reach c s' :=
  Lfs.push_solo_terminates c wf h t n h0 hp

/-- **lfstack pop is lock-free**: within 5 own steps -/
theorem lfs_pop_solo_terminates (c : Lfs.Cfg) (wf : c.WF) {s : Lfs.State} (h : Lfs.Reach c s) (t : Nat)
    (hp : s.pc t = .popLd ∨ (∃ h0, s.pc t = .popLdN h0) ∨ ∃ h0 nx, s.pc t = .popCas h0 nx) :
    ∃ k s', k ≤ 5 ∧ Lfs.solo c t k s = some s' ∧ s'.pc t = .idle ∧
      (s'.ret t = .null ∨ ∃ n, s'.ret t = .node n) ∧ Lfs.Reach c s' :=
  Lfs.pop_solo_terminates c wf h t hp

/-- **cas_fails_only_by_interference**: the push cmpxchg succeeds iff `head` still holds the
value this thread read last; when it fails, the value it read becomes the new guess (so that a
second failure needs a second interfering step) -/
theorem lfs_push_cas_fails_only_by_interference (c : Lfs.Cfg) {s : Lfs.State} {t n h0 : Nat}
    (hp : s.pc t = .pushCas n h0) (hb : s.buf t = []) :
    ∃ s', Lfs.step c s (.pushCas t) = some s' ∧ s'.buf t = [] ∧
      ((s.head = h0 ∧ s'.pc t = .idle ∧ s'.ret t = .flag (h0 != 0) ∧ s'.head = n) ∨
       (s.head ≠ h0 ∧ s'.pc t = .pushSt n s.head ∧ s'.head = s.head)) :=
  Lfs.en_pushCas c hp hb

theorem lfs_pop_cas_fails_only_by_interference (c : Lfs.Cfg) {s : Lfs.State} {t h0 nx : Nat}
    (hp : s.pc t = .popCas h0 nx) (hb : s.buf t = []) :
    ∃ s', Lfs.step c s (.popCas t) = some s' ∧ s'.buf t = [] ∧
      ((s.head = h0 ∧ s'.pc t = .idle ∧ s'.ret t = .node h0) ∨
       (s.head ≠ h0 ∧ s'.pc t = .popLd ∧ s'.head = s.head)) :=
  Lfs.en_popCas c hp hb

/-- **nonblocking_never_waits** (wfstack `__cds_wfs_pop_nonblocking`): returns within 4 own
steps from any reachable state -/
theorem wfs_nonblocking_pop_never_waits (c : Wfs.Cfg) {s : Wfs.State} (h : Wfs.Reach c s) (t : Nat)
    (hp : s.pc t = .popLd false) :
    ∃ k s', k ≤ 4 ∧ Wfs.solo c t k s = some s' ∧ s'.pc t = .idle ∧ Wfs.Reach c s' :=
  Wfs.nonblocking_pop_never_waits c h t hp

/-- `cds_wfs_next_nonblocking`: a single load -/
theorem wfs_nonblocking_next_never_waits (c : Wfs.Cfg) {s : Wfs.State} (t : Nat) (hp : s.pc t = .idle)
    (hc : s.cur t ≠ Wfs.END) : ∃ s', Wfs.step c s (.iterNext t false) = some s' ∧ s'.pc t = .idle :=
  Wfs.nonblocking_next_one_step c t hp hc

/-- **wouldblock_only_if_inflight**: the non-blocking pop gives up at `sync_next` only if a push
of the top node is in flight (its pusher is between `xchg` and store, or the store is in its
store buffer) -/
theorem wfs_wouldblock_only_if_inflight (c : Wfs.Cfg) (wf : c.WF) {s : Wfs.State} (h : Wfs.Reach c s) (t : Nat)
    (h0 : Nat) (hp : s.pc t = .popSync false h0) (hrd : Wfs.rd s t h0 = 0) :
    ∃ u o, Wfs.PendC s u h0 o :=
  (Wfs.pop_incomplete c wf h t false h0 hp hrd).1

theorem wfs_next_wouldblock_only_if_inflight (c : Wfs.Cfg) (wf : c.WF) {s : Wfs.State} (h : Wfs.Reach c s) (t : Nat)
    (hp : s.pc t = .idle) (hcur : s.cur t ≠ Wfs.END) (hrd : Wfs.rd s t (s.cur t) = 0) :
    ∃ u b, Wfs.PendC s u (s.cur t) b :=
  (Wfs.iter_incomplete c wf h t hp hcur hrd).1

/-- **never WOULDBLOCK when no other operation is in progress** -/
theorem wfs_nonblocking_pop_quiet_succeeds (c : Wfs.Cfg) (wf : c.WF) {s : Wfs.State} (h : Wfs.Reach c s) (t : Nat)
    (hp : s.pc t = .popLd false) (hq : Wfs.Quiet s t) :
    ∃ k s', k ≤ 4 ∧ Wfs.solo c t k s = some s' ∧ s'.pc t = .idle ∧ s'.ret t ≠ .wouldblock :=
  Wfs.nonblocking_pop_quiet_succeeds c wf h t hp hq

theorem wfs_nonblocking_next_quiet_succeeds (c : Wfs.Cfg) (wf : c.WF) {s : Wfs.State} (h : Wfs.Reach c s) (t : Nat)
    (hp : s.pc t = .idle) (hc : s.cur t ≠ Wfs.END) (hq : Wfs.Quiet s t) :
    ∃ s', Wfs.step c s (.iterNext t false) = some s' ∧ s'.ret t ≠ .wouldblock ∧ s'.cur t ≠ s.cur t :=
  Wfs.nonblocking_next_quiet_succeeds c wf h t hp hc hq

/-- `nonblocking_result_correct`: whatever a non-blocking pop returns is what C11 says
(`wfs_LAST_state_correct`, `wfs_pop_null_iff_empty`); a WOULDBLOCK leaves the stack untouched -/
theorem wfs_wouldblock_changes_nothing (c : Wfs.Cfg) (wf : c.WF) {s : Wfs.State} (h : Wfs.Reach c s) (t : Nat)
    (h0 : Nat) (hp : s.pc t = .popSync false h0) (hrd : Wfs.rd s t h0 = 0) :
    ∃ s', Wfs.step c s (.popSync t) = some s' ∧ s'.ret t = .wouldblock ∧ s'.pc t = .idle ∧
      s'.abs = s.abs ∧ s'.head = s.head :=
  (Wfs.pop_incomplete c wf h t false h0 hp hrd).2.2 rfl

/-! ## non-vacuity -/

def wfsC : Wfs.Cfg := { scheme := .single, consumer := 0 }

/-- thread 2 is frozen between its xchg and its store (node 3 has NULL next); thread 1 still
completes a whole push of node 4 alone, with its previous `next` store still buffered -/
def frozenPusher : List Wfs.Label :=
  [.pushBegin 1 2, .flush 1, .pushX 1, .pushSt 1,      -- store (2, END) still in T1's buffer
   .pushBegin 2 3, .flush 2, .pushX 2,                 -- T2 frozen here
   .pushBegin 1 4]

example : ((Wfs.run wfsC Wfs.init frozenPusher).bind (Wfs.solo wfsC 1 4)).map
    (fun s => (s.pc 1, s.ret 1, s.abs, s.pc 2, (s.buf 1).length)) =
    some (.idle, .flag true, [4, 3, 2], .pushSt 3 2, 1) := by decide

/-- and the non-blocking pop of the consumer returns WOULDBLOCK in 2 own steps (top node 4 is
complete only after T1's buffer drains – here it is not: frozen) -/
example : ((Wfs.run wfsC Wfs.init (frozenPusher ++ [.flush 1, .flush 1, .pushX 1, .pushSt 1, .popBegin 0 false])).bind
    (Wfs.solo wfsC 0 4)).map (fun s => (s.pc 0, s.ret 0)) = some (.idle, .wouldblock) := by decide

def lfsC : Lfs.Cfg := { scheme := .single, consumer := 0 }

/-- lfs: thread 2 pushed after thread 1 read its (NULL) guess and is then frozen mid-operation
elsewhere; thread 1's first cmpxchg fails, the second succeeds: 6 own steps -/
example : ((Lfs.run lfsC Lfs.init [.pushBegin 1 5, .pushBegin 2 6, .pushSt 2, .flush 2, .pushCas 2,
    .pushBegin 2 7, .pushSt 2]).bind (Lfs.solo lfsC 1 6)).map
    (fun s => (s.pc 1, s.ret 1, s.abs, s.pc 2)) = some (.idle, .flag true, [5, 6], .pushCas 7 0) := by decide

example : ((Lfs.run lfsC Lfs.init [.pushBegin 1 5, .pushBegin 2 6, .pushSt 2, .flush 2, .pushCas 2,
    .pushBegin 2 7, .pushSt 2]).bind (Lfs.solo lfsC 1 5)).map (fun s => s.pc 1) = some (.pushCas 5 6) := by decide

end UrcuVerif.C17Stacks
