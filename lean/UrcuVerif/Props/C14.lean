import UrcuVerif.Poll.Inv
/-!
# C14 — Grace-period polling never reports completion early and eventually reports it

Statements only (helper lemmas live in `UrcuVerif/Poll/Inv.lean`).
Model: `UrcuVerif/Poll/Model.lean`; tie: `harness/scen/poll.c` runs the real
`src/urcu-poll-impl.h` on generated operation sequences and `Driver/Poll.lean` replays the same
sequence on `step`, comparing every returned handle / boolean / re-queue decision.
-/
namespace UrcuVerif.Poll

/-- Runs: reflexive-transitive closure of `step`. -/
inductive Steps (n : Nat) : State → State → Prop
  | refl (s) : Steps n s s
  | tail {s s' s'' op out} : Steps n s s' → step n s' op = some (s'', out) → Steps n s s''

theorem reach_steps (n) {s s'} (h : Reach n s) (st : Steps n s s') : Reach n s' := by
  induction st with
  | refl => exact h
  | tail _ hs ih => exact Reach.step ih hs

/-- **poll_sound** (full strength, all interleavings, any number of readers and handles):
if `poll_state_synchronize_rcu(g)` returns true for a handle `g` issued at time `t`, then a
complete grace period lies within `[t, now]` (`t ≤ gpDone`: it started after the issue and has
completed) and every read-side section still open began at or after `t` – i.e. every section
that was in progress when `start_poll` was called has ended. -/
theorem poll_sound (n) {s s' : State} {g t : Nat} (h : Reach n s)
    (hh : (g, t) ∈ s.handles) (hp : step n s (.poll g) = some (s', .reached true)) :
    t ≤ s.gpDone ∧ ∀ i b, s.cs i = some b → t ≤ b := by
  have I := inv_reach n h
  simp only [step, Option.some.injEq, Prod.mk.injEq, Out.reached.injEq, decide_eq_true_eq] at hp
  have hd := I.h_done g t hh hp.2
  exact ⟨hd, fun i b hb => Nat.le_trans hd (I.cs_after i b hb)⟩

theorem cur_mono_step (n) {s s' op out} (st : step n s op = some (s', out)) : s.cur ≤ s'.cur := by
  cases op <;> simp only [step] at st <;> (repeat' split at st) <;>
    simp only [Option.some.injEq, Prod.mk.injEq, reduceCtorEq] at st <;>
    first | (obtain ⟨rfl, -⟩ := st; simp) | simp at st

theorem cur_mono (n) {s s'} (st : Steps n s s') : s.cur ≤ s'.cur := by
  induction st with
  | refl => exact Nat.le_refl _
  | tail _ hs ih => exact Nat.le_trans ih (cur_mono_step n hs)

/-- **poll_monotone**: once a poll of `g` has returned true, every later poll of `g` returns true. -/
theorem poll_monotone (n) {s s₁ s' : State} {g : Nat}
    (hp : step n s (.poll g) = some (s₁, .reached true)) (st : Steps n s s')
    : ∃ s₂, step n s' (.poll g) = some (s₂, .reached true) := by
  simp only [step, Option.some.injEq, Prod.mk.injEq, Out.reached.injEq, decide_eq_true_eq] at hp
  have := cur_mono n st
  simp only [step, Option.some.injEq, Prod.mk.injEq, Out.reached.injEq, decide_eq_true_eq]
  exact ⟨_, rfl, by omega⟩

/-- Number of worker invocations still needed before a poll of `g` returns true. -/
def need (s : State) (g : Nat) : Nat := g + 1 - s.cur

/-- **poll_no_stuck**: while an issued handle is not yet reported complete, the worker callback
is queued with `call_rcu` (so, by C03's liveness, it will be invoked). -/
theorem poll_no_stuck (n) {s : State} {g t : Nat} (h : Reach n s) (hh : (g, t) ∈ s.handles)
    (hn : 0 < need s g) : s.pending = true := by
  have I := inv_reach n h
  unfold need at hn
  have hle := (I.h_le g t hh).1
  by_cases hc : g = s.cur
  · exact (I.h_cur g t hh hc).1
  · have : g = s.cur + 1 := by omega
    have := (I.h_next g t hh this).1
    rw [← I.act_pend]; exact this

/-- **poll_progress**: every worker invocation decreases `need` by one (when positive) and no
step increases it.  With `poll_no_stuck` and C03's liveness: repeated polling eventually
returns true, after at most `need s g ≤ 2` worker invocations. -/
theorem poll_progress (n) {s s' : State} {g : Nat} {out} (st : step n s .worker = some (s', out)) :
    need s' g = need s g - 1 := by
  simp only [step] at st
  split at st
  · split at st <;> simp only [Option.some.injEq, Prod.mk.injEq] at st <;> obtain ⟨rfl, -⟩ := st <;>
      simp [need] <;> omega
  · simp at st

theorem need_noninc (n) {s s' : State} {g : Nat} {op out} (st : step n s op = some (s', out)) :
    need s' g ≤ need s g := by
  have := cur_mono_step n st
  unfold need; omega

theorem need_le_two (n) {s : State} {g t : Nat} (h : Reach n s) (hh : (g, t) ∈ s.handles) :
    need s g ≤ 2 := by
  have := ((inv_reach n h).h_le g t hh).1
  unfold need; omega

theorem poll_true_iff_need_zero (n) (s : State) (g : Nat) :
    (∃ s', step n s (.poll g) = some (s', .reached true)) ↔ need s g = 0 := by
  simp only [step, Option.some.injEq, Prod.mk.injEq, Out.reached.injEq, decide_eq_true_eq, need]
  constructor
  · rintro ⟨_, _, h⟩; omega
  · intro h; exact ⟨_, rfl, by omega⟩

/-- **signed_cmp_correct**: the C comparison `(long)(a - b) < 0` on 64-bit words agrees with `<`
on the unbounded counters of the model as long as the two ids are less than `2^63` apart
(trusted-base item 7: fewer than 2^63 grace periods per run). -/
theorem signed_cmp_correct (a b : Nat) (h : a < b + 2^63) (h' : b < a + 2^63) :
    ((BitVec.ofNat 64 a - BitVec.ofNat 64 b).slt 0#64) = decide (a < b) := by
  simp only [BitVec.slt, BitVec.toInt_eq_toNat_cond, BitVec.toNat_sub, BitVec.toNat_ofNat]
  by_cases hab : a < b <;> simp [hab] <;> omega

/-- Non-vacuity: a concrete run in which a poll returns true (so the hypotheses of `poll_sound`
are satisfiable), and one in which a handle taken while the worker is active needs two grace
periods. -/
def runOps (n : Nat) : State → List Op → Option (State × List Out)
  | s, [] => some (s, [])
  | s, op :: ops =>
    match step n s op with
    | none => none
    | some (s', o) => (runOps n s' ops).map fun (s'', os) => (s'', o :: os)

example : (runOps 2 init [.startPoll, .rlock 0, .gpStart, .rlock 1, .runlock 0, .gpEnd, .worker, .poll 0]).map (·.2)
    = some [.handle 0 true, .unit, .unit, .unit, .unit, .unit, .requeued false, .reached true] := by
  decide

example : (runOps 1 init [.startPoll, .startPoll, .gpStart, .gpEnd, .worker, .poll 1, .gpStart, .gpEnd, .worker, .poll 1]).map (·.2)
    = some [.handle 0 true, .handle 1 false, .unit, .unit, .requeued true, .reached false, .unit, .unit,
            .requeued false, .reached true] := by
  decide

/-- a grace period cannot end while a pre-existing section is open (the model's GpSpec guard) -/
example : (runOps 1 init [.rlock 0, .gpStart, .gpEnd]) = none := by decide

end UrcuVerif.Poll
