import UrcuVerif.Src.Wq5Body
/-!
# Source refinement, work queue part 5: the worker's loop body from the splice on – final statements

`workqueue_thread_body_from_splice_refines`: statements 4–12 of the generated loop body of `workqueue_thread`
(`WqR.dropSeq 4 WqR.wBody` = `wIter ; wStop ; tail`: splice, batch, `qlen -= cbcount`, STOP test, `worker_before_wait` hook,
`cds_wfcq_empty` + `futex_wait(&workqueue->futex)` + `uatomic_dec(&workqueue->futex)` (not real-time) or `poll` (real-time),
`worker_after_wake_up` hook) ⊑ `WqL.wstep` from L2's `splice`: every well-typed `.ok` run (every budget, every oracle) is
accepted; a completed run is back at L2's `top`, a `break` is at `exitSt` (`dead` if real-time).  The hooks may have any
value (a call is silent).  Side condition: the truth value of the local `rt` is the automaton's `rt`.

NOT covered (so this is not yet `workqueue_thread_body_refines`): statements 0–3 of the body – `set_thread_cpu_affinity`
(+ `urcu_die`) and the PAUSE branch, which exists only in total form with a typed oracle (`worker_top_exec`,
`Props/SrcWq.lean`), not as a `Triple` – and the induction over the loop.
-/
set_option linter.unusedSimpArgs false
set_option linter.unusedVariables false
namespace UrcuVerif.Props.SrcWq5
open UrcuVerif UrcuVerif.Src UrcuVerif.Wq UrcuVerif.Src.WqL UrcuVerif.Src.WqR

/-- **the tail of the loop body** (statements 10–12) from L2's `emptychk` (`rtchk` if real-time): back at `top` -/
theorem workqueue_thread_tail_refines (L : Layout) (cnt : Nat) (rt : Bool) (rtv : Val) (hrt : rtv.truthy = rt) (fuel : Nat)
    (env : Env) (inp : List Val) (out : Out)
    (hw : env.vars "workqueue" = some (.ptr L.W)) (hr : env.vars "rt" = some rtv)
    (hE : exec fuel (dropSeq 10 wBody) env inp = .ok out) (hok : out.events.all (evOkW L) = true) :
    ∃ ls', wlr L ⟨.at (if rt = true then .rtchk else .emptychk), cnt, rt⟩ out.events = some ls' ∧
      ((out.ctl = .normal ∧ out.env.vars "workqueue" = some (.ptr L.W) ∧ out.env.vars "rt" = some rtv ∧
          ls' = ⟨.at .top, cnt, rt⟩) ∨ out.ctl = .blocked ∨ out.ctl = .fuel) :=
  tail_PT L cnt rt rtv hrt fuel env inp _ out ⟨hw, hr, rfl⟩ hE hok

/-- **statements 4–12 of the loop body** from L2's `splice` -/
theorem workqueue_thread_body_from_splice_refines (L : Layout) (cnt : Nat) (rt : Bool) (rtv : Val) (hrt : rtv.truthy = rt)
    (fuel : Nat) (env : Env) (inp : List Val) (out : Out)
    (hw : env.vars "workqueue" = some (.ptr L.W)) (hr : env.vars "rt" = some rtv)
    (hE : exec fuel (dropSeq 4 wBody) env inp = .ok out) (hok : out.events.all (evOkW L) = true) :
    ∃ ls', wlr L ⟨.at .splice, cnt, rt⟩ out.events = some ls' ∧
      ((out.ctl = .normal ∧ out.env.vars "workqueue" = some (.ptr L.W) ∧ out.env.vars "rt" = some rtv ∧
          ∃ k : Nat, ls' = ⟨.at .top, k, rt⟩) ∨
       (out.ctl = .brk ∧ ∃ k : Nat, ls' = ⟨.at (if rt = true then .dead else .exitSt), k, rt⟩) ∨
       out.ctl = .blocked ∨ out.ctl = .fuel) :=
  body_from_splice_PT L cnt rt rtv hrt fuel env inp _ out ⟨hw, hr, rfl⟩ hE hok

/-- the statement above is about the generated loop body: `wBody = s0 ; s1 ; s2 ; s3 ; (statements 4–12)` -/
example : ∃ s0 s1 s2 s3, wBody = .seq s0 (.seq s1 (.seq s2 (.seq s3 (dropSeq 4 wBody)))) := ⟨_, _, _, _, rfl⟩

/-- … whose pieces are the audited ones: `wIter`, `wStop`, then the tail -/
example : ∃ s4 s5 s6 s7 s8 s9, dropSeq 4 wBody = .seq s4 (.seq s5 (.seq s6 (.seq s7 (.seq s8 (.seq s9 (dropSeq 10 wBody)))))) ∧
    wIter = .seq s4 (.seq s5 (.seq s6 s7)) ∧ wStop = .seq s8 s9 := ⟨_, _, _, _, _, _, rfl, rfl, rfl⟩

end UrcuVerif.Props.SrcWq5
