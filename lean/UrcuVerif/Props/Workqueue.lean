import UrcuVerif.Wq.Inv
/-!
# The hash table's internal work queue (`src/workqueue.c`) — used by C09 (resize / destroy work) and C16 (fork)

Statements only (model: `Wq/Model.lean`; invariants: `Wq/InvA` placement, `InvB` pause / stop / fork, `InvW` worker
futex, `InvC` completions, `InvH` completion futex, `InvR` futex range).  Everything is about *every* reachable state of
the model, i.e. for all interleavings of any number of queuing threads (the worker's own thread included: works that
re-queue works), flush / wait_completion callers, a pauser / forker, a destroyer, the worker, all futex outcomes
(sleep, EAGAIN, EINTR, spurious), and all commit times of the two plain `futex := 0` stores (x86-TSO store buffers of the
wakers and of the worker).  The liveness half ("eventually") is in `Props/LiveWq.lean`.
-/
set_option linter.unusedSimpArgs false
namespace UrcuVerif.Wq
open UrcuVerif

/-! ### exactly once, in queue order -/

/-- **work_exactly_once**: a work item is never started twice; it has been started exactly when it is in the log of
started works, i.e. when it is running or has finished; a work that has been enqueued and has not finished is in exactly
one place – the queue, the worker's private list, or in execution – at most once there (it is never lost, in particular
not across the splice). -/
theorem work_exactly_once (c : Cfg) {s : State} (h : Reach c s) (id : Nat) :
    s.runN id ≤ 1 ∧ (s.runN id = 1 ↔ id ∈ s.doneLog) ∧ (s.fin id = true → s.runN id = 1) ∧
    (id ∈ s.doneLog ↔ (s.fin id = true ∨ s.cur = some id)) ∧
    (id ∈ s.enqLog → s.fin id = false → (id ∈ s.queue ∨ id ∈ s.batch ∨ s.cur = some id)) ∧
    (s.doneLog ++ s.batch ++ s.queue).Nodup := by
  have A := (inv_reach c h).A
  have e := A.a_fifo
  refine ⟨?_, ?_, ?_, ?_, ?_, by rw [e]; exact A.a_nodup⟩
  · by_cases hd : id ∈ s.doneLog
    · rw [A.a_run1 id hd]; exact Nat.le_refl 1
    · rw [A.a_run0 id hd]; exact Nat.zero_le 1
  · constructor
    · intro h1
      apply Classical.byContradiction
      intro hd
      rw [A.a_run0 id hd] at h1; cases h1
    · exact A.a_run1 id
  · intro hf; exact A.a_run1 id (A.a_fin id hf).1
  · constructor
    · exact A.a_done id
    · rintro (hf | hc)
      · exact (A.a_fin id hf).1
      · exact List.mem_of_getLast? (A.a_cur_last id hc)
  · intro hm hf
    rw [← e] at hm
    simp only [List.mem_append] at hm
    rcases hm with (hm | hm) | hm
    · rcases A.a_done id hm with h1 | h1
      · rw [hf] at h1; cases h1
      · exact Or.inr (Or.inr h1)
    · exact Or.inr (Or.inl hm)
    · exact Or.inl hm

/-- a work that was never passed to `urcu_workqueue_queue_work` is nowhere -/
theorem unqueued_nowhere (c : Cfg) {s : State} (h : Reach c s) (id : Nat) (hr : s.reg id = false) :
    id ∉ s.queue ∧ id ∉ s.batch ∧ s.cur ≠ some id ∧ s.fin id = false ∧ s.runN id = 0 := by
  have A := (inv_reach c h).A
  have hn : id ∉ s.enqLog := fun hm => by have := A.a_reg id hm; rw [hr] at this; cases this
  rw [← A.a_fifo] at hn
  simp only [List.mem_append, not_or] at hn
  refine ⟨hn.2, hn.1.2, fun hc => hn.1.1 (List.mem_of_getLast? (A.a_cur_last id hc)), ?_, A.a_run0 id hn.1.1⟩
  cases hf : s.fin id with
  | false => rfl
  | true => exact absurd (A.a_fin id hf).1 hn.1.1

/-- **work_fifo**: the worker starts the works in the order in which they were enqueued: what it has started so far,
followed by its private list and the queue, is exactly the enqueue log; in particular the started works are a prefix
of the enqueue log (a destroy work queued behind resize works runs after every one of them – C09), and at any time at
most the last started work is unfinished. -/
theorem work_fifo (c : Cfg) {s : State} (h : Reach c s) :
    s.doneLog ++ s.batch ++ s.queue = s.enqLog ∧ s.doneLog <+: s.enqLog ∧
    (∀ id, id ∈ s.doneLog → s.doneLog.getLast? ≠ some id → s.fin id = true) := by
  have A := (inv_reach c h).A
  refine ⟨A.a_fifo, ⟨s.batch ++ s.queue, by rw [← A.a_fifo, List.append_assoc]⟩, ?_⟩
  intro id hd hl
  rcases A.a_done id hd with hf | hc
  · exact hf
  · exact absurd (A.a_cur_last id hc) hl

/-- FIFO, pairwise: if `x` was enqueued before `y` and `y` has been started, then `x` has finished. -/
theorem work_fifo_pair (c : Cfg) {s : State} (h : Reach c s) (pre : List Nat) (x y : Nat) (post : List Nat)
    (he : s.enqLog = pre ++ x :: post) (hy : y ∈ post) (hs : y ∈ s.doneLog) : s.fin x = true ∧ s.runN x = 1 := by
  have A := (inv_reach c h).A
  obtain ⟨p1, p2, rfl⟩ := List.append_of_mem hy
  have hp : (pre ++ x :: p1) ++ [y] <+: s.doneLog ++ (s.batch ++ s.queue) :=
    ⟨p2, by rw [← List.append_assoc, A.a_fifo, he]; simp [List.append_assoc]⟩
  have hnd : (s.doneLog ++ (s.batch ++ s.queue)).Nodup := by rw [← List.append_assoc, A.a_fifo]; exact A.a_nodup
  obtain ⟨hx1, hx2⟩ := prefix_in_front hp hnd hs x (by simp)
  refine ⟨?_, A.a_run1 x hx1⟩
  rcases A.a_done x hx1 with hf | hc
  · exact hf
  · exact absurd (A.a_cur_last x hc) hx2

/-! ### flush / completions -/

/-- **flush_waits_for_all_prior**: when `urcu_workqueue_wait_completion(b)` has returned – in particular when
`urcu_workqueue_flush_queued_work` returns – every work that had been enqueued before the completion's own work item
(`before b`), hence every work enqueued before the completion was created, i.e. before `flush_queued_work` was called
(`snap b`), has finished executing, exactly once. -/
theorem flush_waits_for_all_prior (c : Cfg) {s : State} (h : Reach c s) (b : Nat) (hw : s.cphase b = .waited) :
    (∀ id, id ∈ s.before b → s.fin id = true ∧ s.runN id = 1) ∧ (∀ id, id ∈ s.snap b → s.fin id = true ∧ s.runN id = 1) := by
  have I := inv_reach c h
  have A := I.A
  have C := I.C
  have hs := C.c_waited b hw
  have hne := C.c_work_phase b (Or.inr hw)
  cases hcw : s.cwork b with
  | none => exact absurd hcw hne
  | some w =>
    have hwd := C.c_sub_done b w hs hcw
    have hwe : w ∈ s.enqLog := by rw [← A.a_fifo]; simp [hwd]
    have hp := C.c_before b w hcw hwe
    have hnd : (s.doneLog ++ (s.batch ++ s.queue)).Nodup := by rw [← List.append_assoc, A.a_fifo]; exact A.a_nodup
    have key : ∀ id, id ∈ s.before b → s.fin id = true ∧ s.runN id = 1 := by
      intro id hid
      obtain ⟨h1, h2⟩ := prefix_in_front (r := s.batch ++ s.queue) (by rw [← List.append_assoc, A.a_fifo]; exact hp) hnd hwd id hid
      refine ⟨?_, A.a_run1 id h1⟩
      rcases A.a_done id h1 with hf | hc
      · exact hf
      · exact absurd (A.a_cur_last id hc) h2
    exact ⟨key, fun id hid => key id ((C.c_snap_before b w hcw hwe).subset hid)⟩

/-- the completion work item is queued behind everything that was queued before the call, and `barrier_count` is
exactly "the work item has been counted and has not yet decremented" -/
theorem completion_behind_prior (c : Cfg) {s : State} (h : Reach c s) (b w : Nat) (hcw : s.cwork b = some w) :
    s.cw w = some b ∧ (w ∈ s.enqLog → s.before b ++ [w] <+: s.enqLog ∧ s.snap b <+: s.before b) ∧
    s.ccnt b = (if s.csub b = true then 0 else 1) := by
  have C := (inv_reach c h).C
  refine ⟨(C.c_cwork b w hcw).1, fun hm => ⟨C.c_before b w hcw hm, C.c_snap_before b w hcw hm⟩, ?_⟩
  cases hs : s.csub b with
  | true => simpa using C.c_cntS b hs
  | false => simpa using C.c_cnt1 b (by rw [hcw]; simp) hs

/-- **completion_lifetime**: no step ever touches a completion object after it has been freed (`uaf` stays false); it is
freed only after `urcu_workqueue_destroy_completion` AND after its work item has dropped its reference, which is the
work item's last access (the item has then finished); the reference count is exactly "owner's reference" + "work item's
reference". -/
theorem completion_lifetime (c : Cfg) {s : State} (h : Reach c s) (b : Nat) :
    s.uaf = false ∧
    (s.cfreed b = true → s.cphase b = .destroyed ∧ s.workHolds b = false ∧ ∀ w, s.cwork b = some w → s.fin w = true) ∧
    (s.cphase b ≠ .none → s.cref b = (if s.cphase b = .destroyed then 0 else 1) + (if s.workHolds b = true then 1 else 0)) ∧
    (∀ w, s.cur = some w → s.cw w = some b → s.workHolds b = true ∧ s.cfreed b = false) := by
  have I := inv_reach c h
  have C := I.C
  refine ⟨C.c_uaf, ?_, ?_, ?_⟩
  · intro hf
    have := C.c_freed b hf
    refine ⟨this.1, this.2, fun w hw => ?_⟩
    cases hfin : s.fin w with
    | true => rfl
    | false => have := C.c_holds b w hw hfin; simp_all
  · intro hn
    by_cases hd : s.cphase b = .destroyed
    · simp only [hd, ↓reduceIte]; rw [C.c_ref0 b hd]; omega
    · simp only [hd, ↓reduceIte]; exact C.c_ref1 b hd hn
  · intro w hc hw
    have hcw := C.c_cw w b hw
    have hnf : s.fin w = false := by
      cases hf : s.fin w with
      | false => rfl
      | true => exact absurd hc (I.A.a_fin w hf).2
    have hh := C.c_holds b w hcw hnf
    refine ⟨hh, ?_⟩
    cases hfr : s.cfreed b with
    | false => rfl
    | true => have := (C.c_freed b hfr).2; rw [hh] at this; cases this

/-- **waiter_no_lost_wakeup**: whenever the caller of `urcu_workqueue_wait_completion` sleeps in `FUTEX_WAIT`, either
its work item has not yet decremented `barrier_count` (it is still queued / in the private list / about to run –
`work_exactly_once`), or the work item is on its way to reset the futex and to call `FUTEX_WAKE` (reset possibly still in
the worker's store buffer), or the reset is done and the `FUTEX_WAKE` is still to come. -/
theorem waiter_no_lost_wakeup (c : Cfg) {s : State} (h : Reach c s) (t b : Nat) (hs : s.tpc t = .wcAsleep b) :
    s.csub b = false ∨ (curB s = some b ∧ (s.wpc = .cLd ∨ s.wpc = .cSt ∨ s.wpc = .cWake)) := by
  have H := (inv_reach c h).H
  cases hsub : s.csub b with
  | false => exact Or.inl rfl
  | true =>
    right
    rcases H.h_range b with h0 | h1
    · have := H.h_0 t b hs h0
      exact ⟨this.1, Or.inr (Or.inr this.2)⟩
    · have := H.h_m1 t b (by rw [hs]; rfl) h1 hsub
      refine ⟨this.1, ?_⟩
      rcases this.2 with h | h | h
      · exact Or.inl h
      · exact Or.inr (Or.inl h)
      · exact Or.inr (Or.inr h.1)

/-- `completion->futex ∈ {0, -1}`; the waiter decrements it only from 0 -/
theorem completion_futex_range (c : Cfg) {s : State} (h : Reach c s) (b : Nat) :
    (s.cfut b = 0 ∨ s.cfut b = -1) ∧ (∀ t, s.tpc t = .wcDec b → s.cfut b = 0) :=
  ⟨(inv_reach c h).H.h_range b, fun t ht => (inv_reach c h).H.h_dec t b ht⟩

/-! ### the worker's sleep / wake-up protocol -/

/-- **worker_no_lost_wakeup** (every interleaving of any number of wakers; every placement of spurious / EINTR / EAGAIN
returns of `FUTEX_WAIT`; the waker's `futex := 0` store delayed arbitrarily in its store buffer): whenever the worker
sleeps in `FUTEX_WAIT` although the queue is non-empty, STOP or PAUSE has been requested, some thread is still going to
wake it: it is on the wake path and has not yet tested the futex (it will read -1, reset it and call `FUTEX_WAKE`), its
reset is in its store buffer, or its reset is committed and its `FUTEX_WAKE` is still to come. -/
theorem worker_no_lost_wakeup (c : Cfg) {s : State} (h : Reach c s) (hs : s.wpc = .asleep)
    (hw : s.queue ≠ [] ∨ s.stop = true ∨ s.pause = true) :
    ∃ t, willWake s t ∨ (s.tpc t).isWake = true := by
  have W := (inv_reach c h).W
  rcases W.w_wait (Or.inr hs) with h1 | h0
  · have : ∃ t, willWake s t := by
      rcases hw with hq | hst | hp
      · exact W.w_empty (by rw [hs]; rfl) h1 hq
      · exact W.w_stop (by rw [hs]; rfl) h1 hst
      · exact W.w_pause (by rw [hs]; rfl) h1 hp
    obtain ⟨t, ht⟩ := this
    exact ⟨t, Or.inl ht⟩
  · obtain ⟨t, ht⟩ := W.w_0 hs h0
    exact ⟨t, Or.inr ht⟩

/-- the same for the whole window from the worker's check of a condition to the end of its sleep: the worker never
enters `FUTEX_WAIT` on `futex = -1` having missed a request -/
theorem worker_no_missed_request (c : Cfg) {s : State} (h : Reach c s) (hf : s.futex = -1) :
    (s.wpc.afterEmpty = true → s.queue ≠ [] → ∃ t, willWake s t) ∧
    (s.wpc.afterStop = true → s.stop = true → ∃ t, willWake s t) ∧
    (s.wpc.afterPause = true → s.pause = true → ∃ t, willWake s t) := by
  have W := (inv_reach c h).W
  exact ⟨fun h1 h2 => W.w_empty h1 hf h2, fun h1 h2 => W.w_stop h1 hf h2, fun h1 h2 => W.w_pause h1 hf h2⟩

/-- labels of thread `t` on the wake path of `wake_worker_thread()` (the commit of its store buffer included) -/
def wakeLabels (t : Nat) : List Label := [.inc t, .ldFlags t, .ldFutex t, .stFutex t, .flush t, .wake t]

/-- **waker_not_stuck**: a thread on the wake path always has an enabled step of its own (it never waits for anybody) -/
theorem waker_not_stuck (c : Cfg) (s : State) (t : Nat) (hk : willWake s t ∨ (s.tpc t).isWake = true) :
    ∃ l, l ∈ wakeLabels t ∧ (step c s l).isSome = true := by
  by_cases hb : s.bfut t = true
  · exact ⟨.flush t, by simp [wakeLabels], by simp [step, hb]⟩
  · have hb : s.bfut t = false := by simpa using hb
    cases hp : s.tpc t <;> simp only [willWake, hp, TPc.waker, TPc.isWake, hb] at hk <;> simp at hk
    case inc k => exact ⟨.inc t, by simp [wakeLabels], by simp [step, hp]⟩
    case ldFlags k => exact ⟨.ldFlags t, by simp [wakeLabels], by simp [step, hp]⟩
    case ldFutex k => exact ⟨.ldFutex t, by simp [wakeLabels], by simp [step, hp]⟩
    case stFutex k => exact ⟨.stFutex t, by simp [wakeLabels], by simp [step, hp]⟩
    case wake k => exact ⟨.wake t, by simp [wakeLabels], by simp [step, hp, hb]⟩

/-- own-step measure of the wake path: at most 6 steps from the enqueue / flag update to `FUTEX_WAKE` -/
def wakeRank : TPc → Nat
  | .inc _ => 5 | .ldFlags _ => 4 | .ldFutex _ => 3 | .stFutex _ => 2 | .wake _ => 1
  | _ => 0

def wakeMeasure (s : State) (t : Nat) : Nat := 2 * wakeRank (s.tpc t) + (if s.bfut t = true then 1 else 0)

theorem wakeRank_cont (k : K) : wakeRank k.cont = 0 := by cases k <;> rfl

/-- **waker_measure**: every own step of a thread on the wake path strictly decreases its measure -/
theorem waker_measure (c : Cfg) {s s' : State} (t : Nat) {l : Label} (hl : l ∈ wakeLabels t)
    (st : step c s l = some s') : wakeMeasure s' t < wakeMeasure s t := by
  simp only [wakeLabels, List.mem_cons, List.mem_nil_iff, or_false] at hl
  rcases hl with rfl | rfl | rfl | rfl | rfl | rfl <;> simp only [step] at st <;>
    (repeat' split at st) <;> simp only [Option.some.injEq, reduceCtorEq] at st <;> subst st <;>
    simp only [wakeMeasure, upd, ↓reduceIte, *] <;> (try simp only [wakeRank_cont]) <;> simp_all [wakeRank] <;> (try split) <;> omega

/-- the wake-up reaches the sleeping worker -/
theorem wake_wakes (c : Cfg) {s s' : State} (t : Nat) (hs : s.wpc = .asleep) (st : step c s (.wake t) = some s') :
    s'.wpc = .waitLd := by
  simp only [step] at st
  (repeat' split at st) <;> simp only [Option.some.injEq, reduceCtorEq] at st <;> subst st
  simp [hs]

/-- labels of the worker thread itself (`workqueue_thread`; the commit of its store buffer included; a spurious return from
the sleep is the environment's step, not the worker's) -/
def workerLabel : Label → Bool
  | .wStart | .wDec0 | .wTop | .wPause | .wSeeResume | .wUnpause | .wSplice | .wRunBegin _ | .wRunEnd
  | .cSub | .cLd | .cSt | .cFlush | .cWake | .cPut
  | .wInvDone | .wSub | .wStopChk | .wEmptyChk | .wRtChk | .wWaitLd | .wWaitFx _ | .wDec | .wExitSt => true
  | _ => false

/-- **worker_no_stuck**: the worker thread, while it exists, always has an enabled step of its own, except where it
legitimately waits for somebody else: for the user work it runs (`run`), for the resume (`paused` with PAUSE still set),
or asleep in `FUTEX_WAIT` (`worker_no_lost_wakeup`).  It takes no lock, so it cannot deadlock with anybody. -/
theorem worker_no_stuck (c : Cfg) {s : State} (h : Reach c s)
    (hp : s.wpc ≠ .none ∧ s.wpc ≠ .dead ∧ s.wpc ≠ .run ∧ s.wpc ≠ .asleep ∧ (s.wpc = .paused → s.pause = false)) :
    ∃ l, workerLabel l = true ∧ (step c s l).isSome = true := by
  have I := inv_reach c h
  obtain ⟨h1, h2, h3, h4, h5⟩ := hp
  have hcur : s.wpc.inCompl = true → ∃ w b, s.cur = some w ∧ s.cw w = some b := by
    intro hi
    have hr : s.wpc.running = true := by cases hw : s.wpc <;> simp_all [WPc.inCompl, WPc.running]
    cases hc : s.cur with
    | none => exact absurd hc (I.A.a_pc_cur hr)
    | some w =>
      cases hb : s.cw w with
      | none => exact absurd hb (I.A.a_compl hi w hc)
      | some b => exact ⟨w, b, rfl, hb⟩
  cases hpc : s.wpc with
  | none => exact absurd hpc h1
  | dead => exact absurd hpc h2
  | run => exact absurd hpc h3
  | asleep => exact absurd hpc h4
  | start => exact ⟨.wStart, rfl, by simp [step, hpc]⟩
  | dec0 => exact ⟨.wDec0, rfl, by simp [step, hpc]⟩
  | top => exact ⟨.wTop, rfl, by simp [step, hpc]⟩
  | pausing => exact ⟨.wPause, rfl, by simp [step, hpc]⟩
  | paused => exact ⟨.wSeeResume, rfl, by simp [step, hpc, h5 hpc]⟩
  | unpausing => exact ⟨.wUnpause, rfl, by simp [step, hpc]⟩
  | splice => exact ⟨.wSplice, rfl, by simp [step, hpc]; split <;> simp⟩
  | inv =>
    cases hb : s.batch with
    | nil => exact ⟨.wInvDone, rfl, by simp [step, hpc, hb]⟩
    | cons x r => exact ⟨.wRunBegin x, rfl, by simp [step, hpc, hb]⟩
  | cSub =>
    obtain ⟨w, b, e1, e2⟩ := hcur (by rw [hpc]; rfl)
    exact ⟨.cSub, rfl, by simp [step, hpc, e1, e2]⟩
  | cLd =>
    obtain ⟨w, b, e1, e2⟩ := hcur (by rw [hpc]; rfl)
    exact ⟨.cLd, rfl, by simp [step, curB, hpc, e1, e2]⟩
  | cSt =>
    obtain ⟨w, b, e1, e2⟩ := hcur (by rw [hpc]; rfl)
    exact ⟨.cSt, rfl, by simp [step, curB, hpc, e1, e2]⟩
  | cWake =>
    obtain ⟨w, b, e1, e2⟩ := hcur (by rw [hpc]; rfl)
    by_cases hb : s.cbuf = true
    · exact ⟨.cFlush, rfl, by simp [step, curB, e1, e2, hb]⟩
    · exact ⟨.cWake, rfl, by simp [step, curB, hpc, e1, e2, hb]⟩
  | cPut =>
    obtain ⟨w, b, e1, e2⟩ := hcur (by rw [hpc]; rfl)
    exact ⟨.cPut, rfl, by simp [step, hpc, e1, e2]⟩
  | sub => exact ⟨.wSub, rfl, by simp [step, hpc]⟩
  | stopchk => exact ⟨.wStopChk, rfl, by simp [step, hpc]⟩
  | emptychk => exact ⟨.wEmptyChk, rfl, by simp [step, hpc]⟩
  | rtchk => exact ⟨.wRtChk, rfl, by simp [step, hpc]⟩
  | waitLd => exact ⟨.wWaitLd, rfl, by simp [step, hpc]⟩
  | waitFx =>
    by_cases hf : s.futex = -1
    · exact ⟨.wWaitFx .sleep, rfl, by simp [step, hpc, hf]⟩
    · exact ⟨.wWaitFx .eagain, rfl, by simp [step, hpc, hf]⟩
  | dec => exact ⟨.wDec, rfl, by simp [step, hpc]⟩
  | exitSt => exact ⟨.wExitSt, rfl, by simp [step, hpc]⟩

/-- **worker_futex_range**: in the parent process (and in a child whose `create_worker` had reset the futex)
`workqueue->futex ∈ {0, -1}`, the worker decrements it only from 0, and an RT (polling) worker never touches it.  In
general only `futex ≤ 0` holds: see `child_worker_never_sleeps_if_futex_inherited_negative`. -/
theorem worker_futex_range (c : Cfg) {s : State} (h : Reach c s) :
    s.futex ≤ 0 ∧ (c.rt = true → s.futex = 0) ∧
    (c.resetFutexOnCreate = true ∨ s.child = false → (s.futex = 0 ∨ s.futex = -1) ∧ (s.wpc = .dec0 ∨ s.wpc = .dec → s.futex = 0)) := by
  have I := inv_reach c h
  refine ⟨I.W.w_le, fun hr => (I.W.w_rt hr).1, fun hc => ⟨I.R.r_range hc, ?_⟩⟩
  rintro (h0 | h0) <;> exact I.R.r_zero hc (by rw [h0]; rfl)

/-! ### pause / resume -/

/-- **pause_quiescent**: while `urcu_workqueue_pause_worker` has returned and `resume_worker` has not been called
(`holding`), the worker is at its pause spin (it has set PAUSED and polls PAUSE), it has no work in hand and its
private list is empty – it went there from the top of its loop, before the splice – PAUSE and PAUSED are set and the
caller is the one registered pauser.  The queue itself may be non-empty ("The callback lists may still be non-empty
though"): nothing is taken out of it (`pause_stays`). -/
theorem pause_quiescent (c : Cfg) {s : State} (h : Reach c s) (t : Nat) (ht : s.tpc t = .holding) :
    s.wpc = .paused ∧ s.cur = none ∧ s.batch = [] ∧ s.pause = true ∧ s.paused = true ∧ s.pauser = some t ∧ s.cbuf = false := by
  have I := inv_reach c h
  have hw := (I.B.b_holding t ht).2
  have hp := I.B.b_side t (by rw [ht]; rfl)
  refine ⟨hw, ?_, ?_, I.B.b_pause1 t hp (by rw [ht]; simp), (I.B.b_holding t ht).1, hp, ?_⟩
  · apply Classical.byContradiction
    intro hc
    have := I.A.a_cur_pc hc
    rw [hw] at this; cases this
  · apply Classical.byContradiction
    intro hc
    have := I.A.a_batch hc
    rw [hw] at this; cases this
  · cases hb : s.cbuf with
    | false => rfl
    | true => have := I.H.h_cbuf hb; rw [hw] at this; cases this

/-- **pause_stays**: from a state in which thread `t` holds the pause, every step other than `t`'s own
`urcu_workqueue_resume_worker` (`rAnd t`) or `fork()` leaves `t` holding it – so (`pause_quiescent`) the worker stays at its
pause spin with nothing in hand –, starts no work, and takes nothing out of the queue. -/
theorem pause_stays (c : Cfg) {s s' : State} {l : Label} (h : Reach c s) (t : Nat) (ht : s.tpc t = .holding)
    (hl : l ≠ .rAnd t ∧ l ≠ .fork t) (st : step c s l = some s') :
    s'.tpc t = .holding ∧ s'.doneLog = s.doneLog ∧ (s'.queue = s.queue ∨ ∃ id, s'.queue = s.queue ++ [id]) := by
  have I := inv_reach c h
  obtain ⟨q1, q2, q3, q4, q5, q6, q7⟩ := pause_quiescent c h t ht
  have hside := I.B.b_side
  have hcw := I.C.c_waitof
  cases l <;> simp only [step] at st <;> (repeat' split at st) <;>
    (first | (simp at st; done) | skip) <;>
    simp only [Option.some.injEq] at st <;> subst st <;>
    simp only [upd, curB] at * <;> grind [TPc.pauseSide, TPc.waitOf]

/-- **resume_restarts**: when `urcu_workqueue_resume_worker` has returned (nobody is registered as pauser) PAUSE and PAUSED
are clear and the worker exists and is out of the pause handshake: it has executed its `and ~PAUSED` and is back in its
loop at the splice or beyond (`worker_no_stuck`: it goes on).  A later `pause_worker` therefore cannot see a stale PAUSED. -/
theorem resume_restarts (c : Cfg) {s : State} (h : Reach c s) (hp : s.pauser = none) :
    s.pause = false ∧ s.paused = false ∧ s.wpc.pauseHs = false ∧ s.wpc ≠ .none := (inv_reach c h).B.b_nopauser hp

/-- the step with which `resume_worker` returns needs PAUSED clear, and un-registers the pauser -/
theorem resume_returns (c : Cfg) {s s' : State} (t : Nat) (st : step c s (.rSee t) = some s') :
    s.paused = false ∧ s'.pauser = none ∧ s'.tpc t = .idle := by
  simp only [step] at st
  split at st
  · rename_i hg
    simp only [Option.some.injEq] at st; subst st
    exact ⟨hg.2, rfl, by simp [upd]⟩
  · simp at st

/-- the PAUSED flag is set exactly while the worker is between its `or PAUSED` and its `and ~PAUSED` (or, in a child,
until `create_worker` clears the inherited flag) -/
theorem paused_flag_exact (c : Cfg) {s : State} (h : Reach c s) :
    (s.wpc = .paused ∨ s.wpc = .unpausing → s.paused = true) ∧
    (s.paused = true → s.wpc = .paused ∨ s.wpc = .unpausing ∨ s.wpc = .none) :=
  ⟨(inv_reach c h).B.b_paused', (inv_reach c h).B.b_paused⟩

/-! ### fork: the child -/

/-- **child_nothing_in_hand** (C16): in the child, between `fork()` and `urcu_workqueue_create_worker`, there is no
worker thread, and – because the parent's worker was at its pause spin – no work was in hand or in a private list of the
vanished thread: every queued work is still in the queue (nothing is lost with the parent's worker). -/
theorem child_nothing_in_hand (c : Cfg) {s : State} (h : Reach c s) (t : Nat) (ht : s.tpc t = .childHold) :
    s.wpc = .none ∧ s.cur = none ∧ s.batch = [] ∧ s.child = true ∧
    (∀ id, id ∈ s.enqLog → s.fin id = false → id ∈ s.queue) := by
  have I := inv_reach c h
  have hw := (I.B.b_childHold t ht).1
  have hc : s.cur = none := by
    apply Classical.byContradiction
    intro hc
    have := I.A.a_cur_pc hc
    rw [hw] at this; cases this
  have hb : s.batch = [] := by
    apply Classical.byContradiction
    intro hc
    have := I.A.a_batch hc
    rw [hw] at this; cases this
  refine ⟨hw, hc, hb, (I.B.b_childHold t ht).2, fun id hm hf => ?_⟩
  rcases (work_exactly_once c h id).2.2.2.2.1 hm hf with h1 | h1 | h1
  · exact h1
  · rw [hb] at h1; simp at h1
  · rw [hc] at h1; cases h1

/-- `urcu_workqueue_create_worker` leaves a work queue with both pause flags clear and a fresh worker at its first
instruction; the queue and its works are untouched -/
theorem create_worker_state (c : Cfg) {s s' : State} (t : Nat) (st : step c s (.createWorker t) = some s') :
    s'.wpc = .start ∧ s'.pause = false ∧ s'.paused = false ∧ s'.pauser = none ∧ s'.queue = s.queue ∧
    (c.resetFutexOnCreate = false → s'.futex = s.futex) := by
  simp only [step] at st
  split at st
  · simp only [Option.some.injEq] at st; subst st
    refine ⟨rfl, rfl, rfl, rfl, rfl, fun hc => by simp [hc]⟩
  · simp at st

/-! ### destroy -/

/-- **stop_after_drain**: the worker honours STOP only at the STOP check, after it has run its whole private list: when
it is leaving (or has exited) nothing is in hand. -/
theorem stop_after_drain (c : Cfg) {s : State} (h : Reach c s) (he : s.wpc.exiting = true) :
    s.stop = true ∧ s.cur = none ∧ s.batch = [] := by
  have I := inv_reach c h
  refine ⟨I.B.b_exiting he, ?_, ?_⟩
  · apply Classical.byContradiction
    intro hc
    have := I.A.a_cur_pc hc
    cases hw : s.wpc <;> simp_all [WPc.exiting, WPc.running]
  · apply Classical.byContradiction
    intro hc
    have := I.A.a_batch hc
    cases hw : s.wpc <;> simp_all [WPc.exiting, WPc.hasBatch]

/-- **destroy_requires_empty**: at the assertion `cds_wfcq_empty()` of `urcu_workqueue_destroy` (and ever after) the worker
thread has exited with nothing in hand; a work that was enqueued has either finished or is still in the queue, where it
will never be executed (`dead_never_runs`).  So "every queued work has run" holds exactly when the queue is empty at
that point – which is what the assertion demands from the caller (flush first, queue nothing concurrently). -/
theorem destroy_requires_empty (c : Cfg) {s : State} (h : Reach c s) (hd : s.destroyed = true ∨ ∃ t, s.tpc t = .dChk) :
    s.wpc = .dead ∧ s.cur = none ∧ s.batch = [] ∧
    (∀ id, id ∈ s.enqLog → s.fin id = true ∨ id ∈ s.queue) ∧
    (s.queue = [] → ∀ id, id ∈ s.enqLog → s.fin id = true ∧ s.runN id = 1) := by
  have I := inv_reach c h
  have hw : s.wpc = .dead := by
    rcases hd with hd | ⟨t, ht⟩
    · exact I.B.b_destroyed hd
    · exact I.B.b_dchk t ht
  obtain ⟨-, hc, hb⟩ := stop_after_drain c h (by rw [hw]; rfl)
  have key : ∀ id, id ∈ s.enqLog → s.fin id = true ∨ id ∈ s.queue := by
    intro id hm
    cases hf : s.fin id with
    | true => exact Or.inl rfl
    | false =>
      rcases (work_exactly_once c h id).2.2.2.2.1 hm hf with h1 | h1 | h1
      · exact Or.inr h1
      · rw [hb] at h1; simp at h1
      · rw [hc] at h1; cases h1
  refine ⟨hw, hc, hb, key, fun hq id hm => ?_⟩
  rcases key id hm with h1 | h1
  · exact ⟨h1, (work_exactly_once c h id).2.2.1 h1⟩
  · rw [hq] at h1; simp at h1

/-- the value recorded by the assertion is the emptiness of the queue at that moment -/
theorem destroy_assert (c : Cfg) {s s' : State} (t : Nat) (st : step c s (.dChk t) = some s') :
    s'.destroyed = true ∧ (s'.assertOk = true ↔ s.queue = []) := by
  simp only [step] at st
  split at st
  · simp only [Option.some.injEq] at st; subst st; simp
  · simp at st

/-- once the worker thread has exited no work is ever started again (so whatever is still queued is lost) -/
theorem dead_never_runs (c : Cfg) {s s' : State} {l : Label} (h : Reach c s) (hd : s.wpc = .dead)
    (st : step c s l = some s') : s'.wpc = .dead ∧ s'.doneLog = s.doneLog := by
  have I := inv_reach c h
  have hst := I.B.b_exiting (by rw [hd]; rfl)
  have hns : s.stopper ≠ none := fun hn => by have := (I.B.b_nostopper hn).1; rw [hst] at this; cases this
  have hnp : s.pauser = none := by rcases I.B.b_excl with h | h; exact h; exact absurd h hns
  have hside := I.B.b_side
  cases l <;> simp only [step] at st <;> (repeat' split at st) <;>
    (first | (simp at st; done) | skip) <;>
    simp only [Option.some.injEq] at st <;> subst st <;>
    simp only [upd] at * <;> grind [TPc.pauseSide]

/-! ### Observation about the child after fork (performance only – NOT a violation of C09 / C16)

`urcu_workqueue_create_worker` clears PAUSE and PAUSED but does not reset `workqueue->futex`.  The parent's worker normally
sits at its pause spin with `futex = -1` (it decremented it when it woke up).  The child's new worker starts with
`uatomic_dec(&futex)`: -1 → -2.  From then on nobody ever sees -1: wakers skip the reset, `futex_wait` returns at once,
every idle iteration decrements further: the child's worker busy-loops instead of sleeping (all works still run,
exactly once, in order – the theorems above hold in the child as well).  In the C code the futex is an `int32_t`: after
about 2^32 idle iterations it wraps around to -1 and the worker sleeps again; the model's futex is an unbounded `Int`. -/

/-- a thread has read `futex = -1` and not yet committed its reset -/
def TPc.isSt : TPc → Bool
  | .stFutex _ => true
  | _ => false

/-- the futex is below -1 and nobody is about to reset it -/
def Spin (s : State) : Prop := s.futex ≤ -2 ∧ ∀ t, (s.tpc t).isSt = false ∧ s.bfut t = false

theorem cont_isSt (k : K) : k.cont.isSt = false := by cases k <;> rfl

/-- `Spin` is stable under every step except the worker's exit on STOP (which stores `futex := 0`) -/
theorem spin_stable (c : Cfg) (hc : c.resetFutexOnCreate = false) {s s' : State} {l : Label} (hs : Spin s)
    (st : step c s l = some s') : Spin s' ∨ l = .wExitSt := by
  obtain ⟨h1, h2⟩ := hs
  unfold Spin
  cases l <;> simp only [step] at st <;> (repeat' split at st) <;>
    (first | (simp at st; done) | skip) <;>
    simp only [Option.some.injEq] at st <;> subst st <;>
    simp only [upd, hc] at * <;> grind [TPc.isSt, cont_isSt]

/-- in a spinning state the worker is neither asleep nor about to sleep, and an own step never takes it there -/
theorem spin_awake (c : Cfg) {s : State} (h : Reach c s) (hs : Spin s) :
    s.wpc ≠ .asleep ∧ s.wpc ≠ .waitFx ∧ (∀ s', step c s .wWaitLd = some s' → s'.wpc = .dec) ∧
    (∀ t s', step c s (.ldFutex t) = some s' → (s'.tpc t).isSt = false) := by
  have W := (inv_reach c h).W
  obtain ⟨h1, h2⟩ := hs
  refine ⟨?_, ?_, ?_, ?_⟩
  · intro hw; rcases W.w_wait (Or.inr hw) with h | h <;> omega
  · intro hw; rcases W.w_wait (Or.inl hw) with h | h <;> omega
  · intro s' st
    simp only [step] at st
    split at st
    · simp only [Option.some.injEq] at st; subst st
      have : s.futex ≠ -1 := by omega
      simp [this]
    · simp at st
  · intro t s' st
    simp only [step] at st
    split at st
    · simp only [Option.some.injEq] at st; subst st
      have : s.futex ≠ -1 := by omega
      simp [upd, this, cont_isSt]
    · simp at st

/-- **child_worker_never_sleeps_if_futex_inherited_negative** (OBSERVATION, code as it is: `resetFutexOnCreate = false`):
once the worker has decremented an inherited negative futex (`Spin`), then along every continuation in which the worker
is not told to exit, the state keeps spinning: the futex stays ≤ -2, no waker ever resets it, and the worker is never
asleep nor inside `FUTEX_WAIT` – it polls the queue in a busy loop. -/
theorem child_worker_never_sleeps_if_futex_inherited_negative (c : Cfg) (hc : c.resetFutexOnCreate = false) {s : State}
    (h : Reach c s) (hs : Spin s) :
    ∀ (ls : List Label) (s' : State), run c s ls = some s' → (∀ l, l ∈ ls → l ≠ .wExitSt) →
      Spin s' ∧ s'.wpc ≠ .asleep ∧ s'.wpc ≠ .waitFx := by
  intro ls
  induction ls generalizing s with
  | nil =>
    intro s' hr _
    simp only [run, Option.some.injEq] at hr; subst hr
    exact ⟨hs, (spin_awake c h hs).1, (spin_awake c h hs).2.1⟩
  | cons l ls ih =>
    intro s' hr hne
    simp only [run] at hr
    cases hst : step c s l with
    | none => rw [hst] at hr; cases hr
    | some s1 =>
      rw [hst] at hr
      rcases spin_stable c hc hs hst with h1 | h1
      · exact ih (Reach.step h hst) h1 s' hr (fun l' hl' => hne l' (by simp [hl']))
      · exact absurd h1 (hne l (by simp))

/-- the observation is not vacuous: the parent's worker sleeps (`futex = -1`), `pause_worker` wakes it (reset to 0), it
decrements again (-1) and pauses; `fork()`; the child's `create_worker`; the new worker's first decrement gives -2 – a
spinning state, reached with the inherited value -1. -/
def spinTrace : List Label :=
  [.wStart, .wDec0, .wTop, .wSplice, .wStopChk, .wEmptyChk, .wWaitLd, .wWaitFx .sleep,
   .pOr 1, .ldFlags 1, .ldFutex 1, .stFutex 1, .flush 1, .wake 1, .wWaitLd, .wDec, .wTop, .wPause, .pSee 1,
   .fork 1, .createWorker 1, .wStart, .wDec0]

theorem spin_reachable_after_fork :
    (run {} init spinTrace).map (fun s => (s.child, s.forkFutex, s.futex, s.wpc, s.tpc 1, s.bfut 1)) =
      some (true, some (-1), -2, .top, .idle, false) := by decide

/-- and from there an idle iteration of the child's worker does not sleep but decrements once more -/
example : (run {} init (spinTrace ++ [.wTop, .wSplice, .wStopChk, .wEmptyChk, .wWaitLd, .wDec, .wTop])).map
    (fun s => (s.futex, s.wpc)) = some (-3, .splice) := by decide
example : run {} init (spinTrace ++ [.wTop, .wSplice, .wStopChk, .wEmptyChk, .wWaitLd, .wWaitFx .sleep]) = none := by decide
/-- a work queued in the spinning child is still executed (the waker skips the wake-up, the worker finds it polling) -/
example : (run {} init (spinTrace ++ [.qCall 1 7, .enq 1, .inc 1, .ldFlags 1, .ldFutex 1, .wTop, .wSplice, .wRunBegin 7, .wRunEnd])).map
    (fun s => (s.fin 7, s.runN 7, s.tpc 1, s.futex)) = some (true, 1, .idle, -2) := by decide

/-- had `create_worker` reset the futex (model switch; NOT the code) no reachable state would spin -/
theorem no_spin_if_futex_reset (c : Cfg) (hc : c.resetFutexOnCreate = true) {s : State} (h : Reach c s) : ¬ Spin s := by
  intro hs
  rcases (inv_reach c h).R.r_range (Or.inl hc) with h0 | h0 <;> have := hs.1 <;> omega

/-- nor does the parent ever spin -/
theorem parent_never_spins (c : Cfg) {s : State} (h : Reach c s) (hp : s.child = false) : ¬ Spin s := by
  intro hs
  rcases (inv_reach c h).R.r_range (Or.inr hp) with h0 | h0 <;> have := hs.1 <;> omega

/-! ### Necessity witnesses and non-vacuity (executable model) -/

/-- a work is queued while the worker sleeps; the waker's buffered `futex := 0` is committed only after …; `FUTEX_WAKE`
wakes the worker; the work runs exactly once -/
example : (run {} init [.wStart, .wDec0, .wTop, .wSplice, .wStopChk, .wEmptyChk, .wWaitLd, .wWaitFx .sleep,
    .qCall 1 7, .enq 1, .inc 1, .ldFlags 1, .ldFutex 1, .stFutex 1, .flush 1, .wake 1,
    .wWaitLd, .wDec, .wTop, .wSplice, .wRunBegin 7, .wRunEnd, .wInvDone, .wSub]).map
    (fun s => (s.fin 7, s.runN 7, s.wpc, s.doneLog)) = some (true, 1, .stopchk, [7]) := by decide
/-- `FUTEX_WAKE` cannot overtake the buffered store -/
example : run {} init [.wStart, .wDec0, .qCall 1 7, .enq 1, .inc 1, .ldFlags 1, .ldFutex 1, .stFutex 1, .wake 1] = none := by decide
/-- the worker does not go to sleep on a futex that has been reset (EAGAIN) -/
example : run {} init [.wStart, .wDec0, .wTop, .wSplice, .wStopChk, .wEmptyChk, .wWaitLd,
    .qCall 1 7, .enq 1, .inc 1, .ldFlags 1, .ldFutex 1, .stFutex 1, .flush 1, .wWaitFx .sleep] = none := by decide
/-- works run in queue order: 8 cannot be started before 7 -/
example : run {} init [.qCall 1 7, .enq 1, .qCall 2 8, .enq 2, .wStart, .wDec0, .wTop, .wSplice, .wRunBegin 8] = none := by decide
/-- a user work that re-queues another work from the worker's own thread -/
example : (run {} init [.qCall 1 7, .enq 1, .wStart, .wDec0, .wTop, .wSplice, .wRunBegin 7, .qCall 0 9, .enq 0, .inc 0, .ldFlags 0,
    .ldFutex 0, .stFutex 0, .flush 0, .wake 0, .wRunEnd, .wInvDone, .wSub, .wStopChk, .wEmptyChk, .wTop, .wSplice, .wRunBegin 9]).map
    (fun s => (s.doneLog, s.cur, s.fin 7)) = some ([7, 9], some 9, true) := by decide
/-- flush: the completion work item runs behind work 7; the waiter sleeps, is woken, returns; the completion is freed by
the last `urcu_ref_put` (here the caller's) -/
def flushTrace : List Label :=
  [.qCall 1 7, .enq 1, .inc 1, .ldFlags 1, .ldFutex 1, .ccCreate 2, .qcGet 2 0, .qcInc 2 100, .enq 2, .inc 2, .ldFlags 2, .ldFutex 2,
   .wcCall 2 0, .wcDec 2, .wcLd 2, .wcWaitLd 2, .wcWaitFx 2 .sleep,
   .wStart, .wDec0, .wTop, .wSplice, .wRunBegin 7, .wRunEnd, .wRunBegin 100, .cSub, .cLd, .cSt, .cFlush, .cWake, .cPut,
   .wcWaitLd 2, .wcDec 2, .wcLd 2, .dcPut 2 0]
example : (run {} init flushTrace).map (fun s => (s.cphase 0, s.fin 7, s.snap 0, s.before 0)) =
    some (.destroyed, true, [7], [7]) := by decide
example : (run {} init flushTrace).map (fun s => (s.cfreed 0, s.cref 0, s.uaf, s.tpc 2)) = some (true, 0, false, .idle) := by decide
/-- the waiter cannot return before the work item has run -/
example : run {} init [.qCall 1 7, .enq 1, .ccCreate 2, .qcGet 2 0, .qcInc 2 100, .enq 2, .wcCall 2 0, .wcDec 2, .wcLd 2, .dcPut 2 0] = none := by
  decide
/-- pause: the worker finishes its batch first, then pauses; while paused nothing can be started; resume -/
example : (run {} init [.qCall 1 7, .enq 1, .wStart, .wDec0, .wTop, .wSplice, .pOr 3, .ldFlags 3, .ldFutex 3, .stFutex 3, .flush 3, .wake 3,
    .wRunBegin 7, .wRunEnd, .wInvDone, .wSub, .wStopChk, .wEmptyChk, .wWaitLd, .wDec, .wTop, .wPause, .pSee 3, .qCall 2 8, .enq 2]).map
    (fun s => (s.wpc, s.tpc 3, s.queue, s.batch, s.cur)) = some (.paused, .holding, [8], [], none) := by decide
example : run {} init [.wStart, .wDec0, .wTop, .wSplice, .pOr 3, .ldFlags 3, .ldFutex 3, .wStopChk, .wEmptyChk, .wWaitLd, .wDec, .wTop,
    .wPause, .pSee 3, .wSeeResume] = none := by decide
example : (run {} init [.wStart, .wDec0, .wTop, .wSplice, .pOr 3, .ldFlags 3, .ldFutex 3, .stFutex 3, .flush 3, .wake 3, .wStopChk, .wEmptyChk,
    .wWaitLd, .wDec, .wTop, .wPause, .pSee 3, .rAnd 3, .wSeeResume, .wUnpause, .rSee 3]).map
    (fun s => (s.wpc, s.tpc 3, s.pause, s.paused, s.pauser)) = some (.splice, .idle, false, false, none) := by decide
/-- `resume_worker` cannot return while PAUSED is still set -/
example : run {} init [.wStart, .wDec0, .wTop, .wSplice, .pOr 3, .ldFlags 3, .ldFutex 3, .wStopChk, .wEmptyChk, .wWaitLd, .wDec, .wTop,
    .wPause, .pSee 3, .rAnd 3, .rSee 3] = none := by decide
/-- destroy with a work left in the queue: the assertion fails, the work never ran -/
example : (run {} init [.wStart, .wDec0, .wTop, .wSplice, .wStopChk, .qCall 1 7, .dOr 3, .ldFlags 3, .ldFutex 3, .stFutex 3, .flush 3, .wake 3,
    .wEmptyChk, .wWaitLd, .wDec, .wTop, .wSplice, .enq 1, .wStopChk, .wExitSt, .dJoin 3, .dChk 3]).map
    (fun s => (s.assertOk, s.destroyed, s.queue, s.fin 7, s.wpc)) = some (false, true, [7], false, .dead) := by decide
/-- RT worker: no futex traffic at all -/
example : (run { rt := true } init [.wStart, .wTop, .wSplice, .wStopChk, .wRtChk, .qCall 1 7, .enq 1, .inc 1, .ldFlags 1,
    .wTop, .wSplice, .wRunBegin 7, .wRunEnd]).map (fun s => (s.futex, s.tpc 1, s.fin 7)) = some (0, .idle, true) := by decide

end UrcuVerif.Wq
