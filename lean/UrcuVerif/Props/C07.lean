import UrcuVerif.Lfht.Conc.Owner
import UrcuVerif.Lfht.Conc.InvDAll
import UrcuVerif.Lfht.Conc.InvSAll
import UrcuVerif.Lfht.Conc.Run
/-!
# C07 — hash table: a removed node has one owner; unreachable after a grace period
(statements and final theorems; helper lemmas in `Lfht/Conc/Inv*.lean`, `Lfht/Conc/Owner.lean`, `Lfht/Conc/NoCrash.lean`)

Model: `Lfht/Conc/*.lean` — one step per load of a `next` word / of `ht->size` and per read-modify-write of
`src/rculfhash.c` (`_cds_lfht_add` in all modes, `_cds_lfht_replace`, `_cds_lfht_del`, `_cds_lfht_gc_bucket`,
lookups and traversals, grow/shrink level by level with helper threads and grace periods), **any number of
threads, every interleaving, threads suspended anywhere**.  `Current c` = the code as it is
(`REMOVAL_OWNER` taken with `uatomic_xchg`); the variant "load + `uatomic_or`" is `ownerByOr = true`
and is shown to give two owners in `Neg/C07.lean`.

Proved here for ALL reachable states (`C07_full_holds`):
* `single_owner` — flag automaton of one `next` word (∅ → R → R|O, or ∅ → R|O by the replace CAS);
* `removed_frozen`, `bucket_never_removed_while_published`;
* `del_returns_unlinked` — postcondition of `_cds_lfht_gc_bucket` (layer D, `Lfht/Conc/InvD*.lean`);
* `reclaim_safe` — the model reclaims a node (`reclaim p`) only after its owner's return plus a grace period and
  frees a bucket-table level (`tblFree`) only after the shrink's grace period, exactly the obligations
  `call_rcu`/`synchronize_rcu` put on the caller and on `cds_lfht_resize`; every dereference of a `next` word checks
  that its node is neither NULL, nor never published, nor freed (`okp`, else the step outputs `crash` and sets `uaf`).
  Theorem: no reachable state has `uaf`, and no step from a reachable state crashes (layer S, `Lfht/Conc/InvS*.lean`:
  every pointer a thread holds inside its read-side section is linked or was unlinked after the section began).
-/
namespace UrcuVerif.Lfht.Conc
open UrcuVerif

/-- the code as it is: `_cds_lfht_del` takes `REMOVAL_OWNER` with `uatomic_xchg` -/
def Current (c : Cfg) : Prop := c.ownerByOr = false

/-- number of success returns for node `p` in an execution -/
def succs (p : Nat) (evs : List (State × Nat × Label × Out)) : Nat :=
  (evs.filter fun e => succFor e.1 e.2.1 e.2.2.1 e.2.2.2 == some p).length

/-- **single_owner**, state form: the ghost count of decided removals of a node is 0 or 1, it is 1 exactly
when `REMOVAL_OWNER` is set in `p->next`, and as soon as one `cds_lfht_del` that passed the `REMOVED` test
has completed (whatever it returned) it is 1 — exactly one of the competing calls obtained the node. -/
def SingleOwnerState : Prop :=
  ∀ c s, Current c → Reach c s → ∀ p,
    s.wins p ≤ 1 ∧ (s.wins p = 1 ↔ (s.nxt p).own = true) ∧ (0 < s.dels p → s.wins p = 1)

/-- **single_owner**, run form: along any execution from the initial state at most one `del` / `replace` /
`add_replace` call returns success for a given node, and a success return is the decided winner. -/
def SingleOwnerRun : Prop :=
  ∀ c, Current c →
    (∀ evs s p, Exec c init evs s → succs p evs ≤ 1) ∧
    (∀ s s' t l o p, Reach c s → step c s t l = some (s', o) → succFor s t l o = some p → s'.wins p = 1) ∧
    (∀ s s' t l r, Reach c s → step c s t l = some (s', .ret r) → r = 0 → (succFor s t l (.ret r)).isSome)

/-- **removed_frozen**: once `REMOVED` is set in a `next` word, the flag stays and the pointer part never changes -/
def RemovedFrozen : Prop :=
  ∀ c s s' t l o, Current c → Reach c s → step c s t l = some (s', o) →
    ∀ p, (s.nxt p).rem = true → (s'.nxt p).rem = true ∧ (s'.nxt p).ptr = (s.nxt p).ptr

/-- **bucket_never_removed_while_published**: every bucket below the published `size` exists, is a bucket
node, is linked and is not flagged -/
def BucketNeverRemoved : Prop :=
  ∀ c s, Current c → Reach c s → ∀ i, i < s.size →
    s.tbl i ≠ 0 ∧ s.isB (s.tbl i) = true ∧ s.hsh (s.tbl i) = i ∧ s.life (s.tbl i) = .linked ∧ (s.nxt (s.tbl i)).rem = false

/-- **del_returns_unlinked**: when the winner's call returns, the node is no longer linked (postcondition of
`_cds_lfht_gc_bucket`, `Lfht/Conc/InvD*.lean`) -/
def DelReturnsUnlinked : Prop :=
  ∀ c s s' t l o p, Current c → Reach c s → step c s t l = some (s', o) → succFor s t l o = some p → p ∉ s'.L

/-- **reclaim_safe** + **bucket_table_lifetime** (target): no step ever dereferences NULL, a node that was
never linked, a node reclaimed after its owner's return plus a grace period, or a freed bucket table -/
def ReclaimSafe : Prop := ∀ c s, Current c → Reach c s → s.uaf = false

/-- C07 at full strength (on the model) -/
def C07_full : Prop :=
  SingleOwnerState ∧ SingleOwnerRun ∧ RemovedFrozen ∧ BucketNeverRemoved ∧ DelReturnsUnlinked ∧ ReclaimSafe

/-- the same obligation per step: no step enabled in a reachable state dereferences reclaimed memory -/
def NoStepCrashes : Prop := ∀ c s s' t l o, Current c → Reach c s → step c s t l = some (s', o) → o ≠ .crash

/-- the conjuncts of the floor (kept for the record; all of `C07_full` is proved below) -/
def C07_partial : Prop := SingleOwnerState ∧ SingleOwnerRun ∧ RemovedFrozen ∧ BucketNeverRemoved ∧ DelReturnsUnlinked

theorem single_owner_state : SingleOwnerState := by
  intro c s hc r p
  have ⟨_, hF, hA⟩ := invRFA_reach hc r
  have := hA.g p
  simp only [GA] at this
  by_cases h : (s.nxt p).own = true <;> simp [h] at this ⊢ <;> omega

/-- generalisation used for the run form: from any reachable state -/
theorem succs_le {c} (hc : Current c) {s evs s'} (r : Reach c s) (e : Exec c s evs s') (p : Nat) :
    succs p evs ≤ (if s.ownRet p = none then 1 else 0) ∧ (s.ownRet p ≠ none → s'.ownRet p ≠ none) := by
  induction e with
  | nil s => simp [succs]
  | @cons s t l s1 o evs s2 st _ ih =>
    have ⟨_, hF, hA⟩ := invRFA_reach hc r
    have ⟨ih1, ih2⟩ := ih (.step r st)
    have stab := ownRet_stable st p
    refine ⟨?_, fun h => ih2 (stab h)⟩
    simp only [succs, List.filter_cons]
    by_cases hs : succFor s t l o = some p
    · have ⟨h1, h2, _⟩ := succ_once hc hF hA st hs
      have hb : (succFor s t l o == some p) = true := by simp [hs]
      rw [hb]; simp only [if_true, List.length_cons, h1]
      rw [if_neg h2] at ih1; simp only [succs] at ih1; omega
    · have hb : (succFor s t l o == some p) = false := by simp [hs]
      rw [hb]; simp only [Bool.false_eq_true, if_false]
      by_cases h0 : s.ownRet p = none
      · rw [if_pos h0]; simp only [succs] at ih1; split at ih1 <;> omega
      · rw [if_neg h0]; rw [if_neg (stab h0)] at ih1; simp only [succs] at ih1; exact ih1

theorem single_owner_run : SingleOwnerRun := by
  intro c hc
  refine ⟨?_, ?_, ?_⟩
  · intro evs s p e
    have := (succs_le hc .init e p).1
    split at this <;> omega
  · intro s s' t l o p r st hs
    have ⟨_, hF, hA⟩ := invRFA_reach hc r
    exact (succ_once hc hF hA st hs).2.2
  · intro s s' t l r0 r st h0
    subst h0
    have ⟨hR, hF, hA⟩ := invRFA_reach hc r
    have nd := (hF.t t).1
    rcases ret_zero_label st with rfl | rfl | rfl
    · simp [succFor]
    · simp [succFor]
    · exfalso; st_open st; all_goals (apply nd; assumption)

theorem removed_frozen : RemovedFrozen := by
  intro c s s' t l o hc r st
  have ⟨hR, hF⟩ := invRF_reach hc r
  exact rem_frozen_step hc hR hF st

theorem bucket_never_removed_while_published : BucketNeverRemoved := by
  intro c s hc r i hi
  have ⟨hR, hF⟩ := invRF_reach hc r
  have g := hR.g; have f := hF.g
  simp only [GR] at g; simp only [GF, live] at f
  have h0 := g.2.1 i hi
  have m := g.2.2.1 i h0
  have l := f.2.2.1 i hi
  exact ⟨h0, m.1, m.2.1, l.1, l.2⟩

theorem del_returns_unlinked : DelReturnsUnlinked := by
  intro c s s' t l o p hc r st hs; exact (del_returns_unlinked_step hc r st hs).2

theorem C07_partial_holds : C07_partial :=
  ⟨single_owner_state, single_owner_run, removed_frozen, bucket_never_removed_while_published, del_returns_unlinked⟩

theorem reclaim_safe : ReclaimSafe := fun _ _ hc r => reclaim_safe_reach hc r

theorem no_step_crashes : NoStepCrashes := fun _ _ _ _ _ _ hc r st => never_crashes_step hc r st

theorem C07_full_holds : C07_full :=
  ⟨single_owner_state, single_owner_run, removed_frozen, bucket_never_removed_while_published, del_returns_unlinked,
    reclaim_safe⟩

/-! ## Non-vacuity: two deleters race for the same node, both pass the `REMOVED` test, both complete -/

def c2 : Cfg := { n := 2 }

/-- T0 adds node 5 (hash 3, key 30); T0 and T1 look it up; both call `cds_lfht_del`, both load `next` before
either sets `REMOVED`; T0 unlinks the node; both reach the `xchg`. -/
def raceDel : List (Nat × Label) :=
  [(0, .rlock), (0, .callAdd .plain 5 3 30), (0, .ldSize), (0, .ldHeadA), (0, .casIns),
   (0, .callLookup 3 30), (0, .ldSize), (0, .ldHeadL), (0, .ldWalk), (0, .ldAssertW),
   (1, .rlock), (1, .callLookup 3 30), (1, .ldSize), (1, .ldHeadL), (1, .ldWalk), (1, .ldAssertW),
   (0, .callDel), (0, .ldSize), (0, .ldDel), (1, .callDel), (1, .ldSize), (1, .ldDel),
   (0, .orRem), (1, .orRem),
   (0, .ldHeadG), (0, .ldNextG), (0, .casGc), (0, .ldHeadG), (0, .ldAssertD), (0, .ldDel2),
   (1, .ldHeadG), (1, .ldAssertD), (1, .ldDel2)]

example : Current c2 := rfl

/-- both are at the `xchg`, the node is flagged, unlinked, nobody owns it yet -/
example : (run c2 init raceDel).map (fun s => ((s.th 0).pc, (s.th 1).pc, s.nxt 5, s.L, s.wins 5, s.dels 5)) =
    some (.dXchg, .dXchg, { rem := true }, [1], 0, 0) := by decide

/-- T0 first: T0 returns 0, T1 returns -ENOENT; one winner, two completed dels -/
example : (runOut c2 init (raceDel ++ [(0, .xchgOwn), (1, .xchgOwn)])).map
    (fun x => (x.1.wins 5, x.1.dels 5, (x.1.nxt 5).own, x.2.drop 33)) = some (1, 2, true, [.ret 0, .ret (-2)]) := by decide

/-- T1 first: the other one wins -/
example : (runOut c2 init (raceDel ++ [(1, .xchgOwn), (0, .xchgOwn)])).map
    (fun x => (x.1.wins 5, x.1.dels 5, x.2.drop 33)) = some (1, 2, [.ret 0, .ret (-2)]) := by decide

/-- the hypotheses of the step theorems are met by this run: it is reachable -/
example : ∃ s, Reach c2 s ∧ (s.th 0).pc = .dXchg ∧ (s.th 1).pc = .dXchg ∧ (s.nxt 5).rem = true :=
  ⟨(run c2 init raceDel).get (by decide), run_reach .init (Option.some_get _).symm, by decide, by decide, by decide⟩

/-! ## Non-vacuity of `reclaim_safe`: nodes and bucket tables do get freed, and the guards are what keeps it safe -/

/-- T0 adds node 5, looks it up, deletes it (wins) and leaves its read-side section; then 5 is reclaimed -/
def delReclaim : List (Nat × Label) :=
  [(0, .rlock), (0, .callAdd .plain 5 3 30), (0, .ldSize), (0, .ldHeadA), (0, .casIns),
   (0, .callLookup 3 30), (0, .ldSize), (0, .ldHeadL), (0, .ldWalk), (0, .ldAssertW),
   (0, .callDel), (0, .ldSize), (0, .ldDel), (0, .orRem),
   (0, .ldHeadG), (0, .ldNextG), (0, .casGc), (0, .ldHeadG), (0, .ldAssertD), (0, .ldDel2), (0, .xchgOwn),
   (0, .runlock), (1, .reclaim 5)]

/-- the node is freed, nothing went wrong; a dereference of 5 from here on would be caught (`okp = false`) -/
example : (runOut c2 init delReclaim).map (fun x => (x.1.freed 5, x.1.uaf, okp x.1 5, x.1.L, x.2.drop 20)) =
    some (true, false, false, [1], [.ret 0, .unit, .unit]) := by decide

/-- while the deleter's own read-side section (which began before the unlink) is still open, `reclaim 5` is not enabled -/
example : run c2 init (delReclaim.take 21 ++ [(1, .reclaim 5)]) = none := by decide

/-- one thread grows the table to 2 buckets (bucket node 10) and shrinks it again: bucket 10 is flagged, unlinked,
and after the second grace period its table level is freed -/
def growShrink : List (Nat × Label) :=
  [(1, .rzLock), (1, .tblAlloc 10), (1, .partBegin), (1, .ldHeadA), (1, .casIns), (1, .partEnd), (1, .stSizeGrow),
   (1, .stSizeShrink), (1, .gpStart), (1, .gpEnd), (1, .partBegin), (1, .orBkt), (1, .ldHeadG), (1, .ldNextG), (1, .casGc),
   (1, .ldHeadG), (1, .partEnd), (1, .gpStart), (1, .gpEnd), (1, .tblFree), (1, .rzUnlock)]

example : (run c2 init (growShrink.take 7)).map (fun s => (s.size, s.L, s.tbl 1)) = some (2, [1, 10], 10) := by decide

example : (run c2 init growShrink).map (fun s => ((s.th 1).pc, s.size, s.L, s.tbl 1)) = some (.idle, 1, [1], 0) := by decide

example : (run c2 init growShrink).map (fun s => (s.freed 10, s.uaf, okp s 10)) = some (true, false, false) := by decide

/-- a reader that entered before the shrink keeps the grace period open: `gpEnd` is not enabled -/
example : run c2 init ((0, .rlock) :: growShrink.take 9 ++ [(1, .gpEnd)]) = none := by decide

end UrcuVerif.Lfht.Conc
