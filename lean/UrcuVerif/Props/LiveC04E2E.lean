import UrcuVerif.CallRcu.LiveBarLoop3
import UrcuVerif.CallRcu.LiveBarExample
import UrcuVerif.Props.LiveC04
/-!
# C04 liveness, end to end — `rcu_barrier()` itself always returns

From the CALL of `rcu_barrier()` to its return, on every run of the barrier layer that satisfies the provisos
`BFairEnv`: the caller acquires `call_rcu_mutex` (strong fairness; "the mutex is free again and again" is derived),
initialises the completion, queues one marker per helper, unlocks; every marker is eventually invoked (C03 end to end,
`callback_eventually_invoked` applied to the projection of the run to the call_rcu layer – the hypothesis `hinvoked`
of `barrier_eventually_returns` is DISCHARGED); the last marker wakes the caller, which returns.
-/
namespace UrcuVerif.CallRcu
open UrcuVerif UrcuVerif.Fair
open BFairEnv

variable {c : Cfg} {ρ : Nat → BState} {ℓ : Nat → Option BLabel}

/-- the caller's wait-loop steps are scheduled fairly -/
theorem BFairEnv.callers (E : BFairEnv c ρ ℓ) (t : Nat) : WeakFair (bstep c) ρ ℓ (fun l => l ∈ callerLabels t) := by
  intro i he
  obtain ⟨j, hj, bl, hl, hb⟩ := (E.threads t).weak i (fun j hj => by
    obtain ⟨bl, h1, h2⟩ := he j hj
    exact ⟨bl, callerLabels_bt t bl h1, h2⟩)
  exact ⟨j, hj, bl, hl, wait_own_is_caller c (E.inv j).l.all.P t (he j hj) hb (E.run.move j bl hl)⟩

/-- **the caller eventually acquires `call_rcu_mutex`** -/
theorem BFairEnv.lock_acquired (E : BFairEnv c ρ ℓ) (t b : Nat) :
    ∀ j, (ρ j).bpc t = .lock b → ∃ j', j ≤ j' ∧ (ρ j').bpc t = .init b := by
  intro j hp
  apply Classical.byContradiction
  intro hno
  -- no step of its own: the caller stays at `lock`
  have hstay : ∀ d, (ρ (j + d)).bpc t = .lock b := by
    intro d
    induction d with
    | zero => exact hp
    | succ d ih =>
      cases hl : ℓ (j + d) with
      | none => rw [show j + (d + 1) = j + d + 1 by omega, E.run.idle _ hl]; exact ih
      | some bl =>
        rw [show j + (d + 1) = j + d + 1 by omega]
        by_cases hb : btLabel t bl
        · exact absurd ⟨j + d + 1, by omega, lock_own c (E.inv _).l.all.P t b ih hb (E.run.move _ bl hl)⟩ hno
        · exact lock_frame c (E.inv _).l.all.H t b ih hb (E.run.move _ bl hl)
  have hfree := E.base_env.mutex_free
  obtain ⟨k, hk, bl, hl, hb⟩ := E.threads t j (fun k hk => by
    obtain ⟨k', hk', hm⟩ := hfree k
    have := hstay (k' - j); rw [show j + (k' - j) = k' by omega] at this
    exact ⟨k', hk', lock_enabled c (E.inv k').l.all.P t b this hm⟩)
  have h1 := hstay (k - j); rw [show j + (k - j) = k by omega] at h1
  exact hno ⟨k + 1, by omega, lock_own c (E.inv k).l.all.P t b h1 hb (E.run.move k bl hl)⟩

/-- **every marker of a barrier eventually decrements the count** (C03 end to end for the marker callbacks) -/
theorem BFairEnv.marker_eventually_done (E : BFairEnv c ρ ℓ) (b h' : Nat) :
    ∀ j, (ρ j).inited b = true → h' ∈ (ρ j).hs b → ∃ j', j ≤ j' ∧ (ρ j').mdone b h' = true := by
  intro j hi hh
  have B := E.base_env
  -- first let the caller finish queueing its markers
  have hq : ∃ j1, j ≤ j1 ∧ (ρ j1).todo b = [] := by
    by_cases ht : (ρ j).todo b = []
    · exact ⟨j, Nat.le_refl j, ht⟩
    · have hl := (E.inv j).l.all.P.k_todo_loop b ht
      obtain ⟨j1, hj1, hd⟩ := E.setup_terminates ((ρ j).caller b) b j (Or.inr hl)
      exact ⟨j1, hj1, (E.inv j1).l.all.P.k_todo0 _ b (by rw [hd]; rfl) (by rw [hd]; simp)⟩
  obtain ⟨j1, hj1, htd⟩ := hq
  have hst : (ρ j1).inited b = true ∧ (ρ j1).hs b = (ρ j).hs b :=
    stable_along E.run (LInv2 c) (fun s => s.inited b = true ∧ s.hs b = (ρ j).hs b) j (fun k _ => E.inv k)
      (fun s l s' I h st => by
        have := inited_frame c I.l.all.P b h.1 st
        exact ⟨this.1, by rw [this.2, h.2]⟩) ⟨hi, rfl⟩ j1 hj1
  -- the marker exists …
  let m := (ρ j1).mid b h'
  have hmark : (ρ j1).base.mark m = some (b, h') := by
    rcases (E.inv j1).G b h' hst.1 (by rw [hst.2]; exact hh) with h | h
    · rw [htd] at h; simp at h
    · exact h
  have hreg : (ρ j1).base.reg m = true := ((E.inv j1).l.all.K.k_mark m b h' hmark).2.2.2.2
  -- … is somewhere in the call_rcu layer, and eventually finishes
  have hfin : ∃ j2, j1 ≤ j2 ∧ (ρ j2).base.fin m = true := by
    have A := (reach_d c (E.inv j1).l.all.R).1
    have hl := A.loc_ok m
    unfold LocOk at hl
    cases hloc : (ρ j1).base.loc m with
    | none => have := hl.1 hloc; rw [hreg] at this; cases this
    | pend t =>
      obtain ⟨j2, hj2, hf, -⟩ := callback_eventually_invoked c B t m j1 (hl.2.2.2.2.1 t hloc)
      exact ⟨j2, hj2, hf⟩
    | queue x =>
      obtain ⟨j2, hj2, hf, -⟩ := queued_callback_eventually_invoked_any c B x m j1 (hl.2.2.2.2.2.1 x hloc)
      exact ⟨j2, hj2, hf⟩
    | batch x =>
      obtain ⟨j2, hj2, hf, -⟩ := batched_callback_eventually_invoked c B.run B.reach x (B.helpers x) B.sections_end
        (B.callbacks_terminate x) m j1 (hl.2.2.2.2.2.2.1 x hloc)
      exact ⟨j2, hj2, hf⟩
    | run x =>
      obtain ⟨j2, hj2, hf, -⟩ := running_callback_eventually_finishes c B x m j1 (hl.2.2.2.2.2.2.2 x hloc)
      exact ⟨j2, hj2, hf⟩
    | done => exact ⟨j1, Nat.le_refl j1, hl.2.2.1 hloc⟩
  obtain ⟨j2, hj2, hf⟩ := hfin
  have hmark2 : (ρ j2).base.mark m = some (b, h') :=
    stable_along E.run (LInv2 c) (fun s => s.base.mark m = some (b, h')) j1 (fun k _ => E.inv k)
      (fun s l s' I h st => mark_stable_b c I.l.all.K m (b, h') h st) hmark j2 hj2
  exact ⟨j2, by omega, (E.inv j2).F m b h' hmark2 hf⟩

/-- **barrier_eventually_returns_from_wait**: `barrier_eventually_returns` with all its hypotheses discharged from the
provisos `BFairEnv` -/
theorem barrier_eventually_returns_from_wait (E : BFairEnv c ρ ℓ) (t b : Nat) :
    ∀ i, ((ρ i).bpc t).waitPhase b → ∃ j, i ≤ j ∧ (ρ j).returned b = true :=
  barrier_eventually_returns c E.run E.reach b t (E.callers t) E.markers
    (fun h' j hi hh => by
      obtain ⟨j', hj', hd⟩ := E.marker_eventually_done b h' j hi hh
      exact ⟨j', hj', Or.inl hd⟩)

/-- **barrier_eventually_returns_from_call** (C04, end to end): on every run that satisfies the provisos `BFairEnv`,
every `rcu_barrier()` that is called (outside a read-side section: `bCall`) returns. -/
theorem barrier_eventually_returns_from_call (E : BFairEnv c ρ ℓ) :
    ∀ t i, ℓ i = some (.bCall t) → ∃ j, i < j ∧ (ρ j).returned (ρ i).nextB = true := by
  intro t i hl
  have st := E.run.move i _ hl
  have hp : (ρ (i + 1)).bpc t = .lock (ρ i).nextB := by
    simp only [bstep] at st
    (repeat' split at st) <;> (first | (simp at st; done) | skip)
    simp only [Option.some.injEq] at st
    rw [← st]; simp [upd]
  obtain ⟨j1, hj1, h1⟩ := E.lock_acquired t _ (i + 1) hp
  obtain ⟨j2, hj2, h2⟩ := E.setup_terminates t _ j1 (Or.inl h1)
  obtain ⟨j, hj, hr⟩ := barrier_eventually_returns_from_wait E t _ j2 (Or.inr (Or.inl h2))
  exact ⟨j, by omega, hr⟩

/-! ### Non-vacuity: all provisos hold on a concrete run

The run of `Props/C04.lean` (one callback, one helper, one barrier) continued until the helper sleeps again, then
idling: `rcu_barrier()` is called at position 11, the caller sleeps at 24, the marker wakes it at 36, it returns at 42. -/

def barE2EPrefix : List BLabel :=
  barPrefix ++ [.base (.hInvDone 0), .base (.hSub 0), .base (.hStopChk 0), .base (.hEmptyChk 0), .base (.hWaitLd 0),
    .base (.hWaitFx 0 .sleep)]

theorem barE2E_env : BFairEnv cfgB (prefixState (bstep cfgB) binit barE2EPrefix) (fun i => barE2EPrefix[i]?) := by
  have h1 : (prefixFinal (bstep cfgB) binit barE2EPrefix).isSome = true := by decide
  obtain ⟨sf, hsf⟩ := Option.isSome_iff_exists.mp h1
  have h2 : (prefixFinal (bstep cfgB) binit barE2EPrefix).map
      (fun s => (s.base.tpc 0, s.base.tpc 1, s.base.nextH, s.base.hpc 0)) = some (.idle, .idle, 1, .asleep) := by decide
  have h3 : (prefixFinal (bstep cfgB) binit barE2EPrefix).map
      (fun s => (s.base.nest 0, s.base.nest 1, s.base.nest 2)) = some (0, 0, 0) := by decide
  rw [hsf] at h2 h3
  simp only [Option.map_some, Option.some.injEq, Prod.mk.injEq] at h2 h3
  obtain ⟨e1, e2, e3, e4⟩ := h2
  obtain ⟨e5, e6, e7⟩ := h3
  have hfin := prefixState_final (bstep cfgB) binit barE2EPrefix sf hsf
  have hrun := prefix_isRun (bstep cfgB) binit barE2EPrefix sf hsf
  have hBR : ∀ j, BReach cfgB (prefixState (bstep cfgB) binit barE2EPrefix j) := fun j =>
    inv_along hrun (BReach cfgB) (fun _ _ _ h st => BReach.step h st) 0 BReach.init j (Nat.zero_le j)
  have hIf : LInv2 cfgB sf := by
    have := linv2_reach cfgB (hBR barE2EPrefix.length)
    rwa [hfin _ (Nat.le_refl _)] at this
  obtain ⟨A, B, D, -, -⟩ := reach_d cfgB hIf.l.all.R
  have hhpc : ∀ x, sf.base.hpc x = .asleep ∨ sf.base.hpc x = .none := by
    intro x
    by_cases hx : x < 1
    · have : x = 0 := by omega
      subst this; exact Or.inl e4
    · exact Or.inr (A.fresh x (by rw [e3]; omega)).1
  have hidle : ∀ t, sf.base.tpc t = .idle := by
    intro t
    by_cases ht : 2 ≤ t
    · apply Classical.byContradiction
      intro h
      have := D.hthr_run t ht h
      rcases hhpc (t - cfgB.n) with h' | h' <;> rw [h'] at this <;> cases this
    · have ht : t < 2 := by omega
      match t, ht with
      | 0, _ => exact e1
      | 1, _ => exact e2
  have hbpc : ∀ t, sf.bpc t = .idle := by
    intro t
    apply Classical.byContradiction
    intro h
    have := (hIf.l.all.P.k_ext t).mp h
    rw [hidle t] at this; cases this
  have hmrun : ∀ x, sf.mrun x = none := fun x =>
    (hIf.l.all.H.mpc_run x (by rcases hhpc x with h | h <;> rw [h] <;> decide)).2
  have hnest : ∀ t, sf.base.nest t = 0 := by
    intro t
    by_cases ht : t < 3
    · match t, ht with
      | 0, _ => exact e5
      | 1, _ => exact e6
      | 2, _ => exact e7
    · exact B.inert t (by simp only [nthr, e3]; show 2 + 1 ≤ t; omega)
  have hplain : ∀ j, Plain2 (prefixState (bstep cfgB) binit barE2EPrefix j).base :=
    prefix_inv (bstep cfgB) (fun s => Plain2 s.base) (fun bl => bl.ok2 = true)
      (fun s bl s' h hl st => plain2_bstep cfgB h hl st) barE2EPrefix (by decide) binit
      ⟨fun x => rfl, fun t => ⟨by simp [binit, init], by simp [binit, init]⟩⟩
  -- while a marker runs (positions 32–38, helper 0) the helper's thread is idle
  have hquiet0 : ∀ j, j < barE2EPrefix.length → (prefixState (bstep cfgB) binit barE2EPrefix j).base.tpc 2 = .idle ∧
      (prefixState (bstep cfgB) binit barE2EPrefix j).base.nextH ≤ 1 := by decide
  refine ⟨hrun, BReach.init, ?_, ?_, ?_, ?_, ?_, ?_, ?_, invQ_init⟩
  · intro t
    exact strongFair_of_final _ barE2EPrefix.length sf hfin (idle_no_btlabel cfgB (hidle t) (hbpc t))
  · intro x
    exact weakFair_of_final _ barE2EPrefix.length sf hfin (no_bhlabel cfgB (hhpc x) (hmrun x))
  · intro t j _
    refine ⟨j + barE2EPrefix.length, by omega, ?_⟩
    rw [hfin _ (by omega)]; exact hnest t
  · intro x j _ _
    refine ⟨j + barE2EPrefix.length, by omega, ?_⟩
    rw [hfin _ (by omega)]
    rcases hhpc x with h | h <;> rw [h] <;> decide
  · intro x j hm
    by_cases hj : j < barE2EPrefix.length
    · have hq := hquiet0 j hj
      have I := linv2_reach cfgB (hBR j)
      have hrunx : (prefixState (bstep cfgB) binit barE2EPrefix j).base.hpc x = .run := by
        apply Classical.byContradiction
        intro h
        rw [(I.l.all.H.mpc_run x h).2] at hm; cases hm
      have hx : x = 0 := by
        have Aj := (reach_d cfgB I.l.all.R).1
        apply Classical.byContradiction
        intro hx
        rw [(Aj.fresh x (by omega)).1] at hrunx; cases hrunx
      subst hx; exact hq.1
    · rw [hfin j (by omega)] at hm ⊢
      rw [hmrun x] at hm; cases hm
  · intro x j; exact (hplain j).1 x
  · intro j; exact (hplain j).2

/-- the end-to-end theorem applies: the `rcu_barrier()` called at position 11 returns -/
example : ∃ j, 11 < j ∧ (prefixState (bstep cfgB) binit barE2EPrefix j).returned 0 = true :=
  barrier_eventually_returns_from_call barE2E_env 1 11 (by decide)

end UrcuVerif.CallRcu
