import UrcuVerif.Gp.LiveFlipRun
import UrcuVerif.Gp.LiveFlipChurn
import UrcuVerif.Props.C01
/-!
# C02, core clause — "if every reader eventually leaves its critical section, every `synchronize_rcu()` returns"
on the actual two-pass phase-flip grace-period model (`Gp/Flip.lean`: x86-TSO store buffers, memb with
`sys_membarrier` / memb fallback / mb, any number of readers, unbounded nesting, signal-handler frames).

Hypotheses about the run (idle steps allowed, `Machine/Fair.lean`), each a former "trusted" sentence:
(a) the grace-period leader is scheduled fairly (`uLabel`: return of the master barriers, scans, flip, pass ends);
(b) the store buffer of every reader drains (`flush j`), and with `sys_membarrier` the IPIs are delivered (`forced j`);
(c) every read-side section eventually ends – NEW SECTIONS MAY START AT ANY TIME: that is what the two passes are for;
(e) registration churn stops eventually (`rcu_register_thread()` adds the thread to the list pass 1 scans; a thread that
    registers and unregisters for ever can keep pass 1 busy for ever – in the model and in the code).
NOT needed: that interrupted `rcu_read_lock()` frames (`held`) ever pop (d) – a stale snapshot that is never stored
does no harm; what is needed is only that the stale snapshots are finitely many (`phi`), which the model guarantees.

Argument (`Gp/LiveFlip*.lean`): within a pass the phase `g` of `rcu_gp.ctr` is constant and the scan accepts reader `j`
iff its word in memory is inactive or of phase `g`.  A reader's word can become unacceptable again only through a section
entered with a stale snapshot of the phase (`rpc j = ld g'` or a frame in `held j`); `phi j g` counts them, never
increases, and decreases whenever one is stored.  Between two such events: the current section ends (c), the buffered
stores of the old section drain (b) – measured by the index of the last unacceptable buffered store – and from then on
every store of `j` is acceptable (`reader_settles`).  Hence every scan is eventually enabled for good and taken (a)
(`pass_terminates`); the master barriers return (`mbar_terminates`).
-/
namespace UrcuVerif.Gp
open UrcuVerif UrcuVerif.Fair

/-- **synchronize_rcu_eventually_returns** (two-pass phase-flip model, x86-TSO, the three configurations of
`src/urcu.c`, any `n`, any reachable start state): a grace period that has started (`upc ≠ idle`, e.g. `mbar1` right
after `uStart`) eventually reaches the end of `synchronize_rcu()` – `uEnd` is taken, the leader is idle again. -/
theorem synchronize_rcu_eventually_returns (c : Cfg) (hc : c.WF) {ρ : Nat → State} {ℓ : Nat → Option Label}
    (hrun : IsRun (step c) ρ ℓ) (hreach : Reach c (ρ 0))
    (hupd : WeakFair (step c) ρ ℓ uLabel)
    (hflush : ∀ j, j < c.n → WeakFair (step c) ρ ℓ (fun l => l = .flush j))
    (hforced : c.membarrier = true → ∀ j, j < c.n → WeakFair (step c) ρ ℓ (fun l => l = .forced j))
    (hsec : ∀ j, j < c.n → ∀ t, 0 < (ρ t).lnest j → ∃ t', t ≤ t' ∧ (ρ t').lnest j = 0)
    (hreg : ∃ N, ∀ t l, N ≤ t → ℓ t = some l → isReg l = false) :
    ∀ i, (ρ i).upc ≠ .idle → ∃ t, i ≤ t ∧ ℓ t = some .uEnd ∧ (ρ (t + 1)).upc = .idle := by
  intro i hni
  have hR := greach_along c hrun hreach
  obtain ⟨N, hN⟩ := hreg
  obtain ⟨t, ht, hidle⟩ := gp_completes_noreg c hc hrun hR hupd hflush hforced hsec (max i N)
    (fun t l ht hl => hN t l (by omega) hl)
  -- the step into `idle` is the return
  obtain ⟨m, hm1, hm2, hin, hout⟩ := change_step (ρ := ρ) (fun s => s.upc ≠ .idle) (show i ≤ t by omega) hni (by simpa using hidle)
  have hout : (ρ (m + 1)).upc = .idle := by simpa using hout
  cases hl : ℓ m with
  | none => rw [hrun.idle m hl] at hout; exact absurd hout hin
  | some l =>
    have := idle_by_uEnd c hin hout (hrun.move m l hl)
    subst this
    exact ⟨m, hm1, hl, hout⟩

/-- the same for the tracked grace period of `Props/C01.lean`: it eventually is done – from then on `gp_guarantee_after_return`
applies (no reader is inside a section that began before it started) -/
theorem tracked_gp_eventually_done (c : Cfg) (hc : c.WF) {ρ : Nat → State} {ℓ : Nat → Option Label}
    (hrun : IsRun (step c) ρ ℓ) (hreach : Reach c (ρ 0))
    (hupd : WeakFair (step c) ρ ℓ uLabel)
    (hflush : ∀ j, j < c.n → WeakFair (step c) ρ ℓ (fun l => l = .flush j))
    (hforced : c.membarrier = true → ∀ j, j < c.n → WeakFair (step c) ρ ℓ (fun l => l = .forced j))
    (hsec : ∀ j, j < c.n → ∀ t, 0 < (ρ t).lnest j → ∃ t', t ≤ t' ∧ (ρ t').lnest j = 0)
    (hreg : ∃ N, ∀ t l, N ≤ t → ℓ t = some l → isReg l = false) :
    ∀ i, (ρ i).tracked = true → ∃ t, i ≤ t ∧ (ρ t).trackedDone = true ∧ ∀ k, (ρ t).inD k = false := by
  intro i htr
  have hR := greach_along c hrun hreach
  have hni : (ρ i).upc ≠ .idle := fun h => by
    have := (inv_reach c hc (hR i)).idle_untracked h; rw [htr] at this; cases this
  obtain ⟨t, ht, -, hidle⟩ := synchronize_rcu_eventually_returns c hc hrun hreach hupd hflush hforced hsec hreg i hni
  have : ∃ k, i ≤ k ∧ (ρ k).trackedDone = true := by
    apply Classical.byContradiction
    intro hno
    have hall := unless_along hrun (fun _ => True) (fun s => s.tracked = true ∧ s.upc ≠ .idle) (fun s => s.trackedDone = true) i
      (fun _ _ => trivial) (fun s l s' _ p _ st => tracked_unless c p.1 p.2 st) ⟨htr, hni⟩
      (fun k hk h => hno ⟨k, hk, h⟩)
    exact (hall (t + 1) (by omega)).2 hidle
  obtain ⟨k, hk, hd⟩ := this
  exact ⟨k, hk, hd, gp_guarantee_after_return c hc (hR k) hd⟩

/-- hypothesis (e) cannot be dropped: `churn_starves_pass1` (`Gp/LiveFlipChurn.lean`) is a run that satisfies (a), (b), (c)
on which a grace period never completes because a thread registers and unregisters for ever -/
theorem registration_churn_must_stop :
    ∃ (ρ : Nat → State) (ℓ : Nat → Option Label), IsRun (step cfgMb) ρ ℓ ∧ Reach cfgMb (ρ 0) ∧
      WeakFair (step cfgMb) ρ ℓ uLabel ∧
      (∀ j, j < cfgMb.n → WeakFair (step cfgMb) ρ ℓ (fun l => l = .flush j)) ∧
      (cfgMb.membarrier = true → ∀ j, j < cfgMb.n → WeakFair (step cfgMb) ρ ℓ (fun l => l = .forced j)) ∧
      (∀ j, j < cfgMb.n → ∀ t, 0 < (ρ t).lnest j → ∃ t', t ≤ t' ∧ (ρ t').lnest j = 0) ∧
      (ρ 2).upc = .mbar1 ∧ ∀ t, 2 ≤ t → (ρ t).upc ≠ .idle := churn_starves_pass1

/-! ### Non-vacuity

Configuration `cfgMemb` (sys_membarrier, 2 readers).  Reader 0 enters a section with its activating store still in its
store buffer, the tracked grace period starts, the IPI flushes the buffer, pass 1 classifies reader 0 as "current",
the flip happens, pass 2 waits for reader 0, which unlocks; the store drains, pass 2 ends, second master barrier,
`synchronize_rcu()` returns (position 18); then idling.  All hypotheses hold on this run. -/

def gpPrefix : List Label :=
  [.reg 0, .reg 1, .rLd 0, .rSt 0, .rEnter 0, .uStart true, .forced 0, .forced 1, .uMbarRet, .uScan1Current 0,
   .uScan1Inactive 1, .uFlip, .rUnlock 0, .flush 0, .uScan2 0, .uP2Done, .forced 0, .forced 1, .uEnd]

example : ∃ t, 6 ≤ t ∧ (fun i => gpPrefix[i]?) t = some Label.uEnd ∧
    (prefixState (step cfgMemb) init gpPrefix (t + 1)).upc = .idle := by
  have h1 : (prefixFinal (step cfgMemb) init gpPrefix).isSome = true := by decide
  obtain ⟨sf, hsf⟩ := Option.isSome_iff_exists.mp h1
  have h2 : (prefixFinal (step cfgMemb) init gpPrefix).map
      (fun s => (s.upc, s.buf 0, s.buf 1, s.lnest 0, s.lnest 1)) = some (.idle, [], [], 0, 0) := by decide
  rw [hsf] at h2
  simp only [Option.map_some, Option.some.injEq, Prod.mk.injEq] at h2
  obtain ⟨e1, e2, e3, e4, e5⟩ := h2
  have hfin := prefixState_final (step cfgMemb) init gpPrefix sf hsf
  have hidle : sf.upc = .idle := e1
  have hbuf : ∀ j, j < 2 → sf.buf j = [] ∧ sf.lnest j = 0 := by
    intro j hj
    match j, hj with
    | 0, _ => exact ⟨e2, e4⟩
    | 1, _ => exact ⟨e3, e5⟩
  refine synchronize_rcu_eventually_returns cfgMemb (Or.inl rfl) (ℓ := fun i => gpPrefix[i]?)
    (prefix_isRun _ _ _ sf hsf) Reach.init ?_ ?_ ?_ ?_ ⟨gpPrefix.length, ?_⟩ 6 (by decide)
  · refine weakFair_of_final _ gpPrefix.length sf hfin ?_
    rintro ⟨l, hl, he⟩
    cases l <;> simp only [uLabel] at hl <;> simp [step, hidle] at he
  · intro j hj
    refine weakFair_of_final _ gpPrefix.length sf hfin ?_
    rintro ⟨l, rfl, he⟩
    simp [step, (hbuf j hj).1] at he
  · intro _ j hj
    refine weakFair_of_final _ gpPrefix.length sf hfin ?_
    rintro ⟨l, rfl, he⟩
    simp [step, hidle] at he
  · intro j hj t _
    refine ⟨t + gpPrefix.length, by omega, ?_⟩
    rw [hfin _ (by omega)]; exact (hbuf j hj).2
  · intro t l ht hl
    have : gpPrefix[t]? = none := by simp; exact ht
    simp [this] at hl
example : (prefixState (step cfgMemb) init gpPrefix 6).upc = .mbar1 ∧ (prefixState (step cfgMemb) init gpPrefix 12).upc = .p2 ∧
    (prefixState (step cfgMemb) init gpPrefix 18).upc = .mbar2 ∧ (prefixState (step cfgMemb) init gpPrefix 19).upc = .idle := by
  decide

end UrcuVerif.Gp
