import UrcuVerif.Fork.LiveAfc
/-!
# C16 liveness — `call_rcu_after_fork_child()` eventually returns

`Props/C16.lean` proves `after_fork_child_terminates` (enabled step + decreasing measure in every reachable state).
Here the temporal form on infinite runs with idle steps (`Machine/Fair.lean`), fairness being a hypothesis.
-/
namespace UrcuVerif.Fork
open UrcuVerif UrcuVerif.Fair

/-- **after_fork_child_eventually_returns** (every process of the process tree, any reachable start state, any
activity of the freshly created helper in between): on every run that is weakly fair for the steps of
`call_rcu_after_fork_child()` of thread `t` (`hfair` – the forking thread, the only application thread of the child,
is eventually scheduled), the handler returns: the thread is back at application level (`idle`), the fork window is
closed, within at most `afcMeasure ≤ |call_rcu_data_list| + 4` of its own steps.  It never waits for a lock holder,
a helper or a join: none of those exists in the child. -/
theorem after_fork_child_eventually_returns (c : Cfg) {ρ : Nat → State} {ℓ : Nat → Option Label}
    (hrun : IsRun (step c) ρ ℓ) (hreach : Reach c (ρ 0)) (t : Nat)
    (hfair : WeakFair (step c) ρ ℓ (fun l => l ∈ afcLabels t)) :
    ∀ i, ((ρ i).upc t).inAfc = true → ∃ j, i ≤ j ∧ ((ρ j).upc t).inAfc = false := by
  intro i _
  have hR : ∀ j, i ≤ j → Reach c (ρ j) := fun j _ =>
    inv_along hrun (Reach c) (fun _ _ _ h st => Reach.step h st) 0 hreach j (Nat.zero_le j)
  refine fair_measure_leadsto hrun (fun l => l ∈ afcLabels t) (Reach c) (fun s => (s.upc t).inAfc = false)
    (fun s => afcMeasure s t) i hR hfair ?_ ?_ ?_
  · intro s R hg
    exact afc_enabled c R t (by simpa using hg)
  · intro s l s' R hg hl st
    exact Or.inl (afc_dec c t hl st)
  · intro s l s' R hg hl st
    have ht : (s.upc t).inAfc = true := by simpa using hg
    exact Or.inl (Nat.le_of_eq (afc_measure_frame c t ht (afc_others_gone c R t ht) hl st))

/-- at the end of the handler the thread is back at application level and the child is an ordinary process -/
theorem afc_exit (c : Cfg) {s s' : State} {l : Label} (t : Nat) (_ht : (s.upc t).inAfc = true)
    (ht' : (s'.upc t).inAfc = false) (hl : l ∈ afcLabels t) (st : step c s l = some s') :
    s'.upc t = .idle ∧ s'.child = false ∧ s'.win = none := by
  simp only [afcLabels, List.mem_cons, List.mem_nil_iff, or_false] at hl
  rcases hl with rfl | rfl | rfl | rfl | rfl | rfl <;> simp only [step] at st <;> (repeat' split at st) <;>
    (first | (simp at st; done) | skip) <;>
    simp only [Option.some.injEq] at st <;> subst st <;> simp_all [upd, UPc.inAfc]

/-! Non-vacuity: the run of `Props/C16.lean` up to the fork, the child, the five steps of the handler (two inherited
helpers disposed of), then idling. -/
def afcPrefix : List Label := preFork ++ [.forkChild 0, .afcUnlock 0, .afcCreate 0, .afcDispose 0, .afcDispose 0, .afcDone 0]

example : ∃ j, 32 ≤ j ∧ ((prefixState (step c2) init afcPrefix j).upc 0).inAfc = false := by
  have h1 : (prefixFinal (step c2) init afcPrefix).isSome = true := by decide
  obtain ⟨sf, hsf⟩ := Option.isSome_iff_exists.mp h1
  have h2 : (prefixFinal (step c2) init afcPrefix).map (fun s => s.upc 0) = some .idle := by decide
  rw [hsf] at h2
  simp only [Option.map_some, Option.some.injEq] at h2
  have hfin := prefixState_final (step c2) init afcPrefix sf hsf
  refine after_fork_child_eventually_returns c2 (ℓ := fun i => afcPrefix[i]?) (prefix_isRun _ _ _ sf hsf) Reach.init 0 ?_ 32
    (by decide)
  refine weakFair_of_final _ afcPrefix.length sf hfin ?_
  rintro ⟨l, hl, he⟩
  simp only [afcLabels, List.mem_cons, List.mem_nil_iff, or_false] at hl
  rcases hl with rfl | rfl | rfl | rfl | rfl | rfl <;> simp [step, h2] at he
example : (prefixState (step c2) init afcPrefix 36).upc 0 = .afcLoop [] ∧ (prefixState (step c2) init afcPrefix 37).upc 0 = .idle ∧
    (prefixState (step c2) init afcPrefix 37).list = [2] := by decide

end UrcuVerif.Fork
