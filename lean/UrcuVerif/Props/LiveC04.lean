import UrcuVerif.CallRcu.LiveBarrier
/-!
# C04 liveness — `rcu_barrier()` eventually returns

`Props/C04.lean` proves `barrier_no_lost_wakeup`, `outstanding_marker`, `marker_not_stuck`, `marker_measure` (no-stuck +
measure).  Here the temporal half on infinite runs with idle steps (`Machine/Fair.lean`).  Every fairness / environment
assumption is a hypothesis of the theorem; the C03 obligation ("a queued callback is eventually invoked", here for the
marker callbacks) is the hypothesis `hinvoked`.
-/
namespace UrcuVerif.CallRcu
open UrcuVerif UrcuVerif.Fair

theorem breach_along (c : Cfg) {ρ : Nat → BState} {ℓ : Nat → Option BLabel} (hrun : IsRun (bstep c) ρ ℓ)
    (hreach : BReach c (ρ 0)) (j : Nat) : BReach c (ρ j) :=
  inv_along hrun (BReach c) (fun _ _ _ h st => BReach.step h st) 0 hreach j (Nat.zero_le j)

/-- **barrier_eventually_returns** (any number of concurrent `rcu_barrier()` / `call_rcu()` callers, helpers, creators
and destroyers of helpers, every futex outcome, the marker's `futex := 0` delayed arbitrarily up to its `FUTEX_WAKE`,
any reachable start state).  For barrier `b` called by thread `t`, once the caller has queued its markers and released
`call_rcu_mutex` (`waitPhase`: it is in its wait loop), hypotheses about the run:
* `hcaller`: weak fairness for the caller's own steps in the wait loop (decrement, count test, futex load, `FUTEX_WAIT`
  entry, `urcu_ref_put`);
* `hmarker`: weak fairness for the steps of `_rcu_barrier_complete()` on every helper;
* `hinvoked` (= C03 liveness for the marker callbacks, `queued_callback_eventually_invoked`): every marker of `b` is
  eventually invoked by the helper it is queued on (or handed over to).
Then `rcu_barrier()` returns.  (With `barrier_complete`: at that point every callback queued at the call has run.) -/
theorem barrier_eventually_returns (c : Cfg) {ρ : Nat → BState} {ℓ : Nat → Option BLabel}
    (hrun : IsRun (bstep c) ρ ℓ) (hreach : BReach c (ρ 0)) (b t : Nat)
    (hcaller : WeakFair (bstep c) ρ ℓ (fun l => l ∈ callerLabels t))
    (hmarker : ∀ x, WeakFair (bstep c) ρ ℓ (fun l => l ∈ markerLabels x))
    (hinvoked : ∀ h' j, (ρ j).inited b = true → h' ∈ (ρ j).hs b →
      ∃ j', j ≤ j' ∧ ((ρ j').mdone b h' = true ∨ ∃ x, (ρ j').mrun x = some (b, h'))) :
    ∀ i, ((ρ i).bpc t).waitPhase b → ∃ j, i ≤ j ∧ (ρ j).returned b = true := by
  intro i hwp
  have hI : ∀ j, LInv c (ρ j) := fun j => linv_reach c (breach_along c hrun hreach j)
  apply Classical.byContradiction
  intro hno
  have hnr : ∀ j, i ≤ j → ¬ (ρ j).returned b = true := fun j hj h => hno ⟨j, hj, h⟩
  -- the caller stays in its wait loop
  have hW : ∀ j, i ≤ j → ((ρ j).bpc t).waitPhase b :=
    unless_along hrun (LInv c) _ (fun s => s.returned b = true) i (fun j _ => hI j)
      (fun s l s' I hp _ st => waitPhase_step c I.all.H t b hp st) hwp hnr
  have hinit : ∀ j, i ≤ j → (ρ j).inited b = true ∧ (ρ j).hs b = (ρ i).hs b :=
    stable_along hrun (LInv c) (fun s => s.inited b = true ∧ s.hs b = (ρ i).hs b) i (fun j _ => hI j)
      (fun s l s' I h st => by
        have := inited_frame c I.all.P b h.1 st
        exact ⟨this.1, by rw [this.2, h.2]⟩)
      ⟨waitPhase_inited c (hI i).all.P t b hwp, rfl⟩
  -- S1: every marker eventually decrements the count, for good
  have hS1 : ∀ h', h' ∈ (ρ i).hs b → ∃ j, i ≤ j ∧ ∀ j', j ≤ j' → (ρ j').mdone b h' = true := by
    intro h' hm
    have hstab : ∀ j, (ρ j).mdone b h' = true → ∀ j', j ≤ j' → (ρ j').mdone b h' = true := fun j hd =>
      stable_along hrun (fun _ => True) (fun s => s.mdone b h' = true) j (fun _ _ => trivial)
        (fun s l s' _ h st => mdone_stable c b h' h st) hd
    obtain ⟨j1, hj1, hor⟩ := hinvoked h' i (hinit i (Nat.le_refl i)).1 hm
    rcases hor with hd | ⟨x, hx⟩
    · exact ⟨j1, hj1, hstab j1 hd⟩
    · by_cases hd : (ρ j1).mdone b h' = true
      · exact ⟨j1, hj1, hstab j1 hd⟩
      · have hidle : (ρ j1).mpc x = .idle := ((hI j1).all.K.k_run x b h' hx).2.2.mpr (by simpa using hd)
        have lt : LeadsTo ρ (fun s => s.mrun x = some (b, h') ∧ s.mpc x = .idle) (fun s => s.mdone b h' = true) := by
          refine fair_measure_leadsTo hrun (fun l => l ∈ markerLabels x) (LInv c) _ _ (fun s => mRank (s.mpc x)) hI (hmarker x)
            ?_ ?_ ?_ ?_
          · intro s l s' I hp _ st
            by_cases hl : l ∈ markerLabels x
            · exact Or.inr (marker_sub c x b h' hp.1 hp.2 hl st)
            · have := marker_frame c I.all.H x (by rw [hp.1]; rfl) (by rw [hp.2]; decide) hl st
              exact Or.inl ⟨by rw [this.1]; exact hp.1, by rw [this.2]; exact hp.2⟩
          · intro s I hp _
            exact marker_not_stuck c s x b h' hp.1 (by rw [hp.2]; decide)
          · intro s l s' I hp _ hl st
            exact Or.inl (marker_measure c x hl st)
          · intro s l s' I hp _ hl st
            have := marker_frame c I.all.H x (by rw [hp.1]; rfl) (by rw [hp.2]; decide) hl st
            exact Or.inl (by rw [this.2]; exact Nat.le_refl _)
        obtain ⟨j2, hj2, hd2⟩ := lt j1 ⟨hx, hidle⟩
        exact ⟨j2, Nat.le_trans hj1 hj2, hstab j2 hd2⟩
  obtain ⟨j1, hj1, hall⟩ := eventually_all ρ (fun h' s => s.mdone b h' = true) ((ρ i).hs b) i hS1
  have hcnt : ∀ j, j1 ≤ j → (ρ j).cnt b = 0 := by
    intro j hj
    have h1 := hinit j (by omega)
    exact cnt_zero c (hI j).all.K b h1.1 (fun h' hm => hall j hj h' (by rw [← h1.2]; exact hm))
  -- S2: on the suffix from j1 the count is 0
  let ρ' : Nat → BState := fun k => ρ (j1 + k)
  let ℓ' : Nat → Option BLabel := fun k => ℓ (j1 + k)
  have hrun' : IsRun (bstep c) ρ' ℓ' := hrun.shift j1
  let Inv' : BState → Prop := fun s => LInv c s ∧ s.cnt b = 0
  have hinv' : ∀ k, Inv' (ρ' k) := fun k => ⟨hI (j1 + k), hcnt (j1 + k) (by omega)⟩
  have hnr' : ∀ k, ¬ (ρ' k).returned b = true := fun k => hnr (j1 + k) (by omega)
  have hW' : ∀ k, ((ρ' k).bpc t).waitPhase b := fun k => hW (j1 + k) (by omega)
  have hcaller' : WeakFair (bstep c) ρ' ℓ' (fun l => l ∈ callerLabels t) := hcaller.shift j1
  have hmarker' : ∀ x, WeakFair (bstep c) ρ' ℓ' (fun l => l ∈ markerLabels x) := fun x => (hmarker x).shift j1
  -- the caller in {dec, ldCnt, put} returns
  have L_dec : LeadsTo ρ' (fun s => (s.bpc t).decPhase b) (fun s => s.returned b = true) := by
    refine fair_measure_leadsTo hrun' (fun l => l ∈ callerLabels t) Inv' _ _ (fun s => decRank (s.bpc t)) hinv' hcaller'
      ?_ ?_ ?_ ?_
    · intro s l s' I hp _ st
      by_cases hl : l ∈ callerLabels t
      · rcases decPhase_own c t b hp I.2 hl st with h | h
        · exact Or.inr h
        · exact Or.inl h.1
      · exact Or.inl (by rw [decPhase_frame c t b hp hl st]; exact hp)
    · intro s I hp _
      exact decPhase_enabled c I.1 t b hp
    · intro s l s' I hp _ hl st
      rcases decPhase_own c t b hp I.2 hl st with h | h
      · exact Or.inr h
      · exact Or.inl h.2
    · intro s l s' I hp _ hl st
      exact Or.inl (by rw [decPhase_frame c t b hp hl st]; exact Nat.le_refl _)
  -- the caller at waitLd / waitFx with the futex reset goes to dec
  have L_wl : LeadsTo ρ' (fun s => (s.bpc t).wl b ∧ s.fut b = 0) (fun s => s.bpc t = .dec b) := by
    refine fair_measure_leadsTo hrun' (fun l => l ∈ callerLabels t) Inv' _ _ (fun s => wlRank (s.bpc t)) hinv' hcaller'
      ?_ ?_ ?_ ?_
    · intro s l s' I hp _ st
      rcases wl_step c I.1.all.H t b hp.1 hp.2 st with h | h
      · exact Or.inr h
      · exact Or.inl ⟨h.1, h.2.1⟩
    · intro s I hp _
      exact wl_enabled c t b hp.1 hp.2
    · intro s l s' I hp _ hl st
      rcases wl_step c I.1.all.H t b hp.1 hp.2 st with h | h
      · exact Or.inr h
      · have := h.2.2; rw [if_pos hl] at this; exact Or.inl this
    · intro s l s' I hp _ hl st
      rcases wl_step c I.1.all.H t b hp.1 hp.2 st with h | h
      · exact Or.inr h
      · have := h.2.2; rw [if_neg hl] at this; exact Or.inl this
  -- the sleeping caller with the futex reset is woken by the marker that reset it
  have L_B : ∀ x h', LeadsTo ρ' (fun s => s.mrun x = some (b, h') ∧ s.mpc x = .wake ∧ s.bpc t = .asleep b ∧ s.fut b = 0)
      (fun s => ((s.bpc t).wl b ∧ s.fut b = 0) ∨ s.bpc t = .dec b) := by
    intro x h'
    refine fair_measure_leadsTo hrun' (fun l => l ∈ markerLabels x) Inv' _ _ (fun s => mRank (s.mpc x)) hinv' (hmarker' x)
      ?_ ?_ ?_ ?_
    · intro s l s' I hp _ st
      obtain ⟨h1, h2, h3, h4⟩ := hp
      have hc : s.caller b = t := (I.1.all.H.bar_ok t b (by rw [h3]; rfl)).2
      by_cases hl : l ∈ markerLabels x
      · have := stageB_own c x b h' t h1 h2 hc h3 hl st
        exact Or.inr (Or.inl ⟨Or.inl this.1, by rw [this.2]; exact h4⟩)
      · have hf := marker_frame c I.1.all.H x (by rw [h1]; rfl) (by rw [h2]; decide) hl st
        have hcs := cluster_step c I.1.all.H t b (by rw [h3]; rfl) st
        have hf0 : s'.fut b = 0 := by rcases hcs.2 with h | h; rw [h, h4]; exact h
        rcases hcs.1 with hw | hd
        · cases hq : s'.bpc t <;> simp [hq, BPc.waiting] at hw
          · subst hw; exact Or.inr (Or.inl ⟨Or.inl rfl, hf0⟩)
          · subst hw; exact Or.inr (Or.inl ⟨Or.inr rfl, hf0⟩)
          · subst hw; exact Or.inl ⟨by rw [hf.1]; exact h1, by rw [hf.2]; exact h2, rfl, hf0⟩
        · exact Or.inr (Or.inr hd.1)
    · intro s I hp _
      exact marker_not_stuck c s x b h' hp.1 (by rw [hp.2.1]; decide)
    · intro s l s' I hp _ hl st
      exact Or.inl (marker_measure c x hl st)
    · intro s l s' I hp _ hl st
      have := marker_frame c I.1.all.H x (by rw [hp.1]; rfl) (by rw [hp.2.1]; decide) hl st
      exact Or.inl (by rw [this.2]; exact Nat.le_refl _)
  -- the marker that brought the count to 0 resets the futex
  have L_A : ∀ x h', LeadsTo ρ'
      (fun s => s.mrun x = some (b, h') ∧ (s.mpc x = .ldFut ∨ s.mpc x = .stFut) ∧ (s.bpc t).waiting = some b ∧ s.fut b = -1)
      (fun s => (s.bpc t).waiting = some b ∧ s.fut b = 0) := by
    intro x h'
    refine fair_measure_leadsTo hrun' (fun l => l ∈ markerLabels x) Inv' _ _ (fun s => mRank (s.mpc x)) hinv' (hmarker' x)
      ?_ ?_ ?_ ?_
    · intro s l s' I hp _ st
      obtain ⟨h1, h2, h3, h4⟩ := hp
      by_cases hl : l ∈ markerLabels x
      · obtain ⟨e1, e2, e3⟩ := stageA_own c x b h' h1 h2 h4 hl st
        rcases e3 with e3 | e3
        · exact Or.inl ⟨e2, e3.2, by rw [e1]; exact h3, e3.1⟩
        · exact Or.inr ⟨by rw [e1]; exact h3, e3⟩
      · have hf := marker_frame c I.1.all.H x (by rw [h1]; rfl) (by rcases h2 with h | h <;> rw [h] <;> decide) hl st
        have hcs := cluster_step c I.1.all.H t b h3 st
        have hw : (s'.bpc t).waiting = some b := by
          rcases hcs.1 with h | h
          · exact h
          · exact absurd h4 h.2
        rcases hcs.2 with h | h
        · exact Or.inl ⟨by rw [hf.1]; exact h1, by rw [hf.2]; exact h2, hw, by rw [h]; exact h4⟩
        · exact Or.inr ⟨hw, h⟩
    · intro s I hp _
      exact marker_not_stuck c s x b h' hp.1 (by rcases hp.2.1 with h | h <;> rw [h] <;> decide)
    · intro s l s' I hp _ hl st
      exact Or.inl (marker_measure c x hl st)
    · intro s l s' I hp _ hl st
      have := marker_frame c I.1.all.H x (by rw [hp.1]; rfl) (by rcases hp.2.1 with h | h <;> rw [h] <;> decide) hl st
      exact Or.inl (by rw [this.2]; exact Nat.le_refl _)
  -- assemble
  have fromDec : ∀ k, ((ρ' k).bpc t).decPhase b → False := fun k hp => by
    obtain ⟨k', -, hr⟩ := L_dec k hp
    exact hnr' k' hr
  have fromWl : ∀ k, ((ρ' k).bpc t).wl b → (ρ' k).fut b = 0 → False := fun k hp h0 => by
    obtain ⟨k', -, hd⟩ := L_wl k ⟨hp, h0⟩
    exact fromDec k' (Or.inl hd)
  have fromC0 : ∀ k, ((ρ' k).bpc t).waiting = some b → (ρ' k).fut b = 0 → False := fun k hw h0 => by
    cases hq : (ρ' k).bpc t <;> simp [hq, BPc.waiting] at hw
    · subst hw; exact fromWl k (by rw [hq]; exact Or.inl rfl) h0
    · subst hw; exact fromWl k (by rw [hq]; exact Or.inr rfl) h0
    · subst hw
      obtain ⟨x, h', e1, e2⟩ := (hinv' k).1.all.H.asleep_0 t _ hq h0
      obtain ⟨k', -, hg⟩ := L_B x h' k ⟨e1, e2, hq, h0⟩
      rcases hg with hg | hg
      · exact fromWl k' hg.1 hg.2
      · exact fromDec k' (Or.inl hg)
  rcases hW' 0 with hw | hd
  · rcases (hinv' 0).1.all.H.fut_range b with h0 | h1
    · exact fromC0 0 hw h0
    · rcases (hinv' 0).1.all.H.wait_m1 t b hw h1 with hc | ⟨x, h', e1, e2⟩
      · exact hc (hinv' 0).2
      · obtain ⟨k', -, hg⟩ := L_A x h' 0 ⟨e1, e2, hw, h1⟩
        exact fromC0 k' hg.1 hg.2
  · exact fromDec 0 hd

/-! Non-vacuity: the run of `Props/C04.lean` (one callback, one helper, one barrier: the caller sleeps at position
24, the marker wakes it at position 36, the barrier returns at position 42), then idling.  All hypotheses of
`barrier_eventually_returns` hold on it – fairness for EVERY helper id via the invariants. -/
def barPrefix : List BLabel := trB1 ++ trB2 ++ trB3 ++ trB4

example : ∃ j, 20 ≤ j ∧ (prefixState (bstep cfgB) binit barPrefix j).returned 0 = true := by
  have h1 : (prefixFinal (bstep cfgB) binit barPrefix).isSome = true := by decide
  obtain ⟨sf, hsf⟩ := Option.isSome_iff_exists.mp h1
  have h2 : (prefixFinal (bstep cfgB) binit barPrefix).map
      (fun s => (s.bpc 1, s.base.nextH, s.base.hpc 0, s.mdone 0 0)) = some (.idle, 1, .inv, true) := by decide
  rw [hsf] at h2
  simp only [Option.map_some, Option.some.injEq, Prod.mk.injEq] at h2
  have hfin := prefixState_final (bstep cfgB) binit barPrefix sf hsf
  have hrun := prefix_isRun (bstep cfgB) binit barPrefix sf hsf
  have hIf : LInv cfgB sf := by
    have := linv_reach cfgB (breach_along cfgB hrun BReach.init barPrefix.length)
    rwa [hfin _ (Nat.le_refl _)] at this
  have hnomark : ∀ x, sf.mrun x = none := by
    intro x
    refine (hIf.all.H.mpc_run x ?_).2
    by_cases hx : x < sf.base.nextH
    · rw [h2.2.1] at hx
      have : x = 0 := by omega
      subst this; rw [h2.2.2.1]; decide
    · obtain ⟨A, -, -, -, -⟩ := reach_d cfgB hIf.all.R
      rw [(A.fresh x (by omega)).1]; decide
  have hhs : ∀ j, j < barPrefix.length → ∀ h', h' ∈ (prefixState (bstep cfgB) binit barPrefix j).hs 0 → h' = 0 := by decide
  have hhsf : ∀ h', h' ∈ sf.hs 0 → h' = 0 := by
    have : (prefixFinal (bstep cfgB) binit barPrefix).map (fun s => s.hs 0) = some [0] := by decide
    rw [hsf] at this
    simp only [Option.map_some, Option.some.injEq] at this
    intro h' hm; rw [this] at hm; simpa using hm
  refine barrier_eventually_returns cfgB (ℓ := fun i => barPrefix[i]?) hrun BReach.init 0 1 ?_ ?_ ?_ 20
    (Or.inr (Or.inl (by decide)))
  · refine weakFair_of_final _ barPrefix.length sf hfin ?_
    rintro ⟨l, hl, he⟩
    simp only [callerLabels, List.mem_cons, List.mem_nil_iff, or_false] at hl
    rcases hl with rfl | rfl | rfl | rfl | rfl | rfl <;> simp [bstep, h2.1] at he
  · intro x
    refine weakFair_of_final _ barPrefix.length sf hfin ?_
    rintro ⟨l, hl, he⟩
    simp only [markerLabels, List.mem_cons, List.mem_nil_iff, or_false] at hl
    rcases hl with rfl | rfl | rfl | rfl | rfl <;> simp [bstep, hnomark x] at he
  · intro h' j _ hm
    refine ⟨j + barPrefix.length, by omega, Or.inl ?_⟩
    have h0 : h' = 0 := by
      by_cases hj : j < barPrefix.length
      · exact hhs j hj h' hm
      · exact hhsf h' (by rw [← hfin j (by omega)]; exact hm)
    subst h0
    show (prefixState (bstep cfgB) binit barPrefix (j + barPrefix.length)).mdone 0 0 = true
    rw [hfin _ (by omega)]; exact h2.2.2.2
example : (prefixState (bstep cfgB) binit barPrefix 24).bpc 1 = .asleep 0 ∧ (prefixState (bstep cfgB) binit barPrefix 41).returned 0 = false ∧
    (prefixState (bstep cfgB) binit barPrefix 42).returned 0 = true := by decide

end UrcuVerif.CallRcu
