import UrcuVerif.Wfs.Thms
import UrcuVerif.Lfs.Thms
import UrcuVerif.Lfs.Neg
/-!
# C11 — stacks are LIFO: push / pop / pop_all lose nothing, duplicate nothing

`cds_wfs` (`Wfs/Model.lean`), `cds_lfs` and the legacy `cds_lfs_rcu` (`Lfs/Model.lean`: same
algorithm) as explicit-pc transition systems on x86-TSO (per-thread FIFO store buffers, flush =
environment step, locked RMW needs an empty buffer), any number of threads, every interleaving,
nodes recycled.  Statements only; invariants and helper lemmas are in `Wfs/Inv*.lean`,
`Wfs/Thms.lean`, `Lfs/Inv*.lean`, `Lfs/Thms.lean`; the ABA witness in `Lfs/Neg.lean`.

Linearisation points: push = the successful `xchg` (wfs) / `cmpxchg` (lfs) on `head`; pop = the
successful `cmpxchg`, or the load of an empty head; pop_all = the `xchg`; empty = the load.
Each of them is a step of the operation itself, and it appends to the ghost history `hist` one
event carrying the result *computed from concrete memory*.

Schemes proved: wfs — internal mutex, single consumer; lfs / rculfstack — internal mutex,
single consumer, RCU-protected poppers with recycling only after a grace period (abstract
`GpSpec` grace period).  Not modelled: wfs poppers under RCU (`C11_full`).
-/
namespace UrcuVerif.C11
open Lifo

/-! ## wfstack -/

/-- **wfs_refines_lifo**: in every reachable state the sequence of linearisation events with the
results the implementation computed is a legal sequential LIFO history ending in the abstract
stack `abs`, and the concrete memory (head pointer, `next` fields, in-flight pushes with their
buffered stores) represents exactly `abs`; every step is a stutter or the sequential operation
of its event. -/
theorem wfs_refines_lifo (c : Wfs.Cfg) {s : Wfs.State} (h : Wfs.Reach c s) :
    Valid s.hist s.abs ∧ Wfs.Chain s s.head s.abs ∧
    ∀ l s', Wfs.step c s l = some s' →
      (s'.hist = s.hist ∧ s'.abs = s.abs) ∨
      ∃ e, s'.hist = e :: s.hist ∧ e.res = (apply s.abs e.op).2 ∧ s'.abs = (apply s.abs e.op).1 :=
  ⟨(Wfs.inv_reach c h).hist, (Wfs.inv_reach c h).chain, fun _ _ st => Wfs.step_refines c h st⟩

/-- **each_node_popped_once** (wfs): every push of a node is matched by exactly one hand-out
(pop or pop_all list) or the node is still in the stack, exactly once. -/
theorem wfs_each_node_popped_once (c : Wfs.Cfg) {s : Wfs.State} (h : Wfs.Reach c s) (n : Nat) :
    pushes n s.hist = outs n s.hist + s.abs.count n ∧ s.abs.count n ≤ 1 :=
  ⟨conservation (Wfs.inv_reach c h).hist n, List.nodup_iff_count.1 (Wfs.inv_reach c h).nodup n⟩

/-- **pop_all_returns_all_in_lifo_order_and_empties** (wfs) -/
theorem wfs_pop_all_returns_all_in_lifo_order_and_empties (c : Wfs.Cfg) {s s' : Wfs.State}
    (h : Wfs.Reach c s) (t : Nat) (st : Wfs.step c s (.popAll t) = some s') :
    s'.head = Wfs.END ∧ s'.abs = [] ∧ s'.priv t = s.abs ∧ s'.cur t = s.head ∧
    Wfs.Chain s' (s'.cur t) s.abs ∧
    s'.ret t = (if s.abs = [] then .null else .head s.head) :=
  Wfs.popAll_result c h t st

/-- … and iterating over the returned head (`cds_wfs_first` / `cds_wfs_next_*`) visits exactly
those nodes, in that order -/
theorem wfs_iteration_exact (c : Wfs.Cfg) {s s' : Wfs.State} (h : Wfs.Reach c s) (t : Nat) (b : Bool)
    (st : Wfs.step c s (.iterNext t b) = some s') (hadv : s'.cur t ≠ s.cur t) :
    ∃ r, s.priv t = s.cur t :: r ∧ s'.priv t = r ∧ Wfs.Chain s' (s'.cur t) r ∧
      s'.ret t = (if r = [] then .null else .node (s'.cur t) false) :=
  Wfs.iter_exact c h t b st hadv

/-- **push_ret_consistent** (wfs): the old head the `xchg` returns is `END` iff the abstract
stack was empty at that instant; `cds_wfs_push` returns `old_head != END`. -/
theorem wfs_push_ret_consistent (c : Wfs.Cfg) {s s1 : Wfs.State} (h : Wfs.Reach c s) (t n : Nat)
    (hp : s.pc t = .pushX n) (st : Wfs.step c s (.pushX t) = some s1) :
    s1.abs = n :: s.abs ∧ s1.pc t = .pushSt n s.head ∧ ((s.head != Wfs.END) = !s.abs.isEmpty) ∧
    ∀ s2 s3, s2.pc t = .pushSt n s.head → Wfs.step c s2 (.pushSt t) = some s3 →
      s3.ret t = .flag (!s.abs.isEmpty) := by
  obtain ⟨h1, h2, h3⟩ := Wfs.push_result c h t n hp st
  refine ⟨h1, h2, h3, ?_⟩
  intro s2 s3 hp2 st2
  rw [(Wfs.push_ret c t n s.head hp2 st2).1, h3]

/-- `cds_wfs_empty` and a NULL pop agree with the abstract stack -/
theorem wfs_empty_consistent (c : Wfs.Cfg) {s s' : Wfs.State} (h : Wfs.Reach c s) (t : Nat)
    (st : Wfs.step c s (.empty t) = some s') : s'.ret t = .flag s.abs.isEmpty ∧ s'.abs = s.abs :=
  Wfs.empty_result c h t st

theorem wfs_pop_null_iff_empty (c : Wfs.Cfg) {s s' : Wfs.State} (h : Wfs.Reach c s) (t : Nat) (b : Bool)
    (hp : s.pc t = .popLd b) (hh : s.head = Wfs.END) (st : Wfs.step c s (.popLd t) = some s') :
    s.abs = [] ∧ s'.ret t = .null ∧ s'.abs = [] :=
  Wfs.pop_null c h t b hp hh st

/-- **LAST_state_correct** (wfs): a successful pop returns the abstract top, and reports
`CDS_WFS_STATE_LAST` iff it emptied the stack -/
theorem wfs_LAST_state_correct (c : Wfs.Cfg) {s s' : Wfs.State} (h : Wfs.Reach c s) (t : Nat)
    (b : Bool) (h0 nx : Nat) (hp : s.pc t = .popCas b h0 nx) (hhd : s.head = h0)
    (st : Wfs.step c s (.popCas t) = some s') :
    s.abs = h0 :: s'.abs ∧ s'.ret t = .node h0 (nx == Wfs.END) ∧
    ((nx == Wfs.END) = true ↔ s'.abs = []) ∧ s'.head = nx :=
  Wfs.pop_result c h t b h0 nx hp hhd st

/-- **no_aba** (wfs; internal mutex and single consumer) -/
theorem wfs_no_aba (c : Wfs.Cfg) {s : Wfs.State} (h : Wfs.Reach c s) (t : Nat) (b : Bool) (h0 nx : Nat)
    (hp : s.pc t = .popCas b h0 nx) (hb : s.buf t = []) (hhd : s.head = h0) :
    ∃ l, s.abs = h0 :: l ∧ Wfs.Chain s nx l :=
  Wfs.no_aba c h t b h0 nx hp hb hhd

/-- **iteration_past_incomplete_push** (wfs): a NULL `next` is seen only while the push of that
node is in flight; blocking variants wait (stutter), non-blocking variants return WOULDBLOCK and
change nothing. -/
theorem wfs_iteration_past_incomplete_push (c : Wfs.Cfg) {s : Wfs.State} (h : Wfs.Reach c s) (t : Nat)
    (hp : s.pc t = .idle) (hcur : s.cur t ≠ Wfs.END) (hrd : Wfs.rd s t (s.cur t) = 0) :
    (∃ u b, Wfs.PendC s u (s.cur t) b) ∧
    Wfs.step c s (.iterNext t true) = some s ∧
    ∃ s', Wfs.step c s (.iterNext t false) = some s' ∧ s'.ret t = .wouldblock ∧
      s'.cur t = s.cur t ∧ s'.priv t = s.priv t ∧ s'.abs = s.abs :=
  Wfs.iter_incomplete c h t hp hcur hrd

theorem wfs_pop_past_incomplete_push (c : Wfs.Cfg) {s : Wfs.State} (h : Wfs.Reach c s) (t : Nat)
    (b : Bool) (h0 : Nat) (hp : s.pc t = .popSync b h0) (hrd : Wfs.rd s t h0 = 0) :
    (∃ u o, Wfs.PendC s u h0 o) ∧
    (b = true → Wfs.step c s (.popSync t) = some s) ∧
    (b = false → ∃ s', Wfs.step c s (.popSync t) = some s' ∧ s'.ret t = .wouldblock ∧ s'.pc t = .idle ∧
      s'.abs = s.abs ∧ s'.head = s.head) :=
  Wfs.pop_incomplete c h t b h0 hp hrd

/-! ## lfstack / rculfstack -/

/-- **lfs_refines_lifo** (mutex, single consumer, RCU) -/
theorem lfs_refines_lifo (c : Lfs.Cfg) (wf : c.WF) {s : Lfs.State} (h : Lfs.Reach c s) :
    Valid s.hist s.abs ∧ Lfs.Chain s s.head s.abs ∧
    ∀ l s', Lfs.step c s l = some s' →
      (s'.hist = s.hist ∧ s'.abs = s.abs) ∨
      ∃ e, s'.hist = e :: s.hist ∧ e.res = (apply s.abs e.op).2 ∧ s'.abs = (apply s.abs e.op).1 :=
  ⟨(Lfs.inv_reach c wf h).hist, (Lfs.inv_reach c wf h).chain, fun _ _ st => Lfs.step_refines c wf h st⟩

theorem lfs_each_node_popped_once (c : Lfs.Cfg) (wf : c.WF) {s : Lfs.State} (h : Lfs.Reach c s) (n : Nat) :
    pushes n s.hist = outs n s.hist + s.abs.count n ∧ s.abs.count n ≤ 1 :=
  ⟨conservation (Lfs.inv_reach c wf h).hist n,
   List.nodup_iff_count.1 (Lfs.inv_reach c wf h).nodup n⟩

theorem lfs_pop_all_returns_all_in_lifo_order_and_empties (c : Lfs.Cfg) (wf : c.WF) {s s' : Lfs.State}
    (h : Lfs.Reach c s) (t : Nat) (st : Lfs.step c s (.popAll t) = some s') :
    s'.head = 0 ∧ s'.abs = [] ∧ s'.priv t = s.abs ∧ s'.cur t = s.head ∧
    Lfs.Chain s' (s'.cur t) s.abs ∧
    s'.ret t = (if s.abs = [] then .null else .head s.head) :=
  Lfs.popAll_result c wf h t st

theorem lfs_iteration_exact (c : Lfs.Cfg) (wf : c.WF) {s s' : Lfs.State} (h : Lfs.Reach c s) (t : Nat)
    (st : Lfs.step c s (.iterNext t) = some s') :
    ∃ r, s.priv t = s.cur t :: r ∧ s'.priv t = r ∧ Lfs.Chain s' (s'.cur t) r ∧
      s'.ret t = (if r = [] then .null else .node (s'.cur t)) :=
  Lfs.iter_exact c wf h t st

/-- **push_ret_consistent** (lfs): the successful cmpxchg replaced `old_head`; the function
returns `old_head != NULL` = "the abstract stack was non-empty" -/
theorem lfs_push_ret_consistent (c : Lfs.Cfg) (wf : c.WF) {s s' : Lfs.State} (h : Lfs.Reach c s)
    (t n h0 : Nat) (hp : s.pc t = .pushCas n h0) (hhd : s.head = h0)
    (st : Lfs.step c s (.pushCas t) = some s') :
    s'.abs = n :: s.abs ∧ s'.ret t = .flag (!s.abs.isEmpty) ∧ s'.pc t = .idle :=
  Lfs.push_result c wf h t n h0 hp hhd st

theorem lfs_empty_consistent (c : Lfs.Cfg) (wf : c.WF) {s s' : Lfs.State} (h : Lfs.Reach c s) (t : Nat)
    (st : Lfs.step c s (.empty t) = some s') : s'.ret t = .flag s.abs.isEmpty ∧ s'.abs = s.abs :=
  Lfs.empty_result c wf h t st

theorem lfs_pop_null_iff_empty (c : Lfs.Cfg) (wf : c.WF) {s s' : Lfs.State} (h : Lfs.Reach c s) (t : Nat)
    (hp : s.pc t = .popLd) (hh : s.head = 0) (st : Lfs.step c s (.popLd t) = some s') :
    s.abs = [] ∧ s'.ret t = .null ∧ s'.abs = [] :=
  Lfs.pop_null c wf h t hp hh st

theorem lfs_pop_returns_top (c : Lfs.Cfg) (wf : c.WF) {s s' : Lfs.State} (h : Lfs.Reach c s)
    (t h0 nx : Nat) (hp : s.pc t = .popCas h0 nx) (hhd : s.head = h0)
    (st : Lfs.step c s (.popCas t) = some s') :
    s.abs = h0 :: s'.abs ∧ s'.ret t = .node h0 ∧ s'.head = nx ∧ (nx = 0 ↔ s'.abs = []) :=
  Lfs.pop_result c wf h t h0 nx hp hhd st

/-- **no_aba** (lfs / rculfstack) under each documented scheme: internal mutex, single consumer,
and RCU (poppers in read-side sections, a node is re-pushed or freed only after a grace period
since it was popped): whenever a popper's cmpxchg finds `head` equal to the node it loaded, the
`next` value it read is still that node's successor. -/
theorem lfs_no_aba (c : Lfs.Cfg) (wf : c.WF) {s : Lfs.State} (h : Lfs.Reach c s) (t h0 nx : Nat)
    (hp : s.pc t = .popCas h0 nx) (hhd : s.head = h0) :
    ∃ l, s.abs = h0 :: l ∧ Lfs.Chain s nx l :=
  Lfs.no_aba c wf h t h0 nx hp hhd

/-- the mechanism under RCU: a node a popper holds is never recycled under it -/
theorem lfs_rcu_node_not_recycled (c : Lfs.Cfg) (wf : c.WF) {s : Lfs.State} (h : Lfs.Reach c s)
    (t h0 nx : Nat) (hp : s.pc t = .popCas h0 nx ∨ s.pc t = .popLdN h0) :
    s.nst h0 ≠ .free ∧ (∀ u, s.nst h0 ≠ .own u) ∧ (c.scheme = .rcu → s.cs t ≠ 0) :=
  Lfs.rcu_protects c wf h t h0 nx hp

/-- TSO: the only buffered store is the private `node->next` initialisation, drained by the
publishing cmpxchg -/
theorem lfs_tso_private_init (c : Lfs.Cfg) (wf : c.WF) {s : Lfs.State} (h : Lfs.Reach c s) (t : Nat) :
    s.buf t = [] ∨ ∃ n h0, s.pc t = .pushCas n h0 ∧ s.buf t = [(n, h0)] ∧ s.nst n = .own t :=
  Lfs.buffer_private c wf h t

/-- **Neg**: without any of the schemes (concurrent unprotected pops + immediate recycling) the
algorithm is broken: explicit ABA run ending with the head on an already handed-out node. -/
theorem lfs_unprotected_aba_witness :
    (Lfs.run Lfs.Neg.cfgU Lfs.init Lfs.Neg.witness).map (fun s => (s.head, s.abs, s.nst 2, s.ret 1)) =
      some (2, [], .free, .node 1) ∧ ¬ Lfs.Neg.cfgU.WF :=
  ⟨Lfs.Neg.unprotected_pop_aba, Lfs.Neg.cfgU_not_wf⟩

/-! ## full statement -/

/-- the wfstack refinement for a scheme (what `wfs_refines_lifo` proves for mutex / single) -/
def WfsRefines (reach : Wfs.State → Prop) : Prop :=
  ∀ s, reach s → Valid s.hist s.abs ∧ Wfs.Chain s s.head s.abs

def LfsRefines (reach : Lfs.State → Prop) : Prop :=
  ∀ s, reach s → Valid s.hist s.abs ∧ Lfs.Chain s s.head s.abs

/-- **C11_full**: everything above *plus* the wfstack with poppers under RCU read-side sections
and node reuse after a grace period (`include/urcu/static/wfstack.h`, synchronisation
technique 1), for a model `wfsRcuReach` of that scheme, *plus* the composition with the real
grace-period implementation instead of the abstract `GpSpec` steps (C01).  Unproved part: no
`Wfs` model of the RCU scheme was built (`wfsRcuReach` is a parameter); the layer composition
is by interface (DESIGN §3 item 6). -/
def C11_full (wfsRcuReach : Wfs.State → Prop) : Prop :=
  (∀ c, WfsRefines (Wfs.Reach c)) ∧
  (∀ c : Lfs.Cfg, c.WF → LfsRefines (Lfs.Reach c)) ∧
  WfsRefines wfsRcuReach

/-- what is proved of `C11_full` -/
theorem C11_partial :
    (∀ c, WfsRefines (Wfs.Reach c)) ∧ (∀ c : Lfs.Cfg, c.WF → LfsRefines (Lfs.Reach c)) :=
  ⟨fun c _ h => ⟨(wfs_refines_lifo c h).1, (wfs_refines_lifo c h).2.1⟩,
   fun c wf _ h => ⟨(lfs_refines_lifo c wf h).1, (lfs_refines_lifo c wf h).2.1⟩⟩

/-! ## non-vacuity: concrete reachable runs (executable `step`, checked by `decide`) -/

def wfsMutex : Wfs.Cfg := { scheme := .mutex }
def wfsSingle : Wfs.Cfg := { scheme := .single, consumer := 0 }

/-- nodes 2 and 3 (END = 1); thread 1 pushes 2 completely, thread 2 pushes 3 but is parked
between its xchg and its store; thread 0 (consumer) pops: sees NULL next of node 3
(non-blocking: WOULDBLOCK), then the store is flushed and the pop returns 3 (not LAST), then 2
(LAST), then NULL. -/
def wfsDemo : List Wfs.Label :=
  [.pushBegin 1 2, .flush 1, .pushX 1, .pushSt 1, .flush 1,
   .pushBegin 2 3, .flush 2, .pushX 2,
   .popBegin 0 false, .popLd 0, .popSync 0,          -- WOULDBLOCK
   .pushSt 2, .flush 2,
   .popBegin 0 true, .popLd 0, .popSync 0, .popCas 0,
   .popBegin 0 true, .popLd 0, .popSync 0, .popCas 0,
   .popBegin 0 true, .popLd 0]

example : (Wfs.run wfsSingle Wfs.init (wfsDemo.take 11)).map (fun s => (s.ret 0, s.abs, s.pc 2)) =
    some (.wouldblock, [3, 2], .pushSt 3 2) := by decide
example : (Wfs.run wfsSingle Wfs.init (wfsDemo.take 17)).map (fun s => (s.ret 0, s.abs, s.ret 2)) =
    some (.node 3 false, [2], .flag true) := by decide
example : (Wfs.run wfsSingle Wfs.init (wfsDemo.take 21)).map (fun s => (s.ret 0, s.abs, s.head)) =
    some (.node 2 true, [], 1) := by decide
example : (Wfs.run wfsSingle Wfs.init wfsDemo).map (fun s => (s.ret 0, s.hist.length)) =
    some (.null, 5) := by decide
/-- the hypotheses of `wfs_no_aba` / `wfs_LAST_state_correct` are met in the run above -/
example : (Wfs.run wfsSingle Wfs.init (wfsDemo.take 16)).map
    (fun s => (s.pc 0, s.buf 0, s.head)) = some (.popCas true 3 2, [], 3) := by decide

/-- mutex scheme; pop_all with a push in flight, then iteration: WOULDBLOCK at node 3, then 3, 2 -/
def wfsDemo2 : List Wfs.Label :=
  [.pushBegin 1 2, .flush 1, .pushX 1, .pushSt 1, .flush 1,
   .pushBegin 2 3, .flush 2, .pushX 2,
   .lock 0, .popAll 0, .unlock 0,
   .iterNext 0 false,                               -- WOULDBLOCK: push of 3 incomplete
   .pushSt 2, .flush 2,
   .iterNext 0 false, .iterNext 0 true]

example : (Wfs.run wfsMutex Wfs.init (wfsDemo2.take 12)).map
    (fun s => (s.ret 0, s.priv 0, s.cur 0, s.abs, s.head)) = some (.wouldblock, [3, 2], 3, [], 1) := by decide
example : (Wfs.run wfsMutex Wfs.init wfsDemo2).map
    (fun s => (s.ret 0, s.priv 0, s.cur 0, s.nst 3, s.nst 2)) = some (.null, [], 1, .free, .free) := by decide
/-- without the lock a second thread cannot pop -/
example : Wfs.run wfsMutex Wfs.init [.popBegin 0 true] = none := by decide

def lfsRcu : Lfs.Cfg := { scheme := .rcu }

/-- lfs, RCU scheme: two pushes (second with one failed cmpxchg), pop inside a section, the node
is retired, recycled only after a grace period that waits for the section -/
def lfsDemo : List Lfs.Label :=
  [.pushBegin 1 5, .pushSt 1, .flush 1, .pushCas 1,
   .pushBegin 2 6, .pushSt 2, .flush 2, .pushCas 2, .pushSt 2, .flush 2, .pushCas 2,
   .rlock 3, .popBegin 3, .popLd 3, .popLdN 3, .popCas 3,
   .gpStart]

example : (Lfs.run lfsRcu Lfs.init lfsDemo).map (fun s => (s.ret 3, s.abs, s.nst 6, s.ret 2, s.ret 1)) =
    some (.node 6, [5], .retired 2, .flag true, .flag false) := by decide
example : Lfs.run lfsRcu Lfs.init (lfsDemo ++ [.gpEnd]) = none := by decide
example : (Lfs.run lfsRcu Lfs.init (lfsDemo ++ [.runlock 3, .gpEnd, .reclaim 6, .pushBegin 1 6])).map
    (fun s => s.nst 6) = some (.own 1) := by decide
example : (Lfs.run lfsRcu Lfs.init (lfsDemo.take 15)).map (fun s => (s.pc 3, s.head)) =
    some (.popCas 6 5, 6) := by decide

end UrcuVerif.C11
