import UrcuVerif.Wfs.Thms
import UrcuVerif.Lfs.Thms
import UrcuVerif.Lfs.Neg
import UrcuVerif.Wfs.Neg
/-!
# C11 — stacks are LIFO: push / pop / pop_all lose nothing, duplicate nothing

`cds_wfs` (`Wfs/Model.lean`), `cds_lfs` and the legacy `cds_lfs_rcu` (`Lfs/Model.lean`: same
algorithm) as explicit-pc transition systems on x86-TSO (per-thread FIFO store buffers, flush =
environment step, locked RMW needs an empty buffer), any number of threads, every interleaving,
nodes recycled.  Statements only; invariants and helper lemmas are in `Wfs/Inv*.lean`,
`Wfs/Thms.lean`, `Lfs/Inv*.lean`, `Lfs/Thms.lean`; the ABA witnesses in `Wfs/Neg.lean`, `Lfs/Neg.lean`.

Linearisation points: push = the successful `xchg` (wfs) / `cmpxchg` (lfs) on `head`; pop = the
successful `cmpxchg`, or the load of an empty head; pop_all = the `xchg`; empty = the load.
Each of them is a step of the operation itself, and it appends to the ghost history `hist` one
event carrying the result *computed from concrete memory*.

Schemes proved, for both stacks (`Cfg.WF` = the three synchronisation techniques the headers
document): internal mutex, single consumer, and RCU-protected poppers – any number of concurrent
`__cds_wfs_pop_*` / `__cds_lfs_pop` callers inside read-side sections, no mutex, a handed-out node
recycled (freed / re-initialised / re-pushed) only after a grace period that started after the
hand-out (abstract `GpSpec` grace period: `gpStart`, `gpEnd` guarded by "every section begun
before the start has ended").  The composition with the real grace-period implementation is by
interface (DESIGN §3 item 6; C01 proves the guard for `synchronize_rcu()`).
-/
namespace UrcuVerif.C11
open Lifo

/-! ## wfstack -/

/-- **wfs_refines_lifo** (internal mutex, single consumer, RCU-protected concurrent poppers): in
every reachable state the sequence of linearisation events with the
results the implementation computed is a legal sequential LIFO history ending in the abstract
stack `abs`, and the concrete memory (head pointer, `next` fields, in-flight pushes with their
buffered stores) represents exactly `abs`; every step is a stutter or the sequential operation
of its event. -/
theorem wfs_refines_lifo (c : Wfs.Cfg) (wf : c.WF) {s : Wfs.State} (h : Wfs.Reach c s) :
    Valid s.hist s.abs ∧ Wfs.Chain s s.head s.abs ∧
    ∀ l s', Wfs.step c s l = some s' →
      (s'.hist = s.hist ∧ s'.abs = s.abs) ∨
      ∃ e, s'.hist = e :: s.hist ∧ e.res = (apply s.abs e.op).2 ∧ s'.abs = (apply s.abs e.op).1 :=
  ⟨(Wfs.inv_reach c wf h).hist, (Wfs.inv_reach c wf h).chain, fun _ _ st => Wfs.step_refines c wf h st⟩

/-- **each_node_popped_once** (wfs): every push of a node is matched by exactly one hand-out
(pop or pop_all list) or the node is still in the stack, exactly once. -/
theorem wfs_each_node_popped_once (c : Wfs.Cfg) (wf : c.WF) {s : Wfs.State} (h : Wfs.Reach c s) (n : Nat) :
    pushes n s.hist = outs n s.hist + s.abs.count n ∧ s.abs.count n ≤ 1 :=
  ⟨conservation (Wfs.inv_reach c wf h).hist n, List.nodup_iff_count.1 (Wfs.inv_reach c wf h).nodup n⟩

/-- **pop_all_returns_all_in_lifo_order_and_empties** (wfs) -/
theorem wfs_pop_all_returns_all_in_lifo_order_and_empties (c : Wfs.Cfg) (wf : c.WF) {s s' : Wfs.State}
    (h : Wfs.Reach c s) (t : Nat) (st : Wfs.step c s (.popAll t) = some s') :
    s'.head = Wfs.END ∧ s'.abs = [] ∧ s'.priv t = s.abs ∧ s'.cur t = s.head ∧
    Wfs.Chain s' (s'.cur t) s.abs ∧
    s'.ret t = (if s.abs = [] then .null else .head s.head) :=
  Wfs.popAll_result c wf h t st

/-- … and iterating over the returned head (`cds_wfs_first` / `cds_wfs_next_*`) visits exactly
those nodes, in that order -/
theorem wfs_iteration_exact (c : Wfs.Cfg) (wf : c.WF) {s s' : Wfs.State} (h : Wfs.Reach c s) (t : Nat) (b : Bool)
    (st : Wfs.step c s (.iterNext t b) = some s') (hadv : s'.cur t ≠ s.cur t) :
    ∃ r, s.priv t = s.cur t :: r ∧ s'.priv t = r ∧ Wfs.Chain s' (s'.cur t) r ∧
      s'.ret t = (if r = [] then .null else .node (s'.cur t) false) :=
  Wfs.iter_exact c wf h t b st hadv

/-- **push_ret_consistent** (wfs): the old head the `xchg` returns is `END` iff the abstract
stack was empty at that instant; `cds_wfs_push` returns `old_head != END`. -/
theorem wfs_push_ret_consistent (c : Wfs.Cfg) (wf : c.WF) {s s1 : Wfs.State} (h : Wfs.Reach c s) (t n : Nat)
    (hp : s.pc t = .pushX n) (st : Wfs.step c s (.pushX t) = some s1) :
    s1.abs = n :: s.abs ∧ s1.pc t = .pushSt n s.head ∧ ((s.head != Wfs.END) = !s.abs.isEmpty) ∧
    ∀ s2 s3, s2.pc t = .pushSt n s.head → Wfs.step c s2 (.pushSt t) = some s3 →
      s3.ret t = .flag (!s.abs.isEmpty) := by
  obtain ⟨h1, h2, h3⟩ := Wfs.push_result c wf h t n hp st
  refine ⟨h1, h2, h3, ?_⟩
  intro s2 s3 hp2 st2
  rw [(Wfs.push_ret c t n s.head hp2 st2).1, h3]

/-- `cds_wfs_empty` and a NULL pop agree with the abstract stack -/
theorem wfs_empty_consistent (c : Wfs.Cfg) (wf : c.WF) {s s' : Wfs.State} (h : Wfs.Reach c s) (t : Nat)
    (st : Wfs.step c s (.empty t) = some s') : s'.ret t = .flag s.abs.isEmpty ∧ s'.abs = s.abs :=
  Wfs.empty_result c wf h t st

theorem wfs_pop_null_iff_empty (c : Wfs.Cfg) (wf : c.WF) {s s' : Wfs.State} (h : Wfs.Reach c s) (t : Nat) (b : Bool)
    (hp : s.pc t = .popLd b) (hh : s.head = Wfs.END) (st : Wfs.step c s (.popLd t) = some s') :
    s.abs = [] ∧ s'.ret t = .null ∧ s'.abs = [] :=
  Wfs.pop_null c wf h t b hp hh st

/-- **LAST_state_correct** (wfs): a successful pop returns the abstract top, and reports
`CDS_WFS_STATE_LAST` iff it emptied the stack -/
theorem wfs_LAST_state_correct (c : Wfs.Cfg) (wf : c.WF) {s s' : Wfs.State} (h : Wfs.Reach c s) (t : Nat)
    (b : Bool) (h0 nx : Nat) (hp : s.pc t = .popCas b h0 nx) (hhd : s.head = h0)
    (st : Wfs.step c s (.popCas t) = some s') :
    s.abs = h0 :: s'.abs ∧ s'.ret t = .node h0 (nx == Wfs.END) ∧
    ((nx == Wfs.END) = true ↔ s'.abs = []) ∧ s'.head = nx :=
  Wfs.pop_result c wf h t b h0 nx hp hhd st

/-- **no_aba** (wfs) under each documented scheme: internal mutex, single consumer, and RCU
(technique 1 of `urcu/wfstack.h`: concurrent `__cds_wfs_pop_*` callers in read-side sections,
handed-out nodes recycled only after a grace period): whenever a popper's
`cmpxchg(&head, old_head, next)` finds `head` equal to the node it loaded, the `next` value it
read from that node is still the node's successor – the node was not popped-and-re-pushed in
between. -/
theorem wfs_no_aba (c : Wfs.Cfg) (wf : c.WF) {s : Wfs.State} (h : Wfs.Reach c s) (t : Nat) (b : Bool) (h0 nx : Nat)
    (hp : s.pc t = .popCas b h0 nx) (hb : s.buf t = []) (hhd : s.head = h0) :
    ∃ l, s.abs = h0 :: l ∧ Wfs.Chain s nx l :=
  Wfs.no_aba c wf h t b h0 nx hp hb hhd

/-- **iteration_past_incomplete_push** (wfs): a NULL `next` is seen only while the push of that
node is in flight; blocking variants wait (stutter), non-blocking variants return WOULDBLOCK and
change nothing. -/
theorem wfs_iteration_past_incomplete_push (c : Wfs.Cfg) (wf : c.WF) {s : Wfs.State} (h : Wfs.Reach c s) (t : Nat)
    (hp : s.pc t = .idle) (hcur : s.cur t ≠ Wfs.END) (hrd : Wfs.rd s t (s.cur t) = 0) :
    (∃ u b, Wfs.PendC s u (s.cur t) b) ∧
    Wfs.step c s (.iterNext t true) = some s ∧
    ∃ s', Wfs.step c s (.iterNext t false) = some s' ∧ s'.ret t = .wouldblock ∧
      s'.cur t = s.cur t ∧ s'.priv t = s.priv t ∧ s'.abs = s.abs :=
  Wfs.iter_incomplete c wf h t hp hcur hrd

theorem wfs_pop_past_incomplete_push (c : Wfs.Cfg) (wf : c.WF) {s : Wfs.State} (h : Wfs.Reach c s) (t : Nat)
    (b : Bool) (h0 : Nat) (hp : s.pc t = .popSync b h0) (hrd : Wfs.rd s t h0 = 0) :
    (∃ u o, Wfs.PendC s u h0 o) ∧
    (b = true → Wfs.step c s (.popSync t) = some s) ∧
    (b = false → ∃ s', Wfs.step c s (.popSync t) = some s' ∧ s'.ret t = .wouldblock ∧ s'.pc t = .idle ∧
      s'.abs = s.abs ∧ s'.head = s.head) :=
  Wfs.pop_incomplete c wf h t b h0 hp hrd

/-- the mechanism under RCU (wfs): a node a popper holds is never recycled under it – it is not
free and not being re-pushed, the popper is inside a read-side section, and if the node was handed
out meanwhile (to a concurrent popper / pop_all iterator) that happened after the section began -/
theorem wfs_rcu_node_not_recycled (c : Wfs.Cfg) (wf : c.WF) {s : Wfs.State} (h : Wfs.Reach c s)
    (t : Nat) (b : Bool) (h0 nx : Nat) (hp : s.pc t = .popCas b h0 nx ∨ s.pc t = .popSync b h0) :
    s.nst h0 ≠ .free ∧ (∀ u, s.nst h0 ≠ .own u) ∧ (c.scheme = .rcu → s.cs t ≠ 0) ∧
    (∀ τ, s.nst h0 = .retired τ → s.cs t < τ) :=
  Wfs.rcu_protects c wf h t b h0 nx hp

/-- **recycling only after a grace period** (wfs, RCU): a successful pop retires the node with the
current time stamp; a retired node can be neither reclaimed nor re-pushed while any read-side
section that began before the hand-out is still open; and a grace period (`gpEnd`) completes
only when every open section – of any thread – began after the grace period started. -/
theorem wfs_rcu_recycle_after_gp (c : Wfs.Cfg) (wf : c.WF) {s : Wfs.State} (h : Wfs.Reach c s) :
    (∀ t b h0 nx s', s.pc t = .popCas b h0 nx → s.head = h0 → Wfs.step c s (.popCas t) = some s' →
      s'.nst h0 = (if c.scheme = .rcu then .retired s.clock else .free) ∧ s.clock < s'.clock) ∧
    (∀ t n τ, s.cs t ≠ 0 → s.nst n = .retired τ → s.cs t < τ →
      Wfs.step c s (.reclaim n) = none ∧ ∀ u, Wfs.step c s (.pushBegin u n) = none) ∧
    (∀ s', Wfs.step c s .gpEnd = some s' →
      ∃ a, s.gpCur = some a ∧ s'.gpDone = max s.gpDone a ∧ ∀ t, s.cs t ≠ 0 → a ≤ s.cs t) :=
  ⟨fun t b h0 nx _ hp hhd st => Wfs.pop_release c t b h0 nx hp hhd st,
   fun t n τ h1 h2 h3 => Wfs.no_recycle_in_section c wf h t n τ h1 h2 h3,
   fun _ st => Wfs.gp_end_spec c wf h st⟩

/-- **Neg** (wfs): without any of the schemes (two concurrent unprotected poppers + immediate
re-push) the algorithm is broken: explicit ABA run after which the head points to an already
handed-out node, `head = END ↔ abs = []` fails, and the next pop delivers node 3 a second time
(one push, two hand-outs). -/
theorem wfs_unprotected_aba_witness :
    (Wfs.run Wfs.Neg.cfgU Wfs.init Wfs.Neg.witness).map (fun s => (s.head, s.abs, s.nst 3, s.ret 1)) =
      some (3, [], .free, .node 2 false) ∧
    (Wfs.run Wfs.Neg.cfgU Wfs.init
      (Wfs.Neg.witness ++ [.popBegin 1 true, .popLd 1, .popSync 1, .popCas 1])).map
      (fun s => (s.ret 1, pushes 3 s.hist, outs 3 s.hist)) = some (.node 3 true, 1, 2) ∧
    ¬ Wfs.Neg.cfgU.WF :=
  ⟨Wfs.Neg.unprotected_pop_aba, Wfs.Neg.node_delivered_twice, Wfs.Neg.cfgU_not_wf⟩

/-! ## lfstack / rculfstack -/

/-- **lfs_refines_lifo** (mutex, single consumer, RCU) -/
theorem lfs_refines_lifo (c : Lfs.Cfg) (wf : c.WF) {s : Lfs.State} (h : Lfs.Reach c s) :
    Valid s.hist s.abs ∧ Lfs.Chain s s.head s.abs ∧
    ∀ l s', Lfs.step c s l = some s' →
      (s'.hist = s.hist ∧ s'.abs = s.abs) ∨
      ∃ e, s'.hist = e :: s.hist ∧ e.res = (apply s.abs e.op).2 ∧ s'.abs = (apply s.abs e.op).1 :=
  ⟨(Lfs.inv_reach c wf h).hist, (Lfs.inv_reach c wf h).chain, fun _ _ st => Lfs.step_refines c wf h st⟩

theorem lfs_each_node_popped_once (c : Lfs.Cfg) (wf : c.WF) {s : Lfs.State} (h : Lfs.Reach c s) (n : Nat) :
    pushes n s.hist = outs n s.hist + s.abs.count n ∧ s.abs.count n ≤ 1 :=
  ⟨conservation (Lfs.inv_reach c wf h).hist n,
   List.nodup_iff_count.1 (Lfs.inv_reach c wf h).nodup n⟩

theorem lfs_pop_all_returns_all_in_lifo_order_and_empties (c : Lfs.Cfg) (wf : c.WF) {s s' : Lfs.State}
    (h : Lfs.Reach c s) (t : Nat) (st : Lfs.step c s (.popAll t) = some s') :
    s'.head = 0 ∧ s'.abs = [] ∧ s'.priv t = s.abs ∧ s'.cur t = s.head ∧
    Lfs.Chain s' (s'.cur t) s.abs ∧
    s'.ret t = (if s.abs = [] then .null else .head s.head) :=
  Lfs.popAll_result c wf h t st

theorem lfs_iteration_exact (c : Lfs.Cfg) (wf : c.WF) {s s' : Lfs.State} (h : Lfs.Reach c s) (t : Nat)
    (st : Lfs.step c s (.iterNext t) = some s') :
    ∃ r, s.priv t = s.cur t :: r ∧ s'.priv t = r ∧ Lfs.Chain s' (s'.cur t) r ∧
      s'.ret t = (if r = [] then .null else .node (s'.cur t)) :=
  Lfs.iter_exact c wf h t st

/-- **push_ret_consistent** (lfs): the successful cmpxchg replaced `old_head`; the function
returns `old_head != NULL` = "the abstract stack was non-empty" -/
theorem lfs_push_ret_consistent (c : Lfs.Cfg) (wf : c.WF) {s s' : Lfs.State} (h : Lfs.Reach c s)
    (t n h0 : Nat) (hp : s.pc t = .pushCas n h0) (hhd : s.head = h0)
    (st : Lfs.step c s (.pushCas t) = some s') :
    s'.abs = n :: s.abs ∧ s'.ret t = .flag (!s.abs.isEmpty) ∧ s'.pc t = .idle :=
  Lfs.push_result c wf h t n h0 hp hhd st

theorem lfs_empty_consistent (c : Lfs.Cfg) (wf : c.WF) {s s' : Lfs.State} (h : Lfs.Reach c s) (t : Nat)
    (st : Lfs.step c s (.empty t) = some s') : s'.ret t = .flag s.abs.isEmpty ∧ s'.abs = s.abs :=
  Lfs.empty_result c wf h t st

theorem lfs_pop_null_iff_empty (c : Lfs.Cfg) (wf : c.WF) {s s' : Lfs.State} (h : Lfs.Reach c s) (t : Nat)
    (hp : s.pc t = .popLd) (hh : s.head = 0) (st : Lfs.step c s (.popLd t) = some s') :
    s.abs = [] ∧ s'.ret t = .null ∧ s'.abs = [] :=
  Lfs.pop_null c wf h t hp hh st

theorem lfs_pop_returns_top (c : Lfs.Cfg) (wf : c.WF) {s s' : Lfs.State} (h : Lfs.Reach c s)
    (t h0 nx : Nat) (hp : s.pc t = .popCas h0 nx) (hhd : s.head = h0)
    (st : Lfs.step c s (.popCas t) = some s') :
    s.abs = h0 :: s'.abs ∧ s'.ret t = .node h0 ∧ s'.head = nx ∧ (nx = 0 ↔ s'.abs = []) :=
  Lfs.pop_result c wf h t h0 nx hp hhd st

/-- **no_aba** (lfs / rculfstack) under each documented scheme: internal mutex, single consumer,
and RCU (poppers in read-side sections, a node is re-pushed or freed only after a grace period
since it was popped): whenever a popper's cmpxchg finds `head` equal to the node it loaded, the
`next` value it read is still that node's successor. -/
theorem lfs_no_aba (c : Lfs.Cfg) (wf : c.WF) {s : Lfs.State} (h : Lfs.Reach c s) (t h0 nx : Nat)
    (hp : s.pc t = .popCas h0 nx) (hhd : s.head = h0) :
    ∃ l, s.abs = h0 :: l ∧ Lfs.Chain s nx l :=
  Lfs.no_aba c wf h t h0 nx hp hhd

/-- the mechanism under RCU: a node a popper holds is never recycled under it -/
theorem lfs_rcu_node_not_recycled (c : Lfs.Cfg) (wf : c.WF) {s : Lfs.State} (h : Lfs.Reach c s)
    (t h0 nx : Nat) (hp : s.pc t = .popCas h0 nx ∨ s.pc t = .popLdN h0) :
    s.nst h0 ≠ .free ∧ (∀ u, s.nst h0 ≠ .own u) ∧ (c.scheme = .rcu → s.cs t ≠ 0) :=
  Lfs.rcu_protects c wf h t h0 nx hp

/-- TSO: the only buffered store is the private `node->next` initialisation, drained by the
publishing cmpxchg -/
theorem lfs_tso_private_init (c : Lfs.Cfg) (wf : c.WF) {s : Lfs.State} (h : Lfs.Reach c s) (t : Nat) :
    s.buf t = [] ∨ ∃ n h0, s.pc t = .pushCas n h0 ∧ s.buf t = [(n, h0)] ∧ s.nst n = .own t :=
  Lfs.buffer_private c wf h t

/-- **Neg**: without any of the schemes (concurrent unprotected pops + immediate recycling) the
algorithm is broken: explicit ABA run ending with the head on an already handed-out node. -/
theorem lfs_unprotected_aba_witness :
    (Lfs.run Lfs.Neg.cfgU Lfs.init Lfs.Neg.witness).map (fun s => (s.head, s.abs, s.nst 2, s.ret 1)) =
      some (2, [], .free, .node 1) ∧ ¬ Lfs.Neg.cfgU.WF :=
  ⟨Lfs.Neg.unprotected_pop_aba, Lfs.Neg.cfgU_not_wf⟩

/-! ## full statement -/

/-- the wfstack refinement for a configuration: legal sequential LIFO history with the results
computed from memory, memory represents the abstract stack, no duplicates, every step is a
stutter or the sequential operation of its linearisation event, and no ABA at the pop cmpxchg -/
def WfsRefines (c : Wfs.Cfg) : Prop :=
  ∀ s, Wfs.Reach c s →
    Valid s.hist s.abs ∧ Wfs.Chain s s.head s.abs ∧ s.abs.Nodup ∧
    (∀ l s', Wfs.step c s l = some s' →
      (s'.hist = s.hist ∧ s'.abs = s.abs) ∨
      ∃ e, s'.hist = e :: s.hist ∧ e.res = (apply s.abs e.op).2 ∧ s'.abs = (apply s.abs e.op).1) ∧
    (∀ t b h0 nx, s.pc t = .popCas b h0 nx → s.buf t = [] → s.head = h0 →
      ∃ l, s.abs = h0 :: l ∧ Wfs.Chain s nx l)

def LfsRefines (c : Lfs.Cfg) : Prop :=
  ∀ s, Lfs.Reach c s →
    Valid s.hist s.abs ∧ Lfs.Chain s s.head s.abs ∧ s.abs.Nodup ∧
    (∀ l s', Lfs.step c s l = some s' →
      (s'.hist = s.hist ∧ s'.abs = s.abs) ∨
      ∃ e, s'.hist = e :: s.hist ∧ e.res = (apply s.abs e.op).2 ∧ s'.abs = (apply s.abs e.op).1) ∧
    (∀ t h0 nx, s.pc t = .popCas h0 nx → s.head = h0 → ∃ l, s.abs = h0 :: l ∧ Lfs.Chain s nx l)

/-- **C11_full**: both stacks refine the sequential LIFO under **every** documented
synchronisation scheme – internal mutex, single consumer, and poppers under RCU protection with
node reuse only after a grace period (`Cfg.WF` excludes only the `unprotected` pseudo-scheme of
the necessity witnesses) – for any number of threads and every interleaving with TSO delays; in
particular the wfstack with concurrent `__cds_wfs_pop_*` callers inside read-side sections
(`include/urcu/static/wfstack.h`, synchronisation technique 1), which is free of ABA.
(The grace period is the abstract `GpSpec`; its composition with the real implementation is by
interface, DESIGN §3 item 6.) -/
def C11_full : Prop :=
  (∀ c : Wfs.Cfg, c.WF → WfsRefines c) ∧ (∀ c : Lfs.Cfg, c.WF → LfsRefines c)

theorem C11_full_holds : C11_full :=
  ⟨fun c wf _ h => ⟨(wfs_refines_lifo c wf h).1, (wfs_refines_lifo c wf h).2.1,
      (Wfs.inv_reach c wf h).nodup, (wfs_refines_lifo c wf h).2.2,
      fun t b h0 nx hp hb hhd => wfs_no_aba c wf h t b h0 nx hp hb hhd⟩,
   fun c wf _ h => ⟨(lfs_refines_lifo c wf h).1, (lfs_refines_lifo c wf h).2.1,
      (Lfs.inv_reach c wf h).nodup, (lfs_refines_lifo c wf h).2.2,
      fun t h0 nx hp hhd => lfs_no_aba c wf h t h0 nx hp hhd⟩⟩

/-- the RCU configuration of the wfstack is one of them -/
example : ({ scheme := .rcu } : Wfs.Cfg).WF := by simp [Wfs.Cfg.WF]

/-! ## non-vacuity: concrete reachable runs (executable `step`, checked by `decide`) -/

def wfsMutex : Wfs.Cfg := { scheme := .mutex }
def wfsSingle : Wfs.Cfg := { scheme := .single, consumer := 0 }

/-- nodes 2 and 3 (END = 1); thread 1 pushes 2 completely, thread 2 pushes 3 but is parked
between its xchg and its store; thread 0 (consumer) pops: sees NULL next of node 3
(non-blocking: WOULDBLOCK), then the store is flushed and the pop returns 3 (not LAST), then 2
(LAST), then NULL. -/
def wfsDemo : List Wfs.Label :=
  [.pushBegin 1 2, .flush 1, .pushX 1, .pushSt 1, .flush 1,
   .pushBegin 2 3, .flush 2, .pushX 2,
   .popBegin 0 false, .popLd 0, .popSync 0,          -- WOULDBLOCK
   .pushSt 2, .flush 2,
   .popBegin 0 true, .popLd 0, .popSync 0, .popCas 0,
   .popBegin 0 true, .popLd 0, .popSync 0, .popCas 0,
   .popBegin 0 true, .popLd 0]

example : (Wfs.run wfsSingle Wfs.init (wfsDemo.take 11)).map (fun s => (s.ret 0, s.abs, s.pc 2)) =
    some (.wouldblock, [3, 2], .pushSt 3 2) := by decide
example : (Wfs.run wfsSingle Wfs.init (wfsDemo.take 17)).map (fun s => (s.ret 0, s.abs, s.ret 2)) =
    some (.node 3 false, [2], .flag true) := by decide
example : (Wfs.run wfsSingle Wfs.init (wfsDemo.take 21)).map (fun s => (s.ret 0, s.abs, s.head)) =
    some (.node 2 true, [], 1) := by decide
example : (Wfs.run wfsSingle Wfs.init wfsDemo).map (fun s => (s.ret 0, s.hist.length)) =
    some (.null, 5) := by decide
/-- the hypotheses of `wfs_no_aba` / `wfs_LAST_state_correct` are met in the run above -/
example : (Wfs.run wfsSingle Wfs.init (wfsDemo.take 16)).map
    (fun s => (s.pc 0, s.buf 0, s.head)) = some (.popCas true 3 2, [], 3) := by decide

/-- mutex scheme; pop_all with a push in flight, then iteration: WOULDBLOCK at node 3, then 3, 2 -/
def wfsDemo2 : List Wfs.Label :=
  [.pushBegin 1 2, .flush 1, .pushX 1, .pushSt 1, .flush 1,
   .pushBegin 2 3, .flush 2, .pushX 2,
   .lock 0, .popAll 0, .unlock 0,
   .iterNext 0 false,                               -- WOULDBLOCK: push of 3 incomplete
   .pushSt 2, .flush 2,
   .iterNext 0 false, .iterNext 0 true]

example : (Wfs.run wfsMutex Wfs.init (wfsDemo2.take 12)).map
    (fun s => (s.ret 0, s.priv 0, s.cur 0, s.abs, s.head)) = some (.wouldblock, [3, 2], 3, [], 1) := by decide
example : (Wfs.run wfsMutex Wfs.init wfsDemo2).map
    (fun s => (s.ret 0, s.priv 0, s.cur 0, s.nst 3, s.nst 2)) = some (.null, [], 1, .free, .free) := by decide
/-- without the lock a second thread cannot pop -/
example : Wfs.run wfsMutex Wfs.init [.popBegin 0 true] = none := by decide

def wfsRcu : Wfs.Cfg := { scheme := .rcu }

/-- wfs, RCU scheme, two concurrent poppers, no mutex (END = 1; nodes 2, 3, 4): the stack is
[4, 3, 2]; poppers 5 and 6 both load head = 4 and next = 3 inside their sections; 5's cmpxchg
succeeds (node 4, retired at time 3), 6's cmpxchg fails (head is 3 now) and its retry pops 3;
node 4 cannot be recycled while the grace period is blocked by 6's section; after 6 leaves, the
grace period ends, 4 is reclaimed and pushed again. -/
def wfsRcuDemo : List Wfs.Label :=
  [.pushBegin 1 2, .flush 1, .pushX 1, .pushSt 1, .flush 1,
   .pushBegin 1 3, .flush 1, .pushX 1, .pushSt 1, .flush 1,
   .pushBegin 1 4, .flush 1, .pushX 1, .pushSt 1, .flush 1,
   .rlock 5, .rlock 6,
   .popBegin 5 true, .popLd 5, .popSync 5,
   .popBegin 6 true, .popLd 6, .popSync 6,
   .popCas 5,                                        -- T5 pops 4
   .runlock 5, .gpStart]

/-- hypotheses of `wfs_no_aba` met by a popper under RCU with a concurrent popper at the same pc -/
example : (Wfs.run wfsRcu Wfs.init (wfsRcuDemo.take 23)).map
    (fun s => (s.pc 5, s.buf 5, s.head, s.abs)) = some (.popCas true 4 3, [], 4, [4, 3, 2]) := by decide
example : (Wfs.run wfsRcu Wfs.init (wfsRcuDemo.take 23)).map
    (fun s => (s.pc 6, s.buf 6, s.cs 5, s.cs 6, s.lock)) = some (.popCas true 4 3, [], 1, 2, none) := by decide
example : (Wfs.run wfsRcu Wfs.init wfsRcuDemo).map
    (fun s => (s.ret 5, s.abs, s.nst 4, s.cs 6, s.gpCur)) =
    some (.node 4 false, [3, 2], .retired 3, 2, some 4) := by decide
/-- the grace period cannot end, the node cannot be reclaimed / re-pushed under popper 6 -/
example : Wfs.run wfsRcu Wfs.init (wfsRcuDemo ++ [.gpEnd]) = none := by decide
example : Wfs.run wfsRcu Wfs.init (wfsRcuDemo ++ [.reclaim 4]) = none := by decide
example : Wfs.run wfsRcu Wfs.init (wfsRcuDemo ++ [.pushBegin 1 4]) = none := by decide
/-- popper 6's cmpxchg fails (pop-vs-pop), the retry returns 3 -/
example : (Wfs.run wfsRcu Wfs.init (wfsRcuDemo ++ [.popCas 6, .popLd 6, .popSync 6, .popCas 6])).map
    (fun s => (s.ret 6, s.abs, s.nst 3)) = some (.node 3 false, [2], .retired 5) := by decide
/-- after popper 6 has left its section: grace period over, node 4 recycled and pushed again;
pop_all (no section needed) + iteration hand out [4, 2] -/
example : (Wfs.run wfsRcu Wfs.init (wfsRcuDemo ++ [.popCas 6, .popLd 6, .popSync 6, .popCas 6, .runlock 6,
    .gpEnd, .reclaim 4, .pushBegin 1 4, .flush 1, .pushX 1, .pushSt 1, .flush 1, .popAll 7,
    .iterNext 7 false])).map
    (fun s => (s.priv 7, s.nst 4, s.nst 2, s.ret 7, s.gpDone)) =
    some ([2], .retired 6, .limbo 7, .node 2 false, 4) := by decide
/-- outside a section a thread cannot pop in the RCU scheme -/
example : Wfs.run wfsRcu Wfs.init [.popBegin 0 true] = none := by decide

def lfsRcu : Lfs.Cfg := { scheme := .rcu }

/-- lfs, RCU scheme: two pushes (second with one failed cmpxchg), pop inside a section, the node
is retired, recycled only after a grace period that waits for the section -/
def lfsDemo : List Lfs.Label :=
  [.pushBegin 1 5, .pushSt 1, .flush 1, .pushCas 1,
   .pushBegin 2 6, .pushSt 2, .flush 2, .pushCas 2, .pushSt 2, .flush 2, .pushCas 2,
   .rlock 3, .popBegin 3, .popLd 3, .popLdN 3, .popCas 3,
   .gpStart]

example : (Lfs.run lfsRcu Lfs.init lfsDemo).map (fun s => (s.ret 3, s.abs, s.nst 6, s.ret 2, s.ret 1)) =
    some (.node 6, [5], .retired 2, .flag true, .flag false) := by decide
example : Lfs.run lfsRcu Lfs.init (lfsDemo ++ [.gpEnd]) = none := by decide
example : (Lfs.run lfsRcu Lfs.init (lfsDemo ++ [.runlock 3, .gpEnd, .reclaim 6, .pushBegin 1 6])).map
    (fun s => s.nst 6) = some (.own 1) := by decide
example : (Lfs.run lfsRcu Lfs.init (lfsDemo.take 15)).map (fun s => (s.pc 3, s.head)) =
    some (.popCas 6 5, 6) := by decide

end UrcuVerif.C11
