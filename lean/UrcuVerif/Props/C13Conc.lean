import UrcuVerif.Defer.ConcThms
import UrcuVerif.Defer.ConcWakeInv
/-!
# C13, concurrent part — owner / runner interleaving at single-access granularity on x86-TSO and
the defer thread's futex handshake

Statements only.  Models: `Defer/ConcModel.lean` (`DeferConc`: any number of owners, each with a ring,
a FIFO store buffer and free-running `head`/`tail`; runners serialised by `rcu_defer_mutex`; grace
period = `GpSpec`; any number of readers) and `Defer/ConcWake.lean` (`DeferWake`: `wait_defer` vs
`wake_up_defer`).  Invariants and step lemmas: `Defer/Conc{Inv,StepO,StepR,Thms,WakeInv}.lean`.
Tie: `harness/scen/defer_conc.c` runs the real `src/urcu.c` + `src/urcu-defer-impl.h` under the
cooperative runtime; `Driver/DeferConc.lean` transliterates the C functions event by event and
replays the labels of both models on their executable `step`.

Every theorem is about ALL reachable states: any number of owners and readers, any interleaving,
any delay of the store-buffer commits, any sequence of `(fct, arg)` words (the three entry shapes of
the encoding), any number of wraps of the ring.
-/
namespace UrcuVerif.DeferConc
open UrcuVerif
open UrcuVerif.Defer (enc1 dec1 isFct clrFct setFct fctMark Call Invk)

/-- the three ways an iteration of the decoding loop can be about to load: index below the snapshot -/
theorem ld_below_snap {c : Cfg} {s s' : State} (I : Inv c s) (st : step c s .rLd = some s') :
    s.cur ∈ s.todo ∧ s.tail s.cur ≤ s.ri ∧ s.ri < s.snap s.cur := by
  have hiter : s.rpc = .iter := by
    simp only [step] at st; split at st
    · rename_i hg; exact hg.2
    · simp at st
  have hcur : s.cur ∈ s.todo := by
    have := I.r.iterHead hiter
    cases hto : s.todo with
    | nil => simp [hto] at this
    | cons a l => simp [hto] at this; simp [this]
  have hsl := I.r.snapLe s.cur hcur
  have htc := I.o.tailCons s.cur
  refine ⟨hcur, ?_⟩
  have bd : ∀ he : s.est s.cur (s.cons s.cur) = true, s.cons s.cur < s.snap s.cur →
      s.cons s.cur + (s.ent s.cur (s.cons s.cur)).ws.length ≤ s.snap s.cur :=
    fun he hlt => I.r.snapBd s.cur hcur _ he (Nat.le_refl _) hlt
  have hws := fun he => I.e.eWs s.cur (s.cons s.cur) he (Nat.le_refl _)
  simp only [step] at st
  split at st
  · split at st
    · rename_i heq
      have := I.r.itTop hiter heq
      split at st
      · rename_i hne; omega
      · simp at st
    · rename_i w0 heq
      obtain ⟨k1, hlt, hri, hw0, hor⟩ := I.r.itOne w0 hiter heq
      have hb := bd k1 hlt
      have sh := enc1_shape (s.loAt s.cur (s.cons s.cur)) (s.ent s.cur (s.cons s.cur)).fct (s.ent s.cur (s.cons s.cur)).arg
      rw [← hws k1, ← hw0] at sh
      by_cases hf : isFct w0 = true
      · have := (sh.2.1 hf).1; omega
      · have hf' : isFct w0 = false := by simpa using hf
        rcases hor with h | h
        · simp [h] at hf'
        · have := (sh.2.2 hf' h).1; omega
    · rename_i w0 w1 heq
      obtain ⟨k1, hlt, hri, hw0, hw1, hwf, hwm⟩ := I.r.itTwo w0 w1 hiter heq
      have hb := bd k1 hlt
      have sh := enc1_shape (s.loAt s.cur (s.cons s.cur)) (s.ent s.cur (s.cons s.cur)).fct (s.ent s.cur (s.cons s.cur)).arg
      rw [← hws k1, ← hw0] at sh
      have := (sh.2.2 hwf hwm).1; omega
    · simp at st
  · simp at st

/-- **tso_publication** (x86-TSO, all interleavings and buffer delays).  (1) Every index from
`tail` up to the `head` value that has reached memory holds, in memory, the word its owner issued
for it – the `q[]` stores precede the `head` store in the owner's FIFO buffer; (2) a runner's
snapshot of `head` is a value that has reached memory; (3) every single load of the decoding loop
(`rLd`) reads an index in `[tail, snapshot)` and therefore the owner's word for that index: a
runner never reads a slot whose store has not reached memory. -/
theorem tso_publication {c : Cfg} (hc : c.WF) {s : State} (h : Reach c s) :
    (∀ t j, s.tail t ≤ j → j < s.mhead t → rget c (s.mq t) j = s.wat t j) ∧
    (∀ t, t ∈ s.todo → s.snap t ≤ s.mhead t) ∧
    (∀ s', step c s .rLd = some s' →
      s.tail s.cur ≤ s.ri ∧ s.ri < s.snap s.cur ∧ rget c (s.mq s.cur) s.ri = s.wat s.cur s.ri) := by
  have I := inv_reach c hc h
  have m : ∀ t j, s.tail t ≤ j → j < s.mhead t → rget c (s.mq t) j = s.wat t j := by
    intro t j h1 h2
    have := I.o.ordB t
    exact I.o.mem t j h1 (by omega)
  refine ⟨m, fun t ht => (I.r.snapLe t ht).1, fun s' st => ?_⟩
  obtain ⟨hcur, h1, h2⟩ := ld_below_snap I st
  have := (I.r.snapLe _ hcur).1
  exact ⟨h1, h2, m _ _ h1 (by omega)⟩

/-- **no_overwrite_unread**.  Every `q[]` store of an owner – from the moment it is issued until it
leaves the store buffer – goes to an index `i` with `head ≤ i < tail + SIZE` (`tail` as in memory,
i.e. as any runner sees it; the owner tested an older, smaller value against the `SIZE − 2` rule).
Hence its slot `i mod SIZE` differs from the slot of every index in `[tail, head)`, in particular
from every slot a runner has still to read or has read but not yet released; and the occupancy
never exceeds the ring. -/
theorem no_overwrite_unread {c : Cfg} (hc : c.WF) {s : State} (h : Reach c s) (t : Nat) :
    (∀ (k i : Nat) (w : BitVec 64), (s.bq t)[k]? = some (i, w) →
      s.mhead t ≤ i ∧ i < s.tail t + c.size ∧
      ∀ j, s.tail t ≤ j → j < s.mhead t → j % c.size ≠ i % c.size) ∧
    s.otl t ≤ s.tail t ∧ s.wlen t ≤ s.tail t + c.size := by
  have I := inv_reach c hc h
  have a1 := I.o.ordB t; have a2 := I.o.room t; have a3 := I.o.otlLe t
  refine ⟨fun k i w hk => ?_, a3, by omega⟩
  obtain ⟨b1, _⟩ := I.o.bqIdx t k i w hk
  have hk' : k < (s.bq t).length := by
    rcases Nat.lt_or_ge k (s.bq t).length with h | h
    · exact h
    · simp [List.getElem?_eq_none h] at hk
  refine ⟨by omega, by omega, fun j h1 h2 e => ?_⟩
  exact Defer.mod_ne_of_lt (s := c.size) (i := i) (j := j) (by omega) (by omega) e.symm

/-- **conc_exactly_once_in_order**.  In every reachable state, for every owner, the invocation log
is a prefix of the log of queued calls: same `(fct, arg)` pairs, same order, each at most once,
nothing else ever invoked; and no assertion of the C code has fired. -/
theorem conc_exactly_once_in_order {c : Cfg} (hc : c.WF) {s : State} (h : Reach c s) (t : Nat) :
    (s.invoked t).map Invk.pair = ((s.queued t).take (s.invoked t).length).map Call.pair ∧
    (s.invoked t).length ≤ (s.queued t).length ∧ s.abort = false := by
  have I := inv_reach c hc h
  exact ⟨I.e.order t, inv_len_le I.e t, I.o.noAbort⟩

/-- … and an invocation step invokes exactly the next queued call of the queue being run -/
theorem invoke_is_next {c : Cfg} (hc : c.WF) {s s' : State} (h : Reach c s) (st : step c s .rInvoke = some s') :
    ∃ cl, (s.queued s.cur)[(s.invoked s.cur).length]? = some cl ∧
      s'.invoked s.cur = s.invoked s.cur ++ [⟨cl.fct, cl.arg, s.clock⟩] ∧
      (∀ t, t ≠ s.cur → s'.invoked t = s.invoked t) ∧
      cl.time < s.gpStart ∧ s.gpStart < s.clock ∧ ∀ i b, s.cs i = some b → cl.time < b := by
  have I := inv_reach c hc h
  simp only [step] at st
  split at st
  · rename_i hg
    split at st
    · rename_i f p hrit
      obtain ⟨k1, hlt, hri, hf, hp⟩ := I.r.itReady f p hg.2 hrit
      have hcur : s.cur ∈ s.todo := by
        have := I.r.iterHead hg.2
        cases hto : s.todo with
        | nil => simp [hto] at this
        | cons a l => simp [hto] at this; simp [this]
      have hq := I.e.eQ s.cur _ k1 (Nat.le_refl _)
      rw [I.e.seqCons] at hq
      have ht := I.g.gpT (Or.inr (Or.inr hg.2)) s.cur hcur _ k1 (Nat.le_refl _) hlt
      have hclk := I.g.gpClk (Or.inr (Or.inr hg.2))
      have hcs := I.g.gpCs (Or.inr hg.2)
      simp only [Option.some.injEq] at st; subst st
      refine ⟨_, hq, by simp [tick, upd, hf, hp], fun t ht' => by simp [tick, upd, ht'], ht, hclk, fun i b hb => ?_⟩
      exact Nat.lt_of_lt_of_le ht (hcs i b hb)
    · simp at st
  · simp at st

/-- **conc_runs_after_gp**.  Whenever a step invokes a call, the holder of the mutex has called
`synchronize_rcu()` at `gpStart`, later than the call was queued, that grace period has completed,
and every read-side section still open began after `gpStart`: every section that had begun before
the `defer_rcu()` call has ended. -/
theorem conc_runs_after_gp {c : Cfg} (hc : c.WF) {s s' : State} (h : Reach c s) (st : step c s .rInvoke = some s') :
    ∃ cl, (s.queued s.cur)[(s.invoked s.cur).length]? = some cl ∧ cl.time < s.gpStart ∧ s.gpStart < s.clock ∧
      ∀ i b, s.cs i = some b → cl.time < b := by
  obtain ⟨cl, a, _, _, b, d, e⟩ := invoke_is_next hc h st
  exact ⟨cl, a, b, d, e⟩

/-- the grace period of the model is `GpSpec`: `synchronize_rcu()` returns only when every section
that began before it was called has ended -/
theorem gp_is_GpSpec {c : Cfg} {s s' : State} (st : step c s .rGp = some s') :
    s.rpc = .gpwait ∧ s'.rpc = .run ∧ ∀ i, i < c.nr → ∀ b, s.cs i = some b → s.gpStart ≤ b := by
  simp only [step] at st
  split at st
  · rename_i hg
    simp only [Option.some.injEq] at st; subst st
    exact ⟨hg.2.1, rfl, hg.2.2⟩
  · simp at st

/-- the own flush of `_defer_rcu` leaves the owner's queue empty (the assertion after it holds) and
the queue never exceeds the ring -/
theorem flush_leaves_empty {c : Cfg} (hc : c.WF) {s : State} (h : Reach c s) (t : Nat) :
    (s.opc t = .flushed → s.tail t = s.head t) ∧ s.head t - s.tail t ≤ c.size := by
  have I := inv_reach c hc h
  have := I.o.room t; have := I.o.otlLe t; have := I.o.ord3 t
  exact ⟨I.o.flushedEmpty t, by omega⟩

/-- the compiled configuration (queue size regenerated from the source on every run) satisfies the
side conditions of all theorems above, for any number of readers -/
theorem real_cfg_wf (nr : Nat) : (Cfg.real nr).WF :=
  ⟨(by decide : 4 ≤ Gen.DEFER_QUEUE_SIZE), rfl⟩

/-! ### non-vacuity: concrete runs on a 4-slot ring (threshold `SIZE − 2 = 2`) -/

def c4 : Cfg := { size := 4, nr := 1 }
def mark : BitVec 64 := 0xfffffffffffffffe#64
example : c4.WF := ⟨by decide, rfl⟩

/-- one call (two words), its stores committed late: the runner's snapshot taken while the `head`
store is still buffered sees nothing; after the commit a reader holds up the grace period; then
the call is decoded by two loads and invoked, the tail published -/
example : (run c4 (init c4)
    [.oCall 0 16#64 32#64, .oStQ 0, .oStQ 0, .oStHead 0,
     .rLock 1 .barrier, .rSnap 0, .rSkip,                      -- head store still buffered: nothing to do
     .flushQ 0, .flushQ 0, .flushH 0, .oMb 0,
     .rdLock 0, .rLock 1 .barrier, .rSnap 0, .rGpCall, .rdUnlock 0, .rGp, .rBegin, .rLd, .rLd, .rInvoke, .rEnd,
     .flushT, .rUnlock]).map
    (fun s => ((s.invoked 0).map Invk.pair, s.tail 0, s.mhead 0, s.lock)) = some ([(16#64, 32#64)], 2, 2, none) := by
  decide +kernel

/-- the grace period cannot complete while a section that began before it is open -/
example : (run c4 (init c4)
    [.oCall 0 16#64 32#64, .oStQ 0, .oStQ 0, .oStHead 0, .flushQ 0, .flushQ 0, .flushH 0, .oMb 0,
     .rdLock 0, .rLock 1 .barrier, .rSnap 0, .rGpCall, .rGp]).isNone = true := by decide +kernel

/-- the `head` store cannot be committed before the `q[]` stores (FIFO), and `mb` waits for both -/
example : (run c4 (init c4) [.oCall 0 16#64 32#64, .oStQ 0, .oStQ 0, .oStHead 0, .flushH 0]).isNone = true := by decide +kernel
example : (run c4 (init c4) [.oCall 0 16#64 32#64, .oStQ 0, .oStQ 0, .oStHead 0, .flushQ 0, .oMb 0]).isNone = true := by decide +kernel

/-- the `SIZE − 2` rule with a STALE tail: two one-word... the owner's second call finds
`head − tail ≥ 2`, flushes its own queue (grace period, two loads, invocation), passes the assertion
and then stores a 3-slot entry across the ring wrap (indices 2, 3, 4 ↦ slots 2, 3, 0) -/
example : (run c4 (init c4)
    [.oCall 0 16#64 32#64, .oStQ 0, .oStQ 0, .oStHead 0, .flushQ 0, .flushQ 0, .flushH 0, .oMb 0,
     .oCall 0 mark 7#64,                                        -- full
     .rLock 0 .own, .rGpCall, .rGp, .rBegin, .rLd, .rLd, .rInvoke, .rEnd, .flushT, .rUnlock,
     .oPostFlush 0, .oStQ 0, .oStQ 0, .oStQ 0, .oStHead 0, .flushQ 0, .flushQ 0, .flushQ 0, .flushH 0, .oMb 0,
     .rLock 1 .barrier, .rSnap 0, .rGpCall, .rGp, .rBegin, .rLd, .rLd, .rLd, .rInvoke, .rEnd, .flushT, .rUnlock]).map
    (fun s => ((s.invoked 0).map Invk.pair, s.tail 0, s.mhead 0, (s.mq 0).toList, s.abort)) =
    some ([(16#64, 32#64), (mark, 7#64)], 5, 5, [7#64, 32#64, mark, mark], false) := by
  decide +kernel

/-- the hypotheses of `conc_runs_after_gp` / `tso_publication (3)` are satisfiable: a reachable
state with an enabled invocation, resp. an enabled load -/
example : ∃ s s', Reach c4 s ∧ step c4 s .rInvoke = some s' := by
  have hs : (run c4 (init c4)
      [.oCall 0 16#64 32#64, .oStQ 0, .oStQ 0, .oStHead 0, .flushQ 0, .flushQ 0, .flushH 0, .oMb 0,
       .rLock 1 .barrier, .rSnap 0, .rGpCall, .rGp, .rBegin, .rLd, .rLd]).isSome = true := by decide +kernel
  obtain ⟨s, hs⟩ := Option.isSome_iff_exists.1 hs
  have h2 : ((run c4 (init c4)
      [.oCall 0 16#64 32#64, .oStQ 0, .oStQ 0, .oStHead 0, .flushQ 0, .flushQ 0, .flushH 0, .oMb 0,
       .rLock 1 .barrier, .rSnap 0, .rGpCall, .rGp, .rBegin, .rLd, .rLd]).bind fun s => step c4 s .rInvoke).isSome = true := by
    decide +kernel
  rw [hs] at h2
  obtain ⟨s', hs'⟩ := Option.isSome_iff_exists.1 h2
  exact ⟨s, s', reach_run c4 _ Reach.init hs, hs'⟩

end UrcuVerif.DeferConc

namespace UrcuVerif.DeferWake
open UrcuVerif

/-- `defer_thread_futex ∈ {0, -1}`; the defer thread decrements it only from 0 -/
theorem defer_futex_range (c : Cfg) (hc : c.WF) {s : State} (h : Reach c s) :
    (s.futex = 0 ∨ s.futex = -1) ∧ (s.dpc = .d0 → s.dfutB = false → s.futex = 0) :=
  ⟨(inv_reach c hc h).fut_range, (inv_reach c hc h).d0_fut⟩

/-- **reclaimer_no_lost_wakeup** (x86-TSO, any number of owners, every interleaving and buffer
delay, every placement of EAGAIN / EINTR / spurious returns of `FUTEX_WAIT`, any draining by other
runners).  Whenever the defer thread sleeps in `FUTEX_WAIT`: if the futex still reads -1, EVERY
queue that is non-empty – in memory or in its owner's store buffer – belongs to an owner that has
not yet passed its futex test with a stale value and is going to reset the futex and call
`FUTEX_WAKE`; if the futex already reads 0, some owner has its `FUTEX_WAKE` still to come.  In
particular: asleep and some queue non-empty ⇒ somebody is still going to wake the defer thread. -/
theorem reclaimer_no_lost_wakeup (c : Cfg) (hc : c.WF) {s : State} (h : Reach c s) (hs : s.dpc = .dsleep) :
    (s.futex = -1 → ∀ i, i < c.n → s.hd i ≠ s.tl i → willWake s i) ∧
    (s.futex = 0 → ∃ i, i < c.n ∧ s.kpc i = .k3) ∧
    ((∃ i, i < c.n ∧ s.hd i ≠ s.tl i) → ∃ j, j < c.n ∧ (willWake s j ∨ s.kpc j = .k3)) := by
  have I := inv_reach c hc h
  have a : s.futex = -1 → ∀ i, i < c.n → s.hd i ≠ s.tl i → willWake s i := by
    intro hf i hi hne
    refine I.wait_m1 (Or.inr (Or.inr hs)) hf i hi ?_
    by_cases hb : s.bhd i = true
    · exact Or.inr hb
    · have := I.view i (by simpa using hb)
      exact Or.inl (by rw [this]; exact hne)
  refine ⟨a, I.asleep_0 hs, fun ⟨i, hi, hne⟩ => ?_⟩
  rcases I.fut_range with h0 | h1
  · obtain ⟨j, hj, hk⟩ := I.asleep_0 hs h0
    exact ⟨j, hj, Or.inr hk⟩
  · exact ⟨i, hi, Or.inl (a h1 i hi hne)⟩

/-- own-step measure of owner i's way to its `FUTEX_WAKE` -/
def kRank : KPc → Nat
  | .k0 => 0 | .kf => 4 | .k1 => 3 | .k2 => 2 | .k3 => 1
def measure (s : State) (i : Nat) : Nat :=
  3 * kRank (s.kpc i) + (if s.bhd i then 1 else 0) + (if s.bfut i then 1 else 0)

/-- the labels executed by owner i itself after its `head` store (its buffer commits included) -/
def ownLabels (i : Nat) : List Label := [.kf i, .k1 i, .k2Wake i, .k2Skip i, .k3 i, .flushHd i, .flushFut i]

/-- **waker_not_stuck**: an owner that is still going to wake the defer thread always has an
enabled step of its own (it never waits for anybody) -/
theorem waker_not_stuck (c : Cfg) {s : State} (i : Nat) (hk : s.kpc i ≠ .k0) :
    ∃ l, l ∈ ownLabels i ∧ (step c s l).isSome = true := by
  by_cases hb : s.bhd i = true
  · exact ⟨.flushHd i, by simp [ownLabels], by simp [step, hb]⟩
  · by_cases hf : s.bfut i = true
    · exact ⟨.flushFut i, by simp [ownLabels], by simp [step, hf]; simpa using hb⟩
    · cases hp : s.kpc i with
      | k0 => exact absurd hp hk
      | kf => exact ⟨.kf i, by simp [ownLabels], by simp [step, hp]; intro _; simpa using hb⟩
      | k1 => exact ⟨.k1 i, by simp [ownLabels], by simp [step, hp]⟩
      | k2 =>
        by_cases hr : s.r i = -1
        · exact ⟨.k2Wake i, by simp [ownLabels], by simp [step, hp, hr]⟩
        · exact ⟨.k2Skip i, by simp [ownLabels], by simp [step, hp, hr]⟩
      | k3 => exact ⟨.k3 i, by simp [ownLabels], by simp [step, hp]; exact ⟨by simpa using hb, by simpa using hf⟩⟩

/-- **waker_measure**: every own step strictly decreases the owner's measure (≤ 14): a bounded
number of its own steps takes it to its `FUTEX_WAKE` and to the end of `_defer_rcu` -/
theorem waker_measure (c : Cfg) {s s' : State} (i : Nat) {l : Label} (hl : l ∈ ownLabels i)
    (st : step c s l = some s') : measure s' i < measure s i := by
  simp only [ownLabels, List.mem_cons, List.mem_nil_iff, or_false] at hl
  rcases hl with rfl | rfl | rfl | rfl | rfl | rfl | rfl <;>
    simp only [step] at st <;> split at st <;> simp only [Option.some.injEq, reduceCtorEq] at st <;>
    subst st <;> simp_all [measure, kRank, upd] <;> (repeat' split) <;> omega

/-- the wake-up reaches the sleeper, and a woken defer thread that finds the futex reset returns
from `wait_defer()` (to its 100 ms nap and `rcu_defer_barrier()`) -/
theorem wake_wakes (c : Cfg) {s s' : State} (i : Nat) (hs : s.dpc = .dsleep)
    (st : step c s (.k3 i) = some s') : s'.dpc = .dwloop := by
  simp only [step] at st; split at st <;> simp only [Option.some.injEq, reduceCtorEq] at st
  subst st; simp [hs]

theorem woken_returns (c : Cfg) {s : State} (hs : s.dpc = .dwloop) (hf : s.futex = 0) :
    (step c s .dLoad).map (·.dpc) = some .d0 := by
  simp [step, hs, hf]

/-- an owner that tests the futex while the defer thread waits on -1 does read -1 -/
theorem test_sees_sleeper (c : Cfg) {s s' : State} (i : Nat) (hf : s.futex = -1)
    (st : step c s (.k1 i) = some s') : s'.r i = -1 ∧ s'.kpc i = .k2 := by
  simp only [step] at st; split at st <;> simp only [Option.some.injEq, reduceCtorEq] at st
  subst st; simp [upd, hf]

/-! ### non-vacuity -/

def c2 : Cfg := { n := 2 }
example : c2.WF := ⟨rfl, rfl⟩

/-- the defer thread finds nothing, sleeps, an owner queues a call (store still buffered when the
defer thread went to sleep), resets the futex and wakes it; the defer thread returns -/
example : (run c2 init [.dDec, .dScanQ 0, .k0 1, .dScanQ 1, .dScanEnd, .dLoad, .dWaitSleep,
    .flushHd 1, .kf 1, .k1 1, .k2Wake 1, .flushFut 1, .k3 1, .dLoad]).map
    (fun s => (s.dpc, s.futex, s.kpc 1, s.mh 1)) = some (.d0, 0, .k0, 1) := by decide
/-- with the fence the owner cannot test the futex before its `head` store is in memory -/
example : run c2 init [.k0 0, .kf 0] = none := by decide
/-- a scan that sees a non-empty queue does not sleep -/
example : (run c2 init [.k0 0, .flushHd 0, .kf 0, .k1 0, .k2Skip 0, .dDec, .dScanQ 0, .dScanQ 1, .dScanEnd, .dStore0,
    .flushD, .drain 0 1, .dDec]).map (fun s => (s.dpc, s.futex, s.tl 0)) = some (.dscan, -1, 1) := by decide
/-- the hypothesis of `reclaimer_no_lost_wakeup` is satisfiable with a non-empty queue -/
example : ∃ s, Reach c2 s ∧ s.dpc = .dsleep ∧ s.futex = -1 ∧ s.hd 1 ≠ s.tl 1 := by
  have hs : (run c2 init [.dDec, .dScanQ 0, .k0 1, .dScanQ 1, .dScanEnd, .dLoad, .dWaitSleep]).isSome = true := by decide
  obtain ⟨s, hs⟩ := Option.isSome_iff_exists.1 hs
  have h2 : (run c2 init [.dDec, .dScanQ 0, .k0 1, .dScanQ 1, .dScanEnd, .dLoad, .dWaitSleep]).map
      (fun s => (s.dpc, s.futex, s.hd 1, s.tl 1)) = some (.dsleep, -1, 1, 0) := by decide
  rw [hs] at h2
  simp only [Option.map_some, Option.some.injEq, Prod.mk.injEq] at h2
  exact ⟨s, reach_run c2 _ Reach.init hs, h2.1, h2.2.1, by omega⟩

end UrcuVerif.DeferWake

namespace UrcuVerif

/-- The safety content of the concurrent part of C13 proved in this file, as one statement. -/
def C13_conc_partial : Prop :=
  (∀ (c : DeferConc.Cfg) s, c.WF → DeferConc.Reach c s →
    -- TSO publication
    (∀ t j, s.tail t ≤ j → j < s.mhead t → DeferConc.rget c (s.mq t) j = s.wat t j) ∧
    (∀ s', DeferConc.step c s .rLd = some s' →
      s.tail s.cur ≤ s.ri ∧ s.ri < s.snap s.cur ∧ DeferConc.rget c (s.mq s.cur) s.ri = s.wat s.cur s.ri) ∧
    -- no overwrite of an unread slot
    (∀ (t k i : Nat) (w : BitVec 64), (s.bq t)[k]? = some (i, w) → s.mhead t ≤ i ∧ i < s.tail t + c.size) ∧
    -- exactly once, in order, exact words
    (∀ t, (s.invoked t).map DeferConc.Invk.pair = ((s.queued t).take (s.invoked t).length).map DeferConc.Call.pair) ∧
    s.abort = false ∧
    -- after a grace period
    (∀ s', DeferConc.step c s .rInvoke = some s' →
      ∃ cl, (s.queued s.cur)[(s.invoked s.cur).length]? = some cl ∧ cl.time < s.gpStart ∧
        ∀ i b, s.cs i = some b → cl.time < b)) ∧
  (∀ (c : DeferWake.Cfg) s, c.WF → DeferWake.Reach c s → s.dpc = .dsleep →
    (∃ i, i < c.n ∧ s.hd i ≠ s.tl i) → ∃ j, j < c.n ∧ (DeferWake.willWake s j ∨ s.kpc j = .k3))

theorem C13_conc_partial_proved : C13_conc_partial := by
  refine ⟨fun c s hc h => ?_, fun c s hc h hs hne => ?_⟩
  · obtain ⟨p1, _, p3⟩ := DeferConc.tso_publication hc h
    refine ⟨p1, p3, fun t k i w hk => ?_, fun t => (DeferConc.conc_exactly_once_in_order hc h t).1,
      (DeferConc.conc_exactly_once_in_order hc h 0).2.2, fun s' st => ?_⟩
    · obtain ⟨a, b, _⟩ := (DeferConc.no_overwrite_unread hc h t).1 k i w hk
      exact ⟨a, b⟩
    · obtain ⟨cl, a, b, _, d⟩ := DeferConc.conc_runs_after_gp hc h st
      exact ⟨cl, a, b, d⟩
  · exact (DeferWake.reclaimer_no_lost_wakeup c hc h hs).2.2 hne

/-- Fairness-dependent rest of the concurrent part (NOT proved; it is the liveness reading of
"queued calls are also executed without any further API call"): on every infinite run of the
handshake model in which every owner and every store buffer that can move eventually moves, a
sleeping defer thread with a non-empty queue eventually leaves `FUTEX_WAIT`.  What is proved
instead: `reclaimer_no_lost_wakeup` + `waker_not_stuck` + `waker_measure` + `wake_wakes` (the
sleeper always has a waker that is never blocked and reaches its `FUTEX_WAKE` within 14 own
steps), i.e. the statement below follows under weak fairness of the owners' own steps. -/
def C13_conc_live : Prop :=
  ∀ (c : DeferWake.Cfg) (σ : Nat → DeferWake.State) (ℓ : Nat → DeferWake.Label), c.WF →
    σ 0 = DeferWake.init → (∀ k, DeferWake.step c (σ k) (ℓ k) = some (σ (k+1))) →
    -- weak fairness: an own label of owner i that stays enabled is eventually taken
    (∀ i k, (σ k).kpc i ≠ .k0 → ∃ k', k ≤ k' ∧ ℓ k' ∈ DeferWake.ownLabels i) →
    ∀ k, (σ k).dpc = .dsleep → (∃ i, i < c.n ∧ (σ k).hd i ≠ (σ k).tl i) → ∃ k', k < k' ∧ (σ k').dpc ≠ .dsleep

/-- the concurrent part of C13 in full = safety (proved) + liveness under fairness (stated) -/
def C13_conc_full : Prop := C13_conc_partial ∧ C13_conc_live

end UrcuVerif
