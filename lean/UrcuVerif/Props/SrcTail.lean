import UrcuVerif.Src.TailLocal
import UrcuVerif.Src.TailLift
import UrcuVerif.Src.TailMarkers
import UrcuVerif.Src.TailBarrier
import UrcuVerif.CallRcu.LiveBarLoop
/-!
# Source refinement, `rcu_barrier()` (C04): generated IR of `src/urcu-call-rcu-impl.h` ⊑ L2 (`CallRcu/Barrier.lean`)

For the **generated** term `Gen.Src.«rcu_barrier»`, every loop budget, every oracle obeying the stated discipline (and every
prefix of it: preemption anywhere) the run is `.ok out` and the abstraction (`TailB.absT`) of `out.events` is a label sequence
of the thread-local projection `TailL.lstep` of L2's barrier caller (`Src/TailLocal.lean`), whose steps are L2 steps
(`barrier_lift_step`, against the real `CallRcu.bstep`).

What the statement says about the C text (see `rcu_barrier_refines`, `rcu_barrier_markers_exact`):
* inside a read-side critical section (`_rcu_read_ongoing()` ≠ 0) the function only prints and returns – L2's `bRefused`,
  nothing is allocated, locked or enqueued;
* otherwise: completion allocated (`bCall`), `call_rcu_mutex` taken (`bLock`), the counting loop enumerates the helper list,
  `urcu_ref_set(count + 1)` (`bInit`) and the plain store `barrier_count = count` with `count` = the number of helpers; then
  **for every helper of the list, in list order, exactly one work item is allocated (`bEnq`) and completely enqueued by
  `_call_rcu` (C03's `enq inc ldFlags ldFutex stFutex wake` up to pc `ext`) before the next one**; the mutex is released only
  when `todo = []` (`bUnlock`); the caller then runs `bDec bLdCnt` / `call_rcu_completion_wait` (`bWaitLd bWaitFx bSpurious`)
  rounds and **reaches `urcu_ref_put` (`bPut`) only after a load of `barrier_count` that returned 0**; `release` iff the
  reference count reached 0.

List-oracle discipline (`TailB.MainInp`): `.first` / `.next` of both loops enumerate the same list `items` (the mutex is held:
`barrier_list_frame_held`).  Other side conditions: `calloc` returns the objects (`B`, the work items of `items`),
`pthread_mutex_lock/unlock` return 0, the second `_rcu_read_ongoing()` tells the truth about the nesting, flags words are
non-negative integers, futex words / counts integers, FUTEX_WAKE ≥ 0, a failed FUTEX_WAIT has `errno ∈ {EAGAIN, EINTR}`
(otherwise the source calls `urcu_die`).
-/
set_option maxRecDepth 16384
set_option linter.unusedSimpArgs false
namespace UrcuVerif.Props.SrcTail
open UrcuVerif UrcuVerif.Src UrcuVerif.Gen.Src UrcuVerif.CallRcu UrcuVerif.Src.CallRcuL UrcuVerif.Src.Futex
open UrcuVerif.Src.ForkX UrcuVerif.Src.TailL UrcuVerif.Src.TailB
open UrcuVerif.Src.CallRcuR (Layout)

-- ==========================================================================================================
-- projection / frame lemmas against the real L2 `bstep`
-- ==========================================================================================================

/-- a local step with the global state's values (`Obs`) and guard (`Guard`) is the L2 run `toL2 t ls l` (one `bstep`, or
a stutter), and the local successor agrees with the global one -/
theorem barrier_lift_step (c : Cfg) (s : BState) (t : Nat) (ls ls' : TailL.LState) (l : TailL.LLabel)
    (ha : TailL.Agree ls s t) (ho : TailL.Obs s t ls l) (hg : TailL.Guard c s t ls l) (hs : TailL.lstep ls l = some ls') :
    ∃ s', brun c s (TailL.toL2 t ls l) = some s' ∧ TailL.Agree ls' s' t :=
  TailL.lift_step c s t ls ls' l ha ho hg hs

/-- labels that are neither caller `t`'s nor a marker's FUTEX_WAKE leave `bpc t` unchanged -/
theorem barrier_frame_bpc (c : Cfg) (s s' : BState) (t : Nat) (l : BLabel)
    (st : bstep c s l = some s') (ho : Br.ownerW l ≠ some t) (hw : ∀ h, l ≠ .mWake h) : s'.bpc t = s.bpc t :=
  Br.projW_frame c s s' t l st ho hw

/-- while the caller holds `call_rcu_mutex` (C03 pc `ext`), no C03 step changes `call_rcu_data_list`: both loops of
`rcu_barrier` see the same list -/
theorem barrier_list_frame_held (c : Cfg) {s s' : State} {l : Label} (hD : InvD c s) (t : Nat) (he : s.tpc t = .ext)
    (hm : s.mutex = some t) (st : step c s l = some s') : s'.list = s.list :=
  list_frame_held c hD t he hm st

-- ==========================================================================================================
-- rcu_barrier
-- ==========================================================================================================

/-- **`rcu_barrier()`, the whole function.** -/
theorem rcu_barrier_refines (L : Layout) (B : Src.Loc) (b nest : Nat) (items : List Item) (mbv : Int) (fuel : Nat)
    (env : Env) (inp : List Val) (hok : ItemsOk L B items)
    (hstderr : ∃ sv, env.priv (.glob "stderr") = some sv)
    (hcfg : env.priv (.glob "CONFIG_RCU_EMIT_LEGACY_MB") = some (.int mbv))
    (hinp : BarInp B nest items inp) :
    ∃ out, exec fuel «rcu_barrier» env inp = .ok out ∧
      ∃ ls', TailL.lrun ⟨.start, false, ⟨.idle, nest⟩, [], []⟩ (out.events.flatMap (absT L B b)) = some ls' ∧
        (out.ctl = .normal ∨ out.ctl = .blocked ∨ out.ctl = .fuel) ∧
        (out.ctl = .normal → BarFin B nest items out.env out.inp ls') := by
  obtain ⟨out, ho, ls', hl, hq⟩ := rcu_barrier_tri L B b nest items mbv fuel hok env inp _ ⟨hstderr, hcfg, hinp, rfl⟩
  refine ⟨out, ho, ls', hl, ?_, ?_⟩
  · cases hc : out.ctl <;> simp_all [norm]
  · intro hc
    rw [hc] at hq
    exact hq

/-- **Exactly one marker on every helper of the list, `barrier_count` = their number.**  When `rcu_barrier()` returns
and was not refused (`nest = 0`): the helpers whose queue tails were exchanged (`enqOf` = the linearisation points of the
`_call_rcu`s) are exactly the helpers of the list, in list order, each once; the only value written to the reference count
is their number + 1; the private view holds `completion->barrier_count` = their number. -/
theorem rcu_barrier_markers_exact (L : Layout) (B : Src.Loc) (b : Nat) (items : List Item) (mbv : Int) (fuel : Nat)
    (env : Env) (inp : List Val) (hok : ItemsOk L B items)
    (hstderr : ∃ sv, env.priv (.glob "stderr") = some sv)
    (hcfg : env.priv (.glob "CONFIG_RCU_EMIT_LEGACY_MB") = some (.int mbv))
    (hinp : BarInp B 0 items inp) :
    ∃ out, exec fuel «rcu_barrier» env inp = .ok out ∧
      (out.ctl = .normal →
        (out.events.flatMap (absT L B b)).filterMap enqOf = items.map (·.h) ∧
        (out.events.flatMap (absT L B b)).filterMap refOf = [(items.length : Int) + 1] ∧
        out.env.priv (.field B "barrier_count") = some (.int items.length)) := by
  obtain ⟨out, ho, ls', hl, -, hq⟩ := rcu_barrier_refines L B b 0 items mbv fuel env inp hok hstderr hcfg hinp
  refine ⟨out, ho, fun hc => ?_⟩
  obtain ⟨hpc, -, -, hr⟩ := hq hc
  obtain ⟨hseen, hbc⟩ := hr rfl
  rcases markers_exact _ 0 ls' hl hpc with ⟨-, -, h0⟩ | ⟨h1, h2⟩
  · exact absurd h0 (by omega)
  · rw [hseen] at h1 h2
    exact ⟨h1, by simpa using h2, hbc⟩

/-- the pieces are pieces of the generated function, not copies -/
example : ∃ c a, seqNth 6 (splitSeq 6 «rcu_barrier»).1 = seqNth 6 «rcu_barrier» ∧
    (splitSeq 6 «rcu_barrier»).2 = .seq (.ifte c .skip barMain) a ∧
    seqNth 5 barMain = .loop cntBody ∧ seqNth 10 barMain = .loop enqBody ∧ seqNth 12 barMain = .loop waitBody ∧
    «call_rcu_completion_wait» = .seq (.prim none .mb []) (.loop cwBody) := ⟨_, _, rfl, rfl, rfl, rfl, rfl, rfl⟩

/-- **one iteration of the enqueue loop** (`enqBody`, extracted): `.next`, `calloc` of the work item (`bEnq t id h` for the
head `h` of `todo`), `_call_rcu(&work->head, _rcu_barrier_complete, crdp)` up to C03's pc `ext` -/
theorem rcu_barrier_enqueue_iteration_refines (L : Layout) (B : Src.Loc) (b : Nat) (w mbv : Int) (nest : Nat)
    (items : List Item) (P : List Val → Prop) (fuel : Nat) (hok : ItemsOk L B items) :
    Tri (RT L B b) fuel enqBody (EnqI B b w mbv nest items P)
      (fun c env inp ls => if c.goesOn then EnqI B b w mbv nest items P env inp ls
        else brkPost (EnqQ B b w mbv nest items P) c env inp ls) :=
  enqBody_tri L B b w mbv nest items P fuel hok

/-- **one round of the wait loop** (`waitBody`, extracted): `uatomic_dec(&completion->futex)`, `barrier_count` read; 0: `break`
(the only way to `urcu_ref_put`); else `call_rcu_completion_wait` -/
theorem rcu_barrier_wait_round_refines (L : Layout) (B : Src.Loc) (b : Nat) (w mbv : Int) (nest : Nat)
    (items : List Item) (P : List Val → Prop) (fuel : Nat) :
    Tri (RT L B b) fuel waitBody (WI B b w mbv nest items P)
      (fun c env inp ls => if c.goesOn then WI B b w mbv nest items P env inp ls
        else brkPost (WQ B b w mbv nest items P) c env inp ls) :=
  waitBody_tri L B b w mbv nest items P fuel

-- ==========================================================================================================
-- non-vacuity
-- ==========================================================================================================

/-- helpers 0, 1 are the objects `obj 100`, `obj 101`; the `rcu_head` of work item `obj k` (`k ≥ 200`) is callback `k - 193` -/
def lay : Layout :=
  { crd := fun l => if l = .obj 100 then some 0 else if l = .obj 101 then some 1 else none,
    cb := fun l => match l with | .field (.obj k) "head" => if 200 ≤ k then some (k - 193) else none | _ => none }

def env0 : Env :=
  { vars := fun _ => none,
    priv := fun l => match l with
      | .glob g => if g = "CONFIG_RCU_EMIT_LEGACY_MB" then some (.int 0) else if g = "stderr" then some (.int 2) else none
      | _ => none }

def items0 : List Item := [⟨.obj 100, 0, .obj 200, 7⟩, ⟨.obj 101, 1, .obj 201, 8⟩]

/-- two helpers (the first one real-time: no wake-up; the second asleep: futex -1 → 0, FUTEX_WAKE), one sleeping round
of the wait, reference count 3 → … → 1 at the caller's `urcu_ref_put` -/
def inp0 : List Val := [.int 0, .int 0, .ptr (.obj 300), .int 0, .ptr (.obj 100), .ptr (.obj 101), .int 0,
  .ptr (.obj 100), .ptr (.obj 101), .ptr (.obj 200), .ptr (.field (.obj 100) "cbs_head"), .int 1, .int 1,
  .int 0, .ptr (.obj 201), .ptr (.field (.obj 101) "cbs_head"), .int 1, .int 0, .int (-1), .int 1,
  .int 0, .int 0, .int 2, .int (-1), .int 0, .int 0, .int 0, .int 0, .int 1]

example : (exec 5 «rcu_barrier» env0 inp0).toOption.map (fun o => (o.events.length, o.ctl,
      TailL.lrun ⟨.start, false, ⟨.idle, 0⟩, [], []⟩ (o.events.flatMap (absT lay (.obj 300) 0)),
      (o.events.flatMap (absT lay (.obj 300) 0)).filterMap enqOf,
      o.env.priv (.field (.obj 300) "barrier_count"))) =
    some (37, .normal, some ⟨.fin, false, ⟨.idle, 0⟩, [0, 1], []⟩, [0, 1], some (.int 2)) := by decide

/-- inside a read-side critical section: refused, nothing allocated -/
example : (exec 5 «rcu_barrier» env0 [.int 1, .int 0, .int 1, .int 0, .int 0]).toOption.map (fun o => (o.events.length, o.ctl,
      TailL.lrun ⟨.start, false, ⟨.idle, 1⟩, [], []⟩ (o.events.flatMap (absT lay (.obj 300) 0)))) =
    some (5, .normal, some ⟨.fin, true, ⟨.idle, 1⟩, [], []⟩) := by decide

example : ItemsOk lay (.obj 300) items0 := by
  intro it hit
  simp only [items0, List.mem_cons, List.mem_nil_iff, or_false] at hit
  rcases hit with rfl | rfl <;> simp [lay]

example : BarInp (.obj 300) 0 items0 inp0 := by
  simp [BarInp, ChkInp, MainInp, ForkR.ZeroInp, FirstInp, CntInp, EnqInp, CallInpP, ForkR.Skip1, ForkR.WakeInp,
    WInp, PutInp, inp0, items0, nxt, ForkL.bit]
  exact ⟨1, rfl, rfl, 0, rfl, rfl, True.intro⟩

example := rcu_barrier_refines lay (.obj 300) 0 0 items0 0 5 env0 inp0

end UrcuVerif.Props.SrcTail
