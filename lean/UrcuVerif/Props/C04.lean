import UrcuVerif.CallRcu.BDone
import UrcuVerif.CallRcu.BLife
/-!
# C04 — rcu_barrier() returns only after all previously queued callbacks have run

Statements only (model: `CallRcu/Barrier.lean` on top of `CallRcu/Model.lean`; invariants: `CallRcu/BInvH.lean`
(handshake), `BInvP` (program counters, mutex), `BInvK` (markers, countdown), `BInvJ` (coverage: FIFO position of
the markers), `BDone`, `BInvR` (reference count, lifetime of the completion); list shapes: `CallRcu/Shape.lean`).
Everything is about *every* reachable state of the barrier layer, i.e. for all interleavings of any number
of concurrent `rcu_barrier()` callers, `call_rcu()` callers, helpers, creators and destroyers of helpers and
all futex outcomes.
-/
namespace UrcuVerif.CallRcu

/-- every reachable state of the barrier layer has a reachable C03 state underneath: all theorems of
`Props/C03.lean` hold for `s.base` -/
theorem base_reach (c : Cfg) {s : BState} (h : BReach c s) : Reach c s.base := by
  induction h with
  | init => exact Reach.init
  | @step s s' l _ st ih =>
    cases l <;> simp only [bstep] at st <;> (repeat' split at st) <;>
      first
      | (simp at st; done)
      | (simp only [Option.some.injEq] at st; subst st; first | exact ih | (exact Reach.step ih ‹_›))

/-- **barrier_in_cs_refused**: `rcu_barrier()` called from within a read-side critical section does nothing
(error message, immediate return): it allocates no completion, takes no lock, enqueues nothing, never sleeps –
so it cannot deadlock against the grace period its own section would block. -/
theorem barrier_in_cs_refused (c : Cfg) (s : BState) (t : Nat) (hn : 0 < s.base.nest t) :
    bstep c s (.bCall t) = none ∧
    (∀ s', bstep c s (.bRefused t) = some s' → s'.base = s.base ∧ s'.nextB = s.nextB ∧ s'.bpc = s.bpc ∧
      s'.cnt = s.cnt ∧ s'.fut = s.fut ∧ s'.ref = s.ref ∧ s'.refused = s.refused + 1) := by
  constructor
  · simp only [bstep]
    split
    · rename_i h; omega
    · rfl
  · intro s' st
    simp only [bstep] at st
    split at st
    · simp only [Option.some.injEq] at st; subst st; simp
    · simp at st

/-- what `rcu_barrier()` covers: exactly the callbacks that are queued (in a queue, in a batch, or running) at
the call – i.e. every callback whose `call_rcu()` had enqueued it and that has not finished -/
theorem cov_at_call (c : Cfg) {s s' : BState} (t : Nat) (st : bstep c s (.bCall t) = some s') :
    s'.bpc t = .lock s.nextB ∧ ∀ id, s'.cov s.nextB id = (s.base.loc id).queued := by
  simp only [bstep] at st
  (repeat' split at st)
  all_goals (first | (simp at st; done) | skip)
  all_goals (simp only [Option.some.injEq] at st; subst st)
  simp [upd]

/-- **barrier_complete**: when `rcu_barrier()` `b` has read `barrier_count == 0` (`put`) or has returned, every
callback that was queued when it was called has finished executing – on whichever helper it was queued or has been
handed over to, for any number of concurrent enqueuers, helpers, barriers, and creations / destructions of helpers
in between.  (A callback whose `call_rcu()` returned before the call either is queued at the call – covered – or
has already finished: `cb_conserved`, C03.) -/
theorem barrier_complete (c : Cfg) {s : BState} (h : BReach c s) (b : Nat)
    (hret : s.returned b = true ∨ ∃ t, s.bpc t = .put b) (id : Nat) (hc : s.cov b id = true) :
    s.base.fin id = true ∧ s.base.invN id = 1 := by
  have D := bdone_reach c h
  have hf : s.base.fin id = true := by
    rcases hret with hr | ⟨t, ht⟩
    · exact D.d_ret b hr id hc
    · exact D.d_put t b ht id hc
  obtain ⟨A, -, -, -, -⟩ := reach_d c (base_reach c h)
  have hl := A.loc_ok id
  unfold LocOk at hl
  have hi := A.inv_cnt id
  refine ⟨hf, ?_⟩
  cases hloc : s.base.loc id with
  | done => rw [hi, hloc]; rfl
  | _ => have := hl.2.2.2.1 (by rw [hloc]; simp); rw [this] at hf; simp at hf

/-- **marker_fifo** (the invariant behind `barrier_complete`): while barrier `b` is in progress, every covered
callback still in the list of callbacks a helper has to execute (running, batch, queue – in execution order) is
followed later in the same list by a marker of `b` that has not yet decremented `barrier_count`, unless the caller –
still holding `call_rcu_mutex` – has yet to queue its marker on that helper. -/
theorem marker_fifo (c : Cfg) {s : BState} (h : BReach c s) (b x : Nat) (pre post : List Nat) (id : Nat)
    (hi : s.inited b = true) (hp : pend s.base x = pre ++ id :: post) (hc : s.cov b id = true) :
    owes s b x ∨ ∃ m, m ∈ post ∧ liveM s b m :=
  j2_reach c h b x pre id post hi hp hc

/-- **barrier_count_exact**: `barrier_count` is exactly the number of helpers of the barrier whose marker has not
yet run `uatomic_sub_return` (it is initialised, under the mutex, before the first marker is queued); one marker per
helper of `call_rcu_data_list`; a marker that ran belongs to this barrier. -/
theorem barrier_count_exact (c : Cfg) {s : BState} (h : BReach c s) (b : Nat) (hi : s.inited b = true) :
    s.cnt b = cntU s.mdone b (s.hs b) ∧ 0 ≤ s.cnt b ∧ (s.hs b).Nodup ∧
    (∀ m h', s.base.mark m = some (b, h') → h' ∈ s.hs b ∧ s.mid b h' = m) := by
  have K := (ball_reach c h).K
  have := K.k_cnt b hi
  exact ⟨this, by rw [this]; exact cntU_nonneg _ _ _, K.k_hs b, fun m h' e => ⟨(K.k_mark m b h' e).2.1, (K.k_mark m b h' e).2.2.1⟩⟩

/-- **barrier_futex_range**: `completion->futex ∈ {0, -1}`; the caller decrements it only from 0. -/
theorem barrier_futex_range (c : Cfg) {s : BState} (h : BReach c s) (b : Nat) :
    (s.fut b = 0 ∨ s.fut b = -1) ∧ (∀ t, s.bpc t = .dec b → s.fut b = 0) := by
  have H := (ball_reach c h).H
  exact ⟨H.fut_range b, fun t ht => H.fut_zero t b (by rw [ht]; rfl)⟩

/-- **barrier_no_lost_wakeup** (all interleavings, any number of helpers and barriers, all spurious / EINTR / EAGAIN
placements; the marker's `futex := 0` store delayed arbitrarily up to its `FUTEX_WAKE`): whenever the caller of
`rcu_barrier()` sleeps in `FUTEX_WAIT`, either markers are still outstanding (`barrier_count ≠ 0`: the last of them
will find the count 0), or the marker that brought the count to 0 is on its way to reset the futex and to call
`FUTEX_WAKE`, or its reset is done and its `FUTEX_WAKE` is still to come. -/
theorem barrier_no_lost_wakeup (c : Cfg) {s : BState} (h : BReach c s) (t b : Nat) (hs : s.bpc t = .asleep b) :
    s.cnt b ≠ 0 ∨ ∃ x h', s.mrun x = some (b, h') ∧ (s.mpc x = .ldFut ∨ s.mpc x = .stFut ∨ s.mpc x = .wake) := by
  have H := (ball_reach c h).H
  rcases H.fut_range b with h0 | h1
  · obtain ⟨x, h', e1, e2⟩ := H.asleep_0 t b hs h0
    exact Or.inr ⟨x, h', e1, Or.inr (Or.inr e2)⟩
  · rcases H.wait_m1 t b (by rw [hs]; rfl) h1 with hc | ⟨x, h', e1, e2⟩
    · exact Or.inl hc
    · exact Or.inr ⟨x, h', e1, by rcases e2 with e | e; exact Or.inl e; exact Or.inr (Or.inl e)⟩

/-- outstanding markers exist somewhere: if `barrier_count ≠ 0` some helper of the barrier has a marker that has not
run yet, and (C03: `cb_conserved`, `leftovers_handed_over`) that marker is queued on a live helper of the list -/
theorem outstanding_marker (c : Cfg) {s : BState} (h : BReach c s) (b : Nat) (hi : s.inited b = true) (hc : s.cnt b ≠ 0) :
    ∃ h', h' ∈ s.hs b ∧ s.mdone b h' = false := by
  have K := (ball_reach c h).K
  have hk := K.k_cnt b hi
  apply Classical.byContradiction
  intro hn
  have hall : ∀ h', h' ∈ s.hs b → s.mdone b h' = true := by
    intro h' hm
    cases hd : s.mdone b h' with
    | true => rfl
    | false => exact absurd ⟨h', hm, hd⟩ hn
  have : cntU s.mdone b (s.hs b) = 0 := by
    generalize s.hs b = l at hall
    induction l with
    | nil => rfl
    | cons a r ih =>
      simp only [cntU, hall a (by simp)]
      simp [ih (fun h' hm => hall h' (by simp [hm]))]
  exact hc (by rw [hk, this])

/-- the ghost `mrun x` is the tag of the marker callback helper `x` is executing (`curMark`) -/
theorem mrun_is_curMark (c : Cfg) {s : BState} (h : BReach c s) (x b h' : Nat) (hm : s.mrun x = some (b, h')) :
    curMark s.base x = some (b, h') := by
  have A := ball_reach c h
  have h1 := A.K.k_run x b h' hm
  have h2 : s.base.hpc x = .run := by
    cases hp : decide (s.base.hpc x = .run) with
    | true => exact of_decide_eq_true hp
    | false =>
      have := (A.H.mpc_run x (of_decide_eq_false hp)).2
      rw [this] at hm; simp at hm
  simp [curMark, h1.1, h2, h1.2.1]

/-- a marker on the wake path always has an enabled step (it never waits) and its rank strictly decreases -/
def mRank : MPc → Nat
  | .idle => 5 | .ldFut => 4 | .stFut => 3 | .wake => 2 | .put => 1 | .fin => 0

theorem marker_not_stuck (c : Cfg) (s : BState) (x b h' : Nat) (hm : s.mrun x = some (b, h')) (hp : s.mpc x ≠ .fin) :
    ∃ l, l ∈ [BLabel.mSub x, .mLdFut x, .mStFut x, .mWake x, .mPut x] ∧ (bstep c s l).isSome = true := by
  cases hpc : s.mpc x with
  | idle => exact ⟨.mSub x, by simp, by simp [bstep, hm, hpc]⟩
  | ldFut => exact ⟨.mLdFut x, by simp, by simp [bstep, hm, hpc]⟩
  | stFut => exact ⟨.mStFut x, by simp, by simp [bstep, hm, hpc]⟩
  | wake => exact ⟨.mWake x, by simp, by simp [bstep, hm, hpc]⟩
  | put => exact ⟨.mPut x, by simp, by simp [bstep, hm, hpc]⟩
  | fin => exact absurd hpc hp

theorem marker_measure (c : Cfg) {s s' : BState} (x : Nat) {l : BLabel}
    (hl : l ∈ [BLabel.mSub x, .mLdFut x, .mStFut x, .mWake x, .mPut x]) (st : bstep c s l = some s') :
    mRank (s'.mpc x) < mRank (s.mpc x) := by
  simp only [List.mem_cons, List.mem_nil_iff, or_false] at hl
  rcases hl with rfl | rfl | rfl | rfl | rfl <;> simp only [bstep] at st <;> (repeat' split at st) <;>
    simp only [Option.some.injEq, reduceCtorEq] at st <;> subst st <;> simp_all [mRank, upd] <;> (try split) <;> simp [mRank]

/-- **completion_lifetime**: no step of `rcu_barrier()` or `_rcu_barrier_complete()` touches a completion object
after its last `urcu_ref_put` (`uaf = false`); the object is freed only when the caller and every marker of the
barrier have dropped their reference (`ref = 0`); the caller (until its `urcu_ref_put`) and every marker that has not
yet dropped its reference find the object alive. -/
theorem completion_lifetime (c : Cfg) {s : BState} (h : BReach c s) :
    s.uaf = false ∧
    (∀ b, s.bfreed b = true → s.inited b = true ∧ s.ref b = 0 ∧ s.cput b = true ∧ ∀ h', h' ∈ s.hs b → s.mput b h' = true) ∧
    (∀ t b, (s.bpc t).bar = some b → s.bfreed b = false) ∧
    (∀ x b h', s.mrun x = some (b, h') → s.mpc x ≠ .fin → s.bfreed b = false) := by
  have R := binvr_reach c h
  have K := (ball_reach c h).K
  refine ⟨R.r_uaf, ?_, fun t b => no_free_caller R, fun x b h' => no_free_marker K R⟩
  intro b hf
  have h1 := R.r_freed b hf
  have h2 := R.r_ref b h1.1
  have hnn := cntU_nonneg s.mput b (s.hs b)
  have hc : s.cput b = true := by
    cases hcp : s.cput b with
    | true => rfl
    | false => rw [hcp] at h2; simp at h2; omega
  refine ⟨h1.1, h1.2, hc, ?_⟩
  intro h' hm
  cases hp : s.mput b h' with
  | true => rfl
  | false =>
    have := cntU_pos s.mput b h' (s.hs b) hm hp
    rw [hc] at h2; simp at h2; omega

/-! ### The full statement -/

/-- an infinite run of the barrier layer -/
structure BRun (c : Cfg) where
  st : Nat → BState
  lab : Nat → BLabel
  start : st 0 = binit
  next : ∀ i, bstep c (st i) (lab i) = some (st (i + 1))

/-- steps the library / the helpers / the memory system take on their own (not the entry of a new user-level
operation, not a spurious futex return) -/
def libLabel : BLabel → Bool
  | .base (.rlock _) | .base (.runlock _) | .base (.syncStart _) | .base (.crCall _ _) | .base (.gdCall _)
  | .base (.opCall _ _) | .base (.setThr _ _) | .base (.fCall _ _) | .base (.hSpurious _) | .base (.hWaitFx _ .eintr)
  | .base (.hWaitFx _ .spurious) | .bCall _ | .bRefused _ | .bSpurious _ | .bWaitFx _ .eintr | .bWaitFx _ .spurious => false
  | _ => true

/-- weak fairness for the library's own steps + the environment assumptions of the property text: read-side
sections end, callbacks terminate -/
def BFair (c : Cfg) (r : BRun c) : Prop :=
  (∀ l i, libLabel l = true → (∀ j, i ≤ j → (bstep c (r.st j) l).isSome = true) → ∃ j, i ≤ j ∧ r.lab j = l) ∧
  (∀ t i, 0 < (r.st i).base.nest t → ∃ j, i ≤ j ∧ (r.st j).base.nest t = 0) ∧
  (∀ x i, (r.st i).base.hpc x = .run → (r.st i).mrun x = none → ∃ j, i ≤ j ∧ (r.st j).base.hpc x ≠ .run)

/-- **C04_full** — NOT PROVED: "`rcu_barrier()` itself always returns" as a temporal statement: on every fair run
every `rcu_barrier()` that has been called returns.  Proved instead (the safety half of this liveness claim):
`barrier_no_lost_wakeup` (a sleeping caller always has outstanding markers or a marker on its way to wake it),
`outstanding_marker` + C03 (`cb_conserved`, `leftovers_handed_over`: an outstanding marker is queued on a live helper;
`helper_no_lost_wakeup`, `helper_no_stuck`, `helper_measure`: that helper gets to it), `marker_not_stuck`,
`marker_measure`.  The safety part of C04 (`barrier_complete`, `completion_lifetime`, `barrier_in_cs_refused`) is
proved in full above. -/
def C04_full : Prop :=
  ∀ (c : Cfg) (r : BRun c), BFair c r → ∀ b i, b < (r.st i).nextB → ∃ j, i ≤ j ∧ (r.st j).returned b = true

/-! ### Non-vacuity -/

def cfgB : Cfg := { n := 2, ncpu := 1 }
def trB1 : List BLabel := [.base (.crCall 0 7), .base (.crSelNoCpu 0 0), .base (.gdLd 0), .base (.gdLock 0), .base (.gdCreate 0),
  .base (.gdUnlock 0), .base (.enq 0), .base (.inc 0), .base (.ldFlags 0), .base (.ldFutex 0), .base (.crRet 0)]
def trB2 : List BLabel := [.bCall 1, .bLock 1, .bInit 1, .bEnq 1 100 0, .base (.enq 1), .base (.inc 1), .base (.ldFlags 1),
  .base (.ldFutex 1), .bUnlock 1, .bDec 1, .bLdCnt 1, .bWaitLd 1, .bWaitFx 1 .sleep]
def trB3 : List BLabel := [.base (.hStart 0), .base (.hDec0 0), .base (.hTop 0), .base (.hSplice 0), .base (.hGpEnd 0),
  .base (.hRunBegin 0 7), .base (.hRunEnd 0), .base (.hRunBegin 0 100), .mSub 0, .mLdFut 0, .mStFut 0, .mWake 0, .mPut 0,
  .base (.hRunEnd 0)]
def trB4 : List BLabel := [.bWaitLd 1, .bDec 1, .bLdCnt 1, .bPut 1]

/-- one callback, one helper, one barrier: the caller sleeps, the marker wakes it, the barrier returns after the
callback has finished; the completion is freed by the last reference and never touched afterwards -/
example : (brun cfgB binit (trB1 ++ trB2 ++ trB3 ++ trB4)).map
    (fun s => (s.returned 0, s.cov 0 7, s.base.fin 7, s.bfreed 0, s.uaf)) = some (true, true, true, true, false) := by decide
/-- the caller does sleep, and while the covered callback has not finished the count is not 0 -/
example : (brun cfgB binit (trB1 ++ trB2)).map (fun s => (s.bpc 1, s.cnt 0, s.fut 0, s.base.fin 7)) =
    some (.asleep 0, 1, -1, false) := by decide
/-- the marker cannot finish before `_rcu_barrier_complete` is done -/
example : brun cfgB binit (trB1 ++ trB2 ++ trB3.take 9 ++ [.base (.hRunEnd 0)]) = none := by decide
/-- refused inside a read-side section -/
example : (brun cfgB binit [.base (.rlock 1), .bRefused 1]).map (fun s => (s.refused, s.nextB)) = some (1, 0) := by decide
example : brun cfgB binit [.base (.rlock 1), .bCall 1] = none := by decide

end UrcuVerif.CallRcu
