import UrcuVerif.Src.ForkLocal
import UrcuVerif.Src.ForkExec
import UrcuVerif.Src.ForkRefine
import UrcuVerif.Src.ForkBpRefine
import UrcuVerif.Src.ForkBpPrune
/-!
# Source refinement, component "fork hooks" (C16): generated IR of `call_rcu_before_fork` /
`call_rcu_after_fork_parent` (`src/urcu-call-rcu-impl.h`) and of the urcu-bp handlers (`src/urcu-bp.c`) ⊑ L2
(`Fork/Model.lean`, `Fork/Bp.lean`), thread-locally

Final statements only (proofs: `Src/ForkLocal.lean`, `Src/ForkExec.lean`, `Src/ForkRefine.lean`, `Src/ForkBpRefine.lean`).
Every theorem is about the **generated** value `UrcuVerif.Gen.Src.«f»`, for every loop budget `fuel` and every oracle `inp`
of the stated class, i.e. for every prefix of every event sequence of the source text.

* `call_rcu_*`: local state `ForkL.CLState` (pc refining L2's `upc t`, the helper list `l` taken with the mutex, the
  local `was_online`); labels `ForkL.CLabel` = accesses with the values observed; `ForkR.absEvC l` decodes events (helper
  `h`'s `struct call_rcu_data` is `Loc.obj h`); `ForkL.cL2` = the L2 label(s) an access stands for.
  **List-oracle discipline**: `cds_list_for_each_entry.first/.next` are external events; the local automaton accepts
  only the answers that enumerate `l`, the oracle classes `ForkR.BfInp l` / `ForkR.AfpInp l` provide them;
  `call_rcu_frame_held`: nothing changes L2's list while the thread holds `call_rcu_mutex`.
* urcu-bp: local state `ForkL.BPc` (refining `ForkBp.State.pc t`), labels `ForkL.BLabel`, `ForkB.absEvB`.
-/
set_option linter.unusedSimpArgs false
set_option maxRecDepth 8192
namespace UrcuVerif.Props.SrcFork
open UrcuVerif UrcuVerif.Src UrcuVerif.Src.ForkL UrcuVerif.Src.ForkX UrcuVerif.Src.ForkR UrcuVerif.Src.ForkB

/-! ## projection / lift / frame lemmas of the local automata against the real L2 `step` -/

/-- a local step of the `call_rcu` fork handlers with the observed values of the global state (`cObs`: the list at the
lock, the PAUSED bit of a polled flags word) and the global guard (`cGuard`: the mutex is free when the lock returns +
`bfLock`'s API contract) IS the enabled L2 step(s) `cL2`, and `CRel` (pc, list and mutex ownership) is preserved -/
theorem call_rcu_lift (c : Fork.Cfg) (s : Fork.State) (t : Nat) (ls ls' : CLState) (lab : CLabel)
    (hr : CRel s t ls) (hl : cstep ls lab = some ls') (ho : cObs s ls lab) (hg : cGuard c s t lab) :
    ∃ s', Fork.run c s (cL2 t ls lab) = some s' ∧ CRel s' t ls' := cproj_lift c s t ls ls' lab hr hl ho hg

/-- L2's `bfRet t` is the return of `call_rcu_before_fork()` (no event): enabled without guard at the local final state -/
theorem call_rcu_bfRet (c : Fork.Cfg) (s : Fork.State) (t : Nat) (ls : CLState) (hr : CRel s t ls)
    (hp : ls.pc = .bwTop []) :
    ∃ s', Fork.step c s (.bfRet t) = some s' ∧ s'.upc t = .atFork ∧ s'.list = s.list ∧ s'.mutex = s.mutex ∧
      s'.pause = s.pause ∧ s'.paused = s.paused := bfRet_enabled c s t ls hr hp

/-- labels of other threads (application or helper), other than another thread's `forkChild`, leave `upc t` unchanged -/
theorem call_rcu_frame (c : Fork.Cfg) (s s' : Fork.State) (t : Nat) (L : Fork.Label) (st : Fork.step c s L = some s')
    (ho : owner L ≠ some t) (hf : ∀ u, L ≠ .forkChild u) : s'.upc t = s.upc t := cframe c s s' t L st ho hf

/-- while thread `t` holds `call_rcu_mutex` no label of another thread changes the helper list or the mutex owner: the
list-oracle discipline is sound -/
theorem call_rcu_frame_held (c : Fork.Cfg) (s s' : Fork.State) (t : Nat) (L : Fork.Label)
    (st : Fork.step c s L = some s') (ho : owner L ≠ some t) (hm : s.mutex = some t) :
    s'.mutex = some t ∧ s'.list = s.list := cframe_held c s s' t L st ho hm

/-- **no helper's flags are written other than by `or PAUSE` / `and ~PAUSE`** (L2 side): the L2 steps of a local step
leave `paused`, `stopped`, the queues and the list alone; `pause` is changed only by `orPause h` at `bfOr h _` (set) and
`clrPause h` at `apAnd h _` (cleared) -/
theorem call_rcu_writes (c : Fork.Cfg) (s s' : Fork.State) (t : Nat) (ls ls' : CLState) (lab : CLabel)
    (hr : CRel s t ls) (hl : cstep ls lab = some ls') (hrun : Fork.run c s (cL2 t ls lab) = some s') :
    s'.paused = s.paused ∧ s'.stopped = s.stopped ∧ s'.queue = s.queue ∧ s'.batch = s.batch ∧ s'.list = s.list ∧
    (s'.pause = s.pause ∨ (∃ h rem, lab = .orPause h ∧ ls.pc = .bfOr h rem ∧ s'.pause = upd s.pause h true) ∨
      (∃ h rem, lab = .clrPause h ∧ ls.pc = .apAnd h rem ∧ s'.pause = upd s.pause h false)) :=
  cstep_writes c s s' t ls ls' lab hr hl hrun

/-- bp: a local step with the global guard (a lock is free when `mutex_lock` returns; the thread owns what it unlocks) is
the enabled L2 step(s) `bL2` -/
theorem bp_lift (s : ForkBp.State) (t : Nat) (pc pc' : BPc) (l : BLabel)
    (hr : s.pc t = pc.abs) (hl : bstep pc l = some pc') (hg : bGuard s t l) :
    ∃ s', ForkBp.run s (bL2 t pc l) = some s' ∧ s'.pc t = pc'.abs := bproj_lift s t pc pc' l hr hl hg

/-- bp: what the L2 steps of a local step do to the masks (`omask t := mask t` at `sigBlock`, `saved := omask t` at
`lockRg`, `omask t := saved` at the parent's `unlockRg` / the child's prune, `mask t := omask t` at `unlockGp`) -/
theorem bp_masks (s s' : ForkBp.State) (t : Nat) (pc pc' : BPc) (l : BLabel) (hr : s.pc t = pc.abs)
    (hl : bstep pc l = some pc') (hrun : ForkBp.run s (bL2 t pc l) = some s') :
    (l = .sigBlock → s'.omask t = s.mask t ∧ s'.saved = s.saved ∧ s'.mask t = s.mask t) ∧
    (l = .lockGp → s'.omask t = s.omask t ∧ s'.saved = s.saved ∧ s'.mask t = s.mask t) ∧
    (l = .lockRg → s'.saved = s.omask t ∧ s'.mask t = s.mask t) ∧
    (l = .unlockRg → pc = .at .ap1 → s'.omask t = s.saved ∧ s'.saved = s.saved) ∧
    (l = .pruneFirst → s'.omask t = s.saved ∧ s'.saved = s.saved ∧ s'.registry = s.registry.filter (· = t)) ∧
    (l = .unlockRg → pc = .at .ac1 → s'.omask t = s.omask t) ∧
    (l = .unlockGp → s'.mask t = s.omask t ∧ s'.sigblk t = false) := bstep_masks s s' t pc pc' l hr hl hrun

/-- bp: labels of other threads (other than their `fork`) leave thread `t`'s pc, masks and blocked flag unchanged, and
`saved_fork_signal_mask` / `rcu_registry_lock` while `t` holds the latter -/
theorem bp_frame (s s' : ForkBp.State) (t : Nat) (L : ForkBp.Label) (st : ForkBp.step s L = some s') (ho : bowner L ≠ t)
    (hf : ∀ u, L ≠ .fork u) (hR : ∀ u, (s.pc u).holdsR = true → s.rgl = some u) :
    s'.pc t = s.pc t ∧ s'.mask t = s.mask t ∧ s'.omask t = s.omask t ∧ s'.sigblk t = s.sigblk t ∧
      (s.rgl = some t → s'.saved = s.saved ∧ s'.rgl = some t) := bframe s s' t L st ho hf hR

/-! ## `call_rcu_before_fork` / `call_rcu_after_fork_parent` -/

theorem tri_unfold {σ : Type} {R : Replay σ} {fuel st} {P Q : Pre σ} (h : Tri R fuel st P (norm Q))
    (env inp ls) (hp : P env inp ls) :
    ∃ out, exec fuel st env inp = .ok out ∧ ∃ ls', R.lr ls out.events = some ls' ∧
      (out.ctl = .normal ∨ out.ctl = .blocked ∨ out.ctl = .fuel) ∧ (out.ctl = .normal → Q out.env out.inp ls') := by
  obtain ⟨out, ho, ls', hl, hq⟩ := h env inp ls hp
  refine ⟨out, ho, ls', hl, ?_, ?_⟩
  · rcases out with ⟨ev, en, ip, ctl⟩
    cases ctl <;> simp_all [norm]
  · intro hc
    rw [hc] at hq
    exact hq

/-- **`call_rcu_before_fork()`** from L2's `idle`, for every helper list `l`, every loop budget, every oracle of the class
`BfInp l` (integers where the source computes on them, `pthread_mutex_lock` and FUTEX_WAKE succeed, the list answers
enumerate `l`), no rculfhash atfork hook registered: **never fails**; the abstraction of the events is accepted by the
local automaton, i.e. it is

    ongoing b ; [offline] ; lock l ; first ;
      ( next h ; orPause h ; ldFl h ; [ldFutex h ; [stFutex h ; wake h]] )  for h in l, in order ;
    first ; ( next h ; (ldFl h f with PAUSED clear)* ; ldFl h f with PAUSED set )  for h in l, in order ; [online]

(L2: `bfLock ; bfPause^|l| ; bfPauseDone ; bfWait^|l|`), every other access to a `flags` word being rejected; a completed
call is at `bwTop []` (L2 `bfWait []`, from which `bfRet` is enabled: `call_rcu_bfRet`) **holding the mutex**, online
again iff it was online.  The qsbr bracket (genuine defect repaired in /repo): the thread is offline from before the lock
until after the last poll. -/
theorem call_rcu_before_fork_refines (l : List Nat) (fuel : Nat) (env : Env) (inp : List Val) (ls : CLState)
    (hpc : ls.pc = .idle) (hhook : env.priv (.glob "registered_rculfhash_atfork") = some (.int 0)) (hi : BfInp l inp) :
    ∃ out, exec fuel Gen.Src.«call_rcu_before_fork» env inp = .ok out ∧
      ∃ ls', crun ls (out.events.filterMap (absEvC l)) = some ls' ∧
        (out.ctl = .normal ∨ out.ctl = .blocked ∨ out.ctl = .fuel) ∧
        (out.ctl = .normal → ls' = ⟨.bwTop [], l, false⟩ ∧ ls'.holds = true) := by
  obtain ⟨out, ho, ls', hl, hc, hq⟩ := tri_unfold (before_fork_tri l fuel) env inp ls ⟨hhook, hi, hpc⟩
  exact ⟨out, ho, ls', hl, hc, fun h => by have := hq h; simp only [BfDone] at this; subst this; exact ⟨rfl, rfl⟩⟩

/-- **`call_rcu_after_fork_parent()`** from the local state at the entry (L2 `afpClr l`, set by `forkParent`), oracles
`AfpInp l`: never fails; accepted sequence

    first ; ( next h ; clrPause h ) for h in l ; first ; ( next h ; (ldFl h f with PAUSED set)* ; ldFl h f with PAUSED clear ) for h in l ; unlock

(L2: `afpClr^|l| ; afpClrDone ; afpWait^|l| ; afpUnlock`); a completed call is at `idle`, the mutex released. -/
theorem call_rcu_after_fork_parent_refines (l : List Nat) (on : Bool) (fuel : Nat) (env : Env) (inp : List Val)
    (hhook : env.priv (.glob "registered_rculfhash_atfork") = some (.int 0)) (hi : AfpInp l inp) :
    ∃ out, exec fuel Gen.Src.«call_rcu_after_fork_parent» env inp = .ok out ∧
      ∃ ls', crun ⟨.apFirst, l, on⟩ (out.events.filterMap (absEvC l)) = some ls' ∧
        (out.ctl = .normal ∨ out.ctl = .blocked ∨ out.ctl = .fuel) ∧
        (out.ctl = .normal → ls' = ⟨.idle, l, on⟩ ∧ ls'.holds = false) := by
  obtain ⟨out, ho, ls', hl, hc, hq⟩ :=
    tri_unfold (after_fork_parent_tri l on fuel) env inp ⟨.apFirst, l, on⟩ ⟨hhook, hi, rfl⟩
  exact ⟨out, ho, ls', hl, hc, fun h => by have := hq h; simp only [ApDone] at this; subst this; exact ⟨rfl, rfl⟩⟩

/-- **`call_rcu_after_fork_child()`, PARTIAL: the path "call_rcu() has not been used"** (`cds_list_empty` answers true) from
the child's entry state (L2 `afcUnlock`, set by `forkChild`; the inherited mutex is held): never fails; events
`unlock ; listEmpty true` (L2 `afcUnlock ; afcNone`); the call returns at `idle` having written nothing.  The other path
(re-creation of the default helper, disposal of the stale ones) is NOT proved: see the report (the IR renders
`rcu_set_pointer(&default_call_rcu_data, crdp)` as an external call without effect on the private view, so the later plain
reads of `default_call_rcu_data` see a stale NULL in the IR semantics). -/
theorem call_rcu_after_fork_child_none_refines (l : List Nat) (on : Bool) (fuel : Nat) (env : Env) (inp : List Val)
    (hh : env.priv (.glob "registered_rculfhash_atfork") = some (.int 0)) (hi : AfcNoneInp inp) :
    ∃ out, exec fuel Gen.Src.«call_rcu_after_fork_child» env inp = .ok out ∧
      ∃ ls', crun ⟨.acUnlock, l, on⟩ (out.events.filterMap (absEvC l)) = some ls' ∧
        (out.ctl = .blocked ∨ (out.ctl = .ret none ∧ ls' = ⟨.idle, l, on⟩ ∧ out.events.length = 2 ∧
          out.env.priv = env.priv)) := after_fork_child_none_exec l on fuel env inp hh hi

/-- an event that writes a `flags` word -/
def writesFlags : Event → Bool
  | .st (.field _ f) _ _ => f == "flags"
  | .xchg (.field _ f) _ _ _ => f == "flags"
  | .cas (.field _ f) _ _ _ _ _ => f == "flags"
  | .rmw _ (.field _ f) _ _ _ => f == "flags"
  | _ => false

theorem cstep_bad (ls : CLState) : cstep ls .bad = none := by
  obtain ⟨pc, l, on⟩ := ls
  cases pc <;> simp [cstep] <;> split <;> simp

/-- **source side of "no helper's flags are written other than by `or PAUSE` / `and ~PAUSE`"**: in an event sequence
accepted by the local automaton, every event that writes a `flags` word is `uatomic_or(&crd h->flags, 16)` or
`uatomic_and(&crd h->flags, ~16)` of a helper `h` -/
theorem flags_written_only_by_pause (l : List Nat) : ∀ (evs : List Event) (ls ls' : CLState),
    crun ls (evs.filterMap (absEvC l)) = some ls' → ∀ e ∈ evs, writesFlags e = true →
      (∃ h r mo, e = .rmw .uor (.field (.obj h) "flags") (.int 16) r mo) ∨
      (∃ h r mo, e = .rmw .uand (.field (.obj h) "flags") (.int 18446744073709551599) r mo) := by
  intro evs
  induction evs with
  | nil => intro _ _ _ e he; cases he
  | cons a evs ih =>
    intro ls ls' hr e he hw
    rw [List.filterMap_cons] at hr
    cases ha : absEvC l a with
    | none =>
      rw [ha] at hr
      rcases List.mem_cons.mp he with rfl | he'
      · exfalso
        cases e <;> simp [writesFlags, absEvC] at hw ha
        all_goals (repeat' split at ha)
        all_goals simp_all
      · exact ih ls ls' hr e he' hw
    | some lab =>
      rw [ha] at hr
      simp only [crun] at hr
      cases hs : cstep ls lab with
      | none => rw [hs] at hr; cases hr
      | some ls1 =>
        rw [hs] at hr
        rcases List.mem_cons.mp he with rfl | he'
        · have hnb : lab ≠ .bad := by intro hb; rw [hb, cstep_bad] at hs; cases hs
          clear hr ih he
          cases e with
          | rmw op loc operand r mo =>
            cases loc with
            | field b f =>
              cases b with
              | obj h =>
                simp only [writesFlags, beq_iff_eq] at hw
                subst hw
                simp only [absEvC, if_true] at ha
                split at ha
                · rename_i h1; obtain ⟨rfl, rfl⟩ := h1; exact .inl ⟨h, r, mo, rfl⟩
                · split at ha
                  · rename_i h1; obtain ⟨rfl, rfl⟩ := h1; exact .inr ⟨h, r, mo, rfl⟩
                  · simp at ha; exact absurd ha.symm hnb
              | _ => simp [absEvC] at ha; exact absurd ha.symm hnb
            | _ => simp [writesFlags] at hw
          | st loc v mo =>
            exfalso
            cases loc <;> simp [writesFlags] at hw
            subst hw
            rename_i b
            cases b <;> simp [absEvC] at ha <;> exact hnb ha.symm
          | xchg => simp [absEvC] at ha; exact absurd ha.symm hnb
          | cas => simp [absEvC] at ha; exact absurd ha.symm hnb
          | _ => simp [writesFlags] at hw
        · exact ih ls1 ls' hr e he' hw

/-! ## urcu-bp -/

/-- **`urcu_bp_before_fork()`** from L2's `idle`, every oracle, `m` = the mask `pthread_sigmask(SIG_BLOCK)` hands back in
`&oldmask`: never fails; events `fill ; sigBlock ; lockGp ; lockRg` (L2 `bfCall ; bfGp ; bfRg`); a completed call is at
`atFork` with `saved_fork_signal_mask = m`, written only after both locks are held -/
theorem urcu_bp_before_fork_refines (fuel : Nat) (env : Env) (inp : List Val) (m : Val) (hm : env.priv oldmask = some m) :
    ∃ out, exec fuel Gen.Src.«bp.urcu_bp_before_fork» env inp = .ok out ∧ BfPost m env.priv out :=
  bp_before_fork_exec fuel env inp m hm

/-- **`urcu_bp_after_fork_parent()`** from L2's `ap1`, every oracle, `m` = the content of `saved_fork_signal_mask`: never
fails; `&oldmask = m` in every prefix; events `unlockRg ; unlockGp ; sigSet` (L2 `apRg ; apGp`); a completed call is at
`idle` and its last event is `pthread_sigmask(SIG_SETMASK, &oldmask, NULL)`: **the mask installed is the saved one** -/
theorem urcu_bp_after_fork_parent_refines (fuel : Nat) (env : Env) (inp : List Val) (m : Val)
    (hm : env.priv savedMask = some m) :
    ∃ out, exec fuel Gen.Src.«bp.urcu_bp_after_fork_parent» env inp = .ok out ∧
      AfPost (.at .ap1) (.at .ap2) .apSig m out := bp_after_fork_parent_exec fuel env inp m hm

/-- **`urcu_bp_after_fork_child()` after the prune** (`acTail` = every statement after the call of
`urcu_bp_prune_registry()`: `after_fork_child_eq`) from L2's `ac1`: as for the parent (L2 `acRg ; acGp`) -/
theorem urcu_bp_after_fork_child_tail_refines (fuel : Nat) (env : Env) (inp : List Val) (m : Val)
    (hm : env.priv savedMask = some m) :
    ∃ out, exec fuel acTail env inp = .ok out ∧ AfPost (.at .ac1) (.at .ac2) .acSig m out :=
  bp_after_fork_child_tail_exec fuel env inp m hm

example : Gen.Src.«bp.urcu_bp_after_fork_child» =
    .seq (.call none [] [] Gen.Src.«bp.urcu_bp_prune_registry») acTail := rfl

/-- **`urcu_bp_prune_registry()`** from L2's `ac0`: for every private view whose arena fields are well-typed (`WFall`) and
every oracle of NULLs / pointers (`AllGood`: chunk-list answers, opaque `pthread_t` values): never fails, for every loop
budget; the events are `pruneFirst ; prune*` (L2's atomic `acPrune`, taken at the first event – nobody else runs in the
child); a completed call has written nothing but `ctr` / `tid` / `alloc` / `used` fields (`Frame`).  Three nested loops:
chunk list (oracle), slots `0 .. capacity-1` (private view), the `continue` wrapper. -/
theorem urcu_bp_prune_registry_refines (fuel : Nat) (env : Env) (inp : List Val)
    (hwf : WFall env.priv) (hg : AllGood inp) :
    ∃ out, exec fuel Gen.Src.«bp.urcu_bp_prune_registry» env inp = .ok out ∧
      ∃ pc', blr (.at .ac0) out.events = some pc' ∧ (out.ctl = .normal ∨ out.ctl = .blocked ∨ out.ctl = .fuel) ∧
        (out.ctl = .normal → pc' = .at .ac1 ∧ WFall out.env.priv ∧ Frame env.priv out.env.priv) := by
  obtain ⟨out, ho, pc', hl, hc, hq⟩ :=
    tri_unfold (prune_tri env.priv fuel) env inp (.at .ac0) ⟨hwf, fun _ _ => rfl, hg, rfl⟩
  exact ⟨out, ho, pc', hl, hc, fun h => by obtain ⟨h1, h2, -, h4⟩ := hq h; exact ⟨h4, h1, h2⟩⟩

/-- **one slot of the prune** (`prSlot` = the body of the slot loop after `reader = &chunk->readers[spot_idx]`; it is a
piece of the generated function: see the `example` below): a reader record is pruned (`ctr = tid = alloc = 0`,
`cds_list_del(&reader->node)`, `chunk->used--`) **iff it is allocated and its `tid` is not what `pthread_self()` answers**;
otherwise nothing is written and no list operation is performed -/
theorem urcu_bp_prune_slot_effect (fuel : Nat) (env : Env) (c r : Loc) (av tv sv d : Val) (u : Int) (rest : List Val)
    (hc : env.vars "chunk" = some (.ptr c)) (hr : env.vars "reader" = some (.ptr r))
    (ha : env.priv (.field r "alloc") = some av) (ht : env.priv (.field r "tid") = some tv)
    (hu : env.priv (.field c "used") = some (.int u)) :
    ∃ out, exec fuel prSlot env (sv :: d :: rest) = .ok out ∧ out.ctl = .brk ∧
      (if av.truthy = true ∧ tv ≠ sv then
        out.events = [.ext "pthread_self" [] sv, .ext "cds_list_del" [.ptr (.field r "node")] d] ∧
        out.env.priv (.field r "alloc") = some (.int 0) ∧ out.env.priv (.field r "tid") = some (.int 0) ∧
        out.env.priv (.field r "ctr") = some (.int 0) ∧ out.env.priv (.field c "used") = some (.int (u - 1))
       else
        out.env.priv = env.priv ∧
          out.events = if av.truthy = true then [.ext "pthread_self" [] sv] else []) :=
  prSlot_effect fuel env c r av tv sv d u rest hc hr ha ht hu

/-- `prSlot` is a piece of the generated `urcu_bp_prune_registry`: chunk loop ∋ slot loop ∋ `continue` wrapper = `reader := …; prSlot` -/
example : Gen.Src.«bp.urcu_bp_prune_registry» = .seq prFirst (.loop prOuter) ∧ (splitSeq 4 prOuter).2 = .loop prMid ∧
    prMid = .ifte prCond (.seq (.loop (.seq prReader prSlot)) prStep) .brk := ⟨rfl, rfl, rfl⟩

/-- **`urcu_bp_after_fork_child()`** from L2's `ac0`, `m` = the content of `saved_fork_signal_mask`: never fails; events
`pruneFirst ; prune* ; unlockRg ; unlockGp ; sigSet` (L2 `acPrune ; acRg ; acGp`); a completed call is at `idle` and the mask
installed by its last event is the saved one -/
theorem urcu_bp_after_fork_child_refines (fuel : Nat) (env : Env) (inp : List Val) (m : Val)
    (hwf : WFall env.priv) (hg : AllGood inp) (hm : env.priv savedMask = some m) :
    ∃ out, exec fuel Gen.Src.«bp.urcu_bp_after_fork_child» env inp = .ok out ∧
      ∃ pc', blr (.at .ac0) out.events = some pc' ∧ (out.ctl = .normal ∨ out.ctl = .blocked ∨ out.ctl = .fuel) ∧
        (out.ctl = .normal → pc' = .at .idle ∧ out.env.priv oldmask = some m ∧
          out.events.getLast? = some (.ext "pthread_sigmask" [.int 2, .ptr oldmask, .int 0] (out.env.vars "ret").get!)) :=
  bp_after_fork_child_exec fuel env inp m hwf hg hm

/-- **mask_restored, source to L2**: composing `before_fork` and `after_fork_parent` on the private view: whatever `m` was
handed back at entry is what `&oldmask` holds when the final `sigSet` is issued, provided `saved_fork_signal_mask` is not
written in between (L2: `bp_frame`, it is protected by both locks) -/
theorem bp_mask_roundtrip (fuel1 fuel2 : Nat) (env : Env) (inp1 inp2 : List Val) (m : Val) (hm : env.priv oldmask = some m)
    (out1 : Out) (h1 : exec fuel1 Gen.Src.«bp.urcu_bp_before_fork» env inp1 = .ok out1) (hc : out1.ctl = .normal)
    (env2 : Env) (hsame : env2.priv savedMask = out1.env.priv savedMask) :
    ∃ out2, exec fuel2 Gen.Src.«bp.urcu_bp_after_fork_parent» env2 inp2 = .ok out2 ∧ out2.env.priv oldmask = some m := by
  obtain ⟨o1, ho1, pc1, _, _, hcase⟩ := bp_before_fork_exec fuel1 env inp1 m hm
  rw [h1] at ho1; cases ho1
  rcases hcase with ⟨hb, _⟩ | ⟨_, _, hs, _⟩
  · rw [hc] at hb; cases hb
  · obtain ⟨out2, ho2, pc2, _, hm2, _⟩ := bp_after_fork_parent_exec fuel2 env2 inp2 m (by rw [hsame, hs])
    exact ⟨out2, ho2, hm2⟩

/-! ## non-vacuity: concrete runs -/

/-- no rculfhash atfork hook; the kernel handed back mask 5 in `&oldmask`; `saved_fork_signal_mask` holds 5 -/
def env0 : Env where
  vars _ := none
  priv l := if l = .glob "registered_rculfhash_atfork" then some (.int 0)
    else if l = .glob "&oldmask" then some (.int 5)
    else if l = .glob "saved_fork_signal_mask" then some (.int 5) else none

/-- helper list `[3]`, thread not online, helper 3 neither RT nor asleep (`futex == 0`); the first poll does not see PAUSED
(flags 16 = PAUSE), the second does (48 = PAUSE | PAUSED) -/
def inpBf : List Val :=
  [.int 0, .int 0, .ptr (.obj 3), .int 0, .int 16, .int (16 : Nat), .int 0, .ptr (.obj 3), .int 0, .int (16 : Nat), .int 0,
    .int (48 : Nat)]

/-- 14 events, 11 labels; ends at `bwTop []` = L2's `bfWait []`, holding the mutex -/
example : ∃ out, exec 3 Gen.Src.«call_rcu_before_fork» env0 inpBf = .ok out ∧
    out.events = [.ext "_rcu_read_ongoing" [] (.int 0), .ext "pthread_mutex_lock" [.ptr (.glob "call_rcu_mutex")] (.int 0),
      .ext "cds_list_for_each_entry.first" [.ptr (.glob "call_rcu_data_list")] (.ptr (.obj 3)),
      .ext "cds_list_for_each_entry.next" [.ptr (.glob "call_rcu_data_list"), .ptr (.obj 3)] (.int 0),
      .rmw .uor (.field (.obj 3) "flags") (.int 16) (.int 16) 0, .fence .barrier,
      .ld (.field (.obj 3) "flags") (.int 16) 0, .fence .mb, .ld (.field (.obj 3) "futex") (.int 0) 0,
      .ext "cds_list_for_each_entry.first" [.ptr (.glob "call_rcu_data_list")] (.ptr (.obj 3)),
      .ext "cds_list_for_each_entry.next" [.ptr (.glob "call_rcu_data_list"), .ptr (.obj 3)] (.int 0),
      .ld (.field (.obj 3) "flags") (.int 16) 0, .ext "poll" [.int 0, .int 0, .int 1] (.int 0),
      .ld (.field (.obj 3) "flags") (.int 48) 0] ∧
    out.events.filterMap (absEvC [3]) = [.ongoing false, .lock [3], .first (some 3), .next 3 none, .orPause 3, .ldFl 3 16,
      .ldFutex 3 0, .first (some 3), .next 3 none, .ldFl 3 16, .ldFl 3 48] ∧
    clr [3] ⟨.idle, [], false⟩ out.events = some ⟨.bwTop [], [3], false⟩ ∧ out.ctl = .normal := by
  simp [Gen.Src.«call_rcu_before_fork», Gen.Src.«call_rcu_lock», Gen.Src.«wake_call_rcu_thread»,
    Gen.Src.«call_rcu_wake_up», iterate, inpBf, env0,
    block, exec, eval, evalArgs, execPrim, bindParams, Env.setVar, Env.setPriv, setDst, asLoc, bind, Except.bind, evalBin,
    evalUn, boolV, Val.truthy, absEvC, List.filterMap_cons, clr, crun, cstep, ForkL.bit, hval, listHead, mutexLoc]

theorem inpBf_ok : BfInp [3] inpBf := by
  refine ⟨0, rfl, ?_⟩
  rw [if_pos rfl]
  refine ⟨rfl, rfl, rfl, 16, rfl, ?_⟩
  rw [if_neg (by decide)]
  refine ⟨0, rfl, ?_⟩
  rw [if_neg (by decide)]
  refine ⟨rfl, rfl, ?_⟩
  simp only [PollInp]
  refine ⟨16, rfl, ?_⟩
  rw [if_neg (by decide)]
  exact ⟨48, rfl, by rw [if_pos (by decide)]; trivial⟩

example := call_rcu_before_fork_refines [3] 3 env0 inpBf ⟨.idle, [], false⟩ rfl (by simp [env0]) inpBf_ok

/-- helper list `[3]`; the first poll still sees PAUSED (32), the second sees it clear -/
def inpAfp : List Val :=
  [.ptr (.obj 3), .int 0, .int 32, .ptr (.obj 3), .int 0, .int (32 : Nat), .int 0, .int (0 : Nat), .int 0]

/-- 9 events, 8 labels; ends at `idle` -/
example : ∃ out, exec 3 Gen.Src.«call_rcu_after_fork_parent» env0 inpAfp = .ok out ∧
    out.events = [.ext "cds_list_for_each_entry.first" [.ptr (.glob "call_rcu_data_list")] (.ptr (.obj 3)),
      .ext "cds_list_for_each_entry.next" [.ptr (.glob "call_rcu_data_list"), .ptr (.obj 3)] (.int 0),
      .rmw .uand (.field (.obj 3) "flags") (.int 18446744073709551599) (.int 32) 5,
      .ext "cds_list_for_each_entry.first" [.ptr (.glob "call_rcu_data_list")] (.ptr (.obj 3)),
      .ext "cds_list_for_each_entry.next" [.ptr (.glob "call_rcu_data_list"), .ptr (.obj 3)] (.int 0),
      .ld (.field (.obj 3) "flags") (.int 32) 0, .ext "poll" [.int 0, .int 0, .int 1] (.int 0),
      .ld (.field (.obj 3) "flags") (.int 0) 0,
      .ext "pthread_mutex_unlock" [.ptr (.glob "call_rcu_mutex")] (.int 0)] ∧
    out.events.filterMap (absEvC [3]) = [.first (some 3), .next 3 none, .clrPause 3, .first (some 3), .next 3 none,
      .ldFl 3 32, .ldFl 3 0, .unlock] ∧
    clr [3] ⟨.apFirst, [3], false⟩ out.events = some ⟨.idle, [3], false⟩ ∧ out.ctl = .normal := by
  simp [Gen.Src.«call_rcu_after_fork_parent», Gen.Src.«call_rcu_unlock», iterate, inpAfp, env0,
    block, exec, eval, evalArgs, execPrim, bindParams, Env.setVar, Env.setPriv, setDst, asLoc, bind, Except.bind, evalBin,
    evalUn, boolV, Val.truthy, absEvC, List.filterMap_cons, clr, crun, cstep, ForkL.bit, hval, listHead, mutexLoc]

theorem inpAfp_ok : AfpInp [3] inpAfp := by
  refine ⟨rfl, rfl, rfl, rfl, ?_⟩
  simp only [PollInp]
  refine ⟨32, rfl, ?_⟩
  rw [if_neg (by decide)]
  exact ⟨0, rfl, by rw [if_pos (by decide)]; exact ⟨rfl, trivial⟩⟩

example := call_rcu_after_fork_parent_refines [3] false 3 env0 inpAfp (by simp [env0]) inpAfp_ok

example := call_rcu_after_fork_child_none_refines [] false 1 env0 [.int 0, .int 1] (by simp [env0])
  ⟨rfl, 1, by decide, rfl⟩

example : ∃ out, exec 1 Gen.Src.«call_rcu_after_fork_child» env0 [.int 0, .int 1] = .ok out ∧
    out.events = [.ext "pthread_mutex_unlock" [.ptr (.glob "call_rcu_mutex")] (.int 0),
      .ext "cds_list_empty" [.ptr (.glob "call_rcu_data_list")] (.int 1)] ∧
    out.events.filterMap (absEvC []) = [.unlock, .listEmpty true] ∧ out.ctl = .ret none := by
  simp [Gen.Src.«call_rcu_after_fork_child», Gen.Src.«call_rcu_unlock», env0,
    block, exec, eval, evalArgs, execPrim, bindParams, Env.setVar, Env.setPriv, setDst, asLoc, bind, Except.bind, evalBin,
    evalUn, boolV, Val.truthy, absEvC, List.filterMap_cons, listHead, mutexLoc]

/-- bp `before_fork`: 4 events, `fill ; sigBlock ; lockGp ; lockRg`, ends at `atFork` with the mask 5 saved -/
example : ∃ out, exec 1 Gen.Src.«bp.urcu_bp_before_fork» env0 [.int 0, .int 0, .int 0, .int 0] = .ok out ∧
    out.events = [.ext "sigfillset" [.ptr (.glob "&newmask")] (.int 0),
      .ext "pthread_sigmask" [.int 0, .ptr (.glob "&newmask"), .ptr (.glob "&oldmask")] (.int 0),
      .ext "mutex_lock" [.ptr (.glob "rcu_gp_lock")] (.int 0), .ext "mutex_lock" [.ptr (.glob "rcu_registry_lock")] (.int 0)] ∧
    out.events.filterMap absEvB = [.fill, .sigBlock, .lockGp, .lockRg] ∧
    blr (.at .idle) out.events = some (.at .atFork) ∧ out.env.priv savedMask = some (.int 5) ∧ out.ctl = .normal := by
  simp [Gen.Src.«bp.urcu_bp_before_fork», env0,
    block, exec, eval, evalArgs, execPrim, bindParams, Env.setVar, Env.setPriv, setDst, asLoc, bind, Except.bind,
    absEvB, List.filterMap_cons, blr, brun, bstep, oldmask, newmask, savedMask, gpLock, rgLock]

example := urcu_bp_before_fork_refines 1 env0 [.int 0, .int 0, .int 0, .int 0] (.int 5) (by simp [env0, oldmask])

/-- bp `after_fork_parent`: 3 events, `unlockRg ; unlockGp ; sigSet`, `&oldmask` = the saved mask 5 -/
example : ∃ out, exec 1 Gen.Src.«bp.urcu_bp_after_fork_parent» env0 [.int 0, .int 0, .int 0] = .ok out ∧
    out.events = [.ext "mutex_unlock" [.ptr (.glob "rcu_registry_lock")] (.int 0),
      .ext "mutex_unlock" [.ptr (.glob "rcu_gp_lock")] (.int 0),
      .ext "pthread_sigmask" [.int 2, .ptr (.glob "&oldmask"), .int 0] (.int 0)] ∧
    out.events.filterMap absEvB = [.unlockRg, .unlockGp, .sigSet] ∧
    blr (.at .ap1) out.events = some (.at .idle) ∧ out.env.priv oldmask = some (.int 5) ∧ out.ctl = .normal := by
  simp [Gen.Src.«bp.urcu_bp_after_fork_parent», env0,
    block, exec, eval, evalArgs, execPrim, bindParams, Env.setVar, Env.setPriv, setDst, asLoc, bind, Except.bind,
    absEvB, List.filterMap_cons, blr, brun, bstep, oldmask, newmask, savedMask, gpLock, rgLock]

example := urcu_bp_after_fork_parent_refines 1 env0 [.int 0, .int 0, .int 0] (.int 5) (by simp [env0, savedMask])
example := urcu_bp_after_fork_child_tail_refines 1 env0 [.int 0, .int 0, .int 0] (.int 5) (by simp [env0, savedMask])

/-- an arena where every object has `capacity = 2`, `used = 1`, every reader record is allocated with the `tid` of
another thread; the saved mask is 5 -/
def envA : Env where
  vars _ := none
  priv l := match l with
    | .field _ f => if f = "capacity" then some (.int 2) else if f = "used" then some (.int 1)
        else if f = "alloc" then some (.int 1) else if f = "tid" then some (.ptr (.tls "other")) else none
    | .glob g => if g = "saved_fork_signal_mask" then some (.int 5) else none
    | _ => none

theorem envA_wf : WFall envA.priv :=
  ⟨fun _ => 2, fun _ => 1, fun _ => .int 1, fun _ => .ptr (.tls "other"), by intro c; simp [envA]⟩

/-- child with one chunk of two allocated records of another thread: both are pruned -/
def inpAc : List Val :=
  [.ptr (.obj 0), .int 0, .ptr (.tls "self"), .int 0, .ptr (.tls "self"), .int 0, .int 0, .int 0, .int 0]

theorem inpAc_ok : AllGood inpAc := by
  intro v hv
  simp only [inpAc, List.mem_cons, List.not_mem_nil, or_false] at hv
  rcases hv with rfl | rfl | rfl | rfl | rfl | rfl | rfl | rfl | rfl <;>
    first | exact .inl rfl | exact .inr ⟨_, rfl⟩

example := urcu_bp_after_fork_child_refines 3 envA inpAc (.int 5) envA_wf inpAc_ok (by simp [envA, savedMask])

/-- 9 events: `pruneFirst`, `.next`, two records pruned (`pthread_self`, `cds_list_del` each), `unlockRg ; unlockGp ; sigSet` -/
example : ∃ out, exec 3 Gen.Src.«bp.urcu_bp_after_fork_child» envA inpAc = .ok out ∧
    out.events.filterMap absEvB = [.pruneFirst, .prune, .prune, .prune, .prune, .prune, .unlockRg, .unlockGp, .sigSet] ∧
    blr (.at .ac0) out.events = some (.at .idle) ∧ out.env.priv oldmask = some (.int 5) ∧ out.ctl = .normal := by
  have h10 : Int.repr 1 ≠ Int.repr 0 := by decide
  have h01 : Int.repr 0 ≠ Int.repr 1 := by decide
  simp [h10, h01, Gen.Src.«bp.urcu_bp_after_fork_child», Gen.Src.«bp.urcu_bp_prune_registry», Gen.Src.«bp.cleanup_thread», iterate,
    inpAc, envA, block, exec, eval, evalArgs, execPrim, bindParams, Env.setVar, Env.setPriv, setDst, asLoc, bind, Except.bind,
    evalBin, evalUn, boolV, Val.truthy, absEvB, List.filterMap_cons, blr, brun, bstep, oldmask, newmask, savedMask, gpLock,
    rgLock, chunkList]

/-- the local runs lift to L2 (`call_rcu_lift` along the labels of the first example): thread 0 of a 1-thread
configuration, helper list `[3]`… here on the smallest L2 state where it is meaningful: after `createDflt` the list is
`[0]`; `bfLock ; bfPause ; bfPauseDone` are the L2 labels of `lock [0] ; first ; next ; orPause 0 ; … ; first` -/
example : (Fork.run ⟨1⟩ Fork.init [.createDflt 0, .bfLock 0, .bfPause 0, .bfPauseDone 0]).map
    (fun s => s.upc 0 == .bfWait [0] && s.pause 0 && s.mutex == some 0) = some true := by decide

end UrcuVerif.Props.SrcFork
