import UrcuVerif.Handshake.LiveTso
import UrcuVerif.Handshake.LiveWaitNode
import UrcuVerif.Handshake.LiveQsbr
/-!
# C02 liveness — "eventually" as theorems about fair runs

`Props/C02.lean` proves the safety half of liveness (`no_lost_wakeup`, `waker_not_stuck`, `waker_measure`,
`wake_wakes`).  Here the temporal half: on EVERY infinite run of the model (idle steps allowed,
`Machine/Fair.lean`) from any reachable state that satisfies the stated fairness / environment hypotheses, the
sleeper is eventually woken.  The hypotheses are exactly what was "trusted base 5" (scheduler fairness, read-side
sections end); they are now premises of theorems.
-/
namespace UrcuVerif.Handshake
open UrcuVerif UrcuVerif.Fair

/-- **leader_eventually_woken** (x86-TSO handshake through `rcu_gp.futex`, any number of readers, both barrier
configurations, every placement of spurious returns, every reachable start state).  Hypotheses about the run:
* `hfair`: weak fairness for every reader's *post-section* steps – the rest of `rcu_read_unlock()` (fence, futex test,
  `futex := 0`, `FUTEX_WAKE`) and the commits of its store buffer: a reader that can continue is eventually scheduled,
  a buffered store eventually reaches memory;
* `hleave`: every read-side section eventually ends (a reader does not stay at the leaving store `k0` for ever).
Then a grace-period leader asleep in `FUTEX_WAIT(&rcu_gp.futex, -1)` eventually leaves the sleep (it is woken by a
reader's `FUTEX_WAKE`, or returns spuriously and re-checks).  No fairness is assumed for the leader. -/
theorem leader_eventually_woken (c : Cfg) (hc : c.WF) {ρ : Nat → State} {ℓ : Nat → Option Label}
    (hrun : IsRun (step c) ρ ℓ) (hreach : Reach c (ρ 0))
    (hfair : ∀ i, i < c.n → WeakFair (step c) ρ ℓ (fun l => l ∈ postLabels i))
    (hleave : ∀ i, i < c.n → ∀ j, (ρ j).kpc i = .k0 → ∃ j', j ≤ j' ∧ (ρ j').kpc i ≠ .k0) :
    ∀ i, (ρ i).wpc = .wsleep → ∃ j, i ≤ j ∧ (ρ j).wpc ≠ .wsleep := by
  intro i0 _
  have hinv : ∀ j, i0 ≤ j → Inv c (ρ j) := fun j _ =>
    inv_along hrun (Inv c) (fun s l s' h st => inv_step c hc h st) 0 (inv_reach c hc hreach) j (Nat.zero_le j)
  -- agents: (i, false) = reader i still in its section, (i, true) = reader i on the rest of its unlock path
  refine fair_measure_leadsto_family hrun (κ := Nat × Bool)
    (fun k l => k.1 < c.n ∧ if k.2 then l ∈ postLabels k.1 else l = .k0 k.1)
    (fun k s => k.1 < c.n ∧ if k.2 then (s.kpc k.1 ≠ .k0 ∧ s.kpc k.1 ≠ .k4) else s.kpc k.1 = .k0)
    (Inv c) (fun s => s.wpc ≠ .wsleep) (total c) i0 hinv ?_ ?_ ?_ ?_ ?_
  · -- progress of each agent
    rintro ⟨i, b⟩ j0 hen
    have hi : i < c.n := (hen j0 (Nat.le_refl _)).1
    cases b with
    | true =>
      obtain ⟨j, hj, l, hl, ha⟩ := hfair i hi j0 (fun j hj => by
        have h := (hen j hj).2
        simp only [↓reduceIte] at h
        exact post_enabled c i hi h.1 h.2)
      exact ⟨j, hj, l, hl, hi, by simpa using ha⟩
    | false =>
      have h0 := (hen j0 (Nat.le_refl _)).2
      simp only [Bool.false_eq_true, ↓reduceIte] at h0
      obtain ⟨j', hj', hne⟩ := hleave i hi j0 h0
      have := (hen j' hj').2
      simp only [Bool.false_eq_true, ↓reduceIte] at this
      exact absurd this hne
  · -- (1) some reader is still going to wake the leader
    intro s I hs
    have hs : s.wpc = .wsleep := Classical.byContradiction (fun h => hs h)
    have : ∃ i, i < c.n ∧ s.kpc i ≠ .k4 := by
      rcases I.fut_range with h0 | h1
      · obtain ⟨i, hi, hk⟩ := I.asleep_0 hs h0
        exact ⟨i, hi, by rw [hk]; decide⟩
      · obtain ⟨i, hi, hk⟩ := I.asleep_m1 (Or.inr hs) h1
        refine ⟨i, hi, ?_⟩
        unfold willWake at hk
        grind
    obtain ⟨i, hi, h4⟩ := this
    by_cases h0 : s.kpc i = .k0
    · exact ⟨(i, false), hi, by simpa using h0⟩
    · exact ⟨(i, true), hi, by simpa using ⟨h0, h4⟩⟩
  · -- (2) a reader's own step strictly decreases the total
    rintro s l s' ⟨i, b⟩ I hs ⟨hi, ha⟩ st
    have hs : s.wpc = .wsleep := Classical.byContradiction (fun h => hs h)
    have hown : l ∈ ownLabels i := by
      rw [ownLabels_iff]
      cases b <;> simp at ha
      · exact Or.inl ha
      · exact Or.inr (by simpa using ha)
    rcases sleep_frame c hs st with h | ⟨-, hfr⟩
    · exact Or.inr h
    · left
      refine sumTo_lt i hi (waker_measure c i hown st) (fun j hj => ?_)
      by_cases hji : j = i
      · subst hji; exact Nat.le_of_lt (waker_measure c j hown st)
      · have := hfr j (fun h => hji (ownLabels_disjoint h hown))
        simp only [measure, this.1, this.2.1, this.2.2]; exact Nat.le_refl _
  · -- (3) any other step leaves every reader < n untouched (or wakes the leader)
    intro s l s' I hs hna st
    have hs : s.wpc = .wsleep := Classical.byContradiction (fun h => hs h)
    rcases sleep_frame c hs st with h | ⟨-, hfr⟩
    · exact Or.inr h
    · left
      refine Nat.le_of_eq (sumTo_congr (fun j hj => ?_))
      have hnot : l ∉ ownLabels j := by
        intro hown
        rcases (ownLabels_iff j l).mp hown with h | h
        · exact hna (j, false) ⟨hj, by simpa using h⟩
        · exact hna (j, true) ⟨hj, by simpa using h⟩
      have := hfr j hnot
      simp only [measure, this.1, this.2.1, this.2.2]
  · -- (4) other threads' steps do not disable a reader
    rintro s l s' ⟨i, b⟩ I hs ⟨hi, hen⟩ hna st
    left
    refine ⟨hi, ?_⟩
    cases b with
    | false =>
      simp only [Bool.false_eq_true, ↓reduceIte] at hen ⊢
      rcases k0_only c i hen st with h | h
      · exact h
      · exact absurd ⟨hi, by simpa using h⟩ hna
    | true =>
      simp only [↓reduceIte] at hen ⊢
      have hnot : l ∉ ownLabels i := by
        intro hown
        rcases (ownLabels_iff i l).mp hown with h | h
        · subst h
          simp [step, hen.1] at st
        · exact hna ⟨hi, by simpa using h⟩
      rw [kpc_frame c i hnot st]; exact hen

/-- the same under plain thread fairness: weak fairness for *all* of each reader's steps (the leaving store `k0`
included – i.e. the scheduler is fair and sections end because the reader code reaches its unlock) -/
theorem leader_eventually_woken' (c : Cfg) (hc : c.WF) {ρ : Nat → State} {ℓ : Nat → Option Label}
    (hrun : IsRun (step c) ρ ℓ) (hreach : Reach c (ρ 0))
    (hfair : ∀ i, i < c.n → WeakFair (step c) ρ ℓ (fun l => l ∈ postLabels i))
    (hfair0 : ∀ i, i < c.n → WeakFair (step c) ρ ℓ (fun l => l = .k0 i)) :
    ∀ i, (ρ i).wpc = .wsleep → ∃ j, i ≤ j ∧ (ρ j).wpc ≠ .wsleep := by
  refine leader_eventually_woken c hc hrun hreach hfair ?_
  intro i hi j h0
  apply Classical.byContradiction
  intro hno
  have hall : ∀ j', j ≤ j' → (ρ j').kpc i = .k0 := fun j' hj' =>
    Classical.byContradiction (fun h => hno ⟨j', hj', h⟩)
  obtain ⟨m, hm, l, hl, rfl⟩ := hfair0 i hi j (fun j' hj' => ⟨.k0 i, rfl, by simp [step, hi, hall j' hj']⟩)
  have st := hrun.move m _ hl
  have := hall (m + 1) (by omega)
  simp only [step] at st; split at st <;> simp only [Option.some.injEq, reduceCtorEq] at st
  rw [← st] at this; simp [upd] at this

/-- **readers_eventually_done**: under the same hypotheses every reader eventually completes `rcu_read_unlock()` and
all its buffered stores reach memory (`total = 0`, i.e. `AllDone`) – whatever the leader does meanwhile. -/
theorem readers_eventually_done (c : Cfg) (hc : c.WF) {ρ : Nat → State} {ℓ : Nat → Option Label}
    (hrun : IsRun (step c) ρ ℓ) (hreach : Reach c (ρ 0))
    (hfair : ∀ i, i < c.n → WeakFair (step c) ρ ℓ (fun l => l ∈ postLabels i))
    (hleave : ∀ i, i < c.n → ∀ j, (ρ j).kpc i = .k0 → ∃ j', j ≤ j' ∧ (ρ j').kpc i ≠ .k0) :
    ∀ i, ∃ j, i ≤ j ∧ total c (ρ j) = 0 := by
  intro i0
  have hinv : ∀ j, i0 ≤ j → Inv c (ρ j) := fun j _ =>
    inv_along hrun (Inv c) (fun s l s' h st => inv_step c hc h st) 0 (inv_reach c hc hreach) j (Nat.zero_le j)
  refine fair_measure_leadsto_family hrun (κ := Nat × Bool)
    (fun k l => k.1 < c.n ∧ if k.2 then l ∈ postLabels k.1 else l = .k0 k.1)
    (fun k s => k.1 < c.n ∧ if k.2 then (s.kpc k.1 ≠ .k0 ∧ measure s k.1 ≠ 0) else s.kpc k.1 = .k0)
    (Inv c) (fun s => total c s = 0) (total c) i0 hinv ?_ ?_ ?_ ?_ ?_
  · rintro ⟨i, b⟩ j0 hen
    have hi : i < c.n := (hen j0 (Nat.le_refl _)).1
    cases b with
    | true =>
      obtain ⟨j, hj, l, hl, ha⟩ := hfair i hi j0 (fun j hj => by
        have h := (hen j hj).2
        simp only [↓reduceIte] at h
        exact post_enabled' c i hi h.1 h.2)
      exact ⟨j, hj, l, hl, hi, by simpa using ha⟩
    | false =>
      have h0 := (hen j0 (Nat.le_refl _)).2
      simp only [Bool.false_eq_true, ↓reduceIte] at h0
      obtain ⟨j', hj', hne⟩ := hleave i hi j0 h0
      have := (hen j' hj').2
      simp only [Bool.false_eq_true, ↓reduceIte] at this
      exact absurd this hne
  · intro s I hs
    have : ∃ i, i < c.n ∧ measure s i ≠ 0 := Classical.byContradiction (fun hno =>
      hs (sumTo_eq_zero (fun i hi => Classical.byContradiction (fun h => hno ⟨i, hi, h⟩))))
    obtain ⟨i, hi, hm⟩ := this
    by_cases h0 : s.kpc i = .k0
    · exact ⟨(i, false), hi, by simpa using h0⟩
    · exact ⟨(i, true), hi, by simpa using ⟨h0, hm⟩⟩
  · rintro s l s' ⟨i, b⟩ I hs ⟨hi, ha⟩ st
    have hown : l ∈ ownLabels i := by
      rw [ownLabels_iff]
      cases b <;> simp at ha
      · exact Or.inl ha
      · exact Or.inr (by simpa using ha)
    exact Or.inl (sumTo_lt i hi (waker_measure c i hown st) (fun j _ => measure_le c j st))
  · intro s l s' I hs hna st
    exact Or.inl (total_le c st)
  · rintro s l s' ⟨i, b⟩ I hs ⟨hi, hen⟩ hna st
    cases b with
    | false =>
      left; refine ⟨hi, ?_⟩
      simp only [Bool.false_eq_true, ↓reduceIte] at hen ⊢
      rcases k0_only c i hen st with h | h
      · exact h
      · exact absurd ⟨hi, by simpa using h⟩ hna
    | true =>
      simp only [↓reduceIte] at hen ⊢
      have hnot : l ∉ ownLabels i := by
        intro hown
        rcases (ownLabels_iff i l).mp hown with h | h
        · subst h
          simp [step, hen.1] at st
        · exact hna ⟨hi, by simpa using h⟩
      have hle := measure_frame c i hnot st
      by_cases heq : measure s' i = measure s i
      · left; refine ⟨hi, ?_⟩
        rw [kpc_frame c i hnot st, heq]; exact hen
      · right; right
        exact sumTo_lt i hi (by omega) (fun j _ => measure_le c j st)

/-- **gp_eventually_completes** ("grace periods always complete once readers leave", handshake level): if moreover
the leader's own thread is weakly fair (`hlead`; its sleep in `FUTEX_WAIT` is not one of its steps – it is ended by a
reader's wake-up, which `leader_eventually_woken` guarantees, or by the environment), `wait_for_readers()` reaches its
end (`wdone`): the leader is woken whenever it sleeps, re-scans, and finds every reader quiescent at the latest once
all of them have left. -/
theorem gp_eventually_completes (c : Cfg) (hc : c.WF) {ρ : Nat → State} {ℓ : Nat → Option Label}
    (hrun : IsRun (step c) ρ ℓ) (hreach : Reach c (ρ 0))
    (hfair : ∀ i, i < c.n → WeakFair (step c) ρ ℓ (fun l => l ∈ postLabels i))
    (hleave : ∀ i, i < c.n → ∀ j, (ρ j).kpc i = .k0 → ∃ j', j ≤ j' ∧ (ρ j').kpc i ≠ .k0)
    (hlead : WeakFair (step c) ρ ℓ (leaderLabel c)) :
    ∃ j, (ρ j).wpc = .wdone := by
  have hinv : ∀ j, Inv c (ρ j) := fun j =>
    inv_along hrun (Inv c) (fun s l s' h st => inv_step c hc h st) 0 (inv_reach c hc hreach) j (Nat.zero_le j)
  obtain ⟨i1, -, h1⟩ := readers_eventually_done c hc hrun hreach hfair hleave 0
  have hstab : ∀ j, i1 ≤ j → total c (ρ j) = 0 :=
    stable_along hrun (fun _ => True) (fun s => total c s = 0) i1 (fun _ _ => trivial)
      (fun s l s' _ h st => by have := total_le c st; omega) h1
  obtain ⟨j, -, hj⟩ := fair_measure_leadsto hrun (leaderLabel c) (fun s => Inv c s ∧ AllDone c s) (fun s => s.wpc = .wdone)
    (lrank c) i1 (fun j hj => ⟨hinv j, allDone_of_total c (hstab j hj)⟩) hlead
    (fun s h hg => leader_enabled c h.1 h.2 hg)
    (fun s l s' h _ hl st => Or.inl (leader_dec c h.1 h.2 hl st))
    (fun s l s' h _ hl st => Or.inl (leader_other_le c h.1 h.2 hl st))
  exact ⟨j, hj⟩

/-! ### Non-vacuity: a concrete fair run on which the leader sleeps and is woken

Configuration `cfgMb` (reader-side fence, 2 readers); the finite prefix below followed by idling for ever
(`Fair.prefixState`).  The leader sleeps at position 4 and is woken by reader 0's `FUTEX_WAKE` at position 11;
reader 1 then leaves its section too, the leader re-scans and completes (position 21).  All hypotheses of
`leader_eventually_woken` and of `gp_eventually_completes` hold on this run. -/

def wokenPrefix : List Label :=
  [.w0, .wbarRet, .w1Some 0, .w2Sleep, .k0 0, .flushDone 0, .kf 0, .k1 0, .k2Wake 0, .flushFut 0, .k3 0,
   .k0 1, .flushDone 1, .kf 1, .k1 1, .k2Skip 1, .w2Ret, .w0, .wbarRet, .w1All, .w4]

def wokenρ : Nat → State := prefixState (step cfgMb) init wokenPrefix
def wokenℓ : Nat → Option Label := fun i => wokenPrefix[i]?

example : (wokenρ 4).wpc = .wsleep ∧ (wokenρ 10).wpc = .wsleep ∧ (wokenρ 11).wpc = .w2 ∧ (wokenρ 11).futex = 0 := by
  decide

theorem woken_final : ∃ sf, prefixFinal (step cfgMb) init wokenPrefix = some sf ∧
    sf.wpc = .wdone ∧ ∀ i, i < 2 → sf.kpc i = .k4 ∧ sf.bdone i = false ∧ sf.bfut i = false := by
  have h1 : (prefixFinal (step cfgMb) init wokenPrefix).isSome = true := by decide
  obtain ⟨sf, hsf⟩ := Option.isSome_iff_exists.mp h1
  have h2 : (prefixFinal (step cfgMb) init wokenPrefix).map
      (fun s => (s.kpc 0, s.bdone 0, s.bfut 0, s.kpc 1, s.bdone 1, s.bfut 1)) =
      some (.k4, false, false, .k4, false, false) := by
    decide
  have h3 : (prefixFinal (step cfgMb) init wokenPrefix).map (fun s => s.wpc) = some .wdone := by decide
  rw [hsf] at h3
  simp only [Option.map_some, Option.some.injEq] at h3
  rw [hsf] at h2
  simp only [Option.map_some, Option.some.injEq, Prod.mk.injEq] at h2
  refine ⟨sf, hsf, h3, fun i hi => ?_⟩
  match i, hi with
  | 0, _ => exact ⟨h2.1, h2.2.1, h2.2.2.1⟩
  | 1, _ => exact ⟨h2.2.2.2.1, h2.2.2.2.2.1, h2.2.2.2.2.2⟩

theorem woken_fair : ∀ i, i < 2 → WeakFair (step cfgMb) wokenρ wokenℓ (fun l => l ∈ postLabels i) := by
  obtain ⟨sf, hsf, -, hk⟩ := woken_final
  have hfin := prefixState_final (step cfgMb) init wokenPrefix sf hsf
  intro i hi
  refine weakFair_of_final _ wokenPrefix.length sf hfin ?_
  rintro ⟨l, hl, he⟩
  obtain ⟨h1, h2, h3⟩ := hk i hi
  simp only [postLabels, List.mem_cons, List.mem_nil_iff, or_false] at hl
  rcases hl with rfl | rfl | rfl | rfl | rfl | rfl | rfl <;> simp [step, h1, h2, h3] at he

theorem woken_leave : ∀ i, i < 2 → ∀ j, (wokenρ j).kpc i = .k0 → ∃ j', j ≤ j' ∧ (wokenρ j').kpc i ≠ .k0 := by
  obtain ⟨sf, hsf, -, hk⟩ := woken_final
  have hfin := prefixState_final (step cfgMb) init wokenPrefix sf hsf
  intro i hi j _
  refine ⟨j + wokenPrefix.length, by omega, ?_⟩
  unfold wokenρ
  rw [hfin _ (by omega), (hk i hi).1]; decide

theorem woken_isRun : IsRun (step cfgMb) wokenρ wokenℓ := by
  obtain ⟨sf, hsf, -, -⟩ := woken_final
  exact prefix_isRun _ _ _ sf hsf

/-- the hypotheses of `leader_eventually_woken` are satisfied by this concrete run, on which the leader does sleep -/
example : ∃ j, 4 ≤ j ∧ (wokenρ j).wpc ≠ .wsleep :=
  leader_eventually_woken cfgMb (Or.inr rfl) woken_isRun Reach.init woken_fair woken_leave 4 (by decide)

/-- and so are those of `gp_eventually_completes` -/
example : ∃ j, (wokenρ j).wpc = .wdone := by
  refine gp_eventually_completes cfgMb (Or.inr rfl) woken_isRun Reach.init woken_fair woken_leave ?_
  obtain ⟨sf, hsf, hw, -⟩ := woken_final
  refine weakFair_of_final _ wokenPrefix.length sf (prefixState_final (step cfgMb) init wokenPrefix sf hsf) ?_
  rintro ⟨l, hl, he⟩
  cases l <;> simp only [leaderLabel] at hl <;> simp [step, hw] at he
example : (wokenρ 20).wpc ≠ .wdone ∧ (wokenρ 21).wpc = .wdone := by decide

/-- fairness matters: from the reachable state in which the leader sleeps (position 4) the run that idles for ever is
a run of the model on which the leader sleeps for ever; it violates `hleave` / `hfair`, nothing else. -/
example : IsRun (step cfgMb) (fun _ => wokenρ 4) (fun _ => none) ∧ ∀ j : Nat, ((fun _ => wokenρ 4) j).wpc = .wsleep :=
  ⟨⟨fun _ _ h => by simp at h, fun _ _ => rfl⟩, fun _ => by show (wokenρ 4).wpc = .wsleep; decide⟩

end UrcuVerif.Handshake

namespace UrcuVerif.WaitNode
open UrcuVerif.Fair

/-- **leader_eventually_done** (wait node, x86-TSO): on every run that is weakly fair for the leader's thread (its
store-buffer commit included) the leader completes `urcu_adaptative_wake_up()` – WAKEUP published, `FUTEX_WAKE`
issued unless the waiter was seen RUNNING, TEARDOWN set. -/
theorem leader_eventually_done {ρ : Nat → State} {ℓ : Nat → Option Label} (hrun : IsRun step ρ ℓ) (hreach : Reach (ρ 0))
    (hlead : WeakFair step ρ ℓ leaderLabel) : ∀ i, ∃ j, i ≤ j ∧ (ρ j).lpc = .ldone := by
  intro i0
  have hinv : ∀ j, i0 ≤ j → Inv (ρ j) := fun j _ =>
    inv_along hrun Inv (fun s l s' h st => inv_step h st) 0 (inv_reach hreach) j (Nat.zero_le j)
  refine fair_measure_leadsto hrun leaderLabel Inv (fun s => s.lpc = .ldone) lMeasure i0 hinv hlead
    (fun s _ hg => leader_enabled hg) (fun s l s' I _ hl st => Or.inl (leader_dec I hl st))
    (fun s l s' _ _ hl st => Or.inl ?_)
  have := leader_other hl st
  simp only [lMeasure, this.1, this.2]; exact Nat.le_refl _

/-- **waiter_eventually_woken**: a merged `synchronize_rcu()` caller asleep in `FUTEX_WAIT(&wait->state, WAITING)`
eventually leaves the sleep, on every run that is weakly fair for the leader's thread (no assumption on the waiter). -/
theorem waiter_eventually_woken {ρ : Nat → State} {ℓ : Nat → Option Label} (hrun : IsRun step ρ ℓ) (hreach : Reach (ρ 0))
    (hlead : WeakFair step ρ ℓ leaderLabel) : ∀ i, (ρ i).wpc = .sleep → ∃ j, i ≤ j ∧ (ρ j).wpc ≠ .sleep := by
  intro i _
  obtain ⟨j, hj, hd⟩ := leader_eventually_done hrun hreach hlead i
  refine ⟨j, hj, fun hs => ?_⟩
  have I : Inv (ρ j) := inv_along hrun Inv (fun s l s' h st => inv_step h st) 0 (inv_reach hreach) j (Nat.zero_le j)
  have := I.asleep hs
  rw [hd] at this; simp at this

/-- **waiter_eventually_returns**: on every run that is weakly fair for the leader's thread AND for the waiter's
thread, the waiter returns from `urcu_adaptative_busy_wait()` – after the leader's last access to the node
(`waiter_teardown_safe` holds along the run). -/
theorem waiter_eventually_returns {ρ : Nat → State} {ℓ : Nat → Option Label} (hrun : IsRun step ρ ℓ) (hreach : Reach (ρ 0))
    (hlead : WeakFair step ρ ℓ leaderLabel) (hwait : WeakFair step ρ ℓ waiterLabel) :
    ∃ j, (ρ j).wpc = .returned ∧ (ρ j).lpc = .ldone ∧ (ρ j).useAfterFree = false := by
  have hinv : ∀ j, Inv2 (ρ j) := fun j =>
    inv_along hrun Inv2 (fun s l s' h st => inv2_step h st) 0 (inv2_reach hreach) j (Nat.zero_le j)
  obtain ⟨i1, -, h1⟩ := leader_eventually_done hrun hreach hlead 0
  have hstab : ∀ j, i1 ≤ j → (ρ j).lpc = .ldone :=
    stable_along hrun Inv2 (fun s => s.lpc = .ldone) i1 (fun j _ => hinv j)
      (fun s l s' I h st => ldone_stable I.inv h st) h1
  obtain ⟨j, hj, hr⟩ := fair_measure_leadsto hrun waiterLabel (fun s => Inv2 s ∧ s.lpc = .ldone) (fun s => s.wpc = .returned)
    (fun s => wRank s.wpc) i1 (fun j hj => ⟨hinv j, hstab j hj⟩) hwait
    (fun s h hg => waiter_enabled h.1 h.2 hg)
    (fun s l s' h _ hl st => Or.inl (waiter_dec h.1 h.2 hl st))
    (fun s l s' h _ hl st => Or.inl (waiter_other h.1 h.2 hl st))
  exact ⟨j, hr, hstab j hj, (hinv j).inv.noUaf⟩

/-! Non-vacuity: the run of `Props/C02.lean` (the waiter sleeps, is woken, returns after TEARDOWN), then idling. -/
def retPrefix : List Label :=
  [.wSeeWaiting, .wSleep, .lStore, .lLoad, .lFlush, .lWake, .wSeeWoken, .wOrRunning, .lTeardown, .wSeeTeardown]

example : ∃ j, (prefixState step init retPrefix j).wpc = .returned ∧ (prefixState step init retPrefix j).lpc = .ldone ∧
    (prefixState step init retPrefix j).useAfterFree = false := by
  have h1 : (prefixFinal step init retPrefix).isSome = true := by decide
  obtain ⟨sf, hsf⟩ := Option.isSome_iff_exists.mp h1
  have h2 : (prefixFinal step init retPrefix).map (fun s => (s.wpc, s.lpc, s.bufWakeup)) = some (.returned, .ldone, false) := by
    decide
  rw [hsf] at h2
  simp only [Option.map_some, Option.some.injEq, Prod.mk.injEq] at h2
  have hfin := prefixState_final step init retPrefix sf hsf
  refine waiter_eventually_returns (ℓ := fun i => retPrefix[i]?) (prefix_isRun _ _ _ sf hsf) Reach.init ?_ ?_
  · refine weakFair_of_final _ retPrefix.length sf hfin ?_
    rintro ⟨l, hl, he⟩
    cases l <;> simp only [leaderLabel] at hl <;> simp [step, h2.2.1, h2.2.2] at he
  · refine weakFair_of_final _ retPrefix.length sf hfin ?_
    rintro ⟨l, hl, he⟩
    cases l <;> simp only [waiterLabel] at hl <;> simp [step, h2.1] at he
example : (prefixState step init retPrefix 2).wpc = .sleep ∧ (prefixState step init retPrefix 6).wpc = .spin := by decide

end UrcuVerif.WaitNode

namespace UrcuVerif.QsbrHs
open UrcuVerif UrcuVerif.Fair

/-- **qsbr_leader_eventually_woken** (QSBR flavour, x86-TSO, any number of readers): on every run from a reachable
state that is weakly fair for every reader's `urcu_qsbr_wake_up_gp()` steps and store-buffer commits (`hfair`) and on
which every reader eventually announces a quiescent state / goes offline (`hquiesce`: it does not stay at `k0` for
ever), a grace-period leader asleep on `rcu_gp.futex` eventually leaves the sleep. -/
theorem qsbr_leader_eventually_woken (c : Cfg) {ρ : Nat → State} {ℓ : Nat → Option Label}
    (hrun : IsRun (step c) ρ ℓ) (hreach : Reach c (ρ 0))
    (hfair : ∀ i, i < c.n → WeakFair (step c) ρ ℓ (fun l => l ∈ postLabels i))
    (hquiesce : ∀ i, i < c.n → ∀ j, (ρ j).kpc i = .k0 → ∃ j', j ≤ j' ∧ (ρ j').kpc i ≠ .k0) :
    ∀ i, (ρ i).wpc = .wsleep → ∃ j, i ≤ j ∧ (ρ j).wpc ≠ .wsleep := by
  intro i0 _
  have hinv : ∀ j, i0 ≤ j → Inv c (ρ j) := fun j _ =>
    inv_along hrun (Inv c) (fun s l s' h st => inv_step c h st) 0 (inv_reach c hreach) j (Nat.zero_le j)
  refine fair_measure_leadsto_family hrun (κ := Nat × Bool)
    (fun k l => k.1 < c.n ∧ if k.2 then l ∈ postLabels k.1 else l = .k0 k.1)
    (fun k s => k.1 < c.n ∧ if k.2 then (s.kpc k.1 ≠ .k0 ∧ s.kpc k.1 ≠ .k9) else s.kpc k.1 = .k0)
    (Inv c) (fun s => s.wpc ≠ .wsleep) (total c) i0 hinv ?_ ?_ ?_ ?_ ?_
  · rintro ⟨i, b⟩ j0 hen
    have hi : i < c.n := (hen j0 (Nat.le_refl _)).1
    cases b with
    | true =>
      obtain ⟨j, hj, l, hl, ha⟩ := hfair i hi j0 (fun j hj => by
        have h := (hen j hj).2
        simp only [↓reduceIte] at h
        exact post_enabled c i hi h.1 h.2)
      exact ⟨j, hj, l, hl, hi, by simpa using ha⟩
    | false =>
      have h0 := (hen j0 (Nat.le_refl _)).2
      simp only [Bool.false_eq_true, ↓reduceIte] at h0
      obtain ⟨j', hj', hne⟩ := hquiesce i hi j0 h0
      have := (hen j' hj').2
      simp only [Bool.false_eq_true, ↓reduceIte] at this
      exact absurd this hne
  · intro s I hs
    have hs : s.wpc = .wsleep := Classical.byContradiction (fun h => hs h)
    have : ∃ i, i < c.n ∧ s.kpc i ≠ .k9 := by
      rcases I.fut_range with h0 | h1
      · obtain ⟨i, hi, hk⟩ := I.asleep_0 hs h0
        exact ⟨i, hi, by rw [hk]; decide⟩
      · obtain ⟨i, hi, hk⟩ := I.asleep_m1 (Or.inr hs) h1
        refine ⟨i, hi, ?_⟩
        unfold willWake at hk
        grind
    obtain ⟨i, hi, h4⟩ := this
    by_cases h0 : s.kpc i = .k0
    · exact ⟨(i, false), hi, by simpa using h0⟩
    · exact ⟨(i, true), hi, by simpa using ⟨h0, h4⟩⟩
  · rintro s l s' ⟨i, b⟩ I hs ⟨hi, ha⟩ st
    have hs : s.wpc = .wsleep := Classical.byContradiction (fun h => hs h)
    have hown : l ∈ ownLabels i := by
      rw [ownLabels_iff]
      cases b <;> simp at ha
      · exact Or.inl ha
      · exact Or.inr (by simpa using ha)
    rcases sleep_frame c I hs st with h | ⟨-, hfr⟩
    · exact Or.inr h
    · left
      refine sumTo_lt i hi (waker_measure c i hown st) (fun j hj => ?_)
      by_cases hji : j = i
      · subst hji; exact Nat.le_of_lt (waker_measure c j hown st)
      · have := hfr j (fun h => hji (ownLabels_disjoint h hown))
        simp only [measure, this.1, this.2.1, this.2.2]; exact Nat.le_refl _
  · intro s l s' I hs hna st
    have hs : s.wpc = .wsleep := Classical.byContradiction (fun h => hs h)
    rcases sleep_frame c I hs st with h | ⟨-, hfr⟩
    · exact Or.inr h
    · left
      refine Nat.le_of_eq (sumTo_congr (fun j hj => ?_))
      have hnot : l ∉ ownLabels j := by
        intro hown
        rcases (ownLabels_iff j l).mp hown with h | h
        · exact hna (j, false) ⟨hj, by simpa using h⟩
        · exact hna (j, true) ⟨hj, by simpa using h⟩
      have := hfr j hnot
      simp only [measure, this.1, this.2.1, this.2.2]
  · rintro s l s' ⟨i, b⟩ I hs ⟨hi, hen⟩ hna st
    left
    refine ⟨hi, ?_⟩
    cases b with
    | false =>
      simp only [Bool.false_eq_true, ↓reduceIte] at hen ⊢
      rcases k0_only c i hen st with h | h
      · exact h
      · exact absurd ⟨hi, by simpa using h⟩ hna
    | true =>
      simp only [↓reduceIte] at hen ⊢
      have hnot : l ∉ ownLabels i := by
        intro hown
        rcases (ownLabels_iff i l).mp hown with h | h
        · subst h
          simp [step, hen.1] at st
        · exact hna ⟨hi, by simpa using h⟩
      rw [kpc_frame c i hnot st]; exact hen

/-! Non-vacuity: the run of `Props/C02.lean` (the leader sleeps at position 7 and is woken through the waiting flag at
position 16), then idling. -/
def qPrefix : List Label :=
  [.w0, .wArm 0, .flushFutM1, .flushWait 0, .wMb, .w1Some 0, .w2Sleep, .k0 0, .k1Set 0, .k2 0,
   .flushW0 0, .kf 0, .k3 0, .k4Wake 0, .flushF0 0, .k5 0, .w2Ret]

example : ∃ j, 7 ≤ j ∧ (prefixState (step { n := 1 }) init qPrefix j).wpc ≠ .wsleep := by
  have h1 : (prefixFinal (step { n := 1 }) init qPrefix).isSome = true := by decide
  obtain ⟨sf, hsf⟩ := Option.isSome_iff_exists.mp h1
  have h2 : (prefixFinal (step { n := 1 }) init qPrefix).map (fun s => (s.kpc 0, s.bw0 0, s.bf0 0)) = some (.k9, false, false) := by
    decide
  rw [hsf] at h2
  simp only [Option.map_some, Option.some.injEq, Prod.mk.injEq] at h2
  have hfin := prefixState_final (step { n := 1 }) init qPrefix sf hsf
  refine qsbr_leader_eventually_woken { n := 1 } (ℓ := fun i => qPrefix[i]?) (prefix_isRun _ _ _ sf hsf) Reach.init ?_ ?_ 7
    (by decide)
  · intro i hi
    have : i = 0 := by simp at hi; exact hi
    subst this
    refine weakFair_of_final _ qPrefix.length sf hfin ?_
    rintro ⟨l, hl, he⟩
    simp only [postLabels, List.mem_cons, List.mem_nil_iff, or_false] at hl
    rcases hl with rfl | rfl | rfl | rfl | rfl | rfl | rfl | rfl | rfl | rfl <;> simp [step, h2.1, h2.2.1, h2.2.2] at he
  · intro i hi j _
    have : i = 0 := by simp at hi; exact hi
    subst this
    refine ⟨j + qPrefix.length, by omega, ?_⟩
    rw [hfin _ (by omega), h2.1]; decide
example : (prefixState (step { n := 1 }) init qPrefix 7).wpc = .wsleep ∧
    (prefixState (step { n := 1 }) init qPrefix 16).wpc = .w2 := by decide

end UrcuVerif.QsbrHs
