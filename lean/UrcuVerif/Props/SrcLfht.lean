import UrcuVerif.Src.LfhtRefine
/-!
# Source IR of `src/rculfhash.c` ⊑ thread-local projection of L2 (`Lfht/Conc`): final statements

Proved here (C07's deletion protocol tied to the source text): `_cds_lfht_gc_bucket` and `_cds_lfht_del`, for the
**generated** values `Gen.Src.«lfht._cds_lfht_gc_bucket»` / `Gen.Src.«lfht._cds_lfht_del»`, every budget and every oracle
that delivers well-typed words passing the `urcu_posix_assert`s of the source (`LfhtR.OracleOk`); and the projection
lemmas of the local automaton against the real L2 `step` (`proj_step`, `lift_step`).  See `Src/LfhtLocal.lean`,
`Src/LfhtRefine.lean`, `Src/LfhtTag.lean` for the definitions (`LLabel`, `lstep`, `absEv`, `encW`, `OracleOk`).
-/
namespace UrcuVerif.Props.SrcLfht
open UrcuVerif UrcuVerif.Src UrcuVerif.Lfht.Conc UrcuVerif.Src.LfhtL UrcuVerif.Src.LfhtR

/-- `_cds_lfht_gc_bucket` -/
theorem _cds_lfht_gc_bucket_refines (fuel : Nat) (rev : Nat → Nat) (env : Env) (inp : List Val) (x : Thr)
    (o0 : Lfht.Conc.Out) (rp : Pc)
    (hb : env.vars "bucket" = some (.ptr (.obj x.gbkt))) (hn : env.vars "node" = some (.ptr (.obj x.gnode)))
    (hB : x.gbkt ≠ 0) (hN : x.gnode ≠ 0) (hrev : RevView rev env.priv)
    (hpc : x.pc = .gHead) (hrp : retPc x.gcont = some rp)
    (hO : OracleOk rev { x := x, pend := .none, out := o0 } inp) :
    ∃ out, exec fuel Gen.Src.«lfht._cds_lfht_gc_bucket» env inp = .ok out ∧
      ∃ ls', lrun rev { x := x, pend := .none, out := o0 } (out.events.map absEv) = some ls' ∧
        (out.ctl = .blocked ∨ out.ctl = .fuel ∨
          (out.ctl = .ret none ∧ out.env.priv = env.priv ∧ ls'.pend = .none ∧ ls'.x.pc = rp ∧
            ls'.x.gcont = x.gcont ∧ OracleOk rev ls' out.inp)) :=
  gc_bucket_exec fuel rev env inp x o0 rp _ rfl hb hn hB hN hrev hpc hrp hO

/-- `_cds_lfht_del`: the C return value is L2's `Out.ret` (`0` / `-ENOENT`) -/
theorem _cds_lfht_del_refines (fuel : Nat) (rev : Nat → Nat) (env : Env) (inp : List Val) (x : Thr)
    (o0 : Lfht.Conc.Out) (ht : Nat) (fp : Val)
    (hht : env.vars "ht" = some (.ptr (.obj ht))) (hsz : env.vars "size" = some (.int x.sz))
    (hnode : env.vars "node" = some (.ptr (.obj x.node))) (hn0 : x.node ≠ 0) (hsz1 : 1 ≤ x.sz)
    (hfp : env.priv (.field (.obj ht) "bucket_at") = some fp) (hrev : RevView rev env.priv)
    (hpc : x.pc = .dLd) (hO : OracleOk rev { x := x, pend := .none, out := o0 } inp) :
    ∃ out, exec fuel Gen.Src.«lfht._cds_lfht_del» env inp = .ok out ∧
      ∃ ls', lrun rev { x := x, pend := .none, out := o0 } (out.events.map absEv) = some ls' ∧
        (out.ctl = .blocked ∨ out.ctl = .fuel ∨
          ∃ code, ls'.out = .ret code ∧ out.ctl = .ret (some (.int code)) ∧ ls'.x.pc = .idle ∧ ls'.x.op = .none ∧
            ls'.pend = .none) :=
  del_exec fuel rev env inp x o0 ht fp hht hsz hnode hn0 hsz1 hfp hrev hpc hO

/-! The projection / lifting lemmas against the real L2 `step` are `UrcuVerif.Src.LfhtL.proj_step` (L2 step ⇒ local
run `decor s t L` with the values of the global state, same `Out`) and `UrcuVerif.Src.LfhtL.lift_step` (local run + pc of
the label + global guard `t < c.n`, `okp` ⇒ enabled L2 step with the projected successor); `lstep_node` / `lrun_node`:
no local step changes the `node` argument. -/
#check @LfhtL.proj_step
#check @LfhtL.lift_step

end UrcuVerif.Props.SrcLfht
