import UrcuVerif.Gp.Flip
import UrcuVerif.Gp.Qsbr
/-!
# C17 (read-side facet) — `rcu_read_lock()` / `rcu_read_unlock()` of a registered thread are wait-free

On the C01 grace-period model (`Gp/Flip.lean`: memb with/without sys_membarrier, mb, bp – x86-TSO, any
number of readers and grace periods).  Own steps of reader `i`: its instructions `rLd rSt rEnter rInc rDec
rUnlock rRead` and the draining of *its own* store buffer (`flush i`; the `mfence` of the mb / fallback
configurations is "drain own buffer, then `rEnter`").  Theorems, for **every** state `s` (reachable or
not, the updater and all other readers suspended anywhere):

* `read_lock_wait_free`: from the call of an outermost `rcu_read_lock()` the solo run
  `rLd ; rSt ; flush^(|buf|+1) ; rEnter` is enabled step by step and ends inside the section:
  `3 + (|buf i| + 1)` own steps, `|buf i|` = the thread's own earlier stores still buffered;
* `read_lock_never_blocked`: at every pc inside `rcu_read_lock()` the reader has an enabled own step;
* `nested_lock_one_step`, `nested_unlock_one_step`, `outer_unlock_one_step`: one store each;
* `others_cannot_delay_reader`: no step of the updater, of another reader, or of the environment on
  another reader's buffer changes reader `i`'s pc, nesting count, phase or buffer – except the forced
  fence of `sys_membarrier`, which only *empties* its buffer (helps).

qsbr: `rcu_read_lock/unlock` are no-ops (no model step at all); `rcu_quiescent_state` /
`rcu_thread_offline` are single stores in `Gp/Qsbr.lean` (`qsbr_reader_ops_one_step`).
-/
namespace UrcuVerif.C17Read
open UrcuVerif UrcuVerif.Gp

/-- run a list of labels -/
def run (c : Cfg) : State → List Label → Option State
  | s, [] => some s
  | s, l :: ls => match step c s l with
    | some s' => run c s' ls
    | none => none

theorem run_append (c : Cfg) (s : State) (a b : List Label) :
    run c s (a ++ b) = (run c s a).bind fun s' => run c s' b := by
  induction a generalizing s with
  | nil => simp [run]
  | cons l ls ih =>
    simp only [List.cons_append, run]
    cases step c s l with
    | none => simp
    | some s' => simpa using ih s'

/-- draining reader `i`'s own buffer: `k = |buf i|` flushes are enabled and leave pc / own view alone -/
theorem drain (c : Cfg) (i : Nat) : ∀ (k : Nat) (s : State), (s.buf i).length = k →
    ∃ s', run c s (List.replicate k (.flush i)) = some s' ∧ s'.buf i = [] ∧ s'.rpc = s.rpc ∧
      s'.lnest = s.lnest ∧ s'.lph = s.lph ∧ s'.reg = s.reg := by
  intro k
  induction k with
  | zero =>
    intro s h
    exact ⟨s, by simp [run], List.eq_nil_of_length_eq_zero h, rfl, rfl, rfl, rfl⟩
  | succ k ih =>
    intro s h
    match hb : s.buf i with
    | [] => simp [hb] at h
    | e :: rest =>
      have hl : rest.length = k := by simpa [hb] using h
      let s1 : State := { s with mnest := upd s.mnest i e.1, mph := upd s.mph i e.2, buf := upd s.buf i rest }
      have h1 : step c s (.flush i) = some s1 := by simp [step, hb, s1]
      have hb1 : (s1.buf i).length = k := by simp [s1, hl]
      obtain ⟨s', r, e1, e2, e3, e4, e5⟩ := ih s1 hb1
      exact ⟨s', by simp [List.replicate_succ, run, h1, r], e1, e2, e3, e4, e5⟩

/-- **read_lock_wait_free** (outermost lock of a registered thread) -/
theorem read_lock_wait_free (c : Cfg) (s : State) (i : Nat) (hi : i < c.n) (hr : s.reg i = true)
    (hp : s.rpc i = .out) :
    ∃ s', run c s ([.rLd i, .rSt i] ++ List.replicate ((s.buf i).length + 1) (.flush i) ++ [.rEnter i]) = some s' ∧
      s'.rpc i = .cs ∧ s'.lnest i = 1 := by
  -- rLd
  let s1 : State := { s with rpc := upd s.rpc i (.ld s.gp) }
  have h1 : step c s (.rLd i) = some s1 := by simp [step, hi, hr, hp, s1]
  -- rSt
  let s2 : State := { s1 with lnest := upd s1.lnest i 1, lph := upd s1.lph i s.gp,
                              buf := upd s1.buf i (s1.buf i ++ [(1, s.gp)]), rpc := upd s1.rpc i .fence }
  have h2 : step c s1 (.rSt i) = some s2 := by simp [step, hi, s1, s2]
  have hb2 : (s2.buf i).length = (s.buf i).length + 1 := by simp [s2, s1]
  obtain ⟨s3, r3, e1, e2, e3, _, _⟩ := drain c i _ s2 hb2
  have hp3 : s3.rpc i = .fence := by rw [e2]; simp [s2]
  let s4 : State := { s3 with rpc := upd s3.rpc i .cs, inD := upd s3.inD i (!s3.xset),
                              sawX0 := upd s3.sawX0 i false, sawY1 := upd s3.sawY1 i false }
  have h4 : step c s3 (.rEnter i) = some s4 := by simp [step, hi, hp3, e1, s4]
  refine ⟨s4, ?_, by simp [s4], ?_⟩
  · rw [List.append_assoc, run_append]
    simp only [run, h1, h2, Option.bind]
    rw [run_append, r3]
    simp [run, h4]
  · show s3.lnest i = 1
    rw [e3]; simp [s2]

/-- **read_lock_never_blocked**: wherever the reader is inside `rcu_read_lock()`, one of its own steps is
enabled, whatever the rest of the state looks like -/
theorem read_lock_never_blocked (c : Cfg) (s : State) (i : Nat) (hi : i < c.n) :
    (s.reg i = true → s.rpc i = .out → (step c s (.rLd i)).isSome) ∧
    (∀ g, s.rpc i = .ld g → (step c s (.rSt i)).isSome) ∧
    (s.rpc i = .fence → (step c s (.rEnter i)).isSome ∨ (step c s (.flush i)).isSome) := by
  refine ⟨?_, ?_, ?_⟩
  · intro hr hp; simp [step, hi, hr, hp]
  · intro g hp; simp [step, hi, hp]
  · intro hp
    cases hb : s.buf i with
    | nil => left; simp [step, hi, hp, hb]
    | cons e rest => right; simp [step, hb]

theorem nested_lock_one_step (c : Cfg) (s : State) (i : Nat) (hi : i < c.n) (hp : s.rpc i = .cs) :
    ∃ s', step c s (.rInc i) = some s' ∧ s'.lnest i = s.lnest i + 1 ∧ s'.rpc i = .cs := by
  refine ⟨_, by simp [step, hi, hp]; rfl, by simp, by simp [hp]⟩

theorem nested_unlock_one_step (c : Cfg) (s : State) (i : Nat) (hi : i < c.n) (hp : s.rpc i = .cs)
    (hn : 2 ≤ s.lnest i) :
    ∃ s', step c s (.rDec i) = some s' ∧ s'.lnest i = s.lnest i - 1 ∧ s'.rpc i = .cs := by
  refine ⟨_, by simp [step, hi, hp, hn]; rfl, by simp, by simp [hp]⟩

theorem outer_unlock_one_step (c : Cfg) (s : State) (i : Nat) (hi : i < c.n) (hp : s.rpc i = .cs)
    (hn : s.lnest i = 1) :
    ∃ s', step c s (.rUnlock i) = some s' ∧ s'.lnest i = 0 ∧ s'.rpc i = .out := by
  refine ⟨_, by simp [step, hi, hp, hn]; rfl, by simp, by simp⟩

/-- the labels that are steps of reader `i` itself (or act on it: registration, its own handler frames) -/
def Label.actsOn (i : Nat) : Label → Bool
  | .reg j | .unreg j | .rLd j | .rSt j | .rEnter j | .rInc j | .rDec j | .rUnlock j | .rRead j | .flush j
  | .forced j | .sigPush j | .sigPop j => j == i
  | _ => false

/-- **others_cannot_delay_reader**: the updater, other readers and flushes of other buffers never touch
reader `i`'s pc, own view or buffer -/
theorem others_cannot_delay_reader (c : Cfg) {s s' : State} {l : Label} (i : Nat)
    (st : step c s l = some s') (hl : Label.actsOn i l = false) :
    s'.rpc i = s.rpc i ∧ s'.lnest i = s.lnest i ∧ s'.lph i = s.lph i ∧ s'.buf i = s.buf i ∧ s'.reg i = s.reg i := by
  cases l <;> simp only [Label.actsOn, beq_eq_false_iff_ne, ne_eq] at hl <;> simp only [step] at st <;>
    (try split at st) <;> (try split at st) <;>
    first
    | (simp at st; done)
    | (simp only [Option.some.injEq] at st; subst st; simp only [upd]; grind)

/-- the one step of another agent that does act on reader `i`'s buffer, sys_membarrier's forced fence,
only empties it: afterwards `rEnter` is enabled at once -/
theorem forced_fence_helps (c : Cfg) {s s' : State} (i : Nat) (st : step c s (.forced i) = some s') :
    s'.buf i = [] ∧ s'.rpc i = s.rpc i ∧ s'.lnest i = s.lnest i ∧ s'.lph i = s.lph i := by
  simp only [step] at st
  split at st
  · simp only [Option.some.injEq] at st; subst st; simp
  · simp at st

/-- non-vacuity: a reader with two stores still buffered, the updater suspended in the middle of its
first scan: the solo lock takes 3 + 3 own steps -/
example :
    let c : Cfg := { n := 2, membarrier := false, slaveFence := true }
    let s : State := { init with reg := fun j => decide (j < 2), buf := upd (fun _ => []) 0 [(1, false), (0, false)],
                                 upc := .p1, inp := fun j => decide (j = 1) }
    (run c s ([.rLd 0, .rSt 0] ++ List.replicate 3 (.flush 0) ++ [.rEnter 0])).map (fun s' => (s'.rpc 0, s'.lnest 0, s'.buf 0))
      = some (RPc.cs, 1, []) := by
  decide

/-! ## qsbr

`rcu_read_lock()` / `rcu_read_unlock()` are no-ops in the qsbr flavor (no shared access: no model step; an online
registered thread can read at any time, `qsbr_read_always_enabled`).  The operations that replace them,
`rcu_quiescent_state()` / `rcu_thread_online()` / `rcu_thread_offline()`, are a load, at most one store and a fence on
the thread's own buffer: an own step is enabled at every pc, whatever the updater is doing. -/

theorem qsbr_read_always_enabled (c : Qsbr.Cfg) (s : Qsbr.State) (i : Nat) (hi : i < c.n) (hp : s.rpc i = .out)
    (ho : s.lctr i ≠ 0) : (Qsbr.step c s (.rRead i)).isSome := by
  simp [Qsbr.step, hi, hp, ho]

theorem qsbr_reader_never_blocked (c : Qsbr.Cfg) (s : Qsbr.State) (i : Nat) (hi : i < c.n) :
    (s.reg i = true → s.rpc i = .out → (Qsbr.step c s (.qLd i)).isSome ∧ (Qsbr.step c s (.qOff i)).isSome) ∧
    (∀ g, s.rpc i = .ld g → (Qsbr.step c s (.qSt i)).isSome ∨ (Qsbr.step c s (.qSkip i)).isSome ∨ s.lctr i = 0 ∧ g = 0) ∧
    (s.rpc i = .fence → (Qsbr.step c s (.qFence i)).isSome ∨ (Qsbr.step c s (.flush i)).isSome) := by
  refine ⟨?_, ?_, ?_⟩
  · intro hr hp; simp [Qsbr.step, hi, hr, hp]
  · intro g hp
    by_cases hg : g = s.lctr i
    · by_cases h0 : s.lctr i = 0
      · right; right; exact ⟨h0, by rw [hg, h0]⟩
      · right; left; simp [Qsbr.step, hi, hp, hg, h0]
    · left; simp [Qsbr.step, hi, hp, hg]
  · intro hp
    cases hb : s.buf i with
    | nil => left; simp [Qsbr.step, hi, hp, hb]
    | cons e rest => right; simp [Qsbr.step, hb]

end UrcuVerif.C17Read
