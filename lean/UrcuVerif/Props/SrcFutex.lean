import UrcuVerif.Src.FutexGp
import UrcuVerif.Src.FutexCallRcu
import UrcuVerif.Src.FutexWq
import UrcuVerif.Src.FutexDefer
import UrcuVerif.Src.FutexWaitNode
/-!
# Source refinement, futex wait / wake handshakes: final statements

"The generated source IR of the waiter and waker sides of the futex handshakes (values of `Gen/Src.lean`, regenerated
from the C text of /repo on every run) refines, thread-locally, the proven L2 handshake models."

Three layers (definitions and the full story in the headers of `Src/FutexLocal.lean`, `Src/FutexRefine.lean`):
source events → (`absEvW` / `absEvK`, stateless) → labels of the GENERIC waiter `gwstep` / waker `gkstep` → (`gw2l` /
`gk2l`, proved simulations `sim` / `simK`) → labels of the LOCAL automaton `lstep` / `kstep` of the L2 model, which is the
thread-local projection of the real L2 `step` (`proj*_step`, `proj*_enabled`, `proj*_frame`, `projW_env_wake`, re-exported
at the end).

Each `<f>_refines` reads: for every `fuel`, every oracle `inp` (runs that end `blocked` are the prefixes), every
environment satisfying the stated binding of the pointer parameter: `exec` returns `.ok out` – never `.error`; for the
waiters unconditionally, for the wakers that test the result of FUTEX_WAKE under `WakeRetOk` – and, when the events satisfy
the system-call contract `evOk` (`errno ∈ {EAGAIN, EINTR}` after a failed FUTEX_WAIT – otherwise the source calls
`urcu_die()` –, `membarrier()` returns 0, the futex word holds an integer), `WaiterRefines` / `WakerRefines` holds.
`wait_defer` and the wait-node functions (section 3) have their own abstractions (`absEvD`; state-dependent `absEvL`,
`absEvB`); the wait-node theorems are in partial-correctness form (about every run that returns `.ok`).
-/
set_option maxRecDepth 8192
namespace UrcuVerif.Props.SrcFutex
open UrcuVerif UrcuVerif.Src UrcuVerif.Src.Futex

/-! ## 1. grace-period futex: `wait_gp()` (memb, mb, qsbr) and the wakers -/

/-- memb `wait_gp()` ⊑ the waiter of `Handshake/Tso.lean` from L2 pc `w2` (back to `w0` when it returns) -/
theorem memb_wait_gp_refines (fuel : Nat) (env : Env) (inp : List Val) (b b2 : Int)
    (hb : env.priv (.glob "urcu_memb_has_sys_membarrier") = some (.int b))
    (hb2 : env.priv (.glob "urcu_memb_has_sys_membarrier_private_expedited") = some (.int b2)) :
    ∃ out, exec fuel Gen.Src.«memb.wait_gp» env inp = .ok out ∧
      WaiterRefines gpF (-1) "futex_async" Hs.lstep Hs.pcMap Hs.gw2l env out := by
  obtain ⟨out, h, hp⟩ := memb_wait_gp fuel env inp b b2 hb hb2
  exact ⟨out, h, hp.refines _ _ _ Hs.sim⟩

theorem mb_wait_gp_refines (fuel : Nat) (env : Env) (inp : List Val) :
    ∃ out, exec fuel Gen.Src.«mb.wait_gp» env inp = .ok out ∧
      WaiterRefines gpF (-1) "futex_async" Hs.lstep Hs.pcMap Hs.gw2l env out := by
  obtain ⟨out, h, hp⟩ := mb_wait_gp fuel env inp
  exact ⟨out, h, hp.refines _ _ _ Hs.sim⟩

/-- qsbr `wait_gp()` ⊑ the waiter of `Handshake/QsbrTso.lean` from L2 pc `w2` -/
theorem qsbr_wait_gp_refines (fuel : Nat) (env : Env) (inp : List Val) :
    ∃ out, exec fuel Gen.Src.«qsbr.wait_gp» env inp = .ok out ∧
      WaiterRefines qsF (-1) "futex_noasync" Qs.lstep Qs.pcMap Qs.gw2l env out := by
  obtain ⟨out, h, hp⟩ := qsbr_wait_gp fuel env inp
  exact ⟨out, h, hp.refines _ _ _ Qs.sim⟩

/-- `urcu_common_wake_up_gp(gp)` ⊑ waker `i` of `Handshake/Tso.lean` from L2 pc `k1` (`Read.hstep`, the local automaton of
`Src/ReadLocal.lean`; `sf` = `Cfg.slaveFence`, irrelevant from `k1` on) -/
theorem urcu_common_wake_up_gp_refines (sf : Bool) (fuel : Nat) (env : Env) (inp : List Val) (G : Loc)
    (hg : env.vars "gp" = some (.ptr G)) :
    ∃ out, exec fuel Gen.Src.«urcu_common_wake_up_gp» env inp = .ok out ∧
      WakerRefines (.field G "futex") "futex_async" (Read.hstep sf) Hs.kMap Hs.gk2l env out := by
  obtain ⟨out, h, hp⟩ := common_wake_up_gp fuel env inp G hg
  exact ⟨out, h, hp.refines _ _ _ (Hs.simK sf)⟩

/-- `urcu_qsbr_wake_up_gp()` ⊑ reader `i` of `Handshake/QsbrTso.lean` from L2 pc `k1` to `k9` (abstraction `absEvQK`) -/
theorem urcu_qsbr_wake_up_gp_refines (fuel : Nat) (env : Env) (inp : List Val) :
    ∃ out, exec fuel Gen.Src.«urcu_qsbr_wake_up_gp» env inp = .ok out ∧
      (∀ l, l ≠ qsF → l ≠ qsW → out.env.priv l = env.priv l) ∧
      (out.ctl = .normal ∨ out.ctl = .ret none ∨ out.ctl = .blocked) ∧
      (out.events.all (evOk qsF) = true →
        ∀ r0, ∃ labs k', labelsOf absEvQK out.events = some labs ∧
          runA Qs.kstep { kpc := .k1, r := r0 } labs = some k' ∧
          (out.ctl = .normal ∨ out.ctl = .ret none → k'.kpc = .k9)) := by
  obtain ⟨out, h, h1, h2, h3⟩ := qsbr_wake_up_gp fuel env inp
  refine ⟨out, h, h1, h2, fun hok r0 => ?_⟩
  obtain ⟨k', hk, hp⟩ := h3 hok r0
  obtain ⟨labs, ha, hb⟩ := (accept_iff _ _ _ _ _).1 hk
  exact ⟨labs, k', ha, hb, hp⟩

/-! ## 2. call_rcu helper futex -/

/-- `call_rcu_wait(crdp)` ⊑ the helper of `CallRcu/Wake.lean` from L2 pc `waitLd` (to `dec` when it returns) -/
theorem call_rcu_wait_refines (c : CallRcuWake.Cfg) (fuel : Nat) (env : Env) (inp : List Val) (C : Loc)
    (hc : env.vars "crdp" = some (.ptr C)) :
    ∃ out, exec fuel Gen.Src.«call_rcu_wait» env inp = .ok out ∧
      WaiterRefines (.field C "futex") (-1) "futex_async" (Cr.lstep c) (Cr.pcMap c) Cr.gw2l env out := by
  obtain ⟨out, h, hp⟩ := src_call_rcu_wait fuel env inp C hc
  exact ⟨out, h, hp.refines _ _ _ (Cr.sim c)⟩

/-- `call_rcu_wake_up(crdp)` ⊑ waker `i` of `CallRcu/Wake.lean` from L2 pc `kmb` (back to `k0`) -/
theorem call_rcu_wake_up_refines (fuel : Nat) (env : Env) (inp : List Val) (C : Loc)
    (hc : env.vars "crdp" = some (.ptr C)) (hr : WakeRetOk inp) :
    ∃ out, exec fuel Gen.Src.«call_rcu_wake_up» env inp = .ok out ∧
      WakerRefines (.field C "futex") "futex_async" Cr.kstep Cr.kMap Cr.gk2l env out := by
  obtain ⟨out, h, hp⟩ := src_call_rcu_wake_up fuel env inp C hc hr
  exact ⟨out, h, hp.refines _ _ _ Cr.simK⟩

/-- `wake_call_rcu_thread(crdp)`, `n` = `crdp->flags`: futex-woken helper → as `call_rcu_wake_up` (the load of the
flags is silent: L2 folds it into `kEnq`); `URCU_CALL_RCU_RT` → the load only -/
theorem wake_call_rcu_thread_refines (fuel : Nat) (env : Env) (inp : List Val) (C : Loc) (n : Nat)
    (hc : env.vars "crdp" = some (.ptr C))
    (hf : ∀ f rest, inp = f :: rest → f = .int n)
    (hr : ∀ f rest, inp = f :: rest → WakeRetOk rest) :
    ∃ out, exec fuel Gen.Src.«wake_call_rcu_thread» env inp = .ok out ∧
      (n &&& 1 = 0 → WakerRefines (.field C "futex") "futex_async" Cr.kstep Cr.kMap Cr.gk2l env out) ∧
      (n &&& 1 ≠ 0 → inp ≠ [] →
        out.events = [.ld (.field C "flags") (.int n) 0] ∧ out.ctl = .normal ∧ out.env.priv = env.priv) := by
  obtain ⟨out, h, h1, h2⟩ := src_wake_call_rcu_thread fuel env inp C n hc hf hr
  exact ⟨out, h, fun hn => (h1 hn).refines _ _ _ Cr.simK, h2⟩

/-- `call_rcu_completion_wait(completion)` (the futex of `rcu_barrier()`) ⊑ caller `t` of `CallRcu/Barrier.lean` waiting
for completion `b`, from L2 pc `waitLd b` (back to `dec b` when it returns) -/
theorem call_rcu_completion_wait_refines (b : Nat) (fuel : Nat) (env : Env) (inp : List Val) (C : Loc)
    (hc : env.vars "completion" = some (.ptr C)) :
    ∃ out, exec fuel Gen.Src.«call_rcu_completion_wait» env inp = .ok out ∧
      WaiterRefines (.field C "futex") (-1) "futex_async" Br.lstep (Br.pcMap b) Br.gw2l env out := by
  obtain ⟨out, h, hp⟩ := src_call_rcu_completion_wait fuel env inp C hc
  exact ⟨out, h, hp.refines _ _ _ (Br.sim b)⟩

/-- `call_rcu_completion_wake_up(completion)` ⊑ the marker callback on helper `h` of `CallRcu/Barrier.lean`, from L2 pc
`ldFut` to `put` -/
theorem call_rcu_completion_wake_up_refines (fuel : Nat) (env : Env) (inp : List Val) (C : Loc)
    (hc : env.vars "completion" = some (.ptr C)) (hr : WakeRetOk inp) :
    ∃ out, exec fuel Gen.Src.«call_rcu_completion_wake_up» env inp = .ok out ∧
      WakerRefines (.field C "futex") "futex_async" Br.kstep Br.kMap Br.gk2l env out := by
  obtain ⟨out, h, hp⟩ := src_call_rcu_completion_wake_up fuel env inp C hc hr
  exact ⟨out, h, hp.refines _ _ _ Br.simK⟩

/-! ## 3. wait nodes (`src/urcu-wait.h`) against `Handshake/WaitNode.lean`

Partial-correctness form: about every run of `exec` that returns `.ok` (`exec` fails when a value loaded from the state
word, on which the source computes `&`, is not a non-negative integer, or the result of FUTEX_WAKE is not an integer).
Contracts: `noAbort` (no `abort()`: the `urcu_posix_assert`s hold; no `urcu_die()`), for the waiter `okB` (`noAbort`,
`errno ∈ {EAGAIN, EINTR}`, state word integer).  State-dependent abstractions `absEvL` (leader) / `absEvB` (waiter), see
the header of `Src/FutexWaitNode.lean`. -/

/-- `urcu_adaptative_wake_up(wait)` ⊑ the leader of `Handshake/WaitNode.lean`, from `l0` to `ldone` -/
theorem urcu_adaptative_wake_up_refines (fuel : Nat) (env : Env) (inp : List Val) (W : Loc)
    (hw : env.vars "wait" = some (.ptr W)) :
    ∀ out, exec fuel Gen.Src.«urcu_adaptative_wake_up» env inp = .ok out →
      (∀ l, l ≠ .field W "state" → out.env.priv l = env.priv l) ∧
      (out.ctl = .normal ∨ out.ctl = .blocked) ∧
      (out.events.all noAbort = true →
        ∃ labs pc', labelsS (absEvL (.field W "state")) Wn.kstep .l0 out.events = some labs ∧
          runA Wn.kstep .l0 labs = some pc' ∧ (out.ctl = .normal → pc' = .ldone)) := by
  intro out h
  obtain ⟨h1, h2, h3⟩ := src_adaptative_wake_up fuel env inp W hw out h
  refine ⟨h1, h2, fun hok => ?_⟩
  obtain ⟨pc', ha, hp⟩ := h3 hok
  obtain ⟨labs, hl, hr⟩ := acceptS_labels _ _ _ _ _ ha
  exact ⟨labs, pc', hl, hr, hp⟩

/-- `urcu_adaptative_busy_wait(wait)` ⊑ the waiter of `Handshake/WaitNode.lean`, from `spin` to `returned`: spin phase,
futex loop, `or RUNNING`, the two TEARDOWN phases, final assertion; `fuel` = a loop budget ran out -/
theorem urcu_adaptative_busy_wait_refines (fuel : Nat) (env : Env) (inp : List Val) (W : Loc)
    (hw : env.vars "wait" = some (.ptr W)) :
    ∀ out, exec fuel Gen.Src.«urcu_adaptative_busy_wait» env inp = .ok out →
      out.env.priv = env.priv ∧
      (out.ctl = .normal ∨ out.ctl = .blocked ∨ out.ctl = .fuel) ∧
      (out.events.all (okB (.field W "state")) = true →
        ∃ labs pc', labelsS (absEvB (.field W "state")) Wn.lstep .spin out.events = some labs ∧
          runA Wn.lstep .spin labs = some pc' ∧ (out.ctl = .normal → pc' = .returned)) := by
  intro out h
  obtain ⟨h1, h2, h3⟩ := src_adaptative_busy_wait fuel env inp W hw out h
  refine ⟨h1, h2, fun hok => ?_⟩
  obtain ⟨pc', ha, hp⟩ := h3 hok
  obtain ⟨labs, hl, hr⟩ := acceptS_labels _ _ _ _ _ ha
  exact ⟨labs, pc', hl, hr, hp⟩

/-- `urcu_wait_add(queue, node)` = `return cds_wfs_push(&queue->stack, &node->node)`: no label of the wait-node model;
its events are exactly those of `_cds_wfs_push` with these arguments (`o`), the result is forwarded -/
theorem urcu_wait_add_refines (fuel : Nat) (env : Env) (inp : List Val) (Q N : Loc)
    (hq : env.vars "queue" = some (.ptr Q)) (hn : env.vars "node" = some (.ptr N)) (o : Out)
    (ho : exec fuel Gen.Src.«_cds_wfs_push» (waitAddEnv env Q N) inp = .ok o) :
    (∀ v, o.ctl = .ret (some v) →
      ∃ out, exec fuel Gen.Src.«urcu_wait_add» env inp = .ok out ∧ out.events = o.events ∧ out.inp = o.inp ∧
        out.ctl = .ret (some v) ∧ out.env.priv = o.env.priv) ∧
    (o.ctl = .blocked ∨ o.ctl = .fuel →
      ∃ out, exec fuel Gen.Src.«urcu_wait_add» env inp = .ok out ∧ out.events = o.events ∧ out.inp = o.inp ∧
        out.ctl = o.ctl ∧ out.env.priv = o.env.priv) := src_wait_add fuel env inp Q N hq hn o ho

/-- `urcu_wake_all_waiters(waiters)`, ONE iteration of its loop with current node `N` (`wakeAllBody` = the body of the
translated loop, `_t1` = its iteration variable): the events are those of the call `_cds_wfs_next_blocking(N)` (`oN`, the
stack traversal, kept opaque) followed by `rest` = a run of the leader of node `N`: the pre-check load of `N->state`
(silent), then nothing (`continue`: RUNNING set, the leader stays at `l0`) or the whole `urcu_adaptative_wake_up(N)`
(`l0 → ldone`).  That every queued node is visited exactly once is the stack traversal's property, not stated here. -/
theorem urcu_wake_all_waiters_iteration_refines (fuel : Nat) (env : Env) (inp : List Val) (N : Loc)
    (h1 : env.vars "_t1" = some (.ptr N)) :
    ∀ out, exec fuel wakeAllBody env inp = .ok out →
      ∃ oN rest, exec fuel wakeAllNext (env.setVar "iter" (.ptr N)) inp = .ok oN ∧ out.events = oN.events ++ rest ∧
        (rest.all noAbort = true →
          ∃ labs pc', labelsS (absEvL (.field N "state")) Wn.kstep .l0 rest = some labs ∧
            runA Wn.kstep .l0 labs = some pc' ∧
            (out.ctl = .normal → pc' = .ldone) ∧ (out.ctl = .cont → pc' = .l0)) := by
  intro out h
  obtain ⟨oN, hN, rest, he, hr⟩ := src_wake_all_iteration fuel env inp N h1 out h
  refine ⟨oN, rest, hN, he, fun hok => ?_⟩
  obtain ⟨pc', ha, hp⟩ := hr hok
  obtain ⟨labs, hl, hrun⟩ := acceptS_labels _ _ _ _ _ ha
  exact ⟨labs, pc', hl, hrun, hp⟩

/-- `wakeAllBody` / `wakeAllNext` are parts of the generated value, not copies -/
example : ∃ a b : Stmt, Gen.Src.«urcu_wake_all_waiters» = .seq a (.seq b (.loop wakeAllBody)) := ⟨_, _, rfl⟩

/-! ## 4. defer thread futex -/

/-- `wake_up_defer()` ⊑ owner `i` of `Defer/ConcWake.lean` from L2 pc `k1` (back to `k0`) -/
theorem wake_up_defer_refines (fuel : Nat) (env : Env) (inp : List Val) (hr : WakeRetOk inp) :
    ∃ out, exec fuel Gen.Src.«wake_up_defer» env inp = .ok out ∧
      WakerRefines dfF "futex_noasync" Df.kstep Df.kMap Df.gk2l env out := by
  obtain ⟨out, h, hp⟩ := src_wake_up_defer fuel env inp hr
  exact ⟨out, h, hp.refines _ _ _ Df.simK⟩

/-- `wait_defer()` ⊑ the defer thread `D` of `Defer/ConcWake.lean` (`decFirst = true`: the code), one round from L2 pc
`d0` back to `d0`; abstraction `absEvD`, local automaton `Df.xstep` = `Df.lstep` + the composite step `scan f` for the
queue scan made inside the external `rcu_defer_num_callbacks()` (`df_scan_sound` below); contract `evOkD`
(`errno ∈ {EAGAIN, EINTR}`, futex word integer, `defer_thread_stop` reads 0 – the exit path is not covered) -/
theorem wait_defer_refines (c : DeferWake.Cfg) (hc : c.decFirst = true) (f0 : Bool) (fuel : Nat) (env : Env)
    (inp : List Val) :
    ∃ out, exec fuel Gen.Src.«wait_defer» env inp = .ok out ∧
      (∀ l, l ≠ dfF → out.env.priv l = env.priv l) ∧
      (out.events.all evOkD = true →
        ∃ labs ws', labelsOf absEvD out.events = some labs ∧ runA (Df.xstep c) ⟨.d0, f0⟩ labs = some ws' ∧
          ((out.ctl = .fuel ∧ ws'.dpc = .dwloop) ∨ out.ctl = .blocked ∨
           ((out.ctl = .normal ∨ out.ctl = .ret none) ∧ ws'.dpc = .d0))) := by
  obtain ⟨out, h, h1, h2⟩ := src_wait_defer c hc f0 fuel env inp
  refine ⟨out, h, h1, fun hok => ?_⟩
  obtain ⟨ws', hw, hp⟩ := h2 hok
  obtain ⟨labs, ha, hb⟩ := (accept_iff _ _ _ _ _).1 hw
  exact ⟨labs, ws', ha, hb, hp⟩

/-- the composite step `scan f`: every L2 run of `dScanQ` labels (the loads made inside `rcu_defer_num_callbacks()`) acts
on `D`'s projection like `scan f` with `f` = L2's `found` afterwards -/
theorem df_scan_sound (c : DeferWake.Cfg) (is : List Nat) (s s' : DeferWake.State) (hpc : s.dpc = .dscan)
    (hr : DeferWake.run c s (is.map .dScanQ) = some s') :
    Df.xstep c (Df.projW s) (.scan s'.found) = some (Df.projW s') := Df.scan_sound c is s s' hpc hr

/-! ## 5. work queue futex (against the generic automata; the `Wq` model section is `Src/WqRefine.lean`'s) -/

theorem futex_wait_refines (fuel : Nat) (env : Env) (inp : List Val) (F : Loc)
    (hc : env.vars "futex" = some (.ptr F)) :
    ∃ out, exec fuel Gen.Src.«futex_wait» env inp = .ok out ∧
      WaiterRefines F (-1) "futex_async" (gwstep (-1)) id (fun l => [l]) env out := by
  obtain ⟨out, h, hp⟩ := src_futex_wait fuel env inp F hc
  exact ⟨out, h, hp.refines _ _ _ (fun g l g' hg => by simp [runA, hg])⟩

theorem futex_wake_up_refines (fuel : Nat) (env : Env) (inp : List Val) (F : Loc)
    (hc : env.vars "futex" = some (.ptr F)) (hr : WakeRetOk inp) :
    ∃ out, exec fuel Gen.Src.«futex_wake_up» env inp = .ok out ∧
      WakerRefines F "futex_async" gkstep id (fun l => [l]) env out := by
  obtain ⟨out, h, hp⟩ := src_futex_wake_up fuel env inp F hc hr
  exact ⟨out, h, hp.refines _ _ _ (fun s l s' hs => by simp [runA, hs])⟩

theorem wake_worker_thread_refines (fuel : Nat) (env : Env) (inp : List Val) (W : Loc) (n : Nat)
    (hc : env.vars "workqueue" = some (.ptr W))
    (hf : ∀ f rest, inp = f :: rest → f = .int n)
    (hr : ∀ f rest, inp = f :: rest → WakeRetOk rest) :
    ∃ out, exec fuel Gen.Src.«wake_worker_thread» env inp = .ok out ∧
      (n &&& 1 = 0 → WakerRefines (.field W "futex") "futex_async" gkstep id (fun l => [l]) env out) ∧
      (n &&& 1 ≠ 0 → inp ≠ [] →
        out.events = [.ld (.field W "flags") (.int n) 0] ∧ out.ctl = .normal ∧ out.env.priv = env.priv) := by
  obtain ⟨out, h, h1, h2⟩ := src_wake_worker_thread fuel env inp W n hc hf hr
  exact ⟨out, h, fun hn => (h1 hn).refines _ _ _ (fun s l s' hs => by simp [runA, hs]), h2⟩

/-! ## the local automata are the thread-local projections of the real L2 `step` functions

(statements re-exported; `Hs` = `Handshake/Tso.lean`, `Qs` = `Handshake/QsbrTso.lean`, `Cr` = `CallRcu/Wake.lean`,
`Df` = `Defer/ConcWake.lean`; the waker of `Hs` is `Read.hstep` with `Read.projH_step / projH_enabled / projH_frame`,
re-exported by `Props/SrcRead.lean`) -/

theorem hs_waiter_proj_step (c : Handshake.Cfg) (s s' : Handshake.State) (l : Hs.WLabel)
    (st : Handshake.step c s l.toL2 = some s') (ho : Hs.ObsW s l) : Hs.lstep s.wpc l = some s'.wpc :=
  Hs.projW_step c s s' l st ho
theorem hs_waiter_proj_enabled (c : Handshake.Cfg) (s : Handshake.State) (l : Hs.WLabel) (pc' : Handshake.WPc)
    (hl : Hs.lstep s.wpc l = some pc') (hg : Hs.GuardW c s l) :
    ∃ s', Handshake.step c s l.toL2 = some s' ∧ s'.wpc = pc' ∧ Hs.ObsW s l := Hs.projW_enabled c s l pc' hl hg
/-- environment labels other than a waker's FUTEX_WAKE (`k3 j`) leave the waiter's pc unchanged … -/
theorem hs_waiter_proj_frame (c : Handshake.Cfg) (s s' : Handshake.State) (l : Handshake.Label)
    (st : Handshake.step c s l = some s') (ho : Hs.ownedW l = false) (hw : Hs.isWake l = false) : s'.wpc = s.wpc :=
  Hs.projW_frame c s s' l st ho hw
/-- … and `k3 j` acts on it exactly like the local label `woken` when the waiter is asleep, not at all otherwise -/
theorem hs_waiter_env_wake (c : Handshake.Cfg) (s s' : Handshake.State) (j : Nat)
    (st : Handshake.step c s (.k3 j) = some s') :
    s'.wpc = Hs.wakeEffect s.wpc ∧ (s.wpc = .wsleep → Hs.lstep s.wpc .woken = some s'.wpc) :=
  Hs.projW_env_wake c s s' j st

theorem qs_waiter_proj_step (c : QsbrHs.Cfg) (s s' : QsbrHs.State) (l : Qs.WLabel)
    (st : QsbrHs.step c s l.toL2 = some s') (ho : Qs.ObsW s l) : Qs.lstep s.wpc l = some s'.wpc :=
  Qs.projW_step c s s' l st ho
theorem qs_waiter_proj_enabled (c : QsbrHs.Cfg) (s : QsbrHs.State) (l : Qs.WLabel) (pc' : QsbrHs.WPc)
    (hl : Qs.lstep s.wpc l = some pc') (hg : Qs.GuardW c s l) :
    ∃ s', QsbrHs.step c s l.toL2 = some s' ∧ s'.wpc = pc' ∧ Qs.ObsW s l := Qs.projW_enabled c s l pc' hl hg
theorem qs_waiter_proj_frame (c : QsbrHs.Cfg) (s s' : QsbrHs.State) (l : QsbrHs.Label)
    (st : QsbrHs.step c s l = some s') (ho : Qs.ownedW l = false) (hw : Qs.isWake l = false) : s'.wpc = s.wpc :=
  Qs.projW_frame c s s' l st ho hw
theorem qs_waiter_env_wake (c : QsbrHs.Cfg) (s s' : QsbrHs.State) (j : Nat) (st : QsbrHs.step c s (.k5 j) = some s') :
    s'.wpc = Qs.wakeEffect s.wpc ∧ (s.wpc = .wsleep → Qs.lstep s.wpc .woken = some s'.wpc) :=
  Qs.projW_env_wake c s s' j st
theorem qs_waker_proj_step (c : QsbrHs.Cfg) (s s' : QsbrHs.State) (i : Nat) (l : Qs.KLabel)
    (st : QsbrHs.step c s (l.toL2 i) = some s') (ho : Qs.ObsK s i l) :
    Qs.kstep (Qs.projK s i) l = some (Qs.projK s' i) := Qs.projK_step c s s' i l st ho
theorem qs_waker_proj_enabled (c : QsbrHs.Cfg) (s : QsbrHs.State) (i : Nat) (l : Qs.KLabel) (ks' : Qs.KState)
    (hl : Qs.kstep (Qs.projK s i) l = some ks') (hi : i < c.n) (hg : Qs.GuardK s i l) :
    ∃ s', QsbrHs.step c s (l.toL2 i) = some s' ∧ Qs.projK s' i = ks' ∧ Qs.ObsK s i l :=
  Qs.projK_enabled c s i l ks' hl hi hg
theorem qs_waker_proj_frame (c : QsbrHs.Cfg) (s s' : QsbrHs.State) (i : Nat) (l : QsbrHs.Label)
    (st : QsbrHs.step c s l = some s') (ho : Qs.ownerK l ≠ some i) : Qs.projK s' i = Qs.projK s i :=
  Qs.projK_frame c s s' i l st ho

theorem cr_waiter_proj_step (c : CallRcuWake.Cfg) (s s' : CallRcuWake.State) (l : Cr.WLabel)
    (st : CallRcuWake.step c s l.toL2 = some s') (ho : Cr.ObsW s l) : Cr.lstep c s.hpc l = some s'.hpc :=
  Cr.projW_step c s s' l st ho
theorem cr_waiter_proj_enabled (c : CallRcuWake.Cfg) (s : CallRcuWake.State) (l : Cr.WLabel) (pc' : CallRcuWake.HPc)
    (hl : Cr.lstep c s.hpc l = some pc') (hg : Cr.GuardW s l) :
    ∃ s', CallRcuWake.step c s l.toL2 = some s' ∧ s'.hpc = pc' ∧ Cr.ObsW s l := Cr.projW_enabled c s l pc' hl hg
theorem cr_waiter_proj_frame (c : CallRcuWake.Cfg) (s s' : CallRcuWake.State) (l : CallRcuWake.Label)
    (st : CallRcuWake.step c s l = some s') (ho : Cr.ownedW l = false) (hw : Cr.isWake l = false) : s'.hpc = s.hpc :=
  Cr.projW_frame c s s' l st ho hw
theorem cr_waiter_env_wake (c : CallRcuWake.Cfg) (s s' : CallRcuWake.State) (j : Nat)
    (st : CallRcuWake.step c s (.kWake j) = some s') :
    s'.hpc = Cr.wakeEffect s.hpc ∧ (s.hpc = .asleep → Cr.lstep c s.hpc .woken = some s'.hpc) :=
  Cr.projW_env_wake c s s' j st
theorem cr_waker_proj_step (c : CallRcuWake.Cfg) (s s' : CallRcuWake.State) (i : Nat) (l : Cr.KLabel)
    (st : CallRcuWake.step c s (l.toL2 i) = some s') (ho : Cr.ObsK s i l) :
    Cr.kstep (Cr.projK s i) l = some (Cr.projK s' i) := Cr.projK_step c s s' i l st ho
theorem cr_waker_proj_enabled (c : CallRcuWake.Cfg) (s : CallRcuWake.State) (i : Nat) (l : Cr.KLabel) (ks' : Cr.KState)
    (hl : Cr.kstep (Cr.projK s i) l = some ks') (hi : i < c.n) (hg : Cr.GuardK s i l) :
    ∃ s', CallRcuWake.step c s (l.toL2 i) = some s' ∧ Cr.projK s' i = ks' ∧ Cr.ObsK s i l :=
  Cr.projK_enabled c s i l ks' hl hi hg
theorem cr_waker_proj_frame (c : CallRcuWake.Cfg) (s s' : CallRcuWake.State) (i : Nat) (l : CallRcuWake.Label)
    (st : CallRcuWake.step c s l = some s') (ho : Cr.ownerK l ≠ some i) : Cr.projK s' i = Cr.projK s i :=
  Cr.projK_frame c s s' i l st ho

theorem df_waiter_proj_step (c : DeferWake.Cfg) (s s' : DeferWake.State) (l : Df.WLabel) (hq : ∀ i, l ≠ .dScanQ i)
    (st : DeferWake.step c s l.toL2 = some s') (ho : Df.ObsW s l) : Df.lstep c (Df.projW s) l = some (Df.projW s') :=
  Df.projW_step c s s' l hq st ho
theorem df_waiter_proj_enabled (c : DeferWake.Cfg) (s : DeferWake.State) (l : Df.WLabel) (ws' : Df.WState)
    (hl : Df.lstep c (Df.projW s) l = some ws') (hg : Df.GuardW c s l) :
    ∃ s', DeferWake.step c s l.toL2 = some s' ∧ Df.projW s' = ws' ∧ Df.ObsW s l := Df.projW_enabled c s l ws' hl hg
theorem df_waiter_proj_frame (c : DeferWake.Cfg) (s s' : DeferWake.State) (l : DeferWake.Label)
    (st : DeferWake.step c s l = some s') (ho : Df.ownedW l = false) (hw : Df.isWake l = false) :
    Df.projW s' = Df.projW s := Df.projW_frame c s s' l st ho hw
theorem df_waiter_env_wake (c : DeferWake.Cfg) (s s' : DeferWake.State) (j : Nat)
    (st : DeferWake.step c s (.k3 j) = some s') :
    Df.projW s' = Df.wakeEffect (Df.projW s) ∧
      (s.dpc = .dsleep → Df.lstep c (Df.projW s) .woken = some (Df.projW s')) := Df.projW_env_wake c s s' j st
theorem df_waker_proj_step (c : DeferWake.Cfg) (s s' : DeferWake.State) (i : Nat) (l : Df.KLabel)
    (st : DeferWake.step c s (l.toL2 i) = some s') (ho : Df.ObsK s l) :
    Df.kstep (Df.projK s i) l = some (Df.projK s' i) := Df.projK_step c s s' i l st ho
theorem df_waker_proj_enabled (c : DeferWake.Cfg) (s : DeferWake.State) (i : Nat) (l : Df.KLabel) (ks' : Df.KState)
    (hl : Df.kstep (Df.projK s i) l = some ks') (hg : Df.GuardK c s i l) :
    ∃ s', DeferWake.step c s (l.toL2 i) = some s' ∧ Df.projK s' i = ks' ∧ Df.ObsK s l :=
  Df.projK_enabled c s i l ks' hl hg
theorem df_waker_proj_frame (c : DeferWake.Cfg) (s s' : DeferWake.State) (i : Nat) (l : DeferWake.Label)
    (st : DeferWake.step c s l = some s') (ho : Df.ownerK l ≠ some i) : Df.projK s' i = Df.projK s i :=
  Df.projK_frame c s s' i l st ho

theorem wn_waiter_proj_step (s s' : WaitNode.State) (l : Wn.WLabel) (st : WaitNode.step s l.toL2 = some s') :
    Wn.lstep s.wpc l = some s'.wpc ∧ Wn.GuardW s l := Wn.projW_step s s' l st
theorem wn_waiter_proj_enabled (s : WaitNode.State) (l : Wn.WLabel) (pc' : WaitNode.WPc)
    (hl : Wn.lstep s.wpc l = some pc') (hg : Wn.GuardW s l) :
    ∃ s', WaitNode.step s l.toL2 = some s' ∧ s'.wpc = pc' := Wn.projW_enabled s l pc' hl hg
theorem wn_waiter_proj_frame (s s' : WaitNode.State) (l : WaitNode.Label) (st : WaitNode.step s l = some s')
    (ho : Wn.ownedW l = false) (hw : l ≠ .lWake) : s'.wpc = s.wpc := Wn.projW_frame s s' l st ho hw
theorem wn_waiter_env_wake (s s' : WaitNode.State) (st : WaitNode.step s .lWake = some s') :
    s'.wpc = Wn.wakeEffect s.wpc ∧ (s.wpc = .sleep → Wn.lstep s.wpc .woken = some s'.wpc) :=
  Wn.projW_env_wake s s' st
theorem wn_leader_proj_step (s s' : WaitNode.State) (l : Wn.KLabel) (st : WaitNode.step s l.toL2 = some s')
    (ho : Wn.ObsK s l) : Wn.kstep s.lpc l = some s'.lpc := Wn.projK_step s s' l st ho
theorem wn_leader_proj_enabled (s : WaitNode.State) (l : Wn.KLabel) (pc' : WaitNode.LPc)
    (hl : Wn.kstep s.lpc l = some pc') (hg : Wn.GuardK s l) :
    ∃ s', WaitNode.step s l.toL2 = some s' ∧ s'.lpc = pc' ∧ Wn.ObsK s l := Wn.projK_enabled s l pc' hl hg
theorem wn_leader_proj_frame (s s' : WaitNode.State) (l : WaitNode.Label) (st : WaitNode.step s l = some s')
    (ho : Wn.ownedK l = false) : s'.lpc = s.lpc := Wn.projK_frame s s' l st ho

theorem br_waiter_proj_step (c : CallRcu.Cfg) (s s' : CallRcu.BState) (t : Nat) (l : Br.WLabel)
    (st : CallRcu.bstep c s (l.toL2 t) = some s') (ho : Br.ObsW s t l) :
    Br.lstep (s.bpc t) l = some (s'.bpc t) := Br.projW_step c s s' t l st ho
theorem br_waiter_proj_enabled (c : CallRcu.Cfg) (s : CallRcu.BState) (t : Nat) (l : Br.WLabel) (pc' : CallRcu.BPc)
    (hl : Br.lstep (s.bpc t) l = some pc') (hg : Br.GuardW s t l) :
    ∃ s', CallRcu.bstep c s (l.toL2 t) = some s' ∧ s'.bpc t = pc' := Br.projW_enabled c s t l pc' hl hg
theorem br_waiter_proj_frame (c : CallRcu.Cfg) (s s' : CallRcu.BState) (t : Nat) (l : CallRcu.BLabel)
    (st : CallRcu.bstep c s l = some s') (ho : Br.ownerW l ≠ some t) (hw : ∀ h, l ≠ .mWake h) :
    s'.bpc t = s.bpc t := Br.projW_frame c s s' t l st ho hw
theorem br_waiter_env_wake (c : CallRcu.Cfg) (s s' : CallRcu.BState) (h t : Nat)
    (st : CallRcu.bstep c s (.mWake h) = some s') :
    s'.bpc t = s.bpc t ∨ Br.lstep (s.bpc t) .woken = some (s'.bpc t) := Br.projW_env_wake c s s' h t st
theorem br_waker_proj_step (c : CallRcu.Cfg) (s s' : CallRcu.BState) (h : Nat) (l : Br.KLabel)
    (st : CallRcu.bstep c s (l.toL2 h) = some s') (ho : Br.ObsK s h l) :
    Br.kstep (s.mpc h) l = some (s'.mpc h) := Br.projK_step c s s' h l st ho
theorem br_waker_proj_enabled (c : CallRcu.Cfg) (s : CallRcu.BState) (h : Nat) (l : Br.KLabel) (pc' : CallRcu.MPc)
    (hl : Br.kstep (s.mpc h) l = some pc') (hg : Br.GuardK s h l) :
    ∃ s', CallRcu.bstep c s (l.toL2 h) = some s' ∧ s'.mpc h = pc' := Br.projK_enabled c s h l pc' hl hg
theorem br_waker_proj_frame (c : CallRcu.Cfg) (s s' : CallRcu.BState) (h : Nat) (l : CallRcu.BLabel)
    (st : CallRcu.bstep c s l = some s') (ho : Br.ownerK l ≠ some h) : s'.mpc h = s.mpc h :=
  Br.projK_frame c s s' h l st ho

/-! ## non-vacuity: concrete runs (oracle, events, generic labels, L2-local labels, final pcs) -/

/-- mb `wait_gp()`: unlock; load -1; FUTEX_WAIT returns 0 (woken); load 0; lock: 6 events, the call completes -/
def mbRun : List Val := [.int 0, .int (-1), .int 0, .int 0, .int 0]
example : (exec 2 Gen.Src.«mb.wait_gp» Env.empty mbRun).toOption.map (fun o => (o.events, o.ctl)) =
    some ([.fence .mb, .ext "mutex_unlock" [.ptr (.glob "rcu_registry_lock")] (.int 0), .ld gpF (.int (-1)) 0,
           .ext "futex_async" (waitArgs gpF (-1)) (.int 0), .ld gpF (.int 0) 0,
           .ext "mutex_lock" [.ptr (.glob "rcu_registry_lock")] (.int 0)], .normal) := by decide
example : (exec 2 Gen.Src.«mb.wait_gp» Env.empty mbRun).toOption.map
      (fun o => (labelsOf (absEvW gpF (-1) "futex_async") o.events).map (fun l => (l, l.flatMap Hs.gw2l))) =
    some (some ([.ldArmed, .sleep, .woken, .ldOther 0], [.w2Sleep, .woken, .w2RetLd 0])) := by decide
example : runA Hs.lstep .w2 [.w2Sleep, .woken, .w2RetLd 0] = some .w0 := by decide
example := mb_wait_gp_refines 2 Env.empty mbRun
/-- the loop budget runs out (fuel 1, the futex stays -1): generic pc back at `chk` -/
example : (exec 1 Gen.Src.«mb.wait_gp» Env.empty [.int 0, .int (-1), .int 0, .int (-1)]).toOption.map (·.ctl) =
    some .fuel := by decide

/-- memb `wait_gp()` with `sys_membarrier`: the `membarrier` system call, then EAGAIN from the kernel -/
def envMemb : Env :=
  { vars := fun _ => none,
    priv := fun l => if l = .glob "urcu_memb_has_sys_membarrier" then some (.int 1)
      else if l = .glob "urcu_memb_has_sys_membarrier_private_expedited" then some (.int 1) else none }
example : (exec 2 Gen.Src.«memb.wait_gp» envMemb [.int 0, .int 0, .int (-1), .int (-1), .int 11, .int 0]).toOption.map
      (fun o => (o.events, o.ctl)) =
    some ([.ext "membarrier" [.int 8, .int 0] (.int 0), .ext "mutex_unlock" [.ptr (.glob "rcu_registry_lock")] (.int 0),
           .ld gpF (.int (-1)) 0, .ext "futex_async" (waitArgs gpF (-1)) (.int (-1)), .ext "errno" [] (.int 11),
           .ext "mutex_lock" [.ptr (.glob "rcu_registry_lock")] (.int 0)], .normal) := by decide
example := memb_wait_gp_refines 2 envMemb [.int 0, .int 0, .int (-1), .int (-1), .int 11, .int 0] 1 1 rfl rfl

/-- qsbr `wait_gp()`: EINTR, then EAGAIN: 7 events, returns -/
def qsRun : List Val := [.int (-1), .int (-1), .int 4, .int (-1), .int (-1), .int 11]
example : (exec 3 Gen.Src.«qsbr.wait_gp» Env.empty qsRun).toOption.map
      (fun o => (o.events.length, o.ctl, labelsOf (absEvW qsF (-1) "futex_noasync") o.events)) =
    some (7, .ret none, some [.ldArmed, .intr, .ldArmed, .eagain]) := by decide
example : runA Qs.lstep .w2 ([GWLabel.ldArmed, .intr, .ldArmed, .eagain].flatMap Qs.gw2l) = some .w0 := by decide
example := qsbr_wait_gp_refines 3 Env.empty qsRun
/-- a blocked prefix: the oracle ends inside FUTEX_WAIT -/
example : (exec 3 Gen.Src.«qsbr.wait_gp» Env.empty [.int (-1)]).toOption.map (fun o => (o.events.length, o.ctl)) =
    some (2, .blocked) := by decide
/-- an unexpected `errno` (the source would call `urcu_die`) violates the contract `evOk` -/
example : (exec 3 Gen.Src.«qsbr.wait_gp» Env.empty [.int (-1), .int (-1), .int 22]).toOption.map
    (fun o => o.events.all (evOk qsF)) = some false := by decide

/-- wakers: updater asleep (futex = -1) -/
def envGp : Env := { vars := fun x => if x = "gp" then some (.ptr (.glob "urcu_memb_gp")) else none, priv := fun _ => none }
example : (exec 0 Gen.Src.«urcu_common_wake_up_gp» envGp [.int (-1), .int 1]).toOption.map
      (fun o => (o.events, labelsOf (absEvK (.field (.glob "urcu_memb_gp") "futex") "futex_async") o.events)) =
    some ([.ld (.field (.glob "urcu_memb_gp") "futex") (.int (-1)) 0, .st (.field (.glob "urcu_memb_gp") "futex") (.int 0) 0,
           .ext "futex_async" (wakeArgs (.field (.glob "urcu_memb_gp") "futex")) (.int 1)],
          some [.k1 (-1), .k2Wake, .k3]) := by decide
example := urcu_common_wake_up_gp_refines true 0 envGp [.int (-1), .int 1] (.glob "urcu_memb_gp") rfl
example : (exec 0 Gen.Src.«urcu_qsbr_wake_up_gp» Env.empty [.int 1, .int (-1), .int 1]).toOption.map
      (fun o => (o.events.length, labelsOf absEvQK o.events)) =
    some (6, some [.k1 true, .k2, .kf, .k3 (-1), .k4Wake, .k5]) := by decide
example : runA Qs.kstep { kpc := .k1, r := 0 } [.k1 true, .k2, .kf, .k3 (-1), .k4Wake, .k5] =
    some { kpc := .k9, r := -1 } := by decide
example := urcu_qsbr_wake_up_gp_refines 0 Env.empty [.int 1, .int (-1), .int 1]

/-- call_rcu: helper waits (sleeps, woken, sees 0); `_call_rcu` wakes it -/
def envCrdp : Env := { vars := fun x => if x = "crdp" then some (.ptr (.obj 3)) else none, priv := fun _ => none }
example : (exec 2 Gen.Src.«call_rcu_wait» envCrdp [.int (-1), .int 0, .int 0]).toOption.map
      (fun o => (o.events.length, o.ctl, labelsOf (absEvW (.field (.obj 3) "futex") (-1) "futex_async") o.events)) =
    some (4, .normal, some [.ldArmed, .sleep, .woken, .ldOther 0]) := by decide
example : runA (Cr.lstep {n := 1}) .waitLd ([GWLabel.ldArmed, .sleep, .woken, .ldOther 0].flatMap Cr.gw2l) = some .dec := by
  decide
example := call_rcu_wait_refines {n := 1} 2 envCrdp [.int (-1), .int 0, .int 0] (.obj 3) rfl
example : (exec 0 Gen.Src.«wake_call_rcu_thread» envCrdp [.int 0, .int (-1), .int 1]).toOption.map
      (fun o => (o.events.length, o.ctl, labelsOf (absEvK (.field (.obj 3) "futex") "futex_async") o.events)) =
    some (5, .normal, some [.k1 (-1), .k2Wake, .k3]) := by decide
example := wake_call_rcu_thread_refines 0 envCrdp [.int 0, .int (-1), .int 1] (.obj 3) 0 rfl
  (by intro f rest h; cases h; rfl)
  (by intro f rest h; cases h; intro v r rest h; cases h; exact ⟨1, by decide, rfl⟩)
example := call_rcu_wake_up_refines 0 envCrdp [.int (-1), .int 1] (.obj 3) rfl
  (by intro v r rest h; cases h; exact ⟨1, by decide, rfl⟩)

/-- defer / work queue wakers and the work queue waiter -/
example : (exec 0 Gen.Src.«wake_up_defer» Env.empty [.int (-1), .int 1]).toOption.map
      (fun o => (o.events.length, o.ctl, labelsOf (absEvK dfF "futex_noasync") o.events)) =
    some (3, .normal, some [.k1 (-1), .k2Wake, .k3]) := by decide
example := wake_up_defer_refines 0 Env.empty [.int (-1), .int 1] (by intro v r rest h; cases h; exact ⟨1, by decide, rfl⟩)
def envFx : Env := { vars := fun x => if x = "futex" then some (.ptr (.field (.obj 5) "futex")) else none, priv := fun _ => none }
example : (exec 2 Gen.Src.«futex_wait» envFx [.int (-1), .int (-1), .int 11]).toOption.map
      (fun o => (o.events.length, o.ctl, labelsOf (absEvW (.field (.obj 5) "futex") (-1) "futex_async") o.events)) =
    some (4, .ret none, some [.ldArmed, .eagain]) := by decide
example := futex_wait_refines 2 envFx [.int (-1), .int (-1), .int 11] (.field (.obj 5) "futex") rfl
example := futex_wake_up_refines 0 envFx [.int (-1), .int 1] (.field (.obj 5) "futex") rfl
  (by intro v r rest h; cases h; exact ⟨1, by decide, rfl⟩)

/-- `wait_defer()`: queues empty → sleeps, woken, sees 0; and queues non-empty → resets the futex -/
example : (exec 2 Gen.Src.«wait_defer» Env.empty [.int (-1), .int 0, .int 0, .int (-1), .int 0, .int 0]).toOption.map
      (fun o => (o.events.length, o.ctl, labelsOf absEvD o.events)) =
    some (8, .normal, some [.l .dDec, .scan false, .l (.dScanEnd false), .l (.dLoad (-1)), .l .dWaitSleep, .l .woken,
      .l (.dLoad 0)]) := by decide
example : runA (Df.xstep {n := 1}) ⟨.d0, true⟩ [.l .dDec, .scan false, .l (.dScanEnd false), .l (.dLoad (-1)),
    .l .dWaitSleep, .l .woken, .l (.dLoad 0)] = some ⟨.d0, false⟩ := by decide
example : (exec 2 Gen.Src.«wait_defer» Env.empty [.int (-1), .int 0, .int 3]).toOption.map
      (fun o => (o.events.length, o.ctl, labelsOf absEvD o.events)) =
    some (6, .normal, some [.l .dDec, .scan true, .l (.dScanEnd true), .l .dStore0]) := by decide
example := wait_defer_refines {n := 1} rfl true 2 Env.empty [.int (-1), .int 0, .int 0, .int (-1), .int 0, .int 0]

/-- wait nodes.  Leader: assertion load (WAITING), store WAKEUP, load (RUNNING clear), FUTEX_WAKE, `or TEARDOWN` -/
def envWait : Env := { vars := fun x => if x = "wait" then some (.ptr (.obj 9)) else none, priv := fun _ => none }
example : (exec 0 Gen.Src.«urcu_adaptative_wake_up» envWait [.int 0, .int 1, .int 1, .int 1]).toOption.map
      (fun o => (o.events.length, o.ctl, labelsS (absEvL (.field (.obj 9) "state")) Wn.kstep .l0 o.events)) =
    some (5, .normal, some [.lStore, .lLoad false, .lWake, .lTeardown]) := by decide
example : runA Wn.kstep .l0 [.lStore, .lLoad false, .lWake, .lTeardown] = some .ldone := by decide
/-- the waiter already runs (RUNNING set): no FUTEX_WAKE -/
example : (exec 0 Gen.Src.«urcu_adaptative_wake_up» envWait [.int 0, .int 3, .int 3]).toOption.map
      (fun o => (o.events.length, o.ctl, labelsS (absEvL (.field (.obj 9) "state")) Wn.kstep .l0 o.events)) =
    some (4, .normal, some [.lStore, .lLoad true, .lSkipWake, .lTeardown]) := by decide
/-- a failed assertion (`abort`) violates the contract -/
example : (exec 0 Gen.Src.«urcu_adaptative_wake_up» envWait [.int 1, .int 0]).toOption.map
    (fun o => o.events.all noAbort) = some false := by decide
example := urcu_adaptative_wake_up_refines 0 envWait [.int 0, .int 1, .int 1, .int 1] (.obj 9) rfl
/-- waiter, woken while spinning: sees WAITING, then WAKEUP; `or RUNNING`; TEARDOWN not yet, then set; the call returns -/
example : (exec 3 Gen.Src.«urcu_adaptative_busy_wait» envWait
        [.int 0, .int 1, .int 1, .int 3, .int 7, .int 7, .int 7]).toOption.map
      (fun o => (o.events.length, o.ctl, labelsS (absEvB (.field (.obj 9) "state")) Wn.lstep .spin o.events)) =
    some (10, .normal, some [.wSeeWaiting, .wSeeWoken, .wOrRunning, .wSeeTeardown]) := by decide
example : runA Wn.lstep .spin [.wSeeWaiting, .wSeeWoken, .wOrRunning, .wSeeTeardown] = some .returned := by decide
example := urcu_adaptative_busy_wait_refines 3 envWait [.int 0, .int 1, .int 1, .int 3, .int 7, .int 7, .int 7] (.obj 9) rfl
/-- the futex loop and what follows (the suffix `bwT2` of the function, entered after 1000 spins): FUTEX_WAIT sleeps and
is woken, EINTR, then EAGAIN; `or RUNNING`; TEARDOWN seen at the second look -/
def envWait0 : Env :=
  { vars := fun x => if x = "wait" then some (.ptr (.obj 9)) else if x = "_goto_skip_futex_wait" then some (.int 0) else none,
    priv := fun _ => none }
example : (exec 3 bwT2 envWait0
        [.int 0, .int 0, .int 0, .int (-1), .int 4, .int 0, .int (-1), .int 11, .int 1, .int 3, .int 7, .int 7,
         .int 7]).toOption.map
      (fun o => (o.ctl, labelsS (absEvB (.field (.obj 9) "state")) Wn.lstep .spin o.events)) =
    some (.normal, some [.wSeeWaiting, .wSleep, .woken, .wSeeWaiting, .wSeeWaiting, .wEagain, .wOrRunning,
      .wSeeTeardown]) := by decide

/-- one iteration of `urcu_wake_all_waiters` on node 9 (last node: `next` = END): 1 event of the traversal, then the
pre-check load and the leader's run -/
def envIt : Env := { vars := fun x => if x = "_t1" then some (.ptr (.obj 9)) else none, priv := fun _ => none }
example : (exec 2 wakeAllBody envIt [.int 1, .int 0, .int 0, .int 1, .int 1, .int 1]).toOption.map
      (fun o => (o.events.length, o.ctl,
        labelsS (absEvL (.field (.obj 9) "state")) Wn.kstep .l0 (o.events.drop 1))) =
    some (7, .normal, some [.lStore, .lLoad false, .lWake, .lTeardown]) := by decide
example : (exec 2 wakeAllBody envIt [.int 1, .int 2]).toOption.map (fun o => (o.events.length, o.ctl)) =
    some (2, .cont) := by decide
example := urcu_wake_all_waiters_iteration_refines 2 envIt [.int 1, .int 0, .int 0, .int 1, .int 1, .int 1] (.obj 9) rfl

/-- completion futex of `rcu_barrier()`: the caller sleeps and is woken; the marker callback wakes it -/
def envCompl : Env := { vars := fun x => if x = "completion" then some (.ptr (.obj 4)) else none, priv := fun _ => none }
example : (exec 2 Gen.Src.«call_rcu_completion_wait» envCompl [.int (-1), .int 0, .int 0]).toOption.map
      (fun o => (o.events.length, o.ctl,
        (labelsOf (absEvW (.field (.obj 4) "futex") (-1) "futex_async") o.events).map (·.flatMap Br.gw2l))) =
    some (4, .normal, some [.bWaitLd (-1), .bWaitFx .sleep, .woken, .bWaitLd 0]) := by decide
example : runA Br.lstep (.waitLd 5) [.bWaitLd (-1), .bWaitFx .sleep, .woken, .bWaitLd 0] = some (.dec 5) := by decide
example := call_rcu_completion_wait_refines 5 2 envCompl [.int (-1), .int 0, .int 0] (.obj 4) rfl
example := call_rcu_completion_wake_up_refines 0 envCompl [.int (-1), .int 1] (.obj 4) rfl
  (by intro v r rest h; cases h; exact ⟨1, by decide, rfl⟩)
example : runA Br.kstep .ldFut ([GKLabel.k1 (-1), .k2Wake, .k3].flatMap Br.gk2l) = some .put := by decide

/-- the projection lemmas are not vacuous: real L2 steps of the waiter of `Handshake/Tso.lean` up to its sleep, and the
wake-up by waker 0 -/
example : ∃ s1 s2, Handshake.step ⟨1, false, true⟩ Handshake.init .w0 = some s1 ∧
    Handshake.step ⟨1, false, true⟩ s1 .wbarRet = some s2 ∧ Hs.lstep s1.wpc .wbarRet = some s2.wpc := by
  refine ⟨_, _, rfl, rfl, ?_⟩
  exact hs_waiter_proj_step ⟨1, false, true⟩ _ _ .wbarRet rfl trivial

end UrcuVerif.Props.SrcFutex
