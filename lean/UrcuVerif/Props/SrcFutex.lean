import UrcuVerif.Src.FutexGp
import UrcuVerif.Src.FutexCallRcu
import UrcuVerif.Src.FutexWq
import UrcuVerif.Src.FutexDefer
/-!
# Source refinement, futex wait / wake handshakes: final statements

"The generated source IR of the waiter and waker sides of the futex handshakes (values of `Gen/Src.lean`, regenerated
from the C text of /repo on every run) refines, thread-locally, the proven L2 handshake models."

Three layers (definitions and the full story in the headers of `Src/FutexLocal.lean`, `Src/FutexRefine.lean`):
source events → (`absEvW` / `absEvK`, stateless) → labels of the GENERIC waiter `gwstep` / waker `gkstep` → (`gw2l` /
`gk2l`, proved simulations `sim` / `simK`) → labels of the LOCAL automaton `lstep` / `kstep` of the L2 model, which is the
thread-local projection of the real L2 `step` (`proj*_step`, `proj*_enabled`, `proj*_frame`, `projW_env_wake`, re-exported
at the end).

Each `<f>_refines` reads: for every `fuel`, every oracle `inp` (runs that end `blocked` are the prefixes), every
environment satisfying the stated binding of the pointer parameter: `exec` returns `.ok out` – never `.error`; for the
waiters unconditionally, for the wakers that test the result of FUTEX_WAKE under `WakeRetOk` – and, when the events satisfy
the system-call contract `evOk` (`errno ∈ {EAGAIN, EINTR}` after a failed FUTEX_WAIT – otherwise the source calls
`urcu_die()` –, `membarrier()` returns 0, the futex word holds an integer), `WaiterRefines` / `WakerRefines` holds.
-/
set_option maxRecDepth 8192
namespace UrcuVerif.Props.SrcFutex
open UrcuVerif UrcuVerif.Src UrcuVerif.Src.Futex

/-! ## 1. grace-period futex: `wait_gp()` (memb, mb, qsbr) and the wakers -/

/-- memb `wait_gp()` ⊑ the waiter of `Handshake/Tso.lean` from L2 pc `w2` (back to `w0` when it returns) -/
theorem memb_wait_gp_refines (fuel : Nat) (env : Env) (inp : List Val) (b b2 : Int)
    (hb : env.priv (.glob "urcu_memb_has_sys_membarrier") = some (.int b))
    (hb2 : env.priv (.glob "urcu_memb_has_sys_membarrier_private_expedited") = some (.int b2)) :
    ∃ out, exec fuel Gen.Src.«memb.wait_gp» env inp = .ok out ∧
      WaiterRefines gpF (-1) "futex_async" Hs.lstep Hs.pcMap Hs.gw2l env out := by
  obtain ⟨out, h, hp⟩ := memb_wait_gp fuel env inp b b2 hb hb2
  exact ⟨out, h, hp.refines _ _ _ Hs.sim⟩

theorem mb_wait_gp_refines (fuel : Nat) (env : Env) (inp : List Val) :
    ∃ out, exec fuel Gen.Src.«mb.wait_gp» env inp = .ok out ∧
      WaiterRefines gpF (-1) "futex_async" Hs.lstep Hs.pcMap Hs.gw2l env out := by
  obtain ⟨out, h, hp⟩ := mb_wait_gp fuel env inp
  exact ⟨out, h, hp.refines _ _ _ Hs.sim⟩

/-- qsbr `wait_gp()` ⊑ the waiter of `Handshake/QsbrTso.lean` from L2 pc `w2` -/
theorem qsbr_wait_gp_refines (fuel : Nat) (env : Env) (inp : List Val) :
    ∃ out, exec fuel Gen.Src.«qsbr.wait_gp» env inp = .ok out ∧
      WaiterRefines qsF (-1) "futex_noasync" Qs.lstep Qs.pcMap Qs.gw2l env out := by
  obtain ⟨out, h, hp⟩ := qsbr_wait_gp fuel env inp
  exact ⟨out, h, hp.refines _ _ _ Qs.sim⟩

/-- `urcu_common_wake_up_gp(gp)` ⊑ waker `i` of `Handshake/Tso.lean` from L2 pc `k1` (`Read.hstep`, the local automaton of
`Src/ReadLocal.lean`; `sf` = `Cfg.slaveFence`, irrelevant from `k1` on) -/
theorem urcu_common_wake_up_gp_refines (sf : Bool) (fuel : Nat) (env : Env) (inp : List Val) (G : Loc)
    (hg : env.vars "gp" = some (.ptr G)) :
    ∃ out, exec fuel Gen.Src.«urcu_common_wake_up_gp» env inp = .ok out ∧
      WakerRefines (.field G "futex") "futex_async" (Read.hstep sf) Hs.kMap Hs.gk2l env out := by
  obtain ⟨out, h, hp⟩ := common_wake_up_gp fuel env inp G hg
  exact ⟨out, h, hp.refines _ _ _ (Hs.simK sf)⟩

/-- `urcu_qsbr_wake_up_gp()` ⊑ reader `i` of `Handshake/QsbrTso.lean` from L2 pc `k1` to `k9` (abstraction `absEvQK`) -/
theorem urcu_qsbr_wake_up_gp_refines (fuel : Nat) (env : Env) (inp : List Val) :
    ∃ out, exec fuel Gen.Src.«urcu_qsbr_wake_up_gp» env inp = .ok out ∧
      (∀ l, l ≠ qsF → l ≠ qsW → out.env.priv l = env.priv l) ∧
      (out.ctl = .normal ∨ out.ctl = .ret none ∨ out.ctl = .blocked) ∧
      (out.events.all (evOk qsF) = true →
        ∀ r0, ∃ labs k', labelsOf absEvQK out.events = some labs ∧
          runA Qs.kstep { kpc := .k1, r := r0 } labs = some k' ∧
          (out.ctl = .normal ∨ out.ctl = .ret none → k'.kpc = .k9)) := by
  obtain ⟨out, h, h1, h2, h3⟩ := qsbr_wake_up_gp fuel env inp
  refine ⟨out, h, h1, h2, fun hok r0 => ?_⟩
  obtain ⟨k', hk, hp⟩ := h3 hok r0
  obtain ⟨labs, ha, hb⟩ := (accept_iff _ _ _ _ _).1 hk
  exact ⟨labs, k', ha, hb, hp⟩

/-! ## 2. call_rcu helper futex -/

/-- `call_rcu_wait(crdp)` ⊑ the helper of `CallRcu/Wake.lean` from L2 pc `waitLd` (to `dec` when it returns) -/
theorem call_rcu_wait_refines (c : CallRcuWake.Cfg) (fuel : Nat) (env : Env) (inp : List Val) (C : Loc)
    (hc : env.vars "crdp" = some (.ptr C)) :
    ∃ out, exec fuel Gen.Src.«call_rcu_wait» env inp = .ok out ∧
      WaiterRefines (.field C "futex") (-1) "futex_async" (Cr.lstep c) (Cr.pcMap c) Cr.gw2l env out := by
  obtain ⟨out, h, hp⟩ := src_call_rcu_wait fuel env inp C hc
  exact ⟨out, h, hp.refines _ _ _ (Cr.sim c)⟩

/-- `call_rcu_wake_up(crdp)` ⊑ waker `i` of `CallRcu/Wake.lean` from L2 pc `kmb` (back to `k0`) -/
theorem call_rcu_wake_up_refines (fuel : Nat) (env : Env) (inp : List Val) (C : Loc)
    (hc : env.vars "crdp" = some (.ptr C)) (hr : WakeRetOk inp) :
    ∃ out, exec fuel Gen.Src.«call_rcu_wake_up» env inp = .ok out ∧
      WakerRefines (.field C "futex") "futex_async" Cr.kstep Cr.kMap Cr.gk2l env out := by
  obtain ⟨out, h, hp⟩ := src_call_rcu_wake_up fuel env inp C hc hr
  exact ⟨out, h, hp.refines _ _ _ Cr.simK⟩

/-- `wake_call_rcu_thread(crdp)`, `n` = `crdp->flags`: futex-woken helper → as `call_rcu_wake_up` (the load of the
flags is silent: L2 folds it into `kEnq`); `URCU_CALL_RCU_RT` → the load only -/
theorem wake_call_rcu_thread_refines (fuel : Nat) (env : Env) (inp : List Val) (C : Loc) (n : Nat)
    (hc : env.vars "crdp" = some (.ptr C))
    (hf : ∀ f rest, inp = f :: rest → f = .int n)
    (hr : ∀ f rest, inp = f :: rest → WakeRetOk rest) :
    ∃ out, exec fuel Gen.Src.«wake_call_rcu_thread» env inp = .ok out ∧
      (n &&& 1 = 0 → WakerRefines (.field C "futex") "futex_async" Cr.kstep Cr.kMap Cr.gk2l env out) ∧
      (n &&& 1 ≠ 0 → inp ≠ [] →
        out.events = [.ld (.field C "flags") (.int n) 0] ∧ out.ctl = .normal ∧ out.env.priv = env.priv) := by
  obtain ⟨out, h, h1, h2⟩ := src_wake_call_rcu_thread fuel env inp C n hc hf hr
  exact ⟨out, h, fun hn => (h1 hn).refines _ _ _ Cr.simK, h2⟩

/-- `call_rcu_completion_wait(completion)` / `call_rcu_completion_wake_up(completion)` (the futex of `rcu_barrier()`):
same text on `&completion->futex`.  Stated against the generic automata; in `CallRcu/Barrier.lean` the labels
`bWaitLd / bWaitFx o / bSpurious` and `mLdFut / mStFut / mWake` are the generic labels one for one (as `Cr.gw2l`,
`Cr.gk2l`); the projection lemmas for that model are not part of this file. -/
theorem call_rcu_completion_wait_refines (fuel : Nat) (env : Env) (inp : List Val) (C : Loc)
    (hc : env.vars "completion" = some (.ptr C)) :
    ∃ out, exec fuel Gen.Src.«call_rcu_completion_wait» env inp = .ok out ∧
      WaiterRefines (.field C "futex") (-1) "futex_async" (gwstep (-1)) id (fun l => [l]) env out := by
  obtain ⟨out, h, hp⟩ := src_call_rcu_completion_wait fuel env inp C hc
  exact ⟨out, h, hp.refines _ _ _ (fun g l g' hg => by simp [runA, hg])⟩

theorem call_rcu_completion_wake_up_refines (fuel : Nat) (env : Env) (inp : List Val) (C : Loc)
    (hc : env.vars "completion" = some (.ptr C)) (hr : WakeRetOk inp) :
    ∃ out, exec fuel Gen.Src.«call_rcu_completion_wake_up» env inp = .ok out ∧
      WakerRefines (.field C "futex") "futex_async" gkstep id (fun l => [l]) env out := by
  obtain ⟨out, h, hp⟩ := src_call_rcu_completion_wake_up fuel env inp C hc hr
  exact ⟨out, h, hp.refines _ _ _ (fun s l s' hs => by simp [runA, hs])⟩

/-! ## 4. defer thread futex (waker side) -/

/-- `wake_up_defer()` ⊑ owner `i` of `Defer/ConcWake.lean` from L2 pc `k1` (back to `k0`) -/
theorem wake_up_defer_refines (fuel : Nat) (env : Env) (inp : List Val) (hr : WakeRetOk inp) :
    ∃ out, exec fuel Gen.Src.«wake_up_defer» env inp = .ok out ∧
      WakerRefines dfF "futex_noasync" Df.kstep Df.kMap Df.gk2l env out := by
  obtain ⟨out, h, hp⟩ := src_wake_up_defer fuel env inp hr
  exact ⟨out, h, hp.refines _ _ _ Df.simK⟩

/-! ## 5. work queue futex (against the generic automata; the `Wq` model section is `Src/WqRefine.lean`'s) -/

theorem futex_wait_refines (fuel : Nat) (env : Env) (inp : List Val) (F : Loc)
    (hc : env.vars "futex" = some (.ptr F)) :
    ∃ out, exec fuel Gen.Src.«futex_wait» env inp = .ok out ∧
      WaiterRefines F (-1) "futex_async" (gwstep (-1)) id (fun l => [l]) env out := by
  obtain ⟨out, h, hp⟩ := src_futex_wait fuel env inp F hc
  exact ⟨out, h, hp.refines _ _ _ (fun g l g' hg => by simp [runA, hg])⟩

theorem futex_wake_up_refines (fuel : Nat) (env : Env) (inp : List Val) (F : Loc)
    (hc : env.vars "futex" = some (.ptr F)) (hr : WakeRetOk inp) :
    ∃ out, exec fuel Gen.Src.«futex_wake_up» env inp = .ok out ∧
      WakerRefines F "futex_async" gkstep id (fun l => [l]) env out := by
  obtain ⟨out, h, hp⟩ := src_futex_wake_up fuel env inp F hc hr
  exact ⟨out, h, hp.refines _ _ _ (fun s l s' hs => by simp [runA, hs])⟩

theorem wake_worker_thread_refines (fuel : Nat) (env : Env) (inp : List Val) (W : Loc) (n : Nat)
    (hc : env.vars "workqueue" = some (.ptr W))
    (hf : ∀ f rest, inp = f :: rest → f = .int n)
    (hr : ∀ f rest, inp = f :: rest → WakeRetOk rest) :
    ∃ out, exec fuel Gen.Src.«wake_worker_thread» env inp = .ok out ∧
      (n &&& 1 = 0 → WakerRefines (.field W "futex") "futex_async" gkstep id (fun l => [l]) env out) ∧
      (n &&& 1 ≠ 0 → inp ≠ [] →
        out.events = [.ld (.field W "flags") (.int n) 0] ∧ out.ctl = .normal ∧ out.env.priv = env.priv) := by
  obtain ⟨out, h, h1, h2⟩ := src_wake_worker_thread fuel env inp W n hc hf hr
  exact ⟨out, h, fun hn => (h1 hn).refines _ _ _ (fun s l s' hs => by simp [runA, hs]), h2⟩

end UrcuVerif.Props.SrcFutex
