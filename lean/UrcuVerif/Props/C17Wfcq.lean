import UrcuVerif.Wfcq.Solo
/-!
# C17 (wfcqueue facets) — progress guarantees of `cds_wfcq`

Solo-run theorems on the step-level model of C10 (`Wfcq/Model.lean`, x86-TSO).  `run s ls` /
`solo t k s` let ONE thread take steps of its own (its next instruction, or the draining of its own
store buffer in front of a locked instruction) while **all other threads stay frozen wherever they
are**; `none` would mean it needs somebody else.  `s` ranges over all reachable states, so the
other threads are suspended at arbitrary points inside their operations: between the `xchg` and
the link store of an enqueue or of a splice, inside a dequeue that has cleared `head.next`, with
stores sitting in their buffers, …

Blocking operations (`___cds_wfcq_node_sync_next(blocking)`, hence the `*_blocking` dequeue /
first / next / splice and the mutex-taking wrappers) are *not* claimed: on a NULL `next` they
stutter (`blocking_sync_waits`).
-/
namespace UrcuVerif.C17Wfcq
open Wfcq

/-- **enqueue_wait_free**: from any reachable state, a thread that is outside the API can run
*drain own store buffer; `xchg` tail; store link; return* to completion alone: `|own buffer| + 3`
own steps, every one of them enabled without any step of another thread; the node is in the
abstract queue afterwards.  (API contract: the node is not in a queue, no store to it is in flight.) -/
theorem enqueue_wait_free {s : State} (h : Reach s) (t q n : Nat) (hpc : s.pc t = .idle) (hq : isQ q)
    (hn3 : 3 ≤ n) (hinq : s.inq n = false) (hwn : s.wr n = none) :
    ∃ s', run s (List.replicate (s.buf t).length (.flush t) ++ [.enqXchg t q n, .stIssue t, .ret t]) = some s' ∧
      s'.pc t = .idle ∧ s'.abs q = s.abs q ++ [n] ∧ Reach s' :=
  enqueue_solo h t q n hpc hq hn3 hinq hwn

/-- … with an explicit constant: a thread that holds no consumer role has at most ONE buffered
store (the trailing link store of its previous append – every append starts with an `xchg`), so its
enqueue takes at most 4 own steps -/
theorem enqueue_bound_producer {s : State} (h : Reach s) (t : Nat) (hl : ∀ q, s.lock q ≠ some t) :
    (s.buf t).length + 3 ≤ 4 := by
  have := producer_buf_le_one h t hl; omega

/-- … and no step of another thread (instruction or buffer flush) can undo the thread's progress:
other threads never touch its program counter or its store buffer -/
theorem others_cannot_delay {s s' : State} {l : Label} (st : step s l = some s') (t : Nat) (ht : t ≠ l.tid) :
    s'.pc t = s.pc t ∧ s'.buf t = s.buf t :=
  step_frame st t ht

/-- **nonblocking_never_waits**: from any reachable state, a thread that is anywhere inside a
non-blocking dequeue / first / next / splice, inside `empty()`, or in the straight-line tail of any
operation (`nbPc`: no wait loop ahead) returns within `11 + |own buffer|` own steps, with every
other thread frozen -/
theorem nonblocking_never_waits {s : State} (h : Reach s) (t : Nat) (hnb : nbPc (s.pc t) = true) :
    ∃ k s', k ≤ 11 + (s.buf t).length ∧ solo t k s = some s' ∧ s'.pc t = .idle ∧ Reach s' :=
  Wfcq.nonblocking_never_waits h t hnb

/-- **wouldblock_only_if_inflight**: `sync_next(a)` (inside first / next / dequeue) sees a NULL
`next` – the only reason for `CDS_WFCQ_WOULDBLOCK` in those operations – only while an append that
links `a` to its successor is in flight: its thread is between the `xchg` and the store, or the
store sits in another thread's store buffer -/
theorem wouldblock_only_if_inflight {s : State} (h : Reach s) (t q a : Nat) (k : K)
    (hpc : s.pc t = .sync k q a) (hrd : rd s t a = 0) : InFlight s t a :=
  sync_null_inflight h t q a k hpc hrd

/-- **wouldblock_changes_nothing**: the non-blocking `sync_next` that gives up only moves the
program counter (to the WOULDBLOCK return, or – when the dequeuer had already cleared `head.next`
on the last-node path – to the store that puts the first node back) -/
theorem wouldblock_changes_nothing {s : State} (t q a : Nat) (k : K) (hpc : s.pc t = .sync k q a)
    (hb : k.blocking = false) (hrd : rd s t a = 0) :
    step s (.sync t) = some (setPc s t (syncWbPc k q a)) :=
  sync_wouldblock_step t q a k hpc hb hrd

/-- … and that restoring store leaves the abstract queue, the chains in transit and the tails as
they were, with `head.next` again pointing to the first node -/
theorem wouldblock_restores_head {s s' : State} (h : Reach s) (t q nd : Nat) (hpc : s.pc t = .d7 q nd)
    (st : step s (.d7 t) = some s') :
    s'.pc t = .done .wouldblock ∧ s'.abs = s.abs ∧ s'.limbo = s.limbo ∧ s'.tail = s.tail ∧
    rd s' t q = nd ∧ (∃ l, s.abs q = nd :: l) :=
  restore_step h t q nd hpc st

/-- blocking variants wait (not claimed wait-free) -/
theorem blocking_sync_waits {s : State} (t q a : Nat) (k : K) (hpc : s.pc t = .sync k q a)
    (hb : k.blocking = true) (hrd : rd s t a = 0) : step s (.sync t) = some s :=
  sync_blocking_waits t q a k hpc hb hrd

/-- **nonblocking_quiet_succeeds** (never WOULDBLOCK when no other operation is in progress): with
every other thread outside the API and its stores flushed, a non-blocking dequeue / first / splice
(entry `e1`) or next (entry `nx1`) reaches its return with a proper result – node, NULL, SRC_EMPTY,
DEST_EMPTY / DEST_NON_EMPTY – and not WOULDBLOCK -/
theorem nonblocking_quiet_succeeds {s : State} (h : Reach s) (t : Nat) (hq : Quiet s t)
    (hpc : (∃ k q, s.pc t = .e1 k q ∧ k.blocking = false) ∨ (∃ q a, s.pc t = .nx1 q a false)) :
    ∃ k s' r, k ≤ 11 + (s.buf t).length ∧ solo t k s = some s' ∧ s'.pc t = .done r ∧ r ≠ .wouldblock ∧ Reach s' :=
  Wfcq.nonblocking_quiet_succeeds h t hq hpc

/-! ## non-vacuity -/

/-- T2 is frozen between its xchg and its link store on queue 1 (node 4 behind node 3); T1, with its
previous link store still buffered, completes a whole enqueue of node 5 alone: 1 + 3 own steps -/
def frozenEnqueuer : List Label :=
  [.enqXchg 1 1 3, .stIssue 1, .ret 1,        -- store (q1h, 3) still in T1's buffer
   .enqXchg 2 1 4]                             -- T2 frozen here

example : ((run init frozenEnqueuer).bind fun s =>
      run s (List.replicate (s.buf 1).length (.flush 1) ++ [.enqXchg 1 1 5, .stIssue 1, .ret 1])).map
    (fun s => (s.pc 1, s.abs 1, s.pc 2, (s.buf 1).length)) = some (.idle, [3, 4, 5], .enq 1 3 4 false, 1) := by decide

/-- the consumer's non-blocking dequeue in that state: node 3 is the head, its `next` is NULL, the
`cmpxchg` fails, `sync_next` gives up, `head.next` is restored: WOULDBLOCK after 8 own steps, alone -/
example : ((run init (frozenEnqueuer ++ [.flush 1, .acquire 0 1, .callDeq 0 1 false])).bind (solo 0 8)).map
    (fun s => (s.pc 0, s.abs 1, rd s 0 1)) = some (.done .wouldblock, [3, 4], 3) := by decide

/-- quiet state: the same non-blocking dequeue returns node 3 (and `LAST`) -/
example : ((run init [.enqXchg 1 1 3, .stIssue 1, .flush 1, .ret 1, .acquire 0 1, .callDeq 0 1 false]).bind (solo 0 6)).map
    (fun s => (s.pc 0, s.abs 1)) = some (.done (.node 3 true), []) := by decide

end UrcuVerif.C17Wfcq
