import UrcuVerif.Lfq.Thms
import UrcuVerif.Lfq.Neg
import UrcuVerif.Lfq.TsoSim
import UrcuVerif.Lfq.TsoNeg
/-!
# C12 — the RCU lock-free queue is a linearizable FIFO (statements and final theorems)

Model: `Lfq/Model.lean` (one step per load / cmpxchg of `_cds_lfq_enqueue_rcu`, `enqueue_dummy`,
`_cds_lfq_dequeue_rcu`, any number of threads, every interleaving, threads suspended anywhere —
in particular between linking a node and advancing the tail; nodes and dummies are reclaimed and
re-used after a grace period).  `c.helpTail = true`, `c.destroyWalk = true` = the current text of
`include/urcu/static/rculfqueue.h` (after the two repairs this work triggered, commits 87e4726 and
928caa3); the old texts are kept as `helpTail = false` / `destroyWalk = false` and shown defective
in `Lfq/Neg.lean` (`uaf_reachable_unfixed`, `destroy_eperm_on_empty_reachable_unfixed`).

Everything below is proved for ALL reachable states (`Reach c s`, arbitrary `c.n`), no bound.
Memory model: every shared mutation of this structure is a locked RMW, so an x86-TSO run is an SC
run of these steps once the private initialisation of a node is folded into the step before its
publishing CAS.  This is mechanised in the last section of this file: `Lfq/TsoModel.lean` is the same
model with per-thread FIFO store buffers for the plain initialising stores, `tso_simulates_sc` shows that
every TSO run is an SC run with the same answers (flushes are stutters), and `C12_tso_full_holds`
restates the property on the TSO machine.
-/
namespace UrcuVerif.Lfq

/-- the current code -/
def Current (c : Cfg) : Prop := c.helpTail = true ∧ c.destroyWalk = true

/-- The abstract FIFO the queue refines: `SpecStep q o q'` = the atomic effect of one model step on
the abstract queue `q` (oldest first) together with what the step returns. -/
inductive SpecStep : List Nat → Out → List Nat → Prop
  | tau (q) : SpecStep q .unit q
  | enq (q n) : SpecStep q .unit (q ++ [n])
  | deq (n q) : SpecStep (n :: q) (.node n) q
  | empty : SpecStep [] .null []
  | destroy (q b) : (b = true ↔ q = []) → SpecStep q (.destroyed b) q

/-- linearisation point of a successful dequeue: the returned node is the oldest element -/
theorem deq_linearizes {c s s' t l p} (hc : Current c) (r : Reach c s) (st : step c s t l = some (s', .node p)) :
    abs s = p :: abs s' := by
  have i := reach_inv hc.1 r
  have f' := (inv_step hc.1 i st).fifo
  obtain ⟨-, rfl, -, -, -, rfl⟩ := out_node st rfl
  rcases step_deqd st with e | ⟨-, e1, e2⟩
  · exfalso; simp [casHeadOk, tick] at e
  · rw [e1, e2, i.fifo, List.append_assoc] at f'
    exact List.append_cancel_left f'

/-- linearisation point of the NULL answer -/
theorem null_linearizes {c s s' t l} (hc : Current c) (r : Reach c s) (st : step c s t l = some (s', .null)) :
    abs s = [] ∧ abs s' = [] ∧ s.chain = [s.head] ∧ s.isDummy s.head = true := by
  have i := reach_inv hc.1 r
  obtain ⟨-, hp, h0, hd, rfl⟩ := out_null st rfl
  have ⟨e1, e2⟩ := null_chain i hp h0
  have a0 : abs s = [] := by simp [abs, e2, ← e1, hd]
  have : abs (ldNextNull s t) = abs s := by simp [abs, ldNextNull, tick]
  exact ⟨a0, by rw [this, a0], e2, by rw [← e1]; exact hd⟩

/-- destroy: 0 iff the abstract queue is empty; nothing changes -/
theorem destroy_linearizes {c s s' t l b} (hc : Current c) (r : Reach c s)
    (st : step c s t l = some (s', .destroyed b)) : (b = true ↔ abs s = []) ∧ abs s' = abs s ∧ quiescent c s := by
  have i := reach_inv hc.1 r
  obtain ⟨-, hb, hq, -, -, e3, e4⟩ := out_destroyed st rfl
  have w : destroyOk c s = (s.chain.all s.isDummy) := by
    simp only [destroyOk, hc.2, if_true]; exact walk_all i.seg
  have a : (s.chain.all s.isDummy = true) ↔ abs s = [] := by
    simp [abs, List.filter_eq_nil_iff]
  exact ⟨by rw [hb, w]; exact a, by simp [abs, e3, e4], hq⟩

/-- every other step leaves the abstract queue unchanged or is the linearisation point of an enqueue -/
theorem unit_linearizes {c s s' t l} (hc : Current c) (r : Reach c s) (st : step c s t l = some (s', .unit)) :
    abs s' = abs s ∨ (l = .casNext ∧ s.pc t = .eCas ∧ s.next (s.tl t) = 0 ∧ s.isDummy (s.node t) = false ∧
      abs s' = abs s ++ [s.node t]) := by
  have i := reach_inv hc.1 r
  have f := i.fifo
  have f' := (inv_step hc.1 i st).fifo
  rcases step_enqd st with e | ⟨h1, h2, h3, h4, -, e1, e2⟩
  · rcases step_deqd st with e2 | ⟨e2, -⟩
    · rw [e, e2, f] at f'; exact .inl (List.append_cancel_left f').symm
    · cases e2
  · rw [e1, e2, f, List.append_assoc] at f'
    exact .inr ⟨h1, h2, h3, h4, (List.append_cancel_left f').symm⟩

/-- **lfq_refines_fifo**: every step of every thread in every reachable state is a step of the abstract
FIFO on `abs s` = the user nodes reachable from `q.head` in memory: enqueue takes effect at its
successful `cmpxchg(&tail->next, NULL, node)`, dequeue at its successful `cmpxchg(&q->head, head, next)`
on a non-dummy (returning exactly the oldest element), the NULL answer at the load `head->next == NULL`
on a dummy, at which instant the abstract queue is empty; destroy answers 0 iff it is empty; every other
step (tail helping, dummy insertion and removal, allocation, reclamation, sections) leaves it unchanged. -/
theorem lfq_refines_fifo {c s s' t l o} (hc : Current c) (r : Reach c s) (st : step c s t l = some (s', o)) :
    SpecStep (abs s) o (abs s') := by
  cases o with
  | node p => rw [deq_linearizes hc r st]; exact .deq _ _
  | null => have ⟨a, b, _⟩ := null_linearizes hc r st; rw [a, b]; exact .empty
  | destroyed b => have ⟨a, e, _⟩ := destroy_linearizes hc r st; rw [e]; exact .destroy _ _ a
  | unit =>
    rcases unit_linearizes hc r st with e | ⟨-, -, -, -, e⟩
    · rw [e]; exact .tau _
    · rw [e]; exact .enq _ _

/-- history form of the refinement: the sequence of user nodes in the order of their linking CAS equals
the sequence of returned nodes (in the order of their head CAS) followed by the present content —
FIFO order, no loss, no duplication, in-flight operations included. -/
theorem lfq_history {c s} (hc : Current c) (r : Reach c s) :
    s.enqd = s.deqd ++ abs s ∧ Seg s.next s.head s.chain := by
  have i := reach_inv hc.1 r
  exact ⟨i.fifo, i.seg⟩

/-- the linearisation point of an enqueue appends exactly the node passed by the caller -/
theorem enq_linearizes {c s t} (hc : Current c) (r : Reach c s) (hp : s.pc t = .eCas) (h0 : s.next (s.tl t) = 0)
    (hu : s.isDummy (s.node t) = false) : abs (casNextOk s t) = abs s ++ [s.node t] := by
  have st : step c s t .casNext = some (casNextOk s t, .unit) := by simp [step, hp, h0]
  have i := reach_inv hc.1 r
  have f' := (inv_step hc.1 i st).fifo
  rw [show (casNextOk s t).enqd = s.enqd ++ [s.node t] by simp [casNextOk, tick, hu],
      show (casNextOk s t).deqd = s.deqd by simp [casNextOk, tick], i.fifo, List.append_assoc] at f'
  exact (List.append_cancel_left f').symm

/-- **tail_lags_at_most_one** (precise form): `q.tail` is a node of the chain from `q.head` — never behind the
head — and it is the last node or the one before the last: `tail->next == NULL` or `tail->next->next == NULL`. -/
theorem tail_lags_at_most_one {c s} (hc : Current c) (r : Reach c s) :
    s.tail ∈ s.chain ∧ (s.next s.tail = 0 ∨ (s.next s.tail ∈ s.chain ∧ s.next (s.next s.tail) = 0)) := by
  have i := reach_inv hc.1 r
  refine ⟨i.tail_in, ?_⟩
  rcases i.tail_ok with h | h
  · exact .inl h
  · by_cases e : s.next s.tail = 0
    · exact .inl e
    · exact .inr ⟨(i.next_mem _ i.tail_in e).1, h⟩

/-- **dummy_never_returned**: a returned node is a user node, it was the oldest element of the abstract queue,
and it was put there by an enqueue. -/
theorem dummy_never_returned {c s s' t l p} (hc : Current c) (r : Reach c s)
    (st : step c s t l = some (s', .node p)) :
    s.isDummy p = false ∧ (abs s).head? = some p ∧ p ∈ s.enqd := by
  have e := deq_linearizes hc r st
  obtain ⟨-, -, -, -, hd, -⟩ := out_node st rfl
  have f := (reach_inv hc.1 r).fifo
  exact ⟨hd, by simp [e], by rw [f, e]; simp⟩

/-- **always_one_node**: the chain from `q.head` is never empty (`q.head` is never NULL, `head->next` is never
NULL when the CAS on `q.head` is attempted). -/
theorem always_one_node {c s} (hc : Current c) (r : Reach c s) :
    s.chain ≠ [] ∧ s.head ∈ s.chain ∧ s.head ≠ 0 ∧ (∀ t, s.pc t = .dCas → s.nx t ≠ 0) := by
  have i := reach_inv hc.1 r
  have hin := i.head_in
  exact ⟨fun e => by rw [e] at hin; simp at hin, hin, seg_mem_ne_zero i.seg hin,
         fun t hp => (i.d_nx t (by simp [hp])).2⟩

/-- **each_node_dequeued_once**: every linked node occurs once in the chain, and per node the number of
completed enqueues = number of dequeues that returned it + (1 if it is in the queue, else 0). -/
theorem each_node_dequeued_once {c s} (hc : Current c) (r : Reach c s) :
    (abs s).Nodup ∧ ∀ p, s.enqd.count p = s.deqd.count p + (abs s).count p := by
  have i := reach_inv hc.1 r
  refine ⟨i.nodup.sublist List.filter_sublist, fun p => ?_⟩
  rw [i.fifo, List.count_append]

/-- **dummy_freed_after_gp** (and user nodes alike): memory is reclaimed only in the `removed` state and only when
no read-side section that was open at its removal is still open. -/
theorem dummy_freed_after_gp {c s s' t p o} (hc : Current c) (r : Reach c s)
    (st : step c s t (.reclaim p) = some (s', o)) :
    s.life p = .removed ∧ (∀ u, s.pre p u = false) ∧ (∀ u b, s.cs u = some b → s.removedAt p < b) := by
  have i := reach_inv hc.1 r
  simp only [step] at st
  split at st
  · next g =>
    have g2 : ∀ u b, s.cs u = some b → s.removedAt p < b := fun u b e => g.2 u (i.cs_n u b e) b e
    refine ⟨g.1, fun u => ?_, g2⟩
    cases e : s.pre p u with
    | false => rfl
    | true =>
      obtain ⟨b, e1, e2⟩ := i.pre_ok p u e
      have := g2 u b e1; omega
  · simp at st

/-- **no_aba**: a pointer obtained from `q.tail` / `q.head` inside a read-side section is, for as long as the
thread uses it (as CAS address or as expected value), the same incarnation of the node: not reclaimed, not
recycled since it was loaded; no thread ever dereferences reclaimed memory. -/
theorem no_aba {c s} (hc : Current c) (r : Reach c s) :
    (∀ t, HoldsTl (s.pc t) → s.gtl t = s.gen (s.tl t) ∧ live s (s.tl t) = true) ∧
    (∀ t, HoldsHd s t → s.ghd t = s.gen (s.hd t) ∧ live s (s.hd t) = true) ∧ s.uaf = false := by
  have i := reach_inv hc.1 r
  refine ⟨fun t h => ⟨i.gens_tl t h, ?_⟩, fun t h => ⟨i.gens_hd t h, ?_⟩, i.no_uaf⟩
  · rcases i.tl_live t h with e | e <;> simp [live, e]
  · rcases i.hd_live t h with e | e <;> simp [live, e]

/-- a node in the `removed` state cannot be reclaimed while a thread that loaded it is still in its section -/
theorem reclaim_blocked_while_held {c s p} (hc : Current c) (r : Reach c s) (hl : s.life p = .removed)
    (hg : gpElapsed c s p) : (∀ t, HoldsTl (s.pc t) → s.tl t ≠ p) ∧ (∀ t, HoldsHd s t → s.hd t ≠ p) :=
  reclaim_not_held (reach_inv hc.1 r) hl hg

/-- the link CAS succeeds only on the last node of the chain, which is then also `q.tail` -/
theorem cas_next_success_means_last {c s t} (hc : Current c) (r : Reach c s) (hp : s.pc t = .eCas)
    (h0 : s.next (s.tl t) = 0) : s.tl t ∈ s.chain ∧ s.tl t = s.tail := by
  have ⟨a, b, _⟩ := casNext_facts (reach_inv hc.1 r) hp h0
  exact ⟨a, b⟩

/-- **destroy_iff_empty**: at quiescence (a precondition of the call, and of the step) `cds_lfq_destroy_rcu`
returns 0 iff the abstract queue is empty. -/
theorem destroy_iff_empty {c s s' t ok} (hc : Current c) (r : Reach c s)
    (st : step c s t .destroy = some (s', .destroyed ok)) : (ok = true ↔ abs s = []) ∧ quiescent c s :=
  have ⟨a, _, q⟩ := destroy_linearizes hc r st
  ⟨a, q⟩

/-- **dequeue_null_only_if_empty_at_some_instant**: the step at which a dequeue decides to answer NULL (a step
of that call) is taken in a state whose abstract queue is empty; memory then holds the single dummy. -/
theorem dequeue_null_only_if_empty_at_some_instant {c s s' t l} (hc : Current c) (r : Reach c s)
    (st : step c s t l = some (s', .null)) : abs s = [] ∧ s.chain = [s.head] ∧ s.isDummy s.head = true :=
  have ⟨a, _, b, d⟩ := null_linearizes hc r st
  ⟨a, b, d⟩

/-- runs of the model with what each step returned, and runs of the sequential FIFO specification -/
inductive Steps (c : Cfg) : State → List (Nat × Label × Out) → State → Prop
  | nil (s) : Steps c s [] s
  | cons {s s1 s2 t l o tr} : step c s t l = some (s1, o) → Steps c s1 tr s2 → Steps c s ((t, l, o) :: tr) s2

inductive SpecRun : List Nat → List Out → List Nat → Prop
  | nil (q) : SpecRun q [] q
  | cons {q q1 q2 o os} : SpecStep q o q1 → SpecRun q1 os q2 → SpecRun q (o :: os) q2

/-- **linearizability, history form**: every finite run of any number of threads from any reachable state (every
interleaving, threads suspended anywhere) is, step for step and answer for answer, a run of the sequential FIFO queue on
`abs`; each operation takes effect at one of its own steps between its call and its return. -/
theorem lfq_trace_refines {c s s' tr} (hc : Current c) (r : Reach c s) (h : Steps c s tr s') :
    SpecRun (abs s) (tr.map (·.2.2)) (abs s') ∧ Reach c s' := by
  induction h with
  | nil s => exact ⟨.nil _, r⟩
  | cons st _ ih =>
    have r1 := Reach.step r st
    exact ⟨.cons (lfq_refines_fifo hc r st) (ih r1).1, (ih r1).2⟩

/-- the step that changes the abstract queue / produces the answer of an operation is a step of the thread that runs the
operation, taken inside it (after its call, before its return): linearisation points lie within the call interval -/
theorem linearisation_inside_call {c s s' t l o} (st : step c s t l = some (s', o)) :
    (∀ p, o = .node p → l = .casHead ∧ s.pc t = .dCas ∧ s'.pc t = .idle) ∧
    (o = .null → s.pc t = .dLdN ∧ s'.pc t = .idle) ∧
    (s'.enqd ≠ s.enqd → l = .casNext ∧ s.pc t = .eCas ∧ s'.pc t = .eAdv) := by
  refine ⟨fun p ho => ?_, fun ho => ?_, fun he => ?_⟩
  · obtain ⟨h1, -, h3, -, -, rfl⟩ := out_node st ho
    exact ⟨h1, h3, by simp [casHeadOk, tick, upd]⟩
  · obtain ⟨-, h2, -, -, rfl⟩ := out_null st ho
    exact ⟨h2, by simp [ldNextNull, tick, upd]⟩
  · rcases step_enqd st with e | ⟨h1, h2, h3, -, -, -, -⟩
    · exact absurd e he
    · subst h1
      simp only [step, h2, h3, if_true, Option.some.injEq, Prod.mk.injEq] at st
      obtain ⟨rfl, -⟩ := st
      exact ⟨rfl, h2, by simp [casNextOk, tick, upd]⟩

/-- **private until published** (the x86-TSO facet): while a thread is initialising / still owns the node it is about to
link (its plain stores `next = NULL`, `dummy = 0|1` may still sit in its store buffer), the node is unreachable: not in
the chain, not `q.head`, not `q.tail`, and no other thread holds a pointer to it.  The only step that makes it reachable
is the owner's locked `cmpxchg` on `tail->next`, which drains the owner's store buffer first; every other shared
mutation of the structure is a locked RMW as well, so a TSO run is an SC run of these steps. -/
theorem private_until_published {c s t} (hc : Current c) (r : Reach c s) (ho : Owns (s.pc t)) :
    s.node t ∉ s.chain ∧ s.node t ≠ s.head ∧ s.node t ≠ s.tail ∧
    (∀ u, HoldsTl (s.pc u) → s.tl u ≠ s.node t) ∧ (∀ u, HoldsHd s u → s.hd u ≠ s.node t) := by
  have i := reach_inv hc.1 r
  obtain ⟨n1, -, -⟩ := i.e_node t ho
  have nin : s.node t ∉ s.chain := fun e => by have := (i.inq_iff _).mpr e; rw [n1] at this; cases this
  refine ⟨nin, fun e => nin (e ▸ i.head_in), fun e => nin (e ▸ i.tail_in), fun u hu e => ?_, fun u hu e => ?_⟩
  · rcases i.tl_live u hu with l | l <;> rw [e, n1] at l <;> cases l
  · rcases i.hd_live u hu with l | l <;> rw [e, n1] at l <;> cases l

/-- the full statement of C12 at the level of the model (every conjunct is proved above) -/
def C12_full : Prop :=
  ∀ c, Current c → ∀ s, Reach c s →
    (∀ t l s' o, step c s t l = some (s', o) → SpecStep (abs s) o (abs s')) ∧
    s.enqd = s.deqd ++ abs s ∧ (abs s).Nodup ∧
    s.tail ∈ s.chain ∧ (s.next s.tail = 0 ∨ s.next (s.next s.tail) = 0) ∧
    s.chain ≠ [] ∧ s.uaf = false ∧
    (∀ t l s' p, step c s t l = some (s', .node p) → s.isDummy p = false) ∧
    (∀ t p s' o, step c s t (.reclaim p) = some (s', o) →
      s.life p = .removed ∧ (∀ u, s.pre p u = false) ∧ ∀ u b, s.cs u = some b → s.removedAt p < b) ∧
    (∀ tr s', Steps c s tr s' → SpecRun (abs s) (tr.map (·.2.2)) (abs s'))

theorem C12_full_holds : C12_full := by
  intro c hc s r
  have i := reach_inv hc.1 r
  exact ⟨fun t l s' o st => lfq_refines_fifo hc r st, i.fifo, (each_node_dequeued_once hc r).1, i.tail_in, i.tail_ok,
    (always_one_node hc r).1, i.no_uaf, fun t l s' p st => (dummy_never_returned hc r st).1,
    fun t p s' o st => dummy_freed_after_gp hc r st, fun tr s' h => (lfq_trace_refines hc r h).1⟩

/-! ## x86-TSO

`Lfq/TsoModel.lean`: the plain stores `node->next = NULL; node->dummy = 0` (`cds_lfq_node_init_rcu`, by the application
before the enqueue) and `dummy->parent.next = NULL; dummy->parent.dummy = 1` (`make_dummy` in `enqueue_dummy`) go
through the issuing thread's FIFO store buffer and reach memory at arbitrary later `flush` steps; loads read the own
buffer first; the five `uatomic_cmpxchg` sites are locked RMWs that need an empty own buffer.  Everything below is for
ALL reachable states of that machine, any number of threads, any flush schedule. -/

open Tso in
/-- **tso_simulates_sc**: every reachable state of the TSO machine is, up to the contents of the store buffers, a
reachable state of the SC model (`Sim` = all thread-local and ghost fields equal; memory equal on every node that is
not the still-private node of a thread with a non-empty buffer; for that node the SC memory holds the buffered values). -/
theorem tso_simulates_sc {c : Cfg} (hc : Current c) {ts : TState} (r : TReach { c := c } ts) :
    ∃ s, Reach c s ∧ Sim ts s := by
  obtain ⟨N, D, r0, h⟩ := treach_sim hc.1 r
  exact ⟨_, r0, N, D, rfl, h⟩

open Tso in
/-- **tso_step_is_sc_step**: every step of the TSO machine is a stutter (a flush: the SC image does not move, nothing
is returned) or the SAME access of the SC model returning the SAME answer, between the SC images — so every theorem of
this file about steps and reachable states of the SC model holds for the TSO machine. -/
theorem tso_step_is_sc_step {c : Cfg} (hc : Current c) {ts ts' : TState} {t : Nat} {l : TLabel} {o : Out}
    (r : TReach { c := c } ts) (st : tstep { c := c } ts t l = some (ts', o)) :
    ∃ s s', Reach c s ∧ Sim ts s ∧ Reach c s' ∧ Sim ts' s' ∧
      ((l = .flush ∧ o = .unit ∧ s' = s) ∨ ∃ l', l = .op l' ∧ step c s t l' = some (s', o)) := by
  obtain ⟨N, D, N', D', r0, h, r1, h', x⟩ := treach_step hc.1 r st
  exact ⟨_, _, r0, ⟨N, D, rfl, h⟩, r1, ⟨N', D', rfl, h'⟩, x⟩

open Tso in
/-- loads on the TSO machine return the logical (SC) value: a pointer a thread holds from `q.head` / `q.tail` never
designates a node with a pending buffered store of ANOTHER thread, and its own buffer never holds that node either -/
theorem tso_loads_see_sc_memory {c : Cfg} (hc : Current c) {ts : TState} (r : TReach { c := c } ts) :
    ∃ s, Reach c s ∧ Sim ts s ∧
      (∀ t, HoldsHd s t → rdNext ts t (s.hd t) = s.next (s.hd t) ∧ rdDummy ts t (s.hd t) = s.isDummy (s.hd t) ∧
        ts.s.next (s.hd t) = s.next (s.hd t)) ∧
      (∀ t, HoldsTl (s.pc t) → ts.s.next (s.tl t) = s.next (s.tl t)) := by
  obtain ⟨N, D, r0, h⟩ := treach_sim hc.1 r
  have i := reach_inv hc.1 r0
  refine ⟨_, r0, ⟨N, D, rfl, h⟩, fun t ht => ?_, fun t ht => ?_⟩
  · have np : ts.s.life (ts.s.hd t) ≠ .priv := by
      have := i.hd_live t ht
      simp only [img] at this
      rcases this with e | e <;> rw [e] <;> simp
    exact ⟨(h.rd_np i t np).1, (h.rd_np i t np).2, (h.mem_np i np).1.symm⟩
  · have np : ts.s.life (ts.s.tl t) ≠ .priv := by
      have := i.tl_live t ht
      simp only [img] at this
      rcases this with e | e <;> rw [e] <;> simp
    exact (h.mem_np i np).1.symm

open Tso in
/-- store buffers are tiny and private: a non-empty buffer belongs to a thread about to link its node (`eLd`/`eCas`),
holds only that node's initialisation, and the node is private (not linked, not removed) -/
theorem tso_buffers_private {c : Cfg} (hc : Current c) {ts : TState} (r : TReach { c := c } ts) (t : Nat)
    (hne : ts.buf t ≠ []) :
    (ts.s.pc t = .eLd ∨ ts.s.pc t = .eCas) ∧ ts.s.life (ts.s.node t) = .priv ∧
    (∃ b, ts.buf t = [.next (ts.s.node t) 0, .dummy (ts.s.node t) b] ∨ ts.buf t = [.dummy (ts.s.node t) b]) ∧
    ts.s.node t ∉ ts.s.chain := by
  obtain ⟨N, D, r0, h⟩ := treach_sim hc.1 r
  have i := reach_inv hc.1 r0
  have pv := h.priv i hne
  refine ⟨h.owns hne, pv, ?_, fun e => ?_⟩
  · rcases h.buf t with e | ⟨-, ⟨e, -⟩ | ⟨e, -⟩⟩
    · exact absurd e hne
    · exact ⟨_, .inl e⟩
    · exact ⟨_, .inr e⟩
  · have := (i.inq_iff (ts.s.node t)).mpr (by simpa [img] using e)
    simp only [img] at this
    rw [pv] at this; cases this

open Tso in
/-- **tso_refines_fifo**: on the TSO machine every step of every thread (flushes included) is a step of the sequential
FIFO on `tabs` = the user nodes reachable from `q.head` with the flags read from MEMORY -/
theorem tso_refines_fifo {c : Cfg} (hc : Current c) {ts ts' : TState} {t : Nat} {l : TLabel} {o : Out}
    (r : TReach { c := c } ts) (st : tstep { c := c } ts t l = some (ts', o)) : SpecStep (tabs ts) o (tabs ts') := by
  obtain ⟨N, D, N', D', r0, h, r1, h', x⟩ := treach_step hc.1 r st
  rw [← sim_abs h (reach_inv hc.1 r0), ← sim_abs h' (reach_inv hc.1 r1)]
  rcases x with ⟨-, rfl, e⟩ | ⟨l', -, st'⟩
  · rw [e]; exact .tau _
  · exact lfq_refines_fifo hc r0 st'

/-- the FIFO specification returns a node only from the front -/
theorem spec_node {q q' : List Nat} {p : Nat} (h : SpecStep q (.node p) q') : q = p :: q' := by
  cases h; rfl

/-- runs of the TSO machine -/
inductive TSteps (tc : Tso.TCfg) : Tso.TState → List (Nat × Tso.TLabel × Out) → Tso.TState → Prop
  | nil (ts) : TSteps tc ts [] ts
  | cons {ts ts1 ts2 t l o tr} : Tso.tstep tc ts t l = some (ts1, o) → TSteps tc ts1 tr ts2 → TSteps tc ts ((t, l, o) :: tr) ts2

open Tso in
/-- **tso_trace_refines**: every finite run of the TSO machine is, answer for answer, a run of the sequential FIFO -/
theorem tso_trace_refines {c : Cfg} (hc : Current c) {ts ts' : TState} {tr} (r : TReach { c := c } ts)
    (h : TSteps { c := c } ts tr ts') : SpecRun (tabs ts) (tr.map (·.2.2)) (tabs ts') ∧ TReach { c := c } ts' := by
  induction h with
  | nil ts => exact ⟨.nil _, r⟩
  | cons st _ ih =>
    have r1 := TReach.step r st
    exact ⟨.cons (tso_refines_fifo hc r st) (ih r1).1, (ih r1).2⟩

/-- the statement of C12 on the x86-TSO machine -/
def C12_tso_full : Prop :=
  ∀ c, Current c → ∀ ts, Tso.TReach { c := c } ts →
    (∀ t l ts' o, Tso.tstep { c := c } ts t l = some (ts', o) → SpecStep (Tso.tabs ts) o (Tso.tabs ts')) ∧
    ts.s.enqd = ts.s.deqd ++ Tso.tabs ts ∧ (Tso.tabs ts).Nodup ∧
    ts.s.tail ∈ ts.s.chain ∧ ts.s.chain ≠ [] ∧ ts.s.uaf = false ∧
    (∀ t l ts' p, Tso.tstep { c := c } ts t l = some (ts', .node p) → ts.s.isDummy p = false ∧ (Tso.tabs ts).head? = some p) ∧
    (∀ t p ts' o, Tso.tstep { c := c } ts t (.op (.reclaim p)) = some (ts', o) →
      ts.s.life p = .removed ∧ (∀ u, ts.s.pre p u = false) ∧ ∀ u b, ts.s.cs u = some b → ts.s.removedAt p < b) ∧
    (∀ tr ts', TSteps { c := c } ts tr ts' → SpecRun (Tso.tabs ts) (tr.map (·.2.2)) (Tso.tabs ts'))

open Tso in
theorem C12_tso_full_holds : C12_tso_full := by
  intro c hc ts r
  obtain ⟨N, D, r0, h⟩ := treach_sim hc.1 r
  have i := reach_inv hc.1 r0
  have ea := sim_abs h i
  refine ⟨fun t l ts' o st => tso_refines_fifo hc r st, ?_, ?_, ?_, ?_, ?_, fun t l ts' p st => ?_, fun t p ts' o st => ?_,
    fun tr ts' hs => (tso_trace_refines hc r hs).1⟩
  · rw [← ea]; exact i.fifo
  · rw [← ea]; exact (each_node_dequeued_once hc r0).1
  · exact i.tail_in
  · exact (always_one_node hc r0).1
  · exact i.no_uaf
  · have e := spec_node (tso_refines_fifo hc r st)
    have m : p ∈ tabs ts := by rw [e]; simp
    simp only [tabs, abs, List.mem_filter, Bool.not_eq_eq_eq_not, Bool.not_true] at m
    exact ⟨m.2, by rw [e]; rfl⟩
  · obtain ⟨s1, st1, -⟩ := onMem_some (by simpa [tstep] using st)
    have st2 := step_img_noMem (N := N) (D := D) (by simp [NoMem]) st1
    have := dummy_freed_after_gp hc r0 st2
    simpa [img] using this

/-! ### Non-vacuity: concrete runs of the executable model (3 threads) exercising the hypotheses -/

/-- enqueue 2, enqueue 3 (thread 0), dequeue by thread 1: dummy 1 skipped (helping nothing), node 2 returned -/
def demo : List (Nat × Label) :=
  [ (0, .lock), (0, .enqCall 2), (0, .ldTail), (0, .casNext), (0, .casTailAdv),
    (0, .enqCall 3), (0, .ldTail), (0, .casNext),                      -- node 3 linked, tail not yet advanced
    (1, .lock), (1, .deqCall), (1, .ldHead), (1, .ldNext 0), (1, .ldTailD), (1, .casHead),   -- dummy 1 removed
    (1, .ldHead), (1, .ldNext 0), (1, .ldTailD), (1, .casTailD) ]      -- head = tail = 2: the dequeuer helps the tail

example : (run { n := 2 } init demo).map (fun s => (abs s, s.tail, s.head, s.pc 1)) = some ([2, 3], 3, 2, .dCas) := by decide
/-- the next step returns node 2, the oldest element -/
example : ((run { n := 2 } init demo).bind fun s => (step { n := 2 } s 1 .casHead).map (fun r => (r.2, abs r.1))) =
    some (.node 2, [3]) := by decide
/-- a NULL answer on the initial queue -/
example : (step { n := 1 } ((run { n := 1 } init [(0, .lock), (0, .deqCall), (0, .ldHead)]).getD init) 0 (.ldNext 0)).map (·.2) =
    some .null := by decide
/-- reclamation of the removed dummy is refused while thread 0 (section open since before the removal) is inside,
and accepted after it has left -/
example : ((run { n := 2 } init demo).bind fun s => (step { n := 2 } s 1 (.reclaim 1)).map (·.2)) = none := by decide
example : ((run { n := 2 } init (demo ++ [(1, .casHead), (1, .unlock), (0, .casTailAdv), (0, .unlock)])).bind
    fun s => (step { n := 2 } s 1 (.reclaim 1)).map (·.2)) = some .unit := by decide

/-! non-vacuity on the TSO machine: thread 0's enqueue of node 2 with its initialising stores still buffered when it loads the
tail; thread 1 meanwhile sees an empty queue (NULL); after the drain and the link CAS thread 1 dequeues node 2 -/
open Tso in
def tsoDemo : List (Nat × TLabel) :=
  [ (0, .op .lock), (0, .op (.enqCall 2)), (0, .op .ldTail),                                    -- buffer of 0: [2->next = 0, 2->dummy = 0]
    (1, .op .lock), (1, .op .deqCall), (1, .op .ldHead), (1, .op (.ldNext 0)),                   -- NULL: the queue is empty
    (0, .flush), (0, .flush), (0, .op .casNext),                                                 -- linearisation of the enqueue
    (1, .op .deqCall), (1, .op .ldHead), (1, .op (.ldNext 0)), (1, .op .ldTailD), (1, .op .casTailD), (1, .op .casHead),  -- dummy 1 skipped, tail helped
    (1, .op .ldHead), (1, .op (.ldNext 3)), (1, .flush), (1, .flush), (1, .op .ldTail), (1, .op .casNext), (1, .op .casTailAdv),
    (1, .op .ldNext2), (1, .op .ldTailD) ]
open Tso in
example : (trun { c := { n := 2 } } tinit (tsoDemo.take 3)).map (fun ts => ((ts.buf 0).length, tabs ts, ts.s.pc 0)) =
    some (2, [], .eCas) := by decide
open Tso in
example : (trun { c := { n := 2 } } tinit (tsoDemo.take 3)).bind (fun ts => (tstep { c := { n := 2 } } ts 0 (.op .casNext)).map (·.2)) = none := by decide
open Tso in
example : ((trun { c := { n := 2 } } tinit tsoDemo).bind fun ts => (tstep { c := { n := 2 } } ts 1 (.op .casHead)).map (fun r => (r.2, tabs r.1))) =
    some (.node 2, []) := by decide

end UrcuVerif.Lfq
