import UrcuVerif.Src.ReadRefine
import UrcuVerif.Src.ReadQsbrRefine
/-!
# Source refinement, read side (memb / mb / bp): final statements

"The generated source IR of `rcu_read_lock` / `rcu_read_unlock` / `rcu_read_ongoing` (values of `Gen/Src.lean`,
regenerated from the C text of /repo on every run) refines, thread-locally, the proven L2 models":

* `Gp/Flip.lean` (grace period; reader labels `rLd rSt rEnter rInc rDec rUnlock`) through the local automaton
  `Src.Read.lstep` and the event abstraction `Src.Read.absEv` / `absRun`;
* `Handshake/Tso.lean` (futex handshake; waker labels `k0 kf k1 k2Wake k2Skip k3`) through `hstep`, `absEvH` / `absRunH`,
  for the outermost `rcu_read_unlock` of memb and mb.

QSBR (`_urcu_qsbr_*`, last section): same pattern against `Gp/Qsbr.lean` (`qstep`, `absEvQ` / `absRunQ`) and
`Handshake/QsbrTso.lean` (`kstep`, `absEvK` / `absRunK`); definitions and side conditions in `Src/ReadQsbrRefine.lean`.

Everything about the definitions, the abstracted-away events and the side conditions is in the header of
`Src/ReadRefine.lean`; the local automata and their relation to the real `Gp.step` / `Handshake.step` (projection,
enabledness, frame) in `Src/ReadLocal.lean`, re-exported at the end of this file.

Each `<f>_refines` reads: for every `fuel`, oracle `inp` and private environment related to the local L2 state `ls`,
`exec` returns `.ok out` (never `.error`) and `out.events` – a prefix of the call's events when the oracle runs out
(`ctl = blocked`) – is a run `labs` of the local automaton from `ls` to some `ls'` carrying the events' values, the final
environment is related to `ls'`, only the reader word (and, for unlock, `gp->futex`) changed in the private view, and a
completed call (`ctl = normal`) ends at the pc / nesting level after the call.
-/
set_option maxRecDepth 8192
namespace UrcuVerif.Props.SrcRead
open UrcuVerif UrcuVerif.Src UrcuVerif.Src.Read UrcuVerif.Src.ReadQsbr

/-! ## memb -/

theorem _urcu_memb_read_lock_refines (sf : Bool) (fuel : Nat) (env : Env) (inp : List Val) (ls : LState) (b : Int)
    (hb : env.priv (.glob "urcu_memb_has_sys_membarrier") = some (.int b)) (hsf : sf = true → b = 0)
    (hrel : Rel memb env ls) (hcall : AtCall ls) (hreg : ls.reg = true) (hmax : ls.lnest + 1 < 4294967296)
    (hgp : ∀ v, inp.head? = some v → GpShape v) :
    ∃ out, exec fuel Gen.Src.«_urcu_memb_read_lock» env inp = .ok out ∧
      ∃ labs ls', absRun sf memb ls out.events = some (labs, ls') ∧ lrun sf ls labs = some ls' ∧
        Rel memb out.env ls' ∧
        (∀ l, l ≠ memb.rdCtr → out.env.priv l = env.priv l) ∧
        (out.ctl = .normal ∨ out.ctl = .blocked) ∧
        (out.ctl = .normal → ls'.rpc = .cs ∧ ls'.lnest = ls.lnest + 1 ∧ ls'.reg = ls.reg ∧ ls'.held = ls.held ∧
          (1 ≤ ls.lnest → ls'.lph = ls.lph)) := by
  obtain ⟨out, h, labs, ls', h1, h2⟩ := memb_read_lock sf fuel env inp ls b hb hsf hrel hcall hreg hmax hgp
  exact ⟨out, h, labs, ls', h1, absRun_lrun _ _ _ _ _ _ h1, h2⟩

theorem _urcu_memb_read_unlock_refines (sf : Bool) (fuel : Nat) (env : Env) (inp : List Val) (ls : LState) (b : Int)
    (hb : env.priv (.glob "urcu_memb_has_sys_membarrier") = some (.int b)) (hsf : sf = true → b = 0)
    (hrel : Rel memb env ls) (hcs : ls.rpc = .cs) (hn : 1 ≤ ls.lnest)
    (hfx : ∀ v, inp.head? = some v → ∃ n : Int, v = .int n) :
    ∃ out, exec fuel Gen.Src.«_urcu_memb_read_unlock» env inp = .ok out ∧
      (∃ labs ls', absRun sf memb ls out.events = some (labs, ls') ∧ lrun sf ls labs = some ls' ∧
        Rel memb out.env ls' ∧
        (∀ l, l ≠ memb.rdCtr → l ≠ memb.futex → out.env.priv l = env.priv l) ∧
        (out.ctl = .normal ∨ out.ctl = .blocked) ∧
        (out.ctl = .normal → ls' = { ls with lnest := ls.lnest - 1, rpc := if ls.lnest = 1 then .out else .cs })) ∧
      -- outermost unlock: also one run of the waker of the futex handshake model
      (ls.lnest = 1 → ∀ r0, ∃ hlabs hs', absRunH sf memb { kpc := .k0, r := r0 } out.events = some (hlabs, hs') ∧
        hrun sf { kpc := .k0, r := r0 } hlabs = some hs' ∧ (out.ctl = .normal → hs'.kpc = .k4)) := by
  obtain ⟨out, h, ⟨labs, ls', h1, h2⟩, hw⟩ := memb_read_unlock sf fuel env inp ls b hb hsf hrel hcs hn hfx
  refine ⟨out, h, ⟨labs, ls', h1, absRun_lrun _ _ _ _ _ _ h1, h2⟩, ?_⟩
  intro h1' r0
  obtain ⟨hl, hs', h3, h4⟩ := hw h1' r0
  exact ⟨hl, hs', h3, absRunH_hrun _ _ _ _ _ _ h3, h4⟩

theorem _urcu_memb_read_ongoing_refines (fuel : Nat) (env : Env) (inp : List Val) (ls : LState)
    (hrel : Rel memb env ls) :
    exec fuel Gen.Src.«_urcu_memb_read_ongoing» env inp =
      .ok { events := [], env := env, inp := inp, ctl := .ret (some (.int ls.lnest)) } :=
  memb_read_ongoing fuel env inp ls hrel

/-! ## mb -/

theorem _urcu_mb_read_lock_refines (sf : Bool) (fuel : Nat) (env : Env) (inp : List Val) (ls : LState)
    (hrel : Rel mb env ls) (hcall : AtCall ls) (hreg : ls.reg = true) (hmax : ls.lnest + 1 < 4294967296)
    (hgp : ∀ v, inp.head? = some v → GpShape v) :
    ∃ out, exec fuel Gen.Src.«_urcu_mb_read_lock» env inp = .ok out ∧
      ∃ labs ls', absRun sf mb ls out.events = some (labs, ls') ∧ lrun sf ls labs = some ls' ∧
        Rel mb out.env ls' ∧
        (∀ l, l ≠ mb.rdCtr → out.env.priv l = env.priv l) ∧
        (out.ctl = .normal ∨ out.ctl = .blocked) ∧
        (out.ctl = .normal → ls'.rpc = .cs ∧ ls'.lnest = ls.lnest + 1 ∧ ls'.reg = ls.reg ∧ ls'.held = ls.held ∧
          (1 ≤ ls.lnest → ls'.lph = ls.lph)) := by
  obtain ⟨out, h, labs, ls', h1, h2⟩ := mb_read_lock sf fuel env inp ls hrel hcall hreg hmax hgp
  exact ⟨out, h, labs, ls', h1, absRun_lrun _ _ _ _ _ _ h1, h2⟩

theorem _urcu_mb_read_unlock_refines (sf : Bool) (fuel : Nat) (env : Env) (inp : List Val) (ls : LState)
    (hrel : Rel mb env ls) (hcs : ls.rpc = .cs) (hn : 1 ≤ ls.lnest)
    (hfx : ∀ v, inp.head? = some v → ∃ n : Int, v = .int n) :
    ∃ out, exec fuel Gen.Src.«_urcu_mb_read_unlock» env inp = .ok out ∧
      (∃ labs ls', absRun sf mb ls out.events = some (labs, ls') ∧ lrun sf ls labs = some ls' ∧
        Rel mb out.env ls' ∧
        (∀ l, l ≠ mb.rdCtr → l ≠ mb.futex → out.env.priv l = env.priv l) ∧
        (out.ctl = .normal ∨ out.ctl = .blocked) ∧
        (out.ctl = .normal → ls' = { ls with lnest := ls.lnest - 1, rpc := if ls.lnest = 1 then .out else .cs })) ∧
      (ls.lnest = 1 → ∀ r0, ∃ hlabs hs', absRunH sf mb { kpc := .k0, r := r0 } out.events = some (hlabs, hs') ∧
        hrun sf { kpc := .k0, r := r0 } hlabs = some hs' ∧ (out.ctl = .normal → hs'.kpc = .k4)) := by
  obtain ⟨out, h, ⟨labs, ls', h1, h2⟩, hw⟩ := mb_read_unlock sf fuel env inp ls hrel hcs hn hfx
  refine ⟨out, h, ⟨labs, ls', h1, absRun_lrun _ _ _ _ _ _ h1, h2⟩, ?_⟩
  intro h1' r0
  obtain ⟨hl, hs', h3, h4⟩ := hw h1' r0
  exact ⟨hl, hs', h3, absRunH_hrun _ _ _ _ _ _ h3, h4⟩

theorem _urcu_mb_read_ongoing_refines (fuel : Nat) (env : Env) (inp : List Val) (ls : LState)
    (hrel : Rel mb env ls) :
    exec fuel Gen.Src.«_urcu_mb_read_ongoing» env inp =
      .ok { events := [], env := env, inp := inp, ctl := .ret (some (.int ls.lnest)) } :=
  mb_read_ongoing fuel env inp ls hrel

/-! ## bp (registered thread) -/

theorem _urcu_bp_read_lock_refines (sf : Bool) (fuel : Nat) (env : Env) (inp : List Val) (ls : LState) (b : Int)
    (k : Nat) (hp : env.priv (.tls "urcu_bp_reader") = some (.ptr (.obj k)))
    (hb : env.priv (.glob "urcu_bp_has_sys_membarrier") = some (.int b)) (hsf : sf = true → b = 0)
    (hrel : Rel (bp k) env ls) (hcall : AtCall ls) (hreg : ls.reg = true) (hmax : ls.lnest + 1 < 4294967296)
    (hgp : ∀ v, inp.head? = some v → GpShape v) :
    ∃ out, exec fuel Gen.Src.«_urcu_bp_read_lock» env inp = .ok out ∧
      ∃ labs ls', absRun sf (bp k) ls out.events = some (labs, ls') ∧ lrun sf ls labs = some ls' ∧
        Rel (bp k) out.env ls' ∧
        (∀ l, l ≠ (bp k).rdCtr → out.env.priv l = env.priv l) ∧
        (out.ctl = .normal ∨ out.ctl = .blocked) ∧
        (out.ctl = .normal → ls'.rpc = .cs ∧ ls'.lnest = ls.lnest + 1 ∧ ls'.reg = ls.reg ∧ ls'.held = ls.held ∧
          (1 ≤ ls.lnest → ls'.lph = ls.lph)) := by
  obtain ⟨out, h, labs, ls', h1, h2⟩ := bp_read_lock sf fuel env inp ls b k hp hb hsf hrel hcall hreg hmax hgp
  exact ⟨out, h, labs, ls', h1, absRun_lrun _ _ _ _ _ _ h1, h2⟩

theorem _urcu_bp_read_unlock_refines (sf : Bool) (fuel : Nat) (env : Env) (inp : List Val) (ls : LState) (b : Int)
    (k : Nat) (hp : env.priv (.tls "urcu_bp_reader") = some (.ptr (.obj k)))
    (hb : env.priv (.glob "urcu_bp_has_sys_membarrier") = some (.int b))
    (hrel : Rel (bp k) env ls) (hcs : ls.rpc = .cs) (hn : 1 ≤ ls.lnest) :
    ∃ out, exec fuel Gen.Src.«_urcu_bp_read_unlock» env inp = .ok out ∧
      (∃ labs ls', absRun sf (bp k) ls out.events = some (labs, ls') ∧ lrun sf ls labs = some ls' ∧
        Rel (bp k) out.env ls' ∧
        (∀ l, l ≠ (bp k).rdCtr → l ≠ (bp k).futex → out.env.priv l = env.priv l) ∧
        (out.ctl = .normal ∨ out.ctl = .blocked) ∧
        (out.ctl = .normal → ls' = { ls with lnest := ls.lnest - 1, rpc := if ls.lnest = 1 then .out else .cs })) ∧
      out.ctl = .normal ∧ out.inp = inp := by
  obtain ⟨out, h, ⟨labs, ls', h1, h2⟩, hw⟩ := bp_read_unlock sf fuel env inp ls b k hp hb hrel hcs hn
  exact ⟨out, h, ⟨labs, ls', h1, absRun_lrun _ _ _ _ _ _ h1, h2⟩, hw⟩

theorem _urcu_bp_read_ongoing_refines (fuel : Nat) (env : Env) (inp : List Val) (ls : LState) (k : Nat)
    (hp : env.priv (.tls "urcu_bp_reader") = some (.ptr (.obj k))) (hrel : Rel (bp k) env ls) :
    exec fuel Gen.Src.«_urcu_bp_read_ongoing» env inp =
      .ok { events := [], env := env, inp := inp, ctl := .ret (some (.int ls.lnest)) } :=
  bp_read_ongoing fuel env inp ls k hp hrel

/-- unregistered bp thread: the first thing `_urcu_bp_read_lock` / `_urcu_bp_read_ongoing` do is the external call
`urcu_bp_register()` (see `Src.Read.bp_unregistered_first_event` for why the statement stops there) -/
theorem _urcu_bp_read_lock_unregistered (fuel : Nat) (env : Env) (r : Val) (rest : List Val)
    (hp : env.priv (.tls "urcu_bp_reader") = some (.int 0)) :
    (∃ tail, Gen.Src.«_urcu_bp_read_lock» = .seq bpRegisterTest tail) ∧
    (∃ tail, Gen.Src.«_urcu_bp_read_ongoing» = .seq bpRegisterTest tail) ∧
    exec fuel bpRegisterTest env (r :: rest) =
      .ok { events := [.ext "urcu_bp_register" [] r], env := env, inp := rest, ctl := .normal } ∧
    exec fuel bpRegisterTest env [] = .ok { events := [], env := env, inp := [], ctl := .blocked } :=
  bp_unregistered_first_event fuel env r rest hp

/-! ## `urcu_common_wake_up_gp` on its own -/

theorem urcu_common_wake_up_gp_shape (fuel : Nat) (env : Env) (inp : List Val) (G : Loc)
    (hg : env.vars "gp" = some (.ptr G)) :
    ∃ out, exec fuel Gen.Src.«urcu_common_wake_up_gp» env inp = .ok out ∧ out.events = wakeEvents G inp ∧
      (out.ctl = .normal ∨ out.ctl = .blocked) ∧
      (out.ctl = .blocked ↔ (inp = [] ∨ inp = [.int (-1)])) :=
  wake_up_gp_shape fuel env inp G hg

/-! ## the local automata are the thread-local projections of the real L2 `step` functions -/

theorem flip_proj_step (c : Gp.Cfg) (s s' : Gp.State) (i : Nat) (l : LLabel)
    (st : Gp.step c s (l.toL2 i) = some s') (ho : Obs c s s' i l) :
    lstep c.slaveFence (proj s i) l = some (proj s' i) := proj_step c s s' i l st ho

theorem flip_proj_enabled (c : Gp.Cfg) (s : Gp.State) (i : Nat) (l : LLabel) (ls' : LState)
    (hl : lstep c.slaveFence (proj s i) l = some ls') (hi : i < c.n) (hg : Guard c s i l) :
    ∃ s', Gp.step c s (l.toL2 i) = some s' ∧ proj s' i = ls' ∧ Obs c s s' i l := proj_enabled c s i l ls' hl hi hg

/-- environment labels: everything not owned by thread `i` – other threads, the updater, `flush j` / `forced j` for every
`j` (also `j = i`: they move the memory copy and the store buffer only), `setY` -/
theorem flip_proj_frame (c : Gp.Cfg) (s s' : Gp.State) (i : Nat) (l : Gp.Label)
    (st : Gp.step c s l = some s') (ho : owner l ≠ some i) : proj s' i = proj s i := proj_frame c s s' i l st ho

theorem handshake_proj_step (c : Handshake.Cfg) (s s' : Handshake.State) (i : Nat) (l : HLabel)
    (st : Handshake.step c s (l.toL2 i) = some s') (ho : ObsH c s l) :
    hstep c.slaveFence (projH s i) l = some (projH s' i) := projH_step c s s' i l st ho

theorem handshake_proj_enabled (c : Handshake.Cfg) (s : Handshake.State) (i : Nat) (l : HLabel) (hs' : HState)
    (hl : hstep c.slaveFence (projH s i) l = some hs') (hi : i < c.n) (hg : GuardH c s i l) :
    ∃ s', Handshake.step c s (l.toL2 i) = some s' ∧ projH s' i = hs' ∧ ObsH c s l :=
  projH_enabled c s i l hs' hl hi hg

/-- environment labels: the waiter's, `forced j`, `flushDone j`, `flushFut j` for every `j`, other wakers' -/
theorem handshake_proj_frame (c : Handshake.Cfg) (s s' : Handshake.State) (i : Nat) (l : Handshake.Label)
    (st : Handshake.step c s l = some s') (ho : ownerH l ≠ some i) : projH s' i = projH s i :=
  projH_frame c s s' i l st ho

/-! ## non-vacuity: concrete runs (oracle values, events, labels, final local state) -/

/-- private view: config word `b`, reader word `w` -/
def envMemb (b w : Int) : Env :=
  { vars := fun _ => none,
    priv := fun l => if l = .glob "urcu_memb_has_sys_membarrier" then some (.int b)
                     else if l = memb.rdCtr then some (.int w) else none }
def envMb (w : Int) : Env :=
  { vars := fun _ => none, priv := fun l => if l = mb.rdCtr then some (.int w) else none }
def envBp (b w : Int) : Env :=
  { vars := fun _ => none,
    priv := fun l => if l = .glob "urcu_bp_has_sys_membarrier" then some (.int b)
                     else if l = .tls "urcu_bp_reader" then some (.ptr (.obj 7))
                     else if l = (bp 7).rdCtr then some (.int w) else none }

def lsOut : LState := { rpc := .out, reg := true, held := [], lnest := 0, lph := false }
def lsCs (n : Nat) (p : Bool) : LState := { rpc := .cs, reg := true, held := [], lnest := n, lph := p }

/-- the hypotheses of `_urcu_memb_read_lock_refines` are satisfiable (fallback configuration, gp phase 1) -/
example :=
  _urcu_memb_read_lock_refines true 0 (envMemb 0 0) [.int 4294967297] lsOut 0 rfl (fun _ => rfl)
    ⟨rfl, by decide⟩ (.inl ⟨rfl, rfl⟩) rfl (by decide) (by intro v h; cases h; exact ⟨true, rfl⟩)

/-- memb outermost lock, no sys_membarrier: 4 events, 3 labels -/
example : (exec 0 Gen.Src.«_urcu_memb_read_lock» (envMemb 0 0) [.int 4294967297]).toOption.map (·.events) =
    some [.fence .barrier, .ld memb.gpCtr (.int 4294967297) 0, .st memb.rdCtr (.int 4294967297) 0, .fence .mb] := by
  decide
example : absRun true memb lsOut
      [.fence .barrier, .ld memb.gpCtr (.int 4294967297) 0, .st memb.rdCtr (.int 4294967297) 0, .fence .mb] =
    some ([.rLd true, .rSt (1, true), .rEnter true], lsCs 1 true) := by decide
/-- with sys_membarrier the slave barrier is a compiler barrier: accepted only when `slaveFence = false` -/
example : (exec 0 Gen.Src.«_urcu_memb_read_lock» (envMemb 1 0) [.int 1]).toOption.map (·.events) =
    some [.fence .barrier, .ld memb.gpCtr (.int 1) 0, .st memb.rdCtr (.int 1) 0, .fence .barrier] := by decide
example : absRun false memb lsOut
      [.fence .barrier, .ld memb.gpCtr (.int 1) 0, .st memb.rdCtr (.int 1) 0, .fence .barrier] =
    some ([.rLd false, .rSt (1, false), .rEnter false], lsCs 1 false) := by decide
example : absRun true memb lsOut
      [.fence .barrier, .ld memb.gpCtr (.int 1) 0, .st memb.rdCtr (.int 1) 0, .fence .barrier] = none := by decide
/-- a wrong stored value is rejected by the local automaton (the abstraction does not launder values) -/
example : absRun true memb lsOut
      [.fence .barrier, .ld memb.gpCtr (.int 4294967297) 0, .st memb.rdCtr (.int 1) 0, .fence .mb] = none := by decide

/-- memb outermost unlock with a sleeping updater (futex = -1): 7 events; `rUnlock` for Flip, the full waker run for the
handshake -/
example : (exec 0 Gen.Src.«_urcu_memb_read_unlock» (envMemb 0 4294967297) [.int (-1), .int 1]).toOption.map (·.events) =
    some [.fence .mb, .st memb.rdCtr (.int 4294967296) 0, .fence .mb, .ld memb.futex (.int (-1)) 0,
          .st memb.futex (.int 0) 0, .ext "futex_async" (wakeArgs memb) (.int 1), .fence .barrier] := by decide
example : absRun true memb (lsCs 1 true)
      [.fence .mb, .st memb.rdCtr (.int 4294967296) 0, .fence .mb, .ld memb.futex (.int (-1)) 0,
       .st memb.futex (.int 0) 0, .ext "futex_async" (wakeArgs memb) (.int 1), .fence .barrier] =
    some ([.rUnlock (0, true)], { lsOut with lph := true }) := by decide
example : absRunH true memb { kpc := .k0, r := 0 }
      [.fence .mb, .st memb.rdCtr (.int 4294967296) 0, .fence .mb, .ld memb.futex (.int (-1)) 0,
       .st memb.futex (.int 0) 0, .ext "futex_async" (wakeArgs memb) (.int 1), .fence .barrier] =
    some ([.k0, .kf true, .k1 (-1), .k2Wake, .k3], { kpc := .k4, r := -1 }) := by decide
/-- hypotheses of `_urcu_memb_read_unlock_refines` satisfiable -/
example :=
  _urcu_memb_read_unlock_refines true 0 (envMemb 0 4294967297) [.int (-1), .int 1] (lsCs 1 true) 0 rfl (fun _ => rfl)
    ⟨rfl, by decide⟩ rfl (by decide) (by intro v h; cases h; exact ⟨-1, rfl⟩)

/-- memb nested lock / unlock: one store each -/
example : (exec 0 Gen.Src.«_urcu_memb_read_lock» (envMemb 0 4294967298) []).toOption.map (·.events) =
    some [.fence .barrier, .st memb.rdCtr (.int 4294967299) 0] := by decide
example : absRun true memb (lsCs 2 true) [.fence .barrier, .st memb.rdCtr (.int 4294967299) 0] =
    some ([.rInc (3, true)], lsCs 3 true) := by decide
example : (exec 0 Gen.Src.«_urcu_memb_read_unlock» (envMemb 0 4294967298) []).toOption.map (·.events) =
    some [.st memb.rdCtr (.int 4294967297) 0, .fence .barrier] := by decide
example : absRun true memb (lsCs 2 true) [.st memb.rdCtr (.int 4294967297) 0, .fence .barrier] =
    some ([.rDec (1, true)], lsCs 1 true) := by decide

/-- memb `read_ongoing` -/
example : exec 0 Gen.Src.«_urcu_memb_read_ongoing» (envMemb 0 4294967298) [] =
    .ok { events := [], env := envMemb 0 4294967298, inp := [], ctl := .ret (some (.int 2)) } :=
  _urcu_memb_read_ongoing_refines 0 (envMemb 0 4294967298) [] (lsCs 2 true) ⟨rfl, by decide⟩

/-- mb outermost lock and unlock (the unlock store is `CMM_SEQ_CST` = `k0` and `kf true` at once; updater not asleep) -/
example : (exec 0 Gen.Src.«_urcu_mb_read_lock» (envMb 4294967296) [.int 1]).toOption.map (·.events) =
    some [.fence .barrier, .ld mb.gpCtr (.int 1) 0, .st mb.rdCtr (.int 1) 0, .fence .mb] := by decide
example : absRun true mb { lsOut with lph := true }
      [.fence .barrier, .ld mb.gpCtr (.int 1) 0, .st mb.rdCtr (.int 1) 0, .fence .mb] =
    some ([.rLd false, .rSt (1, false), .rEnter true], lsCs 1 false) := by decide
example : (exec 0 Gen.Src.«_urcu_mb_read_unlock» (envMb 1) [.int 0]).toOption.map (·.events) =
    some [.st mb.rdCtr (.int 0) 5, .ld mb.futex (.int 0) 0, .fence .barrier] := by decide
example : absRun true mb (lsCs 1 false) [.st mb.rdCtr (.int 0) 5, .ld mb.futex (.int 0) 0, .fence .barrier] =
    some ([.rUnlock (0, false)], lsOut) := by decide
example : absRunH true mb { kpc := .k0, r := 5 } [.st mb.rdCtr (.int 0) 5, .ld mb.futex (.int 0) 0, .fence .barrier] =
    some ([.k0, .kf true, .k1 0, .k2Skip], { kpc := .k4, r := 0 }) := by decide
example :=
  _urcu_mb_read_lock_refines true 0 (envMb 4294967296) [.int 1] { lsOut with lph := true }
    ⟨rfl, by decide⟩ (.inl ⟨rfl, rfl⟩) rfl (by decide) (by intro v h; cases h; exact ⟨false, rfl⟩)
example :=
  _urcu_mb_read_unlock_refines true 0 (envMb 1) [.int 0] (lsCs 1 false)
    ⟨rfl, by decide⟩ rfl (by decide) (by intro v h; cases h; exact ⟨0, rfl⟩)

/-- bp (registered, slot 7): outermost lock and unlock -/
example : (exec 0 Gen.Src.«_urcu_bp_read_lock» (envBp 0 0) [.int 4294967297]).toOption.map (·.events) =
    some [.fence .barrier, .ld (bp 7).gpCtr (.int 4294967297) 0, .st (bp 7).rdCtr (.int 4294967297) 0, .fence .mb] := by
  decide
example : absRun true (bp 7) lsOut
      [.fence .barrier, .ld (bp 7).gpCtr (.int 4294967297) 0, .st (bp 7).rdCtr (.int 4294967297) 0, .fence .mb] =
    some ([.rLd true, .rSt (1, true), .rEnter true], lsCs 1 true) := by decide
example : (exec 0 Gen.Src.«_urcu_bp_read_unlock» (envBp 0 4294967297) []).toOption.map (·.events) =
    some [.fence .mb, .st (bp 7).rdCtr (.int 4294967296) 0, .fence .barrier] := by decide
example : absRun true (bp 7) (lsCs 1 true) [.fence .mb, .st (bp 7).rdCtr (.int 4294967296) 0, .fence .barrier] =
    some ([.rUnlock (0, true)], { lsOut with lph := true }) := by decide
example :=
  _urcu_bp_read_lock_refines true 0 (envBp 0 0) [.int 4294967297] lsOut 0 7 rfl rfl (fun _ => rfl)
    ⟨rfl, by decide⟩ (.inl ⟨rfl, rfl⟩) rfl (by decide) (by intro v h; cases h; exact ⟨true, rfl⟩)
example :=
  _urcu_bp_read_unlock_refines true 0 (envBp 0 4294967297) [] (lsCs 1 true) 0 7 rfl rfl ⟨rfl, by decide⟩ rfl (by decide)

/-- `wake_up_gp` alone, updater asleep -/
example : wakeEvents (.glob "urcu_memb_gp") [.int (-1), .int 1] =
    [.ld memb.futex (.int (-1)) 0, .st memb.futex (.int 0) 0, .ext "futex_async" (wakeArgs memb) (.int 1)] := by decide

/-- the projection lemmas are not vacuous: a real `Gp.step` of reader 0 (after `reg 0`) and its local image -/
example : ∃ s1 s2, Gp.step ⟨1, false, true⟩ Gp.init (.reg 0) = some s1 ∧
    Gp.step ⟨1, false, true⟩ s1 ((LLabel.rLd false).toL2 0) = some s2 ∧
    lstep true (proj s1 0) (.rLd false) = some (proj s2 0) := by
  refine ⟨_, _, rfl, rfl, ?_⟩
  exact flip_proj_step ⟨1, false, true⟩ _ _ 0 (.rLd false) rfl rfl

/-! ## calls from a signal handler that interrupted `rcu_read_lock` at L2 pc `fence` (C19): nested path only, all fences
silent (`absEvHdl`) -/

theorem _urcu_memb_read_lock_in_handler_refines (sf : Bool) (fuel : Nat) (env : Env) (inp : List Val) (ls : LState)
    (hrel : Rel memb env ls) (hpc : ls.rpc = .fence) (hn : 1 ≤ ls.lnest ∧ ls.lnest + 1 < 4294967296) :
    ∃ out, exec fuel Gen.Src.«_urcu_memb_read_lock» env inp = .ok out ∧
      absRunHdl sf memb ls out.events = some ([.rInc (ls.lnest + 1, ls.lph)], { ls with lnest := ls.lnest + 1 }) ∧
      lrun sf ls [.rInc (ls.lnest + 1, ls.lph)] = some { ls with lnest := ls.lnest + 1 } ∧
      Rel memb out.env { ls with lnest := ls.lnest + 1 } ∧
      (∀ l, l ≠ memb.rdCtr → out.env.priv l = env.priv l) ∧ out.ctl = .normal := by
  obtain ⟨out, h, h1, h2⟩ := memb_read_lock_in_handler sf fuel env inp ls hrel hpc hn
  exact ⟨out, h, h1, absRunHdl_lrun _ _ _ _ _ _ h1, h2⟩

theorem _urcu_memb_read_unlock_in_handler_refines (sf : Bool) (fuel : Nat) (env : Env) (inp : List Val) (ls : LState)
    (hrel : Rel memb env ls) (hpc : ls.rpc = .fence) (hn : 2 ≤ ls.lnest) :
    ∃ out, exec fuel Gen.Src.«_urcu_memb_read_unlock» env inp = .ok out ∧
      absRunHdl sf memb ls out.events = some ([.rDec (ls.lnest - 1, ls.lph)], { ls with lnest := ls.lnest - 1 }) ∧
      lrun sf ls [.rDec (ls.lnest - 1, ls.lph)] = some { ls with lnest := ls.lnest - 1 } ∧
      Rel memb out.env { ls with lnest := ls.lnest - 1 } ∧
      (∀ l, l ≠ memb.rdCtr → out.env.priv l = env.priv l) ∧ out.ctl = .normal := by
  obtain ⟨out, h, h1, h2⟩ := memb_read_unlock_in_handler sf fuel env inp ls hrel hpc hn
  exact ⟨out, h, h1, absRunHdl_lrun _ _ _ _ _ _ h1, h2⟩

theorem _urcu_mb_read_lock_in_handler_refines (sf : Bool) (fuel : Nat) (env : Env) (inp : List Val) (ls : LState)
    (hrel : Rel mb env ls) (hpc : ls.rpc = .fence) (hn : 1 ≤ ls.lnest ∧ ls.lnest + 1 < 4294967296) :
    ∃ out, exec fuel Gen.Src.«_urcu_mb_read_lock» env inp = .ok out ∧
      absRunHdl sf mb ls out.events = some ([.rInc (ls.lnest + 1, ls.lph)], { ls with lnest := ls.lnest + 1 }) ∧
      lrun sf ls [.rInc (ls.lnest + 1, ls.lph)] = some { ls with lnest := ls.lnest + 1 } ∧
      Rel mb out.env { ls with lnest := ls.lnest + 1 } ∧
      (∀ l, l ≠ mb.rdCtr → out.env.priv l = env.priv l) ∧ out.ctl = .normal := by
  obtain ⟨out, h, h1, h2⟩ := mb_read_lock_in_handler sf fuel env inp ls hrel hpc hn
  exact ⟨out, h, h1, absRunHdl_lrun _ _ _ _ _ _ h1, h2⟩

theorem _urcu_mb_read_unlock_in_handler_refines (sf : Bool) (fuel : Nat) (env : Env) (inp : List Val) (ls : LState)
    (hrel : Rel mb env ls) (hpc : ls.rpc = .fence) (hn : 2 ≤ ls.lnest) :
    ∃ out, exec fuel Gen.Src.«_urcu_mb_read_unlock» env inp = .ok out ∧
      absRunHdl sf mb ls out.events = some ([.rDec (ls.lnest - 1, ls.lph)], { ls with lnest := ls.lnest - 1 }) ∧
      lrun sf ls [.rDec (ls.lnest - 1, ls.lph)] = some { ls with lnest := ls.lnest - 1 } ∧
      Rel mb out.env { ls with lnest := ls.lnest - 1 } ∧
      (∀ l, l ≠ mb.rdCtr → out.env.priv l = env.priv l) ∧ out.ctl = .normal := by
  obtain ⟨out, h, h1, h2⟩ := mb_read_unlock_in_handler sf fuel env inp ls hrel hpc hn
  exact ⟨out, h, h1, absRunHdl_lrun _ _ _ _ _ _ h1, h2⟩

theorem _urcu_bp_read_lock_in_handler_refines (sf : Bool) (fuel : Nat) (env : Env) (inp : List Val) (ls : LState)
    (k : Nat) (hp : env.priv (.tls "urcu_bp_reader") = some (.ptr (.obj k)))
    (hrel : Rel (bp k) env ls) (hpc : ls.rpc = .fence) (hn : 1 ≤ ls.lnest ∧ ls.lnest + 1 < 4294967296) :
    ∃ out, exec fuel Gen.Src.«_urcu_bp_read_lock» env inp = .ok out ∧
      absRunHdl sf (bp k) ls out.events = some ([.rInc (ls.lnest + 1, ls.lph)], { ls with lnest := ls.lnest + 1 }) ∧
      lrun sf ls [.rInc (ls.lnest + 1, ls.lph)] = some { ls with lnest := ls.lnest + 1 } ∧
      Rel (bp k) out.env { ls with lnest := ls.lnest + 1 } ∧
      (∀ l, l ≠ (bp k).rdCtr → out.env.priv l = env.priv l) ∧ out.ctl = .normal := by
  obtain ⟨out, h, h1, h2⟩ := bp_read_lock_in_handler sf fuel env inp ls k hp hrel hpc hn
  exact ⟨out, h, h1, absRunHdl_lrun _ _ _ _ _ _ h1, h2⟩

theorem _urcu_bp_read_unlock_in_handler_refines (sf : Bool) (fuel : Nat) (env : Env) (inp : List Val) (ls : LState)
    (k : Nat) (b : Int) (hp : env.priv (.tls "urcu_bp_reader") = some (.ptr (.obj k)))
    (hb : env.priv (.glob "urcu_bp_has_sys_membarrier") = some (.int b))
    (hrel : Rel (bp k) env ls) (hpc : ls.rpc = .fence) (hn : 2 ≤ ls.lnest) :
    ∃ out, exec fuel Gen.Src.«_urcu_bp_read_unlock» env inp = .ok out ∧
      absRunHdl sf (bp k) ls out.events = some ([.rDec (ls.lnest - 1, ls.lph)], { ls with lnest := ls.lnest - 1 }) ∧
      lrun sf ls [.rDec (ls.lnest - 1, ls.lph)] = some { ls with lnest := ls.lnest - 1 } ∧
      Rel (bp k) out.env { ls with lnest := ls.lnest - 1 } ∧
      (∀ l, l ≠ (bp k).rdCtr → out.env.priv l = env.priv l) ∧ out.ctl = .normal := by
  obtain ⟨out, h, h1, h2⟩ := bp_read_unlock_in_handler sf fuel env inp ls k b hp hb hrel hpc hn
  exact ⟨out, h, h1, absRunHdl_lrun _ _ _ _ _ _ h1, h2⟩

/-- non-vacuity: handler interrupts the outermost `rcu_read_lock` of memb after its store (nesting 1, phase 1) and does
lock; unlock -/
example : (exec 0 Gen.Src.«_urcu_memb_read_lock» (envMemb 0 4294967297) []).toOption.map (·.events) =
    some [.fence .barrier, .st memb.rdCtr (.int 4294967298) 0] := by decide
example : absRunHdl true memb { rpc := .fence, reg := true, held := [], lnest := 1, lph := true }
      [.fence .barrier, .st memb.rdCtr (.int 4294967298) 0] =
    some ([.rInc (2, true)], { rpc := .fence, reg := true, held := [], lnest := 2, lph := true }) := by decide
example : absRunHdl true memb { rpc := .fence, reg := true, held := [], lnest := 2, lph := true }
      [.st memb.rdCtr (.int 4294967297) 0, .fence .barrier] =
    some ([.rDec (1, true)], { rpc := .fence, reg := true, held := [], lnest := 1, lph := true }) := by decide
example :=
  _urcu_memb_read_lock_in_handler_refines true 0 (envMemb 0 4294967297) []
    { rpc := .fence, reg := true, held := [], lnest := 1, lph := true } ⟨rfl, by decide⟩ rfl (by decide)

/-! ## QSBR -/

theorem _urcu_qsbr_quiescent_state_refines (fuel : Nat) (env : Env) (inp : List Val) (ls : QState)
    (hrel : RelQ env ls) (hout : ls.rpc = .out) (hreg : ls.reg = true)
    (hgp : ∀ v, inp.head? = some v → QShape v) (hint : ∀ v, v ∈ inp → ∃ n : Int, v = .int n) :
    ∃ out, exec fuel Gen.Src.«_urcu_qsbr_quiescent_state» env inp = .ok out ∧
      (∃ labs ls', absRunQ ls out.events = some (labs, ls') ∧ qrun ls labs = some ls' ∧ RelQ out.env ls' ∧
        (∀ l, l ≠ qRdCtr → l ≠ qWaiting → l ≠ qFutex → out.env.priv l = env.priv l) ∧
        (Done out.ctl ∨ out.ctl = .blocked) ∧
        (Done out.ctl → ls'.rpc = .out ∧ ls'.reg = ls.reg ∧
          (∀ e ∈ out.events, ∀ l n mo, e = .st l (.int n) mo → l = qRdCtr → ls'.lctr = decq n) ∧
          ((∀ e ∈ out.events, ∀ l v mo, e ≠ .st l v mo) → ls'.lctr = ls.lctr))) ∧
      ((∀ g, inp.head? = some (.int (encq g)) → g ≠ ls.lctr) →
        ∀ r0, ∃ klabs ks', absRunK { kpc := .k0, r := r0 } out.events = some (klabs, ks') ∧
          krun { kpc := .k0, r := r0 } klabs = some ks' ∧ (Done out.ctl → ks'.kpc = .k9)) := by
  obtain ⟨out, h, ⟨labs, ls', h1, h2⟩, hk⟩ := qsbr_quiescent_state fuel env inp ls hrel hout hreg hgp hint
  refine ⟨out, h, ⟨labs, ls', h1, absRunQ_qrun _ _ _ _ h1, h2⟩, ?_⟩
  intro hne r0
  obtain ⟨kl, ks', h3, h4⟩ := hk hne r0
  exact ⟨kl, ks', h3, absRunK_krun _ _ _ _ h3, h4⟩

theorem _urcu_qsbr_thread_offline_refines (fuel : Nat) (env : Env) (inp : List Val) (ls : QState)
    (hrel : RelQ env ls) (hout : ls.rpc = .out) (hreg : ls.reg = true)
    (hint : ∀ v, v ∈ inp → ∃ n : Int, v = .int n) :
    ∃ out, exec fuel Gen.Src.«_urcu_qsbr_thread_offline» env inp = .ok out ∧
      (∃ labs ls', absRunQ ls out.events = some (labs, ls') ∧ qrun ls labs = some ls' ∧ RelQ out.env ls' ∧
        (∀ l, l ≠ qRdCtr → l ≠ qWaiting → l ≠ qFutex → out.env.priv l = env.priv l) ∧
        (Done out.ctl ∨ out.ctl = .blocked) ∧
        (Done out.ctl → ls'.rpc = .out ∧ ls'.reg = ls.reg ∧
          (∀ e ∈ out.events, ∀ l n mo, e = .st l (.int n) mo → l = qRdCtr → ls'.lctr = decq n) ∧
          ((∀ e ∈ out.events, ∀ l v mo, e ≠ .st l v mo) → ls'.lctr = ls.lctr))) ∧
      (∀ r0, ∃ klabs ks', absRunK { kpc := .k0, r := r0 } out.events = some (klabs, ks') ∧
          krun { kpc := .k0, r := r0 } klabs = some ks' ∧ (Done out.ctl → ks'.kpc = .k9)) := by
  obtain ⟨out, h, ⟨labs, ls', h1, h2⟩, hk⟩ := qsbr_thread_offline fuel env inp ls hrel hout hreg hint
  refine ⟨out, h, ⟨labs, ls', h1, absRunQ_qrun _ _ _ _ h1, h2⟩, ?_⟩
  intro r0
  obtain ⟨kl, ks', h3, h4⟩ := hk r0
  exact ⟨kl, ks', h3, absRunK_krun _ _ _ _ h3, h4⟩

theorem _urcu_qsbr_thread_online_refines (fuel : Nat) (env : Env) (inp : List Val) (ls : QState)
    (hrel : RelQ env ls) (hout : ls.rpc = .out) (hreg : ls.reg = true) (hoff : ls.lctr = 0)
    (hgp : ∀ v, inp.head? = some v → QShape v) :
    ∃ out, exec fuel Gen.Src.«_urcu_qsbr_thread_online» env inp = .ok out ∧
      ∃ labs ls', absRunQ ls out.events = some (labs, ls') ∧ qrun ls labs = some ls' ∧ RelQ out.env ls' ∧
        (∀ l, l ≠ qRdCtr → l ≠ qWaiting → l ≠ qFutex → out.env.priv l = env.priv l) ∧
        (Done out.ctl ∨ out.ctl = .blocked) ∧
        (Done out.ctl → ls'.rpc = .out ∧ ls'.reg = ls.reg ∧
          (∀ e ∈ out.events, ∀ l n mo, e = .st l (.int n) mo → l = qRdCtr → ls'.lctr = decq n) ∧
          ((∀ e ∈ out.events, ∀ l v mo, e ≠ .st l v mo) → ls'.lctr = ls.lctr)) := by
  obtain ⟨out, h, labs, ls', h1, h2⟩ := qsbr_thread_online fuel env inp ls hrel hout hreg hoff hgp
  exact ⟨out, h, labs, ls', h1, absRunQ_qrun _ _ _ _ h1, h2⟩

theorem _urcu_qsbr_read_ongoing_refines (fuel : Nat) (env : Env) (inp : List Val) (ls : QState) (hrel : RelQ env ls) :
    exec fuel Gen.Src.«_urcu_qsbr_read_ongoing» env inp =
      .ok { events := [], env := env, inp := inp, ctl := .ret (some (.int (encq ls.lctr))) } :=
  qsbr_read_ongoing fuel env inp ls hrel

theorem _urcu_qsbr_read_lock_refines (fuel : Nat) (env : Env) (inp : List Val) :
    exec fuel Gen.Src.«_urcu_qsbr_read_lock» env inp = .ok { events := [], env := env, inp := inp, ctl := .normal } :=
  (qsbr_read_lock_unlock fuel env inp).1

theorem _urcu_qsbr_read_unlock_refines (fuel : Nat) (env : Env) (inp : List Val) :
    exec fuel Gen.Src.«_urcu_qsbr_read_unlock» env inp = .ok { events := [], env := env, inp := inp, ctl := .normal } :=
  (qsbr_read_lock_unlock fuel env inp).2

theorem urcu_qsbr_wake_up_gp_refines (fuel : Nat) (env : Env) (inp : List Val)
    (hint : ∀ v, v ∈ inp → ∃ n : Int, v = .int n) :
    ∃ out, exec fuel Gen.Src.«urcu_qsbr_wake_up_gp» env inp = .ok out ∧ (Done out.ctl ∨ out.ctl = .blocked) ∧
      ∀ r0, ∃ klabs ks', absRunK { kpc := .k1, r := r0 } out.events = some (klabs, ks') ∧
        krun { kpc := .k1, r := r0 } klabs = some ks' ∧ (Done out.ctl → ks'.kpc = .k9) := by
  obtain ⟨out, h, hc, hk⟩ := qsbr_wake_up_gp fuel env inp hint
  refine ⟨out, h, hc, fun r0 => ?_⟩
  obtain ⟨kl, ks', h3, h4⟩ := hk r0
  exact ⟨kl, ks', h3, absRunK_krun _ _ _ _ h3, h4⟩

theorem qsbr_proj_step (c : Qsbr.Cfg) (s s' : Qsbr.State) (i : Nat) (l : QLabel)
    (st : Qsbr.step c s (l.toL2 i) = some s') (ho : ObsQ s s' i l) :
    qstep (projQ s i) l = some (projQ s' i) := projQ_step c s s' i l st ho
theorem qsbr_proj_enabled (c : Qsbr.Cfg) (s : Qsbr.State) (i : Nat) (l : QLabel) (ls' : QState)
    (hl : qstep (projQ s i) l = some ls') (hi : i < c.n) (hg : GuardQ s i l) :
    ∃ s', Qsbr.step c s (l.toL2 i) = some s' ∧ projQ s' i = ls' ∧ ObsQ s s' i l := projQ_enabled c s i l ls' hl hi hg
theorem qsbr_proj_frame (c : Qsbr.Cfg) (s s' : Qsbr.State) (i : Nat) (l : Qsbr.Label)
    (st : Qsbr.step c s l = some s') (ho : ownerQ l ≠ some i) : projQ s' i = projQ s i := projQ_frame c s s' i l st ho
theorem qsbr_handshake_proj_step (c : QsbrHs.Cfg) (s s' : QsbrHs.State) (i : Nat) (l : KLabel)
    (st : QsbrHs.step c s (l.toL2 i) = some s') (ho : ObsK s i l) :
    kstep (projK s i) l = some (projK s' i) := projK_step c s s' i l st ho
theorem qsbr_handshake_proj_enabled (c : QsbrHs.Cfg) (s : QsbrHs.State) (i : Nat) (l : KLabel) (ks' : KState)
    (hl : kstep (projK s i) l = some ks') (hi : i < c.n) (hg : GuardK s i l) :
    ∃ s', QsbrHs.step c s (l.toL2 i) = some s' ∧ projK s' i = ks' ∧ ObsK s i l := projK_enabled c s i l ks' hl hi hg
theorem qsbr_handshake_proj_frame (c : QsbrHs.Cfg) (s s' : QsbrHs.State) (i : Nat) (l : QsbrHs.Label)
    (st : QsbrHs.step c s l = some s') (ho : ownerK l ≠ some i) : projK s' i = projK s i :=
  projK_frame c s s' i l st ho

/-! ### QSBR non-vacuity -/

def envQ (w : Int) : Env :=
  { vars := fun _ => none, priv := fun l => if l = qRdCtr then some (.int w) else none }
def qsOut (g : Nat) : QState := { rpc := .out, reg := true, lctr := g }

/-- `rcu_quiescent_state()`: own word 1 (gp 1), `rcu_gp.ctr` = 3 (gp 2), the updater waits on us and sleeps:
8 events -/
example : (exec 0 Gen.Src.«_urcu_qsbr_quiescent_state» (envQ 1) [.int 3, .int 1, .int (-1), .int 1]).toOption.map (·.events) =
    some [.ld qGpCtr (.int 3) 0, .st qRdCtr (.int 3) 5, .ld qWaiting (.int 1) 0, .st qWaiting (.int 0) 0, .fence .mb,
          .ld qFutex (.int (-1)) 0, .st qFutex (.int 0) 0, .ext "futex_noasync" qWakeArgs (.int 1), .fence .mb] := by decide
example : absRunQ (qsOut 1)
      [.ld qGpCtr (.int 3) 0, .st qRdCtr (.int 3) 5, .ld qWaiting (.int 1) 0, .st qWaiting (.int 0) 0, .fence .mb,
       .ld qFutex (.int (-1)) 0, .st qFutex (.int 0) 0, .ext "futex_noasync" qWakeArgs (.int 1), .fence .mb] =
    some ([.qLd 2, .qSt 2, .qFence], qsOut 2) := by decide
example : absRunK { kpc := .k0, r := 0 }
      [.ld qGpCtr (.int 3) 0, .st qRdCtr (.int 3) 5, .ld qWaiting (.int 1) 0, .st qWaiting (.int 0) 0, .fence .mb,
       .ld qFutex (.int (-1)) 0, .st qFutex (.int 0) 0, .ext "futex_noasync" qWakeArgs (.int 1), .fence .mb] =
    some ([.k0, .k1 true, .k2, .kf, .k3 (-1), .k4Wake, .k5], { kpc := .k9, r := -1 }) := by decide
/-- nothing to announce: load, `qSkip` -/
example : (exec 0 Gen.Src.«_urcu_qsbr_quiescent_state» (envQ 3) [.int 3]).toOption.map (fun o => (o.events, o.ctl)) =
    some ([.ld qGpCtr (.int 3) 0], .ret none) := by decide
example : absRunQ (qsOut 2) [.ld qGpCtr (.int 3) 0] = some ([.qLd 2, .qSkip], qsOut 2) := by decide
example :=
  _urcu_qsbr_quiescent_state_refines 0 (envQ 1) [.int 3, .int 1, .int (-1), .int 1] (qsOut 1) rfl rfl rfl
    (by intro v h; cases h; exact ⟨2, by decide, rfl⟩)
    (by intro v h; simp at h; rcases h with rfl | rfl | rfl | rfl <;> exact ⟨_, rfl⟩)

/-- `rcu_thread_offline()` (nobody waits) and `rcu_thread_online()` -/
example : (exec 0 Gen.Src.«_urcu_qsbr_thread_offline» (envQ 3) [.int 0]).toOption.map (·.events) =
    some [.st qRdCtr (.int 0) 5, .ld qWaiting (.int 0) 0, .fence .barrier] := by decide
example : absRunQ (qsOut 2) [.st qRdCtr (.int 0) 5, .ld qWaiting (.int 0) 0, .fence .barrier] =
    some ([.qOff, .qFence], qsOut 0) := by decide
example : absRunK { kpc := .k0, r := 0 } [.st qRdCtr (.int 0) 5, .ld qWaiting (.int 0) 0, .fence .barrier] =
    some ([.k0, .k1 false], { kpc := .k9, r := 0 }) := by decide
example : (exec 0 Gen.Src.«_urcu_qsbr_thread_online» (envQ 0) [.int 5]).toOption.map (·.events) =
    some [.fence .barrier, .ld qGpCtr (.int 5) 0, .st qRdCtr (.int 5) 0, .fence .mb] := by decide
example : absRunQ (qsOut 0) [.fence .barrier, .ld qGpCtr (.int 5) 0, .st qRdCtr (.int 5) 0, .fence .mb] =
    some ([.qLd 3, .qSt 3, .qFence], qsOut 3) := by decide
example :=
  _urcu_qsbr_thread_offline_refines 0 (envQ 3) [.int 0] (qsOut 2) rfl rfl rfl
    (by intro v h; simp at h; subst h; exact ⟨_, rfl⟩)
example :=
  _urcu_qsbr_thread_online_refines 0 (envQ 0) [.int 5] (qsOut 0) rfl rfl rfl rfl
    (by intro v h; cases h; exact ⟨3, by decide, rfl⟩)
example : exec 0 Gen.Src.«_urcu_qsbr_read_ongoing» (envQ 3) [] =
    .ok { events := [], env := envQ 3, inp := [], ctl := .ret (some (.int 3)) } :=
  _urcu_qsbr_read_ongoing_refines 0 (envQ 3) [] (qsOut 2) rfl

end UrcuVerif.Props.SrcRead
