import UrcuVerif.Src.DeferLocal
import UrcuVerif.Src.DeferExec
import UrcuVerif.Src.DeferRefine
import UrcuVerif.Src.DeferAbs
import UrcuVerif.Src.DeferWaker
import UrcuVerif.Src.DeferFull
/-!
# Source refinement, component "defer_rcu queue codec" (C13): generated IR of `_defer_rcu`, `rcu_defer_barrier_queue`,
# `wake_up_defer` ⊑ L2

Final statements only (proofs: `Src/DeferExec.lean` – what `exec` does on the generated values; `Src/DeferRefine.lean` – the
tie to `Defer/Codec.lean`, `Ring.lean`, `Model.lean`, `Inv.lean`; `Src/DeferLocal.lean` – thread-local projections of the
concurrent model `Defer/ConcModel.lean` with projection / enabledness / frame lemmas against its real `step`).

Every theorem is about the **generated** value `UrcuVerif.Gen.Src.«f»` called with its generated parameter list, for every
loop budget `fuel` and every oracle (so: every prefix of every event sequence of the source text).

Conventions: a 64-bit word `w` of the model is the IR value `wv w = .int w.toNat` (pointers of the queue are integers);
counters are `.int (n : Nat)`; slot `i` of queue `base` is `slot base i = &base->q[i % 4096]`; the model configuration is
`Defer.Cfg.real` (`DEFER_QUEUE_SIZE = 4096`).
-/
set_option linter.unusedSimpArgs false
set_option maxRecDepth 8192
namespace UrcuVerif.Props.SrcDefer
open UrcuVerif UrcuVerif.Src UrcuVerif.Src.DeferR UrcuVerif.Defer

/-! ## (1) producer -/

/-- **`_defer_rcu(fct, p)`, non-full path ⊑ `Defer.enqT`** (the `enq` step of `Defer.step`; `Out.enqueued words`).
For every private view related to the model's thread state `x` (`head`, `last_fct_in`), every `fct`, `p`, every value `tl`
returned by the load of `tail` that is below the threshold (`needFlush` false for it: `head - tail < DEFER_QUEUE_SIZE - 2`)
and every integer oracle `rest` for `wake_up_defer()`:
the events are exactly `ld tail`, the stores of the model's words `(enqT …).2 = (enc1 last_fct_in fct p).1` at the slots
`head, head+1, …` (masked) in order, `wmb`, the store of the model's new `head`, `mb`, and the run `wakeSpec rest` of
`wake_up_defer()`; the private `head` / `last_fct_in` afterwards are the model's; nothing else of the private view changes
except the slots written and (own store forwarding) the futex word. -/
theorem _defer_rcu_refines (fuel : Nat) (priv : Loc → Option Val) (x : TState) (f p : BitVec 64) (tl now : Nat)
    (rest : List Val) (hr : RelO ⟨bindParams Gen.Src.«_defer_rcu.params» [wv f, wv p], priv⟩ x)
    (hnf : needFlush Cfg.real { x with tail := tl } = false) (hi : IntInp rest) :
    ∃ out, exec fuel Gen.Src.«_defer_rcu» ⟨bindParams Gen.Src.«_defer_rcu.params» [wv f, wv p], priv⟩
        (.int (tl : Int) :: rest) = .ok out ∧
      out.events = .ld (.field dq "tail") (.int (tl : Int)) 0 :: (stores dq x.head (enqT Cfg.real x f p now).2 ++
        [.fence .wmb, .st (.field dq "head") (.int ((enqT Cfg.real x f p now).1.head : Int)) 0, .fence .mb] ++
        (wakeSpec rest).1) ∧
      out.inp = (wakeSpec rest).2.1 ∧ out.ctl = (wakeSpec rest).2.2 ∧
      RelO out.env (enqT Cfg.real x f p now).1 ∧
      (∀ l, l ≠ .field dq "head" → l ≠ .field dq "last_fct_in" → l ≠ futexL → (∀ k, l ≠ slot dq k) →
        out.env.priv l = priv l) :=
  defer_rcu_enq fuel _ x f p tl now rest hr (by simp [bindParams, Gen.Src.«_defer_rcu.params»])
    (by simp [bindParams, Gen.Src.«_defer_rcu.params»]) hnf hi

/-- the `st` events of that run are exactly the stores `Ring.writeWords` performs (`slotStores`: word `k` of the entry to
slot `head + k`), then the new `head`, then – iff the futex word was loaded as `-1` – the reset of the futex -/
theorem _defer_rcu_stores (fuel : Nat) (priv : Loc → Option Val) (x : TState) (f p : BitVec 64) (tl now : Nat)
    (rest : List Val) (hr : RelO ⟨bindParams Gen.Src.«_defer_rcu.params» [wv f, wv p], priv⟩ x)
    (hnf : needFlush Cfg.real { x with tail := tl } = false) (hi : IntInp rest) :
    ∃ out, exec fuel Gen.Src.«_defer_rcu» ⟨bindParams Gen.Src.«_defer_rcu.params» [wv f, wv p], priv⟩
        (.int (tl : Int) :: rest) = .ok out ∧
      storesOf out.events = slotStores dq x.head (enqT Cfg.real x f p now).2 ++
        [(Loc.field dq "head", Val.int ((enqT Cfg.real x f p now).1.head : Int))] ++
        (if rest.head? = some (.int (-1)) then [(futexL, .int 0)] else []) :=
  defer_rcu_stores fuel _ x f p tl now rest hr (by simp [bindParams, Gen.Src.«_defer_rcu.params»])
    (by simp [bindParams, Gen.Src.«_defer_rcu.params»]) hnf hi

/-- preempted at its first shared access: no event (the empty prefix) -/
theorem _defer_rcu_blocked (fuel : Nat) (env : Env) (head : Val) (hh : env.priv (.field dq "head") = some head) :
    ∃ out, exec fuel Gen.Src.«_defer_rcu» env [] = .ok out ∧ out.events = [] ∧ out.ctl = .blocked :=
  defer_exec_nil head hh

/-- **`wake_up_defer()`**: exact events on every integer oracle – the relaxed load of `defer_thread_futex`; iff it is `-1`
the store of `0` and `futex_noasync(&defer_thread_futex, FUTEX_WAKE, 1, NULL, NULL, 0)` (negative result: `urcu_die(errno)`).
This is the waker run `k1 ; (k2Wake ; k3 | k2Skip)` of `Defer/ConcWake.lean`, after `k0` (= the store of `head`) and `kf` (= the
`cmm_smp_mb()`) of `_defer_rcu` above. -/
theorem wake_up_defer_refines (fuel : Nat) (env : Env) (inp : List Val) (hi : IntInp inp) :
    ∃ out, exec fuel Gen.Src.«wake_up_defer» env inp = .ok out ∧ out.events = (wakeSpec inp).1 ∧
      out.inp = (wakeSpec inp).2.1 ∧ out.ctl = (wakeSpec inp).2.2 ∧ out.env.priv = wakePriv env.priv inp := by
  obtain ⟨vars, h⟩ := wake_exec (fuel := fuel) (env := env) rfl hi
  exact ⟨_, h, rfl, rfl, rfl, rfl⟩

/-! ## (2) consumer -/

/-- **`rcu_defer_barrier_queue(queue, head)` ⊑ `Defer.runQ`** (= `Ring.runLoop` from `tail` to `head`).  For every budget,
every oracle of words and every private view of the runner related to the model's thread state `x` (`tail`,
`last_fct_out`; the runner holds `rcu_defer_mutex`): `exec` does not fail, and for every COMPLETED run whose slot loads
returned the content of the model's ring (`LoadsFrom base x.q`): the model's loop does not overrun (`runQ = some`), the
sequence of calls `(*fct)(p)` is exactly the model's decoded list – same functions, same arguments, same order –, the run
ends with `cmm_smp_mb()` and the store `tail := head`, which is its only store, and the private `tail` / `last_fct_out`
are the model's. -/
theorem rcu_defer_barrier_queue_refines (fuel : Nat) (priv : Loc → Option Val) (base : Loc) (x : TState) (H now : Nat)
    (inp : List Val)
    (hr : RelR ⟨bindParams Gen.Src.«rcu_defer_barrier_queue.params» [.ptr base, .int (H : Int)], priv⟩ base x)
    (hw : WordInp inp) :
    ∃ out, exec fuel Gen.Src.«rcu_defer_barrier_queue»
        ⟨bindParams Gen.Src.«rcu_defer_barrier_queue.params» [.ptr base, .int (H : Int)], priv⟩ inp = .ok out ∧
      (out.ctl = .normal → LoadsFrom base x.q out.events →
        ∃ x' calls, runQ Cfg.real x H now = some (x', calls) ∧
          callsOf out.events = calls.map callV ∧
          (∃ pre, out.events = pre ++ [.fence .mb, .st (.field base "tail") (.int (H : Int)) 0] ∧ storesOf pre = []) ∧
          RelR out.env base x' ∧ x'.tail = H ∧
          (∀ l, l ≠ .field base "last_fct_out" → l ≠ .field base "tail" → out.env.priv l = priv l)) :=
  barrier_queue_runQ fuel _ base x H now inp (by simp [bindParams, Gen.Src.«rcu_defer_barrier_queue.params»])
    (by simp [bindParams, Gen.Src.«rcu_defer_barrier_queue.params»]) hr hw

/-- the same for every prefix: the run (completed, blocked at an access, or out of budget) is the pure function `loopSpec`
of the oracle – per iteration `rmb`, one to three slot loads decoded by the tests of `Codec.dec1`, the call – -/
theorem rcu_defer_barrier_queue_events (fuel : Nat) (env : Env) (base : Loc) (T H : Nat) (lo : BitVec 64) (inp : List Val)
    (hq : env.vars "queue" = some (.ptr base)) (hH : env.vars "head" = some (.int (H : Int)))
    (hT : env.priv (.field base "tail") = some (.int (T : Int)))
    (hlo : env.priv (.field base "last_fct_out") = some (wv lo)) (hw : WordInp inp) :
    ∃ o, exec fuel Gen.Src.«rcu_defer_barrier_queue» env inp = .ok o ∧
      o.inp = (loopSpec base H fuel T lo inp []).inp ∧
      ((loopSpec base H fuel T lo inp []).ctl = .normal →
        o.events = (loopSpec base H fuel T lo inp []).events ++ [.fence .mb, .st (.field base "tail") (.int (H : Int)) 0] ∧
        o.ctl = .normal) ∧
      ((loopSpec base H fuel T lo inp []).ctl ≠ .normal →
        o.events = (loopSpec base H fuel T lo inp []).events ∧ o.ctl = (loopSpec base H fuel T lo inp []).ctl) := by
  obtain ⟨o, h1, h2, h3, h4⟩ := cons_exec fuel env base T H lo inp hq hH hT hlo hw
  exact ⟨o, h1, h2, fun hn => ⟨(h3 hn).1, (h3 hn).2.1⟩, h4⟩

/-- **prefixes**: every run – completed, blocked at any access, out of budget – whose slot loads so far returned the ring's
content has made a PREFIX of the calls `runQ` decodes, in order (whenever `runQ` does not overrun); only a completed run
stores `tail`. -/
theorem rcu_defer_barrier_queue_prefix (fuel : Nat) (env : Env) (base : Loc) (x : TState) (H now : Nat) (inp : List Val)
    (hq : env.vars "queue" = some (.ptr base)) (hH : env.vars "head" = some (.int (H : Int)))
    (hr : RelR env base x) (hw : WordInp inp) :
    ∃ out, exec fuel Gen.Src.«rcu_defer_barrier_queue» env inp = .ok out ∧
      (LoadsFrom base x.q out.events → ∀ x' calls, runQ Cfg.real x H now = some (x', calls) →
        ∃ k, callsOf out.events = (calls.take k).map callV) ∧
      (out.ctl ≠ .normal → storesOf out.events = []) :=
  barrier_queue_prefix fuel env base x H now inp hq hH hr hw

/-! ## (1') producer, full-queue path: `rcu_defer_barrier_thread()` inside `_defer_rcu` -/

/-- **`rcu_defer_barrier_thread()`** by the owner (private `head = H`, `tail = T`, `last_fct_out = lo`; it holds the mutex
between the two calls): the run is `flushSpec` – `mutex_lock_defer(&rcu_defer_mutex)`; nothing queued: `mutex_unlock`;
otherwise `synchronize_rcu()`, the loop of `rcu_defer_barrier_queue(&defer_queue, H)` (`loopSpec`), `mb`, `tail := H`,
`mutex_unlock` – for every budget and every oracle of words (prefixes included). -/
theorem rcu_defer_barrier_thread_refines (fuel : Nat) (env : Env) (H T : Nat) (lo : BitVec 64) (inp : List Val)
    (hh : env.priv (.field dq "head") = some (.int (H : Int))) (hT : env.priv (.field dq "tail") = some (.int (T : Int)))
    (hlo : env.priv (.field dq "last_fct_out") = some (wv lo)) (hw : WordInp inp) :
    ∃ o, exec fuel Gen.Src.«rcu_defer_barrier_thread» env inp = .ok o ∧
      o.events = (flushSpec fuel H T lo inp).events ∧ o.inp = (flushSpec fuel H T lo inp).inp ∧
      o.ctl = (flushSpec fuel H T lo inp).ctl ∧
      ((flushSpec fuel H T lo inp).ctl = .normal →
        o.env.priv (.field dq "tail") = some (.int (H : Int)) ∧
        o.env.priv (.field dq "last_fct_out") = some (wv (flushSpec fuel H T lo inp).lo) ∧
        ∀ l, l ≠ .field dq "last_fct_out" → l ≠ .field dq "tail" → o.env.priv l = env.priv l) := by
  obtain ⟨o, h, h1, h2, h3, h4⟩ := barrier_thread_exec (fuel := fuel) (env := env) (inp := inp) rfl H T lo hh hT hlo hw
  exact ⟨o, h, h1, h2, h3, fun hn => (h4 hn).2⟩

/-- a completed flush whose loads read the model's ring makes exactly the calls of `Defer.runQ x head` (the model's
`flushRun`), after `synchronize_rcu()` when something is queued -/
theorem rcu_defer_barrier_thread_model (fuel : Nat) (x : TState) (now : Nat) (inp : List Val)
    (hn : (flushSpec fuel x.head x.tail x.lastOut inp).ctl = .normal)
    (hl : LoadsFrom dq x.q (flushSpec fuel x.head x.tail x.lastOut inp).events) :
    ∃ x' calls, runQ Cfg.real x x.head now = some (x', calls) ∧
      callsOf (flushSpec fuel x.head x.tail x.lastOut inp).events = calls.map callV ∧
      x'.lastOut = (flushSpec fuel x.head x.tail x.lastOut inp).lo ∧ x'.tail = x.head ∧ x'.head = x.head ∧
      x'.lastIn = x.lastIn ∧ x'.q = x.q ∧
      (x.head ≠ x.tail → ∃ l s pre, (flushSpec fuel x.head x.tail x.lastOut inp).events = lockE l :: syncE s :: pre) :=
  flushSpec_model fuel x now inp hn hl

/-- **`_defer_rcu(fct, p)`, full-queue path ⊑ `Defer` model** (`enq` answers `full`; `flushSnapshot ; gp ; flushRun` of the
own queue; `enq`): see `DeferR.defer_rcu_full_model`.  Not covered: the run after a FAILED
`urcu_posix_assert(head - tail == 0)` (the re-load of `tail` returns something else than `head`: the IR then shows the call of
`abort`; the model's `no_abort` theorem excludes it). -/
theorem _defer_rcu_full_refines (fuel : Nat) (priv : Loc → Option Val) (x : TState) (f p : BitVec 64) (tl now : Nat)
    (rest : List Val) (hr : RelO ⟨bindParams Gen.Src.«_defer_rcu.params» [wv f, wv p], priv⟩ x)
    (hrr : RelR ⟨bindParams Gen.Src.«_defer_rcu.params» [wv f, wv p], priv⟩ dq x)
    (hfull : needFlush Cfg.real { x with tail := tl } = true) (hw : WordInp rest) :
    ∃ out, exec fuel Gen.Src.«_defer_rcu» ⟨bindParams Gen.Src.«_defer_rcu.params» [wv f, wv p], priv⟩
        (.int (tl : Int) :: rest) = .ok out ∧
      ((flushSpec fuel x.head x.tail x.lastOut rest).ctl ≠ .normal →
        out.events = .ld (.field dq "tail") (.int (tl : Int)) 0 :: (flushSpec fuel x.head x.tail x.lastOut rest).events ∧
        out.ctl = (flushSpec fuel x.head x.tail x.lastOut rest).ctl) ∧
      ((flushSpec fuel x.head x.tail x.lastOut rest).ctl = .normal →
        LoadsFrom dq x.q (flushSpec fuel x.head x.tail x.lastOut rest).events →
        ∃ x1 calls, runQ Cfg.real x x.head now = some (x1, calls) ∧
          callsOf (flushSpec fuel x.head x.tail x.lastOut rest).events = calls.map callV ∧
          ∀ r2, (flushSpec fuel x.head x.tail x.lastOut rest).inp = .int (x.head : Int) :: r2 →
            out.events = .ld (.field dq "tail") (.int (tl : Int)) 0 ::
              ((flushSpec fuel x.head x.tail x.lastOut rest).events ++
                .ld (.field dq "tail") (.int (x.head : Int)) 0 :: (stores dq x.head (enqT Cfg.real x1 f p now).2 ++
                [.fence .wmb, .st (.field dq "head") (.int ((enqT Cfg.real x1 f p now).1.head : Int)) 0, .fence .mb] ++
                (wakeSpec r2).1)) ∧
            out.inp = (wakeSpec r2).2.1 ∧ out.ctl = (wakeSpec r2).2.2 ∧
            RelO out.env (enqT Cfg.real x1 f p now).1 ∧ RelR out.env dq (enqT Cfg.real x1 f p now).1) :=
  defer_rcu_full_model fuel _ x f p tl now rest (by simp [bindParams, Gen.Src.«_defer_rcu.params»])
    (by simp [bindParams, Gen.Src.«_defer_rcu.params»]) hr hrr hfull hw

/-! ## (1'') producer as waker of the defer thread's futex (`Defer/ConcWake.lean`) -/

/-- **`_defer_rcu(f, p)` ⊑ waker `i`** (non-full path): with the futex component's abstraction of `wake_up_defer()`
(`Props/SrcFutex.wake_up_defer_refines`: `absEvK dfF "futex_noasync"`, contract `WakeRetOk` / `evOk`) extended by the caller's
two events – the store of `head` is L2's `k0`, the following `cmm_smp_mb()` is `kf`; the load of `tail`, the `q[]` stores and
`wmb` are silent (`absKD`) – the run is accepted by the owner's local automaton `Futex.Df.kstep` (projection of
`DeferWake.step`: `Futex.Df.projK_step` / `projK_enabled` / `projK_frame`) from pc `k0`, any register content:
`k0 ; kf ; k1 v ; (k2Wake ; k3 | k2Skip)`, back at `k0` when the call completes; blocked runs are prefixes. -/
theorem _defer_rcu_refines_waker (fuel : Nat) (priv : Loc → Option Val) (f p last : BitVec 64) (head : Nat) (tl : Int)
    (rest : List Val)
    (hh : priv (.field dq "head") = some (.int (head : Int)))
    (hl : priv (.field dq "last_fct_in") = some (wv last))
    (hnf : (head : Int) - tl < 4094) (hi : IntInp rest) (hr : Futex.WakeRetOk rest) :
    ∃ out, exec fuel Gen.Src.«_defer_rcu» ⟨bindParams Gen.Src.«_defer_rcu.params» [wv f, wv p], priv⟩
        (.int tl :: rest) = .ok out ∧
      (out.events.all (Futex.evOk Futex.dfF) = true → ∀ r0, ∃ ks' labs,
        Futex.labelsOf absKD out.events = some labs ∧ Futex.runA Futex.Df.kstep ⟨.k0, r0⟩ labs = some ks' ∧
        (out.ctl = .normal → ks'.kpc = .k0)) := by
  obtain ⟨out, h1, h2⟩ := defer_rcu_waker fuel ⟨bindParams Gen.Src.«_defer_rcu.params» [wv f, wv p], priv⟩ f p last head tl
    rest (by simp [bindParams, Gen.Src.«_defer_rcu.params»]) (by simp [bindParams, Gen.Src.«_defer_rcu.params»]) hh hl hnf hi hr
  refine ⟨out, h1, fun hok r0 => ?_⟩
  obtain ⟨ks', ha, hc⟩ := h2 hok r0
  obtain ⟨labs, l1, l2⟩ := (Futex.accept_iff _ _ _ _ _).1 ha
  exact ⟨ks', labs, l1, l2, hc⟩

/-! ## (3) round trip -/

/-- **consumer ∘ model invariant**: in every thread state satisfying the invariant `Defer.TInv` of the operation-level
model (proved of all its reachable states in `Defer/Inv.lean`; the ring was filled by `enqT`, i.e. by `_defer_rcu_refines`)
and for every snapshot `H` (`Defer.Snap`), a completed run of the generated consumer whose loads read the ring calls exactly
the queued, not yet invoked calls covered by the snapshot, in queueing order. -/
theorem defer_roundtrip_inv (fuel : Nat) (env : Env) (base : Loc) (x : TState) (H gs now : Nat) (inp : List Val)
    (hq : env.vars "queue" = some (.ptr base)) (hH : env.vars "head" = some (.int (H : Int)))
    (hr : RelR env base x) (hw : WordInp inp) (hinv : TInv Cfg.real x) (hs : Snap Cfg.real x H gs) :
    ∃ out, exec fuel Gen.Src.«rcu_defer_barrier_queue» env inp = .ok out ∧
      (out.ctl = .normal → LoadsFrom base x.q out.events →
        callsOf out.events = (x.pend.take (x.snapQ - x.invoked.length)).map callV) :=
  barrier_queue_roundtrip fuel env base x H gs now inp hq hH hr hw hinv hs

/-- **decode ∘ encode**: a ring holding `encode last_fct_out xs` from `tail` to `head` makes a completed run call exactly
`xs` -/
theorem defer_roundtrip_encode (fuel : Nat) (env : Env) (base : Loc) (x : TState) (now : Nat) (inp : List Val)
    (xs : List (BitVec 64 × BitVec 64))
    (hq : env.vars "queue" = some (.ptr base))
    (hH : env.vars "head" = some (.int ((x.tail + (encode x.lastOut xs).length : Nat) : Int)))
    (hr : RelR env base x) (hw : WordInp inp)
    (hring : ringWords Cfg.real x.q x.tail (encode x.lastOut xs).length = encode x.lastOut xs) :
    ∃ out, exec fuel Gen.Src.«rcu_defer_barrier_queue» env inp = .ok out ∧
      (out.ctl = .normal → LoadsFrom base x.q out.events → callsOf out.events = xs.map callV) :=
  barrier_queue_decodes fuel env base x now inp xs hq hH hr hw hring

/-- **consumer ∘ producer**: the ring after `_defer_rcu(f, p)` (`enqT`, whose stores the generated producer performs by
`_defer_rcu_refines`), run by the generated consumer from the old `head` to the new one with `last_fct_out` = the old
`last_fct_in`, calls exactly `f(p)` -/
theorem defer_roundtrip_one (fuel : Nat) (env : Env) (base : Loc) (x y : TState) (f p : BitVec 64) (now : Nat)
    (inp : List Val) (hxq : x.q.size = Cfg.real.size)
    (hyq : y.q = (enqT Cfg.real x f p now).1.q) (hyt : y.tail = x.head) (hyl : y.lastOut = x.lastIn)
    (hq : env.vars "queue" = some (.ptr base))
    (hH : env.vars "head" = some (.int ((enqT Cfg.real x f p now).1.head : Int)))
    (hr : RelR env base y) (hw : WordInp inp) :
    ∃ out, exec fuel Gen.Src.«rcu_defer_barrier_queue» env inp = .ok out ∧
      (out.ctl = .normal → LoadsFrom base y.q out.events → callsOf out.events = [callV (f, p)]) :=
  defer_then_barrier fuel env base x y f p now inp hxq hyq hyt hyl hq hH hr hw

/-! ## the events are label sequences of the thread-local projections of the concurrent model `Defer/ConcModel.lean` -/
section abs
open UrcuVerif.Src.DeferL

/-- **`_defer_rcu(f, p)` ⊑ owner automaton** (`DeferL.olstep`, the projection of `DeferConc.step` on the owner's labels
`oCall`/`oStQ`/`oStHead`/`oMb`, see `owner_proj`).  From pc `idle` with `wlen = head` and nothing pending (L2's state
between calls), non-full path: every run – complete or blocked inside `wake_up_defer()` – abstracts (`absO`: `wmb` and the
accesses of `wake_up_defer()` silent, any unexpected access rejected) to `call f p tl ; stQ … ; stHead ; mb`, accepted by the
local automaton with the same values; the local state is back at `idle` with the encoder's `head` / `last_fct_in`, and the
private view is related to it again (`RelOL`). -/
theorem _defer_rcu_refines_local (fuel : Nat) (priv : Loc → Option Val) (ls : OState) (f p : BitVec 64) (tl : Nat)
    (rest : List Val) (hr : RelOL ⟨bindParams Gen.Src.«_defer_rcu.params» [wv f, wv p], priv⟩ ls)
    (hpc : ls.opc = .idle) (hwl : ls.wlen = ls.head) (hpw : ls.pendW = [])
    (hnf : ¬ (4096 - 2 ≤ ls.head - tl)) (hi : IntInp rest) :
    ∃ out labs ls', exec fuel Gen.Src.«_defer_rcu» ⟨bindParams Gen.Src.«_defer_rcu.params» [wv f, wv p], priv⟩
        (.int (tl : Int) :: rest) = .ok out ∧
      absRunO f p 4096 ls out.events = some (labs, ls') ∧ olrun 4096 ls labs = some ls' ∧ RelOL out.env ls' ∧
      ls' = { ls with otl := tl, lastIn := (enc1 ls.lastIn f p).2, head := ls.head + (enc1 ls.lastIn f p).1.length,
                      wlen := ls.head + (enc1 ls.lastIn f p).1.length } ∧
      labs.length = (enc1 ls.lastIn f p).1.length + 3 := by
  obtain ⟨out, labs, ls', h1, h2, h3, h4, h5⟩ := defer_rcu_abs fuel _ ls f p tl rest hr hpc hwl hpw
    (by simp [bindParams, Gen.Src.«_defer_rcu.params»]) (by simp [bindParams, Gen.Src.«_defer_rcu.params»]) hnf hi
  exact ⟨out, labs, ls', h1, h2, absRunO_olrun f p 4096 _ _ _ _ h2, h3, h4, h5⟩

/-- **`rcu_defer_barrier_queue(queue t, H)` ⊑ runner automaton** (`DeferL.rlstep`, the projection of `DeferConc.step` on
`rBegin`/`rLd`/`rInvoke`/`rEnd`, see `runner_proj`).  For every budget and every oracle of words, every run – complete,
blocked at any access, out of budget – abstracts (`absR`: `rmb`/`mb` silent – L2 folds them into `rLd`/`rEnd` –, any
unexpected access rejected) to a label sequence `ld … ; invoke f p ; … ; fin H` accepted by the local automaton from the
state after `rBegin` with the same values (slot index, word loaded, function and argument called, `tail` stored); a
completed run ends at pc `run` with `ri = H`, and the private `last_fct_out` is the local state's. -/
theorem rcu_defer_barrier_queue_refines_local (fuel : Nat) (priv : Loc → Option Val) (base : Loc) (t T H : Nat)
    (lo : BitVec 64) (inp : List Val)
    (hT : priv (.field base "tail") = some (.int (T : Int)))
    (hlo : priv (.field base "last_fct_out") = some (wv lo)) (hw : WordInp inp) :
    ∃ out labs ls', exec fuel Gen.Src.«rcu_defer_barrier_queue»
        ⟨bindParams Gen.Src.«rcu_defer_barrier_queue.params» [.ptr base, .int (H : Int)], priv⟩ inp = .ok out ∧
      absRunR base (rstart t T H lo) out.events = some (labs, ls') ∧ rlrun (rstart t T H lo) labs = some ls' ∧
      (out.ctl = .normal → ls'.rpc = .run ∧ ls'.ri = H ∧ ls'.rit = .top ∧ ls'.cur = t ∧
        out.env.priv (.field base "last_fct_out") = some (wv ls'.lastOut) ∧
        out.env.priv (.field base "tail") = some (.int (H : Int))) := by
  obtain ⟨out, labs, ls', h1, h2, h3⟩ := barrier_queue_abs fuel
    ⟨bindParams Gen.Src.«rcu_defer_barrier_queue.params» [.ptr base, .int (H : Int)], priv⟩ base t T H lo inp
    (by simp [bindParams, Gen.Src.«rcu_defer_barrier_queue.params»])
    (by simp [bindParams, Gen.Src.«rcu_defer_barrier_queue.params»]) hT hlo hw
  exact ⟨out, labs, ls', h1, h2, absRunR_rlrun base _ _ _ _ h2, h3⟩

end abs

/-! ## non-vacuity -/
section examples

/-- a registered thread: `head = tail = 5`, last function `0x10` -/
def x0 : TState :=
  { head := 5, tail := 5, lastIn := 0x10#64, lastOut := 0x10#64, lastHead := 0, q := Array.replicate 4096 0#64,
    queuedR := [], invoked := [], snapQ := 0 }
def priv0 : Loc → Option Val := fun l =>
  if l = .field dq "head" then some (.int 5) else if l = .field dq "last_fct_in" then some (wv 0x10#64)
  else if l = .field dq "tail" then some (.int 5) else if l = .field dq "last_fct_out" then some (wv 0x10#64) else none

theorem enc_ex : enc1 0x10#64 0x20#64 0x3#64 = ([0x21#64, 0x3#64], 0x20#64) := by decide

/-- `defer_rcu(0x20, 0x3)` after calls of `0x10`: new function, argument with bit 0 set: two words `0x20|1`, `0x3` at slots
5, 6; `tail` read as 5, futex word read as 0: 7 events -/
example : ∃ out, exec 1 Gen.Src.«_defer_rcu» ⟨bindParams Gen.Src.«_defer_rcu.params» [wv 0x20#64, wv 0x3#64], priv0⟩
      [.int 5, .int 0] = .ok out ∧
    out.events = [.ld (.field dq "tail") (.int 5) 0, .st (slot dq 5) (wv 0x21#64) 0, .st (slot dq 6) (wv 0x3#64) 0,
      .fence .wmb, .st (.field dq "head") (.int 7) 0, .fence .mb, .ld futexL (.int 0) 0] ∧ out.ctl = .normal := by
  obtain ⟨out, h, he, -, hc, -⟩ := _defer_rcu_refines 1 priv0 x0 0x20#64 0x3#64 5 0 [.int 0]
    (by simp [RelO, priv0, x0]) (by decide) (by simp [IntInp])
  refine ⟨out, h, ?_, ?_⟩
  · rw [he]; simp [enqT, x0, enc_ex, stores, wakeSpec]
  · rw [hc]; simp [wakeSpec]

/-- the consumer on oracle `0x21, 0x3, (return of the call)` from `tail = 5` to `head = 7`: `rmb`, two slot loads, the call
`0x20(0x3)`, `mb`, `tail := 7`: 6 events -/
example : ∃ out, exec 2 Gen.Src.«rcu_defer_barrier_queue»
      ⟨bindParams Gen.Src.«rcu_defer_barrier_queue.params» [.ptr dq, .int 7], priv0⟩ [wv 0x21#64, wv 0x3#64, wv 0#64] = .ok out ∧
    out.events = [.fence .rmb, .ld (slot dq 5) (wv 0x21#64) 0, .ld (slot dq 6) (wv 0x3#64) 0,
      .ext "(*)" [wv 0x20#64, wv 0x3#64] (wv 0#64), .fence .mb, .st (.field dq "tail") (.int 7) 0] ∧
    callsOf out.events = [callV (0x20#64, 0x3#64)] ∧ out.ctl = .normal := by
  have h1 : isFct 0x21#64 = true := by decide
  have h2 : clrFct 0x21#64 = 0x20#64 := by decide
  obtain ⟨o, ho, -, h3, -⟩ := rcu_defer_barrier_queue_events 2
    ⟨bindParams Gen.Src.«rcu_defer_barrier_queue.params» [.ptr dq, .int 7], priv0⟩ dq 5 7 0x10#64 [wv 0x21#64, wv 0x3#64, wv 0#64]
    (by simp [bindParams, Gen.Src.«rcu_defer_barrier_queue.params»]) (by simp [bindParams, Gen.Src.«rcu_defer_barrier_queue.params»])
    (by simp [priv0]) (by simp [priv0]) (by intro v hv; simp at hv; rcases hv with rfl | rfl | rfl <;> exact ⟨_, rfl⟩)
  have hs : loopSpec dq 7 2 5 0x10#64 [wv 0x21#64, wv 0x3#64, wv 0#64] [] =
      ⟨[.fence .rmb, ldq dq 5 (wv 0x21#64), ldq dq 6 (wv 0x3#64), callEv 0x20#64 (wv 0x3#64) (wv 0#64)], 7, 0x20#64, [], .normal⟩ := by
    simp [loopSpec, iterSpec, h1, h2]
  rw [hs] at h3
  obtain ⟨e1, e2⟩ := h3 rfl
  refine ⟨o, ho, ?_, ?_, e2⟩
  · rw [e1]; simp [ldq, callEv]
  · rw [e1]; simp [ldq, callEv, callsOf, callV]

/-- the same two runs through the local automata: 5 owner labels, 4 runner labels -/
example : ∃ out labs ls', exec 1 Gen.Src.«_defer_rcu» ⟨bindParams Gen.Src.«_defer_rcu.params» [wv 0x20#64, wv 0x3#64], priv0⟩
      [.int 5, .int 0] = .ok out ∧
    absRunO 0x20#64 0x3#64 4096 ⟨.idle, 0, 0, [], 0, 0x10#64, 5, 5⟩ out.events = some (labs, ls') ∧ labs.length = 5 := by
  obtain ⟨out, labs, ls', h1, h2, -, -, -, h5⟩ := _defer_rcu_refines_local 1 priv0 ⟨.idle, 0, 0, [], 0, 0x10#64, 5, 5⟩
    0x20#64 0x3#64 5 [.int 0] (by simp [RelOL, priv0]) rfl rfl rfl (by decide) (by simp [IntInp])
  exact ⟨out, labs, ls', h1, h2, by rw [h5]; simp [enc_ex]⟩

example := rcu_defer_barrier_queue_refines_local 2 priv0 dq 0 5 7 0x10#64 [wv 0x21#64, wv 0x3#64, wv 0#64]
  (by simp [priv0]) (by simp [priv0]) (by intro v hv; simp at hv; rcases hv with rfl | rfl | rfl <;> exact ⟨_, rfl⟩)

example : DeferL.rlrun (rstart 0 5 7 0x10#64) [.ld 5 0x21#64, .ld 6 0x3#64, .invoke 0x20#64 0x3#64, .fin 7] =
    some ⟨.run, 0, 7, .top, 7, 0x20#64⟩ := by
  have h1 : isFct 0x21#64 = true := by decide
  have h2 : clrFct 0x21#64 = 0x20#64 := by decide
  simp [DeferL.rlrun, DeferL.rlstep, rstart, h1, h2]

/-- the waker view of the producer run above when the futex word is read as `-1`: `k0 ; kf ; k1 (-1) ; k2Wake ; k3` -/
example : ∃ out, exec 1 Gen.Src.«_defer_rcu» ⟨bindParams Gen.Src.«_defer_rcu.params» [wv 0x20#64, wv 0x3#64], priv0⟩
      [.int 5, .int (-1), .int 1] = .ok out ∧
    Futex.labelsOf absKD out.events = some [.k0, .kf, .k1 (-1), .k2Wake, .k3] := by
  obtain ⟨out, h, he, -⟩ := _defer_rcu_refines 1 priv0 x0 0x20#64 0x3#64 5 0 [.int (-1), .int 1]
    (by simp [RelO, priv0, x0]) (by decide) (by simp [IntInp])
  refine ⟨out, h, ?_⟩
  rw [he]
  simp [enqT, x0, enc_ex, stores, wakeSpec, Futex.labelsOf, absKD, Futex.absEvK, Futex.wakeArgs, wakeArgs, futexL, dq, slot,
    Futex.Df.gk2l]

example : Futex.runA Futex.Df.kstep ⟨.k0, 0⟩ [.k0, .kf, .k1 (-1), .k2Wake, .k3] = some ⟨.k0, -1⟩ := by decide

/-- the flush of a non-empty own queue (`tail = 5`, `head = 7`, words `0x21, 0x3`): lock, synchronize_rcu, rmb, 2 loads,
the call, mb, tail := 7, unlock: 9 events -/
example : (flushSpec 2 7 5 0x10#64 [wv 0#64, wv 0#64, wv 0x21#64, wv 0x3#64, wv 0#64, wv 0#64]).events.length = 9 ∧
    (flushSpec 2 7 5 0x10#64 [wv 0#64, wv 0#64, wv 0x21#64, wv 0x3#64, wv 0#64, wv 0#64]).ctl = .normal := by
  have h1 : isFct 0x21#64 = true := by decide
  simp [flushSpec, loopSpec, iterSpec, h1]

end examples

/-! ## thread-local projections of `Defer/ConcModel.lean`: projection / enabledness / frame lemmas -/
section local_
open UrcuVerif.DeferConc UrcuVerif.Src.DeferL

theorem owner_proj {c : DeferConc.Cfg} {s s' : DeferConc.State} {t : Nat} {l : Label} {ll : OLabel}
    (ho : obsO t s l = some ll) (st : DeferConc.step c s l = some s') :
    olstep c.size (oproj t s) ll = some (oproj t s') := DeferL.owner_proj ho st

theorem owner_enabled_iff {c : DeferConc.Cfg} {s : DeferConc.State} {t : Nat} {l : Label} {ll : OLabel}
    (ho : obsO t s l = some ll) :
    (DeferConc.step c s l).isSome ↔ ((olstep c.size (oproj t s) ll).isSome ∧ guardO t s ll) := DeferL.owner_enabled ho

theorem owner_frame {c : DeferConc.Cfg} {s s' : DeferConc.State} {t : Nat} {l : Label} (hl : isOwnerLabel t l = false)
    (h1 : l ≠ .rUnlock) (h2 : l ≠ .rSkip) (st : DeferConc.step c s l = some s') : oproj t s' = oproj t s :=
  DeferL.oproj_frame hl h1 h2 st

theorem owner_frame_unlock {c : DeferConc.Cfg} {s s' : DeferConc.State} {t : Nat} {l : Label}
    (hl : l = .rUnlock ∨ l = .rSkip) (st : DeferConc.step c s l = some s') :
    oproj t s' = if s.lock = some t ∧ s.opc t = .full then { oproj t s with opc := .flushed } else oproj t s :=
  DeferL.unlock_oproj hl st

theorem runner_proj {c : DeferConc.Cfg} (hc : c.tailLate = true) {s s' : DeferConc.State} {l : Label} {ll : RLabel}
    (ho : obsR c s l = some ll) (st : DeferConc.step c s l = some s') : rlstep (rproj s) ll = some (rproj s') :=
  DeferL.runner_proj hc ho st

theorem runner_enabled_iff {c : DeferConc.Cfg} (hc : c.tailLate = true) {s : DeferConc.State} {l : Label} {ll : RLabel}
    (ho : obsR c s l = some ll) : (DeferConc.step c s l).isSome ↔ ((rlstep (rproj s) ll).isSome ∧ guardR s ll) :=
  DeferL.runner_enabled hc ho

theorem runner_frame {c : DeferConc.Cfg} {s s' : DeferConc.State} {l : Label} (hl : isRFrame l = true)
    (st : DeferConc.step c s l = some s') : rproj s' = rproj s := DeferL.rproj_frame hl st

end local_

end UrcuVerif.Props.SrcDefer
