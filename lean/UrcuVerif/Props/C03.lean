import UrcuVerif.CallRcu.Inv
import UrcuVerif.CallRcu.InvB
import UrcuVerif.CallRcu.InvF
import UrcuVerif.CallRcu.InvD
import UrcuVerif.CallRcu.Wake
/-!
# C03 — call_rcu(): every callback runs exactly once, only after a full grace period

Statements only (models: `CallRcu/Model.lean`, `CallRcu/Wake.lean`; invariants: `CallRcu/Inv*.lean`,
`CallRcu/WakeInv.lean`).  Everything is about *every* reachable state of the model, i.e. for all
interleavings of any number of enqueuing threads, helper threads, readers, creators and destroyers
of helpers, all helper assignments and all futex outcomes.

Safety (`cb_at_most_once`, `cb_conserved`, `cb_after_gp`, `cb_same_head`, `cb_fifo_per_helper`,
`no_enqueue_to_freed_helper`) is proved on the sequentially consistent model: every store of the
call_rcu code that these properties depend on is a locked instruction (`xchg` of the queue tail,
`lock or/and` on the flags) or is made under `call_rcu_mutex`; the one plain store that is delayed by
the x86-TSO store buffer in this file, `futex := 0`, is modelled with its buffer in `CallRcu/Wake.lean`,
where the sleep/wake-up protocol is proved (`helper_no_lost_wakeup`, `helper_no_stuck`, measures).

"Exactly once" = `cb_at_most_once` + `cb_conserved` (a registered callback is never lost: it is in
exactly one place until it has run) + the liveness part (`helper_no_lost_wakeup`, `helper_progress`:
a queued callback's helper always has an enabled step or is legitimately waiting, and a bounded
number of its own steps leads to the invocation); "eventually" additionally needs a fair scheduler,
terminating callbacks and read-side sections that end (trusted base 5).
-/
namespace UrcuVerif.CallRcu

theorem inv_reach (c : Cfg) {s : State} (h : Reach c s) : InvA c s ∧ InvB c s ∧ InvF c s := by
  induction h with
  | init => exact ⟨invA_init c, invB_init c, invF_init c⟩
  | step _ st ih => exact ⟨inva_step c ih.1 st, invb_step c ih.1 ih.2.1 st, invf_step c ih.1 ih.2.2 st⟩

/-- **cb_at_most_once**: no callback is ever invoked twice; it has been invoked exactly when it is
running or has finished. -/
theorem cb_at_most_once (c : Cfg) {s : State} (h : Reach c s) (id : Nat) :
    s.invN id ≤ 1 ∧ (s.invN id = 1 ↔ ((∃ h, s.cur h = some id) ∨ s.fin id = true)) := by
  have A := (inv_reach c h).1
  have hc := A.inv_cnt id
  have hl := A.loc_ok id
  have h3 := A.c_loc
  unfold LocOk at hl
  constructor
  · rw [hc]; split <;> omega
  · rw [hc]
    cases hloc : s.loc id <;> grind [Loc.invoked]

/-- where a callback can be -/
inductive Place | pend (t : Nat) | queue (h : Nat) | batch (h : Nat) | running (h : Nat) | done
  deriving DecidableEq

/-- callback `id` is at place `p`: in flight inside the `call_rcu()` of thread `t` (not yet enqueued),
in the queue of helper `h`, in the batch `h` has spliced out, being executed by `h`, or finished -/
def At (s : State) (id : Nat) : Place → Prop
  | .pend t => (s.tpc t).pendId = some id
  | .queue h => id ∈ s.queue h
  | .batch h => id ∈ s.batch h
  | .running h => s.cur h = some id
  | .done => s.fin id = true

def Place.loc : Place → Loc
  | .pend t => .pend t | .queue h => .queue h | .batch h => .batch h | .running h => .run h | .done => .done

theorem at_loc (c : Cfg) {s : State} (A : InvA c s) (id : Nat) (q : Place) (hq : At s id q) :
    s.loc id = q.loc := by
  unfold Place.loc
  have ht := A.tpc_ok
  have h1 := A.q_loc; have h2 := A.b_loc; have h3 := A.c_loc
  have hl := A.loc_ok id
  unfold LocOk at hl
  cases q with
  | pend t =>
    have ht := ht t
    unfold TOk at ht
    simp only [At] at hq
    cases hp : s.tpc t <;> grind [TPc.pendId]
  | queue h => exact A.q_loc h id hq
  | batch h => exact A.b_loc h id hq
  | running h => exact A.c_loc h id hq
  | done => simp only [At] at hq; grind

/-- **cb_conserved**: every callback that has been passed to `call_rcu()` is in exactly one place –
in flight in its `call_rcu()`, in exactly one queue, in exactly one batch, running on exactly one
helper, or finished – at most once there; this holds across the helper's splice, across the splice
of a destroyed helper's leftovers onto the default helper, and across `call_rcu_data_free`. -/
theorem cb_conserved (c : Cfg) {s : State} (h : Reach c s) (id : Nat) (hr : s.reg id = true) :
    (∃ p, At s id p ∧ ∀ q, At s id q → q = p) ∧
    (∀ h, (s.queue h).count id ≤ 1) ∧ (∀ h, (s.batch h).count id ≤ 1) := by
  have A := (inv_reach c h).1
  have hl := A.loc_ok id
  unfold LocOk at hl
  refine ⟨?_, fun x => List.nodup_iff_count.mp (A.q_nodup x) id, fun x => List.nodup_iff_count.mp (A.b_nodup x) id⟩
  have key : ∀ q, At s id q → s.loc id = q.loc := at_loc c A id
  cases hloc : s.loc id with
  | none => grind
  | pend t => exact ⟨.pend t, by simp only [At]; grind, fun q hq => by have := key q hq; cases q <;> grind [Place.loc]⟩
  | queue x => exact ⟨.queue x, by simp only [At]; grind, fun q hq => by have := key q hq; cases q <;> grind [Place.loc]⟩
  | batch x => exact ⟨.batch x, by simp only [At]; grind, fun q hq => by have := key q hq; cases q <;> grind [Place.loc]⟩
  | run x => exact ⟨.running x, by simp only [At]; grind, fun q hq => by have := key q hq; cases q <;> grind [Place.loc]⟩
  | done => exact ⟨.done, by simp only [At]; grind, fun q hq => by have := key q hq; cases q <;> grind [Place.loc]⟩

/-- a callback that was never passed to `call_rcu()` is nowhere (helpers only run registered callbacks) -/
theorem cb_unregistered_nowhere (c : Cfg) {s : State} (h : Reach c s) (id : Nat) (hr : s.reg id = false) (p : Place) :
    ¬ At s id p := by
  have A := (inv_reach c h).1
  have hl := A.loc_ok id
  unfold LocOk at hl
  intro hp
  have := at_loc c A id p hp
  cases p <;> grind [Place.loc]

/-- **cb_after_gp**: while helper `h` executes callback `id`, the grace period the helper ran
(`synchronize_rcu()` = `GpSpec`) started after the callback's enqueue (`enqT id < hgp h`) and has
returned: every read-side section that is open began at or after its start.  Hence every section that
had begun before the `call_rcu()` (which precedes the enqueue) has ended. -/
theorem cb_after_gp (c : Cfg) {s : State} (h : Reach c s) (x id : Nat) (hc : s.cur x = some id) :
    s.enqT id < s.hgp x ∧ (∀ t, 0 < s.nest t → s.hgp x ≤ s.cs t) ∧ (∀ t, 0 < s.nest t → s.enqT id < s.cs t) := by
  obtain ⟨A, B, -⟩ := inv_reach c h
  have hl := A.c_loc x id hc
  have hr : s.hpc x = .run := (A.cur_run x).mp (by simp [hc])
  have h1 := B.batch_enq x id (Or.inr hl)
  have h2 := fun t => B.gp_done x t (Or.inr hr)
  exact ⟨h1, h2, fun t ht => Nat.lt_of_lt_of_le h1 (h2 t ht)⟩

/-- the same for the callbacks the helper is about to run: nothing of a batch is invoked before
`synchronize_rcu()` has returned (pc `inv`/`run` only after `hGpEnd`) -/
theorem batch_after_enqueue (c : Cfg) {s : State} (h : Reach c s) (x id : Nat) (hb : id ∈ s.batch x) :
    s.enqT id < s.hgp x ∧ (s.hpc x = .gp ∨ s.hpc x = .inv ∨ s.hpc x = .run) := by
  obtain ⟨A, B, -⟩ := inv_reach c h
  exact ⟨B.batch_enq x id (Or.inl (A.b_loc x id hb)), A.batch_pc x (by intro h0; simp [h0] at hb)⟩

/-- **cb_same_head**: the callback a helper invokes is one that was registered with `call_rcu()`
(identity of the `rcu_head`), has been appended to this helper's queue, and is being invoked for the
first time. -/
theorem cb_same_head (c : Cfg) {s : State} (h : Reach c s) (x id : Nat) (hc : s.cur x = some id) :
    s.reg id = true ∧ s.invN id = 1 ∧ s.fin id = false := by
  have A := (inv_reach c h).1
  have hl := A.c_loc x id hc
  have ho := A.loc_ok id
  unfold LocOk at ho
  have hi := A.inv_cnt id
  grind [Loc.invoked]

/-- **cb_fifo_per_helper**: a helper invokes the callbacks appended to its queue in the order they were
appended (by `call_rcu`, by `rcu_barrier`, or by the splice of a destroyed helper's leftovers): what it
has invoked so far, followed by its batch and its queue, is exactly the append log. -/
theorem cb_fifo_per_helper (c : Cfg) {s : State} (h : Reach c s) (x : Nat) (hr : s.retired x = false) :
    s.invLog x ++ s.batch x ++ s.queue x = s.enqLog x := by
  have F := (inv_reach c h).2.2
  simpa [List.append_assoc] using F.fifo x hr

end UrcuVerif.CallRcu
