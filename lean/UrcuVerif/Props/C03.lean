import UrcuVerif.CallRcu.Inv
import UrcuVerif.CallRcu.InvB
import UrcuVerif.CallRcu.InvF
import UrcuVerif.CallRcu.InvD
import UrcuVerif.CallRcu.InvE
import UrcuVerif.CallRcu.InvL
import UrcuVerif.CallRcu.Destroy
import UrcuVerif.CallRcu.InvW
import UrcuVerif.CallRcu.WakeInv
/-!
# C03 — call_rcu(): every callback runs exactly once, only after a full grace period

Statements only (models: `CallRcu/Model.lean`, `CallRcu/Wake.lean`; invariants: `CallRcu/Inv.lean` (placement),
`InvB` (timing), `InvF` (order), `InvD` + `InvE` + `InvL` (destruction), `InvW` (sleep / wake-up), `WakeInv.lean`).  Everything is about *every* reachable state of the model, i.e. for all
interleavings of any number of enqueuing threads, helper threads, readers, creators and destroyers
of helpers, all helper assignments and all futex outcomes.

Safety (`cb_at_most_once`, `cb_conserved`, `cb_after_gp`, `cb_same_head`, `cb_fifo_per_helper`,
`no_enqueue_to_freed_helper`) is proved on the sequentially consistent model: every store of the
call_rcu code that these properties depend on is a locked instruction (`xchg` of the queue tail,
`lock or/and` on the flags) or is made under `call_rcu_mutex`; the one plain store that is delayed by
the x86-TSO store buffer in this file, `futex := 0`, takes effect at a step of its own (`stFutex`) that may be
delayed up to the `FUTEX_WAKE` system call – exactly its TSO behaviours, the waker makes no access in between –
and is modelled with an explicit store buffer in the stand-alone `CallRcu/Wake.lean`; the sleep/wake-up
protocol is proved on both (`helper_no_lost_wakeup`, `tso_no_lost_wakeup`, `helper_no_stuck`, measures).

"Exactly once" = `cb_at_most_once` + `cb_conserved` (a registered callback is never lost: it is in
exactly one place until it has run) + the liveness part (`helper_no_lost_wakeup`, `waker_not_stuck`,
`waker_measure`, `helper_no_stuck`, `helper_measure`: a queued callback's helper always has an enabled step or is
legitimately waiting, and a bounded number of its own steps leads to the invocation; `C03_full` unproved); "eventually" additionally needs a fair scheduler,
terminating callbacks and read-side sections that end (trusted base 5).
-/
namespace UrcuVerif.CallRcu

theorem inv_reach (c : Cfg) {s : State} (h : Reach c s) : InvA c s ∧ InvB c s ∧ InvF c s := by
  induction h with
  | init => exact ⟨invA_init c, invB_init c, invF_init c⟩
  | step _ st ih => exact ⟨inva_step c ih.1 st, invb_step c ih.1 ih.2.1 st, invf_step c ih.1 ih.2.2 st⟩

theorem inv_reach_d (c : Cfg) {s : State} (h : Reach c s) :
    InvA c s ∧ InvB c s ∧ InvD c s ∧ InvE c s ∧ InvL c s ∧ InvW c s := by
  induction h with
  | init => exact ⟨invA_init c, invB_init c, invD_init c, invE_init c, invL_init c, invW_init c⟩
  | step _ st ih =>
    obtain ⟨a, b, d, e, l, w⟩ := ih
    exact ⟨inva_step c a st, invb_step c a b st, invd_step c a d st, inve_step c a b d e st, invl_step c a d l st,
      invw_step c a d w st⟩

/-- **cb_at_most_once**: no callback is ever invoked twice; it has been invoked exactly when it is
running or has finished. -/
theorem cb_at_most_once (c : Cfg) {s : State} (h : Reach c s) (id : Nat) :
    s.invN id ≤ 1 ∧ (s.invN id = 1 ↔ ((∃ h, s.cur h = some id) ∨ s.fin id = true)) := by
  have A := (inv_reach c h).1
  have hc := A.inv_cnt id
  have hl := A.loc_ok id
  have h3 := A.c_loc
  unfold LocOk at hl
  constructor
  · rw [hc]; split <;> omega
  · rw [hc]
    cases hloc : s.loc id <;> grind [Loc.invoked]

/-- where a callback can be -/
inductive Place | pend (t : Nat) | queue (h : Nat) | batch (h : Nat) | running (h : Nat) | done
  deriving DecidableEq

/-- callback `id` is at place `p`: in flight inside the `call_rcu()` of thread `t` (not yet enqueued),
in the queue of helper `h`, in the batch `h` has spliced out, being executed by `h`, or finished -/
def At (s : State) (id : Nat) : Place → Prop
  | .pend t => (s.tpc t).pendId = some id
  | .queue h => id ∈ s.queue h
  | .batch h => id ∈ s.batch h
  | .running h => s.cur h = some id
  | .done => s.fin id = true

def Place.loc : Place → Loc
  | .pend t => .pend t | .queue h => .queue h | .batch h => .batch h | .running h => .run h | .done => .done

theorem at_loc (c : Cfg) {s : State} (A : InvA c s) (id : Nat) (q : Place) (hq : At s id q) :
    s.loc id = q.loc := by
  unfold Place.loc
  have ht := A.tpc_ok
  have h1 := A.q_loc; have h2 := A.b_loc; have h3 := A.c_loc
  have hl := A.loc_ok id
  unfold LocOk at hl
  cases q with
  | pend t =>
    have ht := ht t
    unfold TOk at ht
    simp only [At] at hq
    cases hp : s.tpc t <;> grind [TPc.pendId]
  | queue h => exact A.q_loc h id hq
  | batch h => exact A.b_loc h id hq
  | running h => exact A.c_loc h id hq
  | done => simp only [At] at hq; grind

/-- **cb_conserved**: every callback that has been passed to `call_rcu()` is in exactly one place –
in flight in its `call_rcu()`, in exactly one queue, in exactly one batch, running on exactly one
helper, or finished – at most once there; this holds across the helper's splice, across the splice
of a destroyed helper's leftovers onto the default helper, and across `call_rcu_data_free`. -/
theorem cb_conserved (c : Cfg) {s : State} (h : Reach c s) (id : Nat) (hr : s.reg id = true) :
    (∃ p, At s id p ∧ ∀ q, At s id q → q = p) ∧
    (∀ h, (s.queue h).count id ≤ 1) ∧ (∀ h, (s.batch h).count id ≤ 1) := by
  have A := (inv_reach c h).1
  have hl := A.loc_ok id
  unfold LocOk at hl
  refine ⟨?_, fun x => List.nodup_iff_count.mp (A.q_nodup x) id, fun x => List.nodup_iff_count.mp (A.b_nodup x) id⟩
  have key : ∀ q, At s id q → s.loc id = q.loc := at_loc c A id
  cases hloc : s.loc id with
  | none => grind
  | pend t => exact ⟨.pend t, by simp only [At]; grind, fun q hq => by have := key q hq; cases q <;> grind [Place.loc]⟩
  | queue x => exact ⟨.queue x, by simp only [At]; grind, fun q hq => by have := key q hq; cases q <;> grind [Place.loc]⟩
  | batch x => exact ⟨.batch x, by simp only [At]; grind, fun q hq => by have := key q hq; cases q <;> grind [Place.loc]⟩
  | run x => exact ⟨.running x, by simp only [At]; grind, fun q hq => by have := key q hq; cases q <;> grind [Place.loc]⟩
  | done => exact ⟨.done, by simp only [At]; grind, fun q hq => by have := key q hq; cases q <;> grind [Place.loc]⟩

/-- a callback that was never passed to `call_rcu()` is nowhere (helpers only run registered callbacks) -/
theorem cb_unregistered_nowhere (c : Cfg) {s : State} (h : Reach c s) (id : Nat) (hr : s.reg id = false) (p : Place) :
    ¬ At s id p := by
  have A := (inv_reach c h).1
  have hl := A.loc_ok id
  unfold LocOk at hl
  intro hp
  have := at_loc c A id p hp
  cases p <;> grind [Place.loc]

/-- **cb_after_gp**: while helper `h` executes callback `id`, the grace period the helper ran
(`synchronize_rcu()` = `GpSpec`) started after the callback's enqueue (`enqT id < hgp h`) and has
returned: every read-side section that is open began at or after its start.  Hence every section that
had begun before the `call_rcu()` (which precedes the enqueue) has ended. -/
theorem cb_after_gp (c : Cfg) {s : State} (h : Reach c s) (x id : Nat) (hc : s.cur x = some id) :
    s.enqT id < s.hgp x ∧ (∀ t, 0 < s.nest t → s.hgp x ≤ s.cs t) ∧ (∀ t, 0 < s.nest t → s.enqT id < s.cs t) := by
  obtain ⟨A, B, -⟩ := inv_reach c h
  have hl := A.c_loc x id hc
  have hr : s.hpc x = .run := (A.cur_run x).mp (by simp [hc])
  have h1 := B.batch_enq x id (Or.inr hl)
  have h2 := fun t => B.gp_done x t (Or.inr hr)
  exact ⟨h1, h2, fun t ht => Nat.lt_of_lt_of_le h1 (h2 t ht)⟩

/-- the same for the callbacks the helper is about to run: nothing of a batch is invoked before
`synchronize_rcu()` has returned (pc `inv`/`run` only after `hGpEnd`) -/
theorem batch_after_enqueue (c : Cfg) {s : State} (h : Reach c s) (x id : Nat) (hb : id ∈ s.batch x) :
    s.enqT id < s.hgp x ∧ (s.hpc x = .gp ∨ s.hpc x = .inv ∨ s.hpc x = .run) := by
  obtain ⟨A, B, -⟩ := inv_reach c h
  exact ⟨B.batch_enq x id (Or.inl (A.b_loc x id hb)), A.batch_pc x (by intro h0; simp [h0] at hb)⟩

/-- **cb_same_head**: the callback a helper invokes is one that was registered with `call_rcu()`
(identity of the `rcu_head`), has been appended to this helper's queue, and is being invoked for the
first time. -/
theorem cb_same_head (c : Cfg) {s : State} (h : Reach c s) (x id : Nat) (hc : s.cur x = some id) :
    s.reg id = true ∧ s.invN id = 1 ∧ s.fin id = false := by
  have A := (inv_reach c h).1
  have hl := A.c_loc x id hc
  have ho := A.loc_ok id
  unfold LocOk at ho
  have hi := A.inv_cnt id
  grind [Loc.invoked]

/-- **cb_fifo_per_helper**: a helper invokes the callbacks appended to its queue in the order they were
appended (by `call_rcu`, by `rcu_barrier`, or by the splice of a destroyed helper's leftovers): what it
has invoked so far, followed by its batch and its queue, is exactly the append log. -/
theorem cb_fifo_per_helper (c : Cfg) {s : State} (h : Reach c s) (x : Nat) (hr : s.retired x = false) :
    s.invLog x ++ s.batch x ++ s.queue x = s.enqLog x := by
  have F := (inv_reach c h).2.2
  simpa [List.append_assoc] using F.fifo x hr

/-- **no_enqueue_to_freed_helper** (hand-over on destroy): whenever a thread is inside `_call_rcu()` /
`wake_call_rcu_thread()` on helper `x` – i.e. is about to exchange `x`'s queue tail or accesses `x`'s `qlen`,
`flags`, `futex`, be it from `call_rcu()`, `rcu_barrier()` or `call_rcu_data_free()` – the structure has not
been freed, `x` is still in `call_rcu_data_list` and `call_rcu_data_free(x)` has not yet dealt with `x`'s
leftovers (`retired x = false`): whatever is enqueued will be run by `x` or handed over to the default helper
(`cb_conserved`, `leftovers_handed_over`), never dropped.  Uses the read-side section `call_rcu()` holds across
the selection and the enqueue, and the caller obligations `FreeObl` (the documented contract of
`call_rcu_data_free`: removed from per-thread use; removed from the per-CPU array and a grace period since). -/
theorem no_enqueue_to_freed_helper (c : Cfg) {s : State} (h : Reach c s) (t x : Nat) (k : K)
    (ht : (s.tpc t).tgt = some (x, k)) :
    s.freed x = false ∧ s.retired x = false ∧ x < s.nextH ∧ x ∈ s.list :=
  tgt_live c h t x k ht

/-- **leftovers_handed_over**: once `call_rcu_data_free(x)` has dealt with `x`'s leftovers (queue found empty
under the mutex, or spliced onto the default helper), `x` holds no callback and never will again; every helper
that holds a callback is in `call_rcu_data_list` (so `rcu_barrier()` reaches it). -/
theorem leftovers_handed_over (c : Cfg) {s : State} (h : Reach c s) (x : Nat) :
    (s.retired x = true → s.queue x = [] ∧ s.batch x = [] ∧ s.cur x = none) ∧
    (s.queue x ≠ [] ∨ s.batch x ≠ [] ∨ s.cur x ≠ none → x ∈ s.list) :=
  ⟨retired_empty c h x, holder_listed c h x⟩

/-- **free_protocol**: a helper is destroyed by at most one thread at a time; its structure is freed only
after its thread has set STOPPED (and is dead: the store of STOPPED is its last access), after the
leftovers were dealt with, and after it has left `call_rcu_data_list`; its queue is then empty for ever
(nothing is lost with the structure). -/
theorem free_protocol (c : Cfg) {s : State} (h : Reach c s) (x : Nat) (hf : s.freed x = true) :
    s.retired x = true ∧ s.stopped x = true ∧ s.hpc x = .dead ∧ x ∉ s.list ∧
    (∀ t1 t2 g1 g2, (s.tpc t1).freeing = some (x, g1) → (s.tpc t2).freeing = some (x, g2) → t1 = t2) := by
  obtain ⟨-, -, D, -, -, -⟩ := inv_reach_d c h
  have h1 := D.freed_red x hf
  have h2 := D.red_ring x h1.1
  exact ⟨h1.1, h2.2, D.stopped_dead x h2.2, h1.2, fun t1 t2 g1 g2 => D.f_uniq t1 t2 x g1 g2⟩

/-- **helper_futex_range**: `crdp->futex ∈ {0, -1}`; the helper decrements it only from 0; an RT (polling)
helper never touches it. -/
theorem helper_futex_range (c : Cfg) {s : State} (h : Reach c s) (x : Nat) :
    (s.futex x = 0 ∨ s.futex x = -1) ∧ (s.hpc x = .dec0 ∨ s.hpc x = .dec → s.futex x = 0) ∧
    (s.rt x = true → s.futex x = 0) := by
  obtain ⟨-, -, -, -, -, W⟩ := inv_reach_d c h
  refine ⟨W.w_range x, ?_, fun hr => (W.w_rt x hr).1⟩
  rintro (h0 | h0) <;> exact W.w_zero x (by rw [h0]; rfl)

/-- **helper_no_lost_wakeup** (every interleaving of any number of enqueuers, barriers, destroyers and
helpers; every placement of spurious / EINTR / EAGAIN returns of `FUTEX_WAIT`; the `futex := 0` store of a
waker delayed arbitrarily up to its `FUTEX_WAKE`): whenever a helper sleeps in `FUTEX_WAIT` although its
queue is non-empty or STOP has been requested, some thread is still going to wake it: it is on the wake path
and has not yet tested the futex with a stale value (it will read -1, reset the futex and call
`FUTEX_WAKE`), or its `futex := 0` is done and its `FUTEX_WAKE` is still to come. -/
theorem helper_no_lost_wakeup (c : Cfg) {s : State} (h : Reach c s) (x : Nat) (hs : s.hpc x = .asleep)
    (hw : s.queue x ≠ [] ∨ s.stop x = true) :
    ∃ t, willWake s t x ∨ (s.tpc t).waking = some x := by
  obtain ⟨-, -, -, -, -, W⟩ := inv_reach_d c h
  rcases W.w_range x with h0 | h1
  · obtain ⟨t, ht⟩ := W.w_0 x hs h0
    exact ⟨t, Or.inr ht⟩
  · obtain ⟨t, ht⟩ := W.w_m1 x (by rw [hs]; rfl) h1 (by
      rcases hw with hq | hst
      · exact Or.inr ⟨by rw [hs]; decide, hq⟩
      · exact Or.inl hst)
    exact ⟨t, Or.inl ht⟩

/-- a thread on the wake path always has an enabled step of its own (it never waits for anybody) -/
theorem waker_not_stuck (c : Cfg) {s : State} (t x : Nat) (hk : willWake s t x ∨ (s.tpc t).waking = some x) :
    ∃ l, l ∈ [Label.inc t, .ldFlags t, .ldFutex t, .stFutex t, .wake t, .fAddQ t] ∧ (step c s l).isSome = true := by
  cases hp : s.tpc t <;> simp only [willWake, hp, TPc.waker, TPc.waking, TPc.isAddQ] at hk <;>
    simp at hk
  case inc h k => exact ⟨.inc t, by simp, by simp [step, hp]⟩
  case ldFlags h k => exact ⟨.ldFlags t, by simp, by simp [step, hp]⟩
  case ldFutex h k => exact ⟨.ldFutex t, by simp, by simp [step, hp]⟩
  case stFutex h k => exact ⟨.stFutex t, by simp, by simp [step, hp]⟩
  case wake h k => exact ⟨.wake t, by simp, by simp [step, hp]⟩
  case fAddQ h => exact ⟨.fAddQ t, by simp, by simp [step, hp, hk]⟩

/-- own-step measure of the wake path: at most 5 steps from the enqueue / splice to `FUTEX_WAKE` -/
def wakeRank : TPc → Nat
  | .fAddQ _ => 6 | .inc _ _ => 5 | .ldFlags _ _ => 4 | .ldFutex _ _ => 3 | .stFutex _ _ => 2 | .wake _ _ => 1
  | _ => 0

theorem wakeRank_cont (k : K) (h : Nat) : wakeRank (k.cont h) = 0 := by cases k <;> rfl

/-- **waker_measure**: every own step of a thread on the wake path strictly decreases its rank -/
theorem waker_measure (c : Cfg) {s s' : State} (t : Nat) {l : Label}
    (hl : l ∈ [Label.inc t, .ldFlags t, .ldFutex t, .stFutex t, .wake t, .fAddQ t])
    (st : step c s l = some s') : wakeRank (s'.tpc t) < wakeRank (s.tpc t) := by
  simp only [List.mem_cons, List.mem_nil_iff, or_false] at hl
  rcases hl with rfl | rfl | rfl | rfl | rfl | rfl <;> simp only [step] at st <;>
    (repeat' split at st) <;> simp only [Option.some.injEq, reduceCtorEq] at st <;> subst st <;>
    simp only [upd, ↓reduceIte, *] <;> (try split) <;> (try simp only [wakeRank_cont]) <;> simp [wakeRank]

/-- the wake-up reaches the sleeping helper, and a waker that tests the futex of a sleeping helper reads -1 -/
theorem wake_wakes (c : Cfg) {s s' : State} (t x : Nat) (k : K) (hp : s.tpc t = .wake x k) (hs : s.hpc x = .asleep)
    (st : step c s (.wake t) = some s') : s'.hpc x = .waitLd := by
  simp only [step, hp] at st
  simp only [Option.some.injEq] at st; subst st; simp [hs, upd]

/-- labels of helper `x`'s own thread (`call_rcu_thread`) -/
def helperLabel (x : Nat) : Label → Bool
  | .hStart y | .hDec0 y | .hTop y | .hPause y | .hUnpause y | .hSplice y | .hGpEnd y | .hRunBegin y _ | .hRunEnd y
  | .hInvDone y | .hSub y | .hStopChk y | .hEmptyChk y | .hWaitLd y | .hWaitFx y _ | .hPollW y | .hDec y | .hPollN y
  | .hExitSt y | .hExitOr y => y == x
  | _ => false

/-- **helper_no_stuck**: a helper thread that exists and has not exited always has an enabled step of its own,
except where it legitimately waits for somebody else: for the readers (`gp`: `synchronize_rcu()`, C02), for the
callback it runs (`run`), for the fork handler (`paused`), or asleep in `FUTEX_WAIT` (`helper_no_lost_wakeup`).
It never takes `call_rcu_mutex`, so it cannot deadlock with creators, destroyers or barriers. -/
theorem helper_no_stuck (c : Cfg) (s : State) (x : Nat)
    (hp : s.hpc x ≠ .none ∧ s.hpc x ≠ .dead ∧ s.hpc x ≠ .gp ∧ s.hpc x ≠ .run ∧ s.hpc x ≠ .paused ∧ s.hpc x ≠ .asleep) :
    ∃ l, helperLabel x l = true ∧ (step c s l).isSome = true := by
  obtain ⟨h1, h2, h3, h4, h5, h6⟩ := hp
  cases hpc : s.hpc x with
  | none => exact absurd hpc h1
  | dead => exact absurd hpc h2
  | gp => exact absurd hpc h3
  | run => exact absurd hpc h4
  | paused => exact absurd hpc h5
  | asleep => exact absurd hpc h6
  | start => exact ⟨.hStart x, by simp [helperLabel], by simp [step, hpc]⟩
  | dec0 => exact ⟨.hDec0 x, by simp [helperLabel], by simp [step, hpc]⟩
  | top => exact ⟨.hTop x, by simp [helperLabel], by simp [step, hpc]⟩
  | pausing => exact ⟨.hPause x, by simp [helperLabel], by simp [step, hpc]⟩
  | splice => exact ⟨.hSplice x, by simp [helperLabel], by simp [step, hpc]; split <;> simp⟩
  | inv =>
    cases hb : s.batch x with
    | nil => exact ⟨.hInvDone x, by simp [helperLabel], by simp [step, hpc, hb]⟩
    | cons cb r => exact ⟨.hRunBegin x cb, by simp [helperLabel], by simp [step, hpc, hb]⟩
  | sub => exact ⟨.hSub x, by simp [helperLabel], by simp [step, hpc]⟩
  | stopchk => exact ⟨.hStopChk x, by simp [helperLabel], by simp [step, hpc]⟩
  | emptychk => exact ⟨.hEmptyChk x, by simp [helperLabel], by simp [step, hpc]⟩
  | waitLd => exact ⟨.hWaitLd x, by simp [helperLabel], by simp [step, hpc]⟩
  | waitFx =>
    by_cases hf : s.futex x = -1
    · exact ⟨.hWaitFx x .sleep, by simp [helperLabel], by simp [step, hpc, hf]⟩
    · exact ⟨.hWaitFx x .eagain, by simp [helperLabel], by simp [step, hpc, hf]⟩
  | pollW => exact ⟨.hPollW x, by simp [helperLabel], by simp [step, hpc]⟩
  | dec => exact ⟨.hDec x, by simp [helperLabel], by simp [step, hpc]⟩
  | pollN => exact ⟨.hPollN x, by simp [helperLabel], by simp [step, hpc]⟩
  | exitSt => exact ⟨.hExitSt x, by simp [helperLabel], by simp [step, hpc]⟩
  | exitOr => exact ⟨.hExitOr x, by simp [helperLabel], by simp [step, hpc]⟩

/-- position of a helper program point in one iteration of the loop of `call_rcu_thread` -/
def hRank : HPc → Nat
  | .start => 20 | .dec0 => 19 | .top => 18 | .pausing => 17 | .paused => 16 | .splice => 15 | .gp => 14 | .inv => 13
  | .run => 13 | .sub => 12 | .stopchk => 11 | .emptychk => 10 | .waitLd => 9 | .waitFx => 8 | .asleep => 7 | .pollW => 6
  | .dec => 5 | .pollN => 5 | .exitSt => 4 | .exitOr => 3 | .dead => 0 | .none => 0

theorem length_tail_of_head? {l : List Nat} {a : Nat} (h : l.head? = some a) : l.tail.length + 1 = l.length := by
  cases l <;> simp_all

/-- own-step measure of helper `x`: position in the iteration, callbacks still to invoke -/
def hMeasure (s : State) (x : Nat) : Nat :=
  3 * hRank (s.hpc x) + 2 * ((s.batch x).length + (s.queue x).length) + (if (s.cur x).isSome then 1 else 0)

/-- **helper_measure**: every own step of a helper strictly decreases `hMeasure`, except the two loop-back
steps to the top of the loop (a new iteration, whose second step splices the queue) and the returns of
`FUTEX_WAIT` to the futex re-check (`waitLd`; spurious / EINTR returns are environment choices).  Hence an
iteration never stutters: from the top of the loop a non-paused helper splices a non-empty queue after 2 own
steps and invokes its `n` callbacks within `3 + 2 n` further own steps once the grace period has ended. -/
theorem helper_measure (c : Cfg) {s s' : State} (x : Nat) {l : Label} (hl : helperLabel x l = true)
    (st : step c s l = some s') :
    hMeasure s' x < hMeasure s x ∨ s'.hpc x = .top ∨ s'.hpc x = .waitLd := by
  cases l <;> simp only [helperLabel, beq_iff_eq, Bool.false_eq_true] at hl <;> subst hl <;>
    simp only [step] at st <;> (repeat' split at st) <;>
    simp only [Option.some.injEq, reduceCtorEq] at st <;> subst st <;>
    simp only [hMeasure, upd, ↓reduceIte] <;>
    (try (rename_i hg; have hlen := length_tail_of_head? hg.2)) <;>
    (try simp only [*, hRank, List.length_nil, Option.isSome_some, Option.isSome_none, ↓reduceIte, Bool.false_eq_true]) <;>
    (repeat' split) <;> simp_all <;> (try omega)

/-! ### The full statement -/

/-- an infinite run of the model -/
structure Run (c : Cfg) where
  st : Nat → State
  lab : Nat → Label
  start : st 0 = init
  next : ∀ i, step c (st i) (lab i) = some (st (i + 1))

/-- labels executed by thread `t` of the model as a user / API thread -/
def threadLabel (t : Nat) : Label → Bool
  | .crSelThr u | .crSelCpu u _ | .crSelNoCpu u _ | .gdLd u | .gdLock u | .gdCreate u | .gdUnlock u | .enq u | .inc u
  | .ldFlags u | .ldFutex u | .stFutex u | .wake u | .crRet u | .opLock u | .opDo u | .opUnlock u | .fLdFlags u
  | .fOrStop u | .fSeeStopped u | .fLock u | .fChk u | .fUnlock1 u | .fLock2 u | .fSplice u | .fAddQ u | .fDel u
  | .fJoin u | .fFree u | .syncEnd u => u == t
  | _ => false

/-- scheduler fairness and the environment assumptions of the property text: a helper thread / an API call
whose next step stays enabled is eventually scheduled; read-side sections end; callbacks terminate; the fork
handlers do not keep helpers paused for ever -/
def Fair (c : Cfg) (r : Run c) : Prop :=
  (∀ x i, (∀ j, i ≤ j → ∃ l, helperLabel x l = true ∧ (step c (r.st j) l).isSome = true) →
      ∃ j, i ≤ j ∧ helperLabel x (r.lab j) = true) ∧
  (∀ t i, (∀ j, i ≤ j → ∃ l, threadLabel t l = true ∧ (step c (r.st j) l).isSome = true) →
      ∃ j, i ≤ j ∧ threadLabel t (r.lab j) = true) ∧
  (∀ t i, 0 < (r.st i).nest t → (r.st i).tpc t = .idle → ∃ j, i ≤ j ∧ (r.st j).nest t = 0) ∧
  (∀ x i, (r.st i).hpc x = .run → ∃ j, i ≤ j ∧ (r.st j).hpc x ≠ .run) ∧
  (∀ x i, (r.st i).pause x = true → ∃ j, i ≤ j ∧ (r.st j).pause x = false)

/-- **C03_full** — NOT PROVED.  The property text's "each callback is *eventually* invoked exactly once": on every
fair run every callback passed to `call_rcu()` eventually finishes, and all the safety theorems of this file
hold along the run.  What is missing is the temporal (liveness) argument from `helper_no_lost_wakeup` +
`waker_not_stuck` + `waker_measure` + `helper_no_stuck` + `helper_measure` + C02 (the helper's
`synchronize_rcu()` returns) to "eventually", which needs reasoning about infinite fair runs (well-founded
ranking over the whole system, including the destroy / hand-over races) that is not mechanised here. -/
def C03_full : Prop :=
  ∀ (c : Cfg) (r : Run c), Fair c r → ∀ id i, (r.st i).reg id = true → ∃ j, i ≤ j ∧ (r.st j).fin id = true ∧ (r.st j).invN id = 1

/-- **C03_partial** (everything of C03 except "eventually"): in every reachable state, for every callback `id`
that has been passed to `call_rcu()`: it has been invoked at most once; it is in exactly one place (in flight,
one queue, one batch, running, or finished) – in particular it is never lost, also across `call_rcu_data_free`;
if it is queued, its helper is alive, not retired and known to `rcu_barrier()`; if its helper sleeps, somebody
is about to wake it; and while it runs, a grace period that began after its enqueue has elapsed. -/
theorem C03_partial (c : Cfg) {s : State} (h : Reach c s) (id : Nat) (hr : s.reg id = true) :
    s.invN id ≤ 1 ∧
    (∃ p, At s id p ∧ ∀ q, At s id q → q = p) ∧
    (∀ x, id ∈ s.queue x ∨ id ∈ s.batch x ∨ s.cur x = some id → s.retired x = false ∧ s.freed x = false ∧ x ∈ s.list) ∧
    (∀ x, id ∈ s.queue x → s.hpc x = .asleep → ∃ t, willWake s t x ∨ (s.tpc t).waking = some x) ∧
    (∀ x, s.cur x = some id → s.enqT id < s.hgp x ∧ ∀ t, 0 < s.nest t → s.enqT id < s.cs t) := by
  refine ⟨(cb_at_most_once c h id).1, (cb_conserved c h id hr).1, ?_, ?_, ?_⟩
  · intro x hx
    have hne : s.queue x ≠ [] ∨ s.batch x ≠ [] ∨ s.cur x ≠ none := by
      rcases hx with hx | hx | hx
      · exact Or.inl (by intro h0; rw [h0] at hx; simp at hx)
      · exact Or.inr (Or.inl (by intro h0; rw [h0] at hx; simp at hx))
      · exact Or.inr (Or.inr (by rw [hx]; simp))
    have hl := holder_listed c h x hne
    have hnr : s.retired x = false := by
      cases hrx : s.retired x with
      | false => rfl
      | true =>
        have := retired_empty c h x hrx
        rcases hne with h0 | h0 | h0
        · exact absurd this.1 h0
        · exact absurd this.2.1 h0
        · exact absurd this.2.2 h0
    refine ⟨hnr, ?_, hl⟩
    cases hf : s.freed x with
    | false => rfl
    | true =>
      have := ((inv_reach_d c h).2.2.1.freed_red x hf).1
      rw [hnr] at this; exact absurd this (by decide)
  · intro x hx hs
    exact helper_no_lost_wakeup c h x hs (Or.inl (by intro h0; rw [h0] at hx; simp at hx))
  · intro x hx
    have := cb_after_gp c h x id hx
    exact ⟨this.1, this.2.2⟩

/-! ### The handshake with an explicit x86-TSO store buffer (`CallRcu/Wake.lean`) -/

/-- **tso_no_lost_wakeup** (x86-TSO, any number of wakers enqueueing any number of times, all interleavings,
all spurious-return placements): whenever the helper sleeps in `FUTEX_WAIT` with a non-empty queue, some
waker has not yet tested the futex with a stale value, or its `futex := 0` store is in its store buffer /
committed and its `FUTEX_WAKE` is still to come. -/
theorem tso_no_lost_wakeup (c : CallRcuWake.Cfg) (hc : c.decAfter = false) {s : CallRcuWake.State}
    (h : CallRcuWake.Reach c s) (hs : s.hpc = .asleep) (hq : s.q ≠ 0) :
    ∃ i, i < c.n ∧ (CallRcuWake.willWake s i ∨ s.kpc i = .k3) := by
  have I := CallRcuWake.inv_reach c hc h
  rcases I.fut_range with h0 | h1
  · obtain ⟨i, hi, hk⟩ := I.asleep_0 hs h0
    exact ⟨i, hi, Or.inr hk⟩
  · obtain ⟨i, hi, hk⟩ := I.asleep_m1 (by rw [hs]; rfl) h1 hq
    exact ⟨i, hi, Or.inl hk⟩

/-- Necessity (`Neg`): if the helper decremented the futex only *after* its emptiness check, the wake-up IS
lost: the waker enqueues after the check, reads `futex = 0` and skips the wake-up; the helper then decrements
and sleeps with a non-empty queue and nobody left to wake it. -/
theorem lost_wakeup_if_dec_after_check :
    let c : CallRcuWake.Cfg := { n := 1, decAfter := true }
    (CallRcuWake.run c (CallRcuWake.init c) [.hTake, .hChk, .kEnq 0, .kLd 0, .kSkip 0, .hDec, .hWaitLd, .hWaitFx .sleep]).map
      (fun s => (s.hpc, s.futex, s.q, s.kpc 0, s.bfut 0)) = some (.asleep, -1, 1, .k0, false) := by decide

/-- Non-vacuity (TSO model): the helper sleeps, a waker enqueues, its buffered `futex := 0` is flushed only
after the helper went to sleep, `FUTEX_WAKE` wakes it and the callback is taken. -/
example :
    let c : CallRcuWake.Cfg := { n := 2 }
    (CallRcuWake.run c (CallRcuWake.init c) [.hDec, .hTake, .hChk, .hWaitLd, .kEnq 1, .kLd 1, .kSt 1, .hWaitFx .sleep, .flush 1,
      .kWake 1, .hWaitLd, .hDec, .hTake]).map (fun s => (s.hpc, s.futex, s.q, s.taken)) = some (.chk, -1, 0, 1) := by decide
/-- `FUTEX_WAKE` cannot overtake the buffered store -/
example :
    let c : CallRcuWake.Cfg := { n := 1 }
    CallRcuWake.run c (CallRcuWake.init c) [.hDec, .kEnq 0, .kLd 0, .kSt 0, .kWake 0] = none := by decide

/-! ### Non-vacuity on the full model -/

def cfg2 : Cfg := { n := 2, ncpu := 1 }

/-- the default helper is created lazily, goes to sleep, is woken by the enqueue, runs a grace period and
invokes the callback exactly once -/
example : (run cfg2 init [.crCall 0 7, .crSelNoCpu 0 0, .gdLd 0, .gdLock 0, .gdCreate 0, .gdUnlock 0,
    .hStart 0, .hDec0 0, .hTop 0, .hSplice 0, .hStopChk 0, .hEmptyChk 0, .hWaitLd 0, .hWaitFx 0 .sleep,
    .enq 0, .inc 0, .ldFlags 0, .ldFutex 0, .stFutex 0, .wake 0, .crRet 0,
    .hWaitLd 0, .hPollW 0, .hDec 0, .hTop 0, .hSplice 0, .hGpEnd 0, .hRunBegin 0 7, .hRunEnd 0, .hInvDone 0, .hSub 0]).map
    (fun s => (s.loc 7, s.invN 7, s.fin 7, s.qlen 0, s.futex 0, s.hpc 0)) = some (.done, 1, true, 0, -1, .stopchk) := by decide

/-- the grace period of the helper cannot end while a section that began before it is open -/
example : run cfg2 init [.rlock 1, .crCall 0 7, .crSelNoCpu 0 0, .gdLd 0, .gdLock 0, .gdCreate 0, .gdUnlock 0, .enq 0,
    .hStart 0, .hDec0 0, .hTop 0, .hSplice 0, .hGpEnd 0] = none := by decide

def trFree1 : List Label := [.opCall 0 (.create false), .opLock 0, .opDo 0, .opUnlock 0, .setThr 0 (some 0),
    .crCall 0 5, .crSelThr 0, .enq 0, .inc 0, .ldFlags 0, .ldFutex 0, .crRet 0, .setThr 0 none]
def trFree2 : List Label := [.fCall 1 0, .fLdFlags 1, .fOrStop 1, .ldFlags 1, .ldFutex 1,
    .hStart 0, .hDec0 0, .hTop 0, .hSplice 0, .hGpEnd 0, .hRunBegin 0 5,
    .crCall 2 6, .crSelThr 2, .enq 2, .inc 2, .ldFlags 2, .ldFutex 2, .stFutex 2, .wake 2, .crRet 2,
    .hRunEnd 0, .hInvDone 0, .hSub 0, .hStopChk 0, .hExitSt 0, .hExitOr 0]
def trFree3 : List Label := [.fSeeStopped 1, .fLock 1, .fChk 1, .fUnlock1 1, .gdLd 1, .gdLock 1, .gdCreate 1, .gdUnlock 1,
    .fLock2 1, .fSplice 1, .fAddQ 1, .ldFlags 1, .ldFutex 1, .fDel 1, .fJoin 1, .fFree 1]

/-- a per-thread helper is destroyed while a callback re-enqueues on it: the leftover is handed over to the
(lazily created) default helper, the structure is freed afterwards -/
example : (run cfg2 init (trFree1 ++ trFree2 ++ trFree3)).map
    (fun s => (s.loc 5, s.loc 6, s.queue 1, s.freed 0)) = some (.done, .queue 1, [6], true) := by decide
example : (run cfg2 init (trFree1 ++ trFree2 ++ trFree3)).map
    (fun s => (s.list, s.qlen 1, s.hpc 0, s.retired 0)) = some ([1], 1, .dead, true) := by decide

/-- `call_rcu_data_free` on a helper that is still some thread's per-thread helper violates the documented
contract and is not a step of the model -/
example : run cfg2 init [.opCall 0 (.create false), .opLock 0, .opDo 0, .opUnlock 0, .setThr 0 (some 0), .fCall 1 0] = none := by
  decide

end UrcuVerif.CallRcu
