import UrcuVerif.Defer.Thms
/-!
# C13 — defer_rcu(): calls run once, in order, exact arguments, after a grace period

Statements only (helper lemmas: `UrcuVerif/Defer/{Codec,Ring,Inv,Thms}.lean`).
Model: `UrcuVerif/Defer/Model.lean` – every API call of a thread and every reclaimer pass is a step
(they are serialised by `rcu_defer_mutex`), except the owner's enqueue, which may interleave with
a barrier between its snapshot of `head`, its grace period and its run of the batch.
Tie: `harness/scen/defer.c` runs the real `src/urcu-defer-impl.h`; `Driver/Defer.lean` replays
the same operation sequence on `step` and compares every stored word, every counter and every
invocation.

This file covers the part of C13 that is decided at the level of operation sequences: codec,
ring buffer (any stream length relative to the capacity, wraps of the ring index and of the 64-bit
counters, the `SIZE − 2` rule, partial flushes), registration life cycle, barriers and
grace-period ordering, for any number of threads and readers.  Not covered here (separate
component on the cooperative-scheduler runtime): the interleaving of owner and reclaimer at
individual memory accesses under TSO (`tso_publication`) and the futex handshake of the defer
thread (`reclaimer_no_lost_wakeup`); see `C13_full`.
-/
namespace UrcuVerif.Defer

/-! ## codec and ring -/

/-- **codec_roundtrip** (stream form, full strength): for every sequence of `(fct, arg)` words –
arguments with bit 0 set or equal to `DQ_FCT_MARK`, functions with bit 0 set or equal to the mark,
repeats and changes – and every common start value of `last_fct_in`/`last_fct_out`, decoding the
encoded stream gives back the sequence: same pairs, same order, each once. -/
theorem codec_roundtrip (xs : List (BitVec 64 × BitVec 64)) (last : BitVec 64) (n : Nat)
    (h : xs.length ≤ n) : decode n last (encode last xs) = xs :=
  decode_encode xs last n h

/-- **ring_decode**: if the ring slots `[i, i + len)` (indices masked with `size − 1`) hold the
encoding of `xs`, the loop of `rcu_defer_barrier_queue()` started at `i` with `head = i + len`
invokes exactly `xs` in order, terminates exactly at `head` and leaves `last_fct_out` equal to
the encoder's `last_fct_in`. -/
theorem ring_decode (c : Cfg) (q : Array (BitVec 64)) (xs : List (BitVec 64 × BitVec 64))
    (fuel i : Nat) (lo : BitVec 64) (hf : xs.length ≤ fuel)
    (hr : ringWords c q i (encode lo xs).length = encode lo xs) :
    runLoop c q fuel i (i + (encode lo xs).length) lo = some (i + (encode lo xs).length, encState lo xs, xs) :=
  runLoop_encode c q xs fuel i lo hf hr

/-- **ring_roundtrip** (one thread on its own, functional form): starting from any queue state that
satisfies the queue invariant (e.g. a freshly registered one, with arbitrary garbage in the ring
and `head = tail` anywhere), `defer_rcu` of ANY list of calls `xs` – of any length relative to the
capacity, the `head − tail ≥ SIZE − 2` rule flushing the queue whenever it applies – followed by
`rcu_defer_barrier_thread()` never overruns and has invoked exactly the calls queued: the earlier
ones followed by `xs`, same pairs, same order, each once; the queue is empty afterwards. -/
theorem ring_roundtrip {c : Cfg} (hc : c.WF) {x : TState} (h : TInv c x) (hq : x.q.size = c.size)
    (xs : List (BitVec 64 × BitVec 64)) (now : Nat) :
    ∃ x' x'', deferAllSolo c now x xs = some x' ∧ flushSolo c x' now = some x'' ∧
      x''.invoked.map Invk.pair = pairs x.queued ++ xs ∧ x''.head = x''.tail := by
  obtain ⟨x', e1, t1, q1, p1⟩ := deferAllSolo_spec hc now xs h hq
  obtain ⟨x'', e2, _, he, _, _, p2⟩ := flushSolo_spec t1 now
  exact ⟨x', x'', e1, e2, by rw [p2, p1], he⟩

/-- a freshly registered queue (garbage ring of the right size, counters anywhere, nothing queued)
satisfies the hypotheses of `ring_roundtrip` -/
theorem fresh_queue_inv (c : Cfg) (g : Array (BitVec 64)) (hg : g.size = c.size) (h0 : Nat) (lf : BitVec 64) :
    TInv c { head := h0, tail := h0, lastIn := lf, lastOut := lf, lastHead := 0, q := g, queuedR := [],
             invoked := [], snapQ := 0 } := by
  constructor <;> simp [TState.queued, TState.pend, pairs, ringWords, encode, encState, hg]

/-- **ring_index_wrap**: the model's unbounded counters and `% size` indexing are what the C code
computes on 64-bit words, also across the 2^64 wrap of `head`/`tail`: for free-running counters
`T ≤ H` at most `size` apart, `q[head & DEFER_QUEUE_MASK]` addresses slot `H % size`,
`head - tail` is `H − T`, `head++` commutes with truncation, and the loop test `i != head` on
truncated words agrees with the test on the counters for every `i` in `[T, H]`. -/
theorem ring_index_wrap (c : Cfg) (hc : c.WF) (H T : Nat) (hT : T ≤ H) (hocc : H - T ≤ c.size) :
    (BitVec.ofNat 64 H &&& BitVec.ofNat 64 (c.size - 1)).toNat = H % c.size
    ∧ (BitVec.ofNat 64 H - BitVec.ofNat 64 T).toNat = H - T
    ∧ (∀ k, BitVec.ofNat 64 (H + k) = BitVec.ofNat 64 H + BitVec.ofNat 64 k)
    ∧ (∀ I, T ≤ I → I ≤ H → (BitVec.ofNat 64 I = BitVec.ofNat 64 H ↔ I = H)) := by
  obtain ⟨k, hk, h2, h64⟩ := hc
  have hle : c.size ≤ 2 ^ 63 := by rw [hk]; exact Nat.pow_le_pow_right (by decide) (by omega)
  have hlt : c.size - 1 < 2 ^ 64 := by omega
  refine ⟨?_, ?_, ?_, ?_⟩
  · simp only [BitVec.toNat_and, BitVec.toNat_ofNat]
    rw [Nat.mod_eq_of_lt hlt, hk, Nat.and_two_pow_sub_one_eq_mod]
    exact Nat.mod_mod_of_dvd _ (Nat.pow_dvd_pow 2 (by omega))
  · simp only [BitVec.toNat_sub, BitVec.toNat_ofNat]
    omega
  · intro j; exact BitVec.ofNat_add _ _
  · intro I h1 h2
    constructor
    · intro h
      have := congrArg BitVec.toNat h
      simp only [BitVec.toNat_ofNat] at this
      omega
    · intro h; rw [h]

/-- the compiled configuration satisfies the side conditions (re-proved on the generated constants
on every run) -/
theorem real_cfg_ok : Cfg.real.WF ∧ Gen.DEFER_QUEUE_MASK = Cfg.real.size - 1 ∧ fctBit = 1#64 ∧
    fctMark = ~~~fctBit ∧ Gen.DQ_FCT_MARK % 2 = 0 :=
  ⟨Cfg.real_wf, Cfg.real_mask, fctBit_eq_one, fctMark_eq, DQ_FCT_MARK_even⟩

/-! ## the concurrent model: all interleavings of queuing threads, barriers, reclaimer passes,
readers and (un)registration -/

/-- **defer_exactly_once_in_order** (full strength): in every reachable state, for every thread,
the sequence of invocations made so far for its queue equals a prefix of the sequence of calls it
queued – same `(fct, arg)` pairs, same order, each at most once, nothing else ever invoked – across
wraps of the ring, partial flushes, enqueues that interleave with a barrier, unregister /
re-register cycles; and the occupancy never exceeds the ring (no unread slot is overwritten). -/
theorem defer_exactly_once_in_order {c : Cfg} (hc : c.WF) {n h0 s} (h : Reach c n h0 s) (t : Nat) :
    (s.th t).invoked.map Invk.pair = pairs ((s.th t).queued.take (s.th t).invoked.length) ∧
    (s.th t).invoked.length ≤ (s.th t).queued.length ∧
    (s.th t).head - (s.th t).tail ≤ c.size := by
  have I := (inv_reach hc h).tinv t
  exact ⟨I.done, I.ninv_le, I.occ⟩

/-- … and once the queue is drained every queued call has been invoked (exactly once, in order). -/
theorem drained_all_invoked {c : Cfg} (hc : c.WF) {n h0 s} (h : Reach c n h0 s) (t : Nat)
    (he : (s.th t).head = (s.th t).tail) : (s.th t).invoked.map Invk.pair = pairs (s.th t).queued :=
  ((inv_reach hc h).tinv t).all_done he

/-- **runs_after_gp** (full strength): whenever a step invokes the `k`-th call of thread `t`, the
mutex holder's `synchronize_rcu()` – which was called (at time `gpStart`) after that call was
queued – has returned, and every read-side section still open began after `gpStart`; hence every
section that had begun before the `defer_rcu()` call has ended. -/
theorem runs_after_gp {c : Cfg} (hc : c.WF) {n h0 s s' op out} (h : Reach c n h0 s)
    (st : step c n s op = some (s', out)) (t k : Nat)
    (hk : (s.th t).invoked.length ≤ k) (hk' : k < (s'.th t).invoked.length) :
    ∃ l cl, s.lock = some l ∧ l.gpDone = true ∧ (s.th t).queued[k]? = some cl ∧
      cl.time < l.gpStart ∧ l.gpStart < s.clock ∧
      (∀ i b, s.cs i = some b → cl.time < b) := by
  obtain ⟨l, cl, a, b, c1, d, e, f⟩ := invoked_step (inv_reach hc h) st t k hk hk'
  exact ⟨l, cl, a, b, c1, d, e, fun i b hb => Nat.lt_of_lt_of_le d (f i b hb)⟩

/-- the grace period of the model is `GpSpec`: `synchronize_rcu()` returns only when every section
that began before it was called has ended -/
theorem gp_is_GpSpec {c : Cfg} {n s s' out} (st : step c n s .gp = some (s', out)) :
    ∃ h a, s.lock = some ⟨h, a, false⟩ ∧ s'.lock = some ⟨h, a, true⟩ ∧ ∀ i, i < n → ∀ b, s.cs i = some b → a ≤ b := by
  simp only [step] at st
  split at st
  · rename_i h a hl
    split at st
    · rename_i hg
      simp only [Option.some.injEq, Prod.mk.injEq] at st
      obtain ⟨rfl, -⟩ := st
      exact ⟨h, a, hl, rfl, hg⟩
    · simp at st
  · simp at st

/-- **barrier_runs_all_prior** (full strength).  (1) When `rcu_defer_barrier()` – by a thread or by
the background reclaimer – takes its snapshot, its grace period starts later than every call
queued so far by anybody; (2) when it runs the batch, every call of every registered thread queued
before that grace period started is invoked before it returns (possibly already by an earlier
barrier); it never overruns; (3) when it returns early there is nothing to run. -/
theorem barrier_runs_all_prior {c : Cfg} (hc : c.WF) {n h0 s} (h : Reach c n h0 s) :
    (∀ who s' out, step c n s (.barrierSnapshot who) = some (s', out) →
      (out = .skipped .emptyRegistry ∧ s.registry = []) ∨
      (out = .skipped .noItems ∧ s'.lock = none ∧
        ∀ t, t ∈ s.registry → (s.th t).invoked.map Invk.pair = pairs (s.th t).queued) ∨
      (out = .snapshot ∧ s'.lock = some ⟨.barrier who, s.clock, false⟩ ∧ s'.registry = s.registry ∧
        ∀ t cl, cl ∈ (s.th t).queued → cl.time < s.clock)) ∧
    (∀ s' out, step c n s .barrierRun = some (s', out) →
      ∃ who gs, s.lock = some ⟨.barrier who, gs, true⟩ ∧ s'.lock = none ∧ (∃ calls, out = .ran calls) ∧
        ∀ t, t ∈ s.registry → (s'.th t).queued = (s.th t).queued ∧
          ∀ k cl, (s.th t).queued[k]? = some cl → cl.time < gs → k < (s'.th t).invoked.length) := by
  have I := inv_reach hc h
  refine ⟨fun who s' out st => barrierSnapshot_spec I st, fun s' out st => ?_⟩
  obtain ⟨who, gs, a, b, c1, d⟩ := barrierRun_spec I st
  exact ⟨who, gs, a, b, c1, fun t ht => ⟨(d t ht).2.2.1, (d t ht).2.2.2⟩⟩

/-- the owner's flush (`rcu_defer_barrier_thread()`, also the full-queue path of `defer_rcu`)
empties the owner's queue: the assertion after the flush in `_defer_rcu` holds and every call the
thread queued has been invoked -/
theorem barrier_thread_runs_all_prior {c : Cfg} (hc : c.WF) {n h0 s s' out t} (h : Reach c n h0 s)
    (st : step c n s (.flushRun t) = some (s', out)) :
    (∃ calls, out = .ran calls) ∧ (s'.th t).head = (s'.th t).tail ∧
    (s'.th t).invoked.map Invk.pair = pairs (s'.th t).queued ∧ (s'.th t).queued = (s.th t).queued :=
  flushRun_spec (inv_reach hc h) st

/-- **barrier_call_to_return** (end to end, any interleaving in between): if `rcu_defer_barrier()`
took its snapshot in the reachable state `s0`, and after ANY sequence of steps of other threads
(enqueues, reader sections, the grace period) that same barrier – identified by its holder and
start time – runs its batch, then every call that any still-registered thread had queued before the
barrier was called has been invoked when the barrier returns. -/
theorem barrier_call_to_return {c : Cfg} (hc : c.WF) {n h0 s0 s1 s s' who out out'} (h : Reach c n h0 s0)
    (st0 : step c n s0 (.barrierSnapshot who) = some (s1, out)) (hout : out = .snapshot)
    (mid : Steps c n s1 s) (hl : s.lock = some ⟨.barrier who, s0.clock, true⟩)
    (st : step c n s .barrierRun = some (s', out')) :
    ∀ t, t ∈ s.registry → ∀ k, k < (s0.th t).queued.length → k < (s'.th t).invoked.length := by
  intro t ht k hk
  have r1 : Reach c n h0 s1 := h.step st0
  have r : Reach c n h0 s := reach_steps r1 mid
  rcases (barrier_runs_all_prior hc h).1 who s1 out st0 with ⟨e, _⟩ | ⟨e, _⟩ | ⟨_, _, _, htime⟩
  · rw [hout] at e; cases e
  · rw [hout] at e; cases e
  obtain ⟨who', gs, hl', _, _, d⟩ := (barrier_runs_all_prior hc r).2 s' out' st
  rw [hl] at hl'
  simp only [Option.some.injEq, Lock.mk.injEq, Holder.barrier.injEq] at hl'
  obtain ⟨_, rfl, _⟩ := hl'
  have hk0 : (s0.th t).queued[k]? = some (s0.th t).queued[k] := by simp [hk]
  have hmid : (s.th t).queued[k]? = some (s0.th t).queued[k] :=
    queued_getElem_steps ((Steps.tail (Steps.refl s0) st0).trans mid) t k hk0
  exact (d t ht).2 k _ hmid (htime t _ (List.getElem_mem hk))

/-- **unregister_runs_all_prior** (full strength): when `rcu_defer_unregister_thread()` returns
(directly when nothing is queued, or after its grace period and run), every call the thread ever
queued has been invoked, exactly once and in order; the thread is out of the registry, its ring is
freed, the mutex is released. -/
theorem unregister_runs_all_prior {c : Cfg} (hc : c.WF) {n h0 s s' op out t cs b} (h : Reach c n h0 s)
    (st : step c n s op = some (s', out)) (hop : op = .unregBegin t ∨ op = .unregEnd t)
    (ho : out = .unregistered cs b) :
    (s'.th t).invoked.map Invk.pair = pairs (s'.th t).queued ∧ (s'.th t).queued = (s.th t).queued ∧
    t ∉ s'.registry ∧ s'.lock = none := by
  obtain ⟨a, b', _, _, e, f⟩ := unregister_spec (inv_reach hc h) st hop ho
  exact ⟨a, b', e, f⟩

/-- **reregister_ok** (current source, `fixed = true`): (1) when unregister returns, the thread's
state satisfies both assertions of `rcu_defer_register_thread()`; (2) in every reachable state a
thread that is not registered can register (the step is enabled as soon as the mutex is free and
does not abort), whatever happened before – barriers, reclaimer passes, earlier registrations. -/
theorem reregister_ok {c : Cfg} (hc : c.WF) (hf : c.fixed = true) {n h0 s} (h : Reach c n h0 s) :
    (∀ s' op out t cs b, step c n s op = some (s', out) → (op = .unregBegin t ∨ op = .unregEnd t) →
      out = .unregistered cs b → (s'.th t).lastHead = 0 ∧ (s'.th t).q.size = 0) ∧
    (∀ t g, t ∉ s.registry → s.lock = none → g.size = c.size →
      ∃ s', step c n s (.reg t g) = some (s', .registered s.registry.isEmpty) ∧ t ∈ s'.registry) := by
  have I := inv_reach hc h
  refine ⟨fun s' op out t cs b st hop ho => ?_, fun t g ht hl hg => reg_ok hf I ht hl g hg⟩
  obtain ⟨_, _, c1, d, _, _⟩ := unregister_spec I st hop ho
  exact ⟨d hf, c1⟩

/-- **no_abort**: in a reachable state of the current source no assertion of the C code fires –
not the occupancy assertion of `_defer_rcu`, not a wild run of the decoding loop, not the
`last_head == 0` assertion – except `q == NULL` / `last_head == 0` on an attempt to register a
thread that is already registered (API misuse). -/
theorem no_abort {c : Cfg} (hc : c.WF) (hf : c.fixed = true) {n h0 s s' op a} (h : Reach c n h0 s)
    (st : step c n s op = some (s', .abort a)) : ∃ t g, op = .reg t g ∧ t ∈ s.registry :=
  abort_only_double_register hf (inv_reach hc h) st

/-- **reregister_aborts_unfixed** (record of the finding, DESIGN.md §5 item 2): in the model of the
source BEFORE commit "fix: let a thread register for defer_rcu again after unregistering"
(`fixed := false`: unregister does not reset `last_head`), with the real queue size, the run
register → defer_rcu → reclaimer pass (snapshot, grace period, run) → unregister → register hits
`urcu_posix_assert(last_head == 0)`. -/
theorem reregister_aborts_unfixed :
    (runOps { size := Gen.DEFER_QUEUE_SIZE, fixed := false } 0 (init fun _ => 0)
      [.reg 0 (Array.replicate Gen.DEFER_QUEUE_SIZE 0#64), .enq 0 16#64 32#64, .barrierSnapshot none, .gp,
       .barrierRun, .unregBegin 0, .reg 0 (Array.replicate Gen.DEFER_QUEUE_SIZE 0#64)]).map (·.2)
    = some [.registered true, .enqueued [17#64, 32#64], .snapshot, .unit, .ran [(0, 16#64, 32#64)],
            .unregistered [] true, .abort .lastHead] := by
  decide +kernel

/-- the same run on the model of the current source: the second registration succeeds -/
theorem reregister_ok_witness :
    (runOps Cfg.real 0 (init fun _ => 0)
      [.reg 0 (Array.replicate Gen.DEFER_QUEUE_SIZE 0#64), .enq 0 16#64 32#64, .barrierSnapshot none, .gp,
       .barrierRun, .unregBegin 0, .reg 0 (Array.replicate Gen.DEFER_QUEUE_SIZE 0#64)]).map (·.2)
    = some [.registered true, .enqueued [17#64, 32#64], .snapshot, .unit, .ran [(0, 16#64, 32#64)],
            .unregistered [] true, .registered true] := by
  decide +kernel

/-! ## the full statement -/

/-- The operation-sequence part of C13 (everything this file proves), as one statement. -/
def C13_oplevel : Prop :=
  ∀ (c : Cfg) n h0 s, c.WF → c.fixed = true → Reach c n h0 s →
    -- exactly once, in order, exact arguments
    (∀ t, (s.th t).invoked.map Invk.pair = pairs ((s.th t).queued.take (s.th t).invoked.length)) ∧
    -- only after a grace period that started after the call was queued
    (∀ s' op out t k, step c n s op = some (s', out) → (s.th t).invoked.length ≤ k → k < (s'.th t).invoked.length →
      ∃ l cl, s.lock = some l ∧ l.gpDone = true ∧ (s.th t).queued[k]? = some cl ∧ cl.time < l.gpStart ∧
        ∀ i b, s.cs i = some b → cl.time < b) ∧
    -- barrier / unregister return only after everything queued before has run
    (∀ s' out, step c n s .barrierRun = some (s', out) →
      ∃ who gs, s.lock = some ⟨.barrier who, gs, true⟩ ∧ ∀ t, t ∈ s.registry →
        ∀ k cl, (s.th t).queued[k]? = some cl → cl.time < gs → k < (s'.th t).invoked.length) ∧
    (∀ s' op out t cs b, step c n s op = some (s', out) → (op = .unregBegin t ∨ op = .unregEnd t) →
      out = .unregistered cs b →
      (s'.th t).invoked.map Invk.pair = pairs (s'.th t).queued ∧ (s'.th t).lastHead = 0 ∧ (s'.th t).q.size = 0) ∧
    -- a thread may register again
    (∀ t g, t ∉ s.registry → s.lock = none → g.size = c.size →
      ∃ s', step c n s (.reg t g) = some (s', .registered s.registry.isEmpty))

theorem C13_oplevel_proved : C13_oplevel := by
  intro c n h0 s hc hf h
  refine ⟨fun t => (defer_exactly_once_in_order hc h t).1, ?_, ?_, ?_, ?_⟩
  · intro s' op out t k st hk hk'
    obtain ⟨l, cl, a, b, c1, d, _, f⟩ := runs_after_gp hc h st t k hk hk'
    exact ⟨l, cl, a, b, c1, d, f⟩
  · intro s' out st
    obtain ⟨who, gs, a, _, _, d⟩ := (barrier_runs_all_prior hc h).2 s' out st
    exact ⟨who, gs, a, fun t ht => (d t ht).2⟩
  · intro s' op out t cs b st hop ho
    obtain ⟨a, _, _, _⟩ := unregister_runs_all_prior hc h st hop ho
    obtain ⟨x, y⟩ := (reregister_ok hc hf h).1 s' op out t cs b st hop ho
    exact ⟨a, x, y⟩
  · intro t g ht hl hg
    obtain ⟨s', e, _⟩ := (reregister_ok hc hf h).2 t g ht hl hg
    exact ⟨s', e⟩

/-- C13 in full = the operation-sequence part above plus the two facets that live below the
granularity of this model and belong to the fine-grained concurrent/TSO component (not proved in
this file; the parameters are to be instantiated with that component's statements):
`tsoPublication` – the reclaimer never reads a slot the owner has not made visible (`q[]` stores
precede the `head` store in the owner's FIFO store buffer; `rmb` on the reader side);
`reclaimerNoLostWakeup` – queued calls are executed by the background reclaimer without any
further API call (futex handshake `wait_defer`/`wake_up_defer` + fairness). -/
def C13_full (tsoPublication reclaimerNoLostWakeup : Prop) : Prop :=
  C13_oplevel ∧ tsoPublication ∧ reclaimerNoLostWakeup

/-! ## non-vacuity: concrete runs (small ring so that wraps and the threshold are reached) -/

def c8 : Cfg := { size := 8 }
def g8 : Array (BitVec 64) := Array.replicate 8 0xdead#64
def mark : BitVec 64 := 0xfffffffffffffffe#64

example : c8.WF := ⟨3, by decide, by decide, by decide⟩

/-- all three entry shapes, adversarial values: an argument equal to the mark, an odd argument, a
function equal to the mark, an odd function, an unchanged function with a plain argument -/
example : (runOps c8 1 (init fun _ => 0)
    [.reg 0 g8, .enq 0 16#64 mark, .enq 0 16#64 32#64, .enq 0 mark 7#64, .flushSnapshot 0, .gp, .flushRun 0,
     .enq 0 mark 8#64, .enq 0 17#64 mark]).map (·.2)
    = some [.registered true, .enqueued [17#64, mark], .enqueued [32#64], .enqueued [mark, mark, 7#64], .snapshot, .unit,
            .ran [(0, 16#64, mark), (0, 16#64, 32#64), (0, mark, 7#64)],
            .enqueued [8#64], .enqueued [mark, 17#64, mark]] := by decide +kernel

/-- the `SIZE − 2` rule, a 3-slot entry across the ring wrap, counters starting just below 2^64:
six one-slot entries reach the threshold (`full`), the owner flushes, the next entry occupies
slots 7, 0, 1 -/
example : (runOps c8 0 (init fun _ => 2^64 - 1)
    [.reg 0 g8, .enq 0 0#64 2#64, .enq 0 0#64 4#64, .enq 0 0#64 6#64, .enq 0 0#64 8#64, .enq 0 0#64 10#64,
     .enq 0 0#64 12#64, .enq 0 0#64 14#64, .flushSnapshot 0, .gp, .flushRun 0, .enq 0 mark 1#64,
     .unregBegin 0, .gp, .unregEnd 0]).map (·.2)
    = some [.registered true, .enqueued [2#64], .enqueued [4#64], .enqueued [6#64], .enqueued [8#64], .enqueued [10#64],
            .enqueued [12#64], .full, .snapshot, .unit,
            .ran [(0, 0#64, 2#64), (0, 0#64, 4#64), (0, 0#64, 6#64), (0, 0#64, 8#64), (0, 0#64, 10#64), (0, 0#64, 12#64)],
            .enqueued [mark, mark, 1#64], .snapshot, .unit, .unregistered [(0, mark, 1#64)] true] := by decide +kernel

/-- two threads, a reclaimer pass with an enqueue between its snapshot and its run (partial batch:
the late call stays queued), a reader whose section began before the grace period blocks `gp`
until it ends, re-registration afterwards -/
example : (runOps c8 1 (init fun _ => 0)
    [.reg 0 g8, .reg 1 g8, .enq 0 16#64 2#64, .rlock 0, .enq 1 32#64 3#64, .barrierSnapshot none,
     .enq 0 16#64 4#64, .runlock 0, .gp, .rlock 0, .barrierRun,
     .unregBegin 0, .runlock 0, .gp, .unregEnd 0, .reg 0 g8]).map (·.2)
    = some [.registered true, .registered false, .enqueued [17#64, 2#64], .unit, .enqueued [33#64, 3#64], .snapshot,
            .enqueued [4#64], .unit, .unit, .unit, .ran [(1, 32#64, 3#64), (0, 16#64, 2#64)],
            .snapshot, .unit, .unit, .unregistered [(0, 16#64, 4#64)] false, .registered false] := by decide +kernel

/-- the grace period cannot complete while a section that began before it is open (GpSpec guard),
and nothing can be run before it completes -/
example : (runOps c8 1 (init fun _ => 0) [.reg 0 g8, .enq 0 16#64 2#64, .rlock 0, .barrierSnapshot none, .gp]).isNone = true := by
  decide +kernel
example : (runOps c8 1 (init fun _ => 0) [.reg 0 g8, .enq 0 16#64 2#64, .barrierSnapshot none, .barrierRun]).isNone = true := by
  decide +kernel

theorem reach_runOps {c n h0} (ops : List Op) : ∀ {s r}, Reach c n h0 s → runOps c n s ops = some r → Reach c n h0 r.1 := by
  induction ops with
  | nil => intro s r h e; simp only [runOps, Option.some.injEq] at e; subst e; exact h
  | cons op ops ih =>
    intro s r h e
    simp only [runOps] at e
    split at e
    · cases e
    · rename_i s1 o1 h1
      rcases h2 : runOps c n s1 ops with _ | r2
      · simp [h2] at e
      · simp only [h2, Option.map_some, Option.some.injEq] at e
        subst e
        have := ih (h.step h1) h2
        exact this

/-- the hypotheses of `runs_after_gp` are satisfiable: a reachable state and a step that invokes
call 0 of thread 0 -/
example : ∃ s s' out, Reach c8 1 (fun _ => 0) s ∧ step c8 1 s .barrierRun = some (s', out) ∧
    (s.th 0).invoked.length ≤ 0 ∧ 0 < (s'.th 0).invoked.length := by
  have hsome : (runOps c8 1 (init fun _ => 0) [.reg 0 g8, .enq 0 16#64 2#64, .barrierSnapshot none, .gp]).isSome = true := by
    decide +kernel
  obtain ⟨r, hr⟩ := Option.isSome_iff_exists.1 hsome
  have hstep : ((runOps c8 1 (init fun _ => 0) [.reg 0 g8, .enq 0 16#64 2#64, .barrierSnapshot none, .gp]).bind fun r =>
      (step c8 1 r.1 .barrierRun).map fun r' => ((r.1.th 0).invoked.length, (r'.1.th 0).invoked.length)) = some (0, 1) := by
    decide +kernel
  rw [hr] at hstep
  simp only [Option.bind_some, Option.map_eq_some_iff, Prod.mk.injEq] at hstep
  obtain ⟨⟨s', out⟩, e1, e2, e3⟩ := hstep
  have e3' : (s'.th 0).invoked.length = 1 := e3
  exact ⟨r.1, s', out, reach_runOps _ Reach.init hr, e1, by omega, by omega⟩

end UrcuVerif.Defer
