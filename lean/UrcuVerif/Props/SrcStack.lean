import UrcuVerif.Src.StackLocal
import UrcuVerif.Src.StackRefine
import UrcuVerif.Src.StackWfsPop
import UrcuVerif.Src.StackWfsPopAny
import UrcuVerif.Src.StackLfsRcu
import UrcuVerif.Src.StackWfq
import UrcuVerif.Src.StackConverse
/-!
# Source refinement, stacks: generated IR of `wfstack.h` / `lfstack.h` ⊑ L2 (`Wfs`, `Lfs`), thread-locally

For every function `f` below, every loop budget `fuel`, **every oracle** `inp` of well-typed values
(`dec v ≠ none`: NULL, `CDS_WFS_END`, node pointers) and every environment `env` that binds the parameters, the run
`exec fuel Gen.Src.«f» env inp` of the *generated* term is `.ok out`, and `out.events` – abstracted by `absEv` – is a
label sequence of the thread-local projection of the proven L2 model (`lrun … = some ls'`), with the same values
written and observed and (at least) the memory orders L2 relies on; `Done out ls'`: the run is a proper prefix
(`blocked`: the oracle ended = the thread is preempted there; `fuel`: loop budget exhausted) or it returned, then
L2's thread is back at `idle` and the C return value is the encoding `retV` of L2's `ret`.
The theorems start at the pc L2 has after its ghost entry label (`pushBegin` = `cds_wfs_node_init` resp. the entry of
`cds_lfs_push`, `popBegin` = call of pop with the right to pop); `pop_all` / `empty` start at `idle`.

`___cds_wfs_pop` is stated with `Outcome`: `.ok` as above (plus `*state`), `.error` only when the oracle hands NULL
for a load of `s->head` (the source dereferences it; excluded by L2's invariant) – see `Src/StackWfsPop.lean`.

Local automata, projection (`*_proj_step`, `*_lift_step`, `*_enabled_iff`, `*_proj_run`) and frame lemmas
(`*_frame*`): `Src/StackLocal.lean`.
-/
namespace UrcuVerif.Props.SrcStack
open UrcuVerif UrcuVerif.Src

-- ==========================================================================================================
-- projection / frame lemmas against the real L2 `step` (re-exported statements)
-- ==========================================================================================================
section Wfs
open WfsL

theorem wfs_proj_step (c : Wfs.Cfg) (s s' : Wfs.State) (t : Nat) (L : Wfs.Label)
    (hL : ∃ l0, toL2 t l0 = some L) (h : Wfs.step c s L = some s') :
    ∃ l, toL2 t l = some L ∧ Obs s t l ∧ Guard c s t l ∧ lstep (proj s t) l = some (proj s' t) :=
  proj_step c s s' t L hL h

theorem wfs_lift_step (c : Wfs.Cfg) (s : Wfs.State) (t : Nat) (l : LLabel) (L : Wfs.Label) (ls' : LState)
    (hL : toL2 t l = some L) (ho : Obs s t l) (hg : Guard c s t l) (h : lstep (proj s t) l = some ls') :
    ∃ s', Wfs.step c s L = some s' ∧ proj s' t = ls' :=
  lift_step c s t l L ls' hL ho hg h

/-- enabled ⟺ local step enabled (for the decoration with the global state's values) ∧ global guard -/
theorem wfs_enabled_iff (c : Wfs.Cfg) (s : Wfs.State) (t : Nat) (L : Wfs.Label) (hL : ∃ l0, toL2 t l0 = some L) :
    (∃ s', Wfs.step c s L = some s') ↔
      ∃ l ls', toL2 t l = some L ∧ Obs s t l ∧ Guard c s t l ∧ lstep (proj s t) l = some ls' :=
  enabled_iff c s t L hL

/-- every L2 run projects to a run of the local automaton of thread `t` -/
theorem wfs_proj_run (c : Wfs.Cfg) (t : Nat) (Ls : List Wfs.Label) (s s' : Wfs.State)
    (h : Wfs.run c s Ls = some s') (hno : ∀ b, Wfs.Label.iterNext t b ∉ Ls) :
    ∃ ls, ls.filterMap (toL2 t) = Ls.filter (own t) ∧ lrun (proj s t) ls = some (proj s' t) :=
  proj_run c t Ls s s' h hno

theorem wfs_frame (c : Wfs.Cfg) (s s' : Wfs.State) (t : Nat) (L : Wfs.Label)
    (ht : tidOf L ≠ some t) (h : Wfs.step c s L = some s') : proj s' t = proj s t :=
  frame c s s' t L ht h

theorem wfs_frame_own (c : Wfs.Cfg) (s s' : Wfs.State) (t : Nat) (L : Wfs.Label)
    (hL : L = .flush t ∨ L = .lock t ∨ L = .unlock t ∨ L = .rlock t ∨ L = .runlock t)
    (h : Wfs.step c s L = some s') : proj s' t = proj s t :=
  frame_own c s s' t L hL h

theorem wfs_frame_iterNext (c : Wfs.Cfg) (s s' : Wfs.State) (t : Nat) (b : Bool)
    (h : Wfs.step c s (.iterNext t b) = some s') : (proj s' t).pc = (proj s t).pc :=
  frame_iterNext c s s' t b h

end Wfs

section Lfs
open LfsL

theorem lfs_proj_step (c : Lfs.Cfg) (s s' : Lfs.State) (t : Nat) (L : Lfs.Label)
    (hL : ∃ l0, toL2 t l0 = some L) (h : Lfs.step c s L = some s') :
    ∃ l, toL2 t l = some L ∧ Obs s t l ∧ Guard c s t l ∧ lstep (proj s t) l = some (proj s' t) :=
  proj_step c s s' t L hL h

theorem lfs_lift_step (c : Lfs.Cfg) (s : Lfs.State) (t : Nat) (l : LLabel) (L : Lfs.Label) (ls' : LState)
    (hL : toL2 t l = some L) (ho : Obs s t l) (hg : Guard c s t l) (h : lstep (proj s t) l = some ls') :
    ∃ s', Lfs.step c s L = some s' ∧ proj s' t = ls' :=
  lift_step c s t l L ls' hL ho hg h

theorem lfs_enabled_iff (c : Lfs.Cfg) (s : Lfs.State) (t : Nat) (L : Lfs.Label) (hL : ∃ l0, toL2 t l0 = some L) :
    (∃ s', Lfs.step c s L = some s') ↔
      ∃ l ls', toL2 t l = some L ∧ Obs s t l ∧ Guard c s t l ∧ lstep (proj s t) l = some ls' :=
  enabled_iff c s t L hL

theorem lfs_proj_run (c : Lfs.Cfg) (t : Nat) (Ls : List Lfs.Label) (s s' : Lfs.State)
    (h : Lfs.run c s Ls = some s') (hno : Lfs.Label.iterNext t ∉ Ls) :
    ∃ ls, ls.filterMap (toL2 t) = Ls.filter (own t) ∧ lrun (proj s t) ls = some (proj s' t) :=
  proj_run c t Ls s s' h hno

theorem lfs_frame (c : Lfs.Cfg) (s s' : Lfs.State) (t : Nat) (L : Lfs.Label)
    (ht : tidOf L ≠ some t) (h : Lfs.step c s L = some s') : proj s' t = proj s t :=
  frame c s s' t L ht h

theorem lfs_frame_own (c : Lfs.Cfg) (s s' : Lfs.State) (t : Nat) (L : Lfs.Label)
    (hL : L = .flush t ∨ L = .lock t ∨ L = .unlock t ∨ L = .rlock t ∨ L = .runlock t)
    (h : Lfs.step c s L = some s') : proj s' t = proj s t :=
  frame_own c s s' t L hL h

theorem lfs_frame_iterNext (c : Lfs.Cfg) (s s' : Lfs.State) (t : Nat)
    (h : Lfs.step c s (.iterNext t) = some s') : (proj s' t).pc = (proj s t).pc :=
  frame_iterNext c s s' t h

end Lfs

-- ==========================================================================================================
-- concrete environments for the non-vacuity examples
-- ==========================================================================================================
def envOf (vars : List (String × Val)) (priv : List (Loc × Val)) : Env :=
  { vars := fun x => vars.lookup x, priv := fun l => priv.lookup l }

def cfgOff : List (Loc × Val) := [(.glob "CONFIG_RCU_EMIT_LEGACY_MB", .int 0)]
def cfgOn : List (Loc × Val) := [(.glob "CONFIG_RCU_EMIT_LEGACY_MB", .int 1)]

-- ==========================================================================================================
-- wfstack
-- ==========================================================================================================
section WfsThms
open WfsL WfsR

theorem _cds_wfs_push_refines (fuel : Nat) (env : Env) (inp : List Val) (s n : Nat) (cfg : Int) (ls : LState)
    (hs : env.vars "u_stack" = some (.ptr (.obj s))) (hn : env.vars "node" = some (.ptr (.obj n)))
    (hcfg : env.priv (.glob "CONFIG_RCU_EMIT_LEGACY_MB") = some (.int cfg))
    (hnode : Wfs.isNode n) (hpc : ls.pc = .pushX n)
    (hinp : ∀ v ∈ inp, (dec v).isSome) :
    ∃ out, exec fuel Gen.Src.«_cds_wfs_push» env inp = .ok out ∧
      ∃ ls', lrun ls (out.events.flatMap (absEv .push s)) = some ls' ∧ Done out ls' :=
  push_refines fuel env inp s n cfg ls hs hn hcfg hnode hpc hinp

/-- push of node 7 on the empty stack 0: xchg returns END, store `next := END`, returns 0 -/
example : ∃ out, exec 0 Gen.Src.«_cds_wfs_push»
      (envOf [("u_stack", .ptr (.obj 0)), ("node", .ptr (.obj 7))] cfgOff) [.int 1] = .ok out ∧
    out.events = [.xchg (.field (.obj 0) "head") (.ptr (.obj 7)) (.int 1) 5,
                  .st (.field (.obj 7) "next") (.int 1) 3] ∧
    out.ctl = .ret (some (.int 0)) ∧
    lrun ⟨.pushX 7, .void⟩ (out.events.flatMap (absEv .push 0)) = some ⟨.idle, .flag false⟩ := by
  sexec [Gen.Src.«_cds_wfs_push», Gen.Src.«___cds_wfs_end», envOf, cfgOff, List.lookup]
  decide

/-- `___cds_wfs_node_sync_next(node = h, blocking = bl)` from L2's `popSync (bl ≠ 0) h` (used by pop; stated for any
property `P` of the oracle values that implies well-typedness) -/
theorem ___cds_wfs_node_sync_next_refines (P : Val → Prop) (hP : ∀ v, P v → (dec v).isSome)
    (fuel : Nat) (env : Env) (inp : List Val) (s h : Nat) (bl : Int) (ls : LState)
    (hn : env.vars "node" = some (.ptr (.obj h))) (hbv : env.vars "blocking" = some (.int bl))
    (hnode : Wfs.isNode h) (hpc : ls.pc = .popSync (bl != 0) h) (hinp : ∀ v ∈ inp, P v) :
    ∃ o, exec fuel Gen.Src.«___cds_wfs_node_sync_next» env inp = .ok o ∧
      ∃ ls', lr .pop s ls o.events = some ls' ∧
        (o.ctl = .fuel ∨ o.ctl = .blocked ∨
         (o.env.priv = env.priv ∧ (∀ v ∈ o.inp, P v) ∧
           ((o.ctl = .ret (some (.int (-1))) ∧ bl = 0 ∧ ls' = ⟨.idle, .wouldblock⟩) ∨
            (∃ k, k ≠ 0 ∧ o.ctl = .ret (some (enc k)) ∧ ls' = ⟨.popCas (bl != 0) h k, ls.ret⟩)))) :=
  sync_next_spec P hP fuel env inp s h bl ls hn hbv hnode hpc hinp

theorem ___cds_wfs_pop_refines (fuel : Nat) (env : Env) (inp : List Val) (s : Nat) (stv : Val) (bl cfg : Int)
    (ls : LState)
    (hs : env.vars "u_stack" = some (.ptr (.obj s))) (hstv : env.vars "state" = some stv)
    (hblv : env.vars "blocking" = some (.int bl))
    (hst : stv = .int 0 ∨ ∃ st, stv = .ptr st ∧ st ≠ cfgLoc)
    (hcfg : env.priv cfgLoc = some (.int cfg))
    (hpc : ls.pc = .popLd (bl != 0)) (hinp : ∀ v ∈ inp, (dec v).isSome) :
    Outcome (exec fuel Gen.Src.«___cds_wfs_pop» env inp)
      (fun out => ∃ ls', lr .pop s ls out.events = some ls' ∧ Done out ls' ∧
        (∀ st r, stv = .ptr st → out.ctl = .ret r → out.env.priv st = some (.int (lastFlag ls'.ret))))
      (Val.int 0 ∈ inp ∧ ∃ evs ls' b, lr .pop s ls evs = some ls' ∧ ls'.pc = .popLd b) :=
  pop_refines fuel env inp s stv bl cfg ls hs hstv hblv hst hcfg hpc hinp

theorem ___cds_wfs_pop_refines_total (fuel : Nat) (env : Env) (inp : List Val) (s : Nat) (stv : Val) (bl cfg : Int)
    (ls : LState)
    (hs : env.vars "u_stack" = some (.ptr (.obj s))) (hstv : env.vars "state" = some stv)
    (hblv : env.vars "blocking" = some (.int bl))
    (hst : stv = .int 0 ∨ ∃ st, stv = .ptr st ∧ st ≠ cfgLoc)
    (hcfg : env.priv cfgLoc = some (.int cfg))
    (hpc : ls.pc = .popLd (bl != 0)) (hinp : ∀ v ∈ inp, (dec v).isSome) (hnn : Val.int 0 ∉ inp) :
    ∃ out, exec fuel Gen.Src.«___cds_wfs_pop» env inp = .ok out ∧
      ∃ ls', lr .pop s ls out.events = some ls' ∧ Done out ls' :=
  pop_refines_total fuel env inp s stv bl cfg ls hs hstv hblv hst hcfg hpc hinp hnn

/-- `___cds_wfs_pop` for **every** oracle (no assumption on its values – in particular `poll()` may return anything):
an `.ok` run whose loads / cmpxchg observed well-typed values (`WTs out.events`) refines L2 -/
theorem ___cds_wfs_pop_refines_any (fuel : Nat) (env : Env) (inp : List Val) (s : Nat) (stv : Val) (bl cfg : Int)
    (ls : LState)
    (hs : env.vars "u_stack" = some (.ptr (.obj s))) (hstv : env.vars "state" = some stv)
    (hblv : env.vars "blocking" = some (.int bl))
    (hst : stv = .int 0 ∨ ∃ st, stv = .ptr st ∧ st ≠ cfgLoc)
    (hcfg : env.priv cfgLoc = some (.int cfg))
    (hpc : ls.pc = .popLd (bl != 0))
    (out : Out) (hout : exec fuel Gen.Src.«___cds_wfs_pop» env inp = .ok out) (hW : WTs out.events) :
    ∃ ls', lr .pop s ls out.events = some ls' ∧ Done out ls' ∧
      (∀ st r, stv = .ptr st → out.ctl = .ret r → out.env.priv st = some (.int (lastFlag ls'.ret))) :=
  pop_refines_any fuel env inp s stv bl cfg ls hs hstv hblv hst hcfg hpc out hout hW

theorem ___cds_wfs_node_sync_next_refines_any (fuel : Nat) (env : Env) (inp : List Val) (s h : Nat) (bl : Int)
    (ls : LState)
    (hn : env.vars "node" = some (.ptr (.obj h))) (hbv : env.vars "blocking" = some (.int bl))
    (hnode : Wfs.isNode h) (hpc : ls.pc = .popSync (bl != 0) h)
    (o : Out) (ho : exec fuel Gen.Src.«___cds_wfs_node_sync_next» env inp = .ok o) :
    (o.ctl = .fuel ∨ o.ctl = .blocked ∨ (o.env.priv = env.priv ∧
        ((o.ctl = .ret (some (.int (-1))) ∧ bl = 0) ∨ ∃ w, o.ctl = .ret (some w)))) ∧
    ((∀ ev ∈ o.events, ObsWT ev) → ∃ ls', lr .pop s ls o.events = some ls' ∧
      (o.ctl = .fuel ∨ o.ctl = .blocked ∨
       (o.ctl = .ret (some (.int (-1))) ∧ bl = 0 ∧ ls' = ⟨.idle, .wouldblock⟩) ∨
       (∃ k, k ≠ 0 ∧ o.ctl = .ret (some (enc k)) ∧ ls' = ⟨.popCas (bl != 0) h k, ls.ret⟩))) :=
  sync_next_any fuel env inp s h bl ls hn hbv hnode hpc o ho

/-- a run the oracle-typed theorem does not cover: `7->next` reads NULL ten times, `poll()` returns -1 (EINTR), then
`7->next` = END and the cmpxchg succeeds: 23 events, all observed values well-typed -/
example : ∃ out, exec 12 Gen.Src.«___cds_wfs_pop»
      (envOf [("u_stack", .ptr (.obj 0)), ("state", .int 0), ("blocking", .int 1)] cfgOff)
      ([.ptr (.obj 7)] ++ List.replicate 10 (.int 0) ++ [.int (-1), .int 1, .ptr (.obj 7)]) = .ok out ∧
    out.events.length = 23 ∧ (Event.ext "poll" [.int 0, .int 0, .int 10] (.int (-1))) ∈ out.events ∧
    WTs out.events ∧ out.ctl = .ret (some (.ptr (.obj 7))) ∧
    lr .pop 0 ⟨.popLd true, .void⟩ out.events = some ⟨.idle, .node 7 true⟩ := by
  sexec [Gen.Src.«___cds_wfs_pop», Gen.Src.«___cds_wfs_node_sync_next», Gen.Src.«___cds_wfs_end», envOf, cfgOff,
    List.lookup, iterate, List.replicate, WTs, ObsWT]
  decide

/-- blocking pop with `state`: head = node 7, `7->next` reads NULL once (busy-wait: `caa_cpu_relax`), then END,
the cmpxchg succeeds: 5 events, returns node 7 with `*state = CDS_WFS_STATE_LAST` -/
example : ∃ out, exec 3 Gen.Src.«___cds_wfs_pop»
      (envOf [("u_stack", .ptr (.obj 0)), ("state", .ptr (.obj 50)), ("blocking", .int 1)] cfgOff)
      [.ptr (.obj 7), .int 0, .int 1, .ptr (.obj 7)] = .ok out ∧
    out.events = [.ld (.field (.obj 0) "head") (.ptr (.obj 7)) 1, .ld (.field (.obj 7) "next") (.int 0) 1,
                  .fence .relax, .ld (.field (.obj 7) "next") (.int 1) 1,
                  .cas (.field (.obj 0) "head") (.ptr (.obj 7)) (.int 1) (.ptr (.obj 7)) 5 5] ∧
    out.ctl = .ret (some (.ptr (.obj 7))) ∧ out.env.priv (.obj 50) = some (.int 1) ∧
    lr .pop 0 ⟨.popLd true, .void⟩ out.events = some ⟨.idle, .node 7 true⟩ := by
  sexec [Gen.Src.«___cds_wfs_pop», Gen.Src.«___cds_wfs_node_sync_next», Gen.Src.«___cds_wfs_end», envOf, cfgOff,
    List.lookup, iterate]
  decide

/-- non-blocking pop: `7->next` reads NULL ⇒ CDS_WFS_WOULDBLOCK -/
example : ∃ out, exec 3 Gen.Src.«___cds_wfs_pop»
      (envOf [("u_stack", .ptr (.obj 0)), ("state", .int 0), ("blocking", .int 0)] cfgOff)
      [.ptr (.obj 7), .int 0] = .ok out ∧
    out.events.length = 2 ∧ out.ctl = .ret (some (.int (-1))) ∧
    lr .pop 0 ⟨.popLd false, .void⟩ out.events = some ⟨.idle, .wouldblock⟩ := by
  sexec [Gen.Src.«___cds_wfs_pop», Gen.Src.«___cds_wfs_node_sync_next», Gen.Src.«___cds_wfs_end», envOf, cfgOff,
    List.lookup, iterate]
  decide

/-- the failure case of `___cds_wfs_pop_refines` is real in the IR: a NULL head is dereferenced -/
example : ∃ err, exec 3 Gen.Src.«___cds_wfs_pop»
      (envOf [("u_stack", .ptr (.obj 0)), ("state", .int 0), ("blocking", .int 1)] cfgOff) [.int 0] = .error err := by
  sexec [Gen.Src.«___cds_wfs_pop», Gen.Src.«___cds_wfs_node_sync_next», Gen.Src.«___cds_wfs_end», envOf, cfgOff,
    List.lookup, iterate]

theorem ___cds_wfs_pop_all_refines (fuel : Nat) (env : Env) (inp : List Val) (s : Nat) (cfg : Int) (ls : LState)
    (hs : env.vars "u_stack" = some (.ptr (.obj s)))
    (hcfg : env.priv (.glob "CONFIG_RCU_EMIT_LEGACY_MB") = some (.int cfg))
    (hpc : ls.pc = .idle) (hinp : ∀ v ∈ inp, (dec v).isSome) :
    ∃ out, exec fuel Gen.Src.«___cds_wfs_pop_all» env inp = .ok out ∧
      ∃ ls', lrun ls (out.events.flatMap (absEv .popAll s)) = some ls' ∧ Done out ls' :=
  pop_all_refines fuel env inp s cfg ls hs hcfg hpc hinp

/-- pop_all of a stack whose head is node 7, legacy barrier configured: xchg + mb, returns the head -/
example : ∃ out, exec 0 Gen.Src.«___cds_wfs_pop_all»
      (envOf [("u_stack", .ptr (.obj 0))] cfgOn) [.ptr (.obj 7)] = .ok out ∧
    out.events = [.xchg (.field (.obj 0) "head") (.int 1) (.ptr (.obj 7)) 5, .fence .mb] ∧
    out.ctl = .ret (some (.ptr (.obj 7))) ∧
    lrun ⟨.idle, .void⟩ (out.events.flatMap (absEv .popAll 0)) = some ⟨.idle, .head 7⟩ := by
  sexec [Gen.Src.«___cds_wfs_pop_all», Gen.Src.«___cds_wfs_end», envOf, cfgOn, List.lookup]
  decide

theorem _cds_wfs_empty_refines (fuel : Nat) (env : Env) (inp : List Val) (s : Nat) (ls : LState)
    (hs : env.vars "u_stack" = some (.ptr (.obj s)))
    (hpc : ls.pc = .idle) (hinp : ∀ v ∈ inp, (dec v).isSome) :
    ∃ out, exec fuel Gen.Src.«_cds_wfs_empty» env inp = .ok out ∧
      ∃ ls', lrun ls (out.events.flatMap (absEv .empty s)) = some ls' ∧ Done out ls' :=
  empty_refines fuel env inp s ls hs hpc hinp

/-- `cds_wfs_empty` has a single shared access (no run with 2 events exists) -/
example : ∃ out, exec 0 Gen.Src.«_cds_wfs_empty» (envOf [("u_stack", .ptr (.obj 0))] []) [.int 1] = .ok out ∧
    out.events = [.ld (.field (.obj 0) "head") (.int 1) 0] ∧ out.ctl = .ret (some (.int 1)) ∧
    lrun ⟨.idle, .void⟩ (out.events.flatMap (absEv .empty 0)) = some ⟨.idle, .flag true⟩ := by
  sexec [Gen.Src.«_cds_wfs_empty», Gen.Src.«___cds_wfs_end», envOf, List.lookup]
  decide

-- converse direction (every local L2 path of the call is a prefix of a source trace)
theorem _cds_wfs_push_converse (fuel : Nat) (env : Env) (s n : Nat) (cfg : Int) (r : Wfs.Ret)
    (hs : env.vars "u_stack" = some (.ptr (.obj s))) (hn : env.vars "node" = some (.ptr (.obj n)))
    (hcfg : env.priv (.glob "CONFIG_RCU_EMIT_LEGACY_MB") = some (.int cfg))
    (hnode : Wfs.isNode n) (labels : List LLabel) (ls' : LState)
    (hrun : lrun ⟨.pushX n, r⟩ labels = some ls') (hlen : labels.length ≤ 2) :
    ∃ inp out, (∀ v ∈ inp, (dec v).isSome) ∧ exec fuel Gen.Src.«_cds_wfs_push» env inp = .ok out ∧
      labels <+: out.events.flatMap (absEv .push s) :=
  push_converse fuel env s n cfg r hs hn hcfg hnode labels ls' hrun hlen

theorem ___cds_wfs_pop_all_converse (fuel : Nat) (env : Env) (s : Nat) (cfg : Int) (ls : LState)
    (hs : env.vars "u_stack" = some (.ptr (.obj s)))
    (hcfg : env.priv (.glob "CONFIG_RCU_EMIT_LEGACY_MB") = some (.int cfg))
    (hpc : ls.pc = .idle) (labels : List LLabel)
    (hlab : labels = [] ∨ ∃ old, labels = [.popAll old]) :
    ∃ inp out, (∀ v ∈ inp, (dec v).isSome) ∧ exec fuel Gen.Src.«___cds_wfs_pop_all» env inp = .ok out ∧
      labels <+: out.events.flatMap (absEv .popAll s) ∧ (lrun ls labels).isSome :=
  pop_all_converse fuel env s cfg ls hs hcfg hpc labels hlab

theorem _cds_wfs_empty_converse (fuel : Nat) (env : Env) (s : Nat) (ls : LState)
    (hs : env.vars "u_stack" = some (.ptr (.obj s)))
    (hpc : ls.pc = .idle) (labels : List LLabel)
    (hlab : labels = [] ∨ ∃ h, labels = [.empty h]) :
    ∃ inp out, (∀ v ∈ inp, (dec v).isSome) ∧ exec fuel Gen.Src.«_cds_wfs_empty» env inp = .ok out ∧
      labels <+: out.events.flatMap (absEv .empty s) ∧ (lrun ls labels).isSome :=
  empty_converse fuel env s ls hs hpc labels hlab

/-- the hypotheses of `_cds_wfs_push_converse` are satisfiable by the full two-label path -/
example : lrun ⟨.pushX 7, .void⟩ [.pushX 7 9, .pushSt 7 9] = some ⟨.idle, .flag true⟩ := by decide

end WfsThms

-- ==========================================================================================================
-- lfstack
-- ==========================================================================================================
section LfsThms
open LfsL LfsR

theorem _cds_lfs_push_refines (fuel : Nat) (env : Env) (inp : List Val) (s n : Nat) (cfg : Int) (ls : LState)
    (hs : env.vars "u_s" = some (.ptr (.obj s))) (hn : env.vars "node" = some (.ptr (.obj n)))
    (hcfg : env.priv (.glob "CONFIG_RCU_EMIT_LEGACY_MB") = some (.int cfg))
    (hnode : n ≠ 0) (hpc : ls.pc = .pushSt n 0)
    (hinp : ∀ v ∈ inp, (dec v).isSome) :
    ∃ out, exec fuel Gen.Src.«_cds_lfs_push» env inp = .ok out ∧
      ∃ ls', lr .push s ls out.events = some ls' ∧ Done out ls' ∧
        (∀ r, out.ctl = .ret r → ∃ h, out.env.priv (nextLoc n) = some (enc h) ∧ ls'.ret = .flag (h != 0)) :=
  push_refines fuel env inp s n cfg ls hs hn hcfg hnode hpc hinp

/-- push of node 7: the first cmpxchg (expecting NULL) reads node 9 and fails, the retry (expecting 9) succeeds;
`7->next` = 9 in the private view, returns true -/
example : ∃ out, exec 3 Gen.Src.«_cds_lfs_push»
      (envOf [("u_s", .ptr (.obj 0)), ("node", .ptr (.obj 7))] cfgOff) [.ptr (.obj 9), .ptr (.obj 9)] = .ok out ∧
    out.events = [.cas (.field (.obj 0) "head") (.int 0) (.ptr (.obj 7)) (.ptr (.obj 9)) 5 5,
                  .cas (.field (.obj 0) "head") (.ptr (.obj 9)) (.ptr (.obj 7)) (.ptr (.obj 9)) 5 5] ∧
    out.ctl = .ret (some (.int 1)) ∧ out.env.priv (nextLoc 7) = some (.ptr (.obj 9)) ∧
    lr .push 0 ⟨.pushSt 7 0, .void⟩ out.events = some ⟨.idle, .flag true⟩ := by
  sexec [Gen.Src.«_cds_lfs_push», Gen.Src.«___cds_lfs_empty_head», envOf, cfgOff, List.lookup, iterate, nextLoc]
  decide

theorem ___cds_lfs_pop_refines (fuel : Nat) (env : Env) (inp : List Val) (s : Nat) (cfg : Int) (ls : LState)
    (hs : env.vars "u_s" = some (.ptr (.obj s)))
    (hcfg : env.priv (.glob "CONFIG_RCU_EMIT_LEGACY_MB") = some (.int cfg))
    (hpc : ls.pc = .popLd) (hinp : ∀ v ∈ inp, (dec v).isSome) :
    ∃ out, exec fuel Gen.Src.«___cds_lfs_pop» env inp = .ok out ∧
      ∃ ls', lr .pop s ls out.events = some ls' ∧ Done out ls' :=
  pop_refines fuel env inp s cfg ls hs hcfg hpc hinp

/-- pop: head = 7, `7->next` = 9, the first cmpxchg reads 8 (a push went on top) and fails; retry: head = 8,
`8->next` = 7, cmpxchg succeeds: returns node 8 -/
example : ∃ out, exec 3 Gen.Src.«___cds_lfs_pop» (envOf [("u_s", .ptr (.obj 0))] cfgOff)
      [.ptr (.obj 7), .ptr (.obj 9), .ptr (.obj 8), .ptr (.obj 8), .ptr (.obj 7), .ptr (.obj 8)] = .ok out ∧
    out.events.length = 6 ∧ out.ctl = .ret (some (.ptr (.obj 8))) ∧
    lr .pop 0 ⟨.popLd, .void⟩ out.events = some ⟨.idle, .node 8⟩ := by
  sexec [Gen.Src.«___cds_lfs_pop», Gen.Src.«___cds_lfs_empty_head», envOf, cfgOff, List.lookup, iterate]
  decide

theorem ___cds_lfs_pop_all_refines (fuel : Nat) (env : Env) (inp : List Val) (s : Nat) (cfg : Int) (ls : LState)
    (hs : env.vars "u_s" = some (.ptr (.obj s)))
    (hcfg : env.priv (.glob "CONFIG_RCU_EMIT_LEGACY_MB") = some (.int cfg))
    (hpc : ls.pc = .idle) (hinp : ∀ v ∈ inp, (dec v).isSome) :
    ∃ out, exec fuel Gen.Src.«___cds_lfs_pop_all» env inp = .ok out ∧
      ∃ ls', lr .popAll s ls out.events = some ls' ∧ Done out ls' :=
  pop_all_refines fuel env inp s cfg ls hs hcfg hpc hinp

example : ∃ out, exec 0 Gen.Src.«___cds_lfs_pop_all» (envOf [("u_s", .ptr (.obj 0))] cfgOn) [.ptr (.obj 7)] = .ok out ∧
    out.events = [.xchg (.field (.obj 0) "head") (.int 0) (.ptr (.obj 7)) 5, .fence .mb] ∧
    out.ctl = .ret (some (.ptr (.obj 7))) ∧
    lr .popAll 0 ⟨.idle, .void⟩ out.events = some ⟨.idle, .head 7⟩ := by
  sexec [Gen.Src.«___cds_lfs_pop_all», envOf, cfgOn, List.lookup]
  decide

theorem _cds_lfs_empty_refines (fuel : Nat) (env : Env) (inp : List Val) (s : Nat) (ls : LState)
    (hs : env.vars "s" = some (.ptr (.obj s)))
    (hpc : ls.pc = .idle) (hinp : ∀ v ∈ inp, (dec v).isSome) :
    ∃ out, exec fuel Gen.Src.«_cds_lfs_empty» env inp = .ok out ∧
      ∃ ls', lr .empty s ls out.events = some ls' ∧ Done out ls' :=
  empty_refines fuel env inp s ls hs hpc hinp

/-- `cds_lfs_empty` has a single shared access -/
example : ∃ out, exec 0 Gen.Src.«_cds_lfs_empty» (envOf [("s", .ptr (.obj 0))] []) [.ptr (.obj 7)] = .ok out ∧
    out.events = [.ld (.field (.obj 0) "head") (.ptr (.obj 7)) 0] ∧ out.ctl = .ret (some (.int 0)) ∧
    lr .empty 0 ⟨.idle, .void⟩ out.events = some ⟨.idle, .flag false⟩ := by
  sexec [Gen.Src.«_cds_lfs_empty», Gen.Src.«___cds_lfs_empty_head», envOf, List.lookup]
  decide

-- legacy RCU stack (rculfstack.h), same L2 model
theorem _cds_lfs_push_rcu_refines (fuel : Nat) (env : Env) (inp : List Val) (s n : Nat) (cfg : Int) (ls : LState)
    (hs : env.vars "s" = some (.ptr (.obj s))) (hn : env.vars "node" = some (.ptr (.obj n)))
    (hcfg : env.priv (.glob "CONFIG_RCU_EMIT_LEGACY_MB") = some (.int cfg))
    (hnode : n ≠ 0) (hpc : ls.pc = .pushSt n 0)
    (hinp : ∀ v ∈ inp, (dec v).isSome) :
    ∃ out, exec fuel Gen.Src.«_cds_lfs_push_rcu» env inp = .ok out ∧
      ∃ ls', lr .push s ls out.events = some ls' ∧ Done out ls' ∧
        (∀ r, out.ctl = .ret r → ∃ h, out.env.priv (nextLoc n) = some (enc h) ∧ ls'.ret = .flag (h != 0)) :=
  push_rcu_refines fuel env inp s n cfg ls hs hn hcfg hnode hpc hinp

example : ∃ out, exec 3 Gen.Src.«_cds_lfs_push_rcu»
      (envOf [("s", .ptr (.obj 0)), ("node", .ptr (.obj 7))] cfgOn) [.ptr (.obj 9), .ptr (.obj 9)] = .ok out ∧
    out.events.length = 4 ∧ out.ctl = .ret (some (.int 1)) ∧ out.env.priv (nextLoc 7) = some (.ptr (.obj 9)) ∧
    lr .push 0 ⟨.pushSt 7 0, .void⟩ out.events = some ⟨.idle, .flag true⟩ := by
  sexec [Gen.Src.«_cds_lfs_push_rcu», envOf, cfgOn, List.lookup, iterate, nextLoc]
  decide

theorem _cds_lfs_pop_rcu_refines (fuel : Nat) (env : Env) (inp : List Val) (s : Nat) (cfg : Int) (ls : LState)
    (hs : env.vars "s" = some (.ptr (.obj s)))
    (hcfg : env.priv (.glob "CONFIG_RCU_EMIT_LEGACY_MB") = some (.int cfg))
    (hpc : ls.pc = .popLd) (hinp : ∀ v ∈ inp, (dec v).isSome) :
    ∃ out, exec fuel Gen.Src.«_cds_lfs_pop_rcu» env inp = .ok out ∧
      ∃ ls', lr .pop s ls out.events = some ls' ∧ Done out ls' :=
  pop_rcu_refines fuel env inp s cfg ls hs hcfg hpc hinp

example : ∃ out, exec 3 Gen.Src.«_cds_lfs_pop_rcu» (envOf [("s", .ptr (.obj 0))] cfgOff)
      [.ptr (.obj 7), .ptr (.obj 9), .ptr (.obj 8), .ptr (.obj 8), .ptr (.obj 7), .ptr (.obj 8)] = .ok out ∧
    out.events.length = 6 ∧ out.ctl = .ret (some (.ptr (.obj 8))) ∧
    lr .pop 0 ⟨.popLd, .void⟩ out.events = some ⟨.idle, .node 8⟩ := by
  sexec [Gen.Src.«_cds_lfs_pop_rcu», envOf, cfgOff, List.lookup, iterate]
  decide

-- converse direction
theorem ___cds_lfs_pop_all_converse (fuel : Nat) (env : Env) (s : Nat) (cfg : Int) (ls : LState)
    (hs : env.vars "u_s" = some (.ptr (.obj s)))
    (hcfg : env.priv (.glob "CONFIG_RCU_EMIT_LEGACY_MB") = some (.int cfg))
    (hpc : ls.pc = .idle) (labels : List LLabel)
    (hlab : labels = [] ∨ ∃ old, labels = [.popAll old]) :
    ∃ inp out, (∀ v ∈ inp, (dec v).isSome) ∧ exec fuel Gen.Src.«___cds_lfs_pop_all» env inp = .ok out ∧
      labels <+: out.events.flatMap (absEv .popAll s) ∧ (lrun ls labels).isSome :=
  pop_all_converse fuel env s cfg ls hs hcfg hpc labels hlab

/-- converse for the CAS retry loop of `_cds_lfs_push`: every path of the local automaton from the entry pc that
stays within the call (`Within`: no label is taken from `idle`; it implies `lrun` accepts the path) is a prefix of
the abstraction of a source run under a well-typed oracle, for a sufficient loop budget -/
theorem _cds_lfs_push_converse (env : Env) (s n : Nat) (cfg : Int) (r : Lfs.Ret)
    (hs : env.vars "u_s" = some (.ptr (.obj s))) (hn : env.vars "node" = some (.ptr (.obj n)))
    (hcfg : env.priv (.glob "CONFIG_RCU_EMIT_LEGACY_MB") = some (.int cfg))
    (hnode : n ≠ 0) (labels : List LLabel) (hw : Within ⟨.pushSt n 0, r⟩ labels) :
    ∃ fuel inp out, (∀ v ∈ inp, (dec v).isSome) ∧ exec fuel Gen.Src.«_cds_lfs_push» env inp = .ok out ∧
      labels <+: out.events.flatMap (absEv .push s) :=
  push_converse env s n cfg r hs hn hcfg hnode labels hw

theorem lfs_within_lrun (labels : List LLabel) (ls : LState) (h : Within ls labels) : (lrun ls labels).isSome :=
  within_lrun labels ls h

example : Within ⟨.pushSt 7 0, .void⟩ [.pushSt 7 0, .pushCas 7 0 9, .pushSt 7 9, .pushCas 7 9 9] :=
  ⟨by decide, _, rfl, by decide, _, rfl, by decide, _, rfl, by decide, _, rfl, trivial⟩

theorem _cds_lfs_empty_converse (fuel : Nat) (env : Env) (s : Nat) (ls : LState)
    (hs : env.vars "s" = some (.ptr (.obj s)))
    (hpc : ls.pc = .idle) (labels : List LLabel)
    (hlab : labels = [] ∨ ∃ h, labels = [.empty h]) :
    ∃ inp out, (∀ v ∈ inp, (dec v).isSome) ∧ exec fuel Gen.Src.«_cds_lfs_empty» env inp = .ok out ∧
      labels <+: out.events.flatMap (absEv .empty s) ∧ (lrun ls labels).isSome :=
  empty_converse fuel env s ls hs hpc labels hlab

end LfsThms

-- ==========================================================================================================
-- legacy wait-free queue cds_wfq (wfqueue.h): _cds_wfq_enqueue against `Wfq`
-- ==========================================================================================================
section WfqThms
open WfqL WfqR

theorem wfq_proj_step (s s' : Wfq.State) (t : Nat) (L : Wfq.Label)
    (hL : ∃ l0, toL2 t l0 = some L) (h : Wfq.step s L = some s') :
    ∃ l, toL2 t l = some L ∧ Obs s t l ∧ Guard s t l ∧ lstep (proj s t) l = some (proj s' t) :=
  proj_step s s' t L hL h

theorem wfq_lift_step (s : Wfq.State) (t : Nat) (l : LLabel) (L : Wfq.Label) (ls' : LState)
    (hL : toL2 t l = some L) (ho : Obs s t l) (hg : Guard s t l) (h : lstep (proj s t) l = some ls') :
    ∃ s', Wfq.step s L = some s' ∧ proj s' t = ls' :=
  lift_step s t l L ls' hL ho hg h

theorem wfq_frame (s s' : Wfq.State) (t : Nat) (L : Wfq.Label)
    (ht : L.tid ≠ t) (h : Wfq.step s L = some s') : proj s' t = proj s t :=
  frame s s' t L ht h

theorem wfq_frame_own (s s' : Wfq.State) (t : Nat) (L : Wfq.Label)
    (hL : L = .flush t ∨ L = .acquire t ∨ L = .release t)
    (h : Wfq.step s L = some s') : proj s' t = proj s t :=
  frame_own s s' t L hL h

theorem _cds_wfq_enqueue_refines (fuel : Nat) (env : Env) (inp : List Val) (q n : Nat) (ln : Loc) (cfg : Int)
    (ls : LState)
    (hq : env.vars "q" = some (.ptr (.obj q))) (hn : env.vars "node" = some (.ptr ln))
    (hln : decNode q ln = some n)
    (hcfg : env.priv (.glob "CONFIG_RCU_EMIT_LEGACY_MB") = some (.int cfg))
    (hpc : ls = if n = Wfq.D then .redo else .idle)
    (hinp : ∀ v ∈ inp, (decTail q v).isSome) :
    ∃ out, exec fuel Gen.Src.«_cds_wfq_enqueue» env inp = .ok out ∧
      ∃ ls', lr q ls out.events = some ls' ∧
        (out.ctl = .blocked ∨ (out.ctl = .normal ∧ ls' = if n = Wfq.D then .q1 else .done .unit)) :=
  enqueue_refines fuel env inp q n ln cfg ls hq hn hln hcfg hpc hinp

/-- enqueue of node 7 on the empty queue 0 (tail = `&dummy.next`), legacy barrier configured: mb, xchg, store -/
example : ∃ out, exec 0 Gen.Src.«_cds_wfq_enqueue»
      (envOf [("q", .ptr (.obj 0)), ("node", .ptr (.obj 7))] cfgOn)
      [.ptr (.field (.field (.obj 0) "dummy") "next")] = .ok out ∧
    out.events = [.fence .mb,
                  .xchg (.field (.obj 0) "tail") (.ptr (.field (.obj 7) "next"))
                    (.ptr (.field (.field (.obj 0) "dummy") "next")) 5,
                  .st (.field (.field (.obj 0) "dummy") "next") (.ptr (.obj 7)) 3] ∧
    out.ctl = .normal ∧
    lr 0 .idle out.events = some (.done .unit) := by
  sexec [Gen.Src.«_cds_wfq_enqueue», envOf, cfgOn, List.lookup]
  decide

/-- the dummy re-enqueue inside dequeue: from `redo`, back to `q1` -/
example : ∃ out, exec 0 Gen.Src.«_cds_wfq_enqueue»
      (envOf [("q", .ptr (.obj 0)), ("node", .ptr (.field (.obj 0) "dummy"))] cfgOff)
      [.ptr (.field (.obj 7) "next")] = .ok out ∧
    out.events.length = 2 ∧ lr 0 .redo out.events = some .q1 := by
  sexec [Gen.Src.«_cds_wfq_enqueue», envOf, cfgOff, List.lookup]
  decide

end WfqThms

end UrcuVerif.Props.SrcStack
