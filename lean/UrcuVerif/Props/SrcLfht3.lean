import UrcuVerif.Src.Lfht3Add
import UrcuVerif.Src.Lfht3Repl
/-!
# Source IR of `src/rculfhash.c` ⊑ thread-local projection of L2 (`Lfht/Conc`), part 3: the insertion

Proved here, for the **generated** values `Gen.Src.«lfht._cds_lfht_add»` (called with `unique_ret = NULL`,
`bucket_flag = 0`: what `cds_lfht_add` passes) and `Gen.Src.«lfht.cds_lfht_add»`, every budget and every oracle that
delivers well-typed words passing the `urcu_posix_assert`s of the source (`LfhtAR.OracleOk`): the run does not fail, its
events are accepted by the local automaton `LfhtA.lstep` (L2 labels `ldSize` at `aSize`, `ldHeadA`, `ldNextA`, `casIns`,
`casGc` at `aGc`, each with the address and the values L2 prescribes; every retry of the outer loop included), and when
the function returns L2's thread is back at `idle` with `Out.unit`; the private store `node->next = clear_flag(iter)`
that L2 folds into `casIns` wrote the word L2 gives the node.  The projection lemmas of the local automaton against
the real L2 `step` are `LfhtA.proj_step` / `LfhtA.lift_step` (all modes but the `bkt` success of `casIns`).
See `Src/Lfht3Local.lean` (`LLabel`, `lstep`, `decor`), `Src/Lfht3Add.lean` (`absEv`, `obsLabel`, `OracleOk`).
-/
namespace UrcuVerif.Props.SrcLfht3
open UrcuVerif UrcuVerif.Src UrcuVerif.Lfht.Conc UrcuVerif.Src.LfhtA UrcuVerif.Src.LfhtR UrcuVerif.Src.LfhtAR

/-- `_cds_lfht_add(ht, hash, match, key, size, node, NULL, 0)` from L2's pc `aHead` (`bucket_at` still to be called) -/
theorem _cds_lfht_add_refines (fuel : Nat) (rev : Nat → Nat) (env : Env) (inp : List Val) (x : Thr)
    (o0 : Lfht.Conc.Out) (ht : Nat) (fp : Val)
    (hht : env.vars "ht" = some (.ptr (.obj ht))) (hhash : env.vars "hash" = some (.int x.hs))
    (hsz : env.vars "size" = some (.int x.sz)) (hnode : env.vars "node" = some (.ptr (.obj x.node)))
    (hur : env.vars "unique_ret" = some (.int 0)) (hbf : env.vars "bucket_flag" = some (.int 0))
    (hn0 : x.node ≠ 0) (hsz1 : 1 ≤ x.sz)
    (hfp : env.priv (.field (.obj ht) "bucket_at") = some fp) (hrev : RevView rev env.priv)
    (hpc : x.pc = .aHead) (hmode : x.mode = .plain)
    (hO : LfhtAR.OracleOk rev { x := x, pend := .bkt, out := o0 } inp) :
    ∃ out, exec fuel Gen.Src.«lfht._cds_lfht_add» env inp = .ok out ∧
      ∃ ls', LfhtA.lrun rev { x := x, pend := .bkt, out := o0 } (out.events.map LfhtAR.absEv) = some ls' ∧
        (out.ctl = .blocked ∨ out.ctl = .fuel ∨
          (out.ctl = .normal ∧ ls'.out = .unit ∧ ls'.x.pc = .idle ∧ ls'.x.op = .none ∧ ls'.pend = .none ∧
            out.env.priv (.field (.obj ls'.x.node) "next") = some (encW { ptr := ls'.x.iter.ptr }) ∧
            RevView rev out.env.priv)) :=
  add_exec fuel rev env inp x o0 ht fp hht hhash hsz hnode hur hbf hn0 hsz1 hfp hrev hpc hmode hO

/-- `cds_lfht_add(ht, hash, node)` from L2's state after `callAdd .plain node hash key` (pc `aSize`) -/
theorem cds_lfht_add_refines (fuel : Nat) (rev : Nat → Nat) (env : Env) (inp : List Val) (x : Thr)
    (o0 : Lfht.Conc.Out) (ht : Nat) (fp : Val)
    (hht : env.vars "ht" = some (.ptr (.obj ht))) (hhash : env.vars "hash" = some (.int x.hs))
    (hnode : env.vars "node" = some (.ptr (.obj x.node))) (hn0 : x.node ≠ 0)
    (hfp : env.priv (.field (.obj ht) "bucket_at") = some fp)
    (hrev : ∀ n, n ≠ 0 → n ≠ x.node → env.priv (.field (.obj n) "reverse_hash") = some (.int (rev n)))
    (hpc : x.pc = .aSize) (hmode : x.mode = .plain)
    (hO : LfhtAR.OracleOk rev { x := x, pend := .none, out := o0 } inp) :
    ∃ out, exec fuel Gen.Src.«lfht.cds_lfht_add» env inp = .ok out ∧
      ∃ ls', LfhtA.lrun rev { x := x, pend := .none, out := o0 } (out.events.map LfhtAR.absEv) = some ls' ∧
        (out.ctl = .blocked ∨ out.ctl = .fuel ∨
          (out.ctl = .normal ∧ ls'.out = .unit ∧ ls'.x.pc = .idle ∧ ls'.x.op = .none ∧ ls'.pend = .none ∧
            out.env.priv (.field (.obj ls'.x.node) "next") = some (encW { ptr := ls'.x.iter.ptr }))) :=
  add_wrapper_exec fuel rev env inp x o0 ht fp hht hhash hnode hn0 hfp hrev hpc hmode hO

/-! The projection / lifting lemmas against the real L2 `step`: `LfhtA.proj_step` (L2 step ⇒ local run `decor s t L`
with the values of the global state, same `Out`), `LfhtA.lift_step` (thread at the pc of the label + local run + global
guard `t < c.n`, `okp` ⇒ enabled L2 step with the projected successor); the frame lemma is the one of
`Src/LfhtFrame.lean` (`proj` is `s.th t`, as there). -/
#check @LfhtA.proj_step
#check @LfhtA.lift_step

-- ==========================================================================================================
-- non-vacuity: bucket 1 → node 5 → END; node 7 is added (`reverse_hash` of node n is n)
-- ==========================================================================================================
def exPriv : Loc → Option Val
  | .field (.obj n) f => if f = "reverse_hash" then some (.int n) else if f = "bucket_at" then some (.int 77) else none
  | _ => none

theorem exPriv_rev : RevView (fun n => n) exPriv := by intro n _; simp [exPriv]

def addEnv : Env :=
  { vars := fun y => if y = "ht" then some (.ptr (.obj 100)) else if y = "hash" then some (.int 0)
      else if y = "size" then some (.int 1) else if y = "node" then some (.ptr (.obj 7))
      else if y = "unique_ret" then some (.int 0) else if y = "bucket_flag" then some (.int 0)
      else if y = "match" then some (.int 0) else if y = "key" then some (.int 0) else none,
    priv := exPriv }
def addX : Thr := { pc := .aHead, node := 7, sz := 1, hs := 0, op := .add, mode := .plain }
/-- `bucket_at(ht, 0)` = node 1; `1->next = 5`; `5->next = END`; `check_resize` returns; the insertion cmpxchg on
`5->next` reads `END`: it succeeds -/
def addInp : List Val := [.ptr (.obj 1), encW { ptr := 5 }, encW { ptr := 0 }, .int 0, encW { ptr := 0 }]

example : LfhtAR.OracleOk (fun n => n) { x := addX, pend := .bkt, out := .unit } addInp := by
  simp [LfhtAR.OracleOk, addInp, addX, LfhtAR.active, LfhtAR.obsLabel, LfhtA.lstep, laddPos, laddDone, needsChk,
    LfhtA.mk]

set_option maxRecDepth 8192 in
/-- the run: 5 events (`bucket_at`, `ldHeadA`, `ldNextA` + `check_resize`, `casIns`), returns, L2's thread is `idle` -/
example : ∃ out, exec 3 Gen.Src.«lfht._cds_lfht_add» addEnv addInp = .ok out ∧
    out.events = [.ext "(*bucket_at)" [.int 77, .ptr (.obj 100), .int 0] (.ptr (.obj 1)),
                  .ld (.field (.obj 1) "next") (encW { ptr := 5 }) 1,
                  .ld (.field (.obj 5) "next") (encW { ptr := 0 }) 1,
                  .ext "check_resize" [.ptr (.obj 100), .int 1, .int 1] (.int 0),
                  .cas (.field (.obj 5) "next") (.int 0) (.ptr (.obj 7)) (.int 0) 6 0] ∧
    out.ctl = .normal ∧ out.env.priv (.field (.obj 7) "next") = some (.int 0) ∧
    ∃ ls', LfhtA.lrun (fun n => n) { x := addX, pend := .bkt, out := .unit } (out.events.map LfhtAR.absEv) = some ls' ∧
      ls'.x.pc = .idle ∧ ls'.x.iter = { ptr := 0 } ∧ ls'.x.prev = 5 := by
  lexec [Gen.Src.«lfht._cds_lfht_add», Gen.Src.«lfht.lookup_bucket», Gen.Src.«lfht.bucket_at», exec_call,
    addEnv, addInp, iterate, Gen.Src.«lfht.is_end», Gen.Src.«lfht.clear_flag», Gen.Src.«lfht.is_removed»,
    Gen.Src.«lfht.is_removal_owner», Gen.Src.«lfht.is_bucket», Gen.Src.«lfht.flag_bucket», exPriv, encP]
  have h7 : decW (.ptr (.obj 7)) = some { ptr := 7 } := by decide
  simp [LfhtAR.absEv, LfhtA.lrun, LfhtA.lstep, addX, laddPos, laddDone, needsChk, LfhtA.mk, h7]
  rfl

def addWEnv : Env :=
  { vars := fun y => if y = "ht" then some (.ptr (.obj 100)) else if y = "hash" then some (.int 0)
      else if y = "node" then some (.ptr (.obj 7)) else none,
    priv := fun l => if l = .field (.obj 7) "reverse_hash" then none else exPriv l }
def addWX : Thr := { pc := .aSize, node := 7, hs := 0, op := .add, mode := .plain }
/-- `bit_reverse_ulong(0)` = 7 (the model's `rev 7`); `ht->size` = 1; then `addInp`; `ht_count_add` returns -/
def addWInp : List Val := .int 7 :: .int 1 :: (addInp ++ [.int 0])

example : LfhtAR.OracleOk (fun n => n) { x := addWX, pend := .none, out := .unit } addWInp := by
  simp [LfhtAR.OracleOk, addWInp, addInp, addWX, LfhtAR.active, LfhtAR.obsLabel, LfhtA.lstep, laddPos, laddDone,
    needsChk, LfhtA.mk]

example : ∀ n, n ≠ 0 → n ≠ addWX.node →
    addWEnv.priv (.field (.obj n) "reverse_hash") = some (.int ((fun n => n) n)) := by
  intro n _ h; simp [addWEnv, exPriv, addWX] at h ⊢; exact h

set_option maxRecDepth 8192 in
/-- the run of `cds_lfht_add`: 8 events, returns, L2's thread is `idle` -/
example : ∃ out, exec 3 Gen.Src.«lfht.cds_lfht_add» addWEnv addWInp = .ok out ∧
    out.events.length = 8 ∧ out.ctl = .normal ∧
    ∃ ls', LfhtA.lrun (fun n => n) { x := addWX, pend := .none, out := .unit } (out.events.map LfhtAR.absEv) = some ls' ∧
      ls'.x.pc = .idle ∧ ls'.x.sz = 1 ∧ ls'.x.bkt = 1 := by
  lexec [Gen.Src.«lfht.cds_lfht_add», Gen.Src.«lfht._cds_lfht_add», Gen.Src.«lfht.lookup_bucket»,
    Gen.Src.«lfht.bucket_at», exec_call,
    addWEnv, addWInp, addInp, iterate, Gen.Src.«lfht.is_end», Gen.Src.«lfht.clear_flag», Gen.Src.«lfht.is_removed»,
    Gen.Src.«lfht.is_removal_owner», Gen.Src.«lfht.is_bucket», Gen.Src.«lfht.flag_bucket», exPriv, encP]
  have h7 : decW (.ptr (.obj 7)) = some { ptr := 7 } := by decide
  simp [LfhtAR.absEv, LfhtA.lrun, LfhtA.lstep, addWX, laddPos, laddDone, needsChk, LfhtA.mk, h7]

-- ==========================================================================================================
-- `_cds_lfht_replace` (partial): the cmpxchg retry loop, and the projection lemma of `casRepl` / `ldAssertR`
-- ==========================================================================================================
open UrcuVerif.Src.LfhtP in
/-- the `for (;;)` of `_cds_lfht_replace` (`LfhtP.repl_shape`: `LfhtP.replBody` is its body in the generated value) from
L2's pc `rCas`: every run is accepted by `LfhtP.lstepR` (= `LfhtL.lstep` extended by `rCas` / `rAssert`); it ends out of
budget, preempted, with `return -ENOENT` (L2's `replTest` on a REMOVED word), or with `break` after the successful
cmpxchg: then L2's thread is at `handover x` (`gHead`, `gcont = repl`, `bit_reverse_ulong` / `bucket_at` pending), the
remaining oracle is one of the gc pass, and `new_node->next` holds the word L2's `casRepl` gives the new node -/
theorem _cds_lfht_replace_loop_refines (fuel : Nat) (rev : Nat → Nat) (env : Env) (inp : List Val) (x : Thr)
    (o0 : Lfht.Conc.Out) (htv szv : Val)
    (hold : env.vars "old_node" = some (.ptr (.obj x.old))) (hnew : env.vars "new_node" = some (.ptr (.obj x.node)))
    (hht : env.vars "ht" = some htv) (hsz : env.vars "size" = some szv)
    (honx : env.vars "old_next" = some (encW x.oldnx))
    (ho0 : x.old ≠ 0) (hn0 : x.node ≠ 0) (hpc : x.pc = .rCas)
    (hr : x.oldnx.rem = false) (hb : x.oldnx.bkt = false) (hw : x.oldnx.own = false)
    (hO : ROracle rev x inp) :
    ∃ out, exec fuel (.loop replBody) env inp = .ok out ∧
      ∃ ls', lrunR rev { x := x, pend := .none, out := o0 } (out.events.map LfhtR.absEv) = some ls' ∧
        (out.ctl = .fuel ∨ out.ctl = .blocked ∨
          (out.ctl = .ret (some (.int (-2))) ∧ ∃ y w, w.rem = true ∧ y.old = x.old ∧ y.node = x.node ∧
            ls' = LfhtL.mk (LfhtW.lreplTest y w).1 (LfhtW.lreplTest y w).2) ∨
          (out.ctl = .normal ∧ PrivExc env.priv x.node out.env.priv ∧
            ∃ y, ls' = handover y ∧ y.old = x.old ∧ y.node = x.node ∧
              out.env.priv (.field (.obj x.node) "next") = some (encW { ptr := y.oldnx.ptr }) ∧
              LfhtR.OracleOk rev ls' out.inp)) := by
  rw [exec_loop]
  obtain ⟨out, hout, ls', hl, hfin⟩ := repl_loop fuel rev env.priv x.old x.node htv szv ho0 hn0 env inp
    { x := x, pend := .none, out := o0 } _ rfl
    ⟨hold, hnew, hht, hsz, fun _ _ => rfl, .inl ⟨honx, rfl, hpc, rfl, rfl, hr, hb, hw, hO⟩⟩
  refine ⟨out, hout, ls', hl, ?_⟩
  rcases hfin with hf | ⟨c, hc, hR, hctl⟩
  · exact .inl hf
  · cases c <;> simp [Ctl.goesOn] at hc <;> simp only [RR] at hR <;> simp only [Ctl.afterLoop] at hctl
    · obtain ⟨-, -, -, -, hpe, y, hy, h1, h2, h3, h4⟩ := hR
      exact .inr (.inr (.inr ⟨hctl, hpe, y, hy, h1, h2, h3, h4⟩))
    · obtain ⟨rfl, y, w, h1, h2, h3, h4⟩ := hR
      exact .inr (.inr (.inl ⟨hctl, y, w, h1, h2, h3, h4⟩))
    · exact .inr (.inl hctl)

#check @LfhtP.proj_stepR
#check @LfhtP.lrun_lift

/-- non-vacuity: `old_node` = 5, `new_node` = 7, `old_next` = 9; the first cmpxchg reads 8 (fails, retry with 8), the
second reads 8: success -/
example : LfhtP.ROracle (fun n => n) { pc := .rCas, old := 5, node := 7, oldnx := { ptr := 9 } }
    [encW { ptr := 8 }, encW { ptr := 8 }] := by
  simp [LfhtP.ROracle, LfhtR.OracleOk]

end UrcuVerif.Props.SrcLfht3
