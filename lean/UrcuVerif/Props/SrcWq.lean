import UrcuVerif.Src.WqLocal
import UrcuVerif.Src.WqRefine
import UrcuVerif.Src.WqWorker
/-!
# Source refinement, component "work queue": generated IR of `src/workqueue.c` ⊑ L2 (`Wq/Model.lean`), thread-locally

Final statements only (proofs: `Src/WqLocal.lean`, `Src/WqRefine.lean`, `Src/WqWorker.lean`).  Every theorem is about the
**generated** value `UrcuVerif.Gen.Src.«f»` (for the worker: about statements *extracted* from the generated
`«workqueue_thread»` by position, `WqR.wTop`, …), for every loop budget `fuel` and every well-typed oracle `inp`, i.e. for
every prefix of every event sequence of the source text.

* application threads: local state = L2's `tpc t`; labels `WqL.TLabel` = accesses with the values observed;
  `WqR.absEvT L` decodes events under the address layout `L`; `WqL.tL2` = the L2 label(s) an access stands for;
* the worker: local state `WqL.WLState` (pc refining L2's `wpc` by the position in the traversal of the private list,
  `cbcount`, `rt`); labels `WqL.WLabel`; `WqR.absEvW L`.

**Queue oracle discipline** (where L2 abstracts the wfcqueue as a list – justified by C10 and `Props/SrcQueue.lean`):
the enqueue is L2's `enq` at the exchange of the tail (the value exchanged is a pointer; the delayed `next` store is
silent); the worker's splice is L2's `wSplice` at the exchange of the public tail; the traversal returns L2's `batch`
(global guard of `run`).
-/
set_option linter.unusedSimpArgs false
set_option maxRecDepth 8192
namespace UrcuVerif.Props.SrcWq
open UrcuVerif UrcuVerif.Src UrcuVerif.Wq UrcuVerif.Src.WqL UrcuVerif.Src.WqR

/-! ## projection / lift / frame lemmas of the local automata against the real L2 `step` -/

/-- a local step with the observed values of the global state and the global guard IS the enabled L2 step(s) -/
theorem wq_thread_lift (c : Cfg) (s : State) (t : Nat) (l : TLabel) (pc' : TPc)
    (hl : tstep (s.tpc t) l = some pc') (ho : tObs c s t l) (hg : tGuard c s t l) :
    ∃ s', Wq.run c s (tL2 t (s.tpc t) l) = some s' ∧ s'.tpc t = pc' := tproj_lift c s t l pc' hl ho hg

/-- an L2 step of thread `t` is the local step, with the observed values -/
theorem wq_thread_proj (c : Cfg) (s s' : State) (t : Nat) (l : TLabel) (L : Label)
    (hL : tL2 t (s.tpc t) l = [L]) (st : step c s L = some s') (ho : tObs c s t l)
    (hx : ∀ id, l = .xchgTail id → ∃ k, s.tpc t = .enq id k) :
    tstep (s.tpc t) l = some (s'.tpc t) := tproj_step c s s' t l L hL st ho hx

/-- labels of other threads, of the worker (other than `cWake`) and of the memory system (`flush u`, every `u`) leave
`tpc t` unchanged; `fork u` resets it (the child has only the forking thread) -/
theorem wq_thread_frame (c : Cfg) (s s' : State) (t : Nat) (L : Label) (st : step c s L = some s')
    (ho : owner L ≠ some t) (hf : ∀ u, L ≠ .fork u) (hw : L ≠ .cWake) : s'.tpc t = s.tpc t :=
  tframe c s s' t L st ho hf hw

theorem wq_thread_frame_cWake (c : Cfg) (s s' : State) (t : Nat) (st : step c s .cWake = some s') :
    s'.tpc t = (match s.tpc t with
      | .wcAsleep b => if curB s = some b ∧ s.cowner b = t then .wcWaitLd b else .wcAsleep b
      | p => p) ∨ s'.tpc t = s.tpc t := tframe_cWake c s s' t st

/-- labels of the application threads and of the memory system (other than a waker's FUTEX_WAKE, `fork`, `createWorker`)
leave the worker's pc, `cbcount`, private list and current work unchanged -/
theorem wq_worker_frame (c : Cfg) (s s' : State) (L : Label) (st : step c s L = some s') (hw : isWorkerLabel L = false)
    (hk : ∀ t, L ≠ .wake t) (hf : ∀ t, L ≠ .fork t) (hc : ∀ t, L ≠ .createWorker t) :
    s'.wpc = s.wpc ∧ s'.cnt = s.cnt ∧ s'.batch = s.batch ∧ s'.cur = s.cur := wframe c s s' L st hw hk hf hc

/-- a waker's FUTEX_WAKE moves a sleeping worker to the re-check of the futex word and does nothing else to it -/
theorem wq_worker_frame_wake (c : Cfg) (s s' : State) (t : Nat) (st : step c s (.wake t) = some s') :
    s'.wpc = (if s.wpc = .asleep then .waitLd else s.wpc) ∧ s'.cnt = s.cnt ∧ s'.batch = s.batch ∧ s'.cur = s.cur :=
  wframe_wake c s s' t st

/-- **C16 at the level of the worker's local automaton**: between setting PAUSED and clearing it only flag accesses are
accepted (no splice, no traversal, no work function call), `cbcount` does not change -/
theorem wq_worker_paused_quiescent (ls ls' : WLState) (l : WLabel) (h : wstep ls l = some ls')
    (hp : ls.pc = .at .pausing ∨ ls.pc = .at .paused ∨ ls.pc = .at .unpausing) :
    (l = .setPaused ∨ l = .clrPaused ∨ ∃ f, l = .ldFl f) ∧ ls'.cnt = ls.cnt ∧
      (ls'.pc = .at .paused ∨ ls'.pc = .at .unpausing ∨ ls'.pc = .at .splice) := wstep_paused_quiescent ls ls' l h hp

/-- a work function is called only for the node whose successor has just been fetched, and `cbcount` goes up by one -/
theorem wq_worker_run (ls ls' : WLState) (c : Loc) (h : wstep ls (.run c) = some ls') :
    (∃ nxt, ls.pc = .ready c nxt ∧
      ((nxt = .int 0 ∧ ls'.pc = .at .sub) ∨ (∃ c2, nxt = .ptr c2 ∧ ls'.pc = .fetch0 c2))) ∧ ls'.cnt = ls.cnt + 1 :=
  wstep_run ls ls' c h

/-! ## application threads -/
section threads
variable (L : Layout)

/-- **`wake_worker_thread(workqueue)`** (with `futex_wake_up(&workqueue->futex)`) from L2's `ldFlags k`:
`ldFlags ; [ldFutex ; [stFutex ; wake]]`; never fails; a completed call is at `k.cont`. -/
theorem wake_worker_thread_refines (k : K) (P : List Val → Prop) (fuel : Nat) (priv : Loc → Option Val) (inp : List Val)
    (hi : WakeInp P inp) :
    ∃ out, exec fuel Gen.Src.«wake_worker_thread»
        ⟨bindParams Gen.Src.«wake_worker_thread.params» [.ptr L.W], priv⟩ inp = .ok out ∧ WakePost L k P priv out :=
  wake_worker_exec L k P rfl (by simp [bindParams, Gen.Src.«wake_worker_thread.params»]) hi

/-- **`urcu_workqueue_queue_work(workqueue, work, func)`** from L2's `enq id k` (after the entry label `qCall` / `qcInc`),
`work` = work item `id`: never fails; the events are `enq ; inc ; ldFlags ; [ldFutex ; [stFutex ; wake]]` with the values
observed; `work->func == func` at return; a completed call is at the continuation `k.cont` of the wake path.
Side conditions: `QwInp` (the exchanged tail is a pointer, the flags word a non-negative integer, FUTEX_WAKE does not
fail). -/
theorem urcu_workqueue_queue_work_refines (k : K) (P : List Val → Prop) (fuel : Nat) (priv : Loc → Option Val)
    (inp : List Val) (w : Loc) (id : Nat) (fv : Val) (mbv : Int) (hid : L.wid w = some id)
    (hcfg : priv (.glob "CONFIG_RCU_EMIT_LEGACY_MB") = some (.int mbv)) (hi : QwInp P inp) :
    ∃ out, exec fuel Gen.Src.«urcu_workqueue_queue_work»
        ⟨bindParams Gen.Src.«urcu_workqueue_queue_work.params» [.ptr L.W, .ptr w, fv], priv⟩ inp = .ok out ∧
      QwPost L id k P w fv out :=
  queue_work_exec L k P w id fv mbv rfl (by simp [bindParams, Gen.Src.«urcu_workqueue_queue_work.params»])
    (by simp [bindParams, Gen.Src.«urcu_workqueue_queue_work.params»]) hid
    (by simp [bindParams, Gen.Src.«urcu_workqueue_queue_work.params»]) hcfg hi

/-- **`urcu_workqueue_pause_worker(workqueue)`** from L2's `idle`, every loop budget: `pOr ;` wake path `;` stutter loads
`; pSee`; never fails; a completed call is at `holding` (it has seen PAUSED). -/
theorem urcu_workqueue_pause_worker_refines (fuel : Nat) (priv : Loc → Option Val) (inp : List Val) (hi : PauseInp inp) :
    ∃ out, exec fuel Gen.Src.«urcu_workqueue_pause_worker»
        ⟨bindParams Gen.Src.«urcu_workqueue_pause_worker.params» [.ptr L.W], priv⟩ inp = .ok out ∧ PausePost L out :=
  pause_worker_exec L fuel _ inp (by simp [bindParams, Gen.Src.«urcu_workqueue_pause_worker.params»]) hi

/-- **`urcu_workqueue_resume_worker(workqueue)`** from L2's `holding`, every loop budget: `rAnd ;` stutter loads `; rSee`;
never fails; a completed call is at `idle` (it has seen PAUSED clear). -/
theorem urcu_workqueue_resume_worker_refines (fuel : Nat) (priv : Loc → Option Val) (inp : List Val) (hi : ResumeInp inp) :
    ∃ out, exec fuel Gen.Src.«urcu_workqueue_resume_worker»
        ⟨bindParams Gen.Src.«urcu_workqueue_resume_worker.params» [.ptr L.W], priv⟩ inp = .ok out ∧ ResumePost L out :=
  resume_worker_exec L fuel _ inp (by simp [bindParams, Gen.Src.«urcu_workqueue_resume_worker.params»]) hi

end threads

/-! ## the worker -/
section worker
variable (L : Layout)

/-- **`workqueue_thread`, top of the main loop** (`WqR.wTop` = the load of the flags and the `if (… & PAUSE) { … }`,
statements 2 and 3 of the generated loop body) from L2's `top`, every loop budget, hooks unset: `wTop ; [wPause ;` stutter
loads `; wSeeResume ; wUnpause]`; never fails; **every event is quiescent** (`quietEv`: a fence, an access to the flags
word or `poll`): no work is run, no list is touched between seeing PAUSE and clearing PAUSED – the statement C16 needs. -/
theorem workqueue_thread_pause_branch_refines (fuel : Nat) (env : Env) (inp : List Val) (ls : WLState)
    (hpc : ls.pc = .at .top) (hw : env.vars "workqueue" = some (.ptr L.W))
    (hh1 : env.priv (.field L.W "worker_before_pause_fct") = some (.int 0))
    (hh2 : env.priv (.field L.W "worker_after_resume_fct") = some (.int 0)) (hi : TopInp inp) :
    ∃ out, exec fuel wTop env inp = .ok out ∧ TopPost L ls out :=
  worker_top_exec L fuel env inp ls hpc hw hh1 hh2 hi

/-- `wTop` really is a piece of the generated worker: the loop body is the first loop of `«workqueue_thread»`, and `wTop`
its statements 2 and 3 -/
example : firstLoop Gen.Src.«workqueue_thread» = some wBody := rfl
example : ∃ s0 s1 rest, wBody = .seq s0 (.seq s1 (.seq (seqNth 2 wBody) (.seq (seqNth 3 wBody) rest))) := ⟨_, _, _, rfl⟩

/-- **`workqueue_thread`, one batch** (`WqR.wForEach` = the traversal loop `__cds_wfcq_for_each_blocking_safe(&cbs_tmp…)`
and `uatomic_sub(&workqueue->qlen, cbcount)`, statements 4 and 5 of the non-empty branch, statement 7 of the generated
loop body) from L2's `inv` with `_t9` = the first node (`FeInv`), every loop budget.  PARTIAL: for the oracles `FeInp` under
which the traversal never busy-waits for a `next` pointer.  Never fails; accepted labels `(ldNext … ; run cᵢ)* ; subQlen n`:
each node returned by the traversal is run exactly once, at once, in traversal order, `uwp = container_of(cbs)`, and
`qlen -= n` with `n` = the number of works run; a completed batch is at L2's `stopchk`.  Side condition `hfunc`: the
worker's private view has a `func` for every work (plain field, written before the enqueue). -/
theorem workqueue_thread_batch_refines (fuel : Nat) (rt : Bool) (priv0 : Loc → Option Val)
    (hfunc : ∀ u, ∃ fv, priv0 (.field u "func") = some fv) (env : Env) (inp : List Val) (ls : WLState)
    (hI : FeInv L rt priv0 env inp ls) :
    ∃ out, exec fuel wForEach env inp = .ok out ∧ FePost L rt ls out :=
  worker_foreach_exec L fuel rt priv0 hfunc env inp ls hI

example : ∃ c s0 s1 s2 s3 e, seqNth 7 wBody = .ifte c (.seq s0 (.seq s1 (.seq s2 (.seq s3
    (.seq (seqNth 4 (thenOf wBatch)) (seqNth 5 (thenOf wBatch))))))) e := ⟨_, _, _, _, _, _, rfl⟩

end worker

/-! ## non-vacuity: a concrete layout and concrete runs -/

/-- the work queue is object 0, `struct urcu_work` object `k` is work item `k`, the completion is object 100 -/
def L0 : Layout where
  W := .obj 0
  wid l := match l with
    | .obj k => some k
    | _ => none
  C := .obj 100

def priv0 (mb : Int) : Loc → Option Val := fun l => if l = .glob "CONFIG_RCU_EMIT_LEGACY_MB" then some (.int mb) else none

/-- `queue_work(wq, work 7, f)` on an empty queue whose worker sleeps (`futex == -1`): 8 events, 6 labels
`enq ; inc ; ldFlags ; ldFutex ; stFutex ; wake`, ends at `idle` -/
example : ∃ out, exec 1 Gen.Src.«urcu_workqueue_queue_work»
      ⟨bindParams Gen.Src.«urcu_workqueue_queue_work.params» [.ptr (.obj 0), .ptr (.obj 7), .ptr (.glob "f")], priv0 0⟩
      [.ptr (.field (.obj 0) "cbs_head"), .int 1, .int 0, .int (-1), .int 1] = .ok out ∧
    out.events = [.xchg (.field (.field (.obj 0) "cbs_tail") "p") (.ptr (.field (.obj 7) "next")) (.ptr (.field (.obj 0) "cbs_head")) 5,
      .st (.field (.field (.obj 0) "cbs_head") "next") (.ptr (.field (.obj 7) "next")) 3,
      .rmw .uinc (.field (.obj 0) "qlen") (.int 1) (.int 1) 0,
      .ld (.field (.obj 0) "flags") (.int 0) 0, .fence .mb, .ld (.field (.obj 0) "futex") (.int (-1)) 0,
      .st (.field (.obj 0) "futex") (.int 0) 0,
      .ext "futex_async" [.ptr (.field (.obj 0) "futex"), .int 1, .int 1, .int 0, .int 0, .int 0] (.int 1)] ∧
    out.events.filterMap (absEvT L0) = [.xchgTail 7, .incQlen, .ldFl 0, .ldFutex (-1), .stFutex, .wake] ∧
    tlr L0 (.enq 7 .user) out.events = some .idle ∧ out.ctl = .normal := by
  simp [Gen.Src.«urcu_workqueue_queue_work», Gen.Src.«urcu_workqueue_queue_work.params», Gen.Src.«_cds_wfcq_node_init»,
    Gen.Src.«_cds_wfcq_enqueue», Gen.Src.«___cds_wfcq_append», Gen.Src.«wake_worker_thread», Gen.Src.«futex_wake_up»,
    block, exec, eval, evalArgs, execPrim, bindParams, Env.setVar, Env.setPriv, setDst, asLoc, bind, Except.bind, evalBin,
    evalUn, boolV, Val.truthy, priv0, absEvT, L0, List.filterMap_cons, tlr, trun, tstep, bit, K.cont]

example := urcu_workqueue_queue_work_refines L0 .user (fun _ => True) 1 (priv0 0)
  [.ptr (.field (.obj 0) "cbs_head"), .int 1, .int (0 : Nat), .int (-1), .int 1] (.obj 7) 7 (.ptr (.glob "f")) 0 rfl
  (by simp [priv0]) ⟨⟨_, rfl⟩, ⟨0, rfl, by
    rw [if_neg (by decide)]; exact ⟨-1, rfl, by rw [if_pos rfl]; exact ⟨⟨1, by omega, rfl⟩, trivial⟩⟩⟩⟩

/-- `pause_worker(wq)`: worker not asleep (`futex == 0`), first poll does not see PAUSED, second does: 8 events, labels
`pOr ; ldFlags ; ldFutex ; (stutter) ; pSee`, ends at `holding` -/
example : ∃ out, exec 3 Gen.Src.«urcu_workqueue_pause_worker»
      ⟨bindParams Gen.Src.«urcu_workqueue_pause_worker.params» [.ptr (.obj 0)], priv0 0⟩
      [.int 4, .int 4, .int 0, .int 4, .int 0, .int 12] = .ok out ∧
    out.events = [.rmw .uor (.field (.obj 0) "flags") (.int 4) (.int 4) 0, .fence .barrier,
      .ld (.field (.obj 0) "flags") (.int 4) 0, .fence .mb, .ld (.field (.obj 0) "futex") (.int 0) 0,
      .ld (.field (.obj 0) "flags") (.int 4) 0, .ext "poll" [.int 0, .int 0, .int 1] (.int 0),
      .ld (.field (.obj 0) "flags") (.int 12) 0] ∧
    out.events.filterMap (absEvT L0) = [.setPause, .ldFl 4, .ldFutex 0, .ldFl 4, .ldFl 12] ∧
    tlr L0 .idle out.events = some .holding ∧ out.ctl = .normal := by
  simp [Gen.Src.«urcu_workqueue_pause_worker», Gen.Src.«urcu_workqueue_pause_worker.params»,
    Gen.Src.«wake_worker_thread», Gen.Src.«futex_wake_up», iterate,
    block, exec, eval, evalArgs, execPrim, bindParams, Env.setVar, Env.setPriv, setDst, asLoc, bind, Except.bind, evalBin,
    evalUn, boolV, Val.truthy, priv0, absEvT, L0, List.filterMap_cons, tlr, trun, tstep, bit, K.cont]

example := urcu_workqueue_pause_worker_refines L0 3 (priv0 0)
  [.int 4, .int (4 : Nat), .int 0, .int (4 : Nat), .int 0, .int (12 : Nat)]
  ⟨4, rfl, by rw [if_neg (by decide)]; exact ⟨0, rfl, by rw [if_neg (by decide)]; exact ⟨⟨4, rfl⟩, ⟨12, rfl⟩⟩⟩⟩

/-- `resume_worker(wq)`: the first poll still sees PAUSED, the second sees it clear: 4 events, `rAnd ; (stutter) ; rSee` -/
example : ∃ out, exec 3 Gen.Src.«urcu_workqueue_resume_worker»
      ⟨bindParams Gen.Src.«urcu_workqueue_resume_worker.params» [.ptr (.obj 0)], priv0 0⟩
      [.int 8, .int 8, .int 0, .int 0] = .ok out ∧
    out.events = [.rmw .uand (.field (.obj 0) "flags") (.int 18446744073709551611) (.int 8) 5,
      .ld (.field (.obj 0) "flags") (.int 8) 0, .ext "poll" [.int 0, .int 0, .int 1] (.int 0),
      .ld (.field (.obj 0) "flags") (.int 0) 0] ∧
    out.events.filterMap (absEvT L0) = [.clrPause, .ldFl 8, .ldFl 0] ∧
    tlr L0 .holding out.events = some .idle ∧ out.ctl = .normal := by
  simp [Gen.Src.«urcu_workqueue_resume_worker», Gen.Src.«urcu_workqueue_resume_worker.params», iterate,
    block, exec, eval, evalArgs, execPrim, bindParams, Env.setVar, Env.setPriv, setDst, asLoc, bind, Except.bind, evalBin,
    evalUn, boolV, Val.truthy, priv0, absEvT, L0, List.filterMap_cons, tlr, trun, tstep, bit]

example := urcu_workqueue_resume_worker_refines L0 3 (priv0 0) [.int 8, .int (8 : Nat), .int 0, .int (0 : Nat)]
  ⟨⟨8, rfl⟩, ⟨0, rfl⟩⟩

/-- environment of the worker of the hash table's work queue: hooks unset -/
def envW : Env where
  vars x := if x = "workqueue" then some (.ptr (.obj 0)) else none
  priv l := if l = .field (.obj 0) "worker_before_pause_fct" ∨ l = .field (.obj 0) "worker_after_resume_fct"
    then some (.int 0) else none

/-- top of the worker's loop with PAUSE set: sets PAUSED, polls once with PAUSE still set, then sees it clear and clears
PAUSED: 8 events, all quiescent, labels `wTop ; wPause ; (stutter) ; wSeeResume ; wUnpause`, ends at `splice` -/
example : ∃ out, exec 3 wTop envW [.int 4, .int 12, .int 12, .int 0, .int 8, .int 0] = .ok out ∧
    out.events = [.ld (.field (.obj 0) "flags") (.int 4) 0, .fence .barrier,
      .rmw .uor (.field (.obj 0) "flags") (.int 8) (.int 12) 0,
      .ld (.field (.obj 0) "flags") (.int 12) 0, .ext "poll" [.int 0, .int 0, .int 1] (.int 0),
      .ld (.field (.obj 0) "flags") (.int 8) 0,
      .rmw .uand (.field (.obj 0) "flags") (.int 18446744073709551607) (.int 0) 5, .fence .barrier] ∧
    out.events.filterMap (absEvW L0) = [.ldFl 4, .setPaused, .ldFl 12, .ldFl 8, .clrPaused] ∧
    out.events.all (quietEv L0) = true ∧
    wlr L0 ⟨.at .top, 0, false⟩ out.events = some ⟨.at .splice, 0, false⟩ ∧ out.ctl = .normal := by
  simp [wTop, wBody, seqNth, firstLoop, Gen.Src.«workqueue_thread», iterate,
    block, exec, eval, evalArgs, execPrim, bindParams, Env.setVar, Env.setPriv, setDst, asLoc, bind, Except.bind, evalBin,
    evalUn, boolV, Val.truthy, envW, absEvW, L0, List.filterMap_cons, wlr, wrun, wstep, bit, quietEv]

example := workqueue_thread_pause_branch_refines L0 3 envW
  [.int (4 : Nat), .int 12, .int (12 : Nat), .int 0, .int (8 : Nat), .int 0] ⟨.at .top, 0, false⟩ rfl rfl
  (by simp [envW, L0]) (by simp [envW, L0]) ⟨4, rfl, fun _ => ⟨⟨12, rfl⟩, ⟨8, rfl⟩, trivial⟩⟩

/-- environment of the worker at the head of the traversal: first node = work 5, `cbcount = 0` -/
def envB : Env where
  vars x := if x = "workqueue" then some (.ptr (.obj 0)) else if x = "_t9" then some (.ptr (.field (.obj 5) "next"))
    else if x = "cbcount" then some (.int 0) else none
  priv l := match l with
    | .field _ f => if f = "func" then some (.ptr (.glob "f")) else none
    | _ => none

/-- a batch of two works 5 → 6: `5.next = 6`, run 5, `6.next = NULL` and `cbs_tmp_tail = 6`, run 6, `qlen -= 2`:
6 events, 6 labels, ends at `stopchk` with `cbcount = 2` -/
example : ∃ out, exec 4 wForEach envB
      [.ptr (.field (.obj 6) "next"), .int 0, .int 0, .ptr (.field (.obj 6) "next"), .int 0, .int 0] = .ok out ∧
    out.events = [.ld (.field (.field (.obj 5) "next") "next") (.ptr (.field (.obj 6) "next")) 1,
      .ext "(*func)" [.ptr (.glob "f"), .ptr (.obj 5)] (.int 0),
      .ld (.field (.field (.obj 6) "next") "next") (.int 0) 1,
      .ld (.field (.glob "&cbs_tmp_tail") "p") (.ptr (.field (.obj 6) "next")) 0,
      .ext "(*func)" [.ptr (.glob "f"), .ptr (.obj 6)] (.int 0),
      .rmw .usub (.field (.obj 0) "qlen") (.int 2) (.int 0) 0] ∧
    out.events.filterMap (absEvW L0) = [.ldNext (.field (.obj 5) "next") (.ptr (.field (.obj 6) "next")),
      .run (.field (.obj 5) "next"), .ldNext (.field (.obj 6) "next") (.int 0), .ldTTail (.ptr (.field (.obj 6) "next")),
      .run (.field (.obj 6) "next"), .subQlen 2] ∧
    wlr L0 ⟨.fetch0 (.field (.obj 5) "next"), 0, false⟩ out.events = some ⟨.at .stopchk, 2, false⟩ ∧
    out.ctl = .normal := by
  simp [wForEach, wBatch, thenOf, wBody, seqNth, firstLoop, Gen.Src.«workqueue_thread», Gen.Src.«___cds_wfcq_next_blocking»,
    Gen.Src.«___cds_wfcq_next», iterate,
    block, exec, eval, evalArgs, execPrim, bindParams, Env.setVar, Env.setPriv, setDst, asLoc, bind, Except.bind, evalBin,
    evalUn, boolV, Val.truthy, envB, absEvW, L0, List.filterMap_cons, wlr, wrun, wstep, hookNames]

example := workqueue_thread_batch_refines L0 4 false envB.priv (fun u => ⟨.ptr (.glob "f"), by simp [envB]⟩) envB
  [.ptr (.field (.obj 6) "next"), .int 0, .int 0, .ptr (.field (.obj 6) "next"), .int 0, .int 0]
  ⟨.fetch0 (.field (.obj 5) "next"), 0, false⟩
  ⟨rfl, rfl, 0, rfl, Or.inl ⟨.obj 5, rfl, rfl, Or.inr ⟨.obj 6, rfl, Or.inl ⟨rfl, rfl⟩⟩⟩⟩

end UrcuVerif.Props.SrcWq
