import UrcuVerif.Machine.Fair
import UrcuVerif.Props.C14
/-!
# C14 liveness — grace-period polling *eventually* reports completion

`Props/C14.lean` proves `poll_no_stuck` + `poll_progress` (no-stuck + measure `need ≤ 2`).  Here the temporal half on
infinite runs with idle steps (`Machine/Fair.lean`); what was "C03's liveness + fairness (trusted)" is a hypothesis.
-/
namespace UrcuVerif.Poll
open UrcuVerif UrcuVerif.Fair

/-- the transition function without the output -/
def stepS (n : Nat) (s : State) (op : Op) : Option State := (step n s op).map (·.1)

theorem stepS_step {n : Nat} {s s' : State} {op : Op} (h : stepS n s op = some s') : ∃ out, step n s op = some (s', out) := by
  unfold stepS at h
  cases hs : step n s op with
  | none => rw [hs] at h; simp at h
  | some p => rw [hs] at h; simp only [Option.map_some, Option.some.injEq] at h; exact ⟨p.2, by rw [← h]⟩

theorem handle_stable {n : Nat} {s s' : State} {op : Op} {g t : Nat} (hh : (g, t) ∈ s.handles) (h : stepS n s op = some s') :
    (g, t) ∈ s'.handles := by
  obtain ⟨out, st⟩ := stepS_step h
  cases op <;> simp only [step] at st <;> (repeat' split at st) <;>
    simp only [Option.some.injEq, Prod.mk.injEq, reduceCtorEq] at st <;> (try obtain ⟨rfl, -⟩ := st) <;> simp_all

/-- **poll_eventually_true**: on every run (any reachable start state, any interleaving of `start_poll`, `poll`,
readers and grace periods, idle steps) on which the queued worker callback is eventually invoked whenever it is
pending (`hworker` – exactly C03's liveness guarantee for that callback, `queued_callback_eventually_invoked`), every
issued handle `g` is eventually reported complete: from some position on `poll_state_synchronize_rcu(g)` returns true
(`need = 0`, `poll_true_iff_need_zero`), and it stays so. -/
theorem poll_eventually_true (n : Nat) {ρ : Nat → State} {ℓ : Nat → Option Op}
    (hrun : IsRun (stepS n) ρ ℓ) (hreach : Reach n (ρ 0))
    (hworker : ∀ j, (ρ j).pending = true → ∃ j', j ≤ j' ∧ ℓ j' = some .worker) :
    ∀ i g t, (g, t) ∈ (ρ i).handles → ∃ j, i ≤ j ∧ ∀ j', j ≤ j' → need (ρ j') g = 0 := by
  intro i g t hh
  have hR : ∀ j, Reach n (ρ j) := fun j =>
    inv_along hrun (Reach n) (fun s l s' h st => by obtain ⟨out, st⟩ := stepS_step st; exact Reach.step h st) 0 hreach j
      (Nat.zero_le j)
  have hH : ∀ j, i ≤ j → (g, t) ∈ (ρ j).handles :=
    stable_along hrun (fun _ => True) (fun s => (g, t) ∈ s.handles) i (fun _ _ => trivial)
      (fun s l s' _ h st => handle_stable h st) hh
  obtain ⟨j, hj, h0⟩ := measure_leadsto_core hrun (fun s => Reach n s ∧ (g, t) ∈ s.handles) (fun s => need s g = 0)
    (fun s => need s g) i (fun j hj => ⟨hR j, hH j hj⟩)
    (fun s l s' _ _ st => by obtain ⟨out, st⟩ := stepS_step st; exact Or.inl (need_noninc n st))
    (fun k hk hng => by
      have hp := poll_no_stuck n (hR k) (hH k hk) (Nat.pos_of_ne_zero (hng k (Nat.le_refl k)))
      obtain ⟨j', hj', hl⟩ := hworker k hp
      refine ⟨j', hj', ?_⟩
      obtain ⟨out, st⟩ := stepS_step (hrun.move j' _ hl)
      have := poll_progress n (g := g) st
      have := Nat.pos_of_ne_zero (hng j' hj')
      omega)
  refine ⟨j, hj, fun j' hj' => ?_⟩
  have := stable_along hrun (fun _ => True) (fun s => need s g = 0) j (fun _ _ => trivial)
    (fun s l s' _ h st => by obtain ⟨out, st⟩ := stepS_step st; have := need_noninc n (g := g) st; omega) h0 j' hj'
  exact this

theorem gpDone_mono {n : Nat} {s s' : State} {op : Op} (h : stepS n s op = some s') : s.gpDone ≤ s'.gpDone := by
  obtain ⟨out, st⟩ := stepS_step h
  cases op <;> simp only [step] at st <;> (repeat' split at st) <;>
    simp only [Option.some.injEq, Prod.mk.injEq, reduceCtorEq] at st <;> (try obtain ⟨rfl, -⟩ := st) <;> simp_all <;> omega

/-- until it is invoked, a pending worker callback stays pending with the same enqueue time -/
theorem pending_stable {n : Nat} {s s' : State} {op : Op} (I : Inv n s) (hp : s.pending = true) (hop : op ≠ .worker)
    (h : stepS n s op = some s') : s'.pending = true ∧ s'.enq = s.enq := by
  obtain ⟨out, st⟩ := stepS_step h
  have ha := I.act_pend
  cases op <;> simp only [step] at st <;> (repeat' split at st) <;>
    simp only [Option.some.injEq, Prod.mk.injEq, reduceCtorEq] at st <;> (try obtain ⟨rfl, -⟩ := st) <;> simp_all

/-- **poll_eventually_true_of_gp**: the same with `hworker` *derived*: it suffices that the helper thread that
invokes the worker callback is weakly fair (`hfairW`) and that grace periods keep completing – whenever the worker is
pending, a grace period that started after it was queued eventually completes (`hgp`; this is C02 /
`gp_eventually_completes` for the helper's `synchronize_rcu()`, which in turn needs read-side sections to end). -/
theorem poll_eventually_true_of_gp (n : Nat) {ρ : Nat → State} {ℓ : Nat → Option Op}
    (hrun : IsRun (stepS n) ρ ℓ) (hreach : Reach n (ρ 0))
    (hfairW : WeakFair (stepS n) ρ ℓ (fun op => op = .worker))
    (hgp : ∀ j, (ρ j).pending = true → ∃ j', j ≤ j' ∧ (ρ j).enq ≤ (ρ j').gpDone) :
    ∀ i g t, (g, t) ∈ (ρ i).handles → ∃ j, i ≤ j ∧ ∀ j', j ≤ j' → need (ρ j') g = 0 := by
  refine poll_eventually_true n hrun hreach ?_
  intro j hp
  have hI : ∀ k, Inv n (ρ k) := fun k =>
    inv_reach n (inv_along hrun (Reach n) (fun s l s' h st => by obtain ⟨out, st⟩ := stepS_step st; exact Reach.step h st) 0
      hreach k (Nat.zero_le k))
  apply Classical.byContradiction
  intro hno
  have hnw : ∀ k, j ≤ k → ℓ k ≠ some .worker := fun k hk h => hno ⟨k, hk, h⟩
  -- pending with the same enqueue time for ever
  have hpend : ∀ d, (ρ (j + d)).pending = true ∧ (ρ (j + d)).enq = (ρ j).enq := by
    intro d
    induction d with
    | zero => exact ⟨hp, rfl⟩
    | succ d ih =>
      cases hl : ℓ (j + d) with
      | none => rw [show j + (d + 1) = j + d + 1 by omega, hrun.idle _ hl]; exact ih
      | some op =>
        have := pending_stable (hI (j + d)) ih.1 (fun h => hnw (j + d) (by omega) (by rw [hl, h])) (hrun.move _ op hl)
        exact ⟨this.1, by rw [show j + (d + 1) = j + d + 1 by omega, this.2, ih.2]⟩
  obtain ⟨j1, hj1, hg⟩ := hgp j hp
  have hmono : ∀ d, (ρ j1).gpDone ≤ (ρ (j1 + d)).gpDone := by
    intro d
    induction d with
    | zero => exact Nat.le_refl _
    | succ d ih =>
      cases hl : ℓ (j1 + d) with
      | none => rw [show j1 + (d + 1) = j1 + d + 1 by omega, hrun.idle _ hl]; exact ih
      | some op => exact Nat.le_trans ih (gpDone_mono (hrun.move _ op hl))
  obtain ⟨k, hk, op, hl, rfl⟩ := hfairW j1 (fun k hk => by
    have h1 := hpend (k - j)
    rw [show j + (k - j) = k by omega] at h1
    have h2 := hmono (k - j1)
    rw [show j1 + (k - j1) = k by omega] at h2
    refine ⟨.worker, rfl, ?_⟩
    have : (ρ k).enq ≤ (ρ k).gpDone := by omega
    simp only [stepS, step, h1.1, this, Bool.true_and, decide_true, ↓reduceIte]
    split <;> rfl)
  exact hnw k (by omega) hl

/-! Non-vacuity: a handle taken while the worker is active needs two grace periods / two worker invocations; the
concrete run below (then idling) satisfies the hypotheses. -/
def pollPrefix : List Op := [.startPoll, .startPoll, .gpStart, .gpEnd, .worker, .poll 1, .gpStart, .gpEnd, .worker, .poll 1]

example : ∃ j, 2 ≤ j ∧ ∀ j', j ≤ j' → need (prefixState (stepS 1) init pollPrefix j') 1 = 0 := by
  have h1 : (prefixFinal (stepS 1) init pollPrefix).isSome = true := by decide
  obtain ⟨sf, hsf⟩ := Option.isSome_iff_exists.mp h1
  have h2 : (prefixFinal (stepS 1) init pollPrefix).map (fun s => s.pending) = some false := by decide
  rw [hsf] at h2
  simp only [Option.map_some, Option.some.injEq] at h2
  have hfin := prefixState_final (stepS 1) init pollPrefix sf hsf
  refine poll_eventually_true 1 (ℓ := fun i => pollPrefix[i]?) (prefix_isRun _ _ _ sf hsf) Reach.init ?_ 2 1 2 (by decide)
  intro j hp
  -- pending only before position 9; the worker runs at positions 4 and 8
  by_cases hj : j ≤ 8
  · exact ⟨8, hj, by decide⟩
  · exfalso
    by_cases hj9 : j = 9
    · subst hj9; revert hp; decide
    · rw [hfin j (by simp [pollPrefix]; omega), h2] at hp; cases hp
example : need (prefixState (stepS 1) init pollPrefix 8) 1 = 1 ∧ need (prefixState (stepS 1) init pollPrefix 9) 1 = 0 := by decide

/-- the hypotheses of `poll_eventually_true_of_gp` hold on the same run -/
example : ∃ j, 2 ≤ j ∧ ∀ j', j ≤ j' → need (prefixState (stepS 1) init pollPrefix j') 1 = 0 := by
  have h1 : (prefixFinal (stepS 1) init pollPrefix).isSome = true := by decide
  obtain ⟨sf, hsf⟩ := Option.isSome_iff_exists.mp h1
  have h2 : (prefixFinal (stepS 1) init pollPrefix).map (fun s => s.pending) = some false := by decide
  rw [hsf] at h2
  simp only [Option.map_some, Option.some.injEq] at h2
  have hfin := prefixState_final (stepS 1) init pollPrefix sf hsf
  refine poll_eventually_true_of_gp 1 (ℓ := fun i => pollPrefix[i]?) (prefix_isRun _ _ _ sf hsf) Reach.init ?_ ?_ 2 1 2 (by decide)
  · refine weakFair_of_final _ pollPrefix.length sf hfin ?_
    rintro ⟨l, rfl, he⟩
    simp [stepS, step, h2] at he
  · intro j hp
    by_cases hj : j < 10
    · have key : ∀ j, j < 10 → (prefixState (stepS 1) init pollPrefix j).pending = true →
          ∃ j', j' < 10 ∧ j ≤ j' ∧ (prefixState (stepS 1) init pollPrefix j).enq ≤ (prefixState (stepS 1) init pollPrefix j').gpDone := by
        decide
      obtain ⟨j', -, h1, h2⟩ := key j hj hp
      exact ⟨j', h1, h2⟩
    · rw [hfin j (by simp [pollPrefix]; omega), h2] at hp; cases hp

end UrcuVerif.Poll
