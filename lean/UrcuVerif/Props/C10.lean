import UrcuVerif.Wfcq.Thms
import UrcuVerif.Wfcq.Neg
import UrcuVerif.Wfq.Hist
import UrcuVerif.Wfq.Neg
/-!
# C10 — wait-free queues are FIFO: nothing lost, duplicated, reordered; splice moves all

`cds_wfcq` (`Wfcq/Model.lean`) as an explicit-pc transition system on x86-TSO: per-thread FIFO
store buffers for every plain / release store to a `next` field (the trailing link store of
`___cds_wfcq_append`, the dequeuer's stores to `head->node.next`), flush = environment step,
`xchg` / `cmpxchg` / mutex operations act on memory and need an empty own buffer.  Two queues
(splice in both directions), any number of threads, every thread may enqueue on either queue and
call `empty()`; dequeue / first / next / splice-as-source need the consumer role of the queue
(the queue's mutex, or – single-consumer usage – a role acquired once and never released); nodes are
re-used after they were dequeued.  All theorems are about every reachable state (`Reach` /
`ReachH` = reachable with its history of linearisation events), i.e. every interleaving including
enqueuers suspended between the tail exchange and the link store, and every flush delay.

Statements only; the invariant (`Wfcq/Inv.lean`, `Step1…6.lean`: one lemma per label, `inv_reach`),
the refinement (`Wfcq/Hist.lean`) and the helper lemmas (`Wfcq/Thms.lean`) are elsewhere.
The legacy `cds_wfq` (queue with an embedded dummy node) has its own small model `Wfq/Model.lean`
(invariant in `Wfq/Inv.lean`, `Wfq/Step.lean`), tied to the real code like `cds_wfcq`.
-/
namespace UrcuVerif.C10
open Wfcq Wfcq.Spec

/-- **wfcq_refines_fifo**: in every reachable state the history of linearisation events, with the
results the implementation computed from its concrete memory (`Wfcq.ev`), is a legal sequential
history of the two-queue FIFO specification (`Wfcq/Fifo.lean`) ending in the abstract contents
`abs` / `limbo`; the concrete memory (tail pointers, `next` fields, store buffers, in-flight
appends) represents exactly `abs` (`Wfcq.Rep`); and every step is a stutter of the specification or
the sequential operation of its event with the same result. -/
theorem wfcq_refines_fifo {s : State} {h : List Ev} (r : ReachH s h) :
    Valid h s.q ∧ (∀ q, isQ q → Rep s q) ∧
    ∀ l s', step s l = some s' → Refines s s' (ev s l) :=
  ⟨hist_valid r, fun q hq => rep_reach r.reach q hq, fun _ _ st => step_refines (inv_reach r.reach) st⟩

/-- every reachable state has such a history -/
theorem wfcq_history_exists {s : State} (r : Reach s) : ∃ h, ReachH s h := r.hist

/-- **each_node_dequeued_once** (conservation, in-flight enqueues and splices included): every
enqueue of node `n` is matched by exactly one dequeue of `n`, or `n` is still inside – in one of
the queues or in a chain a splice has in transit – exactly once. -/
theorem each_node_dequeued_once {s : State} {h : List Ev} (r : ReachH s h) (n : Nat) :
    enqs n h = outs n h + (allNodes s).count n ∧ (allNodes s).count n ≤ 1 :=
  ⟨conservation (hist_valid r) n, List.nodup_iff_count.1 (inv_reach r.reach).a.nodup n⟩

/-- **dequeue_order**: enqueue appends at the end of the abstract queue at its tail exchange; a
dequeue hands out the first element of the abstract queue – i.e. nodes leave in the order in
which their enqueues took effect.  (`d6`: the node had a successor; the last-node case is
`state_LAST_correct`.) -/
theorem dequeue_order {s s' : State} (r : Reach s) (t q : Nat) :
    (∀ n, step s (.enqXchg t q n) = some s' → s'.abs q = s.abs q ++ [n]) ∧
    (∀ nd nxt, s.pc t = .d6 q nd nxt → step s (.d6 t) = some s' →
      s.abs q = nd :: s'.abs q ∧ s'.abs q ≠ [] ∧ s'.pc t = .done (.node nd false)) ∧
    (∀ b, s.pc t = .sync (.deq b) q q → rd s t q ≠ 0 → step s (.sync t) = some s' →
      (∃ l, s.abs q = rd s t q :: l) ∧ s'.pc t = .d2 q (rd s t q) b) :=
  ⟨fun n st => (enq_result r t q n st).1,
   fun nd nxt hp st => let h := deq_result r t q nd nxt hp st; ⟨h.1, h.2.1, h.2.2.1⟩,
   fun b hp hv st => let h := deq_head_result r t q b hp hv st; ⟨h.1, h.2.1⟩⟩

/-- **state_LAST_correct** / the last-node race: the dequeuer's `cmpxchg` of the tail succeeds
exactly when its node is the only one – then the queue becomes empty, the node is returned with
`CDS_WFCQ_STATE_LAST`; otherwise (an enqueue slipped in) nothing changes and the dequeuer goes on
to wait for that enqueuer's link store. -/
theorem state_LAST_correct {s s' : State} (r : Reach s) (t q nd : Nat) (b : Bool) (hp : s.pc t = .d4 q nd b)
    (st : step s (.d4 t) = some s') :
    (s.tail q = nd ∧ s.abs q = [nd] ∧ s'.abs q = [] ∧ s'.tail q = q ∧ s'.pc t = .done (.node nd true)) ∨
    (s.tail q ≠ nd ∧ (∃ l, s.abs q = nd :: l ∧ l ≠ []) ∧ s'.abs = s.abs ∧ s'.pc t = .sync (.deq b) q nd) :=
  deq_last_result r t q nd b hp st

/-- **enqueue_ret_consistent**: the old tail the `xchg` returns is the head iff the abstract queue
was empty at that instant, and `cds_wfcq_enqueue` later returns exactly that ("was non-empty"). -/
theorem enqueue_ret_consistent {s s1 : State} (r : Reach s) (t q n : Nat)
    (st : step s (.enqXchg t q n) = some s1) :
    s1.abs q = s.abs q ++ [n] ∧ s1.pc t = .enq q (s.tail q) n false ∧
    ∀ s2 s3, s2.pc t = .enq q (s.tail q) n false → step s2 (.stIssue t) = some s3 →
      s3.pc t = .done (.bool (!(s.abs q).isEmpty)) := by
  obtain ⟨h1, h2, h3, -⟩ := enq_result r t q n st
  refine ⟨h1, h2, fun s2 s3 hp st2 => ?_⟩
  have := (enq_ret t q (s.tail q) n false hp st2).1
  rw [this, h3]; rfl

/-- **empty_consistent**: `cds_wfcq_empty()` answers "not empty" only when the abstract queue is
not empty at that load, and its final answer at the load of `tail.p` is exactly `abs q = []`. -/
theorem empty_consistent {s s' : State} (r : Reach s) (t q : Nat) :
    (s.pc t = .e1 .empty q → step s (.ld1 t) = some s' →
      (s'.pc t = .done (.bool false) ∧ s.abs q ≠ []) ∨ s'.pc t = .e2 .empty q) ∧
    (s.pc t = .e2 .empty q → step s (.ld2 t) = some s' → s'.pc t = .done (.bool (s.abs q).isEmpty)) := by
  constructor
  · intro hp st
    rcases empty_head_load r t q .empty hp st with ⟨-, h2, h3⟩ | ⟨-, h3⟩
    · left; exact ⟨h3, h2⟩
    · right; exact h3
  · intro hp st
    rcases empty_tail_load r t q .empty hp st with ⟨h1, h2⟩ | ⟨h1, h2⟩
    · rw [h2, h1]; rfl
    · rw [h2]; cases hc : s.abs q with
      | nil => exact absurd hc h1
      | cons a l => rfl

/-- **dequeue_null_iff_empty_at_some_instant**: inside any operation the answer "empty" (dequeue /
first → NULL, splice → SRC_EMPTY, empty() → true) is given exactly when the abstract queue is empty
at the load of `tail.p` – an instant inside the call –, and there is no other way to a NULL result
(except `next` on the last node). -/
theorem dequeue_null_iff_empty_at_some_instant {s s' : State} (r : Reach s) (t q : Nat) (k : K)
    (hp : s.pc t = .e2 k q) (st : step s (.ld2 t) = some s') :
    (s.abs q = [] ∧ s'.pc t = .done (emptyRes k)) ∨ (s.abs q ≠ [] ∧ s'.pc t = nonEmptyPc k q) :=
  empty_tail_load r t q k hp st

theorem null_only_from_empty {s s' : State} {l : Label} (r : Reach s) (st : step s l = some s') (t : Nat)
    (hn : s'.pc t = .done .null) (ho : s.pc t ≠ .done .null) :
    (∃ k q, s.pc t = .e2 k q ∧ s.abs q = [] ∧ l = .ld2 t) ∨
    (∃ q a b, s.pc t = .nx2 q a b ∧ succOf a (s.abs q) = none ∧ l = .nx2 t) := by
  rcases null_only st t hn ho with ⟨k, q, h1, h2, h3⟩ | ⟨q, a, b, h1, h2, h3⟩
  · left
    have hst := st; rw [h3] at hst
    rcases empty_tail_load r t q k h1 hst with ⟨h4, -⟩ | ⟨h4, -⟩
    · exact ⟨k, q, h1, h4, h3⟩
    · have I := inv_reach r
      have hk := I.p.ok t; rw [h1] at hk
      have hq : isQ q := by
        cases k <;> simp only [PcOk, EOk, Cons] at hk <;> first | exact hk | exact hk.1 | exact hk.1.1 | exact hk.elim
      exact absurd ((abs_nil_iff I.a q hq).2 h2) h4
  · right
    have hst := st; rw [h3] at hst
    rcases next_result_end r t q a b h1 hst with ⟨-, h4, -⟩ | ⟨h4, -⟩
    · exact ⟨q, a, b, h1, h4, h3⟩
    · exact absurd h2 h4

/-- **splice_moves_all_in_order_and_empties_source**: at the exchange of the source tail the whole
content of the source, in order, becomes the chain in transit and the source is exactly a freshly
initialised queue (abstractly empty, `tail.p == &head`, `head.next == NULL` in memory with no store
to it in flight: **reusable** – all theorems apply to it again); at the exchange of the destination
tail that chain is appended, in order, behind everything the destination holds; nobody else can
touch the chain in between; `DEST_NON_EMPTY` is returned iff the destination was non-empty at that
instant. -/
theorem splice_moves_all_in_order_and_empties_source {s s' : State} (r : Reach s) (t dst src hd : Nat) :
    (s.pc t = .s5 dst src hd → step s (.s5 t) = some s' →
      s.abs src ≠ [] ∧ s'.limbo src = s.abs src ∧ s'.abs src = [] ∧ s'.tail src = src ∧ s'.next src = 0 ∧
      (∀ u, lastFor (s'.buf u) src = none) ∧ s'.abs dst = s.abs dst ∧
      s'.pc t = .s6 dst src hd (s.tail src) ∧ Reach s') ∧
    (∀ tl, s.pc t = .s6 dst src hd tl → step s (.s6 t) = some s' →
      s'.abs dst = s.abs dst ++ s.limbo src ∧ s'.limbo src = [] ∧ s'.abs src = s.abs src ∧
      s'.pc t = .enq dst (s.tail dst) hd true ∧
      ∀ s2 s3, s2.pc t = .enq dst (s.tail dst) hd true → step s2 (.stIssue t) = some s3 →
        s3.pc t = .done (.dest (!(s.abs dst).isEmpty))) ∧
    (∀ l, s.lock src = some t → l.tid ≠ t → step s l = some s' →
      s'.limbo src = s.limbo src ∧ ∃ m, s'.abs src = s.abs src ++ m) := by
  refine ⟨fun hp st => ?_, fun tl hp st => ?_, fun l hl hne st => ?_⟩
  · obtain ⟨h1, -, h3, h4, h5, h6, h7, h8, -, -, h11⟩ := splice_out_result r t dst src hd hp st
    exact ⟨h1, h3, h4, h5, h6, h7, h11, h8, Reach.step r st⟩
  · obtain ⟨h1, h2, h3, h4, h5⟩ := splice_in_result r t dst src hd tl hp st
    refine ⟨h1, h2, h3, h4, fun s2 s3 hp2 st2 => ?_⟩
    have := (enq_ret t dst (s.tail dst) hd true hp2 st2).1
    rw [this, h5]; rfl
  · obtain ⟨h1, h2⟩ := others_only_append r t src hl hne st
    exact ⟨h2, h1⟩

/-- **iteration_exact**: `first` returns the first element of the abstract queue; `next(a)` returns
the element that follows `a`, and NULL exactly when `a` is the last one; while the iterator holds
the consumer role other threads can only append behind (`splice_moves_all…`, third part), so a
`first`/`next` traversal visits exactly the queued nodes, in order. -/
theorem iteration_exact {s s' : State} (r : Reach s) (t q a : Nat) (b : Bool) :
    (s.pc t = .sync (.first b) q q → rd s t q ≠ 0 → step s (.sync t) = some s' →
      (∃ l, s.abs q = rd s t q :: l) ∧ s'.pc t = .done (.node (rd s t q) false)) ∧
    (s.pc t = .nx1 q a b → step s (.nx1 t) = some s' →
      (rd s t a ≠ 0 ∧ succOf a (s.abs q) = some (rd s t a) ∧ s'.pc t = .done (.node (rd s t a) false)) ∨
      (rd s t a = 0 ∧ s'.pc t = .nx2 q a b)) ∧
    (s.pc t = .nx2 q a b → step s (.nx2 t) = some s' →
      (succOf a (s.abs q) = none ∧ s'.pc t = .done .null) ∨
      ((∃ n, succOf a (s.abs q) = some n) ∧ s'.pc t = .sync (.next b) q a)) ∧
    (s.pc t = .sync (.next b) q a → rd s t a ≠ 0 → step s (.sync t) = some s' →
      succOf a (s.abs q) = some (rd s t a) ∧ s'.pc t = .done (.node (rd s t a) false)) := by
  refine ⟨fun hp hv st => ?_, fun hp st => next_result_fast r t q a b hp st, fun hp st => ?_, fun hp hv st => ?_⟩
  · have := first_result r t q b hp hv st; exact ⟨this.1, this.2.1⟩
  · rcases next_result_end r t q a b hp st with ⟨-, h2, h3⟩ | ⟨-, h2, h3⟩
    · left; exact ⟨h2, h3⟩
    · right; exact ⟨h2, h3⟩
  · have := next_result_sync r t q a b hp hv st; exact ⟨this.1, this.2.1⟩

/-! ## necessity (model minus one ingredient violates the property; `Wfcq/Neg.lean`) -/

/-- without the `cmpxchg` test and the wait on a NULL `next`, a node is lost -/
theorem neg_no_wait_loses_node :
    (Neg.runWith Neg.stepNoCas init (Neg.lostPrefix ++ [.ret 0, .stIssue 2, .flush 2, .ret 2, .callDeq 0 1 true, .ld1 0, .ld2 0])).map
      (fun s => (s.pc 0, s.abs 1, s.tail 1, s.next 3)) = some (.done .null, [4], 1, 4) :=
  Neg.no_wait_loses_node

/-- `empty()` testing only `head->node.next` reports a queue with an in-flight enqueue as empty -/
theorem neg_empty_head_only :
    (Neg.runWith Neg.stepEmptyHeadOnly init [.enqXchg 2 1 3, .callEmpty 0 1, .ld1 0]).map (fun s => (s.pc 0, s.abs 1)) =
      some (.done (.bool true), [3]) := Neg.empty_head_only_wrong.1

/-- splice that does not reset the source tail breaks the next enqueue on the source -/
theorem neg_splice_no_tail_reset :
    (Neg.runWith Neg.stepNoTailReset init (Neg.splicePrefix ++ [.enqXchg 1 1 4, .stIssue 1, .flush 1])).map
      (fun s => (s.pc 1, s.abs 2, s.tail 1, s.next 3, s.next 1)) = some (.done (.bool true), [3], 4, 4, 0) :=
  Neg.splice_no_tail_reset_wrong.1

/-! ## the legacy `cds_wfq` (include/urcu/static/wfqueue.h, model `Wfq/Model.lean`) -/

/-- **wfq_is_fifo**: the legacy queue (embedded dummy node that the dequeuer re-enqueues; TSO store
buffers; any number of enqueuers; dequeuers serialised by the mutex or a single consumer) is a FIFO:
in every reachable state the queued nodes are distinct, and every step refines the sequential queue –
an enqueue appends at its tail exchange, a dequeue hands out the first element (at the load that
finds its successor), NULL is answered only when the queue is empty, every other step (including the
dummy node's trips through the queue) is a stutter. -/
theorem wfq_is_fifo : Wfq.IsFifo := Wfq.isFifo

/-- conservation for the legacy queue: a node is inside (enqueued and not yet handed out) iff it is
in the abstract content; with `wfq_is_fifo` (distinct, removed only by the dequeue that returns it)
every node is dequeued exactly once -/
theorem wfq_each_node_once {s : Wfq.State} (r : Wfq.Reach s) (n : Nat) (hn : n ≠ Wfq.D) :
    (s.inq n = true ↔ n ∈ Wfq.abs s) ∧ (Wfq.abs s).count n ≤ 1 :=
  ⟨Wfq.inq_iff_queued r n hn, List.nodup_iff_count.1 ((Wfq.isFifo s r).1) n⟩

/-- **wfq_refines_fifo** (history level, the counterpart of `wfcq_refines_fifo`): in every reachable
state of the legacy-queue model the history of linearisation events – enqueue at its exchange of
`q->tail`, dequeue → node at the load that finds the successor of a non-dummy node, dequeue → NULL
at the emptiness test; results computed from concrete fields (`Wfq.ev`) – is a legal sequential
FIFO history ending in the abstract content `Wfq.abs s` (the chain from the consumer's `head`
without the dummy); the model's invariant (`Wfq.Inv`: the chain is linked in memory / store buffers
/ in-flight appends, ends at `q->tail`, is duplicate-free) holds; and every step is a stutter or the
sequential operation of its event with the same result. -/
theorem wfq_refines_fifo {s : Wfq.State} {h : List Wfq.Spec.Ev} (r : Wfq.ReachH s h) :
    Wfq.Spec.Valid h (Wfq.abs s) ∧ Wfq.Inv s ∧
    ∀ l s', Wfq.step s l = some s' → Wfq.RefinesEv s s' (Wfq.ev s l) :=
  ⟨Wfq.hist_valid r, Wfq.inv_reach r.reach, fun _ _ st => Wfq.step_refines_ev (Wfq.inv_reach r.reach) st⟩

theorem wfq_history_valid {s : Wfq.State} (r : Wfq.Reach s) : ∃ h, Wfq.ReachH s h ∧ Wfq.Spec.Valid h (Wfq.abs s) := by
  obtain ⟨h, rh⟩ := r.hist; exact ⟨h, rh, Wfq.hist_valid rh⟩

/-- **wfq_each_node_dequeued_once**: every enqueue of `n` is matched by exactly one dequeue of `n`,
or `n` is still queued, exactly once -/
theorem wfq_each_node_dequeued_once {s : Wfq.State} {h : List Wfq.Spec.Ev} (r : Wfq.ReachH s h) (n : Nat) :
    Wfq.Spec.enqs n h = Wfq.Spec.outs n h + (Wfq.abs s).count n ∧ (Wfq.abs s).count n ≤ 1 :=
  ⟨Wfq.Spec.conservation (Wfq.hist_valid r) n, List.nodup_iff_count.1 ((Wfq.isFifo s r.reach).1) n⟩

/-- **wfq_dequeue_order**: the nodes handed out so far (oldest first), followed by the queued ones,
are exactly the nodes enqueued (in the order of their tail exchanges) -/
theorem wfq_dequeue_order {s : Wfq.State} {h : List Wfq.Spec.Ev} (r : Wfq.ReachH s h) :
    Wfq.Spec.enqSeq h = Wfq.Spec.outSeq h ++ Wfq.abs s :=
  Wfq.Spec.fifo_order (Wfq.hist_valid r)

/-- **wfq_null_only_when_empty**: the emptiness test answers NULL exactly when the abstract queue is
empty at that instant (inside the call); a non-empty queue sends the dequeuer on to `sync_next` -/
theorem wfq_null_only_when_empty {s s' : Wfq.State} (r : Wfq.Reach s) (t : Nat) (hp : s.pc t = .q1)
    (st : Wfq.step s (.q1 t) = some s') :
    (s'.pc t = .done .null ∧ Wfq.abs s = []) ∨ (s'.pc t = .sync s.head ∧ ¬ (s.head = Wfq.D ∧ s.tail = Wfq.D)) := by
  have h2 := (Wfq.step_refines (Wfq.inv_reach r) st).2
  simp only [Wfq.step, hp, Option.some.injEq] at st; subst st
  by_cases e : s.head = Wfq.D ∧ s.tail = Wfq.D
  · left
    have hn : (Wfq.setPc s t (if s.head = Wfq.D ∧ s.tail = Wfq.D then Wfq.Pc.done .null else .sync s.head)).pc t = .done .null := by
      simp [Wfq.setPc, upd, e]
    exact ⟨hn, h2 hn⟩
  · right; exact ⟨by simp [Wfq.setPc, upd, e], e⟩

/-- necessity (seeded change `C10-wfq-dummy-requeued-with-stale-next`): re-enqueueing the dummy
without `_cds_wfq_node_init` delivers node 3 twice and skips the in-flight node 4 -/
theorem neg_wfq_stale_dummy_next :
    (Wfq.Neg.runWith Wfq.Neg.stepNoInit Wfq.init Wfq.Neg.prefix1).map (fun s => (s.pc 0, s.next Wfq.D)) =
      some (.done (.node 3), 3) ∧
    (Wfq.Neg.runWith Wfq.Neg.stepNoInit Wfq.init
      (Wfq.Neg.prefix2 ++ [.redo 0, .stIssue 0, .flush 0, .q1 0, .sync 0])).map (fun s => (s.pc 0, s.pc 2)) =
      some (.done (.node 3), .enq Wfq.D 4 false) :=
  ⟨Wfq.Neg.stale_dummy_next_delivers_twice.1, Wfq.Neg.stale_dummy_next_delivers_twice.2.2⟩

/-! ## full statement -/

/-- **C10_full** (the Lean part of the claim): `cds_wfcq` and the legacy `cds_wfq` each refine their
sequential FIFO specification at history level – the history of linearisation events with the
results computed from concrete memory is legal and ends in the abstract content – with concrete
memory representing the abstract contents (`Rep` / `Wfq.Inv`).
Not a Lean statement, hence not part of this `Prop`: that the C text is a run of these models
(L1 ⊑ L2) is checked on the explored schedules by `Driver/Wfcq.lean`, not proved. -/
def C10_full : Prop :=
  (∀ s h, ReachH s h → Valid h s.q ∧ ∀ q, isQ q → Rep s q) ∧
  (∀ s h, Wfq.ReachH s h → Wfq.Spec.Valid h (Wfq.abs s) ∧ Wfq.Inv s) ∧ Wfq.IsFifo

theorem C10_full_holds : C10_full :=
  ⟨fun _ _ r => ⟨(wfcq_refines_fifo r).1, (wfcq_refines_fifo r).2.1⟩,
   fun _ _ r => ⟨(wfq_refines_fifo r).1, (wfq_refines_fifo r).2.1⟩, wfq_is_fifo⟩

/-! ## non-vacuity: concrete reachable runs (executable `step`, checked by `decide`) -/

/-- T1 enqueues 3 on queue 1; T2 exchanges the tail for 4 and is parked before its store; the
consumer T0 dequeues non-blocking: node 3 is the head, its `next` is NULL, the `cmpxchg` fails
(tail is 4), `sync_next` gives up: WOULDBLOCK and `head.next` is restored; after T2's store the
blocking dequeue returns 3 (not last), then 4 (last), then NULL. -/
def demo : List Label :=
  [.enqXchg 1 1 3, .stIssue 1, .flush 1, .ret 1,
   .enqXchg 2 1 4,
   .acquire 0 1, .callDeq 0 1 false, .ld1 0, .sync 0, .d2 0, .d3 0, .flush 0, .d4 0, .sync 0, .d7 0, .flush 0, .ret 0,
   .stIssue 2, .flush 2, .ret 2,
   .callDeq 0 1 true, .ld1 0, .sync 0, .d2 0, .d6 0, .flush 0, .ret 0,
   .callDeq 0 1 true, .ld1 0, .sync 0, .d2 0, .d3 0, .flush 0, .d4 0, .ret 0,
   .callDeq 0 1 true, .ld1 0, .ld2 0]

example : (run init (demo.take 13)).map (fun s => (s.pc 0, s.abs 1, s.tail 1, s.next 1)) =
    some (.sync (.deq false) 1 3, [3, 4], 4, 0) := by decide
example : (run init (demo.take 16)).map (fun s => (s.pc 0, s.abs 1, s.next 1, s.pc 2)) =
    some (.done .wouldblock, [3, 4], 3, .enq 1 3 4 false) := by decide
example : (run init (demo.take 25)).map (fun s => (s.pc 0, s.abs 1)) = some (.done (.node 3 false), [4]) := by decide
example : (run init (demo.take 34)).map (fun s => (s.pc 0, s.abs 1, s.tail 1)) = some (.done (.node 4 true), [], 1) := by decide
example : (run init demo).map (fun s => (s.pc 0, s.abs 1)) = some (.done .null, []) := by decide

/-- the history of that run (newest first) and its validity (instance of `wfcq_refines_fifo`) -/
def demoHist : List Label → State → List Ev → List Ev
  | [], _, h => h
  | l :: ls, s, h => match step s l with
    | none => h
    | some s' => demoHist ls s' ((ev s l).toList ++ h)

example : (demoHist demo init []).map (fun e => (e.tid, e.op, e.res)) =
    [(0, .deq 1, .null), (0, .deq 1, .node 4 true), (0, .deq 1, .node 3 false),
     (2, .enq 1 4, .flag true), (1, .enq 1 3, .flag false)] := by decide

/-- splice both ways with an enqueue in flight on the source: [3] moves from queue 1 to queue 2
behind [5]; the source is reusable: T1 then enqueues 6 on it and gets "was empty" -/
def demoSplice : List Label :=
  [.enqXchg 1 1 3, .stIssue 1, .flush 1, .ret 1,
   .enqXchg 2 2 5, .stIssue 2, .flush 2, .ret 2,
   .acquire 0 1, .callSplice 0 2 1 false, .ld1 0, .s3 0, .s5 0, .s6 0, .stIssue 0, .flush 0, .ret 0,
   .enqXchg 1 1 6, .stIssue 1, .flush 1]

example : (run init (demoSplice.take 13)).map (fun s => (s.abs 1, s.limbo 1, s.abs 2, s.tail 1, s.pc 0)) =
    some ([], [3], [5], 1, .s6 2 1 3 3) := by decide
example : (run init (demoSplice.take 15)).map (fun s => (s.abs 1, s.limbo 1, s.abs 2, s.pc 0)) =
    some ([], [], [5, 3], .done (.dest true)) := by decide
example : (run init demoSplice).map (fun s => (s.abs 1, s.abs 2, s.pc 1, s.next 1, s.next 5)) =
    some ([6], [5, 3], .done (.bool false), 6, 3) := by decide

/-- iteration: first → 3, next(3) → 4, next(4) → NULL -/
example : (run init [.enqXchg 1 1 3, .stIssue 1, .flush 1, .ret 1, .enqXchg 1 1 4, .stIssue 1, .flush 1, .ret 1,
    .acquire 0 1, .callFirst 0 1 true, .ld1 0, .sync 0]).map (fun s => s.pc 0) = some (.done (.node 3 false)) := by decide
example : (run init [.enqXchg 1 1 3, .stIssue 1, .flush 1, .ret 1, .enqXchg 1 1 4, .stIssue 1, .flush 1, .ret 1,
    .acquire 0 1, .callNext 0 1 3 true, .nx1 0, .ret 0, .callNext 0 1 4 true, .nx1 0, .nx2 0]).map (fun s => s.pc 0) =
    some (.done .null) := by decide
/-- without the consumer role a second thread cannot dequeue -/
example : run init [.acquire 0 1, .callDeq 1 1 true] = none := by decide

/-- legacy queue: T1 enqueues 3; the dequeuer T0 passes the dummy (node 1), re-enqueues it behind 3
(its own link store `n3.next := &dummy` is read back from its store buffer) and returns 3; the next
dequeue finds only the dummy: NULL -/
example : (Wfq.run Wfq.init [.enqXchg 1 3, .stIssue 1, .flush 1, .ret 1,
    .acquire 0, .callDeq 0, .q1 0, .sync 0, .redo 0, .stIssue 0, .q1 0, .sync 0]).map
    (fun s => (s.pc 0, s.chain, Wfq.abs s, s.head, s.tail, (s.buf 0).length)) =
    some (.done (.node 3), [1], [], 1, 1, 1) := by decide
example : (Wfq.run Wfq.init [.enqXchg 1 3, .stIssue 1, .flush 1, .ret 1,
    .acquire 0, .callDeq 0, .q1 0, .sync 0, .redo 0, .stIssue 0, .q1 0, .sync 0, .ret 0, .callDeq 0, .q1 0]).map
    (fun s => s.pc 0) = some (.done .null) := by decide
/-- the history of a legacy-queue run (newest first): two enqueues, the dummy's trip (no event), two
dequeues in enqueue order, then NULL – an instance of `wfq_refines_fifo` -/
def wfqHist : List Wfq.Label → Wfq.State → List Wfq.Spec.Ev → List Wfq.Spec.Ev
  | [], _, h => h
  | l :: ls, s, h => match Wfq.step s l with
    | none => h
    | some s' => wfqHist ls s' ((Wfq.ev s l).toList ++ h)

example : (wfqHist [.enqXchg 1 3, .stIssue 1, .flush 1, .ret 1, .enqXchg 2 4, .stIssue 2, .flush 2, .ret 2,
    .acquire 0, .callDeq 0, .q1 0, .sync 0, .redo 0, .stIssue 0, .flush 0, .q1 0, .sync 0, .ret 0,
    .callDeq 0, .q1 0, .sync 0, .ret 0, .callDeq 0, .q1 0] Wfq.init []).map (fun e => (e.tid, e.op, e.res)) =
    [(0, .deq, .null), (0, .deq, .node 4), (0, .deq, .node 3), (2, .enq 4, .unit), (1, .enq 3, .unit)] := by decide

/-- an enqueuer suspended between its xchg and its store: the dequeuer waits (stutters) on the dummy -/
example : ((Wfq.run Wfq.init [.enqXchg 1 3, .acquire 0, .callDeq 0, .q1 0]).bind fun s =>
    (Wfq.step s (.sync 0)).map fun s' => (s.pc 0, s'.pc 0, Wfq.abs s')) = some (.sync 1, .sync 1, [3]) := by decide

end UrcuVerif.C10
