import UrcuVerif.Fork.InvAll
import UrcuVerif.Fork.Bp
import UrcuVerif.Fork.Wq
/-!
# C16 — fork() with the documented handlers leaves parent and child functional

Statements about the fork model `UrcuVerif.Fork` (`Fork/Model.lean`): call_rcu helpers with their
`PAUSE/PAUSED` handshake, `call_rcu_mutex`, `rcu_gp_lock`, the reader registry, the fork transition
(`childOf` / `parentOf`), `call_rcu_after_fork_child` with its per-`call_rcu_data` disposal.  All
theorems hold for EVERY reachable state of EVERY process of the process tree (`Reach` is closed under
`forkParent` and `forkChild`: children may fork again), any number of application threads, helpers
and callbacks, all interleavings.  Helper lemmas (the inductive invariant `Inv`, one lemma per label)
are in `Fork/Inv*.lean`.

Documented preconditions appear as guards of the model (`bfLock`: handlers called outside read-side
sections; `ForkPre`: every other application thread is outside liburcu and unregistered at the fork).

Full strength vs. proved: safety and "no wait on an erased thread" are proved in full.  The liveness
half of "invoked exactly once" (every callback queued at the fork IS eventually invoked in each
process) needs scheduler fairness and the futex handshake of the helpers (C02/C03); it is kept
visible as `C16_full` and replaced by: never lost + at most once (`*_callbacks_once_partial`), every
wait in the child is for a thread that exists (`child_gp_terminates`, `child_barrier_terminates`),
`after_fork_child` itself always makes progress and terminates (`after_fork_child_terminates`).
-/
set_option linter.unusedVariables false
namespace UrcuVerif.Fork

/-- the thread exists in this process -/
def alive (s : State) : Th → Prop
  | .u t => s.upc t ≠ .gone
  | .h h => s.hpc h ≠ .gone ∧ s.hpc h ≠ .none

/-- callback `id` is held by a structure from which it will be run: a queue of `call_rcu_data_list`
(whose helper has a thread, unless the process is inside `after_fork_child`, which splices it onto the
new default helper), or the private batch of a helper thread that exists -/
def Held (s : State) (id : Nat) : Prop :=
  (∃ h, s.loc id = .queue h ∧ id ∈ s.queue h ∧ h ∈ s.list ∧ (s.child = false → s.hpc h ≠ .gone)) ∨
  (∃ h, s.loc id = .batch h ∧ id ∈ s.batch h ∧ s.hpc h ≠ .gone ∧ s.hpc h ≠ .none)

theorem reach_inv (c : Cfg) {s : State} (h : Reach c s) : Inv c s := inv_reach c h

-- ------------------------------------------------------------------------------------------
-- 1. the fork point is quiescent
-- ------------------------------------------------------------------------------------------

/-- **fork_point_quiescent**: in every state where `call_rcu_before_fork()` has returned (thread `t`
is about to call `fork()`), `t` holds `call_rcu_mutex`; every helper thread of the process has its
`call_rcu_data` in the list; every helper of the list is at its pause spin with `PAUSE` and `PAUSED`
set, is not registered as a reader, has no spliced-out batch in hand and does not hold `rcu_gp_lock`;
nobody else holds it either unless it is an application thread inside `synchronize_rcu()` (excluded
by `ForkPre`); every registered callback that has not run is in exactly one queue, and that queue
belongs to the list. -/
theorem fork_point_quiescent (c : Cfg) {s : State} (h : Reach c s) (t : Nat) (ht : s.upc t = .atFork) :
    s.mutex = some t ∧
    (∀ x, s.hpc x ≠ .none → s.hpc x ≠ .gone → x ∈ s.list) ∧
    (∀ x, x ∈ s.list → s.hpc x = .spin ∧ s.pause x = true ∧ s.paused x = true ∧ Th.h x ∉ s.registry ∧
        s.batch x = [] ∧ s.gpl ≠ some (.h x)) ∧
    (∀ x, s.gpl ≠ some (.h x)) ∧
    (∀ id, s.reg id = true → s.loc id = .done ∨
        ∃ x, s.loc id = .queue x ∧ x ∈ s.list ∧ id ∈ s.queue x ∧ (s.queue x).Nodup ∧ ∀ y, id ∈ s.queue y → y = x) := by
  obtain ⟨p, l, k⟩ := inv_reach c h
  obtain ⟨hspin, hw, hc, hm⟩ := p.bf3 t ht
  have hx : ∀ x, x ∈ s.list → s.hpc x = .spin ∧ s.pause x = true ∧ s.paused x = true ∧ Th.h x ∉ s.registry ∧
      s.batch x = [] ∧ s.gpl ≠ some (.h x) := by
    intro x hx
    obtain ⟨h1, h2⟩ := hspin x hx
    refine ⟨h2, h1, ?_, ?_, ?_, ?_⟩
    · exact (p.paused_pc x (by simp [h2])).mpr (Or.inl h2)
    · intro hr; have := l.reg_h x hr; simp [h2, HPc.isReg] at this
    · by_cases hb : s.batch x = []
      · exact hb
      · have := k.batch_pc x hb; simp [h2, HPc.mayBatch] at this
    · intro hg; have := l.g_ownh x hg; simp [h2, HPc.holdsG] at this
  refine ⟨hm, p.live_in_list, hx, ?_, ?_⟩
  · intro x hg
    have h1 := hHoldsG_g1 (l.g_ownh x hg)
    have h2 := p.live_in_list x (by simp [h1]) (by simp [h1])
    exact (hx x h2).2.2.2.2.2 hg
  · intro id hr
    cases hl : s.loc id with
    | none => have := k.loc_reg id hl; simp [hr] at this
    | done => exact Or.inl rfl
    | queue x =>
      obtain ⟨h1, h2⟩ := k.loc_q x id hl
      refine Or.inr ⟨x, rfl, h2, h1, k.q_nodup x, fun y hy => ?_⟩
      have := k.q_loc y id hy
      rw [hl] at this; injection this with this; exact this.symm
    | batch x =>
      have h1 := k.loc_b x id hl
      have h2 := hMayBatch_ne (k.batch_pc x (List.ne_nil_of_mem h1))
      have h3 := p.live_in_list x h2.1 h2.2.1
      exact absurd (hx x h3).1 h2.2.2

-- ------------------------------------------------------------------------------------------
-- 2. the child after `call_rcu_after_fork_child`
-- ------------------------------------------------------------------------------------------

theorem list_all_eq {l : List Nat} {d : Nat} (hn : l.Nodup) (hd : d ∈ l) (ha : ∀ x, x ∈ l → x = d) : l = [d] := by
  cases l with
  | nil => cases hd
  | cons a l =>
    have ha' := ha a (by simp)
    subst ha'
    cases l with
    | nil => rfl
    | cons b l =>
      have hb := ha b (by simp)
      subst hb
      simp at hn

/-- **child_state_wf**: the state in which `call_rcu_after_fork_child()` returns (`afcDone`, or
`afcNone` when call_rcu was never used) satisfies the whole invariant (in particular the C03-style
callback conservation `InvC`), is outside any fork window, `call_rcu_mutex` and `rcu_gp_lock` are not
held by a thread that does not exist, `call_rcu_data_list` is exactly the new default helper (or
empty), whose thread exists; the per-CPU array and the per-thread pointer of the forking thread are
reset, so that no pointer designates the `call_rcu_data` of an erased thread; the forking thread is
the only application thread. -/
theorem child_state_wf (c : Cfg) {s s' : State} (h : Reach c s) (t : Nat)
    (st : step c s (.afcDone t) = some s' ∨ step c s (.afcNone t) = some s') :
    Inv c s' ∧ s'.child = false ∧ s'.win = none ∧ s'.mutex = none ∧ s'.upc t = .idle ∧
    (∀ u, u ≠ t → s'.upc u = .gone) ∧
    (s'.list = [] ∨ ∃ d, s'.list = [d] ∧ s'.dflt = some d ∧ s'.hpc d ≠ .gone ∧ s'.hpc d ≠ .none ∧
        (∀ cpu, s'.percpu cpu = none) ∧ s'.arr = false ∧ s'.thr t = none) ∧
    (∀ x, s'.hpc x ≠ .none → s'.hpc x ≠ .gone → s'.dflt = some x) := by
  have hi := inv_reach c h
  have hi' : Inv c s' := by
    rcases st with st | st <;> exact inv_step c hi st
  obtain ⟨p, l, k⟩ := hi
  rcases st with st | st
  · -- afcDone
    simp only [step] at st
    split at st
    · rename_i x heq
      simp only [Option.some.injEq] at st
      obtain ⟨⟨hnd, hin, hgone⟩, hlate, hw, hc⟩ := p.ch_loop t [] heq
      have honly := p.child_only hc
      have hothers : ∀ u, u ≠ t → s.upc u = .gone := by
        intro u hu
        rcases honly u with h1 | h1
        · have := p.pc_win u (Or.inr h1); rw [hw] at this; injection this with this; exact absurd this.symm hu
        · exact h1
      have hmx : s.mutex = none := by
        cases hm : s.mutex with
        | none => rfl
        | some t' =>
          have h1 := p.m_own t' hm
          by_cases ht' : t' = t
          · subst ht'; simp [heq, UPc.holdsM] at h1
          · simp [hothers t' ht', UPc.holdsM] at h1
      subst st
      refine ⟨hi', rfl, rfl, hmx, by simp [upd], fun u hu => by simp [upd, hu, hothers u hu], ?_, ?_⟩
      · obtain ⟨hpc, hthr, harr, hdn, hd⟩ := hlate
        cases hdf : s.dflt with
        | none => exact absurd hdf hdn
        | some d =>
          right
          have hdl := k.dflt_in d hdf
          have hall : ∀ x, x ∈ s.list → x = d := by
            intro x hx
            have h1 : s.hpc x ≠ .gone := fun hg => by have := hgone x hx hg; cases this
            have h2 : s.hpc x ≠ .none := p.used x (p.list_lt x hx)
            have := p.ch_dflt hc x h2 h1
            rw [hdf] at this; injection this with this; exact this.symm
          exact ⟨d, list_all_eq p.list_nodup hdl hall, rfl, (hd d hdf).1, (hd d hdf).2, hpc, harr, by simpa using hthr⟩
      · intro x h1 h2
        exact p.ch_dflt hc x h1 h2
    · cases st
  · -- afcNone
    simp only [step] at st
    split at st
    · rename_i hg
      simp only [Option.some.injEq] at st
      obtain ⟨hw, hc, hnone⟩ := p.ch_e2 t hg.1
      have honly := p.child_only hc
      have hothers : ∀ u, u ≠ t → s.upc u = .gone := by
        intro u hu
        rcases honly u with h1 | h1
        · have := p.pc_win u (Or.inr h1); rw [hw] at this; injection this with this; exact absurd this.symm hu
        · exact h1
      have hmx : s.mutex = none := by
        cases hm : s.mutex with
        | none => rfl
        | some t' =>
          have h1 := p.m_own t' hm
          by_cases ht' : t' = t
          · subst ht'; simp [hg.1, UPc.holdsM] at h1
          · simp [hothers t' ht', UPc.holdsM] at h1
      subst st
      refine ⟨hi', rfl, rfl, hmx, by simp [upd], fun u hu => by simp [upd, hu, hothers u hu], Or.inl hg.2, ?_⟩
      intro x h1 h2
      rcases hnone x with h3 | h3
      · exact absurd h3 h1
      · exact absurd h3 h2
    · cases st

-- ------------------------------------------------------------------------------------------
-- 3. callbacks queued at the fork: once in the parent, once in the child
-- ------------------------------------------------------------------------------------------

/-- a step that is not a fork keeps the snapshot `atFork` -/
theorem atFork_step (c : Cfg) {s s' : State} {l : Label} (st : step c s l = some s')
    (hl : ∀ t, l ≠ .forkChild t ∧ l ≠ .forkParent t) : s'.atFork = s.atFork := by
  cases l <;> first
    | (exfalso; exact (hl _).1 rfl)
    | (exfalso; exact (hl _).2 rfl)
    | (simp only [step] at st
       (repeat' split at st)
       all_goals (first | (simp at st; done) | skip)
       all_goals (simp only [Option.some.injEq] at st; subst st; rfl))

/-- runs of one process without a further fork -/
inductive ReachNF (c : Cfg) (s0 : State) : State → Prop
  | refl : ReachNF c s0 s0
  | step {s s' l} : ReachNF c s0 s → (∀ t, l ≠ .forkChild t ∧ l ≠ .forkParent t) → step c s l = some s' → ReachNF c s0 s'

theorem reachNF_inv (c : Cfg) {s0 s : State} (h0 : Inv c s0) (h : ReachNF c s0 s) : Inv c s ∧ s.atFork = s0.atFork := by
  induction h with
  | refl => exact ⟨h0, rfl⟩
  | step _ hl st ih => exact ⟨inv_step c ih.1 st, (atFork_step c st hl).trans ih.2⟩

/-- core: in any reachable state, a callback of the fork snapshot has been invoked at most once
since the fork, exactly when it is `done`, and otherwise it is `Held` -/
theorem snapshot_once (c : Cfg) {s : State} (hi : Inv c s) (id : Nat) (ha : s.atFork id = true) :
    s.invSince id ≤ 1 ∧ (s.invSince id = 1 ↔ s.loc id = .done) ∧ (s.loc id ≠ .done → Held s id) := by
  obtain ⟨p, l, k⟩ := hi
  have h1 := k.af_cnt id ha
  have h2 := k.af_loc id ha
  cases hl : s.loc id with
  | none => simp [hl, Loc.isQ, Loc.invoked] at h2
  | done => simp [hl, Loc.invoked] at h1; simp [h1]
  | queue x =>
    simp [hl, Loc.invoked] at h1
    obtain ⟨h3, h4⟩ := k.loc_q x id hl
    refine ⟨by omega, by simp [h1], fun _ => Or.inl ⟨x, hl, h3, h4, fun hc => p.list_alive hc x h4⟩⟩
  | batch x =>
    simp [hl, Loc.invoked] at h1
    have h3 := k.loc_b x id hl
    have h4 := hMayBatch_ne (k.batch_pc x (List.ne_nil_of_mem h3))
    refine ⟨by omega, by simp [h1], fun _ => Or.inr ⟨x, hl, h3, h4.2.1, h4.1⟩⟩

/-- **child_callbacks_once** (safety half): let the child be created at a reachable fork point.  In
every state the child reaches before it forks again, every callback that was queued at fork time has
been invoked at most once in the child, it has been invoked once iff it is done, and as long as it is
not done it is never lost: it sits in a queue of `call_rcu_data_list` – to be spliced onto the new
default helper by `after_fork_child`, and after that owned by a helper thread that exists – or in the
batch of a helper thread that exists. -/
theorem child_callbacks_once_partial (c : Cfg) {s sc s' : State} (h : Reach c s) (t : Nat)
    (hf : step c s (.forkChild t) = some sc) (hr : ReachNF c sc s') (id : Nat) (hq : ∃ x, s.loc id = .queue x) :
    s'.invSince id ≤ 1 ∧ (s'.invSince id = 1 ↔ s'.loc id = .done) ∧ (s'.loc id ≠ .done → Held s' id) := by
  have hi := inv_step c (inv_reach c h) hf
  obtain ⟨hi', ha⟩ := reachNF_inv c hi hr
  apply snapshot_once c hi'
  rw [ha]
  simp only [step] at hf
  split at hf
  · simp only [Option.some.injEq] at hf; subst hf
    obtain ⟨x, hx⟩ := hq
    simp [childOf, hx, isQueue]
  · cases hf

/-- **parent_callbacks_once** (safety half): the same in the parent. -/
theorem parent_callbacks_once_partial (c : Cfg) {s sp s' : State} (h : Reach c s) (t : Nat)
    (hf : step c s (.forkParent t) = some sp) (hr : ReachNF c sp s') (id : Nat) (hq : ∃ x, s.loc id = .queue x) :
    s'.invSince id ≤ 1 ∧ (s'.invSince id = 1 ↔ s'.loc id = .done) ∧ (s'.loc id ≠ .done → Held s' id) := by
  have hi := inv_step c (inv_reach c h) hf
  obtain ⟨hi', ha⟩ := reachNF_inv c hi hr
  apply snapshot_once c hi'
  rw [ha]
  simp only [step] at hf
  split at hf
  · simp only [Option.some.injEq] at hf; subst hf
    obtain ⟨x, hx⟩ := hq
    simp [parentOf, hx, isQueue]
  · cases hf

/-- at the fork itself nothing is in a batch and nothing was invoked yet: the snapshot is exactly the
set of queued callbacks, both processes start with the same queues -/
theorem fork_snapshot (c : Cfg) {s sc sp : State} (h : Reach c s) (t : Nat)
    (hc : step c s (.forkChild t) = some sc) (hp : step c s (.forkParent t) = some sp) :
    sc.queue = s.queue ∧ sp.queue = s.queue ∧ sc.loc = s.loc ∧ sp.loc = s.loc ∧
    (∀ id, sc.atFork id = sp.atFork id) ∧ (∀ id, sc.invSince id = 0 ∧ sp.invSince id = 0) ∧
    (∀ id x, s.loc id ≠ .batch x) := by
  obtain ⟨p, l, k⟩ := inv_reach c h
  simp only [step] at hc hp
  split at hc
  · rename_i hg
    simp only [Option.some.injEq] at hc hp
    rw [if_pos hg] at hp
    simp only [Option.some.injEq] at hp
    subst hc; subst hp
    refine ⟨rfl, rfl, rfl, rfl, fun _ => rfl, fun _ => ⟨rfl, rfl⟩, fun id x hl => ?_⟩
    have h1 := k.loc_b x id hl
    have h2 := hMayBatch_ne (k.batch_pc x (List.ne_nil_of_mem h1))
    have h3 := p.live_in_list x h2.1 h2.2.1
    exact absurd ((p.bf3 t hg.1).1 x h3).2 h2.2.2
  · cases hc

/-- never twice, in the whole history of a process and its ancestors -/
theorem cb_at_most_once (c : Cfg) {s : State} (h : Reach c s) (id : Nat) : s.invN id ≤ 1 ∧ s.invSince id ≤ s.invN id := by
  obtain ⟨p, l, k⟩ := inv_reach c h
  refine ⟨?_, k.since_le id⟩
  rw [k.inv_cnt id]; split <;> omega

-- ------------------------------------------------------------------------------------------
-- 4. grace periods and barriers never wait for an erased thread
-- ------------------------------------------------------------------------------------------

/-- **child_gp_terminates** (no wait on erased threads), for every process: whoever holds
`rcu_gp_lock` or `call_rcu_mutex` exists; every registered reader exists; every thread a grace period
is waiting for is a registered application thread that exists and is inside a read-side section. -/
theorem child_gp_terminates (c : Cfg) {s : State} (h : Reach c s) :
    (∀ x, s.gpl = some x → alive s x) ∧ (∀ t, s.mutex = some t → alive s (.u t)) ∧
    (∀ r, r ∈ s.registry → alive s r) ∧
    (∀ u, u ∈ s.waitL → Th.u u ∈ s.registry ∧ 0 < s.nest u ∧ alive s (.u u)) ∧
    (s.gpl = none → s.waitL = []) := by
  obtain ⟨p, l, k⟩ := inv_reach c h
  refine ⟨?_, ?_, ?_, ?_, l.wait_gp⟩
  · intro x hx
    cases x with
    | u t => have := uHoldsG_gp (l.g_ownu t hx); simp [alive, this]
    | h x => have := hHoldsG_g1 (l.g_ownh x hx); simp [alive, this]
  · intro t ht
    have := p.m_own t ht
    simp only [alive]
    intro hg; simp [hg, UPc.holdsM] at this
  · intro r hr
    cases r with
    | u t => exact l.reg_u t hr
    | h x => have := hIsReg_ne (l.reg_h x hr); exact ⟨this.2.1, this.1⟩
  · intro u hu
    obtain ⟨h1, h2⟩ := l.wait_in u hu
    exact ⟨h1, h2, l.reg_u u h1⟩

/-- the child starts with `rcu_gp_lock` free, no grace period in flight, and a registry that holds at
most the forking thread: its first `synchronize_rcu()` has nobody but itself to consider -/
theorem child_registry (c : Cfg) {s sc : State} (h : Reach c s) (t : Nat) (hf : step c s (.forkChild t) = some sc) :
    sc.gpl = none ∧ sc.waitL = [] ∧ sc.mutex = some t ∧ (∀ r, r ∈ sc.registry → r = .u t) ∧
    (∀ u, u ≠ t → sc.upc u = .gone) ∧ (∀ x, sc.hpc x = .none ∨ sc.hpc x = .gone) := by
  obtain ⟨p, l, k⟩ := inv_reach c h
  simp only [step] at hf
  split at hf
  · rename_i hg
    simp only [Option.some.injEq] at hf; subst hf
    obtain ⟨hspin, hw, hc, hm⟩ := p.bf3 t hg.1
    have hpre := (forkPreB_iff c s t).mp hg.2
    have hgpl : s.gpl = none := by
      cases hx : s.gpl with
      | none => rfl
      | some x =>
        cases x with
        | u u =>
          have h1 := uHoldsG_gp (l.g_ownu u hx)
          by_cases hu : u = t
          · subst hu; rw [hg.1] at h1; cases h1
          · by_cases hn : u < c.n
            · rcases hpre.2.1 u hn hu with h2 | h2 <;> (rw [h2] at h1; cases h1)
            · rcases p.big_idle u (by omega) with h2 | h2 <;> (rw [h2] at h1; cases h1)
        | h x =>
          have h1 := hHoldsG_g1 (l.g_ownh x hx)
          have h2 := p.live_in_list x (by simp [h1]) (by simp [h1])
          have h3 := (hspin x h2).2
          rw [h1] at h3; cases h3
    refine ⟨hgpl, l.wait_gp hgpl, hm, ?_, ?_, ?_⟩
    · intro r hr
      cases r with
      | u u => rw [hpre.2.2 u hr]
      | h x =>
        have h1 := hIsReg_ne (l.reg_h x hr)
        have h2 := p.live_in_list x h1.1 h1.2.1
        exact absurd (hspin x h2).2 h1.2.2
    · intro u hu; simp [childOf, hu]
    · intro x; simp only [childOf]; split <;> simp
  · cases hf

/-- **child_barrier_terminates**: every marker an `rcu_barrier()` is waiting for (in any process) is
a callback that is `Held`: queued on a `call_rcu_data` of the list whose helper thread exists (in the
child's `after_fork_child` window: about to be spliced onto the new default helper), or in the batch
of a helper thread that exists – never on a structure only an erased thread would serve. -/
theorem child_barrier_terminates (c : Cfg) {s : State} (h : Reach c s) (b id : Nat) (hb : id ∈ s.bpend b) :
    s.bar id = some b ∧ Held s id := by
  obtain ⟨p, l, k⟩ := inv_reach c h
  obtain ⟨h1, h2⟩ := k.bp_loc b id hb
  refine ⟨h1, ?_⟩
  cases hl : s.loc id with
  | none => simp [hl, Loc.isQ] at h2
  | done => simp [hl, Loc.isQ] at h2
  | queue x =>
    obtain ⟨h3, h4⟩ := k.loc_q x id hl
    exact Or.inl ⟨x, hl, h3, h4, fun hc => p.list_alive hc x h4⟩
  | batch x =>
    have h3 := k.loc_b x id hl
    have h4 := hMayBatch_ne (k.batch_pc x (List.ne_nil_of_mem h3))
    exact Or.inr ⟨x, hl, h3, h4.2.1, h4.1⟩

/-- outside the child's cleanup window every `call_rcu_data` of the list – i.e. every helper
`rcu_barrier()` queues a marker on and `call_rcu_before_fork()` waits for – has a thread that exists,
and no helper that exists is paused unless a fork window is open -/
theorem helpers_alive (c : Cfg) {s : State} (h : Reach c s) (hc : s.child = false) :
    (∀ x, x ∈ s.list → alive s (.h x)) ∧ (s.win = none → ∀ x, x ∈ s.list → s.pause x = false ∧ s.paused x = false) := by
  obtain ⟨p, l, k⟩ := inv_reach c h
  refine ⟨fun x hx => ⟨p.list_alive hc x hx, p.used x (p.list_lt x hx)⟩, fun hw x hx => p.nowin hw x (p.list_alive hc x hx)⟩

-- ------------------------------------------------------------------------------------------
-- 5. `call_rcu_after_fork_child` always terminates
-- ------------------------------------------------------------------------------------------

/-- remaining work of `call_rcu_after_fork_child` -/
def afcMeasure (s : State) (t : Nat) : Nat :=
  match s.upc t with
  | .afcUnlock => s.list.length + 4
  | .afcCreate => s.list.length + 3
  | .afcLoop rem => rem.length + 1
  | _ => 0

/-- **after_fork_child_terminates**: in every reachable state in which a thread is inside
`call_rcu_after_fork_child()`, that thread has an enabled step (it never waits: the mutex is free or
its own, no join, no wait for `STOPPED`), and the step strictly decreases `afcMeasure`; at measure 0
the handler has returned. -/
theorem after_fork_child_terminates (c : Cfg) {s : State} (h : Reach c s) (t : Nat) (ht : (s.upc t).inAfc = true) :
    ∃ l s', step c s l = some s' ∧ afcMeasure s' t < afcMeasure s t ∧
      (l = .afcUnlock t ∨ l = .afcNone t ∨ l = .afcCreate t ∨ l = .afcSkip t ∨ l = .afcDispose t ∨ l = .afcDone t) := by
  obtain ⟨p, l, k⟩ := inv_reach c h
  have hchild := p.child_pc t ht
  have hwin := p.pc_win t (Or.inr ht)
  have hothers : ∀ u, u ≠ t → s.upc u = .gone := by
    intro u hu
    rcases p.child_only hchild u with h1 | h1
    · have := p.pc_win u (Or.inr h1); rw [hwin] at this; injection this with this; exact absurd this.symm hu
    · exact h1
  have hmfree : (s.upc t).holdsM = false → s.mutex = none := by
    intro hh
    cases hm : s.mutex with
    | none => rfl
    | some t' =>
      have h1 := p.m_own t' hm
      by_cases ht' : t' = t
      · subst ht'; rw [hh] at h1; cases h1
      · simp [hothers t' ht', UPc.holdsM] at h1
  have fin : ∀ (l : Label), (∀ s', step c s l = some s' → afcMeasure s' t < afcMeasure s t) → (step c s l).isSome = true →
      (l = .afcUnlock t ∨ l = .afcNone t ∨ l = .afcCreate t ∨ l = .afcSkip t ∨ l = .afcDispose t ∨ l = .afcDone t) →
      ∃ l s', step c s l = some s' ∧ afcMeasure s' t < afcMeasure s t ∧
        (l = .afcUnlock t ∨ l = .afcNone t ∨ l = .afcCreate t ∨ l = .afcSkip t ∨ l = .afcDispose t ∨ l = .afcDone t) := by
    intro l hm hs hl
    cases hst : step c s l with
    | none => rw [hst] at hs; cases hs
    | some s' => exact ⟨l, s', hst, hm s' hst, hl⟩
  cases hpc : s.upc t with
  | afcUnlock =>
    obtain ⟨_, _, hm, _⟩ := p.ch_e1 t hpc
    apply fin (.afcUnlock t)
    · intro s' hs; simp [step, hpc, hm] at hs; subst hs; simp [afcMeasure, hpc, upd]
    · simp [step, hpc, hm]
    · exact Or.inl rfl
  | afcCreate =>
    have hm := hmfree (by simp [hpc, UPc.holdsM])
    by_cases hl : s.list = []
    · apply fin (.afcNone t)
      · intro s' hs; simp [step, hpc, hl] at hs; subst hs; simp [afcMeasure, hpc, upd]
      · simp [step, hpc, hl]
      · exact Or.inr (Or.inl rfl)
    · apply fin (.afcCreate t)
      · intro s' hs; simp [step, hpc, hl, hm] at hs; subst hs; simp [afcMeasure, hpc, upd, newHelper]
      · simp [step, hpc, hl, hm]
      · exact Or.inr (Or.inr (Or.inl rfl))
  | afcLoop rem =>
    have hm := hmfree (by simp [hpc, UPc.holdsM])
    obtain ⟨_, hlate, _, _⟩ := p.ch_loop t rem hpc
    cases rem with
    | nil =>
      apply fin (.afcDone t)
      · intro s' hs; simp [step, hpc] at hs; subst hs; simp [afcMeasure, hpc, upd]
      · simp [step, hpc]
      · exact Or.inr (Or.inr (Or.inr (Or.inr (Or.inr rfl))))
    | cons x rem =>
      cases hd : s.dflt with
      | none => exact absurd hd hlate.2.2.2.1
      | some d =>
        by_cases hx : d = x
        · subst hx
          apply fin (.afcSkip t)
          · intro s' hs; simp [step, hpc, hd] at hs; subst hs; simp [afcMeasure, hpc, upd]
          · simp [step, hpc, hd]
          · exact Or.inr (Or.inr (Or.inr (Or.inl rfl)))
        · apply fin (.afcDispose t)
          · intro s' hs; simp [step, hpc, hd, hx, hm] at hs; subst hs; simp [afcMeasure, hpc, upd]
          · simp [step, hpc, hd, hx, hm]
          · exact Or.inr (Or.inr (Or.inr (Or.inr (Or.inl rfl))))
  | _ => simp [hpc, UPc.inAfc] at ht

-- ------------------------------------------------------------------------------------------
-- full-strength statement (liveness half not proved here) and non-vacuity
-- ------------------------------------------------------------------------------------------

/-- weak fairness for the threads that exist, as a property of an infinite run -/
def FairRun (c : Cfg) (r : Nat → State) (ls : Nat → Label) : Prop :=
  (∀ i, step c (r i) (ls i) = some (r (i + 1))) ∧
  (∀ i l s', step c (r i) l = some s' → (∀ t, l ≠ .forkChild t ∧ l ≠ .forkParent t) →
      ∃ j, i ≤ j ∧ (ls j = l ∨ step c (r j) l = none))

/-- **C16 at full strength (liveness half)**: along every weakly fair run of the child (resp. the
parent) after a fork, in which application threads leave their read-side sections, every callback that
was queued at the fork is eventually `done`.  NOT proved here: it needs the futex handshake of the
helpers (a sleeping helper is woken by the splice onto its queue and by `PAUSE`; C02/C03) which the
model abstracts (`hWait`), and a ranking argument over the helper loop.  What is proved instead:
`child_callbacks_once_partial`, `parent_callbacks_once_partial`, `child_gp_terminates`,
`child_barrier_terminates`, `helpers_alive`, `after_fork_child_terminates`. -/
def C16_full : Prop :=
  ∀ (c : Cfg) (s sc : State) (t : Nat), Reach c s → step c s (.forkChild t) = some sc →
    ∀ (r : Nat → State) (ls : Nat → Label), r 0 = sc → FairRun c r ls →
      ∀ id, (∃ x, s.loc id = .queue x) → ∃ i, (r i).loc id = .done

-- ---- non-vacuity: a concrete run through a fork, in both processes ----

def c2 : Cfg := { n := 2 }

/-- thread 0 registers, a default helper and a second helper are created and start, three callbacks
are queued (two on the default helper, one on thread 0's own helper), helper 0 splices and is inside
its grace period; then `call_rcu_before_fork` -/
def preFork : List Label :=
  [.register 0, .createDflt 0, .hStart 0, .create 0, .hStart 1, .enq 0 10 .dflt, .enq 0 11 .dflt,
   .hTop 0, .hSplice 0, .hGpBegin 0, .setThr 0 (some 1), .enq 0 12 .thr, .enq 0 13 .thr,
   .bfLock 0, .bfPause 0, .bfPause 0, .bfPauseDone 0,
   .hGpEnd 0, .hInvoke 0 10, .hInvoke 0 11, .hInvDone 0, .hWait 0, .hTop 0, .hUnreg 0, .hSetPaused 0,
   .hTop 1, .hUnreg 1, .hSetPaused 1, .bfWait 0, .bfWait 0, .bfRet 0]

def childRun : List Label :=
  [.forkChild 0, .afcUnlock 0, .afcCreate 0, .afcDispose 0, .afcDispose 0, .afcDone 0,
   .hStart 2, .hTop 2, .hSplice 2, .hGpSkip 2, .hInvoke 2 12, .hInvoke 2 13, .hInvDone 2]

def parentRun : List Label :=
  [.forkParent 0, .afpClr 0, .afpClr 0, .afpClrDone 0, .hSpinExit 1, .hClrPaused 1, .hRereg 1, .hSpinExit 0, .hClrPaused 0,
   .afpWait 0, .afpWait 0, .afpUnlock 0, .hRereg 0, .hSplice 1, .hGpBegin 1, .hGpEnd 1, .hInvoke 1 12, .hInvoke 1 13]

def chk (o : Option State) (f : State → Bool) : Bool :=
  match o with
  | some s => f s
  | none => false

/-- the fork point is reached with callbacks 12, 13 queued on helper 1 and both helpers spinning -/
example : chk (run c2 init preFork) (fun s => s.upc 0 == .atFork && s.list == [1, 0] && s.queue 1 == [12, 13] &&
    s.hpc 0 == .spin && s.hpc 1 == .spin && s.registry == [.u 0] && s.invN 10 == 1 && s.mutex == some 0) = true := by decide

/-- the child: inherited helpers disposed of, leftovers on the new default helper 2, which runs them once -/
example : chk (run c2 init (preFork ++ childRun)) (fun s => s.upc 0 == .idle && s.upc 1 == .gone && s.list == [2] &&
    s.dflt == some 2 && s.hpc 0 == .gone && s.hpc 1 == .gone && s.hpc 2 == .wait && s.invSince 12 == 1 && s.invSince 13 == 1 &&
    s.loc 12 == .done && s.thr 0 == none && s.mutex == none && s.child == false && s.invSince 10 == 0 && s.invN 10 == 1) = true := by decide

/-- the parent: helpers resumed, the same callbacks run once there too -/
example : chk (run c2 init (preFork ++ parentRun)) (fun s => s.upc 0 == .idle && s.list == [1, 0] && s.hpc 0 == .splice &&
    s.hpc 1 == .inv && s.invSince 12 == 1 && s.invSince 13 == 1 && s.invN 12 == 1 && s.mutex == none && s.win == none &&
    s.pause 0 == false && s.paused 1 == false) = true := by decide

theorem reach_run (c : Cfg) {s s' : State} (h : Reach c s) (ls : List Label) (hr : run c s ls = some s') : Reach c s' := by
  induction ls generalizing s with
  | nil => simp [run] at hr; exact hr ▸ h
  | cons l ls ih =>
    simp only [run] at hr
    split at hr
    · cases hr
    · rename_i s1 h1; exact ih (Reach.step h h1) hr

/-- the hypotheses of `fork_point_quiescent` / `child_callbacks_once_partial` are satisfiable -/
example : ∃ s, Reach c2 s ∧ s.upc 0 = .atFork ∧ (∃ x, s.loc 12 = .queue x) ∧ (step c2 s (.forkChild 0)).isSome = true := by
  have hk : chk (run c2 init preFork) (fun s => s.upc 0 == .atFork && s.loc 12 == .queue 1 && (step c2 s (.forkChild 0)).isSome) = true := by
    decide
  cases h : run c2 init preFork with
  | none => rw [h] at hk; cases hk
  | some s =>
    rw [h] at hk
    simp only [chk, Bool.and_eq_true, beq_iff_eq] at hk
    exact ⟨s, reach_run c2 Reach.init _ h, hk.1.1, ⟨1, hk.1.2⟩, hk.2⟩

-- ------------------------------------------------------------------------------------------
-- 6. why the caller of `call_rcu_before_fork()` must be quiescent (QSBR: offline) – pre-fix behaviour
-- ------------------------------------------------------------------------------------------

/-- the model WITHOUT the guard "the caller is outside any read-side section / offline" on `bfLock`:
the code before commit "call_rcu_before_fork() goes offline in QSBR" for a registered, online qsbr
reader (an online qsbr thread is, for a grace period, a reader that never leaves its section) -/
def stepUnfixed (c : Cfg) (s : State) : Label → Option State
  | .bfLock t =>
    if t < c.n ∧ s.upc t = .idle ∧ s.mutex = none then
      some { s with upc := upd s.upc t (.bfPause s.list), mutex := some t, win := some t }
    else none
  | l => step c s l

/-- the deadlocked pair: thread `t` waits in `call_rcu_before_fork()` for helper `h` to set `PAUSED`;
`h` is inside `synchronize_rcu()` waiting for the read-side section of `t` to end -/
def Hang (s : State) (t h : Nat) : Prop :=
  (∃ rem, s.upc t = .bfWait (h :: rem)) ∧ s.hpc h = .g1 ∧ t ∈ s.waitL ∧ s.paused h = false ∧ s.gpl = some (.h h) ∧ h < s.nextH

/-- **before_fork_hangs_unfixed**: once the pair is in that state, NO step of ANY thread of the process gets it out –
the forking thread never returns from `call_rcu_before_fork()`. -/
theorem before_fork_hangs_unfixed (c : Cfg) {s s' : State} {l : Label} (t h : Nat) (hh : Hang s t h)
    (hl : ∀ u, l ≠ .forkChild u) (st : stepUnfixed c s l = some s') : Hang s' t h := by
  obtain ⟨⟨rem, h1⟩, h2, h3, h4, h5, h6⟩ := hh
  cases l <;> (first | (exfalso; exact hl _ rfl) | skip) <;> simp only [stepUnfixed, step] at st
  all_goals (repeat' split at st)
  all_goals (first | (simp at st; done) | skip)
  all_goals (simp only [Option.some.injEq] at st; subst st)
  all_goals (refine ⟨⟨rem, ?_⟩, ?_, ?_, ?_, ?_, ?_⟩ <;> simp only [upd, newHelper, relocate, childOf, parentOf, List.mem_filter] <;> grind [upd])

/-- the unfixed code reaches such a state: an online reader (thread 0, inside its "section") queues a
callback, the helper splices it and starts its grace period, thread 0 calls the handler -/
example : chk (match stepUnfixed c2 (((run c2 init [.register 0, .createDflt 0, .hStart 0, .rlock 0, .enq 0 7 .dflt,
      .hTop 0, .hSplice 0, .hGpBegin 0]).getD init)) (.bfLock 0) with
    | some s => run c2 s [.bfPause 0, .bfPauseDone 0]
    | none => none)
    (fun s => s.upc 0 == .bfWait [0] && s.hpc 0 == .g1 && s.waitL == [0] && s.paused 0 == false && s.gpl == some (.h 0) && decide (0 < s.nextH)) = true := by decide

/-- with the guard (the repaired code) the handler cannot even start from a read-side section -/
example : chk (run c2 init [.register 0, .createDflt 0, .hStart 0, .rlock 0, .enq 0 7 .dflt, .hTop 0, .hSplice 0, .hGpBegin 0])
    (fun s => (step c2 s (.bfLock 0)).isNone) = true := by decide

end UrcuVerif.Fork

-- ------------------------------------------------------------------------------------------
-- 7. bp flavor: urcu_bp_before_fork / after_fork_parent / after_fork_child
-- ------------------------------------------------------------------------------------------
namespace UrcuVerif.ForkBp

/-- **bp_fork_point**: when `urcu_bp_before_fork()` has returned, the caller holds `rcu_gp_lock` and
`rcu_registry_lock` with all signals blocked, no grace period is in flight (no reader is parked on a
private list), and no other thread is inside a grace period or inside registry surgery – whatever the
other threads are doing (registered, inside read-side sections, about to register …). -/
theorem bp_fork_point {s : State} (h : Reach s) (t : Nat) (ht : s.pc t = .atFork) :
    s.gpl = some t ∧ s.rgl = some t ∧ s.sigblk t = true ∧ s.held = [] ∧
    ∀ u, u ≠ t → (s.pc u).holdsG = false ∧ (s.pc u).holdsR = false := by
  have i := inv_reach h
  have hg := i.g_pc t (by simp [ht, Pc.holdsG])
  have hr := i.r_pc t (by simp [ht, Pc.holdsR])
  refine ⟨hg, hr, i.blk t (by simp [ht, Pc.blocked]), ?_, fun u hu => ⟨?_, ?_⟩⟩
  · by_cases hh : s.held = []
    · exact hh
    · have := i.held_gp t hh hg; simp [ht] at this
  · cases hx : (s.pc u).holdsG with
    | false => rfl
    | true => have := i.g_pc u hx; rw [hg] at this; injection this with this; exact absurd this.symm hu
  · cases hx : (s.pc u).holdsR with
    | false => rfl
    | true => have := i.r_pc u hx; rw [hr] at this; injection this with this; exact absurd this.symm hu

/-- **bp_child_pruned**: after the child's prune the registry holds at most the forking thread –
every slot of an erased thread is gone, also of threads that were inside a read-side section at the
fork – and nothing is parked on a private list. -/
theorem bp_child_pruned {s s' : State} (h : Reach s) (t : Nat) (st : step s (.acPrune t) = some s') :
    (∀ r, r ∈ s'.registry → r = t) ∧ s'.held = [] ∧ s'.child = false ∧ s'.gpl = some t ∧ s'.rgl = some t := by
  have i := inv_reach h
  simp only [step] at st
  split at st
  · rename_i hp
    simp only [Option.some.injEq] at st; subst st
    have hg := i.g_pc t (by simp [hp, Pc.holdsG])
    refine ⟨fun r hr => by simpa [List.mem_filter] using (List.mem_filter.mp hr).2, ?_, rfl, hg, i.r_pc t (by simp [hp, Pc.holdsR])⟩
    by_cases hh : s.held = []
    · exact hh
    · have := i.held_gp t hh hg; simp [hp] at this
  · cases st

/-- **bp_child_gp_terminates** (no wait on erased threads), every process: lock holders exist and run
with signals blocked (so a signal handler that would register the thread cannot run and self-deadlock
on `rcu_registry_lock`); outside the child's not-yet-pruned window every registered reader exists. -/
theorem bp_child_gp_terminates {s : State} (h : Reach s) :
    (∀ t, s.gpl = some t → s.pc t ≠ .gone ∧ s.sigblk t = true) ∧
    (∀ t, s.rgl = some t → s.pc t ≠ .gone ∧ s.sigblk t = true ∧ step s (.sigReg t) = none) ∧
    (s.child = false → ∀ r, r ∈ s.registry ∨ r ∈ s.held → s.pc r ≠ .gone) := by
  have i := inv_reach h
  refine ⟨fun t ht => ?_, fun t ht => ?_, i.reg_alive⟩
  · have h1 := i.g_own t ht
    refine ⟨fun hg => by simp [hg, Pc.holdsG] at h1, i.blk t ?_⟩
    cases hp : s.pc t <;> simp_all [Pc.holdsG, Pc.blocked]
  · have h1 := i.r_own t ht
    have hb : s.sigblk t = true := by
      apply i.blk t
      cases hp : s.pc t <;> simp_all [Pc.holdsR, Pc.blocked]
    exact ⟨fun hg => by simp [hg, Pc.holdsR] at h1, hb, by simp [step, hb]⟩

/-- **mask_restored**: `urcu_bp_after_fork_parent()` and `urcu_bp_after_fork_child()` give the calling
thread back exactly the signal mask it had when it entered `urcu_bp_before_fork()` – whatever other
threads do meanwhile, in particular other threads entering `urcu_bp_before_fork()` with different
masks (they block on `rcu_gp_lock`; `saved_fork_signal_mask` is only written with both locks held). -/
theorem mask_restored {s s' : State} (h : Reach s) (t : Nat)
    (st : step s (.apGp t) = some s' ∨ step s (.acGp t) = some s') :
    s'.mask t = s.pre t ∧ s.mask t = s.pre t ∧ ∀ u, u ≠ t → s'.mask u = s.mask u := by
  have i := inv_reach h
  rcases st with st | st <;> simp only [step] at st <;> split at st
  · rename_i hg
    simp only [Option.some.injEq] at st; subst st
    obtain ⟨h1, h2⟩ := i.mk_exit t (Or.inl hg.1)
    exact ⟨by simp [upd, h1], h2, fun u hu => by simp [upd, hu]⟩
  · cases st
  · rename_i hg
    simp only [Option.some.injEq] at st; subst st
    obtain ⟨h1, h2⟩ := i.mk_exit t (Or.inr (Or.inr hg.1))
    exact ⟨by simp [upd, h1], h2, fun u hu => by simp [upd, hu]⟩
  · cases st

/-- non-vacuity: thread 1 (mask 5) enters `urcu_bp_before_fork()` while thread 0 (mask 2) is between its
`before_fork` and `after_fork_parent`; both get their own masks back -/
example : ((run init [.setMask 0 2, .setMask 1 5, .bfCall 0, .bfGp 0, .bfRg 0, .bfCall 1, .forkParent 0, .apRg 0, .apGp 0,
      .bfGp 1, .bfRg 1, .forkParent 1, .apRg 1, .apGp 1]).map
      (fun s => s.mask 0 == 2 && s.mask 1 == 5 && s.gpl == none)) = some true := by decide

/-- non-vacuity: thread 1 is inside a read-side section and thread 2 is registered when thread 0 forks;
the child prunes both, its registry is `[0]`, both locks are released by the handler -/
example : ((run init [.regBegin 0, .regEnd 0, .regBegin 1, .regEnd 1, .regBegin 2, .regEnd 2, .rlock 1, .rlock 1,
      .bfCall 0, .bfGp 0, .bfRg 0, .fork 0, .acPrune 0, .acRg 0, .acGp 0]).map
      (fun s => s.registry == [0] && s.gpl == none && s.rgl == none && s.sigblk 0 == false && s.nest 1 == 2)) = some true := by decide

end UrcuVerif.ForkBp

-- ------------------------------------------------------------------------------------------
-- 8. cds_lfht work queue: nesting counter and worker pause / resume / re-creation
-- ------------------------------------------------------------------------------------------
namespace UrcuVerif.ForkWq

/-- **atfork_nesting_balanced**: in every reachable state in which the forking thread is between
hook calls, `cds_lfht_fork_mutex` is held iff the nesting counter is non-zero; the counter equals the
number of `before` calls minus the number of `after` calls; while it is non-zero and a work queue
exists the resize worker is parked at its pause spin (parent) or erased (child, until the last
`after_fork_child` call re-creates it); when it is back to zero the mutex is free, `PAUSE`/`PAUSED` are
clear and the worker thread exists. -/
theorem atfork_nesting_balanced {wq : Bool} {s : State} (h : Reach wq s) (hi : s.fpc = .idle) :
    s.nest + s.na = s.nb ∧ (s.fm = true ↔ 0 < s.nest) ∧
    (0 < s.nest → s.wq = true → s.pause = true ∧ (s.wpc = .spin ∨ s.wpc = .gone) ∧ (s.child = true ↔ s.wpc = .gone)) ∧
    (s.nest = 0 → s.pause = false ∧ s.paused = false ∧ s.wpc ≠ .gone ∧ (s.wq = true → s.wpc ≠ .none) ∧ s.child = false) := by
  have i := inv_reach h
  refine ⟨i.cnt, ?_, fun hn hw => i.parked hw hi hn, fun hn => ?_⟩
  · rw [i.fm_iff]; simp [hi, FPc.holds]
  · obtain ⟨a, b, c, d, _⟩ := i.nopause hi hn
    exact ⟨a, b, c, i.wq_pc', d⟩

/-- non-vacuity: an application registered with two flavors: two `before` calls, fork, two `after`
calls in the child: the worker is re-created exactly at the last one and runs the queued resize -/
example : ((run (init true) [.queueWork 5, .before, .bLock, .bPause, .wTop, .wSetPaused, .bWait, .before, .fork true,
      .afterChild, .afterChild, .cCreate, .cUnlock, .wTop, .wRun]).map
      (fun s => s.nest == 0 && s.fm == false && s.wpc == .top && s.done == [5] && s.pause == false && s.paused == false &&
        s.child == false)) = some true := by decide

/-- … and in the parent the worker resumes -/
example : ((run (init true) [.queueWork 5, .before, .bLock, .bPause, .wTop, .wSetPaused, .bWait, .before, .fork false,
      .afterParent, .afterParent, .pClr, .wSpinExit, .wClrPaused, .pWait, .pUnlock, .wTop, .wRun]).map
      (fun s => s.nest == 0 && s.fm == false && s.wpc == .top && s.done == [5] && s.pause == false && s.paused == false)) =
    some true := by decide

end UrcuVerif.ForkWq
