import UrcuVerif.Src.Lfht7Add
/-!
# Source IR of `src/rculfhash.c` ⊑ thread-local projection of L2 (`Lfht/Conc`), part 7: `cds_lfht_add_unique`

`cds_lfht_add_unique` passes `&iter` (a local: `Loc.glob "&iter"` in the generated IR) as `unique_ret`; `Src/Lfht7Add.lean`
first restates `Lfht5Add.lean` / `Lfht6Add.lean` for `unique_ret` at an arbitrary location (namespace `LfhtUG`, same proofs),
then proves the wrapper: from L2's state after `callAdd .uniq node hash key` (pc `aSize`), for every budget and every oracle
admissible for the union automaton, the run of the **generated** `Gen.Src.«lfht.cds_lfht_add_unique»` does not fail, its
events are accepted by `LfhtU.lstep` (`hashOf`, `ldSize`, then `_cds_lfht_add` in mode `uniq`, then `ht_count_add` – a
silent label, called iff `iter.node == node`), and when it returns, **the C return value is the node of L2's `Out.node n`**
(the new node if it was inserted, the duplicate otherwise) and L2's thread is `idle`.
-/
namespace UrcuVerif.Props.SrcLfht7
open UrcuVerif UrcuVerif.Src UrcuVerif.Lfht.Conc UrcuVerif.Src.LfhtR UrcuVerif.Src.LfhtUG

theorem cds_lfht_add_unique_refines (fuel : Nat) (rev : Nat → Nat) (env : Env) (inp : List Val) (x : Thr)
    (o0 : Lfht.Conc.Out) (ht : Nat) (fp mv : Val)
    (hht : env.vars "ht" = some (.ptr (.obj ht))) (hhash : env.vars "hash" = some (.int x.hs))
    (hnode : env.vars "node" = some (.ptr (.obj x.node))) (hkey : env.vars "key" = some (.int x.ky))
    (hmt : env.vars "match" = some mv) (hn0 : x.node ≠ 0)
    (hfp : env.priv (.field (.obj ht) "bucket_at") = some fp)
    (hrev : ∀ n, n ≠ 0 → n ≠ x.node → env.priv (.field (.obj n) "reverse_hash") = some (.int (rev n)))
    (hpc : x.pc = .aSize) (hmode : x.mode = .uniq)
    (hO : LfhtU.OracleU rev ⟨x, .none, .none, o0⟩ inp) :
    ∃ out, exec fuel Gen.Src.«lfht.cds_lfht_add_unique» env inp = .ok out ∧
      ∃ ls', LfhtU.lrun rev ⟨x, .none, .none, o0⟩ out.events = some ls' ∧
        (out.ctl = .blocked ∨ out.ctl = .fuel ∨
          ∃ n, out.ctl = .ret (some (.ptr (.obj n))) ∧ ls'.out = .node n ∧ ls'.x.pc = .idle ∧ ls'.x.op = .none ∧
            ls'.pa = .none ∧ ls'.pw = .none) :=
  addU_wrapper_exec fuel rev env inp x o0 ht fp mv hht hhash hnode hkey hmt hn0 hfp hrev hpc hmode hO

-- `_cds_lfht_add` with `unique_ret` at an arbitrary location (what the wrapper uses)
#check @LfhtUG.addU_exec

end UrcuVerif.Props.SrcLfht7
