import UrcuVerif.Src.Lfht6Add
/-!
# Source IR of `src/rculfhash.c` ⊑ thread-local projection of L2 (`Lfht/Conc`), part 6: `_cds_lfht_add`, unique / replace modes

`_cds_lfht_add_refines_unique`: for the **generated** `Gen.Src.«lfht._cds_lfht_add»` called with `unique_ret = &U ≠ NULL`,
`bucket_flag = 0` (what `cds_lfht_add_unique` / `cds_lfht_add_replace` pass), L2 mode `uniq` or `repl`, every budget and every
oracle admissible for the union automaton (`LfhtU.OracleU`, `Src/Lfht5Local.lean`): the run does not fail, its events are
accepted by `LfhtU.lstep` (= `LfhtA.lstep`, else `LfhtW.lstep`: L2 labels `ldSize`'s `bucket_at`, `ldHeadA`, `ldNextA` with
the hand-off to the `dupAdd` walk, `ldWalk`, `ldAssertW`, `casIns`, `casGc`; every retry of the outer loop), and it ends

* preempted / out of budget, or
* **inserted**: L2's thread is `idle` with `Out.node node` (mode `uniq`) resp. `Out.node 0` (mode `repl`) – L2's `addDone` –,
  `unique_ret->node = node`, and the node's private `next` word is the one L2's `casIns` gives it, or
* **duplicate found** (`return` inside the inner loop, `Ctl.ret none`): `*unique_ret = (n, w)`, `n ≠ 0`, L2's thread is where
  `walkRet` puts the `dupAdd` walk: `idle` with `Out.node n` in mode `uniq`, L2's `replTest` in mode `repl`.

Chain of lemmas: `LfhtUR.addU_inner_loop` (Lfht5Add), `addU_post_ins`, `addU_post_gc`, `addU_outer_body`, `addU_outer_loop`,
`addU_exec` (Lfht6Add).  NOT done: the wrappers `cds_lfht_add_unique` / `cds_lfht_add_replace`.
-/
namespace UrcuVerif.Props.SrcLfht6
open UrcuVerif UrcuVerif.Src UrcuVerif.Lfht.Conc UrcuVerif.Src.LfhtR UrcuVerif.Src.LfhtAR UrcuVerif.Src.LfhtUR

theorem _cds_lfht_add_refines_unique (fuel : Nat) (rev : Nat → Nat) (env : Env) (inp : List Val) (x : Thr)
    (o0 : Lfht.Conc.Out) (ht U : Nat) (fp mv : Val) (M : Mode) (hM : M = .uniq ∨ M = .repl)
    (hht : env.vars "ht" = some (.ptr (.obj ht))) (hhash : env.vars "hash" = some (.int x.hs))
    (hsz : env.vars "size" = some (.int x.sz)) (hnode : env.vars "node" = some (.ptr (.obj x.node)))
    (hur : env.vars "unique_ret" = some (.ptr (.obj U))) (hbf : env.vars "bucket_flag" = some (.int 0))
    (hkey : env.vars "key" = some (.int x.ky)) (hmt : env.vars "match" = some mv)
    (hn0 : x.node ≠ 0) (hsz1 : 1 ≤ x.sz)
    (hfp : env.priv (.field (.obj ht) "bucket_at") = some fp) (hrev : RevView rev env.priv)
    (hpc : x.pc = .aHead) (hmode : x.mode = M)
    (hO : LfhtU.OracleU rev ⟨x, .bkt, .none, o0⟩ inp) :
    ∃ out, exec fuel Gen.Src.«lfht._cds_lfht_add» env inp = .ok out ∧
      ∃ ls', LfhtU.lrun rev ⟨x, .bkt, .none, o0⟩ out.events = some ls' ∧
        (out.ctl = .blocked ∨ out.ctl = .fuel ∨
          (out.ctl = .normal ∧ ls'.out = outM M x.node ∧ ls'.x.pc = .idle ∧ ls'.x.op = .none ∧ ls'.pa = .none ∧
            ls'.pw = .none ∧ ls'.x.node = x.node ∧
            out.env.priv (.field (.obj x.node) "next") = some (encW { ptr := ls'.x.iter.ptr }) ∧
            out.env.priv (.field (.obj U) "node") = some (.ptr (.obj x.node)) ∧ RevView rev out.env.priv) ∨
          (out.ctl = .ret none ∧
            ∃ (x2 : Thr) (n : Nat) (w : W), n ≠ 0 ∧ x2.wk = .dupAdd ∧ x2.mode = M ∧ x2.node = x.node ∧ x2.cur = n ∧
              x2.wnx = w ∧ ls' = LfhtU.ofW (LfhtW.ofPair (LfhtW.lwalkRet x2 n w)) ∧
              out.env.priv (.field (.obj U) "node") = some (.ptr (.obj n)) ∧
              out.env.priv (.field (.obj U) "next") = some (encW w) ∧ RevView rev out.env.priv)) :=
  addU_exec fuel rev env inp x o0 ht U fp mv M hM hht hhash hsz hnode hur hbf hkey hmt hn0 hsz1 hfp hrev hpc hmode hO

example (n : Nat) : outM .uniq n = .node n := rfl
example (n : Nat) : outM .repl n = .node 0 := rfl

-- ==========================================================================================================
-- non-vacuity: bucket 1 → node 5 → END; node 7 is added uniquely; nodes 5 and 7 have the same reverse hash (7) and
-- `match(5, key)` says the keys are equal: the duplicate 5 is returned in `*unique_ret` (object 60)
-- ==========================================================================================================
def uPriv : Loc → Option Val
  | .field (.obj n) f => if f = "reverse_hash" then some (.int (if n = 5 then 7 else n))
      else if f = "bucket_at" then some (.int 77) else none
  | _ => none

def uEnv : Env :=
  { vars := fun y => if y = "ht" then some (.ptr (.obj 100)) else if y = "hash" then some (.int 0)
      else if y = "size" then some (.int 1) else if y = "node" then some (.ptr (.obj 7))
      else if y = "unique_ret" then some (.ptr (.obj 60)) else if y = "bucket_flag" then some (.int 0)
      else if y = "match" then some (.int 0) else if y = "key" then some (.int 3) else none,
    priv := uPriv }
/-- `bucket_at` = node 1; `1->next = 5`; `5->next = END` (insertion walk); `5->next = END` (duplicate walk);
`match(5, 3) = 1`; the assertion load `5->next = END` -/
def uInp : List Val := [.ptr (.obj 1), .ptr (.obj 5), .int 0, .int 0, .int 1, .int 0]

set_option maxRecDepth 8192 in
/-- the run: 6 events, `return` inside the loop, `*unique_ret = (5, END)` -/
example : ∃ out, exec 3 Gen.Src.«lfht._cds_lfht_add» uEnv uInp = .ok out ∧
    out.events = [.ext "(*bucket_at)" [.int 77, .ptr (.obj 100), .int 0] (.ptr (.obj 1)),
                  .ld (.field (.obj 1) "next") (.ptr (.obj 5)) 1,
                  .ld (.field (.obj 5) "next") (.int 0) 1,
                  .ld (.field (.obj 5) "next") (.int 0) 1,
                  .ext "match" [.ptr (.obj 5), .int 3] (.int 1),
                  .ld (.field (.obj 5) "next") (.int 0) 0] ∧
    out.ctl = .ret none ∧ out.env.priv (.field (.obj 60) "node") = some (.ptr (.obj 5)) ∧
    out.env.priv (.field (.obj 60) "next") = some (.int 0) := by
  lexec [Gen.Src.«lfht._cds_lfht_add», Gen.Src.«lfht.cds_lfht_next_duplicate», Gen.Src.«lfht.lookup_bucket»,
    Gen.Src.«lfht.bucket_at», exec_call, uEnv, uInp, iterate, Gen.Src.«lfht.is_end», Gen.Src.«lfht.clear_flag»,
    Gen.Src.«lfht.is_removed», Gen.Src.«lfht.is_removal_owner», Gen.Src.«lfht.is_bucket», Gen.Src.«lfht.flag_bucket»,
    uPriv, evalBin, Loc.tagOf, Loc.withTag, Loc.untag]

end UrcuVerif.Props.SrcLfht6
