import UrcuVerif.Src.Wq4Queue
import UrcuVerif.Src.Wq4Tail
/-!
# Source refinement, work queue part 4: the queueing side of completions (`src/workqueue.c`) – final statements

Generated source IR ⊑ L2 (`Wq/Model.lean`), thread-locally, partial-correctness form (`notes/SRC_BRIEF.md`): every run of
`exec` that returns `.ok` (every budget, every oracle) with well-typed events (`Wq4.evOkQ`: `calloc` returns the object `Wk`,
counts are integers, the flags word is non-negative, FUTEX_WAKE returns `≥ 0`) is accepted by the local automaton
`Wq4.qstepE` (`alloc → get → cas v … → inc → q (WqL.tstep …)`, `failed` = absorbing state after `abort()`).

* `urcu_workqueue_queue_completion_refines` – with the statement that matters: **an accepted run that has entered
  `urcu_workqueue_queue_work` (hence every run that enqueues the completion work) is
  `… successful cmpxchg(&ref->refcount, o → o+1) ; uatomic_inc(&completion->barrier_count) ; accesses of queue_work`**;
* `urcu_ref_get_safe_completion_refines`, `urcu_ref_get_completion_refines`, `urcu_workqueue_queue_work_completion_refines`;
* `completion_qcGet_lift`, `completion_qcInc_lift` against the real `Wq.step` (the rest of `q` is `WqL.tstep`: `tproj_lift`);
* `urcu_workqueue_create_completion_refines` (exact events; L2 `ccCreate`);
* `workqueue_thread_futex_wait_refines` – `futex_wait(&workqueue->futex)` of the worker's loop tail against `WqL.wstep`
  (L2 `wWaitLd`, `wWaitFx o`, `wSpurious`), in the `Triple` form of `workqueue_thread_iteration_refines`.

Not covered: `urcu_workqueue_flush_queued_work` as a whole (it is the sequence create ; queue_completion ; wait_completion ;
destroy_completion, each proved here / in `Props/SrcWq3.lean` against its own automaton; the composition is not stated).
-/
set_option linter.unusedSimpArgs false
set_option linter.unusedVariables false
set_option maxRecDepth 8192
namespace UrcuVerif.Props.SrcWq4
open UrcuVerif UrcuVerif.Src UrcuVerif.Wq UrcuVerif.Src.WqL UrcuVerif.Src.Wq3 UrcuVerif.Src.Wq4
open UrcuVerif.Src.WqR (Layout)

/-- **`urcu_workqueue_queue_completion(workqueue, completion)`**: `L.W` = the work queue, `L.C` = the completion, `Wk` = the
`struct urcu_workqueue_completion_work` that `calloc` returns, `id` = the L2 work item of `&Wk->work`, `b` = the L2
completion; `mbv` = `CONFIG_RCU_EMIT_LEGACY_MB`. -/
theorem urcu_workqueue_queue_completion_refines (L : Layout) (Wk : Loc) (id b : Nat) (mbv : Int) (fuel : Nat)
    (env : Env) (inp : List Val) (out : Out)
    (hid : L.wid (.field Wk "work") = some id)
    (hw : env.vars "workqueue" = some (.ptr L.W)) (hc : env.vars "completion" = some (.ptr L.C))
    (hcfg : env.priv (.glob "CONFIG_RCU_EMIT_LEGACY_MB") = some (.int mbv))
    (hE : exec fuel Gen.Src.«urcu_workqueue_queue_completion» env inp = .ok out)
    (hok : out.events.all (evOkQ L Wk) = true) :
    ∃ pc', qrun L Wk id b .alloc out.events = some pc' ∧
      (((out.ctl = .normal ∧ pc' = .q .idle) ∨ out.ctl = .blocked ∨ out.ctl = .fuel) ∨ pc' = .failed) ∧
      (∀ p, pc' = .q p → ∃ pre o m1 m2 x r mo post,
        out.events = pre ++ Event.cas (.field (.field L.C "ref") "refcount") (.int o) (.int (o + 1)) (.int o) m1 m2 ::
          Event.rmw .uinc (.field L.C "barrier_count") x r mo :: post ∧ o ≠ 9223372036854775807 ∧
        qrun L Wk id b (.q (.enq id (.compl b))) post = some (.q p)) := by
  obtain ⟨pc', h1, h2⟩ := queue_completion_PT L Wk id b mbv fuel hid env inp _ out ⟨hw, hc, hcfg, rfl⟩ hE hok
  refine ⟨pc', h1, h2, ?_⟩
  intro p hp
  subst hp
  exact qrun_queued_after_get_inc L Wk id b out.events .alloc p rfl h1

/-- **`urcu_ref_get_safe(&completion->ref)`** from `get`: returns 1 at `inc` (right after the successful `cmpxchg`), 0 at
`cas LONG_MAX` without having attempted a `cmpxchg` from `LONG_MAX` -/
theorem urcu_ref_get_safe_completion_refines (L : Layout) (Wk : Loc) (id b : Nat) (fuel : Nat)
    (env : Env) (inp : List Val) (out : Out) (hr : env.vars "ref" = some (.ptr (.field L.C "ref")))
    (hE : exec fuel Gen.Src.«urcu_ref_get_safe» env inp = .ok out) (hok : out.events.all (evOkQ L Wk) = true) :
    ∃ pc', qrun L Wk id b .get out.events = some pc' ∧
      ((out.ctl = .ret (some (.int 1)) ∧ pc' = .inc ∧ out.env.priv = env.priv) ∨
       (out.ctl = .ret (some (.int 0)) ∧ pc' = .cas 9223372036854775807 ∧ out.env.priv = env.priv) ∨
       out.ctl = .blocked ∨ out.ctl = .fuel) :=
  get_safe_PT L Wk id b env.priv fuel env inp _ out ⟨hr, rfl, rfl⟩ hE hok

/-- **`urcu_ref_get(&completion->ref)`**: a completed call is at `inc`, or at `failed` after `abort()` -/
theorem urcu_ref_get_completion_refines (L : Layout) (Wk : Loc) (id b : Nat) (fuel : Nat)
    (env : Env) (inp : List Val) (out : Out) (hr : env.vars "ref" = some (.ptr (.field L.C "ref")))
    (hE : exec fuel Gen.Src.«urcu_ref_get» env inp = .ok out) (hok : out.events.all (evOkQ L Wk) = true) :
    ∃ pc', qrun L Wk id b .get out.events = some pc' ∧
      ((out.ctl = .normal ∧ (pc' = .inc ∨ pc' = .failed) ∧ out.env.priv = env.priv) ∨ out.ctl = .blocked ∨
        out.ctl = .fuel) :=
  ref_get_PT L Wk id b env.priv fuel env inp _ out ⟨hr, rfl, rfl⟩ hE hok

/-- **`urcu_workqueue_queue_work(workqueue, work, func)`** in partial-correctness form (hypotheses on the events only), from
L2's `enq id k`: a completed call is at `k.cont` -/
theorem urcu_workqueue_queue_work_completion_refines (L : Layout) (Wk : Loc) (id b : Nat) (k : K) (w : Loc) (fv : Val)
    (mbv : Int) (fuel : Nat) (env : Env) (inp : List Val) (out : Out) (hid : L.wid w = some id)
    (hw : env.vars "workqueue" = some (.ptr L.W)) (hwk : env.vars "work" = some (.ptr w))
    (hf : env.vars "func" = some fv) (hcfg : env.priv (.glob "CONFIG_RCU_EMIT_LEGACY_MB") = some (.int mbv))
    (hE : exec fuel Gen.Src.«urcu_workqueue_queue_work» env inp = .ok out) (hok : out.events.all (evOkQ L Wk) = true) :
    ∃ pc', qrun L Wk id b (.q (.enq id k)) out.events = some pc' ∧
      ((out.ctl = .normal ∧ pc' = .q k.cont) ∨ out.ctl = .blocked) :=
  queue_work_Q L Wk id b k w fv mbv fuel hid env inp _ out ⟨hw, hwk, hf, hcfg, rfl⟩ hE hok

theorem completion_qcGet_lift (c : Cfg) (s : State) (t b : Nat)
    (hg : t ≠ 0 ∧ s.tpc t = .idle ∧ b < s.nextB ∧ s.cowner b = t ∧ s.orphan b = false ∧ s.cphase b = .created ∧
      s.stopper = none) :
    ∃ s', step c s (.qcGet t b) = some s' ∧ s'.tpc t = .qcInc b ∧ s'.cref b = s.cref b + 1 ∧ s'.ccnt = s.ccnt ∧
      s'.queue = s.queue := qcGet_lift c s t b hg

theorem completion_qcInc_lift (c : Cfg) (s : State) (t b w : Nat) (hpc : s.tpc t = .qcInc b) (hreg : s.reg w = false) :
    ∃ s', step c s (.qcInc t w) = some s' ∧ s'.tpc t = .enq w (.compl b) ∧ s'.ccnt b = s.ccnt b + 1 ∧
      s'.cw w = some b ∧ s'.queue = s.queue := qcInc_lift c s t b w hpc hreg

/-- **`urcu_workqueue_create_completion()`** when `calloc` returns `C` -/
theorem urcu_workqueue_create_completion_refines (fuel : Nat) (env : Env) (rest : List Val) (C : Loc) :
    ∃ out, exec fuel Gen.Src.«urcu_workqueue_create_completion» env (.ptr C :: rest) = .ok out ∧
      out.events = [.ext "calloc" [.int 1, .int 16] (.ptr C), .st (.field (.field C "ref") "refcount") (.int 1) 0] ∧
      out.inp = rest ∧ out.ctl = .ret (some (.ptr C)) ∧
      out.env.priv (.field C "barrier_count") = some (.int 0) ∧
      out.env.priv (.field (.field C "ref") "refcount") = some (.int 1) :=
  create_completion_exec fuel env rest C

/-- **`futex_wait(&workqueue->futex)`** on the worker thread from L2's `waitLd`: every well-typed `.ok` run is a run of
`WqL.wstep`; a completed call is at L2's `dec`, private view unchanged; a run cut by the loop budget is at `waitLd` -/
theorem workqueue_thread_futex_wait_refines (L : Layout) (cnt : Nat) (rt : Bool) (fuel : Nat) (env : Env) (inp : List Val)
    (out : Out) (hf : env.vars "futex" = some (.ptr (.field L.W "futex")))
    (hE : exec fuel Gen.Src.«futex_wait» env inp = .ok out) (hok : out.events.all (WqR.evOkW L) = true) :
    ∃ ls', WqR.wlr L ⟨.at .waitLd, cnt, rt⟩ out.events = some ls' ∧
      (((out.ctl = .normal ∨ out.ctl = .ret none) ∧ ls' = ⟨.at .dec, cnt, rt⟩ ∧ out.env.priv = env.priv) ∨
        out.ctl = .blocked ∨ (out.ctl = .fuel ∧ ls' = ⟨.at .waitLd, cnt, rt⟩)) :=
  WqR.worker_futex_wait_triple L cnt rt env.priv fuel env inp _ out ⟨hf, rfl, rfl⟩ hE hok

/-! ## non-vacuity -/

def L4 : Layout := { W := .obj 0, wid := fun l => if l = .field (.obj 9) "work" then some 5 else none, C := .obj 4 }

def envQ : Env :=
  { vars := fun x => if x = "workqueue" then some (.ptr (.obj 0)) else if x = "completion" then some (.ptr (.obj 4)) else none,
    priv := fun l => if l = .glob "CONFIG_RCU_EMIT_LEGACY_MB" then some (.int 0) else none }

/-- allocation, reference count 1 → 2 at the second attempt, `barrier_count++`, enqueue behind the old tail `obj 7`,
`qlen++`, flags = 0 (not RT), futex = 0 (worker not asleep): 11 events, the caller is back at `idle` -/
example : ∃ out, exec 3 Gen.Src.«urcu_workqueue_queue_completion» envQ
      [.ptr (.obj 9), .int 1, .int 2, .int 2, .int 0, .ptr (.field (.obj 7) "next"), .int 0, .int 0, .int 0] = .ok out ∧
    out.events.length = 11 ∧ out.events.all (evOkQ L4 (.obj 9)) = true ∧
    qrun L4 (.obj 9) 5 3 .alloc out.events = some (.q .idle) ∧ out.ctl = .normal := by
  simp [Gen.Src.«urcu_workqueue_queue_completion», Gen.Src.«urcu_ref_get», Gen.Src.«urcu_ref_get_safe»,
    Gen.Src.«urcu_workqueue_queue_work», Gen.Src.«_cds_wfcq_node_init», Gen.Src.«_cds_wfcq_enqueue»,
    Gen.Src.«___cds_wfcq_append», Gen.Src.«wake_worker_thread», Gen.Src.«futex_wake_up», iterate, block, exec, eval,
    evalArgs, execPrim, bindParams, Env.setVar, Env.setPriv, setDst, asLoc, bind, Except.bind, evalBin, evalUn, boolV,
    Val.truthy, envQ, L4, qrun, qstepE, WqR.absEvT, tstep, evOkQ, K.cont, bit]

example := urcu_workqueue_create_completion_refines 1 Env.empty [] (.obj 4)

def envF : Env := { vars := fun x => if x = "futex" then some (.ptr (.field (.obj 0) "futex")) else none, priv := fun _ => none }

/-- the worker sees -1, sleeps, is woken, sees 0: 4 events, ends at `dec` -/
example : ∃ out, exec 3 Gen.Src.«futex_wait» envF [.int (-1), .int 0, .int 0] = .ok out ∧ out.events.length = 4 ∧
    WqR.wlr L4 ⟨.at .waitLd, 0, false⟩ out.events = some ⟨.at .dec, 0, false⟩ ∧ out.ctl = .normal := by
  simp [Gen.Src.«futex_wait», iterate, block, exec, eval, evalArgs, execPrim, bindParams, Env.setVar, setDst, asLoc, bind,
    Except.bind, evalBin, evalUn, boolV, Val.truthy, envF, L4, WqR.wlr, WqR.absEvW, List.filterMap_cons, wrun, wstep]

end UrcuVerif.Props.SrcWq4
