import UrcuVerif.Src.CallRcuLocal
import UrcuVerif.Src.CallRcuRefine
import UrcuVerif.Src.CallRcuHelper
import UrcuVerif.Src.CallRcuLoop
import UrcuVerif.Src.CallRcuBarrier
/-!
# Source refinement, call_rcu: generated IR of `src/urcu-call-rcu-impl.h` ⊑ L2 (`CallRcu/Model.lean`), thread-locally

Properties C03 / C04.  For the functions below, every loop budget, **every oracle** that satisfies the stated discipline
(and every prefix of it: preemption anywhere) and every environment that binds the parameters, the run of the
*generated* term is `.ok out` and `out.events` – abstracted by `absEv` (user thread) / `absH` (helper thread) – is a label
sequence of the thread-local projection of L2, with the same values written and observed.

* user thread (`U`): `_call_rcu`, `call_rcu` – complete (`Src/CallRcuRefine.lean`);
* helper thread (`H`), `call_rcu_thread` (`Src/CallRcuHelper.lean`, `Src/CallRcuLoop.lean`): the whole function
  (`call_rcu_thread_refines`, induction on the loop budget over any sequence of iterations), one iteration
  (`call_rcu_thread_body_refines`) and its pieces *extracted* from the generated term: the splice, the grace period +
  invocation of the batch + `qlen` decrement (`gpBlock`, **the C03 statement**: `call_rcu_thread_batch_refines`),
  `call_rcu_wait` (futex loop), the tail of the loop body (STOP test, offline, sleep / poll paths, online).
  Not covered: the PAUSE handshake of the fork handlers (flags read at the top of the loop have PAUSE clear),
  `cpu_affinity ≥ 0`, busy-waiting on unpublished `next` links (settled discipline).

Queue sub-calls (`_cds_wfcq_enqueue`, `___cds_wfcq_splice_blocking`, `___cds_wfcq_first/next_blocking`): L2's CallRcu
model abstracts the queue as a list; the oracle values these sub-calls consume are constrained by an explicit **queue
oracle discipline** (`Follows`, `spliceSpec`, `gpSpec`, `iterSpec`: the values are those of a correct queue holding the
batch, links published – "settled"); their own refinement against the wfcqueue model is `Props/SrcQueue.lean`.

Local automata, projection (`*_lift_step`, `user_proj_step`, `user_enabled_iff`) and frame lemmas: `Src/CallRcuLocal.lean`.
-/
set_option maxRecDepth 8192
namespace UrcuVerif.Props.SrcCallRcu
open UrcuVerif UrcuVerif.Src UrcuVerif.Gen.Src UrcuVerif.CallRcu UrcuVerif.Src.CallRcuL UrcuVerif.Src.CallRcuR

-- ==========================================================================================================
-- projection / frame lemmas against the real L2 `step` (re-exported statements)
-- ==========================================================================================================

theorem user_lift_step (c : Cfg) (s : State) (t : Nat) (l : U.LLabel) (L : Label) (ls' : U.LState)
    (hL : U.toL2 t l = some L) (ho : U.Obs s t l) (hg : U.Guard c s t l) (h : U.lstep (U.proj s t) l = some ls') :
    ∃ s', step c s L = some s' ∧ U.proj s' t = ls' :=
  U.lift_step c s t l L ls' hL ho hg h

theorem user_proj_step (c : Cfg) (s s' : State) (t : Nat) (L : Label)
    (hL : ∃ l0, U.toL2 t l0 = some L) (h : step c s L = some s') :
    ∃ l, U.toL2 t l = some L ∧ U.Obs s t l ∧ U.Guard c s t l ∧ U.lstep (U.proj s t) l = some (U.proj s' t) :=
  U.proj_step c s s' t L hL h

theorem user_enabled_iff (c : Cfg) (s : State) (t : Nat) (L : Label) (hL : ∃ l0, U.toL2 t l0 = some L) :
    (∃ s', step c s L = some s') ↔
      ∃ l ls', U.toL2 t l = some L ∧ U.Obs s t l ∧ U.Guard c s t l ∧ U.lstep (U.proj s t) l = some ls' :=
  U.enabled_iff c s t L hL

/-- labels of other threads, of the helpers' threads and of the environment leave `(tpc t, nest t)` unchanged -/
theorem user_frame (c : Cfg) (s s' : State) (t : Nat) (L : Label)
    (ht : U.tidOf c L ≠ some t) (h : step c s L = some s') : U.proj s' t = U.proj s t :=
  U.frame c s s' t L ht h

/-- helper: a local step with the global state's values and guard is the L2 run `toL2` (possibly a stutter) -/
theorem helper_lift_step (c : Cfg) (s : State) (h : Nat) (ls ls' : H.LState) (l : H.LLabel) (ha : H.Agree ls s h)
    (ho : H.Obs s h ls l) (hg : H.Guard c s h ls l) (hs : H.lstep ls l = some ls') :
    ∃ s', run c s (H.toL2 h ls l) = some s' ∧ H.Agree ls' s' h :=
  H.lift_step c s h ls ls' l ha ho hg hs

/-- labels that are not helper `h`'s own leave `(hpc h, batch h, cnt h, rt h)` unchanged (existing helper, not asleep) -/
theorem helper_frame (c : Cfg) (s s' : State) (h : Nat) (L : Label)
    (hh : H.hidOf L ≠ some h) (hlt : h < s.nextH) (hna : s.hpc h ≠ .asleep)
    (hstep : step c s L = some s') : H.proj s' h = H.proj s h :=
  H.frame c s s' h L hh hlt hna hstep

-- ==========================================================================================================
-- concrete environments for the non-vacuity examples
-- ==========================================================================================================
def envOf (vars : List (String × Val)) (priv : List (Src.Loc × Val)) : Env :=
  { vars := fun x => vars.lookup x, priv := fun l => priv.lookup l }

/-- helper 0 is the object `obj 100`; callback `k` is the `rcu_head` object `obj k` for `k < 100` -/
def lay : Layout :=
  { crd := fun l => if l = .obj 100 then some 0 else none,
    cb := fun l => match l with | .obj k => if k < 100 then some k else none | _ => none,
    batch := fun l => if l = .obj 8 then [7, 8] else [] }

-- ==========================================================================================================
-- user thread
-- ==========================================================================================================

/-- `_call_rcu(head, func, crdp)` from L2's pc `enq id h k` (after the helper has been selected), for every continuation
`k` of L2 (`call_rcu`, `rcu_barrier`'s marker, the wake-ups of `call_rcu_data_free`) -/
theorem _call_rcu_refines (L : Layout) (id0 : Nat) (fuel : Nat) (env : Env) (inp : List Val) (H C : Src.Loc) (fv : Val)
    (id h : Nat) (k : K) (nest : Nat) (mbv : Int)
    (h1 : env.vars "head" = some (.ptr H)) (h2 : env.vars "func" = some fv) (h3 : env.vars "crdp" = some (.ptr C))
    (hcb : L.cb H = some id) (hcrd : L.crd C = some h)
    (hcfg : env.priv (.glob "CONFIG_RCU_EMIT_LEGACY_MB") = some (.int mbv))
    (hinp : CallInp inp) :
    ∃ out, exec fuel «_call_rcu» env inp = .ok out ∧
      ∃ ls', U.lrun ⟨.enq id h k, nest⟩ (out.events.flatMap (absEv L id0)) = some ls' ∧
        CallPost env H fv (k.cont h) nest out ls' :=
  _call_rcu_refines_env L id0 fuel env inp H C fv id h k nest mbv h1 h2 h3 hcb hcrd hcfg hinp

/-- enqueue of callback 7 on helper 0 whose futex word is -1: exchange of the tail, `next` store of the predecessor,
`qlen++`, flags, `mb`, futex load, futex store, FUTEX_WAKE -/
example : ∃ out, exec 0 «_call_rcu»
      (envOf [("head", .ptr (.obj 7)), ("func", .ptr (.glob "cb_fn")), ("crdp", .ptr (.obj 100))]
        [(.glob "CONFIG_RCU_EMIT_LEGACY_MB", .int 0)])
      [.ptr (.field (.obj 100) "cbs_head"), .int 1, .int 0, .int (-1), .int 1] = .ok out ∧
    out.events.length = 8 ∧ out.ctl = .normal ∧
    U.lrun ⟨.enq 7 0 .user, 1⟩ (out.events.flatMap (absEv lay 7)) = some ⟨.crRet, 1⟩ := by
  sexec [«_call_rcu», «_cds_wfcq_node_init», «_cds_wfcq_enqueue», «___cds_wfcq_append», «wake_call_rcu_thread»,
    «call_rcu_wake_up», envOf, List.lookup]
  decide

/-- `call_rcu(head, func)`: from `idle` back to `idle`, `nest` unchanged -/
theorem call_rcu_refines (L : Layout) (fuel : Nat) (env : Env) (inp : List Val) (H : Src.Loc) (fv : Val)
    (id nest : Nat) (mbv : Int)
    (h1 : env.vars "head" = some (.ptr H)) (h2 : env.vars "func" = some fv) (hcb : L.cb H = some id)
    (hcfg : env.priv (.glob "CONFIG_RCU_EMIT_LEGACY_MB") = some (.int mbv))
    (hinp : CallRcuInp L inp) :
    ∃ out, exec fuel «call_rcu» env inp = .ok out ∧
      ∃ ls', U.lrun ⟨.idle, nest⟩ (out.events.flatMap (absEv L id)) = some ls' ∧
        (out.ctl = .normal ∨ out.ctl = .blocked) ∧
        (out.ctl = .normal → ls' = ⟨.idle, nest⟩ ∧ out.env.priv (.field H "func") = some fv) :=
  call_rcu_refines_env L fuel env inp H fv id nest mbv h1 h2 hcb hcfg hinp

/-- real-time helper (`URCU_CALL_RCU_RT` set): no wake-up -/
example : ∃ out, exec 0 «call_rcu»
      (envOf [("head", .ptr (.obj 7)), ("func", .ptr (.glob "cb_fn"))] [(.glob "CONFIG_RCU_EMIT_LEGACY_MB", .int 1)])
      [.int 0, .ptr (.obj 100), .ptr (.field (.obj 100) "cbs_head"), .int 1, .int 1, .int 0] = .ok out ∧
    out.events.length = 8 ∧ out.ctl = .normal ∧
    U.lrun ⟨.idle, 0⟩ (out.events.flatMap (absEv lay 7)) = some ⟨.idle, 0⟩ := by
  sexec [«call_rcu», «_call_rcu», «_cds_wfcq_node_init», «_cds_wfcq_enqueue», «___cds_wfcq_append»,
    «wake_call_rcu_thread», «call_rcu_wake_up», envOf, List.lookup]
  decide

-- ==========================================================================================================
-- helper thread
-- ==========================================================================================================

/-- **C03 at the source level.**  The statement guarded by `if (splice_ret != CDS_WFCQ_RET_SRC_EMPTY)` of the generated
`call_rcu_thread` (`gpBlock`, extracted from `Gen.Src.«call_rcu_thread»`), run with the private queue holding the batch
`H₁ :: t` the splice returned: from L2's pc `gp` with `batch = ids of (H₁ :: t)`, `cnt = 0`, the abstraction of the events is
accepted by the local automaton – i.e. it is `gp` (the `ext "synchronize_rcu"` event) followed by `run id` (the
`ext "(*func)"` events) for **exactly the callbacks of the batch, in order, each once** (`lstep` accepts `run id` only for
the head of the remaining batch and `sub n` only when the batch is exhausted, with `n` = the number invoked), followed by
`sub (length batch)` (`uatomic_sub(&crdp->qlen, cbcount)`); the helper is then at `stopchk` with an empty batch.
Every callback invocation comes after the `synchronize_rcu()` of the iteration. -/
theorem call_rcu_thread_batch_refines (L : Layout) (C : Src.Loc) (rt : Bool) (more : List (Val → Prop))
    (fuel : Nat) (env : Env) (inp : List Val) (H1 : Src.Loc) (t : List Src.Loc)
    (hc : env.vars "crdp" = some (.ptr C)) (hH : HeadsOk L env.priv (H1 :: t))
    (hF : Follows (gpSpec (H1 :: t) ++ more) inp) :
    ∃ out, exec fuel gpBlock env inp = .ok out ∧
      ∃ ls', H.lrun ⟨.gp, 0, idsOf L (H1 :: t), 0, rt⟩ (out.events.flatMap (absH L C)) = some ls' ∧
        GpPost env rt more (t.length + 1) out ls' :=
  gpBlock_refines L C rt more fuel env inp H1 t hc hH hF

/-- `gpBlock` is a piece of the generated function, not a copy -/
example : ∃ a b c d, seqNth «call_rcu_thread» 9 = .loop mainBody ∧ seqNth mainBody 7 = .ifte a gpBlock b ∧
    seqNth gpBlock 0 = .prim none (.ext "synchronize_rcu") [] ∧ seqNth gpBlock 4 = .loop iterBody ∧
    seqNth iterBody 6 = .prim none (.ext "(*func)") [c, d] := ⟨_, _, _, _, rfl, rfl, rfl, rfl, rfl⟩

/-- batch `[7, 8]`: `synchronize_rcu`, two loads of the private head, `7->next`, `(*func)(7)`, `8->next` (NULL), private
tail, `(*func)(8)`, `uatomic_sub(&qlen, 2)` -/
example : ∃ out, exec 3 gpBlock
      { vars := fun x => if x = "crdp" then some (.ptr (.obj 100)) else none,
        priv := fun l => match l with
          | .field (.obj _) f => if f = "func" then some (.ptr (.glob "fn")) else none
          | _ => none }
      [.int 0, .ptr (nd (.obj 7)), .ptr (nd (.obj 7)), .ptr (nd (.obj 8)), .int 0, .int 0, .ptr (nd (.obj 8)), .int 0,
        .int 5] = .ok out ∧
    out.events.filter (fun e => match e with | .ext .. => true | .rmw .. => true | _ => false) =
      [.ext "synchronize_rcu" [] (.int 0), .ext "(*func)" [.ptr (.glob "fn"), .ptr (.obj 7)] (.int 0),
       .ext "(*func)" [.ptr (.glob "fn"), .ptr (.obj 8)] (.int 0),
       .rmw .usub (.field (.obj 100) "qlen") (.int 2) (.int 5) 0] ∧
    out.ctl = .normal ∧
    H.lrun ⟨.gp, 0, [7, 8], 0, false⟩ (out.events.flatMap (absH lay (.obj 100))) = some ⟨.stopchk, 0, [], 2, false⟩ := by
  rw [show gpBlock = .seq _ (.seq _ (.seq _ (.seq _ (.seq (.loop iterBody) _)))) from rfl,
    show iterBody = .seq _ (.seq _ (.seq _ (.seq _ (.seq _ (.seq _ (.seq _ (.seq _ _))))))) from rfl]
  sexec [«___cds_wfcq_first_blocking», «___cds_wfcq_first», «_cds_wfcq_empty», «___cds_wfcq_node_sync_next»,
    «___cds_wfcq_next_blocking», «___cds_wfcq_next», envOf, List.lookup, iterate, nd]
  decide

/-- `___cds_wfcq_splice_blocking(&cbs_tmp, &crdp->cbs)` as called by the helper on a non-empty (settled) public queue:
L2's `hSplice` with the batch `b = L.batch (last node)` -/
theorem call_rcu_thread_splice_refines (L : Layout) (C : Src.Loc) (b b0 : List Nat) (c0 : Nat) (rt : Bool)
    (more : List (Val → Prop)) (fuel : Nat) (env : Env) (inp : List Val) (H1 Hl : Src.Loc) (sn : Bool) (id1 idl : Nat)
    (mbv : Int)
    (h1 : env.vars "dest_q_head" = some (.ptr tmpH)) (h2 : env.vars "dest_q_tail" = some (.ptr tmpT))
    (h3 : env.vars "src_q_head" = some (.ptr (.field C "cbs_head")))
    (h4 : env.vars "src_q_tail" = some (.ptr (.field C "cbs_tail")))
    (hcfg : env.priv (.glob "CONFIG_RCU_EMIT_LEGACY_MB") = some (.int mbv))
    (hcb1 : L.cb H1 = some id1) (hcbl : L.cb Hl = some idl) (hB : L.batch Hl = b) (hb : b ≠ [])
    (hF : Follows (spliceSpec C H1 Hl sn ++ more) inp) :
    ∃ out, exec (fuel + 1) «___cds_wfcq_splice_blocking» env inp = .ok out ∧
      ∃ ls', H.lrun ⟨.splice, 0, b0, c0, rt⟩ (out.events.flatMap (absH L C)) = some ls' ∧
        SplicePost env b rt more out ls' := by
  obtain ⟨out, h, r⟩ := splice_nonempty L C b b0 c0 rt more rfl H1 Hl sn id1 idl mbv h1 h2 h3 h4 hcfg hcb1 hcbl hB hb hF
  exact ⟨out, h, r⟩

/-- `call_rcu_wait(crdp)` along any path of its futex loop (`rounds` unsuccessful rounds – woken / EINTR –, then the
futex word is seen different from -1 or FUTEX_WAIT fails with EAGAIN): from L2's `waitLd` to `pollW` -/
theorem call_rcu_wait_refines (L : Layout) (C : Src.Loc) (b : List Nat) (c : Nat) (rt : Bool) (rounds : List WRound)
    (fin : WFin) (more : List (Val → Prop)) (fuel : Nat) (env : Env) (inp : List Val)
    (hr : ∀ x ∈ rounds, x.ok) (hfin : fin.ok)
    (hc : env.vars "crdp" = some (.ptr C)) (hF : Follows (waitSpec rounds fin ++ more) inp) :
    ∃ out, exec fuel «call_rcu_wait» env inp = .ok out ∧
      ∃ ls', H.lrun ⟨.waitLd, 0, b, c, rt⟩ (out.events.flatMap (absH L C)) = some ls' ∧
        WaitPost env b c rt more out ls' :=
  call_rcu_wait_run L C b c rt rounds fin more rfl hr hfin hc hF

/-- the statements of the loop body after the batch (`tailBody`, extracted): STOP test (`hStopChk`), `rcu_thread_offline`,
then – not stopping – `poll` (real-time helper or non-empty queue: `hEmptyChk`, `hPollN`) or `call_rcu_wait`, `poll`,
`uatomic_dec(&futex)` (`hEmptyChk`, `hWaitLd`, `hWaitFx`, `hPollW`, `hDec`), `rcu_thread_online`: back to `top`, or
`break` with the helper at `exitSt` / `exitOr` -/
theorem call_rcu_thread_tail_refines (L : Layout) (C : Src.Loc) (b : List Nat) (c : Nat) (rt : Bool)
    (more : List (Val → Prop)) (fuel : Nat) (env : Env) (inp : List Val) (p : TailPath) (hok : p.ok C rt)
    (hc : env.vars "crdp" = some (.ptr C)) (hr : env.vars "rt" = some (rtV rt))
    (hF : Follows (tailSpec C p ++ more) inp) :
    ∃ out, exec fuel tailBody env inp = .ok out ∧
      ∃ ls', H.lrun ⟨.stopchk, 0, b, c, rt⟩ (out.events.flatMap (absH L C)) = some ls' ∧
        TailPost env b c rt more p.isStop out ls' :=
  tail_refines L C b c rt more rfl p hok hc hr hF

/-- **one iteration of the helper's main loop** (`mainBody` = the body of the `for (;;)` of the generated
`call_rcu_thread`), along any path `p` that does not enter the PAUSE handshake: load of the flags (`hTop`), initialisation
of the private queue, splice (`hSplice`: empty, or the batch of `p`), then – batch taken – `synchronize_rcu()` (`hGpEnd`),
the callbacks of the batch in order (`hRunBegin`/`hRunEnd`), `qlen -= cbcount` (`hInvDone`, `hSub`), then the tail
(`hStopChk`, …): the helper is back at `top`, or – STOP seen – the loop is left with the helper at `exitSt` / `exitOr` -/
theorem call_rcu_thread_body_refines (L : Layout) (C : Src.Loc) (b0 : List Nat) (c0 : Nat) (rt : Bool)
    (more : List (Val → Prop)) (fuel : Nat) (env : Env) (inp : List Val) (p : BodyPath) (hok : p.ok L C rt)
    (hE : HelperEnv L C rt env) (hF : Follows (bodySpec C p ++ more) inp) :
    ∃ out, exec (fuel + 1) mainBody env inp = .ok out ∧
      ∃ ls', H.lrun ⟨.top, 0, b0, c0, rt⟩ (out.events.flatMap (absH L C)) = some ls' ∧
        BodyPost L C rt more p.isStop out ls' :=
  body_refines L C b0 c0 rt more fuel env inp p hok hE hF

/-- **`call_rcu_thread(arg)`, the whole function**: from L2's `start` (`hStart`, `hDec0`), any number of iterations
`paths` of the main loop (none sees STOP; induction on the loop budget), then either the oracle ends (every prefix of a
run is accepted) or an iteration `last` sees STOP: `hExitSt` (futex-woken helper), `hExitOr`, return NULL with the helper
`dead`.  `f0` = the flags word read at the start (`rt = f0 & URCU_CALL_RCU_RT`).  Loop budget `fuel + 1`: with budget 0 no
loop runs at all. -/
theorem call_rcu_thread_refines (L : Layout) (C : Src.Loc) (fuel : Nat) (env : Env) (inp : List Val) (f0 : Nat)
    (paths : List BodyPath) (last : Option BodyPath) (more : List (Val → Prop))
    (harg : env.vars "arg" = some (.ptr C))
    (haff : ∃ a : Int, a < 0 ∧ env.priv (.field C "cpu_affinity") = some (.int a))
    (hcfg : ∃ mbv : Int, env.priv (.glob "CONFIG_RCU_EMIT_LEGACY_MB") = some (.int mbv))
    (hfn : ∀ Hd id, L.cb Hd = some id → ∃ fv, env.priv (.field Hd "func") = some fv)
    (hlast : ∀ p, last = some p → p.ok L C (f0 % 2 != 0) ∧ p.isStop = true)
    (hps : ∀ p ∈ paths, p.ok L C (f0 % 2 != 0) ∧ p.isStop = false)
    (hF : Follows (threadSpec C f0 paths last more) inp) :
    ∃ out, exec (fuel + 1) «call_rcu_thread» env inp = .ok out ∧
      ∃ ls', H.lrun ⟨.start, 0, [], 0, false⟩ (out.events.flatMap (absH L C)) = some ls' ∧
        ThreadPost last out ls' :=
  thread_refines L C fuel env inp f0 paths last more harg haff hcfg hfn hlast hps hF

def thrEnv : Env :=
  { vars := fun x => if x = "arg" then some (.ptr (.obj 100)) else none,
    priv := fun l => match l with
      | .field (.obj _) f =>
        if f = "func" then some (.ptr (.glob "fn")) else if f = "cpu_affinity" then some (.int (-1)) else none
      | .glob g => if g = "CONFIG_RCU_EMIT_LEGACY_MB" then some (.int 0) else none
      | _ => none }

/-- a complete run of a real-time helper: start, one iteration that takes the batch `[7, 8]` and then sees STOP, exit.
Labels: `ldFlags 1` (hStart), `ldFlags 1` (hTop), `ldHead true`, `xchgHead (some 7)`, `splice [7, 8] 8` (hSplice), `gp`
(hGpEnd), `run 7`, `run 8`, `sub 2`, `ldFlags 5` (hStopChk), `orFlags 8` (hExitOr) -/
example : ∃ out, exec 3 «call_rcu_thread» thrEnv
      [.int 1, .int 0,
       .int 1, .int 0, .ptr (nd (.obj 7)), .ptr (nd (.obj 7)), .ptr (nd (.obj 8)), .ptr tmpH,
       .int 0, .ptr (nd (.obj 7)), .ptr (nd (.obj 7)), .ptr (nd (.obj 8)), .int 0, .int 0, .ptr (nd (.obj 8)), .int 0,
       .int 5, .int 5, .int 0, .int 0] = .ok out ∧ out.ctl = .ret (some (.int 0)) ∧
    out.events.length = 21 ∧
    H.lrun ⟨.start, 0, [], 0, false⟩ (out.events.flatMap (absH lay (.obj 100))) = some ⟨.dead, 0, [], 2, true⟩ := by
  sexec [«call_rcu_thread», «set_thread_cpu_affinity», «_cds_wfcq_init», «_cds_wfcq_node_init»,
    «___cds_wfcq_splice_blocking», «___cds_wfcq_splice», «_cds_wfcq_empty», «___cds_wfcq_append»,
    «___cds_wfcq_first_blocking», «___cds_wfcq_first», «___cds_wfcq_node_sync_next»,
    «___cds_wfcq_next_blocking», «___cds_wfcq_next», thrEnv, iterate, nd, tmpH]
  decide

-- ==========================================================================================================
-- rcu_barrier: the marker callback (C04, completion counting and reference counting)
-- ==========================================================================================================

/-- marker callback: a local step with the global state's values is the L2 step of `CallRcu/Barrier.lean`
(`mSub`, `mLdFut`, `mStFut`, `mWake`, `mPut`); `release` is due exactly when L2 marks the completion freed -/
theorem marker_lift_step (c : Cfg) (s : BState) (h b h' : Nat) (ls ls' : CallRcuB.LState) (l : CallRcuB.LLabel)
    (hm : s.mrun h = some (b, h')) (hpc : ls.pc = s.mpc h) (ho : CallRcuB.Obs s b l)
    (hs : CallRcuB.lstep ls l = some ls') :
    ∃ s', brun c s (CallRcuB.toL2 h l) = some s' ∧ ls'.pc = s'.mpc h ∧ s'.mrun h = some (b, h') ∧
      (∀ r, l = .put r → s.bfreed b = false → (ls'.rel = true ↔ s'.bfreed b = true)) :=
  CallRcuB.lift_step c s h b h' ls ls' l hm hpc ho hs

/-- `_rcu_barrier_complete(head)`: `uatomic_sub_return(&completion->barrier_count, 1)` (`mSub`), the wake-up of the
caller iff the count reached zero, `urcu_ref_put` (`mPut`), `free_completion` iff the reference count reached zero,
`free(work)` last -/
theorem _rcu_barrier_complete_refines (fuel : Nat) (env : Env) (inp : List Val) (B W : Src.Loc) (r v : Int) (w : Nat)
    (res : Int) (h1 : env.vars "head" = some (.ptr (.field W "head")))
    (h2 : env.priv (.field W "completion") = some (.ptr B)) (hF : CallRcuB.Follows (CallRcuB.cplSpec r v w res) inp) :
    ∃ out, exec fuel «_rcu_barrier_complete» env inp = .ok out ∧
      ∃ ls', CallRcuB.lrun ⟨.idle, false⟩ (out.events.flatMap (CallRcuB.absB B W)) = some ls' ∧
        (out.ctl = .blocked ∨ (out.ctl = .normal ∧ ls' = ⟨.fin, false⟩)) :=
  CallRcuB.complete_refines fuel env inp B W r v w res h1 h2 hF

/-- last marker of a barrier whose caller sleeps and has already dropped its reference: count → 0, futex -1 → 0,
FUTEX_WAKE, reference → 0, `free_completion`, `free(work)` -/
example : ∃ out, exec 0 «_rcu_barrier_complete»
      (envOf [("head", .ptr (.field (.obj 200) "head"))] [(.field (.obj 200) "completion", .ptr (.obj 300))])
      [.int 0, .int (-1), .int 1, .int 0, .int 0, .int 0] = .ok out ∧ out.events.length = 8 ∧ out.ctl = .normal ∧
    CallRcuB.lrun ⟨.idle, false⟩ (out.events.flatMap (CallRcuB.absB (.obj 300) (.obj 200))) = some ⟨.fin, false⟩ := by
  sexec [«_rcu_barrier_complete», «call_rcu_completion_wake_up», «urcu_ref_put», envOf, List.lookup]
  decide

/-- `free_completion(ref)` frees the completion that contains `ref` -/
theorem free_completion_refines (fuel : Nat) (env : Env) (B : Src.Loc) (x : Val) (rest : List Val)
    (h1 : env.vars "ref" = some (.ptr (.field B "ref"))) :
    ∃ out, exec fuel «free_completion» env (x :: rest) = .ok out ∧ out.events = [.ext "free" [.ptr B] x] ∧
      out.ctl = .normal :=
  CallRcuB.free_completion_exec fuel env B x rest h1

end UrcuVerif.Props.SrcCallRcu
