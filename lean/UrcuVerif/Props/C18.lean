import UrcuVerif.RcuList.Measure
/-!
# C18 — RCU lists: readers concurrent with an updater always see a consistent list
(`urcu/rculist.h`, `urcu/rcuhlist.h`, `urcu/static/pointer.h`; x86-TSO; any number of readers, any
sequence of `add / add_tail / del / replace` (hlist: `add_head / del`), every interleaving of the
updater's individual stores, of their delayed arrival in memory and of the readers' loads; readers
may sit on a node at the moment it is removed or replaced.)

Statements only.  Model: `RcuList/Model.lean`; invariant of the sequential updater machine:
`RcuList/SeqInv.lean`; invariant of the TSO machine: `RcuList/Inv.lean`; measure: `RcuList/Measure.lean`.

Vocabulary (all about the MEMORY `s.m`, i.e. what readers can observe): `pub a` – node `a` has been
published (it is in the list or was removed); `st a = .live / .dead`; `bef a b` – `a` precedes `b` in
the *history order* = list order in which removed nodes keep their place; `pubS / deadS` – memory
tick at which the publishing / unlinking store of the node reached memory; `t0 i / t1 i` – memory
tick at which reader `i`'s traversal began / completed.
-/
namespace UrcuVerif.RcuList

/-- the real code (the two `bug` variants exist only for `Neg/C18.lean`) -/
def Cfg.WF (c : Cfg) : Prop := c.bug = .none

/-- node `v` is a member of the list (as visible in memory) at memory tick `τ` -/
def memberAt (x : Seq) (v τ : Nat) : Prop := x.pub v ∧ x.pubS v ≤ τ ∧ (x.st v = .dead → τ < x.deadS v)

/-! ## TSO: what the store buffer can and cannot do -/

/-- **Memory only ever holds states of the sequential updater machine**: the FIFO buffer delays
the updater's stores but cannot reorder them, so every memory state satisfies the structural
invariant `SInv` (and so does the updater's own view). -/
theorem memory_is_sequential_state (c : Cfg) (hc : c.WF) {s : State} (h : Reach c s) :
    SInv c s.m ∧ SInv c s.u ∧ Link c s.m s.buf s.u :=
  let I := inv_reach c hc h
  ⟨I.sm, I.su, I.link⟩

/-- **The buffered value is the value memory needs**: the concrete (location, value) pair that
was computed from the updater's view when the store was issued is exactly the store that the
memory-side step performs when the entry is flushed, the flush is always enabled, and its effect on
the memory fields is precisely that one write.  (This is what makes the model an x86-TSO machine
with concrete store-buffer contents rather than a machine that re-executes updater code late.) -/
theorem flush_writes_buffered_value (c : Cfg) (hc : c.WF) {s : State} (h : Reach c s) (e : Entry)
    (r : List Entry) (hb : s.buf = e :: r) :
    e.store = storeOf c s.m e.lab ∧
      ∃ m', ustep c s.m e.lab = some m' ∧ (m'.next, m'.prev, m'.data) = wr s.m e.store := by
  have hl := (inv_reach c hc h).link
  rw [hb] at hl
  obtain ⟨h1, x, h2, _⟩ := hl
  exact ⟨h1, x, h2, by rw [h1]; exact ustep_writes c h2⟩

/-- with an empty buffer the updater's view and the memory coincide -/
theorem drained_view_is_memory (c : Cfg) (hc : c.WF) {s : State} (h : Reach c s) (hb : s.buf = []) :
    s.u = s.m := by
  have hl := (inv_reach c hc h).link
  rw [hb] at hl
  exact hl

/-! ## forward_chain_inv -/

/-- **forward_chain_inv** (1): from every node that is or was in the list (and from the head), the
`next` pointer in memory is the head (`0`) or a node that is or was in the list and lies strictly
later in list order. -/
theorem forward_chain_inv (c : Cfg) (hc : c.WF) {s : State} (h : Reach c s) (a : Nat) (ha : s.m.pub a) :
    s.m.next a = 0 ∨ (s.m.pub (s.m.next a) ∧ s.m.bef a (s.m.next a) = true) := by
  have I := (inv_reach c hc h).sm
  by_cases hn : s.m.next a = 0
  · exact Or.inl hn
  · have hf := I.fwd a ha hn
    exact Or.inr ⟨(I.dom _ _ hf).2.1, hf⟩

/-- follow `k` pointers starting at `a` -/
def follow (f : Nat → Nat) : Nat → Nat → Nat
  | 0, a => a
  | k + 1, a => follow f k (f a)

/-- **forward_chain_inv** (2): following `next` in memory from any such node reaches the head after
at most (number of nodes ever published) + 1 loads. -/
theorem chain_reaches_head (c : Cfg) (hc : c.WF) {s : State} (h : Reach c s) (a : Nat) (ha : s.m.pub a) :
    ∃ k, k ≤ s.m.hist.length + 1 ∧ follow s.m.next k a = 0 := by
  have I := (inv_reach c hc h).sm
  suffices H : ∀ n a, s.m.pub a → (s.m.hist.filter (fun y => s.m.bef a y)).length = n →
      ∃ k, k ≤ n + 1 ∧ follow s.m.next k a = 0 by
    obtain ⟨k, hk, hz⟩ := H _ a ha rfl
    exact ⟨k, by have := List.length_filter_le (fun y => s.m.bef a y) s.m.hist; omega, hz⟩
  intro n
  induction n using Nat.strongRecOn with
  | _ n ih =>
    intro a ha hn
    by_cases hq : s.m.next a = 0
    · exact ⟨1, by omega, hq⟩
    · have hf := I.fwd a ha hq
      have hd := I.dom _ _ hf
      have hin := (I.hist_iff (s.m.next a)).2 ⟨hd.2.1, hd.2.2⟩
      have hlt := filter_length_lt (fun y => s.m.bef a y) (fun y => s.m.bef (s.m.next a) y) s.m.hist (s.m.next a)
        (fun y _ hy => I.trans _ _ _ hf hy) hin hf (I.irr _)
      obtain ⟨k, hk, hz⟩ := ih _ (by omega) (s.m.next a) hd.2.1 rfl
      exact ⟨k + 1, by omega, hz⟩

/-- **forward_chain_inv** (3), list order: the `next` of a node that is in the list (or of the head)
is the *first* in-list node after it – nothing that is currently in the list is skipped – and the
`next` of a removed node leads to a node that is in the list or was removed later, skipping only
nodes that were not in the list when it was removed. -/
theorem chain_in_list_order (c : Cfg) (hc : c.WF) {s : State} (h : Reach c s) (a y : Nat)
    (hay : s.m.bef a y = true) :
    (s.m.st a = .live → s.m.st y = .live → s.m.next a ≠ 0 ∧ s.m.st (s.m.next a) = .live ∧
        (y = s.m.next a ∨ s.m.bef (s.m.next a) y = true)) ∧
    (s.m.st a = .dead → s.m.pub y → s.m.pubS y < s.m.deadS a → (s.m.st y = .live ∨ s.m.deadS a < s.m.deadS y) →
        s.m.next a ≠ 0 ∧ (y = s.m.next a ∨ s.m.bef (s.m.next a) y = true)) := by
  have I := (inv_reach c hc h).sm
  refine ⟨fun ha hy => ?_, fun ha hy h1 h2 => I.dead_skip a y ha hy hay h1 h2⟩
  have := I.live_skip a y ha hy hay
  exact ⟨this.1, I.live_next a ha this.1, this.2⟩

/-- **a removed node's `next` is intact**: no step of any thread changes the `next` field (in
memory) of a removed node, and a removed node stays removed. -/
theorem removed_next_intact (c : Cfg) (hc : c.WF) {s s' : State} {l : Label} (h : Reach c s)
    (st : step c s l = some s') (a : Nat) (ha : s.m.st a = .dead) :
    s'.m.next a = s.m.next a ∧ s'.m.st a = .dead := by
  have I := inv_reach c hc h
  cases l with
  | flush =>
    simp only [step] at st; split at st <;> (try split at st) <;> simp at st; subst st
    next e rest hbuf _ m' hm =>
    have M := mono_ustep c hc I.sm hm
    exact ⟨M.dead_next a ha, (M.dead_old a ha).1⟩
  | u l => simp only [step] at st; split at st <;> simp at st; subst st; exact ⟨rfl, ha⟩
  | rLock j => simp only [step] at st; split at st <;> simp at st; subst st; exact ⟨rfl, ha⟩
  | rUnlock j => simp only [step] at st; split at st <;> simp at st; subst st; exact ⟨rfl, ha⟩
  | rStart j => simp only [step] at st; split at st <;> simp at st; subst st; exact ⟨rfl, ha⟩
  | rNext j =>
    simp only [step] at st; split at st <;> (try split at st) <;> simp at st <;> subst st <;> exact ⟨rfl, ha⟩
  | rRead j => simp only [step] at st; split at st <;> (try split at st) <;> simp at st; subst st; exact ⟨rfl, ha⟩
  | gpStart => simp only [step] at st; split at st <;> simp at st; subst st; exact ⟨rfl, ha⟩
  | gpEnd => simp only [step] at st; split at st <;> (try split at st) <;> simp at st; subst st; exact ⟨rfl, ha⟩
  | free x => simp only [step] at st; split at st <;> simp at st; subst st; exact ⟨rfl, ha⟩

/-! ## traversal_terminates -/

/-- **traversal_terminates** (step form): every `rcu_dereference` step of reader `i` strictly
decreases the measure `mu`; a store reaching memory increases it by at most one; no other step
(except the reader starting a new traversal) increases it. -/
theorem traversal_measure (c : Cfg) (hc : c.WF) {s s' : State} {l : Label} (h : Reach c s) (i : Nat)
    (st : step c s l = some s') :
    (l = .rNext i → mu s' i < mu s i) ∧
    (l = .flush → mu s' i ≤ mu s i + 1) ∧
    (l ≠ .rStart i → l ≠ .flush → l ≠ .rNext i → mu s' i ≤ mu s i) := by
  have I := inv_reach c hc h
  refine ⟨fun hl => ?_, fun hl => ?_, fun h1 h2 h3 => mu_other c i l st h1 h2 h3⟩
  · subst hl; exact mu_rNext c I i st
  · subst hl; exact mu_flush c hc I i st

/-- **traversal_terminates** (run form, "for finitely many updates"): along any run that does not
restart reader `i`'s traversal, the number of `rcu_dereference` steps of reader `i` is bounded by the
initial measure plus the number of stores that reached memory during the run. -/
theorem traversal_terminates (c : Cfg) (hc : c.WF) {s s' : State} (h : Reach c s) (i : Nat) (ls : List Label)
    (hr : run c s ls = some s') (hns : Label.rStart i ∉ ls) :
    ls.count (.rNext i) + mu s' i ≤ mu s i + ls.count .flush := by
  induction ls generalizing s with
  | nil => simp [run] at hr; subst hr; simp
  | cons l ls ih =>
    simp only [run] at hr
    split at hr
    · simp at hr
    · next s1 hs =>
      have hm := traversal_measure c hc h i hs
      have hrec := ih (Reach.step h hs) hr (fun hx => hns (by simp [hx]))
      have hl : l ≠ .rStart i := fun hx => hns (by simp [hx])
      by_cases h1 : l = .rNext i
      · have := hm.1 h1; subst h1; simp at *; omega
      · by_cases h2 : l = .flush
        · have := hm.2.1 h2; subst h2; simp at *; omega
        · have := hm.2.2 hl h2 h1
          have e1 : (l :: ls).count (.rNext i) = ls.count (.rNext i) := by
            simp [List.count_cons]; intro hx; exact absurd hx h1
          have e2 : (l :: ls).count .flush = ls.count .flush := by
            simp [List.count_cons]; intro hx; exact absurd hx h2
          omega

/-! ## visits_in_order, resident_visited_exactly_once, visited_was_member -/

/-- **visits_in_order**: the nodes visited by a traversal are strictly increasing in list order;
in particular no node is visited twice. -/
theorem visits_in_order (c : Cfg) (hc : c.WF) {s : State} (h : Reach c s) (i : Nat) :
    (s.vis i).Pairwise (fun a b => s.m.bef a b = true) ∧ (s.vis i).Nodup := by
  have I := inv_reach c hc h
  exact ⟨I.r_ord i, pairwise_irrefl_nodup (I.r_ord i) (fun a => by simp [I.sm.irr a])⟩

/-- **resident_visited_exactly_once**: when a traversal has run to completion, every node that was
in the list (in memory) for the whole traversal – published no later than its beginning and not
removed before its end – has been visited exactly once. -/
theorem resident_visited_exactly_once (c : Cfg) (hc : c.WF) {s : State} (h : Reach c s) (i y : Nat)
    (hf : s.fin i = true) (hy0 : y ≠ 0) (h0 : memberAt s.m y (s.t0 i)) (h1 : memberAt s.m y (s.t1 i)) :
    (s.vis i).count y = 1 := by
  have I := inv_reach c hc h
  have hmem : y ∈ s.vis i := by
    refine (I.r_fin i hf).2 y hy0 h0.1 h0.2.1 ?_
    rcases h0.1 with hl | hd
    · exact Or.inl hl
    · exact Or.inr (h1.2.2 hd)
  rw [(visits_in_order c hc h i).2.count]; simp [hmem]

/-- **visited_was_member**: every visited node is a real node that was a member of the list at some
memory tick between the beginning of the traversal and now. -/
theorem visited_was_member (c : Cfg) (hc : c.WF) {s : State} (h : Reach c s) (i v : Nat) (hv : v ∈ s.vis i) :
    v ≠ 0 ∧ ∃ τ, s.t0 i ≤ τ ∧ τ ≤ s.m.tick ∧ memberAt s.m v τ := by
  have I := inv_reach c hc h
  obtain ⟨h0, hp, hl⟩ := I.r_vis i v hv
  have hpl := I.sm.pub_le v hp
  have ht := I.t0_le i
  refine ⟨h0, max (s.t0 i) (s.m.pubS v), by omega, by omega, hp, by omega, fun hd => ?_⟩
  have := (I.sm.dead_le v hd).2
  rcases hl with hl | hl
  · rw [hd] at hl; cases hl
  · omega

/-! ## visited_initialised, never_touches_freed -/

/-- **visited_initialised**: a reader never reads a payload that was not initialised – the
initialising store precedes the publishing store in the same FIFO buffer – and every visited node's
payload is initialised in memory. -/
theorem visited_initialised (c : Cfg) (hc : c.WF) {s : State} (h : Reach c s) (i : Nat) :
    s.sawUninit i = false ∧ ∀ v, v ∈ s.vis i → s.m.data v = true := by
  have I := inv_reach c hc h
  exact ⟨I.r_init i, fun v hv => by
    obtain ⟨h0, hp, _⟩ := I.r_vis i v hv
    exact I.sm.data_ok v hp h0⟩

/-- **never_touches_freed** (`GpSpec`): no traversal ever dereferences a node that has been freed,
and a reader is never positioned on a freed node. -/
theorem never_touches_freed (c : Cfg) (hc : c.WF) {s : State} (h : Reach c s) (i : Nat) :
    s.touchedFreed i = false ∧ ∀ p, s.pos i = some p → s.freed p = false := by
  have I := inv_reach c hc h
  exact ⟨I.r_free i, fun p hp => (I.pos_safe hp).1⟩

/-- the inductive step, exported for the audit -/
theorem inv_step_wf (c : Cfg) (hc : c.WF) {s s' : State} {l : Label} (h : Inv c s)
    (st : step c s l = some s') : Inv c s' := inv_step c hc h st

/-! ## Non-vacuity: concrete runs of the executable model (hypotheses are satisfiable) -/

def cfgL : Cfg := { n := 2, hl := false }
def cfgH : Cfg := { n := 2, hl := true }

/-- issue one whole primitive: call + its `k` stores -/
def issue (l : ULabel) (k : Nat) : List Label := .u l :: List.replicate k (.u .st)
def flushes (k : Nat) : List Label := List.replicate k .flush

/-- add n1, add_tail n2 (all flushed); reader 0 walks to n1; n1 is deleted under its feet, the
unlink reaches memory; the reader continues from the removed node and completes having visited
[n1, n2]; the grace period cannot end before the reader leaves; afterwards n1 is freed. -/
def demo : List Label :=
  issue (.add 1) 5 ++ flushes 6 ++ issue (.addTail 2) 5 ++ flushes 6 ++
  [.rLock 0, .rStart 0, .rNext 0, .rRead 0] ++ issue (.del 1) 2 ++ flushes 3 ++
  [.rNext 0, .rRead 0, .rNext 0, .gpStart]

example : ((run cfgL init demo).map fun s => (s.vis 0, s.fin 0, s.m.st 1, s.m.next 1, s.m.next 0)) =
    some ([1, 2], true, .dead, 2, 2) := by decide
example : ((run cfgL init demo).map fun s => (s.t0 0, s.t1 0, s.m.pubS 1, s.m.deadS 1, s.m.pubS 2)) =
    some (12, 15, 6, 15, 11) := by decide
/-- the grace period cannot complete while reader 0 is inside its section … -/
example : run cfgL init (demo ++ [.gpEnd]) = none := by decide
/-- … nor can n1 be freed before it has -/
example : run cfgL init (demo ++ [.rUnlock 0, .free 1]) = none := by decide
example : ((run cfgL init (demo ++ [.rUnlock 0, .gpEnd, .free 1])).map fun s => (s.freed 1, s.touchedFreed 0, s.sawUninit 0)) =
    some (true, false, false) := by decide

/-- store-buffer delay: the updater has completed two adds but nothing has reached memory: a
complete traversal sees the empty list; after the flushes the next traversal sees [n2, n1] -/
example : ((run cfgL init (issue (.add 1) 5 ++ issue (.add 2) 5 ++ [.rLock 0, .rStart 0, .rNext 0])).map
    fun s => (s.vis 0, s.fin 0, s.buf.length, s.u.next 0, s.m.next 0)) = some ([], true, 12, 2, 0) := by decide
example : ((run cfgL init (issue (.add 1) 5 ++ issue (.add 2) 5 ++ flushes 12 ++ [.rLock 0, .rStart 0, .rNext 0, .rNext 0, .rNext 0])).map
    fun s => (s.vis 0, s.fin 0)) = some ([2, 1], true) := by decide

/-- replace under a reader positioned on the old node; hlist add_head / del -/
example : ((run cfgL init (issue (.add 1) 5 ++ issue (.add 2) 5 ++ flushes 12 ++ [.rLock 0, .rStart 0, .rNext 0] ++
    issue (.repl 2 3) 5 ++ flushes 6 ++ [.rNext 0, .rNext 0])).map
    fun s => (s.vis 0, s.fin 0, s.m.st 2, s.m.st 3, s.m.next 0, s.m.bef 3 2 && s.m.bef 2 1)) =
    some ([2, 1], true, .dead, .live, 3, true) := by decide
example : ((run cfgH init (issue (.add 1) 5 ++ issue (.add 2) 5 ++ flushes 12 ++ issue (.del 1) 2 ++ flushes 3 ++
    [.rLock 1, .rStart 1, .rNext 1, .rNext 1])).map fun s => (s.vis 1, s.fin 1, s.m.prev 1, s.m.prev 2)) =
    some ([2], true, 2, 0) := by decide
/-- API contract: add_tail / replace do not exist for hlist; a node cannot be added twice -/
example : run cfgH init [.u (.addTail 1)] = none := by decide
example : run cfgL init (issue (.add 1) 5 ++ [.u (.add 1)]) = none := by decide

end UrcuVerif.RcuList
