import UrcuVerif.Src.Lfht5Add
/-!
# Source IR of `src/rculfhash.c` ⊑ thread-local projection of L2 (`Lfht/Conc`), part 5: `_cds_lfht_add`, unique /
replace modes (partial: the inner loop)

* `Src/Lfht5Local.lean`: the **union automaton** `LfhtU.lstep` on events (`LfhtA.lstep` on `LfhtAR.absEv e`, else
  `LfhtW.lstep` on `LfhtWR.absEv e`); every run of either frozen automaton is a run of the union (`LfhtU.lrun_ofA`,
  `LfhtU.lrun_ofW`; the two never move at the same pc: `LfhtU.lstepA_none_of_W`), so `LfhtA.proj_step` (which covers the
  `ldNextA` → `wNext`/`dupAdd` hand-off) and `LfhtW.proj_step` remain the projection lemmas.  `LfhtU.OracleU`: the oracle
  is admissible for the component that is active.
* `Src/Lfht5Walk.lean`: `Lfht4Walk.lean` for an iterator at an arbitrary location (`d_iter` is `Loc.glob "&d_iter"`).
* `Src/Lfht5Add.lean`: **the inner `for (;;)` of the generated `_cds_lfht_add` with `unique_ret = &U ≠ NULL`,
  `bucket_flag = 0`, L2 mode `uniq` or `repl`** (`LfhtAR.addInner`, the body `firstLoop (firstLoop …)` of the generated
  value): every run is accepted by the union automaton – `ldNextA` with `check_resize`, the hand-off `ldNextA` → `dupAdd`
  walk (`d_iter = (node, iter)` stored privately, `cds_lfht_next_duplicate` through `LfhtWR.dupG_exec` with the
  continuation `LfhtU.KU`), and it ends: `break` to `insert:` (L2 at `aCas`: end of chain, larger reverse hash, **or no
  duplicate found**), `break` to `gc_node:` (L2 at `aGc`), **`return` with `*unique_ret = (n, w)`** (`DupFound`: L2's
  thread is where `walkRet` puts the `dupAdd` walk – `idle`/`Out.node n` in mode `uniq`, `replTest` in mode `repl`),
  preempted, or out of budget.
  NOT done: `insert:` / `gc_node:` / outer loop / prologue for these modes (`LfhtAR.add_post_ins`, `add_post_gc`,
  `add_outer_body`, `add_exec` fix `mode = plain`, `unique_ret = NULL`: to be re-proved on the union automaton exactly as
  the inner loop here, the `.ret none` outcome propagating), hence `_cds_lfht_add_refines_unique` and the wrappers.
-/
namespace UrcuVerif.Props.SrcLfht5
open UrcuVerif UrcuVerif.Src UrcuVerif.Lfht.Conc UrcuVerif.Src.LfhtR UrcuVerif.Src.LfhtAR UrcuVerif.Src.LfhtUR

/-- one iteration of the inner loop (unique / replace modes) -/
theorem _cds_lfht_add_inner_body_refines_unique (fuel : Nat) (rev : Nat → Nat) (B N U ky : Nat) (M : Mode)
    (htv szv mv : Val) (hM : M = .uniq ∨ M = .repl) (hN : N ≠ 0)
    (env : Env) (inp : List Val) (ls : LfhtU.LState) (hI : AddIU rev B N U ky M htv szv mv env inp ls) :
    ∃ o, exec fuel addInner env inp = .ok o ∧ ∃ ls', LfhtU.lrun rev ls o.events = some ls' ∧
      (if o.ctl.goesOn then AddIU rev B N U ky M htv szv mv o.env o.inp ls'
       else AddRU rev B N U ky M htv szv mv o.ctl o.env o.inp ls') :=
  addU_inner_body fuel rev B N U ky M htv szv mv hM hN env inp ls hI

/-- the inner loop (unique / replace modes) -/
theorem _cds_lfht_add_inner_loop_refines_unique (fuel : Nat) (rev : Nat → Nat) (B N U ky : Nat) (M : Mode)
    (htv szv mv : Val) (hM : M = .uniq ∨ M = .repl) (hN : N ≠ 0)
    (env : Env) (inp : List Val) (ls : LfhtU.LState) (hI : AddIU rev B N U ky M htv szv mv env inp ls) :
    ∃ out, exec fuel (.loop addInner) env inp = .ok out ∧ ∃ ls', LfhtU.lrun rev ls out.events = some ls' ∧
      (out.ctl = .fuel ∨ ∃ c, c.goesOn = false ∧ AddRU rev B N U ky M htv szv mv c out.env out.inp ls' ∧
        out.ctl = c.afterLoop) := by
  rw [exec_loop]
  exact addU_inner_loop fuel rev B N U ky M htv szv mv hM hN env inp ls _ rfl hI

/-- `addInner` is the inner loop body of the generated function -/
example : firstLoop addOuter = some addInner := rfl
example : firstLoop Gen.Src.«lfht._cds_lfht_add» = some addOuter := rfl

#check @LfhtU.lrun_ofA
#check @LfhtU.lrun_ofW
#check @LfhtU.lstepA_none_of_W
#check @LfhtU.oracleK_of_U
#check @LfhtA.proj_step
#check @LfhtW.proj_step

end UrcuVerif.Props.SrcLfht5
