import UrcuVerif.Src.PollLocal
import UrcuVerif.Src.PollRefine
/-!
# Source refinement, component "poll API" (C14): generated IR of `start_poll_synchronize_rcu`,
# `poll_state_synchronize_rcu`, `urcu_poll_worker_cb` ⊑ `Poll/Model.lean`

Final statements only (proofs: `Src/PollLocal.lean`, `Src/PollRefine.lean`).  Every theorem is about the **generated**
value `UrcuVerif.Gen.Src.«poll.f»` called with its generated parameter list, for every loop budget and every oracle `inp`
(one value per external call: the runs over all `inp` are the prefixes; a prefix is blocked at `mutex_lock`, `call_rcu` or
`mutex_unlock`).

All accesses to `poll_worker_gp_state` are plain and under its mutex: they act on the private view `priv`, related to the
model state by `RelP priv (proj s)` (`cur`, `latest`, `active` as the three words).  The theorems say: whenever the real
`Poll.step` takes the operation (`s → s'`, output `o`), the events of the run are `mutex_lock`, `call_rcu(&rcu_head,
urcu_poll_worker_cb)` **iff** the model's output says the worker is (re)queued, `mutex_unlock` (`extSeq (apiCalls q) inp`), a
completed run returns what the model returns and leaves the private words equal to `proj s'`.

Exact integers: `(long)(a - b) >= 0` is `a - b ≥ 0` on `Int` in the IR and `≤` on `Nat` in the model – no wrap-around
on either side.  By-value structs are addresses: the handle passed to `poll_state` is a pointer `tl` with
`priv (tl.grace_period_id) = g`; `start_poll` returns `&new_target_gp_state`, whose field holds the id afterwards.
-/
set_option linter.unusedSimpArgs false
namespace UrcuVerif.Props.SrcPoll
open UrcuVerif UrcuVerif.Src UrcuVerif.Src.PollL UrcuVerif.Src.PollR UrcuVerif.Poll

/-! ## the three words against the real `Poll.step`: projection / enabledness / frame -/

theorem poll_proj {n : Nat} {s s' : State} {op : Op} {o : Poll.Out} (ha : isApi op = true) (h : step n s op = some (s', o)) :
    lstep (proj s) op = some (proj s', o) := proj_step ha h

theorem poll_enabled_iff (n : Nat) (s : State) (op : Op) (ha : isApi op = true) :
    (step n s op).isSome ↔ ((lstep (proj s) op).isSome ∧ gguard s op) := enabled_iff n s op ha

theorem poll_frame {n : Nat} {s s' : State} {op : Op} {o : Poll.Out} (ha : isApi op = false) (h : step n s op = some (s', o)) :
    proj s' = proj s := frame ha h

/-! ## the functions -/

/-- **`start_poll_synchronize_rcu()` = `Poll.step … .startPoll`**: output `.handle g queued`; events `lock`, `call_rcu` iff
`queued`, `unlock`; a completed run returns `&new_target_gp_state` with `grace_period_id = g`, the private words are the
model's, nothing else of the private view changes. -/
theorem start_poll_synchronize_rcu_refines (fuel n : Nat) (priv : Loc → Option Val) (s s' : State) (o : Poll.Out)
    (inp : List Val) (hr : RelP priv (proj s)) (hs : step n s .startPoll = some (s', o)) :
    ∃ out g q, o = .handle g q ∧
      exec fuel Gen.Src.«poll.start_poll_synchronize_rcu»
        ⟨bindParams Gen.Src.«poll.start_poll_synchronize_rcu.params» [], priv⟩ inp = .ok out ∧
      out.events = (extSeq (apiCalls q) inp).1 ∧ out.inp = (extSeq (apiCalls q) inp).2.1 ∧
      ((extSeq (apiCalls q) inp).2.2 = false → out.ctl = .blocked) ∧
      ((extSeq (apiCalls q) inp).2.2 = true →
        out.ctl = .ret (some (.ptr newObj)) ∧ out.env.priv newL = some (.int (g : Int)) ∧ RelP out.env.priv (proj s') ∧
        ∀ l, l ≠ latL → l ≠ actL → l ≠ newL → out.env.priv l = priv l) := by
  have hp := proj_step (op := .startPoll) rfl hs
  simp only [lstep, Option.some.injEq, Prod.mk.injEq] at hp
  obtain ⟨hp1, hp2⟩ := hp
  obtain ⟨out, h1, h2, h3, h4, h5⟩ := start_poll_exec fuel
    ⟨bindParams Gen.Src.«poll.start_poll_synchronize_rcu.params» [], priv⟩ (proj s) inp hr
  refine ⟨out, _, _, hp2.symm, h1, h2, h3, h4, ?_⟩
  intro hd
  obtain ⟨a, b, c, d⟩ := h5 hd
  exact ⟨a, c, by rw [← hp1]; exact b, d⟩

/-- **`poll_state_synchronize_rcu(target)` = `Poll.step … (.poll g)`**: events `lock`, `unlock`; the private view is
unchanged; a completed run returns the model's boolean (`g < cur`, i.e. `(long)(g - cur) < 0`). -/
theorem poll_state_synchronize_rcu_refines (fuel n : Nat) (priv : Loc → Option Val) (s s' : State) (o : Poll.Out) (tl : Loc)
    (g : Nat) (inp : List Val) (hr : RelP priv (proj s))
    (hg : priv (.field tl "grace_period_id") = some (.int (g : Int))) (hs : step n s (.poll g) = some (s', o)) :
    ∃ out b, o = .reached b ∧
      exec fuel Gen.Src.«poll.poll_state_synchronize_rcu»
        ⟨bindParams Gen.Src.«poll.poll_state_synchronize_rcu.params» [.ptr tl], priv⟩ inp = .ok out ∧
      out.events = (extSeq (apiCalls false) inp).1 ∧ out.inp = (extSeq (apiCalls false) inp).2.1 ∧
      out.env.priv = priv ∧ RelP out.env.priv (proj s') ∧
      ((extSeq (apiCalls false) inp).2.2 = false → out.ctl = .blocked) ∧
      ((extSeq (apiCalls false) inp).2.2 = true → out.ctl = .ret (some (boolV b))) := by
  have hp := proj_step (op := .poll g) rfl hs
  simp only [lstep, Option.some.injEq, Prod.mk.injEq] at hp
  obtain ⟨hp1, hp2⟩ := hp
  obtain ⟨out, h1, h2, h3, h4, h5, h6⟩ := poll_state_exec fuel
    ⟨bindParams Gen.Src.«poll.poll_state_synchronize_rcu.params» [.ptr tl], priv⟩ (proj s) tl g inp hr
    (by simp [bindParams, Gen.Src.«poll.poll_state_synchronize_rcu.params»]) hg
  exact ⟨out, _, hp2.symm, h1, h2, h3, h4, by rw [h4, ← hp1]; exact hr, h5, h6⟩

/-- **`urcu_poll_worker_cb(head)` = `Poll.step … .worker`**: output `.requeued b`; events `lock`, `call_rcu` iff `b`,
`unlock`; after a completed run the private words are the model's (`cur + 1`; `active` cleared iff not re-queued). -/
theorem urcu_poll_worker_cb_refines (fuel n : Nat) (priv : Loc → Option Val) (s s' : State) (o : Poll.Out) (head : Val)
    (inp : List Val) (hr : RelP priv (proj s)) (hs : step n s .worker = some (s', o)) :
    ∃ out b, o = .requeued b ∧
      exec fuel Gen.Src.«poll.urcu_poll_worker_cb»
        ⟨bindParams Gen.Src.«poll.urcu_poll_worker_cb.params» [head], priv⟩ inp = .ok out ∧
      out.events = (extSeq (apiCalls b) inp).1 ∧ out.inp = (extSeq (apiCalls b) inp).2.1 ∧
      ((extSeq (apiCalls b) inp).2.2 = false → out.ctl = .blocked) ∧
      ((extSeq (apiCalls b) inp).2.2 = true →
        out.ctl = .normal ∧ RelP out.env.priv (proj s') ∧ ∀ l, l ≠ curL → l ≠ actL → out.env.priv l = priv l) := by
  have hp := proj_step (op := .worker) rfl hs
  obtain ⟨out, h1, h2, h3, h4, h5⟩ := worker_cb_exec fuel
    ⟨bindParams Gen.Src.«poll.urcu_poll_worker_cb.params» [head], priv⟩ (proj s) inp hr
  by_cases hc : (proj s).cur + 1 ≤ (proj s).latest
  · simp only [lstep, hc, if_true, Option.some.injEq, Prod.mk.injEq] at hp
    simp only [hc, decide_true, if_true] at h2 h3 h4 h5
    exact ⟨out, true, hp.2.symm, h1, h2, h3, h4, fun hd => ⟨(h5 hd).1, by rw [← hp.1]; exact (h5 hd).2.1, (h5 hd).2.2⟩⟩
  · simp only [lstep, hc, if_false, Option.some.injEq, Prod.mk.injEq] at hp
    simp only [hc, decide_false, if_false] at h2 h3 h4 h5
    exact ⟨out, false, hp.2.symm, h1, h2, h3, h4, fun hd => ⟨(h5 hd).1, by rw [← hp.1]; exact (h5 hd).2.1, (h5 hd).2.2⟩⟩

/-- shape of a completed run: exactly `lock ; call_rcu ; unlock` when (re)queued, `lock ; unlock` otherwise -/
theorem poll_events_done (q : Bool) (inp : List Val) (h : (extSeq (apiCalls q) inp).2.2 = true) :
    (q = true ∧ ∃ l c u rest, inp = l :: c :: u :: rest ∧ (extSeq (apiCalls q) inp).1 =
        [.ext "mutex_lock" lockArgs l, .ext "call_rcu" callArgs c, .ext "mutex_unlock" lockArgs u] ∧
        (extSeq (apiCalls q) inp).2.1 = rest) ∨
    (q = false ∧ ∃ l u rest, inp = l :: u :: rest ∧ (extSeq (apiCalls q) inp).1 =
        [.ext "mutex_lock" lockArgs l, .ext "mutex_unlock" lockArgs u] ∧ (extSeq (apiCalls q) inp).2.1 = rest) :=
  extSeq_done q inp h

/-! ## non-vacuity -/
section examples

def privOf (c l : Nat) (a : Bool) : Loc → Option Val := fun m =>
  if m = curL then some (.int c) else if m = latL then some (.int l) else if m = actL then some (boolV a)
  else if m = .field (.obj 0) "grace_period_id" then some (.int 0) else none

theorem relOf (c l : Nat) (a : Bool) (s : State) (h : proj s = ⟨c, l, a⟩) : RelP (privOf c l a) (proj s) := by
  rw [h]; simp [RelP, privOf, curL, latL, actL, pw]

/-- first `start_poll` on the initial state: handle 0, worker queued: 3 events -/
example : ∃ out, exec 1 Gen.Src.«poll.start_poll_synchronize_rcu» ⟨bindParams [] [], privOf 0 0 false⟩
      [.int 0, .int 0, .int 0] = .ok out ∧
    out.events = [.ext "mutex_lock" lockArgs (.int 0), .ext "call_rcu" callArgs (.int 0), .ext "mutex_unlock" lockArgs (.int 0)] ∧
    out.ctl = .ret (some (.ptr newObj)) ∧ out.env.priv newL = some (.int 0) := by
  have hs : step 0 init .startPoll = some _ := rfl
  obtain ⟨out, g, q, ho, h1, h2, -, -, h5⟩ := start_poll_synchronize_rcu_refines 1 0 (privOf 0 0 false) init _ _
    [.int 0, .int 0, .int 0] (relOf 0 0 false init rfl) hs
  simp only [init, Poll.Out.handle.injEq] at ho
  obtain ⟨rfl, rfl⟩ := ho
  have hd : (extSeq (apiCalls (!false)) [Val.int 0, .int 0, .int 0]).2.2 = true := by simp [extSeq, apiCalls]
  refine ⟨out, h1, by rw [h2]; simp [extSeq, apiCalls], (h5 hd).1, by simpa using (h5 hd).2.1⟩

/-- the worker at `cur = 0, latest = 1` re-queues itself: 3 events; `poll(0)` at `cur = 1` returns true: 2 events -/
example : ∃ out, exec 1 Gen.Src.«poll.urcu_poll_worker_cb» ⟨bindParams ["head"] [.int 0], privOf 0 1 true⟩
      [.int 0, .int 0, .int 0] = .ok out ∧ out.events.length = 3 ∧ out.env.priv curL = some (.int 1) := by
  obtain ⟨out, h1, h2, -, -, h5⟩ := worker_cb_exec 1 ⟨bindParams ["head"] [.int 0], privOf 0 1 true⟩ ⟨0, 1, true⟩
    [.int 0, .int 0, .int 0] (by simp [RelP, privOf, curL, latL, actL, pw])
  have hd : (extSeq (apiCalls (decide (0 + 1 ≤ 1))) [Val.int 0, .int 0, .int 0]).2.2 = true := by simp [extSeq, apiCalls]
  exact ⟨out, h1, by rw [h2]; simp [extSeq, apiCalls], by simpa using (h5 hd).2.1.1⟩

example : ∃ out, exec 1 Gen.Src.«poll.poll_state_synchronize_rcu» ⟨bindParams ["target_gp_state"] [.ptr (.obj 0)], privOf 1 1 true⟩
      [.int 0, .int 0] = .ok out ∧ out.events.length = 2 ∧ out.ctl = .ret (some (.int 1)) := by
  obtain ⟨out, h1, h2, -, -, -, h6⟩ := poll_state_exec 1
    ⟨bindParams ["target_gp_state"] [.ptr (.obj 0)], privOf 1 1 true⟩ ⟨1, 1, true⟩ (.obj 0) 0 [.int 0, .int 0]
    (by simp [RelP, privOf, curL, latL, actL, pw]) (by simp [bindParams]) (by simp [privOf, curL, latL, actL, pw])
  have hd : (extSeq (apiCalls false) [Val.int 0, .int 0]).2.2 = true := by simp [extSeq, apiCalls]
  exact ⟨out, h1, by rw [h2]; simp [extSeq, apiCalls], by simpa [boolV] using h6 hd⟩

end examples

end UrcuVerif.Props.SrcPoll
