import UrcuVerif.Src.Lfht4Walk
import UrcuVerif.Src.Lfht4Repl
/-!
# Source IR of `src/rculfhash.c` ⊑ thread-local projection of L2 (`Lfht/Conc`), part 4

Proved here, for the **generated** values:

1. `Gen.Src.«lfht.cds_lfht_next_duplicate»` **as called by `_cds_lfht_add` in the unique / replace modes** (walk kind
   `dupAdd`, which `LfhtWR.dup_exec` excludes): every run is accepted by the walk automaton `LfhtW.lstep` (L2 labels
   `ldWalk` – with the `match` call – and `ldAssertW`; `LfhtW.proj_step` is the projection lemma, it covers `dupAdd`),
   and the call returns with `d_iter = (n, w)` and L2's thread where `walkRet` puts a `dupAdd` walk: back in the
   insertion at `aCas` (`n = 0`: no duplicate, `goto insert`), or `idle` with `Out.node n` (mode `uniq`) / L2's `replTest`
   (mode `repl`).  The oracle guarantee is handed back to the caller through the continuation `K` (`LfhtWR.OracleK`).
   NOT done: the unique / replace modes of `_cds_lfht_add` itself (the inner loop of `LfhtAR.add_inner_body` has to be
   re-proved for `unique_ret ≠ NULL` on the union of the automata `LfhtA.lstep` / `LfhtW.lstep`, with this lemma at the
   call site) and the wrappers `cds_lfht_add_unique` / `cds_lfht_add_replace`.
2. the **tail of `Gen.Src.«lfht._cds_lfht_replace»`** after the cmpxchg loop of `SrcLfht3._cds_lfht_replace_loop_refines`:
   `LfhtP.replTail` (= `seqTail 14` of the generated value; the loop is statement 14: `LfhtP.repl_shape`), from L2's
   `LfhtP.handover y`, accepted by `LfhtP.lstepR`; in outcome form for the assertion load (hypothesis `hA`), whose value
   the gc pass' post-condition does not constrain.  And the argument checks of `Gen.Src.«lfht.cds_lfht_replace»`
   (`-ENOENT` / `-EINVAL`: external calls only, no shared access).
-/
namespace UrcuVerif.Props.SrcLfht4
open UrcuVerif UrcuVerif.Src UrcuVerif.Lfht.Conc UrcuVerif.Src.LfhtR

section walk
open UrcuVerif.Src.LfhtW UrcuVerif.Src.LfhtWR

/-- `cds_lfht_next_duplicate(ht, match, key, &d_iter)` inside `_cds_lfht_add`, `d_iter = (N, itx)` -/
theorem cds_lfht_next_duplicate_refines_dupAdd (K : LfhtW.LState → List Val → Prop) (fuel : Nat) (rev : Nat → Nat)
    (env : Env) (inp : List Val) (x0 : Thr) (N : Nat) (itx : W) (it k : Nat)
    (hiter : env.vars "iter" = some (.ptr (.obj it))) (hkey : env.vars "key" = some (.int k))
    (hin : env.priv (.field (.obj it) "node") = some (.ptr (.obj N))) (hN : N ≠ 0)
    (hix : env.priv (.field (.obj it) "next") = some (encW itx)) (hrev : RevView rev env.priv)
    (hwk : x0.wk = .dupAdd) (hrh : x0.rh = rev N) (hky : x0.ky = k)
    (hO : OracleK K rev (ofPair (lwalkPos rev x0 itx.ptr)) inp) :
    ∃ out, exec fuel Gen.Src.«lfht.cds_lfht_next_duplicate» env inp = .ok out ∧
      ∃ ls', LfhtW.lrun rev (ofPair (lwalkPos rev x0 itx.ptr)) (out.events.map LfhtWR.absEv) = some ls' ∧
        (out.ctl = .blocked ∨ out.ctl = .fuel ∨
          (out.ctl = .normal ∧ ∃ x1 n w, x1.wk = .dupAdd ∧ wcore x1 = wcore x0 ∧ ls' = ofPair (lwalkRet x1 n w) ∧
            (n ≠ 0 → x1.cur = n ∧ x1.wnx = w ∧ w.rem = false ∧ w.bkt = false) ∧ (n = 0 → w = {}) ∧
            out.env.priv (.field (.obj it) "node") = some (encP n) ∧
            out.env.priv (.field (.obj it) "next") = some (encW w) ∧
            (∀ l, l ≠ Loc.field (.obj it) "node" → l ≠ Loc.field (.obj it) "next" → out.env.priv l = env.priv l) ∧
            K ls' out.inp)) :=
  dupA_exec K fuel rev env inp x0 N itx it k hiter hkey hin hN hix hrev hwk hrh hky hO

/-- where the walk hands the thread back: no duplicate ⇒ `aCas`; duplicate `n` in mode `uniq` ⇒ `idle`, `Out.node n` -/
theorem dupAdd_ret_none (x : Thr) (h : x.wk = .dupAdd) :
    lwalkRet x 0 {} = ({ x with pc := .aCas }, .unit) := by simp [lwalkRet, h]
theorem dupAdd_ret_uniq (x : Thr) (n : Nat) (w : W) (h : x.wk = .dupAdd) (hn : n ≠ 0) (hm : x.mode = .uniq) :
    lwalkRet x n w = ({ x with pc := .idle, op := .none }, .node n) := by simp [lwalkRet, h, hn, hm]
theorem dupAdd_ret_repl (x : Thr) (n : Nat) (w : W) (h : x.wk = .dupAdd) (hn : n ≠ 0) (hm : x.mode = .repl) :
    lwalkRet x n w = lreplTest { x with old := n } w := by simp [lwalkRet, h, hn, hm]

#check @LfhtW.proj_step
end walk

section repl
open UrcuVerif.Src.LfhtL UrcuVerif.Src.LfhtP

/-- part A of the tail: `bit_reverse_ulong`, `lookup_bucket`, `_cds_lfht_gc_bucket` – ends at L2's `rAssert` -/
theorem _cds_lfht_replace_tail_gc_refines (fuel : Nat) (rev : Nat → Nat) (env : Env) (inp : List Val) (y : Thr)
    (ht : Nat) (fp : Val)
    (hold : env.vars "old_node" = some (.ptr (.obj y.old))) (hnew : env.vars "new_node" = some (.ptr (.obj y.node)))
    (hht : env.vars "ht" = some (.ptr (.obj ht))) (hsz : env.vars "size" = some (.int y.sz))
    (ho0 : y.old ≠ 0) (hn0 : y.node ≠ 0) (hsz1 : 1 ≤ y.sz)
    (hfp : env.priv (.field (.obj ht) "bucket_at") = some fp) (hrev : RevView rev env.priv)
    (hO : LfhtR.OracleOk rev (handover y) inp) :
    ∃ out, exec fuel replTailA env inp = .ok out ∧
      ∃ ls', lrunR rev (handover y) (out.events.map LfhtR.absEv) = some ls' ∧
        (out.ctl = .blocked ∨ out.ctl = .fuel ∨
          (out.ctl = .normal ∧ out.env.priv = env.priv ∧ out.env.vars "old_node" = some (.ptr (.obj y.old)) ∧
            ls'.pend = .none ∧ ls'.x.pc = .rAssert ∧ ls'.x.old = y.old ∧ ls'.x.node = y.node)) :=
  repl_tailA fuel rev env inp y ht fp hold hnew hht hsz ho0 hn0 hsz1 hfp hrev hO

/-- part B of the tail: the assertion load (`ldAssertR`) and `return 0` -/
theorem _cds_lfht_replace_tail_assert_refines (fuel : Nat) (rev : Nat → Nat) (env : Env) (inp : List Val) (x : Thr)
    (o0 : Lfht.Conc.Out)
    (hold : env.vars "old_node" = some (.ptr (.obj x.old))) (hpc : x.pc = .rAssert) (hA : AssertOk inp) :
    ∃ out, exec fuel replTailB env inp = .ok out ∧
      ∃ ls', lrunR rev { x := x, pend := .none, out := o0 } (out.events.map LfhtR.absEv) = some ls' ∧
        (out.ctl = .blocked ∨
          (out.ctl = .ret (some (.int 0)) ∧ out.env.priv = env.priv ∧ out.events.length = 1 ∧ ls' = lassertR x)) :=
  repl_tailB fuel rev env inp x o0 hold hpc hA

/-- the whole tail of `_cds_lfht_replace` after the cmpxchg loop -/
theorem _cds_lfht_replace_tail_refines (fuel : Nat) (rev : Nat → Nat) (env : Env) (inp : List Val) (y : Thr)
    (ht : Nat) (fp : Val)
    (hold : env.vars "old_node" = some (.ptr (.obj y.old))) (hnew : env.vars "new_node" = some (.ptr (.obj y.node)))
    (hht : env.vars "ht" = some (.ptr (.obj ht))) (hsz : env.vars "size" = some (.int y.sz))
    (ho0 : y.old ≠ 0) (hn0 : y.node ≠ 0) (hsz1 : 1 ≤ y.sz)
    (hfp : env.priv (.field (.obj ht) "bucket_at") = some fp) (hrev : RevView rev env.priv)
    (hO : LfhtR.OracleOk rev (handover y) inp)
    (hA : ∀ o, exec fuel replTailA env inp = .ok o → o.ctl = .normal → AssertOk o.inp) :
    ∃ out, exec fuel replTail env inp = .ok out ∧
      ∃ ls', lrunR rev (handover y) (out.events.map LfhtR.absEv) = some ls' ∧
        (out.ctl = .blocked ∨ out.ctl = .fuel ∨
          (out.ctl = .ret (some (.int 0)) ∧ out.env.priv = env.priv ∧
            ∃ x : Thr, x.pc = .rAssert ∧ x.old = y.old ∧ x.node = y.node ∧ ls' = lassertR x)) :=
  repl_tail fuel rev env inp y ht fp hold hnew hht hsz ho0 hn0 hsz1 hfp hrev hO hA

/-- `replTail` is the generated function from its 15th statement on; the retry loop is the 14th -/
example : seqTail 13 Gen.Src.«lfht._cds_lfht_replace» = .seq (.loop replBody) replTail := rfl
example (fuel env inp) : exec fuel replTail env inp = exec fuel (.seq replTailA replTailB) env inp :=
  replTail_eq fuel env inp

/-- `lassertR` is L2's `ldAssertR` (`LfhtP.lstepR` at `rAssert`; projection lemma `LfhtP.proj_stepR`) -/
example (rev : Nat → Nat) (x : Thr) (o0 : Lfht.Conc.Out) (w : W) (mo : Int) (h : x.pc = .rAssert) :
    lstepR rev { x := x, pend := .none, out := o0 } (.ldNext x.old w mo) = some (lassertR x) := by
  cases hop : x.op <;> simp [lstepR, LfhtL.lstep, h, lassertR, hop]

#check @LfhtP.proj_stepR

theorem cds_lfht_replace_refines_einval_hash (fuel : Nat) (env : Env) (rest : List Val) (hs h ro : Int) (N it O : Nat)
    (hhash : env.vars "hash" = some (.int hs)) (hnn : env.vars "new_node" = some (.ptr (.obj N)))
    (hoi : env.vars "old_iter" = some (.ptr (.obj it)))
    (hin : env.priv (.field (.obj it) "node") = some (.ptr (.obj O)))
    (hro : env.priv (.field (.obj O) "reverse_hash") = some (.int ro)) (hne : ro ≠ h) (hON : O ≠ N) :
    ∃ out, exec fuel Gen.Src.«lfht.cds_lfht_replace» env (.int h :: rest) = .ok out ∧
      out.events = [.ext "bit_reverse_ulong" [.int hs] (.int h)] ∧ out.ctl = .ret (some (.int (-22))) ∧
      out.inp = rest :=
  replace_wrapper_einval_hash fuel env rest hs h ro N it O hhash hnn hoi hin hro hne hON

theorem cds_lfht_replace_refines_einval_key (fuel : Nat) (env : Env) (rest : List Val) (hs h : Int) (N it O : Nat)
    (kv : Val)
    (hhash : env.vars "hash" = some (.int hs)) (hnn : env.vars "new_node" = some (.ptr (.obj N)))
    (hoi : env.vars "old_iter" = some (.ptr (.obj it))) (hkey : env.vars "key" = some kv)
    (hin : env.priv (.field (.obj it) "node") = some (.ptr (.obj O)))
    (hro : env.priv (.field (.obj O) "reverse_hash") = some (.int h)) (hON : O ≠ N) :
    ∃ out, exec fuel Gen.Src.«lfht.cds_lfht_replace» env (.int h :: .int 0 :: rest) = .ok out ∧
      out.events = [.ext "bit_reverse_ulong" [.int hs] (.int h), .ext "match" [.ptr (.obj O), kv] (.int 0)] ∧
      out.ctl = .ret (some (.int (-22))) ∧ out.inp = rest :=
  replace_wrapper_einval_key fuel env rest hs h N it O kv hhash hnn hoi hkey hin hro hON

theorem cds_lfht_replace_refines_enoent (fuel : Nat) (env : Env) (rest : List Val) (hs h : Int) (N it : Nat)
    (hhash : env.vars "hash" = some (.int hs)) (hnn : env.vars "new_node" = some (.ptr (.obj N)))
    (hoi : env.vars "old_iter" = some (.ptr (.obj it)))
    (hin : env.priv (.field (.obj it) "node") = some (.int 0)) :
    ∃ out, exec fuel Gen.Src.«lfht.cds_lfht_replace» env (.int h :: rest) = .ok out ∧
      out.events = [.ext "bit_reverse_ulong" [.int hs] (.int h)] ∧ out.ctl = .ret (some (.int (-2))) ∧
      out.inp = rest :=
  replace_wrapper_enoent fuel env rest hs h N it hhash hnn hoi hin
end repl

-- ==========================================================================================================
-- non-vacuity
-- ==========================================================================================================
section nonvac
open UrcuVerif.Src.LfhtW UrcuVerif.Src.LfhtWR

/-- the walk of `_cds_lfht_add(…, node 7, unique)` from `cur = 5` (`reverse_hash` of node n is n, bound `rh = 7`):
`5->next = END`, `match(5, key)` returns 1, the assertion load reads `END`: three events, the oracle is admissible -/
def dupX : Thr := { wk := .dupAdd, rh := 7, ky := 3, mode := .uniq, node := 7, op := .add }

example : OracleK (fun ls _ => ls.x.pc = .idle ∧ ls.out = .node 5) (fun n => n) (ofPair (lwalkPos (fun n => n) dupX 5))
    [encW { ptr := 0 }, .int 1, encW { ptr := 0 }] := by
  simp [OracleK, LfhtWR.active, LfhtWR.obsLabel, LfhtW.lstep, lwalkPos, lwalkRet, ofPair, dupX, needsMatch,
    foundNoMatch]

def dupPriv : Loc → Option Val
  | .field (.obj n) f => if f = "reverse_hash" then some (.int n)
      else if n = 50 ∧ f = "node" then some (.ptr (.obj 7)) else if n = 50 ∧ f = "next" then some (.ptr (.obj 5)) else none
  | _ => none
def dupEnv : Env :=
  { vars := fun y => if y = "iter" then some (.ptr (.obj 50)) else if y = "key" then some (.int 3)
      else if y = "ht" then some (.int 0) else if y = "match" then some (.int 0) else none,
    priv := dupPriv }

set_option maxRecDepth 8192 in
/-- the concrete run: 3 events (`ldWalk` = load + `match`, `ldAssertW`), returns, `d_iter.node = 5` -/
example : ∃ out, exec 3 Gen.Src.«lfht.cds_lfht_next_duplicate» dupEnv [.int 0, .int 1, .int 0] = .ok out ∧
    out.events = [.ld (.field (.obj 5) "next") (.int 0) 1, .ext "match" [.ptr (.obj 5), .int 3] (.int 1),
                  .ld (.field (.obj 5) "next") (.int 0) 0] ∧
    out.ctl = .normal ∧ out.env.priv (.field (.obj 50) "node") = some (.ptr (.obj 5)) := by
  lexec [Gen.Src.«lfht.cds_lfht_next_duplicate», exec_call, dupEnv, dupPriv, iterate, Gen.Src.«lfht.is_end»,
    Gen.Src.«lfht.clear_flag», Gen.Src.«lfht.is_removed», Gen.Src.«lfht.is_bucket», evalBin, Loc.tagOf, Loc.withTag,
    Loc.untag]
end nonvac

/-- the assertion load of `_cds_lfht_replace` on a concrete oracle: one event, returns 0; with the gc pass before it the
tail has ≥ 4 events (`bit_reverse_ulong`, `bucket_at`, `ldHeadG`, `ldAssertR`) -/
example : LfhtP.AssertOk [encW { ptr := 7, rem := true, own := true }] := ⟨_, decW_encW _, rfl⟩

end UrcuVerif.Props.SrcLfht4
