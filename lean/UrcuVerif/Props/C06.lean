import UrcuVerif.Lfht.Conc.C06Thms
import UrcuVerif.Lfht.Conc.Mark3
import UrcuVerif.Lfht.Conc.OneWinner
import UrcuVerif.Props.C05
/-!
# C06 — hash table: unique adds never expose duplicate keys; replace is atomic
(statements and final theorems; helper lemmas in `Lfht/Conc/Inv*.lean`, `Vis.lean`, `C06Thms.lean`, `InvK*.lean`,
`Mark*.lean`, `OneWinner.lean`)

Model and quantifiers as in `Props/C05.lean` / `Props/C07.lean`.

Proved for ALL reachable states (`C06_full_holds`):
* the floor of DESIGN §4 C06: `replace_atomic`, `unique_inserts_at_run_head`, `replace_single_owner`, and (from
  `replace_atomic` + the visible-set theorem of C05) `replace_keeps_key_visible`;
* `uniq_in_L` — under the usage restriction of C06 on a key (only `add_unique` / `add_replace` / `replace`, always the
  same hash) at most one visible node carries it.  Invariant (layer K, *scan coverage*): while an adder scans the run
  of equal reversed hashes, and from the end of the scan to its insertion CAS, every visible node with the key that
  is reachable from the run head it recorded is still ahead of the scan; concurrent unique inserts go in front of
  that head, replacements right behind the visible node they replace — so a CAS that still finds the recorded
  head inserts the only visible node with the key;
* `no_two_visible` — inside one read-side section a traversal (lookup + `next_duplicate`s, `first`/`next`s, with
  `del` / `replace` / adds of the same thread in between) is never handed two nodes with such a key;
* `one_winner` — what `add_unique` returns instead of its own node was visible, with the key, during the call.
-/
namespace UrcuVerif.Lfht.Conc
open UrcuVerif

/-- **replace_atomic** -/
def ReplaceAtomic : Prop :=
  ∀ c s s' t o, Current c → Reach c s → step c s t .casRepl = some (s', o) →
    s.nxt (s.th t).old = (s.th t).oldnx → okp s (s.th t).old = true →
    (s.nxt (s.th t).old).rem = false ∧ s'.nxt (s.th t).old = { ptr := (s.th t).node, rem := true, own := true } ∧
    nxp s' (s.th t).node = nxp s (s.th t).old ∧ s'.L = insAfter (s.th t).old (s.th t).node s.L ∧
    s.key (s.th t).node = s.key (s.th t).old ∧ s.rev (s.th t).node = s.rev (s.th t).old ∧
    vis s (s.th t).old ∧ ¬ vis s (s.th t).node ∧ vis s' (s.th t).node ∧ ¬ vis s' (s.th t).old ∧
    (∀ p, vis s' p ↔ (p = (s.th t).node ∨ (p ≠ (s.th t).old ∧ vis s p))) ∧ s'.wins (s.th t).old = 1

/-- consequence for readers: across the replace step the number of visible nodes with the replaced key does
not change — a key that is present stays present (never "neither", never "both") -/
def ReplaceKeepsKeyVisible : Prop :=
  ∀ c s s' t o, Current c → Reach c s → step c s t .casRepl = some (s', o) →
    s.nxt (s.th t).old = (s.th t).oldnx → okp s (s.th t).old = true →
    ∀ k, (∃ p, vis s' p ∧ s.key p = k) ↔ (∃ p, vis s p ∧ s.key p = k)

/-- **unique_inserts_at_run_head** -/
def UniqueInsertsAtRunHead : Prop :=
  ∀ c s s' t o, Current c → Reach c s → step c s t .casIns = some (s', o) →
    ((s.th t).mode = .uniq ∨ (s.th t).mode = .repl) →
    s.rev (s.th t).prev < s.rev (s.th t).node ∨ (s.rev (s.th t).prev = s.rev (s.th t).node ∧ s.isB (s.th t).prev = true)

/-- **replace_single_owner**: along any execution each replaced (or deleted) node is handed to at most one
caller, and the caller that gets it is the one whose CAS / xchg decided it -/
def ReplaceSingleOwner : Prop := SingleOwnerRun

/-- only `add_unique` / `add_replace` insert key `k`, always with hash `hk` -/
def AllowedU (k hk : Nat) : Label → Prop
  | .callAdd m _ h k' => k' = k → (m ≠ .plain ∧ h = hk)
  | .callReplace _ h k' => k' = k → h = hk
  | _ => True

/-- reachable with the usage restriction of C06 on key `k` -/
inductive ReachU (c : Cfg) (k hk : Nat) : State → Prop
  | init : ReachU c k hk init
  | step {s s' t l o} : ReachU c k hk s → step c s t l = some (s', o) → AllowedU k hk l → ReachU c k hk s'

/-- **uniq_in_L**: `L` never holds two visible nodes with a unique-only key -/
def UniqInL : Prop :=
  ∀ c k hk s, Current c → ReachU c k hk s → ∀ p q, vis s p → vis s q → s.key p = k → s.key q = k → p = q

/-- **no_two_visible**: a traversal inside one read-side section — `cds_lfht_lookup` / `cds_lfht_first`, then any
number of `cds_lfht_next_duplicate` / `cds_lfht_next` (and `del` / `replace` / adds by the same thread) — is never
handed two different nodes with a unique-only key.  On executions: `mid` starts with an event of `t` that hands out
`p` and ends with one that hands out `q`; in between `t` neither leaves the read-side section nor starts a new
traversal (`Restart` = `runlock`, `callLookup`, `callFirst`). -/
def NoTwoVisible : Prop :=
  ∀ c k hk evs s1 t p q w1 w2 pre mid post e1 e2, Current c → Exec c init evs s1 →
    (∀ e, e ∈ evs → AllowedU k hk e.2.2.1) → evs = pre ++ mid ++ post →
    mid.head? = some e1 → e1.2.1 = t → e1.2.2.2 = .iter p w1 →
    mid.getLast? = some e2 → e2.2.1 = t → e2.2.2.2 = .iter q w2 →
    (∀ e, e ∈ mid → e.2.1 = t → ¬ Restart e.2.2.1) →
    p ≠ 0 → q ≠ 0 → e1.1.key p = k → e2.1.key q = k → p = q

/-- **one_winner**: an `add_unique` that returns another node returns a node with its key that was visible at some
instant during the call (`evs` = the call: it starts with the `callAdd` of `t`, all later events of `t` belong to
this add, the last event is `t`'s return) -/
def OneWinner : Prop :=
  ∀ c s0 evs s1 t n h k q, Current c → Reach c s0 → Exec c s0 evs s1 →
    (∃ e rest, evs = e :: rest ∧ e.2.1 = t ∧ e.2.2.1 = .callAdd .uniq n h k ∧
      ∀ e', e' ∈ rest → e'.2.1 = t → (e'.1.th t).op = .add) →
    (∃ e, evs.getLast? = some e ∧ e.2.1 = t ∧ e.2.2.2 = .node q) → q ≠ n →
    ∃ e, e ∈ evs ∧ vis e.1 q ∧ e.1.key q = k

/-- C06 at full strength (on the model) -/
def C06_full : Prop :=
  ReplaceAtomic ∧ ReplaceKeepsKeyVisible ∧ UniqueInsertsAtRunHead ∧ ReplaceSingleOwner ∧ UniqInL ∧ NoTwoVisible ∧ OneWinner

/-- the conjuncts of the floor (kept for the record; all of `C06_full` is proved below) -/
def C06_partial : Prop := ReplaceAtomic ∧ ReplaceKeepsKeyVisible ∧ UniqueInsertsAtRunHead ∧ ReplaceSingleOwner

theorem replace_atomic : ReplaceAtomic := by
  intro c s s' t o hc r st h1 h2; exact replace_atomic_step hc r st h1 h2

theorem replace_keeps_key_visible : ReplaceKeepsKeyVisible := by
  intro c s s' t o hc r st h1 h2 k
  obtain ⟨_, _, _, _, hk, _, vo, _, vn, _, hv, _⟩ := replace_atomic_step hc r st h1 h2
  constructor
  · rintro ⟨p, hp, hkp⟩
    rcases (hv p).mp hp with rfl | ⟨_, h⟩
    · exact ⟨(s.th t).old, vo, by rw [← hk]; exact hkp⟩
    · exact ⟨p, h, hkp⟩
  · rintro ⟨p, hp, hkp⟩
    by_cases e : p = (s.th t).old
    · subst e; exact ⟨(s.th t).node, vn, by rw [hk]; exact hkp⟩
    · exact ⟨p, (hv p).mpr (.inr ⟨e, hp⟩), hkp⟩

theorem unique_inserts_at_run_head : UniqueInsertsAtRunHead := by
  intro c s s' t o hc r st hm; exact unique_inserts_at_run_head_step hc r st hm

theorem replace_single_owner : ReplaceSingleOwner := single_owner_run

theorem C06_partial_holds : C06_partial :=
  ⟨replace_atomic, replace_keeps_key_visible, unique_inserts_at_run_head, replace_single_owner⟩

theorem allowedU_uniqUse {k hk l} (h : AllowedU k hk l) : UniqUse k hk l := by cases l <;> exact h

/-- the restricted runs are runs, and layer K holds along them -/
theorem reachU_inv {c k hk s} (hc : Current c) (r : ReachU c k hk s) : Reach c s ∧ InvK k hk s := by
  induction r with
  | init => exact ⟨.init, invK_init⟩
  | step _ st ha ih => exact ⟨.step ih.1 st, invK_step hc ih.1 ih.2 st (allowedU_uniqUse ha)⟩

theorem uniq_in_L : UniqInL := by
  intro c k hk s hc r p q hp hq kp kq; exact (reachU_inv hc r).2.g.2 p q hp hq kp kq

theorem no_two_visible : NoTwoVisible := by
  intro c k hk evs s1 t p q w1 w2 pre mid post e1 e2 hc ex hU hs h1 t1 o1 h2 t2 o2 hno p0 q0 kp kq
  exact no_two_exec hc ex (fun e he => allowedU_uniqUse (hU e he)) hs h1 t1 o1 h2 t2 o2 hno p0 q0 kp kq

theorem one_winner : OneWinner := by
  intro c s0 evs s1 t n h k q hc r ex hcall hlast hqn; exact one_winner_exec hc r ex hcall hlast hqn

theorem C06_full_holds : C06_full :=
  ⟨replace_atomic, replace_keeps_key_visible, unique_inserts_at_run_head, replace_single_owner, uniq_in_L, no_two_visible,
    one_winner⟩

/-! ## Non-vacuity: `add_replace` of a present key, suspended at its CAS, then completed -/

/-- T0 adds node 5 (hash 3, key 30); T1 `add_replace`s node 7 with the same hash and key: scans the run, finds 5,
reaches the replace CAS -/
def replRun : List (Nat × Label) :=
  [(0, .rlock), (0, .callAdd .plain 5 3 30), (0, .ldSize), (0, .ldHeadA), (0, .casIns),
   (1, .rlock), (1, .callAdd .repl 7 3 30), (1, .ldSize), (1, .ldHeadA), (1, .ldNextA), (1, .ldWalk), (1, .ldAssertW)]

example : (run c2 init replRun).map (fun s => ((s.th 1).pc, (s.th 1).old, (s.th 1).node, s.L, s.nxt 5)) =
    some (.rCas, 5, 7, [1, 5], {}) := by decide

/-- the hypotheses of `replace_atomic` are met -/
example : ∃ s, Reach c2 s ∧ (s.th 1).pc = .rCas ∧ s.nxt (s.th 1).old = (s.th 1).oldnx ∧ okp s (s.th 1).old = true :=
  ⟨(run c2 init replRun).get (by decide), run_reach .init (Option.some_get _).symm, by decide, by decide, by decide⟩

/-- after the CAS: 7 is linked behind 5, 5 carries `7 | REMOVED | REMOVAL_OWNER`; after the unlink and the
return, `add_replace` hands 5 to its caller -/
example : (runOut c2 init (replRun ++ [(1, .casRepl), (1, .ldHeadG), (1, .ldNextG), (1, .casGc), (1, .ldHeadG),
      (1, .ldNextG), (1, .ldAssertR)])).map (fun x => (x.1.L, x.1.nxt 5, x.1.wins 5, x.2.getLast?)) =
    some ([1, 7], { ptr := 7, rem := true, own := true }, 1, some (.node 5)) := by decide

/-- `add_unique` of the present key returns the existing node instead of inserting -/
example : (runOut c2 init ([(0, .rlock), (0, .callAdd .plain 5 3 30), (0, .ldSize), (0, .ldHeadA), (0, .casIns),
      (1, .rlock), (1, .callAdd .uniq 7 3 30), (1, .ldSize), (1, .ldHeadA), (1, .ldNextA), (1, .ldWalk), (1, .ldAssertW)])).map
      (fun x => (x.1.L, x.2.getLast?)) = some ([1, 5], some (.node 5)) := by decide

/-! ## Non-vacuity of `uniq_in_L` / `one_winner` / `no_two_visible` -/

theorem run_reachU {c k hk s sch s'} (r : ReachU c k hk s) (h : run c s sch = some s')
    (ha : ∀ e, e ∈ sch → AllowedU k hk e.2) : ReachU c k hk s' := by
  induction sch generalizing s with
  | nil => simp [run] at h; exact h ▸ r
  | cons a sch ih =>
    obtain ⟨t, l⟩ := a
    simp only [run] at h
    split at h
    · next s1 o e => exact ih (.step r e (ha (t, l) List.mem_cons_self)) h (fun e he => ha e (List.mem_cons_of_mem _ he))
    · cases h

/-- T0 and T1 race to `add_unique` key 30 (hash 3): both reach the insertion CAS on the bucket with the same
expected value; T0 wins, T1's CAS fails, T1 rescans, finds 5 and returns it -/
def raceU : List (Nat × Label) :=
  [(0, .rlock), (1, .rlock), (0, .callAdd .uniq 5 3 30), (1, .callAdd .uniq 7 3 30),
   (0, .ldSize), (1, .ldSize), (0, .ldHeadA), (1, .ldHeadA), (0, .casIns), (1, .casIns),
   (1, .ldHeadA), (1, .ldNextA), (1, .ldWalk), (1, .ldAssertW)]

example : (runOut c2 init (raceU.take 8)).map (fun x => ((x.1.th 0).pc, (x.1.th 1).pc, x.1.L)) =
    some (.aCas, .aCas, [1]) := by decide

example : (runOut c2 init raceU).map (fun x => (x.1.L, x.2.drop 8)) =
    some ([1, 5], [.node 5, .unit, .unit, .unit, .unit, .node 5]) := by decide

/-- the run respects the usage restriction on key 30, so `uniq_in_L` applies to its states -/
example : ∃ s, ReachU c2 30 3 s ∧ vis s 5 ∧ s.key 5 = 30 ∧ (s.th 1).pc = .aCas ∧ s.key (s.th 1).node = 30 :=
  ⟨(run c2 init (raceU.take 9)).get (by decide),
   run_reachU .init (Option.some_get _).symm (by simp [raceU, AllowedU]), ⟨by decide, by decide, by decide⟩, by decide,
   by decide, by decide⟩

/-- a reader finds 5; `add_replace` swaps 7 in for 5; the reader's `next_duplicate` does not hand out 7 -/
def walkRepl : List (Nat × Label) :=
  [(0, .rlock), (0, .callAdd .uniq 5 3 30), (0, .ldSize), (0, .ldHeadA), (0, .casIns),
   (1, .rlock), (1, .callLookup 3 30), (1, .ldSize), (1, .ldHeadL), (1, .ldWalk), (1, .ldAssertW),
   (0, .callAdd .repl 7 3 30), (0, .ldSize), (0, .ldHeadA), (0, .ldNextA), (0, .ldWalk), (0, .ldAssertW), (0, .casRepl),
   (1, .callDup 30)]

example : (runOut c2 init walkRepl).map (fun x => (x.1.L, x.1.nxt 5, x.2.drop 10)) =
    some ([1, 5, 7], { ptr := 7, rem := true, own := true },
      [.iter 5 {}, .unit, .unit, .unit, .unit, .unit, .unit, .unit, .iter 0 {}]) := by decide

end UrcuVerif.Lfht.Conc
