import UrcuVerif.Lfht.Conc.C06Thms
import UrcuVerif.Props.C05
/-!
# C06 — hash table: unique adds never expose duplicate keys; replace is atomic
(statements and final theorems; helper lemmas in `Lfht/Conc/Inv*.lean`, `Vis.lean`, `C06Thms.lean`)

Model and quantifiers as in `Props/C05.lean` / `Props/C07.lean`.

Proved for ALL reachable states — the floor of DESIGN §4 C06: `replace_atomic`, `unique_inserts_at_run_head`,
`replace_single_owner`, and (from `replace_atomic` + the visible-set theorem of C05) `replace_keeps_key_visible`.
The targets `uniq_in_L`, `no_two_visible`, `one_winner` are stated in `C06_full`.
-/
namespace UrcuVerif.Lfht.Conc
open UrcuVerif

/-- **replace_atomic** -/
def ReplaceAtomic : Prop :=
  ∀ c s s' t o, Current c → Reach c s → step c s t .casRepl = some (s', o) →
    s.nxt (s.th t).old = (s.th t).oldnx → okp s (s.th t).old = true →
    (s.nxt (s.th t).old).rem = false ∧ s'.nxt (s.th t).old = { ptr := (s.th t).node, rem := true, own := true } ∧
    nxp s' (s.th t).node = nxp s (s.th t).old ∧ s'.L = insAfter (s.th t).old (s.th t).node s.L ∧
    s.key (s.th t).node = s.key (s.th t).old ∧ s.rev (s.th t).node = s.rev (s.th t).old ∧
    vis s (s.th t).old ∧ ¬ vis s (s.th t).node ∧ vis s' (s.th t).node ∧ ¬ vis s' (s.th t).old ∧
    (∀ p, vis s' p ↔ (p = (s.th t).node ∨ (p ≠ (s.th t).old ∧ vis s p))) ∧ s'.wins (s.th t).old = 1

/-- consequence for readers: across the replace step the number of visible nodes with the replaced key does
not change — a key that is present stays present (never "neither", never "both") -/
def ReplaceKeepsKeyVisible : Prop :=
  ∀ c s s' t o, Current c → Reach c s → step c s t .casRepl = some (s', o) →
    s.nxt (s.th t).old = (s.th t).oldnx → okp s (s.th t).old = true →
    ∀ k, (∃ p, vis s' p ∧ s.key p = k) ↔ (∃ p, vis s p ∧ s.key p = k)

/-- **unique_inserts_at_run_head** -/
def UniqueInsertsAtRunHead : Prop :=
  ∀ c s s' t o, Current c → Reach c s → step c s t .casIns = some (s', o) →
    ((s.th t).mode = .uniq ∨ (s.th t).mode = .repl) →
    s.rev (s.th t).prev < s.rev (s.th t).node ∨ (s.rev (s.th t).prev = s.rev (s.th t).node ∧ s.isB (s.th t).prev = true)

/-- **replace_single_owner**: along any execution each replaced (or deleted) node is handed to at most one
caller, and the caller that gets it is the one whose CAS / xchg decided it -/
def ReplaceSingleOwner : Prop := SingleOwnerRun

/-- only `add_unique` / `add_replace` insert key `k`, always with hash `hk` -/
def AllowedU (k hk : Nat) : Label → Prop
  | .callAdd m _ h k' => k' = k → (m ≠ .plain ∧ h = hk)
  | .callReplace _ h k' => k' = k → h = hk
  | _ => True

/-- reachable with the usage restriction of C06 on key `k` -/
inductive ReachU (c : Cfg) (k hk : Nat) : State → Prop
  | init : ReachU c k hk init
  | step {s s' t l o} : ReachU c k hk s → step c s t l = some (s', o) → AllowedU k hk l → ReachU c k hk s'

/-- **uniq_in_L** (target): `L` never holds two visible nodes with a unique-only key -/
def UniqInL : Prop :=
  ∀ c k hk s, Current c → ReachU c k hk s → ∀ p q, vis s p → vis s q → s.key p = k → s.key q = k → p = q

/-- **no_two_visible** (target): a walk — lookup + `next_duplicate`s, or `first`/`next`s inside one read-side
section — never returns two nodes with a unique-only key.  On executions: two `iter` outputs of the same thread
with key `k`, without an `runlock` of that thread in between, are the same node. -/
def NoTwoVisible : Prop :=
  ∀ c k hk evs s1 t p q w1 w2 pre mid post, Current c → Exec c init evs s1 →
    (∀ e, e ∈ evs → AllowedU k hk e.2.2.1) →
    evs = pre ++ mid ++ post →
    (∃ e, mid.head? = some e ∧ e.2.1 = t ∧ e.2.2.2 = .iter p w1) →
    (∃ e, mid.getLast? = some e ∧ e.2.1 = t ∧ e.2.2.2 = .iter q w2) →
    (∀ e, e ∈ mid → e.2.1 = t → e.2.2.1 ≠ .runlock ∧ e.2.2.1 ≠ .callLookup (e.1.th t).hs (e.1.th t).ky) →
    p ≠ 0 → q ≠ 0 → s1.key p = k → s1.key q = k → p = q

/-- **one_winner** (target): an `add_unique` that returns another node returns a node with its key that was
visible at some instant during the call -/
def OneWinner : Prop :=
  ∀ c s0 evs s1 t n h k q, Current c → Reach c s0 → Exec c s0 evs s1 →
    (∃ e rest, evs = e :: rest ∧ e.2.1 = t ∧ e.2.2.1 = .callAdd .uniq n h k) →
    (∃ e, evs.getLast? = some e ∧ e.2.1 = t ∧ e.2.2.2 = .node q) → q ≠ n →
    ∃ e, e ∈ evs ∧ vis e.1 q ∧ e.1.key q = k

/-- C06 at full strength (on the model) -/
def C06_full : Prop :=
  ReplaceAtomic ∧ ReplaceKeepsKeyVisible ∧ UniqueInsertsAtRunHead ∧ ReplaceSingleOwner ∧ UniqInL ∧ NoTwoVisible ∧ OneWinner

/-- the conjuncts proved so far -/
def C06_partial : Prop := ReplaceAtomic ∧ ReplaceKeepsKeyVisible ∧ UniqueInsertsAtRunHead ∧ ReplaceSingleOwner

theorem replace_atomic : ReplaceAtomic := by
  intro c s s' t o hc r st h1 h2; exact replace_atomic_step hc r st h1 h2

theorem replace_keeps_key_visible : ReplaceKeepsKeyVisible := by
  intro c s s' t o hc r st h1 h2 k
  obtain ⟨_, _, _, _, hk, _, vo, _, vn, _, hv, _⟩ := replace_atomic_step hc r st h1 h2
  constructor
  · rintro ⟨p, hp, hkp⟩
    rcases (hv p).mp hp with rfl | ⟨_, h⟩
    · exact ⟨(s.th t).old, vo, by rw [← hk]; exact hkp⟩
    · exact ⟨p, h, hkp⟩
  · rintro ⟨p, hp, hkp⟩
    by_cases e : p = (s.th t).old
    · subst e; exact ⟨(s.th t).node, vn, by rw [hk]; exact hkp⟩
    · exact ⟨p, (hv p).mpr (.inr ⟨e, hp⟩), hkp⟩

theorem unique_inserts_at_run_head : UniqueInsertsAtRunHead := by
  intro c s s' t o hc r st hm; exact unique_inserts_at_run_head_step hc r st hm

theorem replace_single_owner : ReplaceSingleOwner := single_owner_run

theorem C06_partial_holds : C06_partial :=
  ⟨replace_atomic, replace_keeps_key_visible, unique_inserts_at_run_head, replace_single_owner⟩

/-! ## Non-vacuity: `add_replace` of a present key, suspended at its CAS, then completed -/

/-- T0 adds node 5 (hash 3, key 30); T1 `add_replace`s node 7 with the same hash and key: scans the run, finds 5,
reaches the replace CAS -/
def replRun : List (Nat × Label) :=
  [(0, .rlock), (0, .callAdd .plain 5 3 30), (0, .ldSize), (0, .ldHeadA), (0, .casIns),
   (1, .rlock), (1, .callAdd .repl 7 3 30), (1, .ldSize), (1, .ldHeadA), (1, .ldNextA), (1, .ldWalk), (1, .ldAssertW)]

example : (run c2 init replRun).map (fun s => ((s.th 1).pc, (s.th 1).old, (s.th 1).node, s.L, s.nxt 5)) =
    some (.rCas, 5, 7, [1, 5], {}) := by decide

/-- the hypotheses of `replace_atomic` are met -/
example : ∃ s, Reach c2 s ∧ (s.th 1).pc = .rCas ∧ s.nxt (s.th 1).old = (s.th 1).oldnx ∧ okp s (s.th 1).old = true :=
  ⟨(run c2 init replRun).get (by decide), run_reach .init (Option.some_get _).symm, by decide, by decide, by decide⟩

/-- after the CAS: 7 is linked behind 5, 5 carries `7 | REMOVED | REMOVAL_OWNER`; after the unlink and the
return, `add_replace` hands 5 to its caller -/
example : (runOut c2 init (replRun ++ [(1, .casRepl), (1, .ldHeadG), (1, .ldNextG), (1, .casGc), (1, .ldHeadG),
      (1, .ldNextG), (1, .ldAssertR)])).map (fun x => (x.1.L, x.1.nxt 5, x.1.wins 5, x.2.getLast?)) =
    some ([1, 7], { ptr := 7, rem := true, own := true }, 1, some (.node 5)) := by decide

/-- `add_unique` of the present key returns the existing node instead of inserting -/
example : (runOut c2 init ([(0, .rlock), (0, .callAdd .plain 5 3 30), (0, .ldSize), (0, .ldHeadA), (0, .casIns),
      (1, .rlock), (1, .callAdd .uniq 7 3 30), (1, .ldSize), (1, .ldHeadA), (1, .ldNextA), (1, .ldWalk), (1, .ldAssertW)])).map
      (fun x => (x.1.L, x.2.getLast?)) = some ([1, 5], some (.node 5)) := by decide

end UrcuVerif.Lfht.Conc
