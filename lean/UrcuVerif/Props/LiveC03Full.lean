import UrcuVerif.Props.C03
/-!
# `C03_full` as formulated in `Props/C03.lean` is FALSE (machine-checked counterexample)

`C03_full` assumes *weak* fairness per thread (`Fair`).  Weak fairness does not get a thread through
`call_rcu_mutex`: a thread blocked in `pthread_mutex_lock` is enabled only while the mutex is free, and other threads
may take and release it for ever.  Concretely (2 user threads): thread 0 calls `call_rcu(7)`; there is no helper yet, so
it goes to `get_default_call_rcu_data()` and blocks on the mutex (`gdLock`); thread 1 calls `alloc_cpu_call_rcu_data()`
over and over (`opCall`, `opLock`, `opDo`, `opUnlock`).  Every clause of `Fair` holds (thread 0 is not *continuously*
enabled), yet callback 7 is never even enqueued.  This is a defect of the *statement* (it needs strong fairness for
lock acquisitions / a fair mutex – which POSIX mutexes do not promise either), not of the code; the liveness theorems
of `Props/LiveC03.lean` therefore start at "queued" and take their assumptions as explicit hypotheses.
-/
set_option linter.unusedSimpArgs false
set_option linter.unusedVariables false
namespace UrcuVerif.CallRcu
open UrcuVerif

namespace Cex

def c : Cfg := { n := 2, ncpu := 0 }

def lab : Nat → Label
  | 0 => .crCall 0 7
  | 1 => .crSelNoCpu 0 0
  | 2 => .gdLd 0
  | n + 3 => if n % 4 = 0 then .opCall 1 .allocArr else if n % 4 = 1 then .opLock 1 else if n % 4 = 2 then .opDo 1
    else .opUnlock 1

def st : Nat → State
  | 0 => init
  | i + 1 => match step c (st i) (lab i) with
    | some s => s
    | none => st i

/-- what holds at every position of the run -/
structure G (s : State) : Prop where
  hnone : ∀ h, s.hpc h = .none
  idle : ∀ t, 2 ≤ t → s.tpc t = .idle
  nest : ∀ t, t ≠ 0 → s.nest t = 0
  nest0 : s.tpc 0 = .idle → s.nest 0 = 0
  pause : ∀ x, s.pause x = false
  fin7 : s.fin 7 = false

/-- thread 0 is blocked on the mutex, thread 1 is at `p1`, the mutex is `m` -/
structure J (p1 : TPc) (m : Option Nat) (s : State) : Prop where
  g : G s
  t0 : s.tpc 0 = .gdLock (.call 7)
  t1 : s.tpc 1 = p1
  mtx : s.mutex = m
  reg7 : s.reg 7 = true

theorem userCtx1 (s : State) : userCtx c s 1 = true := by simp [userCtx, c]

theorem j_step0 {s : State} (h : J .idle none s) :
    ∃ s', step c s (.opCall 1 .allocArr) = some s' ∧ J (.opLock .allocArr) none s' := by
  obtain ⟨⟨g1, g2, g3, g4, g5, g6⟩, t0, t1, mtx, r7⟩ := h
  cases hst : step c s (.opCall 1 .allocArr) with
  | none => simp [step, userCtx1, t1, OpObl] at hst
  | some s' =>
    refine ⟨s', rfl, ?_⟩
    simp only [step, userCtx1, t1, OpObl, and_self, ↓reduceIte, Option.some.injEq] at hst
    subst hst
    constructor <;> (try constructor) <;> simp_all [upd] <;> grind

theorem j_step1 {s : State} (h : J (.opLock .allocArr) none s) :
    ∃ s', step c s (.opLock 1) = some s' ∧ J (.opDo .allocArr) (some 1) s' := by
  obtain ⟨⟨g1, g2, g3, g4, g5, g6⟩, t0, t1, mtx, r7⟩ := h
  cases hst : step c s (.opLock 1) with
  | none => simp [step, t1, mtx] at hst
  | some s' =>
    refine ⟨s', rfl, ?_⟩
    simp only [step, t1, mtx, ↓reduceIte, Option.some.injEq] at hst
    subst hst
    constructor <;> (try constructor) <;> simp_all [upd] <;> grind

theorem j_step2 {s : State} (h : J (.opDo .allocArr) (some 1) s) :
    ∃ s', step c s (.opDo 1) = some s' ∧ J (.opUnlock .unit) (some 1) s' := by
  obtain ⟨⟨g1, g2, g3, g4, g5, g6⟩, t0, t1, mtx, r7⟩ := h
  cases hst : step c s (.opDo 1) with
  | none => simp [step, t1] at hst
  | some s' =>
    refine ⟨s', rfl, ?_⟩
    simp only [step, t1, Option.some.injEq] at hst
    subst hst
    constructor <;> (try constructor) <;> simp_all [upd] <;> grind

theorem j_step3 {s : State} (h : J (.opUnlock .unit) (some 1) s) :
    ∃ s', step c s (.opUnlock 1) = some s' ∧ J .idle none s' := by
  obtain ⟨⟨g1, g2, g3, g4, g5, g6⟩, t0, t1, mtx, r7⟩ := h
  cases hst : step c s (.opUnlock 1) with
  | none => simp [step, t1, mtx] at hst
  | some s' =>
    refine ⟨s', rfl, ?_⟩
    simp only [step, t1, mtx, ↓reduceIte, Option.some.injEq] at hst
    subst hst
    constructor <;> (try constructor) <;> simp_all [upd] <;> grind

theorem lab0 (k : Nat) : lab (4 * k + 3) = .opCall 1 .allocArr := by simp [lab]
theorem lab1 (k : Nat) : lab (4 * k + 1 + 3) = .opLock 1 := by
  simp only [lab]; rw [if_neg (by omega), if_pos (by omega)]
theorem lab2 (k : Nat) : lab (4 * k + 2 + 3) = .opDo 1 := by
  simp only [lab]; rw [if_neg (by omega), if_neg (by omega), if_pos (by omega)]
theorem lab3 (k : Nat) : lab (4 * k + 3 + 3) = .opUnlock 1 := by
  simp only [lab]; rw [if_neg (by omega), if_neg (by omega), if_neg (by omega)]

theorem st_succ (i : Nat) {s' : State} (h : step c (st i) (lab i) = some s') : st (i + 1) = s' := by
  simp only [st, h]

theorem g0 : G (st 0) := by constructor <;> simp [st, init]

/-- the three states of the prefix, explicitly -/
def s1 : State := { lockS init 0 with tpc := upd init.tpc 0 (.sel 7), reg := upd init.reg 7 true, loc := upd init.loc 7 (.pend 0) }
def s2 : State := { s1 with tpc := upd s1.tpc 0 (.gdLd (.call 7)), clock := s1.clock + 1 }
def s3 : State := { s2 with tpc := upd s2.tpc 0 (.gdLock (.call 7)), clock := s2.clock + 1 }

theorem step0 : step c init (.crCall 0 7) = some s1 := by
  simp [step, init, userCtx, c, s1]
theorem step1 : step c s1 (.crSelNoCpu 0 0) = some s2 := by
  simp [step, s1, s2, init, lockS, upd]
theorem step2 : step c s2 (.gdLd 0) = some s3 := by
  simp [step, s1, s2, s3, init, lockS, upd]

theorem st_1 : st 1 = s1 := st_succ 0 step0
theorem st_2 : st 2 = s2 := st_succ 1 (by rw [st_1]; exact step1)
theorem st_3 : st 3 = s3 := st_succ 2 (by rw [st_2]; exact step2)

theorem g1 : G s1 := by
  constructor <;> simp [s1, init, lockS, upd] <;> grind
theorem g2 : G s2 := by
  constructor <;> simp [s2, s1, init, lockS, upd] <;> grind
theorem j3 : J .idle none s3 := by
  constructor <;> (try constructor) <;> simp [s3, s2, s1, init, lockS, upd] <;> grind

/-- the four states of round `k` of thread 1's loop -/
theorem block (k : Nat) :
    J .idle none (st (4 * k + 3)) ∧ J (.opLock .allocArr) none (st (4 * k + 1 + 3)) ∧
    J (.opDo .allocArr) (some 1) (st (4 * k + 2 + 3)) ∧ J (.opUnlock .unit) (some 1) (st (4 * k + 3 + 3)) ∧
    step c (st (4 * k + 3)) (lab (4 * k + 3)) = some (st (4 * k + 3 + 1)) ∧
    step c (st (4 * k + 1 + 3)) (lab (4 * k + 1 + 3)) = some (st (4 * k + 1 + 3 + 1)) ∧
    step c (st (4 * k + 2 + 3)) (lab (4 * k + 2 + 3)) = some (st (4 * k + 2 + 3 + 1)) ∧
    step c (st (4 * k + 3 + 3)) (lab (4 * k + 3 + 3)) = some (st (4 * k + 3 + 3 + 1)) ∧
    J .idle none (st (4 * (k + 1) + 3)) := by
  induction k with
  | zero =>
    have h0 : J .idle none (st (4 * 0 + 3)) := by rw [show 4 * 0 + 3 = 3 from rfl, st_3]; exact j3
    obtain ⟨a1, e1, h1⟩ := j_step0 h0
    rw [← lab0 0] at e1
    have q1 := st_succ _ e1
    rw [show 4 * 0 + 3 + 1 = 4 * 0 + 1 + 3 from rfl] at q1
    rw [← q1] at h1
    obtain ⟨a2, e2, h2⟩ := j_step1 h1
    rw [← lab1 0] at e2
    have q2 := st_succ _ e2
    rw [show 4 * 0 + 1 + 3 + 1 = 4 * 0 + 2 + 3 from rfl] at q2
    rw [← q2] at h2
    obtain ⟨a3, e3, h3⟩ := j_step2 h2
    rw [← lab2 0] at e3
    have q3 := st_succ _ e3
    rw [show 4 * 0 + 2 + 3 + 1 = 4 * 0 + 3 + 3 from rfl] at q3
    rw [← q3] at h3
    obtain ⟨a4, e4, h4⟩ := j_step3 h3
    rw [← lab3 0] at e4
    have q4 := st_succ _ e4
    rw [← q4] at h4
    refine ⟨h0, h1, h2, h3, ?_, ?_, ?_, ?_, h4⟩
    · rw [e1]; congr 1; exact q1.symm
    · rw [e2]; congr 1; exact q2.symm
    · rw [e3]; congr 1; exact q3.symm
    · rw [e4]; congr 1; exact q4.symm
  | succ k ih =>
    have h0 : J .idle none (st (4 * (k + 1) + 3)) := ih.2.2.2.2.2.2.2.2
    obtain ⟨a1, e1, h1⟩ := j_step0 h0
    rw [← lab0 (k + 1)] at e1
    have q1 := st_succ _ e1
    rw [show 4 * (k + 1) + 3 + 1 = 4 * (k + 1) + 1 + 3 by omega] at q1
    rw [← q1] at h1
    obtain ⟨a2, e2, h2⟩ := j_step1 h1
    rw [← lab1 (k + 1)] at e2
    have q2 := st_succ _ e2
    rw [show 4 * (k + 1) + 1 + 3 + 1 = 4 * (k + 1) + 2 + 3 by omega] at q2
    rw [← q2] at h2
    obtain ⟨a3, e3, h3⟩ := j_step2 h2
    rw [← lab2 (k + 1)] at e3
    have q3 := st_succ _ e3
    rw [show 4 * (k + 1) + 2 + 3 + 1 = 4 * (k + 1) + 3 + 3 by omega] at q3
    rw [← q3] at h3
    obtain ⟨a4, e4, h4⟩ := j_step3 h3
    rw [← lab3 (k + 1)] at e4
    have q4 := st_succ _ e4
    rw [show 4 * (k + 1) + 3 + 3 + 1 = 4 * (k + 1 + 1) + 3 by omega] at q4
    rw [← q4] at h4
    refine ⟨h0, h1, h2, h3, ?_, ?_, ?_, ?_, h4⟩
    · rw [e1, show 4 * (k + 1) + 3 + 1 = 4 * (k + 1) + 1 + 3 by omega]; congr 1; exact q1.symm
    · rw [e2, show 4 * (k + 1) + 1 + 3 + 1 = 4 * (k + 1) + 2 + 3 by omega]; congr 1; exact q2.symm
    · rw [e3, show 4 * (k + 1) + 2 + 3 + 1 = 4 * (k + 1) + 3 + 3 by omega]; congr 1; exact q3.symm
    · rw [e4, show 4 * (k + 1) + 3 + 3 + 1 = 4 * (k + 1 + 1) + 3 by omega]; congr 1; exact q4.symm

theorem next (i : Nat) : step c (st i) (lab i) = some (st (i + 1)) := by
  by_cases h0 : i = 0
  · subst h0; rw [st_1]; exact step0
  by_cases h1 : i = 1
  · subst h1; rw [st_1, st_2]; exact step1
  by_cases h2 : i = 2
  · subst h2; rw [st_2, st_3]; exact step2
  obtain ⟨b0, b1, b2, b3, n0, n1, n2, n3, -⟩ := block ((i - 3) / 4)
  have hr : (i - 3) % 4 < 4 := Nat.mod_lt _ (by omega)
  have hi : i = 4 * ((i - 3) / 4) + (i - 3) % 4 + 3 := by omega
  by_cases r0 : (i - 3) % 4 = 0
  · rw [show i = 4 * ((i - 3) / 4) + 3 by omega]; exact n0
  by_cases r1 : (i - 3) % 4 = 1
  · rw [show i = 4 * ((i - 3) / 4) + 1 + 3 by omega]; exact n1
  by_cases r2 : (i - 3) % 4 = 2
  · rw [show i = 4 * ((i - 3) / 4) + 2 + 3 by omega]; exact n2
  · rw [show i = 4 * ((i - 3) / 4) + 3 + 3 by omega]; exact n3

theorem gAll (i : Nat) : G (st i) := by
  by_cases h0 : i = 0
  · subst h0; exact g0
  by_cases h1 : i = 1
  · subst h1; rw [st_1]; exact g1
  by_cases h2 : i = 2
  · subst h2; rw [st_2]; exact g2
  obtain ⟨b0, b1, b2, b3, -⟩ := block ((i - 3) / 4)
  by_cases r0 : (i - 3) % 4 = 0
  · rw [show i = 4 * ((i - 3) / 4) + 3 by omega]; exact b0.g
  by_cases r1 : (i - 3) % 4 = 1
  · rw [show i = 4 * ((i - 3) / 4) + 1 + 3 by omega]; exact b1.g
  by_cases r2 : (i - 3) % 4 = 2
  · rw [show i = 4 * ((i - 3) / 4) + 2 + 3 by omega]; exact b2.g
  · rw [show i = 4 * ((i - 3) / 4) + 3 + 3 by omega]; exact b3.g

/-- a thread at application level has no continuing step -/
theorem idle_no_label {s : State} {t : Nat} {l : Label} (hl : threadLabel t l = true) (hi : s.tpc t = .idle) :
    step c s l = none := by
  cases l <;> simp only [threadLabel, beq_iff_eq, Bool.false_eq_true] at hl <;> subst hl <;> simp [step, hi]

/-- a thread blocked on the mutex has no enabled step while the mutex is held -/
theorem blocked_no_label {s : State} {t : Nat} {k : GK} {l : Label} (hl : threadLabel t l = true)
    (hp : s.tpc t = .gdLock k) (hm : s.mutex ≠ none) : step c s l = none := by
  cases l <;> simp only [threadLabel, beq_iff_eq, Bool.false_eq_true] at hl <;> subst hl <;> simp [step, hp, hm]

/-- a helper that does not exist has no step -/
theorem none_no_label {s : State} {x : Nat} {l : Label} (hl : helperLabel x l = true) (hp : s.hpc x = .none) :
    step c s l = none := by
  cases l <;> simp only [helperLabel, beq_iff_eq, Bool.false_eq_true] at hl <;> subst hl <;> simp [step, hp] <;>
    (split <;> rfl)

def run : Run c := { st := st, lab := lab, start := rfl, next := next }

theorem run_fair : Fair c run := by
  refine ⟨?_, ?_, ?_, ?_, ?_⟩
  · intro x i h
    obtain ⟨l, hl, he⟩ := h i (Nat.le_refl i)
    change (step c (st i) l).isSome = true at he
    rw [none_no_label hl ((gAll i).hnone x)] at he; cases he
  · intro t i h
    by_cases ht0 : t = 0
    · -- thread 0 is blocked at a later position where thread 1 holds the mutex
      subst ht0
      exfalso
      obtain ⟨-, -, b2, -⟩ := block i
      obtain ⟨l, hl, he⟩ := h (4 * i + 2 + 3) (by omega)
      have hb := blocked_no_label (s := st (4 * i + 2 + 3)) hl b2.t0 (by rw [b2.mtx]; simp)
      show False
      change (step c (st (4 * i + 2 + 3)) l).isSome = true at he
      rw [hb] at he; cases he
    · by_cases ht1 : t = 1
      · subst ht1
        refine ⟨4 * i + 1 + 3, by omega, ?_⟩
        show threadLabel 1 (lab (4 * i + 1 + 3)) = true
        rw [lab1]; rfl
      · exfalso
        obtain ⟨l, hl, he⟩ := h i (Nat.le_refl i)
        change (step c (st i) l).isSome = true at he
        rw [idle_no_label hl ((gAll i).idle t (by omega))] at he; cases he
  · intro t i hn hi
    exfalso
    by_cases ht0 : t = 0
    · subst ht0
      have := (gAll i).nest0 hi
      change 0 < (st i).nest 0 at hn
      omega
    · have := (gAll i).nest t ht0
      change 0 < (st i).nest t at hn
      omega
  · intro x i hr
    change (st i).hpc x = .run at hr
    rw [(gAll i).hnone x] at hr; cases hr
  · intro x i hp
    change (st i).pause x = true at hp
    rw [(gAll i).pause x] at hp; cases hp

end Cex

/-- **`C03_full` is false as formulated**: on the fair run `Cex.run` callback 7 is registered at position 1 and never
finishes (it is never even enqueued: its `call_rcu()` starves on `call_rcu_mutex`). -/
theorem C03_full_false : ¬ C03_full := by
  intro h
  obtain ⟨j, -, hf, -⟩ := h Cex.c Cex.run Cex.run_fair 7 1 (by
    show (Cex.st 1).reg 7 = true
    rw [Cex.st_1]; simp [Cex.s1, upd])
  have := (Cex.gAll j).fin7
  change (Cex.st j).fin 7 = true at hf
  rw [this] at hf; cases hf

end UrcuVerif.CallRcu
