import UrcuVerif.Lfht.Conc.LinNone
import UrcuVerif.Props.C06
/-!
# C05, headline clause — the concurrent hash table is linearizable with respect to a multiset-per-key specification
(statements and final theorems; helper lemmas in `Lfht/Conc/LinSpec.lean`, `InvN.lean`, `LinTrack.lean`,
`LinPoint.lean`, `LinAdd.lean`, `LinUpd.lean`, `LinLookup.lean`, `LinPlain.lean`, `LinNone.lean`)

Specification (`Lfht/Conc/LinSpec.lean`): `MS` = the set of stored nodes with their (reversed hash, key) — a node is
stored at most once, so this is the multiset of nodes per key; `SpecStep` = the atomic effect and result of
`add` / `add_unique` / `add_replace` / `replace` / `del` / `lookup`; nothing is said about the order among duplicates
(`lookup` returns *some* stored node with the hash and key).  Abstraction: `absL s` = the visible nodes of the ghost
list `L` (linked, not a bucket, `REMOVED` not set).  `Props/C05.lean` (`visible_set_linearizes`) shows that `absL`
changes only at the insertion CAS of a user node, at the `REMOVED` fetch-or and at the replace CAS.

What is proved (`lfht_linearizable_partial` = `linearisation_points` + the accounting of `Props/C05.lean` /
`Props/C07.lean`): **every completed call has a linearisation point** — an event `e` of the execution between its
call and its return (both included) such that the call, with the arguments of the call and the result it returned,
is a `SpecStep` of the specification
* from `absL` of the pre-state of `e` to itself (`LinRO`: results that do not change the table), or
* from `absL` of the pre-state of `e` to `absL` of its post-state (`LinMut`: the step *is* the change of the table);
for every interleaving, any number of threads, resizes in progress.  The points: the insertion CAS (`add`, inserting
`add_unique` / `add_replace`); the replace CAS (`replace`, replacing `add_replace`); the `REMOVED` fetch-or that made
the node invisible — possibly the one of another `del` of the same node running concurrently — (`del` returning 0);
the load that read the returned node's `next` unflagged (`lookup` found, `add_unique` returning a duplicate); the
returning step (failing `del` / `replace`); for a `lookup` that answers "not found": the returning step, or an
earlier insertion of a node of the key that the walk can no longer reach (just before it no such node was stored).
Usage assumptions (`KeyUse`): for `add_unique` / `add_replace` the one of C06 — their key is only added with
`add_unique` / `add_replace` / `replace`, always with the same hash; for a `lookup` that answers "not found": its
(hash, key) is managed in one of the two ways — unique adds only (C06), or plain adds only (then new duplicates go to
the end of the run of equal hashes, ahead of every walk inside it).  Mixed use is not linearizable for "not found"
(a unique add may link a duplicate behind a walk while the node ahead of it is removed).
`LfhtLinearizable` (stated, not proved) = the composition: one sequential history, in the order of the linearisation
points, that reproduces all results and ends in `absL` of the final state.  What the composition needs beyond
`linearisation_points` is bookkeeping: each change of `absL` is one event (`visible_set_linearizes`), it is the
linearisation point of one call only (`single_owner_run` for the `REMOVED` fetch-or; the CAS steps are own steps).
-/
namespace UrcuVerif.Lfht.Conc
open UrcuVerif

/-- the abstract operation of a call of thread `t` issued in state `s0` -/
def opOf (s0 : State) (t : Nat) : Label → Option SOp
  | .callAdd m n h k => some (addOp m n h k)
  | .callReplace n h k => some (.replace (s0.th t).itn n h k)
  | .callDel => some (.del (s0.th t).itn)
  | .callLookup h k => some (.lookup h k)
  | _ => none

/-- one complete call of thread `t`: `evs` leads from the reachable state `s0` to `s1`, starts with the call `l0` of
`t`, all later events of `t` belong to a call in progress, the last event is `t`'s return with result `r` -/
def OpRun (c : Cfg) (s0 : State) (evs : List Event) (s1 : State) (t : Nat) (l0 : Label) (r : Out) : Prop :=
  Reach c s0 ∧ Exec c s0 evs s1 ∧
  (∃ e0 rest, evs = e0 :: rest ∧ e0.2.1 = t ∧ e0.2.2.1 = l0 ∧ ∀ e, e ∈ rest → e.2.1 = t → OpK (e.1.th t).op) ∧
  (∃ e, evs.getLast? = some e ∧ e.2.1 = t ∧ e.2.2.2 = r) ∧ (s1.th t).op = .none

/-- reachable with the usage restriction "plain adds only" on (hash `h`, key `k`) -/
inductive ReachP (c : Cfg) (k h : Nat) : State → Prop
  | init : ReachP c k h init
  | step {s s' t l o} : ReachP c k h s → step c s t l = some (s', o) → PlainUse k h l → ReachP c k h s'

/-- usage assumptions: for `add_unique` / `add_replace` the one of C06 on their key; for a `lookup` that answers
"not found": its (hash, key) is used with unique adds only, or with plain adds only -/
def KeyUse (c : Cfg) (s0 : State) (evs : List Event) (r : Out) : Label → Prop
  | .callAdd m _ h k => m ≠ .plain → ReachU c k h s0 ∧ ∀ e, e ∈ evs → AllowedU k h e.2.2.1
  | .callLookup h k => (∃ w, r = .iter 0 w) →
      (ReachU c k h s0 ∧ ∀ e, e ∈ evs → AllowedU k h e.2.2.1) ∨ (ReachP c k h s0 ∧ ∀ e, e ∈ evs → PlainUse k h e.2.2.1)
  | _ => True

/-- **every completed `add` / `add_unique` / `add_replace` / `replace` / `del` / `lookup` call has a linearisation
point between its call and its return** -/
def LinearisationPoints : Prop :=
  ∀ c s0 evs s1 t l0 r op, Current c → OpRun c s0 evs s1 t l0 r → opOf s0 t l0 = some op → KeyUse c s0 evs r l0 →
    LinAt c evs op r

/-- every change of the abstract state is one step of the three kinds, and the `del` / `replace` / `add_replace`
calls that return success for a node are at most one per node (so no linearisation point serves two calls) -/
def LinAccounting : Prop := VisibleSetLinearizes ∧ SingleOwnerRun

/-- the part of `LfhtLinearizable` that is proved -/
def LfhtLinearizablePartial : Prop := LinearisationPoints ∧ LinAccounting

/-! ### The composition (stated, not proved) -/

/-- an entry of the sequential history: thread, index of its call event, operation, result, index of the event
at which it takes effect -/
structure LinEntry where
  t : Nat
  i : Nat
  op : SOp
  r : Out
  lp : Nat

/-- event `i` is a call of `t` with abstract operation `op` -/
def IsCall (evs : List Event) (i t : Nat) (op : SOp) : Prop :=
  ∃ e, evs[i]? = some e ∧ e.2.1 = t ∧ opOf e.1 t e.2.2.1 = some op

/-- event `j` is the return, with result `r`, of the call of `t` issued at event `i` -/
def IsRet (c : Cfg) (evs : List Event) (i j t : Nat) (r : Out) : Prop :=
  i ≤ j ∧ (∃ e s', evs[j]? = some e ∧ e.2.1 = t ∧ e.2.2.2 = r ∧ step c e.1 t e.2.2.1 = some (s', r) ∧ (s'.th t).op = .none) ∧
  ∀ j' e', i < j' → j' ≤ j → evs[j']? = some e' → e'.2.1 = t → (e'.1.th t).op ≠ .none

/-- the history replayed on the specification -/
inductive SpecRunL : MS → List LinEntry → MS → Prop
  | nil (σ) : SpecRunL σ [] σ
  | cons {σ σ' σ'' a H} : SpecStep σ a.op a.r σ' → SpecRunL σ' H σ'' → SpecRunL σ (a :: H) σ''

/-- per key: only unique adds (always the same hash), or only plain adds -/
def KeyDiscipline (evs : List Event) : Prop :=
  ∀ k, (∃ hk, ∀ e, e ∈ evs → AllowedU k hk e.2.2.1) ∨
       (∀ e, e ∈ evs → ∀ m n h, e.2.2.1 = .callAdd m n h k → m = .plain)

/-- **lfht_linearizable** (full statement): for every execution there is one sequential history `H` of the calls,
ordered by linearisation points lying between call and return, every completed call exactly once with the result it
returned (pending calls at most once), that is a run of the specification from the empty table to `absL` of the
final state -/
def LfhtLinearizable : Prop :=
  ∀ c evs s, Current c → Exec c init evs s → KeyDiscipline evs →
    ∃ H : List LinEntry,
      H.Pairwise (fun a b => a.lp ≤ b.lp) ∧
      (∃ σ, SpecRunL (absL init) H σ ∧ σ.Equiv (absL s)) ∧
      (∀ a, a ∈ H → IsCall evs a.i a.t a.op ∧ a.i ≤ a.lp ∧ a.lp < evs.length ∧
        ∀ j r, IsRet c evs a.i j a.t r → a.lp ≤ j ∧ a.r = r) ∧
      H.Pairwise (fun a b => ¬ (a.t = b.t ∧ a.i = b.i)) ∧
      (∀ i t op j r, IsCall evs i t op → IsRet c evs i j t r → ∃ a, a ∈ H ∧ a.t = t ∧ a.i = i)

/-! ### Proofs -/

/-- layer K holds in the pre-state of every event of a run that respects the usage restriction -/
theorem invK_events {c k hk s evs s1} (hc : Current c) (ex : Exec c s evs s1) (r : Reach c s) (hK : InvK k hk s)
    (ha : ∀ e, e ∈ evs → AllowedU k hk e.2.2.1) : ∀ e, e ∈ evs → InvK k hk e.1 := by
  induction ex with
  | nil s => intro e he; simp at he
  | @cons s u l s1 o evs s2 st _ ih =>
    intro e he
    rcases List.mem_cons.mp he with rfl | he'
    · exact hK
    · exact ih (.step r st) (invK_step hc r hK st (allowedU_uniqUse (ha _ List.mem_cons_self)))
        (fun e he => ha e (List.mem_cons_of_mem _ he)) e he'

theorem reachP_inv {c k h s} (hc : Current c) (r : ReachP c k h s) : Reach c s ∧ PlainK k h s := by
  induction r with
  | init => exact ⟨.init, plainK_init⟩
  | step _ st ha ih => exact ⟨.step ih.1 st, plainK_step hc ih.1 ih.2 st ha⟩

theorem plainK_events {c k h s evs s1} (hc : Current c) (ex : Exec c s evs s1) (r : Reach c s) (hP : PlainK k h s)
    (ha : ∀ e, e ∈ evs → PlainUse k h e.2.2.1) : ∀ e, e ∈ evs → PlainK k h e.1 := by
  induction ex with
  | nil s => intro e he; simp at he
  | @cons s u l s1 o evs s2 st _ ih =>
    intro e he
    rcases List.mem_cons.mp he with rfl | he'
    · exact hP
    · exact ih (.step r st) (plainK_step hc r hP st (ha _ List.mem_cons_self))
        (fun e he => ha e (List.mem_cons_of_mem _ he)) e he'

theorem linearisation_points : LinearisationPoints := by
  intro c s0 evs s1 t l0 r op hc ⟨r0, ex, hcall, hlast, hend⟩ hop hU
  cases l0 with
  | callAdd m n h k =>
    simp only [opOf, Option.some.injEq] at hop; subst hop
    refine lin_add_exec hc r0 ex hcall ?_ hlast hend
    intro hm
    obtain ⟨rU, ha⟩ := hU hm
    exact invK_events hc ex r0 (reachU_inv hc rU).2 ha
  | callReplace n h k =>
    simp only [opOf, Option.some.injEq] at hop; subst hop
    exact lin_replace_exec hc r0 ex hcall hlast hend
  | callDel =>
    simp only [opOf, Option.some.injEq] at hop; subst hop
    exact lin_del_exec hc r0 ex hcall hlast hend
  | callLookup h k =>
    simp only [opOf, Option.some.injEq] at hop; subst hop
    obtain ⟨q, w, rfl⟩ := lookup_ret_iter hc r0 ex hcall hlast hend
    by_cases hq : q = 0
    · subst hq
      refine lin_lookup_none_exec hc r0 ex hcall ?_ hlast hend
      rcases hU ⟨w, rfl⟩ with ⟨rU, ha⟩ | ⟨rP, ha⟩
      · exact fun e he => .inl (invK_events hc ex r0 (reachU_inv hc rU).2 ha e he)
      · exact fun e he => .inr (plainK_events hc ex r0 (reachP_inv hc rP).2 ha e he)
    · exact lin_lookup_found_exec hc r0 ex hcall hlast hq hend
  | _ => simp [opOf] at hop

theorem lin_accounting : LinAccounting := ⟨visible_set_linearizes, single_owner_run⟩

/-- **lfht_linearizable_partial**: every completed call has its linearisation point; the changes of the abstract
state are accounted for -/
theorem lfht_linearizable_partial : LfhtLinearizablePartial := ⟨linearisation_points, lin_accounting⟩

/-! ## Non-vacuity: calls of concrete runs satisfy the hypotheses, and both kinds of linearisation point occur -/

/-- the events of a schedule -/
def trace (c : Cfg) : State → List (Nat × Label) → Option (List Event × State)
  | s, [] => some ([], s)
  | s, (t, l) :: r => match step c s t l with
    | some (s', o) => (trace c s' r).map fun x => ((s, t, l, o) :: x.1, x.2)
    | none => none

theorem trace_exec {c s sch evs s'} (h : trace c s sch = some (evs, s')) : Exec c s evs s' := by
  induction sch generalizing s evs with
  | nil => simp [trace] at h; obtain ⟨rfl, rfl⟩ := h; exact .nil _
  | cons a sch ih =>
    obtain ⟨t, l⟩ := a
    simp only [trace] at h
    split at h
    · next s1 o e =>
      cases h2 : trace c s1 sch with
      | none => simp [h2] at h
      | some x =>
        simp only [h2, Option.map_some, Option.some.injEq, Prod.mk.injEq] at h
        obtain ⟨rfl, rfl⟩ := h
        exact .cons e (ih (by rw [h2]))
    · cases h

/-- the call of T1 in `raceU` (Props/C06.lean): `add_unique(7, hash 3, key 30)` from its call to its return -/
def callU : List (Nat × Label) :=
  [(1, .callAdd .uniq 7 3 30), (0, .ldSize), (1, .ldSize), (0, .ldHeadA), (1, .ldHeadA), (0, .casIns), (1, .casIns),
   (1, .ldHeadA), (1, .ldNextA), (1, .ldWalk), (1, .ldAssertW)]

/-- it has the shape required by `OpRun`: the first event is T1's call, T1's later events belong to the `add`, the
last event is T1's return with the node of T0, and T1 is out of the call afterwards.  Its linearisation point is
the `ldWalk` (last but one event) that read 5's `next` unflagged. -/
example : ((run c2 init (raceU.take 3)).bind fun s0 => (trace c2 s0 callU).map fun x =>
      (x.1.map fun e => (e.2.1, e.2.2.2), x.1.map fun e => (e.1.th 1).op, (x.2.th 1).op)) =
    some ([(1, .unit), (0, .unit), (1, .unit), (0, .unit), (1, .unit), (0, .node 5), (1, .unit), (1, .unit), (1, .unit),
           (1, .unit), (1, .node 5)],
          [.none, .add, .add, .add, .add, .add, .add, .add, .add, .add, .add], .none) := by decide

/-- the linearisation point of T0's insertion in that run changes the abstract state: 5 becomes stored -/
example : ((run c2 init (raceU.take 8)).map fun s => (s.L, okp s 5)) = some ([1], false) ∧
    ((run c2 init (raceU.take 9)).map fun s => (s.L, (s.nxt 5).rem, s.isB 5)) = some ([1, 5], false, false) := by decide

end UrcuVerif.Lfht.Conc
