import UrcuVerif.Lfht.Conc.LinBlocks
import UrcuVerif.Props.C06
/-!
# C05, headline clause — the concurrent hash table is linearizable with respect to a multiset-per-key specification
(statements and final theorems; helper lemmas in `Lfht/Conc/LinSpec.lean`, `InvN.lean`, `LinTrack.lean`,
`LinPoint.lean`, `LinAdd.lean`, `LinUpd.lean`, `LinLookup.lean`, `LinPlain.lean`, `LinNone.lean`, `LinIdx.lean`, `LinFin.lean`,
`LinCall.lean`, `LinUniq.lean`, `LinBlocks.lean`)

Specification (`Lfht/Conc/LinSpec.lean`): `MS` = the set of stored nodes with their (reversed hash, key) — a node is
stored at most once, so this is the multiset of nodes per key; `SpecStep` = the atomic effect and result of
`add` / `add_unique` / `add_replace` / `replace` / `del` / `lookup`; nothing is said about the order among duplicates
(`lookup` returns *some* stored node with the hash and key).  Abstraction: `absL s` = the visible nodes of the ghost
list `L` (linked, not a bucket, `REMOVED` not set).  `Props/C05.lean` (`visible_set_linearizes`) shows that `absL`
changes only at the insertion CAS of a user node, at the `REMOVED` fetch-or and at the replace CAS.

What is proved (`lfht_linearizable_partial` = `linearisation_points` + the accounting of `Props/C05.lean` /
`Props/C07.lean`): **every completed call has a linearisation point** — an event `e` of the execution between its
call and its return (both included) such that the call, with the arguments of the call and the result it returned,
is a `SpecStep` of the specification
* from `absL` of the pre-state of `e` to itself (`LinRO`: results that do not change the table), or
* from `absL` of the pre-state of `e` to `absL` of its post-state (`LinMut`: the step *is* the change of the table);
for every interleaving, any number of threads, resizes in progress.  The points: the insertion CAS (`add`, inserting
`add_unique` / `add_replace`); the replace CAS (`replace`, replacing `add_replace`); the `REMOVED` fetch-or that made
the node invisible — possibly the one of another `del` of the same node running concurrently — (`del` returning 0);
the load that read the returned node's `next` unflagged (`lookup` found, `add_unique` returning a duplicate); the
returning step (failing `del` / `replace`); for a `lookup` that answers "not found": the returning step, or an
earlier insertion of a node of the key that the walk can no longer reach (just before it no such node was stored).
Usage assumptions (`KeyUse`): for `add_unique` / `add_replace` the one of C06 — their key is only added with
`add_unique` / `add_replace` / `replace`, always with the same hash; for a `lookup` that answers "not found": its
(hash, key) is managed in one of the two ways — unique adds only (C06), or plain adds only (then new duplicates go to
the end of the run of equal hashes, ahead of every walk inside it).  Mixed use is not linearizable for "not found"
(a unique add may link a duplicate behind a walk while the node ahead of it is removed).
`lfht_linearizable : LfhtLinearizable` = the composition, for whole executions from the initial state under the key
discipline "per (key, hash): unique adds only, or plain adds only": there is ONE sequential history — given block by
block, `B idx` = the calls that take effect between the state before event `idx` and the state after it — such that
* every block is a run of the specification from the abstract state before the event to the abstract state after
  it, hence the concatenation of all blocks is a run from the empty table to `absL` of the final state;
* every completed call (`Completed`: call event `i`, return event `j`, operation with the arguments of the call,
  the result it returned) is in exactly one block, once, and that block lies between its call and its return
  (real-time order is respected, results are reproduced);
* every other entry is the last entry of its block and is the effect, as a step of the specification, of an event
  that changes the table and serves no completed call (a call that has taken effect — replace CAS, `REMOVED`
  fetch-or — but has not returned by the end of the execution).  That each of these belongs to a call in progress is
  not part of the statement (for the replace CAS it is the acting thread's own call, `lin_repl`).
The history is built at the END of the execution from the per-call points (`call_lp`), which needs no prophecy for
the `del` winner; `claim_unique` (a change of the table serves one completed call: a node is added by one call, and
`single owner` for `del`) makes the blocks legal.  Node attributes are those of the final state (`absF`): they are
written once, when the node is handed to the table, so the specification state is the set of stored nodes.
-/
namespace UrcuVerif.Lfht.Conc
open UrcuVerif

/-- one complete call of thread `t`: `evs` leads from the reachable state `s0` to `s1`, starts with the call `l0` of
`t`, all later events of `t` belong to a call in progress, the last event is `t`'s return with result `r` -/
def OpRun (c : Cfg) (s0 : State) (evs : List Event) (s1 : State) (t : Nat) (l0 : Label) (r : Out) : Prop :=
  Reach c s0 ∧ Exec c s0 evs s1 ∧
  (∃ e0 rest, evs = e0 :: rest ∧ e0.2.1 = t ∧ e0.2.2.1 = l0 ∧ ∀ e, e ∈ rest → e.2.1 = t → OpK (e.1.th t).op) ∧
  (∃ e, evs.getLast? = some e ∧ e.2.1 = t ∧ e.2.2.2 = r) ∧ (s1.th t).op = .none

/-- reachable with the usage restriction "plain adds only" on (hash `h`, key `k`) -/
inductive ReachP (c : Cfg) (k h : Nat) : State → Prop
  | init : ReachP c k h init
  | step {s s' t l o} : ReachP c k h s → step c s t l = some (s', o) → PlainUse k h l → ReachP c k h s'

/-- usage assumptions: for `add_unique` / `add_replace` the one of C06 on their key; for a `lookup` that answers
"not found": its (hash, key) is used with unique adds only, or with plain adds only -/
def KeyUse (c : Cfg) (s0 : State) (evs : List Event) (r : Out) : Label → Prop
  | .callAdd m _ h k => m ≠ .plain → ReachU c k h s0 ∧ ∀ e, e ∈ evs → AllowedU k h e.2.2.1
  | .callLookup h k => (∃ w, r = .iter 0 w) →
      (ReachU c k h s0 ∧ ∀ e, e ∈ evs → AllowedU k h e.2.2.1) ∨ (ReachP c k h s0 ∧ ∀ e, e ∈ evs → PlainUse k h e.2.2.1)
  | _ => True

/-- **every completed `add` / `add_unique` / `add_replace` / `replace` / `del` / `lookup` call has a linearisation
point between its call and its return** -/
def LinearisationPoints : Prop :=
  ∀ c s0 evs s1 t l0 r op, Current c → OpRun c s0 evs s1 t l0 r → opOf s0 t l0 = some op → KeyUse c s0 evs r l0 →
    LinAt c evs op r

/-- every change of the abstract state is one step of the three kinds, and the `del` / `replace` / `add_replace`
calls that return success for a node are at most one per node (so no linearisation point serves two calls) -/
def LinAccounting : Prop := VisibleSetLinearizes ∧ SingleOwnerRun

/-- the part of `LfhtLinearizable` that is proved -/
def LfhtLinearizablePartial : Prop := LinearisationPoints ∧ LinAccounting

/-! ### The composition -/

/-- per (key, hash): only unique adds (the restriction of C06), or only plain adds, in the whole execution -/
def KeyDiscipline (evs : List Event) : Prop :=
  ∀ k h, (∀ e, e ∈ evs → AllowedU k h e.2.2.1) ∨ (∀ e, e ∈ evs → PlainUse k h e.2.2.1)

/-- **lfht_linearizable**: one sequential history for a whole execution (`CCall`, `Completed`, `LinEntry`, `RunL`,
`absF`, `LpMut` in `Lfht/Conc/LinCall.lean`, `LinBlocks.lean`, `LinFin.lean`) -/
def LfhtLinearizable : Prop :=
  ∀ c evs s, Current c → Exec c init evs s → KeyDiscipline evs →
    ∃ B : Nat → List LinEntry,
      (∀ idx, idx < evs.length → RunL (absF s (stAt evs s idx)) (B idx) (absF s (stAt evs s (idx + 1)))) ∧
      RunL (absF s init) ((List.range evs.length).flatMap B) (absL s) ∧
      (∀ p, ¬ (absF s init).mem p) ∧
      (∀ κ, Completed evs s κ → ∃ idx, κ.i ≤ idx ∧ idx ≤ κ.j ∧ (B idx).count (ent κ) = 1 ∧
        ∀ idx', idx' ≠ idx → ent κ ∉ B idx') ∧
      (∀ idx a, a ∈ B idx → (∃ κ, a = ent κ ∧ Completed evs s κ) ∨
        (a.call = none ∧ (B idx).getLast? = some a ∧ LpMut evs s idx a.op a.r ∧
          absF s (stAt evs s (idx + 1)) ≠ absF s (stAt evs s idx)))

/-! ### Proofs -/

/-- layer K holds in the pre-state of every event of a run that respects the usage restriction -/
theorem invK_events {c k hk s evs s1} (hc : Current c) (ex : Exec c s evs s1) (r : Reach c s) (hK : InvK k hk s)
    (ha : ∀ e, e ∈ evs → AllowedU k hk e.2.2.1) : ∀ e, e ∈ evs → InvK k hk e.1 := by
  induction ex with
  | nil s => intro e he; simp at he
  | @cons s u l s1 o evs s2 st _ ih =>
    intro e he
    rcases List.mem_cons.mp he with rfl | he'
    · exact hK
    · exact ih (.step r st) (invK_step hc r hK st (allowedU_uniqUse (ha _ List.mem_cons_self)))
        (fun e he => ha e (List.mem_cons_of_mem _ he)) e he'

theorem reachP_inv {c k h s} (hc : Current c) (r : ReachP c k h s) : Reach c s ∧ PlainK k h s := by
  induction r with
  | init => exact ⟨.init, plainK_init⟩
  | step _ st ha ih => exact ⟨.step ih.1 st, plainK_step hc ih.1 ih.2 st ha⟩

theorem plainK_events {c k h s evs s1} (hc : Current c) (ex : Exec c s evs s1) (r : Reach c s) (hP : PlainK k h s)
    (ha : ∀ e, e ∈ evs → PlainUse k h e.2.2.1) : ∀ e, e ∈ evs → PlainK k h e.1 := by
  induction ex with
  | nil s => intro e he; simp at he
  | @cons s u l s1 o evs s2 st _ ih =>
    intro e he
    rcases List.mem_cons.mp he with rfl | he'
    · exact hP
    · exact ih (.step r st) (plainK_step hc r hP st (ha _ List.mem_cons_self))
        (fun e he => ha e (List.mem_cons_of_mem _ he)) e he'

theorem linearisation_points : LinearisationPoints := by
  intro c s0 evs s1 t l0 r op hc ⟨r0, ex, hcall, hlast, hend⟩ hop hU
  cases l0 with
  | callAdd m n h k =>
    simp only [opOf, Option.some.injEq] at hop; subst hop
    refine lin_add_exec hc r0 ex hcall ?_ hlast hend
    intro hm
    obtain ⟨rU, ha⟩ := hU hm
    exact invK_events hc ex r0 (reachU_inv hc rU).2 ha
  | callReplace n h k =>
    simp only [opOf, Option.some.injEq] at hop; subst hop
    exact lin_replace_exec hc r0 ex hcall hlast hend
  | callDel =>
    simp only [opOf, Option.some.injEq] at hop; subst hop
    exact lin_del_exec hc r0 ex hcall hlast hend
  | callLookup h k =>
    simp only [opOf, Option.some.injEq] at hop; subst hop
    obtain ⟨q, w, rfl⟩ := lookup_ret_iter hc r0 ex hcall hlast hend
    by_cases hq : q = 0
    · subst hq
      refine lin_lookup_none_exec hc r0 ex hcall ?_ hlast hend
      rcases hU ⟨w, rfl⟩ with ⟨rU, ha⟩ | ⟨rP, ha⟩
      · exact fun e he => .inl (invK_events hc ex r0 (reachU_inv hc rU).2 ha e he)
      · exact fun e he => .inr (plainK_events hc ex r0 (reachP_inv hc rP).2 ha e he)
    · exact lin_lookup_found_exec hc r0 ex hcall hlast hq hend
  | _ => simp [opOf] at hop

theorem lin_accounting : LinAccounting := ⟨visible_set_linearizes, single_owner_run⟩

/-- **lfht_linearizable_partial**: every completed call has its linearisation point; the changes of the abstract
state are accounted for -/
theorem lfht_linearizable_partial : LfhtLinearizablePartial := ⟨linearisation_points, lin_accounting⟩

theorem keyDisc_of {evs : List Event} (h : KeyDiscipline evs) : KeyDisc evs := by
  intro k hh
  rcases h k hh with h1 | h1
  · exact .inl (fun e he => allowedU_uniqUse (h1 e he))
  · exact .inr h1

/-- **lfht_linearizable** -/
theorem lfht_linearizable : LfhtLinearizable := by
  intro c evs s hc ex hD
  have hD' := keyDisc_of hD
  refine ⟨block evs s, fun idx hlt => block_legal hc ex hD' hlt, ?_, ?_, ?_, ?_⟩
  · have := runL_blocks (f := fun idx => absF s (stAt evs s idx)) (B := block evs s) evs.length
      (fun idx hlt => block_legal hc ex hD' hlt)
    simp only [(exec_idx ex).1, stAt_end (Nat.le_refl _)] at this
    exact this
  · intro p hp
    simp only [absF, vis, init] at hp
    have h1 := hp.1; have h2 := hp.2.1
    simp at h1; subst h1; simp at h2
  · intro κ hκ
    obtain ⟨a1, a2, a3, a4⟩ := block_complete hc ex hD' hκ
    exact ⟨_, a1, a2, a3, a4⟩
  · intro idx a ha
    rcases block_sound hc ex ha with ⟨κ, h1, h2, _⟩ | ⟨h1, h2, h3, h4⟩
    · exact .inl ⟨κ, h1, h2⟩
    · right
      refine ⟨h1, ?_, h3, h4⟩
      simp only [block, h2]
      rw [List.getLast?_append]; simp

/-! ## Non-vacuity: calls of concrete runs satisfy the hypotheses, and both kinds of linearisation point occur -/

/-- the events of a schedule -/
def trace (c : Cfg) : State → List (Nat × Label) → Option (List Event × State)
  | s, [] => some ([], s)
  | s, (t, l) :: r => match step c s t l with
    | some (s', o) => (trace c s' r).map fun x => ((s, t, l, o) :: x.1, x.2)
    | none => none

theorem trace_exec {c s sch evs s'} (h : trace c s sch = some (evs, s')) : Exec c s evs s' := by
  induction sch generalizing s evs with
  | nil => simp [trace] at h; obtain ⟨rfl, rfl⟩ := h; exact .nil _
  | cons a sch ih =>
    obtain ⟨t, l⟩ := a
    simp only [trace] at h
    split at h
    · next s1 o e =>
      cases h2 : trace c s1 sch with
      | none => simp [h2] at h
      | some x =>
        simp only [h2, Option.map_some, Option.some.injEq, Prod.mk.injEq] at h
        obtain ⟨rfl, rfl⟩ := h
        exact .cons e (ih (by rw [h2]))
    · cases h

/-- the call of T1 in `raceU` (Props/C06.lean): `add_unique(7, hash 3, key 30)` from its call to its return -/
def callU : List (Nat × Label) :=
  [(1, .callAdd .uniq 7 3 30), (0, .ldSize), (1, .ldSize), (0, .ldHeadA), (1, .ldHeadA), (0, .casIns), (1, .casIns),
   (1, .ldHeadA), (1, .ldNextA), (1, .ldWalk), (1, .ldAssertW)]

/-- it has the shape required by `OpRun`: the first event is T1's call, T1's later events belong to the `add`, the
last event is T1's return with the node of T0, and T1 is out of the call afterwards.  Its linearisation point is
the `ldWalk` (last but one event) that read 5's `next` unflagged. -/
example : ((run c2 init (raceU.take 3)).bind fun s0 => (trace c2 s0 callU).map fun x =>
      (x.1.map fun e => (e.2.1, e.2.2.2), x.1.map fun e => (e.1.th 1).op, (x.2.th 1).op)) =
    some ([(1, .unit), (0, .unit), (1, .unit), (0, .unit), (1, .unit), (0, .node 5), (1, .unit), (1, .unit), (1, .unit),
           (1, .unit), (1, .node 5)],
          [.none, .add, .add, .add, .add, .add, .add, .add, .add, .add, .add], .none) := by decide

/-- the linearisation point of T0's insertion in that run changes the abstract state: 5 becomes stored -/
example : ((run c2 init (raceU.take 8)).map fun s => (s.L, okp s 5)) = some ([1], false) ∧
    ((run c2 init (raceU.take 9)).map fun s => (s.L, (s.nxt 5).rem, s.isB 5)) = some ([1, 5], false, false) := by decide

end UrcuVerif.Lfht.Conc
