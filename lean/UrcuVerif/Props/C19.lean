import UrcuVerif.Gp.Signal
import UrcuVerif.Gp.FlipInv
/-!
# C19 — Read-side critical sections are safe inside signal handlers (memb, mb, bp)

Two halves:
* thread-local (`Gp/Signal.lean`): a handler interrupting the thread at any point – including
  between the read of `tmp` and the store of its own `rcu_read_lock`/`rcu_read_unlock`, nested to
  any depth – leaves the nesting count (hence `rcu_read_ongoing`) as it was, and the whole word
  when a section was open; the interrupted operation completes with the right value;
* global (`Gp/Flip.lean`): the grace-period model lets a handler frame suspend an
  `rcu_read_lock()` between its load of `rcu_gp.ctr` and its store (`sigPush`/`sigPop`; any depth)
  and lets handler sections nest inside a lock that has issued its activating store but not yet
  returned.  `gp_guarantee` and `gp_litmus` (Props/C01) are proved on that model, so the handler's
  section gets the full guarantee and the interrupted code's guarantee is not weakened: the
  "older snapshot stored late" case is exactly the stale-snapshot case pass 1 exists for.
qsbr is excluded as documented.  Handlers interrupting application code or other library code
are ordinary sections of the thread.
-/
namespace UrcuVerif.Gp

/-- the handler frames of a reader are balanced in the global model: when the interrupted
`rcu_read_lock()` resumes (`sigPop`), the reader is outside any section again and resumes with
the snapshot it had loaded -/
theorem sigPop_restores (c : Cfg) {s s' : State} (i : Nat) (st : step c s (.sigPop i) = some s') :
    ∃ g rest, s.held i = g :: rest ∧ s.rpc i = .out ∧ s'.rpc i = .ld g ∧ s'.held i = rest := by
  simp only [step] at st
  split at st
  · next g rest hh =>
    split at st <;> simp only [Option.some.injEq, reduceCtorEq] at st
    next hg =>
      subst st
      exact ⟨g, rest, hh, hg.2, by simp [upd], by simp [upd]⟩
  · simp at st

/-- **gp_guarantee_with_handlers**: restated for emphasis – the invariant (and with it the
guarantee) holds in every reachable state of the model *with* handler frames. -/
theorem gp_guarantee_with_handlers (c : Cfg) (hc : c.WF) {s : State} (h : Reach c s)
    (ht : s.tracked = true) (hp : s.upc = .mbar2) : ∀ i, s.inD i = false :=
  (inv_reach c hc h).done_m2 ht hp

/-- a handler that runs while the interrupted lock holds a stale snapshot gets a complete section
of its own, and the stale snapshot is stored afterwards – reachable, and harmless -/
def runL (c : Cfg) : State → List Label → Option State
  | s, [] => some s
  | s, l :: ls => match step c s l with
    | none => none
    | some s' => runL c s' ls

example : ((runL { n := 1, membarrier := false, slaveFence := true } init
    [.reg 0, .rLd 0, .sigPush 0, .uStart true, .uMbarRet, .uScan1Inactive 0, .uFlip,
     .rLd 0, .rSt 0, .flush 0, .rEnter 0, .rRead 0, .rUnlock 0, .flush 0, .sigPop 0,
     .rSt 0, .flush 0, .rEnter 0, .uP2Done, .uEnd]).map fun s => (s.trackedDone, s.rpc 0, s.mph 0, s.gp, s.inD 0))
    = some (true, .cs, false, true, false) := by decide

end UrcuVerif.Gp
