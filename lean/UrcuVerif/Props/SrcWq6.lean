import UrcuVerif.Src.Wq6Body
/-!
# Source refinement, work queue part 6: one whole loop body of `workqueue_thread` – final statements

`workqueue_thread_body_refines`: the generated loop body `WqR.wBody` (= `firstLoop Gen.Src.«workqueue_thread»`, statements 0–12:
`set_thread_cpu_affinity`, PAUSE branch, splice + batch + `qlen -= cbcount`, STOP test, hooks, emptiness check with
`futex_wait` / `poll`) ⊑ `WqL.wstep` from L2's `top`: every well-typed `.ok` run (every budget, every oracle) is accepted; a
completed body is back at `top`, a `break` is at `exitSt` (`dead` if real-time); otherwise the run is a prefix.

Side conditions: `workqueue->cpu_affinity < 0` in the private view (the inlined `set_thread_cpu_affinity` then returns at once
without an event; the work queue of the hash table is created with `cpu_affinity = -1`); the truth value of the local `rt` is the
automaton's `rt`.  The user hooks may have any value (a call is silent).

NOT done: the induction over the loop.  `PT.loop` needs the side condition `cpu_affinity < 0` as part of the invariant, and
the audited `workqueue_thread_iteration_refines` (`IterPost`) says nothing about the private view after the splice (the frame
breaks on the initialisation / append stores to the stack object `cbs_tmp`), so the body's postcondition does not re-establish it.
-/
set_option linter.unusedSimpArgs false
set_option linter.unusedVariables false
namespace UrcuVerif.Props.SrcWq6
open UrcuVerif UrcuVerif.Src UrcuVerif.Wq UrcuVerif.Src.WqL UrcuVerif.Src.WqR

/-- **one whole loop body of `workqueue_thread`**, from L2's `top` -/
theorem workqueue_thread_body_refines (L : Layout) (a : Int) (ha : a < 0) (cnt : Nat) (rt : Bool) (rtv : Val)
    (hrt : rtv.truthy = rt) (fuel : Nat) (env : Env) (inp : List Val) (out : Out)
    (hw : env.vars "workqueue" = some (.ptr L.W)) (hr : env.vars "rt" = some rtv)
    (hp : env.priv (.field L.W "cpu_affinity") = some (.int a))
    (hE : exec fuel wBody env inp = .ok out) (hok : out.events.all (evOkW L) = true) :
    ∃ ls', wlr L ⟨.at .top, cnt, rt⟩ out.events = some ls' ∧
      ((out.ctl = .normal ∧ out.env.vars "workqueue" = some (.ptr L.W) ∧ out.env.vars "rt" = some rtv ∧
          ∃ k : Nat, ls' = ⟨.at .top, k, rt⟩) ∨
       (out.ctl = .brk ∧ ∃ k : Nat, ls' = ⟨.at (if rt = true then .dead else .exitSt), k, rt⟩) ∨
       out.ctl = .blocked ∨ out.ctl = .fuel) :=
  body_PT L a ha cnt rt rtv hrt fuel env inp _ out ⟨hw, hr, hp, rfl⟩ hE hok

/-- `wBody` is the body of the `for (;;)` of the generated `workqueue_thread` -/
example : firstLoop Gen.Src.«workqueue_thread» = some wBody := rfl

/-- **the PAUSE branch** (statements 2–3) as a triple, from L2's `top` to `splice`: `wTop`, and if PAUSE is set `wPause`, the
poll loop (`wSeeResume`), `wUnpause`; only flag accesses, `poll` and the two hooks in between (C16) -/
theorem workqueue_thread_pause_branch_refines (L : Layout) (cnt : Nat) (rt : Bool) (rtv : Val) (fuel : Nat) (env : Env)
    (inp : List Val) (out : Out) (hw : env.vars "workqueue" = some (.ptr L.W)) (hr : env.vars "rt" = some rtv)
    (hE : exec fuel (.seq (seqNth 2 wBody) (seqNth 3 wBody)) env inp = .ok out) (hok : out.events.all (evOkW L) = true) :
    ∃ ls', wlr L ⟨.at .top, cnt, rt⟩ out.events = some ls' ∧
      ((out.ctl = .normal ∧ out.env.vars "workqueue" = some (.ptr L.W) ∧ out.env.vars "rt" = some rtv ∧
        ls' = ⟨.at .splice, cnt, rt⟩) ∨ out.ctl = .blocked ∨ out.ctl = .fuel) :=
  pause_PT L cnt rt rtv fuel env inp _ out ⟨hw, hr, rfl⟩ hE hok

/-- **statements 0–1** (`set_thread_cpu_affinity(workqueue)`; `if (ret) urcu_die(errno)`) under `cpu_affinity < 0`: no event -/
theorem workqueue_thread_affinity_refines (L : Layout) (a : Int) (ha : a < 0) (rtv : Val) (ls0 : WLState) (fuel : Nat)
    (env : Env) (inp : List Val) (out : Out) (hw : env.vars "workqueue" = some (.ptr L.W)) (hr : env.vars "rt" = some rtv)
    (hp : env.priv (.field L.W "cpu_affinity") = some (.int a))
    (hE : exec fuel (.seq (seqNth 0 wBody) (seqNth 1 wBody)) env inp = .ok out) (hok : out.events.all (evOkW L) = true) :
    ∃ ls', wlr L ls0 out.events = some ls' ∧ out.ctl = .normal ∧ out.env.vars "workqueue" = some (.ptr L.W) ∧
      out.env.vars "rt" = some rtv ∧ ls' = ls0 :=
  affinity_PT L a ha rtv ls0 fuel env inp _ out ⟨hw, hr, hp, rfl⟩ hE hok

/-! ## non-vacuity -/

def L6 : Layout := { W := .obj 0, wid := fun _ => none, C := .obj 4 }

def envB : Env where
  vars x := if x = "workqueue" then some (.ptr (.obj 0)) else if x = "rt" then some (.int 0) else none
  priv l := if l = .field (.obj 0) "cpu_affinity" then some (.int (-1)) else none

def runLabels (x : Except String Out) : Option (List WLabel × Option WLState × Ctl × Nat) :=
  match x with
  | .ok o => some (o.events.filterMap (absEvW L6), wlr L6 ⟨.at .top, 0, false⟩ o.events, o.ctl, o.events.length)
  | .error _ => none

/-- a whole body: flags = 0 (no PAUSE), the queue is empty at the splice, STOP is seen: 5 events, `break` at `exitSt` -/
example : runLabels (exec 3 wBody envB [.int 0, .int 0, .int 0, .ptr (.field (.obj 0) "cbs_head"), .int 2]) =
    some ([.ldFl 0, .ldHead (.int 0), .ldTail true, .ldFl 2], some ⟨.at .exitSt, 0, false⟩, .brk, 5) := by rfl

end UrcuVerif.Props.SrcWq6
