import UrcuVerif.Props.SrcLfht
import UrcuVerif.Src.LfhtFrame
import UrcuVerif.Src.LfhtWalkNext
import UrcuVerif.Src.LfhtWalkDup
/-!
# Source IR of `src/rculfhash.c` ⊑ L2, part 2: non-vacuity of `Props/SrcLfht.lean`, frame lemma, further functions
-/
namespace UrcuVerif.Props.SrcLfht
open UrcuVerif UrcuVerif.Src UrcuVerif.Lfht.Conc UrcuVerif.Src.LfhtL UrcuVerif.Src.LfhtR

/-- frame lemma re-exported: a step of another thread leaves the projection of `t` unchanged, except `spawn t _` /
`join t` of a resize owner -/
theorem lfht_frame (c : Cfg) (s s' : State) (u t : Nat) (L : Label) (o o0 : Lfht.Conc.Out) (htu : t ≠ u)
    (hsp : ∀ len, L ≠ .spawn t len) (hjn : L ≠ .join t)
    (h : step c s u L = some (s', o)) : proj s' t o0 = proj s t o0 :=
  frame_proj c s s' u t L o o0 htu hsp hjn h

-- ==========================================================================================================
-- non-vacuity: bucket 1 → node 5 (being deleted: `5->next = END|REMOVED`); `reverse_hash` of node n is n
-- ==========================================================================================================
def exPriv : Loc → Option Val
  | .field (.obj n) f => if f = "reverse_hash" then some (.int n) else if f = "bucket_at" then some (.int 77) else none
  | _ => none

theorem exPriv_rev : RevView (fun n => n) exPriv := by intro n _; simp [exPriv]

def gcEnv : Env := { vars := fun y => if y = "bucket" then some (.ptr (.obj 1)) else if y = "node" then some (.ptr (.obj 5)) else none,
                     priv := exPriv }
def gcX : Thr := { pc := .gHead, gbkt := 1, gnode := 5, gcont := .del, node := 5 }
/-- `1->next = 5`; `5->next = END|REMOVED`; the unlink cmpxchg reads `5` (succeeds); `1->next = END` -/
def gcInp : List Val := [encW { ptr := 5 }, encW { ptr := 0, rem := true }, encW { ptr := 5 }, encW { ptr := 0 }]

example : OracleOk (fun n => n) { x := gcX, pend := .none, out := .unit } gcInp := by
  simp [OracleOk, gcInp, gcX, active, obsLabel, lstep, lgcPos, retPc, mk]

/-- the run: 4 events (`ldHeadG`, `ldNextG`, `casGc`, `ldHeadG`), returns, L2's thread is at `dAssert` -/
example : ∃ out, exec 3 Gen.Src.«lfht._cds_lfht_gc_bucket» gcEnv gcInp = .ok out ∧
    out.events = [.ld (.field (.obj 1) "next") (encW { ptr := 5 }) 1,
                  .ld (.field (.obj 5) "next") (encW { ptr := 0, rem := true }) 1,
                  .cas (.field (.obj 1) "next") (encW { ptr := 5 }) (.int 0) (encW { ptr := 5 }) 6 0,
                  .ld (.field (.obj 1) "next") (encW { ptr := 0 }) 1] ∧
    out.ctl = .ret none ∧
    ∃ ls', lrun (fun n => n) { x := gcX, pend := .none, out := .unit } (out.events.map absEv) = some ls' ∧
      ls'.x.pc = .dAssert := by
  lexec [Gen.Src.«lfht._cds_lfht_gc_bucket», gcEnv, gcInp, iterate, call_is_end, call_clear_flag, call_is_removed,
    call_is_removal_owner, call_is_bucket, call_flag_bucket, pureCall, bind1, exPriv, encP]
  have h0 : decW (.int 0) = some {} := by decide
  simp [absEv, lrun, lstep, gcX, lgcPos, retPc, mk, h0]

def delEnv : Env :=
  { vars := fun y => if y = "ht" then some (.ptr (.obj 100)) else if y = "size" then some (.int 1)
      else if y = "node" then some (.ptr (.obj 5)) else none,
    priv := exPriv }
def delX : Thr := { pc := .dLd, node := 5, sz := 1, op := .del }
/-- `5->next = END`; after the `or`: `END|REMOVED`; `bit_reverse_ulong` = 0; `bucket_at(ht, 0)` = node 1; the gc pass of
`gcInp`; the two loads see `END|REMOVED`; the xchg returns `END|REMOVED` (no owner yet): the call wins -/
def delInp : List Val :=
  [encW { ptr := 0 }, encW { ptr := 0, rem := true }, .int 0, .ptr (.obj 1),
   encW { ptr := 5 }, encW { ptr := 0, rem := true }, encW { ptr := 5 }, encW { ptr := 0 },
   encW { ptr := 0, rem := true }, encW { ptr := 0, rem := true }, encW { ptr := 0, rem := true }]

theorem delOracle_post (x : Thr) (o : Lfht.Conc.Out) (h1 : x.pc = .dAssert) :
    OracleOk (fun n => n) { x := x, pend := .none, out := o }
      [encW { ptr := 0, rem := true }, encW { ptr := 0, rem := true }, encW { ptr := 0, rem := true }] := by
  simp [OracleOk, active, obsLabel, lstep, mk, h1]

theorem delOracle_gc (x : Thr) (o : Lfht.Conc.Out) (h1 : x.pc = .gHead) (h2 : x.gbkt = 1) (h3 : x.gnode = 5)
    (h4 : x.gcont = .del) :
    OracleOk (fun n => n) { x := x, pend := .none, out := o }
      [encW { ptr := 5 }, encW { ptr := 0, rem := true }, encW { ptr := 5 }, encW { ptr := 0 },
       encW { ptr := 0, rem := true }, encW { ptr := 0, rem := true }, encW { ptr := 0, rem := true }] := by
  simp [OracleOk, active, obsLabel, lstep, lgcPos, retPc, mk, h1, h2, h3, h4]

theorem delOracle_head (rest : List Val)
    (h : ∀ x o, x.pc = .gHead → x.gbkt = 1 → x.gnode = 5 → x.gcont = .del →
      OracleOk (fun n => n) { x := x, pend := .none, out := o } rest) :
    OracleOk (fun n => n) { x := delX, pend := .none, out := .unit }
      (encW { ptr := 0 } :: encW { ptr := 0, rem := true } :: .int 0 :: .ptr (.obj 1) :: rest) := by
  simp [OracleOk, delX, active, obsLabel, lstep, mk]
  exact h _ _ rfl rfl rfl rfl

example : OracleOk (fun n => n) { x := delX, pend := .none, out := .unit } delInp :=
  delOracle_head _ delOracle_gc

set_option maxRecDepth 4000 in
/-- the run: 11 events, returns 0 = L2's `Out.ret 0`, L2's thread back at `idle` -/
example : ∃ out, exec 3 Gen.Src.«lfht._cds_lfht_del» delEnv delInp = .ok out ∧
    out.events.length = 11 ∧ out.ctl = .ret (some (.int 0)) ∧
    ∃ ls', lrun (fun n => n) { x := delX, pend := .none, out := .unit } (out.events.map absEv) = some ls' ∧
      ls'.x.pc = .idle ∧ ls'.out = .ret 0 := by
  lexec [exec_call, Gen.Src.«lfht._cds_lfht_del», Gen.Src.«lfht._cds_lfht_gc_bucket», Gen.Src.«lfht.lookup_bucket»,
    Gen.Src.«lfht.bucket_at», Gen.Src.«lfht.is_bucket», Gen.Src.«lfht.is_removed», Gen.Src.«lfht.is_removal_owner»,
    Gen.Src.«lfht.clear_flag», Gen.Src.«lfht.is_end», Gen.Src.«lfht.flag_bucket», Gen.Src.«lfht.flag_removal_owner»,
    delEnv, delInp, gcInp, iterate, exPriv, encP]
  have h0 : decW (.int 0) = some {} := by decide
  simp [absEv, lrun, lstep, delX, lgcPos, retPc, mk, h0]

end UrcuVerif.Props.SrcLfht

-- ==========================================================================================================
-- traversals: cds_lfht_lookup / cds_lfht_next_duplicate / cds_lfht_next / cds_lfht_first
-- ==========================================================================================================
namespace UrcuVerif.Props.SrcLfhtWalk
open UrcuVerif UrcuVerif.Src UrcuVerif.Lfht.Conc UrcuVerif.Src.LfhtW UrcuVerif.Src.LfhtWR
open UrcuVerif.Src.LfhtR (RevView encW encP)

/-- the local automaton of the traversals against the real L2 `step`: every non-crashing step with label `ldSize` (at
pc `lSize`), `ldHeadL`, `ldFirst`, `ldWalk`, `ldAssertW` is the local run `decor s t L` (values of the global state; the
result of `match` is `key cur == ky`), same `Out` -/
theorem lfht_walk_proj_step (c : Cfg) (s s' : State) (t : Nat) (L : Label) (o o0 : Lfht.Conc.Out)
    (hL : inScope L = true) (hsz : L = .ldSize → (s.th t).pc = .lSize)
    (h : step c s t L = some (s', o)) (hnc : o ≠ .crash) :
    lrun s.rev (proj s t o0) (decor s t L) = some (proj s' t o) :=
  proj_step c s s' t L o o0 hL hsz h hnc

/-- `cds_lfht_lookup`: labels `ldSize` (= `bit_reverse_ulong`; load of `ht->size`; `bucket_at`), `ldHeadL`, `ldWalk`*
(each load followed by `match` when L2's `found` needs the key), `ldAssertW`; returned iterator = L2's `Out.iter` -/
theorem cds_lfht_lookup_refines (fuel : Nat) (rev : Nat → Nat) (env : Env) (inp : List Val) (x : Thr)
    (o0 : Lfht.Conc.Out) (ht it : Nat) (fp : Val)
    (hht : env.vars "ht" = some (.ptr (.obj ht))) (hhash : env.vars "hash" = some (.int x.hs))
    (hkey : env.vars "key" = some (.int x.ky)) (hiter : env.vars "iter" = some (.ptr (.obj it)))
    (hfp : env.priv (.field (.obj ht) "bucket_at") = some fp) (hrev : RevView rev env.priv)
    (hpc : x.pc = .lSize) (hwk : x.wk = .lookup)
    (hO : OracleOk rev { x := x, pend := .none, out := o0 } inp) :
    ∃ out, exec fuel Gen.Src.«lfht.cds_lfht_lookup» env inp = .ok out ∧
      ∃ ls', lrun rev { x := x, pend := .none, out := o0 } (out.events.map absEv) = some ls' ∧
        (out.ctl = .blocked ∨ out.ctl = .fuel ∨
          ∃ n w, out.ctl = .normal ∧ ls'.out = .iter n w ∧ ls'.x.pc = .idle ∧ ls'.x.itn = n ∧ ls'.x.itx = w ∧
            ls'.pend = .none ∧ out.env.priv (.field (.obj it) "node") = some (encP n) ∧
            out.env.priv (.field (.obj it) "next") = some (encW w)) :=
  lookup_exec fuel rev env inp x o0 ht it fp hht hhash hkey hiter hfp hrev hpc hwk hO

/-- `cds_lfht_next_duplicate`: `x0` = L2's record after `callDup k` -/
theorem cds_lfht_next_duplicate_refines (fuel : Nat) (rev : Nat → Nat) (env : Env) (inp : List Val) (x0 : Thr)
    (itn : Nat) (itx : W) (it k : Nat)
    (hiter : env.vars "iter" = some (.ptr (.obj it))) (hkey : env.vars "key" = some (.int k))
    (hin : env.priv (.field (.obj it) "node") = some (.ptr (.obj itn))) (hitn : itn ≠ 0)
    (hix : env.priv (.field (.obj it) "next") = some (encW itx)) (hrev : RevView rev env.priv)
    (hwk : x0.wk = .dup) (hrh : x0.rh = rev itn) (hky : x0.ky = k)
    (hO : OracleOk rev (ofPair (lwalkPos rev x0 itx.ptr)) inp) :
    ∃ out, exec fuel Gen.Src.«lfht.cds_lfht_next_duplicate» env inp = .ok out ∧
      ∃ ls', lrun rev (ofPair (lwalkPos rev x0 itx.ptr)) (out.events.map absEv) = some ls' ∧ WalkDone it out ls' :=
  dup_exec fuel rev env inp x0 itn itx it k hiter hkey hin hitn hix hrev hwk hrh hky hO

/-- `cds_lfht_next`: `x0` = L2's record after `callNext` -/
theorem cds_lfht_next_refines (fuel : Nat) (rev : Nat → Nat) (env : Env) (inp : List Val) (x0 : Thr) (wi : W) (it : Nat)
    (hiter : env.vars "iter" = some (.ptr (.obj it)))
    (hnx : env.priv (.field (.obj it) "next") = some (encW wi)) (hwk : x0.wk = .next)
    (hO : OracleOk rev (ofPair (lwalkPos rev x0 wi.ptr)) inp) :
    ∃ out, exec fuel Gen.Src.«lfht.cds_lfht_next» env inp = .ok out ∧
      ∃ ls', lrun rev (ofPair (lwalkPos rev x0 wi.ptr)) (out.events.map absEv) = some ls' ∧ WalkDone it out ls' :=
  next_exec fuel rev env inp x0 wi it _ rfl hiter hnx hwk hO

/-- `cds_lfht_first`: from L2's state after `callFirst` (pc `fHead`); label `ldFirst` = `bucket_at(ht, 0)` + load -/
theorem cds_lfht_first_refines (fuel : Nat) (rev : Nat → Nat) (env : Env) (inp : List Val) (x : Thr)
    (o0 : Lfht.Conc.Out) (ht it : Nat) (fp : Val)
    (hht : env.vars "ht" = some (.ptr (.obj ht))) (hiter : env.vars "iter" = some (.ptr (.obj it)))
    (hfp : env.priv (.field (.obj ht) "bucket_at") = some fp)
    (hpc : x.pc = .fHead) (hwk : x.wk = .next)
    (hO : OracleOk rev { x := x, pend := .none, out := o0 } inp) :
    ∃ out, exec fuel Gen.Src.«lfht.cds_lfht_first» env inp = .ok out ∧
      ∃ ls', lrun rev { x := x, pend := .none, out := o0 } (out.events.map absEv) = some ls' ∧ WalkDone it out ls' :=
  first_exec fuel rev env inp x o0 ht it fp hht hiter hfp hpc hwk hO

-- non-vacuity: bucket 1 → node 5 (reverse hash 5, key 7) → END; lookup of (rh = 5, key 7) finds node 5
def lkEnv : Env :=
  { vars := fun y => if y = "ht" then some (.ptr (.obj 100)) else if y = "hash" then some (.int 0)
      else if y = "key" then some (.int 7) else if y = "iter" then some (.ptr (.obj 200)) else none,
    priv := UrcuVerif.Props.SrcLfht.exPriv }
def lkX : Thr := { pc := .lSize, op := .lookup, wk := .lookup, hs := 0, rh := 5, ky := 7 }
/-- `bit_reverse_ulong` = 5; `ht->size` = 1; `bucket_at(ht, 0)` = node 1; `1->next` = 5; `5->next` = END; `match` = 1;
the assertion load of `5->next` = END -/
def lkInp : List Val := [.int 5, .int 1, .ptr (.obj 1), encW { ptr := 5 }, encW {}, .int 1, encW {}]

example : OracleOk (fun n => n) { x := lkX, pend := .none, out := .unit } lkInp := by
  simp [OracleOk, lkInp, lkX, active, obsLabel, lstep, lwalkPos, lwalkRet, ofPair, needsMatch, foundNoMatch]

set_option maxRecDepth 4000 in
/-- the run: 7 events, the iterator `(5, END)` is stored in `*iter` and is L2's `Out.iter 5 {}` -/
example : ∃ out, exec 3 Gen.Src.«lfht.cds_lfht_lookup» lkEnv lkInp = .ok out ∧
    out.events.length = 7 ∧ out.ctl = .normal ∧
    out.env.priv (.field (.obj 200) "node") = some (.ptr (.obj 5)) ∧
    out.env.priv (.field (.obj 200) "next") = some (.int 0) ∧
    ∃ ls', lrun (fun n => n) { x := lkX, pend := .none, out := .unit } (out.events.map absEv) = some ls' ∧
      ls'.x.pc = .idle ∧ ls'.out = .iter 5 {} := by
  lexec [exec_call, Gen.Src.«lfht.cds_lfht_lookup», Gen.Src.«lfht.lookup_bucket», Gen.Src.«lfht.bucket_at»,
    Gen.Src.«lfht.is_bucket», Gen.Src.«lfht.is_removed», Gen.Src.«lfht.clear_flag», Gen.Src.«lfht.is_end»,
    lkEnv, lkInp, iterate, UrcuVerif.Props.SrcLfht.exPriv, encP]
  have h0 : UrcuVerif.Src.LfhtR.decW (.int 0) = some {} := by decide
  have e0 : encW {} = .int 0 := rfl
  simp [LfhtWR.absEv, lrun, lstep, lkX, lwalkPos, lwalkRet, ofPair, needsMatch, foundNoMatch, h0, e0]

end UrcuVerif.Props.SrcLfhtWalk
