import UrcuVerif.Props.SrcLfht
import UrcuVerif.Src.LfhtFrame
/-!
# Source IR of `src/rculfhash.c` ⊑ L2, part 2: non-vacuity of `Props/SrcLfht.lean`, frame lemma, further functions
-/
namespace UrcuVerif.Props.SrcLfht
open UrcuVerif UrcuVerif.Src UrcuVerif.Lfht.Conc UrcuVerif.Src.LfhtL UrcuVerif.Src.LfhtR

/-- frame lemma re-exported: a step of another thread leaves the projection of `t` unchanged, except `spawn t _` /
`join t` of a resize owner -/
theorem lfht_frame (c : Cfg) (s s' : State) (u t : Nat) (L : Label) (o o0 : Lfht.Conc.Out) (htu : t ≠ u)
    (hsp : ∀ len, L ≠ .spawn t len) (hjn : L ≠ .join t)
    (h : step c s u L = some (s', o)) : proj s' t o0 = proj s t o0 :=
  frame_proj c s s' u t L o o0 htu hsp hjn h

-- ==========================================================================================================
-- non-vacuity: bucket 1 → node 5 (being deleted: `5->next = END|REMOVED`); `reverse_hash` of node n is n
-- ==========================================================================================================
def exPriv : Loc → Option Val
  | .field (.obj n) f => if f = "reverse_hash" then some (.int n) else if f = "bucket_at" then some (.int 77) else none
  | _ => none

theorem exPriv_rev : RevView (fun n => n) exPriv := by intro n _; simp [exPriv]

def gcEnv : Env := { vars := fun y => if y = "bucket" then some (.ptr (.obj 1)) else if y = "node" then some (.ptr (.obj 5)) else none,
                     priv := exPriv }
def gcX : Thr := { pc := .gHead, gbkt := 1, gnode := 5, gcont := .del, node := 5 }
/-- `1->next = 5`; `5->next = END|REMOVED`; the unlink cmpxchg reads `5` (succeeds); `1->next = END` -/
def gcInp : List Val := [encW { ptr := 5 }, encW { ptr := 0, rem := true }, encW { ptr := 5 }, encW { ptr := 0 }]

example : OracleOk (fun n => n) { x := gcX, pend := .none, out := .unit } gcInp := by
  simp [OracleOk, gcInp, gcX, active, obsLabel, lstep, lgcPos, retPc, mk]

/-- the run: 4 events (`ldHeadG`, `ldNextG`, `casGc`, `ldHeadG`), returns, L2's thread is at `dAssert` -/
example : ∃ out, exec 3 Gen.Src.«lfht._cds_lfht_gc_bucket» gcEnv gcInp = .ok out ∧
    out.events = [.ld (.field (.obj 1) "next") (encW { ptr := 5 }) 1,
                  .ld (.field (.obj 5) "next") (encW { ptr := 0, rem := true }) 1,
                  .cas (.field (.obj 1) "next") (encW { ptr := 5 }) (.int 0) (encW { ptr := 5 }) 6 0,
                  .ld (.field (.obj 1) "next") (encW { ptr := 0 }) 1] ∧
    out.ctl = .ret none ∧
    ∃ ls', lrun (fun n => n) { x := gcX, pend := .none, out := .unit } (out.events.map absEv) = some ls' ∧
      ls'.x.pc = .dAssert := by
  lexec [Gen.Src.«lfht._cds_lfht_gc_bucket», gcEnv, gcInp, iterate, call_is_end, call_clear_flag, call_is_removed,
    call_is_removal_owner, call_is_bucket, call_flag_bucket, pureCall, bind1, exPriv, encP]
  have h0 : decW (.int 0) = some {} := by decide
  simp [absEv, lrun, lstep, gcX, lgcPos, retPc, mk, h0]

def delEnv : Env :=
  { vars := fun y => if y = "ht" then some (.ptr (.obj 100)) else if y = "size" then some (.int 1)
      else if y = "node" then some (.ptr (.obj 5)) else none,
    priv := exPriv }
def delX : Thr := { pc := .dLd, node := 5, sz := 1, op := .del }
/-- `5->next = END`; after the `or`: `END|REMOVED`; `bit_reverse_ulong` = 0; `bucket_at(ht, 0)` = node 1; the gc pass of
`gcInp`; the two loads see `END|REMOVED`; the xchg returns `END|REMOVED` (no owner yet): the call wins -/
def delInp : List Val :=
  [encW { ptr := 0 }, encW { ptr := 0, rem := true }, .int 0, .ptr (.obj 1),
   encW { ptr := 5 }, encW { ptr := 0, rem := true }, encW { ptr := 5 }, encW { ptr := 0 },
   encW { ptr := 0, rem := true }, encW { ptr := 0, rem := true }, encW { ptr := 0, rem := true }]

theorem delOracle_post (x : Thr) (o : Lfht.Conc.Out) (h1 : x.pc = .dAssert) :
    OracleOk (fun n => n) { x := x, pend := .none, out := o }
      [encW { ptr := 0, rem := true }, encW { ptr := 0, rem := true }, encW { ptr := 0, rem := true }] := by
  simp [OracleOk, active, obsLabel, lstep, mk, h1]

theorem delOracle_gc (x : Thr) (o : Lfht.Conc.Out) (h1 : x.pc = .gHead) (h2 : x.gbkt = 1) (h3 : x.gnode = 5)
    (h4 : x.gcont = .del) :
    OracleOk (fun n => n) { x := x, pend := .none, out := o }
      [encW { ptr := 5 }, encW { ptr := 0, rem := true }, encW { ptr := 5 }, encW { ptr := 0 },
       encW { ptr := 0, rem := true }, encW { ptr := 0, rem := true }, encW { ptr := 0, rem := true }] := by
  simp [OracleOk, active, obsLabel, lstep, lgcPos, retPc, mk, h1, h2, h3, h4]

theorem delOracle_head (rest : List Val)
    (h : ∀ x o, x.pc = .gHead → x.gbkt = 1 → x.gnode = 5 → x.gcont = .del →
      OracleOk (fun n => n) { x := x, pend := .none, out := o } rest) :
    OracleOk (fun n => n) { x := delX, pend := .none, out := .unit }
      (encW { ptr := 0 } :: encW { ptr := 0, rem := true } :: .int 0 :: .ptr (.obj 1) :: rest) := by
  simp [OracleOk, delX, active, obsLabel, lstep, mk]
  exact h _ _ rfl rfl rfl rfl

example : OracleOk (fun n => n) { x := delX, pend := .none, out := .unit } delInp :=
  delOracle_head _ delOracle_gc

set_option maxRecDepth 4000 in
/-- the run: 11 events, returns 0 = L2's `Out.ret 0`, L2's thread back at `idle` -/
example : ∃ out, exec 3 Gen.Src.«lfht._cds_lfht_del» delEnv delInp = .ok out ∧
    out.events.length = 11 ∧ out.ctl = .ret (some (.int 0)) ∧
    ∃ ls', lrun (fun n => n) { x := delX, pend := .none, out := .unit } (out.events.map absEv) = some ls' ∧
      ls'.x.pc = .idle ∧ ls'.out = .ret 0 := by
  lexec [exec_call, Gen.Src.«lfht._cds_lfht_del», Gen.Src.«lfht._cds_lfht_gc_bucket», Gen.Src.«lfht.lookup_bucket»,
    Gen.Src.«lfht.bucket_at», Gen.Src.«lfht.is_bucket», Gen.Src.«lfht.is_removed», Gen.Src.«lfht.is_removal_owner»,
    Gen.Src.«lfht.clear_flag», Gen.Src.«lfht.is_end», Gen.Src.«lfht.flag_bucket», Gen.Src.«lfht.flag_removal_owner»,
    delEnv, delInp, gcInp, iterate, exPriv, encP]
  have h0 : decW (.int 0) = some {} := by decide
  simp [absEv, lrun, lstep, delX, lgcPos, retPc, mk, h0]

end UrcuVerif.Props.SrcLfht
