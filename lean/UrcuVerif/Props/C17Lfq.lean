import UrcuVerif.Props.C12
import UrcuVerif.Lfq.SoloThms
/-!
# C17 (rculfqueue facet) — `cds_lfq_enqueue_rcu` / `cds_lfq_dequeue_rcu` are lock-free

Solo-run theorems on the step-level model of C12 (`Lfq/Model.lean`; one step per load / cmpxchg of the C text,
any number of threads).  `SoloRun c t k s s'` = thread `t` takes `k` consecutive steps of its operation from
state `s` while **every other thread stays frozen wherever it is** (no other step, no section ends, nothing is
reclaimed).  `s` ranges over ALL reachable states of the current code (`Current c`), so the other threads are
suspended at arbitrary points inside their operations: between linking a node and advancing the tail, between
the load of `q.head` and the CAS on it, inside `enqueue_dummy`, with any number of dummy nodes in the chain.

The bound is the explicit measure `mu s t` of `Lfq/Solo.lean`: tail lag (0 or 1, a lagging tail is *helped*,
never waited for) plus at most 6 steps per dummy node the dequeuer has to skip, plus a constant.  Every own
step strictly decreases it (`lfq_every_own_step_decreases_mu`), and a thread inside an operation always has an
enabled step (`lfq_never_waits`): there is no state in which it needs somebody else to move.
-/
namespace UrcuVerif.C17Lfq
open UrcuVerif.Lfq

/-- thread `t` is anywhere inside `_cds_lfq_enqueue_rcu` called by the application -/
def InEnqueue (s : State) (t : Nat) : Prop :=
  s.inDeq t = false ∧ (s.pc t = .eLd ∨ s.pc t = .eCas ∨ s.pc t = .eHelp ∨ s.pc t = .eAdv)

/-- thread `t` is anywhere inside `_cds_lfq_dequeue_rcu` (including the nested `enqueue_dummy`) -/
def InDequeue (s : State) (t : Nat) : Prop :=
  s.pc t = .dLdH ∨ s.pc t = .dLdN ∨ s.pc t = .dLdN2 ∨ s.pc t = .dLdT ∨ s.pc t = .dHelpT ∨ s.pc t = .dCas ∨
  (s.inDeq t = true ∧ (s.pc t = .eLd ∨ s.pc t = .eCas ∨ s.pc t = .eHelp ∨ s.pc t = .eAdv))

/-- dummy nodes currently in the chain from `q.head` -/
def dummies (s : State) : Nat := (s.chain.filter s.isDummy).length

/-- successor states of the two loads that have no name in `Model.lean` -/
def ldHeadS (s : State) (t : Nat) : State :=
  tick { s with hd := upd s.hd t s.head, ghd := upd s.ghd t (s.gen s.head), pc := upd s.pc t .dLdN }
def ldTailS (s : State) (t : Nat) : State :=
  tick { s with tl := upd s.tl t s.tail, gtl := upd s.gtl t (s.gen s.tail), pc := upd s.pc t .eCas }

/-- **lfq_never_waits** + measure: inside an operation the thread always has an enabled own step, whatever the
others are doing (or not doing), and every such step strictly decreases `mu`. -/
theorem lfq_never_waits {c : Cfg} (hc : Current c) {s : State} (r : Reach c s) (t : Nat) (hp : s.pc t ≠ .idle) :
    ∃ l s' o, step c s t l = some (s', o) ∧ OpLabel l ∧ mu s' t < mu s t :=
  solo_progress hc.1 (reach_inv hc.1 r) hp

/-- every own step of an operation (there is exactly one enabled per state, up to the address `make_dummy`
returns) decreases the measure — so it is not only *some* solo run that terminates, every one does -/
theorem lfq_every_own_step_decreases_mu {c : Cfg} (hc : Current c) {s s' : State} {t : Nat} {l : Label} {o : Out}
    (r : Reach c s) (st : step c s t l = some (s', o)) (ol : OpLabel l) : mu s' t < mu s t :=
  own_step_decreases hc.1 (reach_inv hc.1 r) st ol

/-- **lfq_enqueue_solo_terminates**: from any reachable state, wherever `t` is inside an enqueue and wherever the
others are frozen, `t` alone returns within 8 own steps (6 = two loop iterations when it starts at the call:
at most one failed link CAS, after which it has moved the lagging tail itself). -/
theorem lfq_enqueue_solo_terminates {c : Cfg} (hc : Current c) {s : State} (r : Reach c s) (t : Nat)
    (h : InEnqueue s t) :
    ∃ k s', k ≤ 8 ∧ (s.pc t = .eLd → k ≤ 6) ∧ SoloRun c t k s s' ∧ s'.pc t = .idle ∧ Reach c s' ∧
      ∀ u, u ≠ t → s'.pc u = s.pc u := by
  obtain ⟨k, s', hk, run, fin⟩ := solo_terminates_inv (t := t) hc.1 (reach_inv hc.1 r)
  have b := mu_enq_le h.1 h.2
  exact ⟨k, s', by omega, fun e => by have := b.2 e; omega, run, fin, soloRun_reach r run,
    fun u hu => (soloRun_frame run u hu).1⟩

/-- **lfq_dequeue_solo_terminates**: from any reachable state, wherever `t` is inside a dequeue, `t` alone returns
within `mu s t ≤ 6·(dummies in the chain, + 1 for its own unlinked dummy) + 25` own steps; from the call:
`6·dummies + 14`. -/
theorem lfq_dequeue_solo_terminates {c : Cfg} (hc : Current c) {s : State} (r : Reach c s) (t : Nat)
    (_h : InDequeue s t) :
    ∃ k s', k ≤ mu s t ∧ mu s t ≤ 6 * (dummies s + 1) + 25 ∧ (s.pc t = .dLdH → k ≤ 6 * dummies s + 14) ∧
      SoloRun c t k s s' ∧ s'.pc t = .idle ∧ Reach c s' ∧ ∀ u, u ≠ t → s'.pc u = s.pc u := by
  obtain ⟨k, s', hk, run, fin⟩ := solo_terminates_inv (t := t) hc.1 (reach_inv hc.1 r)
  have b := mu_le (s := s) (t := t)
  have d : dumT s t ≤ dummies s + 1 := by simp only [dumT, dummies]; split <;> omega
  refine ⟨k, s', hk, by omega, fun e => ?_, run, fin, soloRun_reach r run, fun u hu => (soloRun_frame run u hu).1⟩
  have e1 := mu_deq_entry e
  have e2 : dumT s t = dummies s := by simp [dumT, dummies, e]
  omega

/-- **cas_fails_only_by_interference**, the three CAS sites whose failure sends the thread round its loop again.

* head CAS (`cmpxchg(&q->head, head, next)`): it succeeds — and removes a node, which is progress — iff `q.head`
  still is what the thread loaded; the load makes the local copy current and no own step in between changes that,
  so a failure needs a step of ANOTHER thread (a successful head CAS: somebody else's progress) after the load;
* link CAS (`cmpxchg(&tail->next, NULL, node)`): with a current local `tail` it fails only when the tail lags,
  i.e. another enqueuer has linked its node (its linearisation point — progress) and not advanced `q.tail` yet;
* the tail CASes never loop. -/
theorem lfq_cas_fails_only_by_interference {c : Cfg} (hc : Current c) {s : State} (r : Reach c s) (t : Nat) :
    (s.pc t = .dCas → s.hd t = s.head →
        ∃ s' o, step c s t .casHead = some (s', o) ∧ s'.head = s.nx t ∧ s'.chain = s.chain.tail ∧ s.nx t ≠ 0) ∧
    (s.pc t = .dCas → s.hd t ≠ s.head → step c s t .casHead = some (casHeadFail s t, .unit)) ∧
    (s.pc t = .dLdH → ∃ s', step c s t .ldHead = some (s', .unit) ∧ s'.hd t = s'.head) ∧
    (∀ l s' o, step c s t l = some (s', o) → s.hd t = s.head → l ≠ .casHead → l ≠ .ldHead → s'.hd t = s'.head) ∧
    (s.pc t = .eCas → s.tl t = s.tail → lag s = 0 →
        ∃ s', step c s t .casNext = some (s', .unit) ∧ s'.pc t = .eAdv ∧ s'.next (s.tl t) = s.node t) ∧
    (s.pc t = .eCas → s.next (s.tl t) ≠ 0 → s.tl t ≠ s.tail ∨ lag s = 1) ∧
    (∀ l s' o, step c s t l = some (s', o) → s.tl t = s.tail → l ≠ .casTailAdv → l ≠ .casTailHelp → l ≠ .casTailD →
        l ≠ .ldTail → s'.tl t = s'.tail) := by
  have i := reach_inv hc.1 r
  refine ⟨fun hp hf => ?_, fun hp hf => ?_, fun hp => ?_, fun l s' o st hf h1 h2 => own_step_keeps_fresh_hd st hf h1 h2,
    fun hp hf hl => ?_, fun hp h0 => ?_, fun l s' o st hf h1 h2 h3 h4 => own_step_keeps_fresh_tl st hf h1 h2 h3 h4⟩
  · have nx0 := (i.d_nx t (.inr (.inr hp))).2
    cases hd : s.isDummy (s.hd t) with
    | true =>
      exact ⟨casHeadOk s t false, .unit, by simp [step, hp, hf.symm, hd], by simp [casHeadOk, tick], by simp [casHeadOk, tick], nx0⟩
    | false =>
      exact ⟨casHeadOk s t true, .node (s.hd t), by simp [step, hp, hf.symm, hd], by simp [casHeadOk, tick],
        by simp [casHeadOk, tick], nx0⟩
  · simp [step, hp, Ne.symm hf]
  · exact ⟨ldHeadS s t, by simp [step, hp, ldHeadS], by simp [ldHeadS, tick, upd]⟩
  · have h0 : s.next (s.tl t) = 0 := by
      rw [hf]; simp only [lag] at hl; split at hl <;> simp_all
    exact ⟨casNextOk s t, by simp [step, hp, h0], by simp [casNextOk, tick, upd], by simp [casNextOk, tick, upd]⟩
  · by_cases e : s.tl t = s.tail
    · right; rw [e] at h0; simp [lag, h0]
    · exact .inl e

/-- **helping, not waiting** (the retry of the link CAS succeeds): the thread's link CAS has failed because
another enqueuer is suspended between its link and its tail advance; nobody has touched `q.tail` since. Three
own steps later — it advances the tail itself, reloads it, links — its node is in the queue. -/
theorem lfq_link_retry_succeeds {c : Cfg} (hc : Current c) {s : State} (r : Reach c s) (t : Nat)
    (hp : s.pc t = .eHelp) (hf : s.tl t = s.tail) :
    ∃ s', SoloRun c t 3 s s' ∧ s'.pc t = .eAdv ∧ s'.tail = s.nx t ∧ s'.next (s.nx t) = s.node t := by
  have i := reach_inv hc.1 r
  have ⟨e1, e2⟩ := i.e_help t hp
  have ⟨_, _, f3, _⟩ := tail_move_facts i (x := s.nx t) (by rw [← hf]; exact e1) e2
  have st1 : step c s t .casTailHelp = some (casTailHelpOk s t, .unit) := by simp [step, hp, hf]
  let s1 := casTailHelpOk s t
  have p1 : s1.pc t = .eLd := by simp [s1, casTailHelpOk, tick, upd]
  have st2 : step c s1 t .ldTail = some (ldTailS s1 t, .unit) := by simp [step, p1, ldTailS]
  let s2 := ldTailS s1 t
  have p2 : s2.pc t = .eCas := by simp [s2, ldTailS, tick, upd]
  have t2 : s2.tl t = s.nx t := by simp [s2, s1, ldTailS, casTailHelpOk, tick, upd]
  have n2 : s2.next (s2.tl t) = 0 := by rw [t2]; simpa [s2, s1, ldTailS, casTailHelpOk, tick] using f3
  have st3 : step c s2 t .casNext = some (casNextOk s2 t, .unit) := by simp [step, p2, n2]
  refine ⟨casNextOk s2 t, .step st1 (by simp [OpLabel]) (.step st2 (by simp [OpLabel]) (.step st3 (by simp [OpLabel]) (.done _))),
    by simp [casNextOk, tick, upd], by simp [casNextOk, s2, s1, ldTailS, casTailHelpOk, tick], ?_⟩
  rw [← t2]; simp [casNextOk, tick, upd, s2, s1, ldTailS, casTailHelpOk]

/-- the executable solo runner really is a `SoloRun` (used by the examples below and by the driver's bound check) -/
theorem soloExec_sound {c : Cfg} {t k : Nat} {s s' : State} {n : Nat} (h : soloExec c t k s = some (s', n)) :
    SoloRun c t n s s' :=
  soloExec_soloRun h

/-! ## non-vacuity: concrete frozen states of the executable model -/

/-- thread 0 has linked node 2 and is frozen before advancing the tail (`q.tail` lags) -/
def frozenEnqueuer : List (Nat × Label) :=
  [ (0, .lock), (0, .enqCall 2), (0, .ldTail), (0, .casNext), (1, .lock), (1, .enqCall 4) ]

/-- thread 1 enqueues node 4 alone: first link CAS fails, it advances the tail for thread 0, retries: 6 own steps,
exactly the bound; thread 0 is still where it was -/
example : ((run { n := 2 } init frozenEnqueuer).bind (soloExec { n := 2 } 1 8)).map
    (fun r => (r.1.pc 1, r.2, r.1.chain, r.1.tail, r.1.pc 0)) = some (.idle, 6, [1, 2, 4], 4, .eAdv) := by decide
example : ((run { n := 2 } init frozenEnqueuer).map (fun s => (mu s 1, lag s))) = some (6, 1) := by decide
/-- 5 steps are not enough -/
example : ((run { n := 2 } init frozenEnqueuer).bind (soloExec { n := 2 } 1 5)).isNone = true := by decide

/-- a dequeuer running alone against the same frozen enqueuer: skips dummy 1 (helping the lagging tail on the way),
finds node 2 last, enqueues dummy 3, returns node 2 — 13 own steps, `mu` = 6·1 + 14 = 20 -/
def frozenEnqueuer2 : List (Nat × Label) :=
  [ (0, .lock), (0, .enqCall 2), (0, .ldTail), (0, .casNext), (1, .lock), (1, .deqCall) ]
example : ((run { n := 2 } init frozenEnqueuer2).bind (soloExec { n := 2 } 1 20)).map
    (fun r => (r.1.pc 1, r.2, r.1.chain, r.1.deqd, r.1.tail, r.1.pc 0)) = some (.idle, 13, [3], [2], 3, .eAdv) := by decide
example : ((run { n := 2 } init frozenEnqueuer2).map (fun s => (mu s 1, dummies s))) = some (20, 1) := by decide

/-- `lfq_link_retry_succeeds`' hypotheses are met after thread 1's failed link CAS -/
example : ((run { n := 2 } init (frozenEnqueuer ++ [(1, .ldTail), (1, .casNext)])).map
    (fun s => (s.pc 1, decide (s.tl 1 = s.tail)))) = some (.eHelp, true) := by decide

/-- a stale head: thread 1 loaded `q.head`, thread 0 then removed that node; thread 1's CAS fails once, its solo
run still returns (node 2, after inserting a fresh dummy) in 9 ≤ `mu` = 15 own steps -/
def staleHead : List (Nat × Label) :=
  [ (0, .lock), (0, .enqCall 2), (0, .ldTail), (0, .casNext), (0, .casTailAdv),
    (1, .lock), (1, .deqCall), (1, .ldHead), (1, .ldNext 0), (1, .ldTailD),          -- hd = dummy 1
    (0, .deqCall), (0, .ldHead), (0, .ldNext 0), (0, .ldTailD), (0, .casHead) ]      -- thread 0 removes dummy 1, frozen
example : ((run { n := 2 } init staleHead).bind fun s => (step { n := 2 } s 1 .casHead).map (fun r => r.1.pc 1)) =
    some .dLdH := by decide
example : ((run { n := 2 } init staleHead).bind (soloExec { n := 2 } 1 40)).map
    (fun r => (r.1.pc 1, r.1.deqd, r.2, r.1.chain)) = some (.idle, [2], 9, [3]) := by decide
example : ((run { n := 2 } init staleHead).map (fun s => mu s 1)) = some 15 := by decide

end UrcuVerif.C17Lfq
