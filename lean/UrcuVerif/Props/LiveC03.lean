import UrcuVerif.CallRcu.LiveWakeTso
import UrcuVerif.CallRcu.LiveWake
import UrcuVerif.CallRcu.LiveHelperRun
import UrcuVerif.Props.C03
/-!
# C03 liveness — "eventually" as theorems about fair runs

`Props/C03.lean` proves `helper_no_lost_wakeup`, `waker_not_stuck`, `waker_measure`, `helper_no_stuck`,
`helper_measure` (no-stuck + measure).  Here the temporal half, on infinite runs with idle steps
(`Machine/Fair.lean`), every fairness / environment assumption being a hypothesis of the theorem.
-/
namespace UrcuVerif.CallRcuWake
open UrcuVerif UrcuVerif.Fair

/-- **tso_helper_eventually_wakes** (x86-TSO store buffers explicit, any number of wakers enqueueing any number of
times, all spurious-return placements, any reachable start state): on every run that is weakly fair for every waker's
*wake path* (futex test, `futex := 0`, `FUTEX_WAKE`, store-buffer commit – NOT the decision to enqueue), a helper
asleep in `FUTEX_WAIT` with a non-empty queue eventually leaves the sleep.  No fairness for the helper is needed. -/
theorem tso_helper_eventually_wakes (c : Cfg) (hc : c.decAfter = false) {ρ : Nat → State} {ℓ : Nat → Option Label}
    (hrun : IsRun (step c) ρ ℓ) (hreach : Reach c (ρ 0))
    (hfair : ∀ i, i < c.n → WeakFair (step c) ρ ℓ (fun l => l ∈ wakeLabels i)) :
    ∀ i, (ρ i).hpc = .asleep → (ρ i).q ≠ 0 → ∃ j, i ≤ j ∧ (ρ j).hpc ≠ .asleep := by
  have hinv : ∀ j, Inv c (ρ j) := fun j =>
    inv_along hrun (Inv c) (fun s l s' h st => inv_step c hc h st) 0 (inv_reach c hc hreach) j (Nat.zero_le j)
  -- phase B: the futex has been reset, the waker that did it still owes the FUTEX_WAKE
  have phaseB : ∀ i, i < c.n → LeadsTo ρ (fun s => s.kpc i = .k3) (fun s => s.hpc ≠ .asleep) := by
    intro i hi
    refine fair_measure_leadsTo hrun (fun l => l ∈ wakeLabels i) (Inv c) _ _ (fun s => measure s i) hinv (hfair i hi)
      ?_ ?_ ?_ ?_
    · intro s l s' I hp hg st
      have hs : s.hpc = .asleep := Classical.byContradiction (fun h => hg h)
      by_cases hl : l ∈ wakeLabels i
      · simp only [wakeLabels, List.mem_cons, List.mem_nil_iff, or_false] at hl
        rcases hl with rfl | rfl | rfl | rfl | rfl <;>
          simp only [step] at st <;> split at st <;> simp only [Option.some.injEq, reduceCtorEq] at st <;>
          subst st <;> simp_all [upd]
      · rcases sleep_frame c i hs (by rw [hp]; decide) hl st with h | ⟨-, h1, -⟩
        · exact Or.inr h
        · exact Or.inl (by rw [h1]; exact hp)
    · intro s I hp _
      exact waker_enabled c i hi (by rw [hp]; decide)
    · intro s l s' I hp _ hl st
      exact Or.inl (waker_dec c i hl st)
    · intro s l s' I hp hg hl st
      have hs : s.hpc = .asleep := Classical.byContradiction (fun h => hg h)
      rcases sleep_frame c i hs (by rw [hp]; decide) hl st with h | ⟨-, h1, h2, -⟩
      · exact Or.inr h
      · exact Or.inl (by simp only [measure, h1, h2]; exact Nat.le_refl _)
  -- phase A: the futex still reads -1, some waker is going to reset it
  have phaseA : ∀ i, i < c.n → LeadsTo ρ (fun s => willWake s i) (fun s => s.hpc ≠ .asleep ∨ s.futex ≠ -1) := by
    intro i hi
    refine fair_measure_leadsTo hrun (fun l => l ∈ wakeLabels i) (Inv c) _ _ (fun s => measure s i) hinv (hfair i hi)
      ?_ ?_ ?_ ?_
    · intro s l s' I hp hg st
      have hs : s.hpc = .asleep := Classical.byContradiction (fun h => hg (Or.inl h))
      have hf : s.futex = -1 := Classical.byContradiction (fun h => hg (Or.inr h))
      exact willWake_unless c I i hp hs hf st
    · intro s I hp _
      exact waker_enabled c i hi (by unfold willWake at hp; grind)
    · intro s l s' I hp _ hl st
      exact Or.inl (waker_dec c i hl st)
    · intro s l s' I hp hg hl st
      have hs : s.hpc = .asleep := Classical.byContradiction (fun h => hg (Or.inl h))
      rcases sleep_frame c i hs (by unfold willWake at hp; grind) hl st with h | ⟨-, h1, h2, -⟩
      · exact Or.inr (Or.inl h)
      · exact Or.inl (by simp only [measure, h1, h2]; exact Nat.le_refl _)
  intro i0 hs hq
  have fromB : ∀ j, (ρ j).hpc = .asleep → (ρ j).futex = 0 → ∃ j', j ≤ j' ∧ (ρ j').hpc ≠ .asleep := by
    intro j hs h0
    obtain ⟨i, hi, hk⟩ := (hinv j).asleep_0 hs h0
    exact phaseB i hi j hk
  rcases (hinv i0).fut_range with h0 | h1
  · exact fromB i0 hs h0
  · obtain ⟨i, hi, hw⟩ := (hinv i0).asleep_m1 (by rw [hs]; rfl) h1 hq
    obtain ⟨j, hj, hg⟩ := phaseA i hi i0 hw
    by_cases hsj : (ρ j).hpc = .asleep
    · have h0 : (ρ j).futex = 0 := by
        rcases (hinv j).fut_range with h | h
        · exact h
        · rcases hg with hg | hg
          · exact absurd hsj hg
          · exact absurd h hg
      obtain ⟨j', hj', hg'⟩ := fromB j hsj h0
      exact ⟨j', Nat.le_trans hj hj', hg'⟩
    · exact ⟨j, hj, hsj⟩

/-! Non-vacuity: the helper sleeps (position 8), the waker's buffered `futex := 0` is flushed after that, `FUTEX_WAKE`
wakes it (position 10); then idling. -/
def wakePrefix : List Label := [.hDec, .hTake, .hChk, .hWaitLd, .kEnq 1, .kLd 1, .kSt 1, .hWaitFx .sleep, .flush 1, .kWake 1]

example : ∃ j, 8 ≤ j ∧ (prefixState (step { n := 2 }) (init { n := 2 }) wakePrefix j).hpc ≠ .asleep := by
  have h1 : (prefixFinal (step { n := 2 }) (init { n := 2 }) wakePrefix).isSome = true := by decide
  obtain ⟨sf, hsf⟩ := Option.isSome_iff_exists.mp h1
  have h2 : (prefixFinal (step { n := 2 }) (init { n := 2 }) wakePrefix).map
      (fun s => (s.kpc 0, s.bfut 0, s.kpc 1, s.bfut 1)) = some (.k0, false, .k0, false) := by decide
  rw [hsf] at h2
  simp only [Option.map_some, Option.some.injEq, Prod.mk.injEq] at h2
  have hfin := prefixState_final (step { n := 2 }) (init { n := 2 }) wakePrefix sf hsf
  refine tso_helper_eventually_wakes { n := 2 } rfl (ℓ := fun i => wakePrefix[i]?) (prefix_isRun _ _ _ sf hsf) Reach.init ?_ 8
    (by decide) (by decide)
  intro i hi
  refine weakFair_of_final _ wakePrefix.length sf hfin ?_
  rintro ⟨l, hl, he⟩
  simp only [wakeLabels, List.mem_cons, List.mem_nil_iff, or_false] at hl
  have hk : sf.kpc i = .k0 ∧ sf.bfut i = false := by
    match i, hi with
    | 0, _ => exact ⟨h2.1, h2.2.1⟩
    | 1, _ => exact ⟨h2.2.2.1, h2.2.2.2⟩
  rcases hl with rfl | rfl | rfl | rfl | rfl <;> simp [step, hk.1, hk.2] at he

end UrcuVerif.CallRcuWake

namespace UrcuVerif.CallRcu
open UrcuVerif UrcuVerif.Fair

/-- every state of a run from a reachable state is reachable -/
theorem reach_along (c : Cfg) {ρ : Nat → State} {ℓ : Nat → Option Label} (hrun : IsRun (step c) ρ ℓ)
    (hreach : Reach c (ρ 0)) (j : Nat) : Reach c (ρ j) :=
  inv_along hrun (Reach c) (fun _ _ _ h st => Reach.step h st) 0 hreach j (Nat.zero_le j)

/-- **helper_eventually_wakes** (full call_rcu model: any number of enqueuers, barriers, destroyers, helpers; every
placement of spurious / EINTR / EAGAIN returns; the waker's `futex := 0` delayed arbitrarily up to its `FUTEX_WAKE`;
any reachable start state).  Hypothesis about the run: weak fairness for every thread's *wake path*
(`uatomic_inc(&qlen)`, flag load, futex load, `futex := 0`, `FUTEX_WAKE`, and the `qlen` transfer of
`call_rcu_data_free`) – a thread inside `wake_call_rcu_thread()` is eventually scheduled.  Then a helper asleep in
`FUTEX_WAIT` although its queue is non-empty or STOP was requested eventually leaves the sleep.  No fairness for the
helper, no assumption on the mutex, on readers or on callbacks is needed. -/
theorem helper_eventually_wakes (c : Cfg) {ρ : Nat → State} {ℓ : Nat → Option Label}
    (hrun : IsRun (step c) ρ ℓ) (hreach : Reach c (ρ 0))
    (hfair : ∀ t, WeakFair (step c) ρ ℓ (fun l => l ∈ wakeLabels t)) :
    ∀ x i, (ρ i).hpc x = .asleep → ((ρ i).queue x ≠ [] ∨ (ρ i).stop x = true) →
      ∃ j, i ≤ j ∧ (ρ j).hpc x ≠ .asleep := by
  intro x
  have hR : ∀ j, Reach c (ρ j) := reach_along c hrun hreach
  -- phase B: the futex has been reset; the thread that did it still owes the FUTEX_WAKE
  have phaseB : ∀ t, LeadsTo ρ (fun s => (s.tpc t).waking = some x) (fun s => s.hpc x ≠ .asleep) := by
    intro t
    refine fair_measure_leadsTo hrun (fun l => l ∈ wakeLabels t) (Reach c) _ _ (fun s => wakeRank (s.tpc t)) hR (hfair t)
      ?_ ?_ ?_ ?_
    · intro s l s' R hp hg st
      have hs : s.hpc x = .asleep := Classical.byContradiction (fun h => hg h)
      by_cases hl : l ∈ wakeLabels t
      · exact Or.inr (waking_own c t x hp hs hl st)
      · exact Or.inl (by rw [tpc_frame c t (waking_onWake hp) hl st]; exact hp)
    · intro s R hp _
      exact waker_not_stuck c t x (Or.inr hp)
    · intro s l s' R hp _ hl st
      exact Or.inl (waker_measure c t hl st)
    · intro s l s' R hp _ hl st
      exact Or.inl (by rw [tpc_frame c t (waking_onWake hp) hl st]; exact Nat.le_refl _)
  -- phase A: the futex still reads -1; some thread is going to test and reset it
  have phaseA : ∀ t, LeadsTo ρ (fun s => willWake s t x) (fun s => s.hpc x ≠ .asleep ∨ s.futex x ≠ -1) := by
    intro t
    refine fair_measure_leadsTo hrun (fun l => l ∈ wakeLabels t) (Reach c) _ _ (fun s => wakeRank (s.tpc t)) hR (hfair t)
      ?_ ?_ ?_ ?_
    · intro s l s' R hp hg st
      obtain ⟨-, -, D, -, -, W⟩ := inv_reach_d c R
      have hf : s.futex x = -1 := Classical.byContradiction (fun h => hg (Or.inr h))
      by_cases hl : l ∈ wakeLabels t
      · rcases willWake_own c W t x hp hf hl st with h | h
        · exact Or.inl h
        · exact Or.inr (Or.inr h)
      · exact Or.inl (willWake_frame c D t x hp hl st)
    · intro s R hp _
      exact waker_not_stuck c t x (Or.inl hp)
    · intro s l s' R hp _ hl st
      exact Or.inl (waker_measure c t hl st)
    · intro s l s' R hp _ hl st
      exact Or.inl (by rw [tpc_frame c t (willWake_onWake hp) hl st]; exact Nat.le_refl _)
  intro i0 hs hq
  have fromB : ∀ j, (ρ j).hpc x = .asleep → (ρ j).futex x = 0 → ∃ j', j ≤ j' ∧ (ρ j').hpc x ≠ .asleep := by
    intro j hs h0
    obtain ⟨-, -, -, -, -, W⟩ := inv_reach_d c (hR j)
    obtain ⟨t, ht⟩ := W.w_0 x hs h0
    exact phaseB t j ht
  obtain ⟨-, -, -, -, -, W⟩ := inv_reach_d c (hR i0)
  rcases W.w_range x with h0 | h1
  · exact fromB i0 hs h0
  · obtain ⟨t, hw⟩ := W.w_m1 x (by rw [hs]; rfl) h1 (by
      rcases hq with hq | hst
      · exact Or.inr ⟨by rw [hs]; decide, hq⟩
      · exact Or.inl hst)
    obtain ⟨j, hj, hg⟩ := phaseA t i0 hw
    by_cases hsj : (ρ j).hpc x = .asleep
    · have h0 : (ρ j).futex x = 0 := by
        obtain ⟨-, -, -, -, -, Wj⟩ := inv_reach_d c (hR j)
        rcases Wj.w_range x with h | h
        · exact h
        · rcases hg with hg | hg
          · exact absurd hsj hg
          · exact absurd h hg
      obtain ⟨j', hj', hg'⟩ := fromB j hsj h0
      exact ⟨j', Nat.le_trans hj hj', hg'⟩
    · exact ⟨j, hj, hsj⟩

/-- **batched_callback_eventually_invoked**: a callback the helper has spliced out is eventually invoked and
finishes (hypotheses as in `queued_callback_eventually_invoked`, STOP / PAUSE not needed). -/
theorem batched_callback_eventually_invoked (c : Cfg) {ρ : Nat → State} {ℓ : Nat → Option Label}
    (hrun : IsRun (step c) ρ ℓ) (hreach : Reach c (ρ 0)) (x : Nat)
    (hfairH : WeakFair (step c) ρ ℓ (hOwn x))
    (hsec : ∀ t j, 0 < (ρ j).nest t → ∃ j', j ≤ j' ∧ (ρ j').nest t = 0)
    (hcb : ∀ j, (ρ j).hpc x = .run → ∃ j', j ≤ j' ∧ (ρ j').hpc x ≠ .run) :
    ∀ id i, id ∈ (ρ i).batch x → ∃ j, i ≤ j ∧ (ρ j).fin id = true ∧ (ρ j).invN id = 1 := by
  intro id j1 hb
  have hR : ∀ j, Reach c (ρ j) := reach_along c hrun hreach
  have hA : ∀ j, InvA c (ρ j) := fun j => (inv_reach c (hR j)).1
  -- the batch is eventually done; on the way `id` is taken out of it, i.e. invoked
  have hbusy : ((ρ j1).hpc x).busy = true := by
    rcases (hA j1).batch_pc x (by intro h; rw [h] at hb; simp at hb) with h | h | h <;> rw [h] <;> rfl
  obtain ⟨j2, hj2, hsub⟩ := batch_eventually_done c hrun hR x hfairH hsec hcb j1 hbusy
  have hnb : ¬ id ∈ (ρ j2).batch x := by
    intro h
    rcases (hA j2).batch_pc x (by intro h0; rw [h0] at h; simp at h) with h1 | h1 | h1 <;> rw [hsub] at h1 <;> cases h1
  obtain ⟨m, hm1, hm2, hin, hout⟩ := change_step (ρ := ρ) (fun s => id ∈ s.batch x) hj2 hb hnb
  have hcur : (ρ (m + 1)).cur x = some id := by
    cases hl : ℓ m with
    | none => rw [hrun.idle m hl] at hout; exact absurd hin hout
    | some l => exact batch_remove c (hA m) x id hin hout (hrun.move m l hl)
  -- the callback terminates
  have hrunpc : (ρ (m + 1)).hpc x = .run := ((hA (m + 1)).cur_run x).mp (by rw [hcur]; rfl)
  obtain ⟨j3, hj3, hnr⟩ := hcb (m + 1) hrunpc
  have hnc : ¬ (ρ j3).cur x = some id := by
    intro h
    exact hnr (((hA j3).cur_run x).mp (by rw [h]; rfl))
  obtain ⟨m', hm1', hm2', hin', hout'⟩ := change_step (ρ := ρ) (fun s => s.cur x = some id) hj3 hcur hnc
  have hfin : (ρ (m' + 1)).fin id = true := by
    cases hl : ℓ m' with
    | none => rw [hrun.idle m' hl] at hout'; exact absurd hin' hout'
    | some l => exact cur_remove c (hA m') x id hin' hout' (hrun.move m' l hl)
  refine ⟨m' + 1, by omega, hfin, ?_⟩
  exact ((cb_at_most_once c (hR (m' + 1)) id).2).mpr (Or.inr hfin)

/-- **queued_callback_eventually_invoked** (full call_rcu model; any number of enqueuers, barriers, creators and
destroyers of *other* helpers, helpers, readers; every futex outcome; any reachable start state).  For a helper `x`,
hypotheses about the run – each was part of "trusted base 5" and is now explicit:
* `hfairH`: weak fairness for the helper thread's own steps (`call_rcu_thread`);
* `hfairW`: weak fairness for every thread's wake path (`wake_call_rcu_thread()`), needed when the helper sleeps;
* `hsec`: every read-side section eventually ends ("grace periods end if sections end": the helper's
  `synchronize_rcu()` is the abstract `GpSpec`, C01/C02);
* `hcb`: the callbacks the helper runs terminate;
* `hstop`: nobody asks the helper to stop (`call_rcu_data_free(x)` is not called) – otherwise the callback may be
  handed over to the default helper (`leftovers_handed_over`), which this theorem does not follow;
* `hpause`: the fork handlers do not pause the helper (no `call_rcu_before_fork` in progress).
Then every callback in the helper's queue is eventually invoked, exactly once, and finishes. -/
theorem queued_callback_eventually_invoked (c : Cfg) {ρ : Nat → State} {ℓ : Nat → Option Label}
    (hrun : IsRun (step c) ρ ℓ) (hreach : Reach c (ρ 0)) (x : Nat)
    (hfairH : WeakFair (step c) ρ ℓ (hOwn x))
    (hfairW : ∀ t, WeakFair (step c) ρ ℓ (fun l => l ∈ wakeLabels t))
    (hsec : ∀ t j, 0 < (ρ j).nest t → ∃ j', j ≤ j' ∧ (ρ j').nest t = 0)
    (hcb : ∀ j, (ρ j).hpc x = .run → ∃ j', j ≤ j' ∧ (ρ j').hpc x ≠ .run)
    (hstop : ∀ j, (ρ j).stop x = false) (hpause : ∀ j, (ρ j).pause x = false) :
    ∀ id i, id ∈ (ρ i).queue x → ∃ j, i ≤ j ∧ (ρ j).fin id = true ∧ (ρ j).invN id = 1 := by
  intro id i hq
  have hR : ∀ j, Reach c (ρ j) := reach_along c hrun hreach
  obtain ⟨j1, hj1, hb⟩ := queued_eventually_spliced c hrun hR x hfairH hfairW hsec hcb hstop hpause id i hq
  obtain ⟨j, hj, h⟩ := batched_callback_eventually_invoked c hrun hreach x hfairH hsec hcb id j1 hb
  exact ⟨j, by omega, h⟩

/-! Non-vacuity: the default helper is created lazily and goes to sleep (position 14); `call_rcu()` of thread 0
enqueues (15) and walks the wake path; its `FUTEX_WAKE` (position 20) wakes the helper; then idling.  All hypotheses
of `helper_eventually_wakes` hold on this run (fairness for EVERY thread id, via the invariants). -/
def wakePrefix : List Label :=
  [.crCall 0 7, .crSelNoCpu 0 0, .gdLd 0, .gdLock 0, .gdCreate 0, .gdUnlock 0,
   .hStart 0, .hDec0 0, .hTop 0, .hSplice 0, .hStopChk 0, .hEmptyChk 0, .hWaitLd 0, .hWaitFx 0 .sleep,
   .enq 0, .inc 0, .ldFlags 0, .ldFutex 0, .stFutex 0, .wake 0, .crRet 0]

/-- in a reachable state without a running callback every thread that is not a user thread is idle -/
theorem idle_of_no_run (c : Cfg) {s : State} (R : Reach c s) (hn : ∀ h, h < s.nextH → s.hpc h ≠ .run) (t : Nat)
    (ht : c.n ≤ t) : s.tpc t = .idle := by
  obtain ⟨A, -, D, -, -, -⟩ := inv_reach_d c R
  apply Classical.byContradiction
  intro h
  have hr := D.hthr_run t ht h
  by_cases hlt : t - c.n < s.nextH
  · exact hn _ hlt hr
  · have := (A.fresh (t - c.n) (by omega)).1
    rw [this] at hr; cases hr

example : ∃ j, 15 ≤ j ∧ (prefixState (step cfg2) init wakePrefix j).hpc 0 ≠ .asleep := by
  have h1 : (prefixFinal (step cfg2) init wakePrefix).isSome = true := by decide
  obtain ⟨sf, hsf⟩ := Option.isSome_iff_exists.mp h1
  have h2 : (prefixFinal (step cfg2) init wakePrefix).map (fun s => (s.tpc 0, s.tpc 1, s.nextH, s.hpc 0)) =
      some (.idle, .idle, 1, .waitLd) := by decide
  rw [hsf] at h2
  simp only [Option.map_some, Option.some.injEq, Prod.mk.injEq] at h2
  have hfin := prefixState_final (step cfg2) init wakePrefix sf hsf
  have hrun := prefix_isRun (step cfg2) init wakePrefix sf hsf
  have hRf : Reach cfg2 sf := by
    have := reach_along cfg2 hrun Reach.init wakePrefix.length
    rwa [hfin _ (Nat.le_refl _)] at this
  have hidle : ∀ t, sf.tpc t = .idle := by
    intro t
    by_cases ht : 2 ≤ t
    · refine idle_of_no_run cfg2 hRf (fun h hh => ?_) t ht
      rw [h2.2.2.1] at hh
      have : h = 0 := by omega
      subst this; rw [h2.2.2.2]; decide
    · have ht : t < 2 := by omega
      match t, ht with
      | 0, _ => exact h2.1
      | 1, _ => exact h2.2.1
  refine helper_eventually_wakes cfg2 (ℓ := fun i => wakePrefix[i]?) hrun Reach.init ?_ 0 15 (by decide) (Or.inl (by decide))
  intro t
  refine weakFair_of_final _ wakePrefix.length sf hfin ?_
  rintro ⟨l, hl, he⟩
  simp only [wakeLabels, List.mem_cons, List.mem_nil_iff, or_false] at hl
  rcases hl with rfl | rfl | rfl | rfl | rfl | rfl <;> simp [step, hidle t] at he
example : (prefixState (step cfg2) init wakePrefix 19).hpc 0 = .asleep ∧ (prefixState (step cfg2) init wakePrefix 20).hpc 0 = .waitLd := by
  decide

/-! Non-vacuity of `queued_callback_eventually_invoked`: the run above continued – the woken helper re-checks, splices
the queue (position 26), runs a grace period, invokes callback 7 (position 28), which finishes (position 29), updates
`qlen` and goes back to sleep; then idling.  All eight hypotheses hold on this run. -/
def invokePrefix : List Label :=
  wakePrefix ++ [.hWaitLd 0, .hPollW 0, .hDec 0, .hTop 0, .hSplice 0, .hGpEnd 0, .hRunBegin 0 7, .hRunEnd 0, .hInvDone 0, .hSub 0,
    .hStopChk 0, .hEmptyChk 0, .hWaitLd 0, .hWaitFx 0 .sleep]

example : ∃ j, 15 ≤ j ∧ (prefixState (step cfg2) init invokePrefix j).fin 7 = true ∧
    (prefixState (step cfg2) init invokePrefix j).invN 7 = 1 := by
  have h1 : (prefixFinal (step cfg2) init invokePrefix).isSome = true := by decide
  obtain ⟨sf, hsf⟩ := Option.isSome_iff_exists.mp h1
  have h2 : (prefixFinal (step cfg2) init invokePrefix).map
      (fun s => (s.tpc 0, s.tpc 1, s.nextH, s.hpc 0)) = some (.idle, .idle, 1, .asleep) := by decide
  have h3 : (prefixFinal (step cfg2) init invokePrefix).map
      (fun s => (s.nest 0, s.nest 1, s.nest 2, s.stop 0, s.pause 0)) = some (0, 0, 0, false, false) := by decide
  rw [hsf] at h2 h3
  simp only [Option.map_some, Option.some.injEq, Prod.mk.injEq] at h2 h3
  obtain ⟨e1, e2, e3, e4⟩ := h2
  obtain ⟨e5, e6, e7, e8, e9⟩ := h3
  have hfin := prefixState_final (step cfg2) init invokePrefix sf hsf
  have hrun := prefix_isRun (step cfg2) init invokePrefix sf hsf
  have hRf : Reach cfg2 sf := by
    have := reach_along cfg2 hrun Reach.init invokePrefix.length
    rwa [hfin _ (Nat.le_refl _)] at this
  have hidle : ∀ t, sf.tpc t = .idle := by
    intro t
    by_cases ht : 2 ≤ t
    · refine idle_of_no_run cfg2 hRf (fun h hh => ?_) t ht
      rw [e3] at hh
      have : h = 0 := by omega
      subst this; rw [e4]; decide
    · have ht : t < 2 := by omega
      match t, ht with
      | 0, _ => exact e1
      | 1, _ => exact e2
  have hnest : ∀ t, sf.nest t = 0 := by
    intro t
    by_cases ht : t < 3
    · match t, ht with
      | 0, _ => exact e5
      | 1, _ => exact e6
      | 2, _ => exact e7
    · exact (inv_reach cfg2 hRf).2.1.inert t (by simp only [nthr, e3]; show 2 + 1 ≤ t; omega)
  have hpre : ∀ j, j < invokePrefix.length → (prefixState (step cfg2) init invokePrefix j).stop 0 = false ∧
      (prefixState (step cfg2) init invokePrefix j).pause 0 = false := by decide
  have hsp : ∀ j, (prefixState (step cfg2) init invokePrefix j).stop 0 = false ∧
      (prefixState (step cfg2) init invokePrefix j).pause 0 = false := by
    intro j
    by_cases hj : j < invokePrefix.length
    · exact hpre j hj
    · rw [hfin j (by omega)]; exact ⟨e8, e9⟩
  refine queued_callback_eventually_invoked cfg2 (ℓ := fun i => invokePrefix[i]?) hrun Reach.init 0 ?_ ?_ ?_ ?_
    (fun j => (hsp j).1) (fun j => (hsp j).2) 7 15 (by decide)
  · refine weakFair_of_final _ invokePrefix.length sf hfin ?_
    rintro ⟨l, hl, he⟩
    unfold hOwn at hl
    cases l <;> simp only [helperLabel, beq_iff_eq, Bool.false_eq_true] at hl <;> subst hl <;> simp [step, e4] at he <;>
      (split at he <;> simp at he)
  · intro t
    refine weakFair_of_final _ invokePrefix.length sf hfin ?_
    rintro ⟨l, hl, he⟩
    simp only [wakeLabels, List.mem_cons, List.mem_nil_iff, or_false] at hl
    rcases hl with rfl | rfl | rfl | rfl | rfl | rfl <;> simp [step, hidle t] at he
  · intro t j _
    refine ⟨j + invokePrefix.length, by omega, ?_⟩
    show (prefixState (step cfg2) init invokePrefix (j + invokePrefix.length)).nest t = 0
    rw [hfin _ (by omega)]; exact hnest t
  · intro j _
    refine ⟨j + invokePrefix.length, by omega, ?_⟩
    show (prefixState (step cfg2) init invokePrefix (j + invokePrefix.length)).hpc 0 ≠ .run
    rw [hfin _ (by omega), e4]; decide
example : (prefixState (step cfg2) init invokePrefix 15).queue 0 = [7] ∧ (prefixState (step cfg2) init invokePrefix 26).batch 0 = [7] ∧
    (prefixState (step cfg2) init invokePrefix 28).cur 0 = some 7 ∧ (prefixState (step cfg2) init invokePrefix 28).fin 7 = false ∧
    (prefixState (step cfg2) init invokePrefix 29).fin 7 = true := by decide

end UrcuVerif.CallRcu
