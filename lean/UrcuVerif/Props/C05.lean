import UrcuVerif.Lfht.Conc.Resident
import UrcuVerif.Lfht.Conc.Traverse
import UrcuVerif.Props.C07
/-!
# C05 — hash table: concurrent operations are linearizable; resident nodes are never missed
(statements and final theorems; helper lemmas in `Lfht/Conc/Inv*.lean`, `ListLemmas.lean`, `ListThms.lean`,
`Resident.lean`, `Traverse.lean`)

Model and quantifiers as in `Props/C07.lean`: any number of threads, every interleaving of the shared
accesses of `_cds_lfht_add` (all modes), `_cds_lfht_replace`, `_cds_lfht_del`, `_cds_lfht_gc_bucket`,
lookups/traversals, and of grow/shrink with helper threads and grace periods.

Proved for ALL reachable states — the floor of DESIGN §4 C05, on the ghost list `L` (= the nodes linked from
bucket 0, updated by the three kinds of successful CAS):
`chain_L`, `sorted_L`, `unremoved_linked_in_L`, `sorted_edges`, `insert_cas_sound`, `grow_before_publish`,
`traversal_monotone`; and the targets: `resident_found` for lookups and for `first`/`next` traversals (reachability
position invariants), the update part of `lfht_linearizable` (`visible_set_linearizes`) and `found_was_visible`
(`C05_full_holds`).
-/
namespace UrcuVerif.Lfht.Conc
open UrcuVerif

/-- **chain_L**: `L` has no duplicates, starts the bucket-0 chain, and the pointer part of `a->next` is `a`'s
successor in `L` (NULL for the last node) -/
def ChainL : Prop :=
  ∀ c s, Current c → Reach c s → s.L.Nodup ∧ Chn (nxp s) s.L ∧ s.tbl 0 ∈ s.L ∧ 0 ∉ s.L

/-- **sorted_L**: `L` is in split order — non-decreasing reversed hash, bucket nodes before the other nodes
of equal reversed hash -/
def SortedL : Prop := ∀ c s, Current c → Reach c s → s.L.Pairwise (ok s)

/-- **unremoved_linked_in_L**: `L` is exactly the set of linked nodes; a node leaves `L` only after being
flagged, so every published node whose `next` is not flagged is in `L` *now* -/
def UnremovedLinkedInL : Prop :=
  ∀ c s, Current c → Reach c s → ∀ p,
    (p ∈ s.L ↔ s.life p = .linked) ∧
    ((s.life p = .linked ∨ s.life p = .unlinked) → (s.nxt p).rem = false → p ∈ s.L) ∧
    (s.life p = .unlinked → (s.nxt p).rem = true)

/-- **sorted_edges**: every `next` edge of a published node — also the frozen edge of an unlinked node — goes
to a node that sorts behind it -/
def SortedEdges : Prop :=
  ∀ c s, Current c → Reach c s → ∀ p, (s.life p = .linked ∨ s.life p = .unlinked) → (s.nxt p).ptr ≠ 0 →
    ok s p (s.nxt p).ptr ∧ s.rev p ≤ s.rev (s.nxt p).ptr

/-- **insert_cas_sound** -/
def InsertCasSound : Prop :=
  ∀ c s s' t o, Current c → Reach c s → step c s t .casIns = some (s', o) →
    s.nxt (s.th t).prev = (s.th t).iter → okp s (s.th t).prev = true →
    (s.th t).prev ∈ s.L ∧ (s.nxt (s.th t).prev).rem = false ∧ s.life (s.th t).node = .priv ∧ (s.th t).node ∉ s.L ∧
    nxp s (s.th t).prev = (s.th t).iter.ptr ∧ ((s.th t).iter.ptr = 0 ∨ (s.th t).iter.ptr ∈ s.L) ∧
    ok s (s.th t).prev (s.th t).node ∧ ((s.th t).iter.ptr ≠ 0 → ok s (s.th t).node (s.th t).iter.ptr) ∧
    s'.L = insAfter (s.th t).prev (s.th t).node s.L ∧ nxp s' (s.th t).prev = (s.th t).node ∧
    nxp s' (s.th t).node = (s.th t).iter.ptr

/-- **grow_before_publish** -/
def GrowBeforePublish : Prop :=
  ∀ c s s' t o, Current c → Reach c s → step c s t .stSizeGrow = some (s', o) →
    s.size < s'.size ∧ ∀ i, i < s'.size → s.tbl i ≠ 0 ∧ s.life (s.tbl i) = .linked ∧ (s.nxt (s.tbl i)).rem = false

/-- **traversal_monotone**: every hop of a walk goes along a `next` edge to a node that sorts behind; the
iterator pair `(node, next)` kept between `cds_lfht_next` calls is such an edge too -/
def TraversalMonotone : Prop :=
  (∀ c s s' t o, Current c → Reach c s → step c s t .ldWalk = some (s', o) → (s'.th t).pc = .wNext →
      okp s (s.th t).cur = true →
      (s'.th t).cur = nxp s (s.th t).cur ∧ ok s (s.th t).cur (s'.th t).cur ∧ s.rev (s.th t).cur ≤ s.rev (s'.th t).cur) ∧
  (∀ c s t, Current c → Reach c s → (s.th t).pc = .idle → (s.th t).itn ≠ 0 → (s.th t).itx.ptr ≠ 0 →
      ok s (s.th t).itn (s.th t).itx.ptr)

/-- **resident_found**: a `cds_lfht_lookup(h, k)` cannot report "not found" (`iter 0 _`) if, for its whole duration
(from the call to the return, in every state of the execution), one node `q` with reversed hash `rev h` and key `k`
is visible — whatever other threads add, remove, replace or resize meanwhile.  `evs` = the call event followed by
any interleaving in which `t`'s own events belong to that lookup. -/
def ResidentFound : Prop :=
  ∀ c s0 evs s1 t h k q, Current c → Reach c s0 → Exec c s0 evs s1 →
    (∃ e0 rest, evs = e0 :: rest ∧ e0.2.1 = t ∧ e0.2.2.1 = .callLookup h k ∧
      ∀ e, e ∈ rest → e.2.1 = t → (e.1.th t).op = .lookup) →
    (∀ e, e ∈ evs → vis e.1 q ∧ e.1.rev q = bitReverse64 h ∧ e.1.key q = k) →
    ∀ e, e ∈ evs → e.2.1 = t → ∀ w, e.2.2.2 ≠ .iter 0 w

/-- **no false positive**: the node a walk is about to return was visible — linked, unflagged, not a bucket —
at the load that decided the match, and (for a lookup) has the requested hash and key -/
def FoundWasVisible : Prop :=
  ∀ c s s' t o, Current c → Reach c s → step c s t .ldWalk = some (s', o) → (s'.th t).pc = .wAssert →
    okp s (s.th t).cur = true →
    vis s (s.th t).cur ∧ (s'.th t).cur = (s.th t).cur ∧
    ((s.th t).wk = .lookup → s.rev (s.th t).cur = (s.th t).rh ∧ s.key (s.th t).cur = (s.th t).ky)

/-- **resident_found for traversals**: a `first`/`next` traversal inside one read-side section returns every node
that stays visible from the `first` call to the `next` call that answers "end".  `evs` = the `callFirst` of `t`
followed by any interleaving in which `t` does not leave the traversal (`Leaves` = `runlock`, a new `first` / `lookup`,
or `next_duplicate`, which ends at the end of the run of equal hashes); `t` may delete, replace or add in between. -/
def ResidentFoundTraversal : Prop :=
  ∀ c s0 evs s1 t q, Current c → Reach c s0 → Exec c s0 evs s1 →
    (∃ e0 rest, evs = e0 :: rest ∧ e0.2.1 = t ∧ e0.2.2.1 = .callFirst ∧
      ∀ e, e ∈ rest → e.2.1 = t → ¬ Leaves e.2.2.1) →
    (∀ e, e ∈ evs → vis e.1 q) →
    (∃ e w, e ∈ evs ∧ e.2.1 = t ∧ e.2.2.2 = .iter 0 w) →
    ∃ e w, e ∈ evs ∧ e.2.1 = t ∧ e.2.2.2 = .iter q w

/-- **lfht_linearizable**, update part: the set of visible nodes changes only at the linearisation
points — the insertion CAS of a user node adds exactly that node, the `REMOVED` fetch-or removes exactly the
target, the replace CAS exchanges `old` for `new`; every other step (helping, bucket insertion, resize, loads)
leaves it unchanged. -/
def VisibleSetLinearizes : Prop :=
  ∀ c s s' t l o, Current c → Reach c s → step c s t l = some (s', o) →
    (∀ p, vis s' p ↔ vis s p) ∨
    (l = .casIns ∧ ∀ p, vis s' p ↔ (p = (s.th t).node ∨ vis s p)) ∨
    (l = .orRem ∧ ∀ p, vis s' p ↔ (p ≠ (s.th t).node ∧ vis s p)) ∨
    (l = .casRepl ∧ ∀ p, vis s' p ↔ (p = (s.th t).node ∨ (p ≠ (s.th t).old ∧ vis s p)))

/-- C05 at full strength (on the model) -/
def C05_full : Prop :=
  ChainL ∧ SortedL ∧ UnremovedLinkedInL ∧ SortedEdges ∧ InsertCasSound ∧ GrowBeforePublish ∧ TraversalMonotone ∧
  VisibleSetLinearizes ∧ FoundWasVisible ∧ ResidentFound ∧ ResidentFoundTraversal

/-- everything but `resident_found` for `first`/`next` traversals (kept for the record; all of `C05_full` is proved below) -/
def C05_partial : Prop :=
  ChainL ∧ SortedL ∧ UnremovedLinkedInL ∧ SortedEdges ∧ InsertCasSound ∧ GrowBeforePublish ∧ TraversalMonotone ∧
  VisibleSetLinearizes ∧ FoundWasVisible ∧ ResidentFound

theorem chain_L : ChainL := by
  intro c s hc r
  have ⟨hR, hF, hL⟩ := invRFL_reach hc r
  obtain ⟨g1, g2, g3, _, _⟩ := hL.g
  have fg := hF.g; have rg := hR.g
  simp only [GF, live] at fg; simp only [GR] at rg
  have sz0 : 0 < s.size := by have := rg.1.1; have := Nat.two_pow_pos (Nat.log2 s.size); omega
  refine ⟨g1, g3, (g2 _).mpr (fg.2.2.1 0 sz0).1, ?_⟩
  intro h; have := (g2 0).mp h; rw [fg.2.1] at this; cases this

theorem sorted_L : SortedL := by
  intro c s hc r; exact (invRFL_reach hc r).2.2.g.2.2.2.1

theorem unremoved_linked_in_L : UnremovedLinkedInL := by
  intro c s hc r p
  have ⟨hR, hF, hL⟩ := invRFL_reach hc r
  have g2 := hL.g.2.1 p
  have fp := hF.g.1 p
  simp only [GFn] at fp
  refine ⟨g2, ?_, fp.2.2.2.2.2.2.2⟩
  intro hv hr
  rcases hv with h | h
  · exact g2.mpr h
  · have := fp.2.2.2.2.2.2.2 h; rw [hr] at this; cases this

theorem sorted_edges : SortedEdges := by
  intro c s hc r p hv hn
  have ⟨_, _, hL⟩ := invRFL_reach hc r
  have := hL.g.2.2.2.2 p (by simp only [valid]; rcases hv with h | h <;> simp [h]) hn
  refine ⟨this, ?_⟩
  simp only [ok] at this; omega

theorem insert_cas_sound : InsertCasSound := by
  intro c s s' t o hc r st h1 h2; exact insert_cas_sound_step hc r st h1 h2

theorem grow_before_publish : GrowBeforePublish := by
  intro c s s' t o hc r st; exact grow_before_publish_step hc r st

theorem traversal_monotone : TraversalMonotone := by
  refine ⟨fun c s s' t o hc r st hp hd => walk_hop hc r st hp hd, ?_⟩
  intro c s t hc r hp h1 h2
  have ⟨_, _, hL⟩ := invRFL_reach hc r
  have := hL.t t
  simp only [TL] at this
  exact this.2.2.2.2.2.2.2.2.1 (by rw [hp]; simp) h1 h2

theorem visible_set_linearizes : VisibleSetLinearizes := by
  intro c s s' t l o hc r st; exact vis_step hc r st

theorem found_was_visible_thm : FoundWasVisible := by
  intro c s s' t o hc r st hp hd; exact found_was_visible hc r st hp hd

theorem resident_found : ResidentFound := by
  intro c s0 evs s1 t h k q hc r ex hcall hv; exact resident_found_exec hc r ex hcall hv

theorem C05_partial_holds : C05_partial :=
  ⟨chain_L, sorted_L, unremoved_linked_in_L, sorted_edges, insert_cas_sound, grow_before_publish, traversal_monotone,
    visible_set_linearizes, found_was_visible_thm, resident_found⟩

theorem resident_found_traversal : ResidentFoundTraversal := by
  intro c s0 evs s1 t q hc r ex hcall hv hend; exact resident_found_traversal_exec hc r ex hcall hv hend

theorem C05_full_holds : C05_full :=
  ⟨chain_L, sorted_L, unremoved_linked_in_L, sorted_edges, insert_cas_sound, grow_before_publish, traversal_monotone,
    visible_set_linearizes, found_was_visible_thm, resident_found, resident_found_traversal⟩

/-! ## Non-vacuity: three adds with colliding hashes, one logical delete pending, a grow in progress -/

def c3 : Cfg := { n := 3 }

/-- T0 adds node 5 (hash 3) and node 6 (hash 1); T1 grows the table to size 2 (bucket 1 = node 10) and is
suspended before storing the size; T2 adds node 7 (hash 3) behind 5 -/
def busy : List (Nat × Label) :=
  [(0, .rlock), (0, .callAdd .plain 5 3 30), (0, .ldSize), (0, .ldHeadA), (0, .casIns),
   (0, .callAdd .plain 6 1 10), (0, .ldSize), (0, .ldHeadA), (0, .casIns),
   (1, .rzLock), (1, .tblAlloc 10), (1, .partBegin), (1, .ldHeadA), (1, .casIns), (1, .partEnd),
   (2, .rlock), (2, .callAdd .plain 7 3 31), (2, .ldSize), (2, .ldHeadA), (2, .ldNextA), (2, .ldNextA), (2, .ldNextA), (2, .casIns)]

example : (run c3 init busy).map (fun s => (s.L, s.size, (s.th 1).pc, s.L.map s.rev |>.map (· / 2^60))) =
    some ([1, 10, 6, 5, 7], 1, .zPart, [0, 8, 8, 12, 12]) := by decide

/-- the hypotheses of `insert_cas_sound` are met by the last step of that run -/
example : ∃ s, Reach c3 s ∧ (s.th 2).pc = .aCas ∧ s.nxt (s.th 2).prev = (s.th 2).iter ∧ okp s (s.th 2).prev = true ∧
    (s.th 2).prev = 5 ∧ (s.th 2).iter.ptr = 0 :=
  ⟨(run c3 init busy.dropLast).get (by decide), run_reach .init (Option.some_get _).symm, by decide, by decide,
    by decide, by decide, by decide⟩

/-- and `grow_before_publish`: the size store is enabled, bucket 1 is linked -/
example : ((run c3 init busy).bind fun s => (step c3 s 1 .stSizeGrow).map fun r => (r.1.size, s.life 10)) =
    some (2, .linked) := by decide

/-- a complete `first`/`next` traversal by T1 over the two user nodes: 6, 5, end -/
def travRun : List (Nat × Label) :=
  [(0, .rlock), (0, .callAdd .plain 5 3 30), (0, .ldSize), (0, .ldHeadA), (0, .casIns),
   (0, .callAdd .plain 6 1 10), (0, .ldSize), (0, .ldHeadA), (0, .casIns),
   (1, .rlock), (1, .callFirst), (1, .ldFirst), (1, .ldWalk), (1, .ldAssertW),
   (1, .callNext), (1, .ldWalk), (1, .ldAssertW), (1, .callNext)]

example : (runOut c3 init travRun).map (fun x => (x.1.L, x.2.drop 13)) =
    some ([1, 6, 5], [.iter 6 { ptr := 5 }, .unit, .unit, .iter 5 {}, .iter 0 {}]) := by decide

end UrcuVerif.Lfht.Conc
