import UrcuVerif.Gp.Qsbr
/-!
# C01 (QSBR flavor) — synchronize_rcu() waits for every pre-existing implicit section

Model: `Gp/Qsbr.lean` (64-bit single-pass `urcu_qsbr_synchronize_rcu`, x86-TSO, any number of
readers going online/offline, reporting quiescent states, registering and unregistering at any
time; the "skip when equal" fast path of `rcu_quiescent_state()` included).
-/
namespace UrcuVerif.Qsbr

/-- **gp_guarantee_qsbr**: when the tracked grace period's scan has emptied its input list (the
state in which `synchronize_rcu()` returns), no reader is still inside an implicit section that
began before the grace period incremented the counter. -/
theorem gp_guarantee_qsbr (c : Cfg) {s : State} (h : Reach c s) (ht : s.tracked = true)
    (hp : s.upc = .scan) (hdone : ∀ j, j < c.n → s.inp j = false) : ∀ i, s.inD i = false := by
  have I := inv_reach c h
  intro i
  cases hd : s.inD i with
  | false => rfl
  | true =>
    have h1 := (I.d_old ht i hd).2
    have h2 := I.d_out i hd
    have h3 := (I.rpc_reg i (Or.inr h2.2)).2
    have := hdone i h3
    simp_all

theorem gp_guarantee_qsbr_after_return (c : Cfg) {s : State} (h : Reach c s)
    (ht : s.trackedDone = true) : ∀ i, s.inD i = false :=
  (inv_reach c h).done_td ht

/-- **gp_litmus_qsbr**: no implicit section reads the updater's post-return store (`Y = 1`) and the
pre-call value (`X = 0`). -/
theorem gp_litmus_qsbr (c : Cfg) {s : State} (h : Reach c s) (i : Nat) (ho : s.rpc i = .out)
    (hon : s.lctr i ≠ 0) : ¬ (s.sawX0 i = true ∧ s.sawY1 i = true) := by
  have I := inv_reach c h
  intro ⟨hx, hy⟩
  have := I.x0_in_d i ho hon hx
  have := I.y1_not_d i ho hon hy
  simp_all

/-- the scan never removes a reader of the waited-for set: its word in memory is neither 0 nor
the new counter value (this is why the fast path of `rcu_quiescent_state()` is sound) -/
theorem waited_reader_stays_old (c : Cfg) {s : State} (h : Reach c s) (ht : s.tracked = true) (i : Nat)
    (hd : s.inD i = true) : s.mctr i ≠ 0 ∧ s.mctr i ≠ s.gp := by
  have I := inv_reach c h
  have h1 := I.d_old ht i hd
  have h2 := I.d_out i hd
  have h3 := I.out_view i (by simp [h2.1])
  have h4 := I.empty_view i h3
  omega

/-- C15 (qsbr): the scan only ever targets registered readers -/
theorem scan_targets_registered_qsbr (c : Cfg) {s s' : State} (h : Reach c s) (j : Nat)
    (st : step c s (.uScan j) = some s') : s.reg j = true := by
  have I := inv_reach c h
  simp only [step] at st; split at st <;> simp only [Option.some.injEq, reduceCtorEq] at st
  next hg => exact I.inp_reg hg.1 j hg.2.2.1

def run (c : Cfg) : State → List Label → Option State
  | s, [] => some s
  | s, l :: ls => match step c s l with
    | none => none
    | some s' => run c s' ls

/-- Non-vacuity: reader 0 is online with an old announcement when the tracked grace period
starts; the scan cannot pass it until it reports a quiescent state. -/
example : (run { n := 2 } init [.reg 0, .qLd 0, .qSt 0, .flush 0, .qFence 0, .rRead 0, .uInc true, .uScan 0]) = none := by
  decide
example : ((run { n := 2 } init [.reg 0, .qLd 0, .qSt 0, .flush 0, .qFence 0, .rRead 0, .uInc true,
    .qLd 0, .qSt 0, .flush 0, .uScan 0, .qFence 0, .uEnd, .setY, .rRead 0]).map
      fun s => (s.trackedDone, s.inD 0, s.sawX0 0, s.sawY1 0)) = some (true, false, false, true) := by decide
/-- the fast path: a quiescent state reported while the counter is unchanged announces nothing -/
example : ((run { n := 1 } init [.reg 0, .qLd 0, .qSt 0, .flush 0, .qFence 0, .qLd 0, .qSkip 0]).map
    fun s => (s.rpc 0, s.lctr 0, s.inD 0)) = some (.out, 1, true) := by decide

end UrcuVerif.Qsbr
