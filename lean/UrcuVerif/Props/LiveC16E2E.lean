import UrcuVerif.Fork.LiveAfp
import UrcuVerif.Props.LiveC16
/-!
# C16 liveness, end to end — callbacks queued at a fork are eventually invoked, in the child and in the parent

`Props/C16.lean` keeps `C16_full` (unproved; as formulated it lacks the proviso that read-side sections end: a
registered forking thread that nests `rcu_read_lock()` deeper and deeper blocks the helper's grace period under
`FairRun`).  Here the restated statements `C16_full'` (child) and `C16_full_parent'`, with the provisos as explicit
hypotheses, and their proofs: `call_rcu_after_fork_child()` returns (`after_fork_child_eventually_returns`) having
spliced every inherited queue onto the new default helper, resp. `call_rcu_after_fork_parent()` clears PAUSE; then the
helper's loop (`fork_callback_eventually_done`).  The futex sleep of the helpers is abstracted in this model (`hWait`;
C02/C03 prove the handshake).
-/
namespace UrcuVerif.Fork
open UrcuVerif UrcuVerif.Fair

/-- **child_callbacks_eventually_invoked**: in the child of a fork, every callback that was queued at the fork is
eventually invoked.  Hypotheses about the run of the child (from the state `sc` right after `fork()`): the forking
thread is scheduled fairly inside `call_rcu_after_fork_child()` (`hfairT`), helper threads are scheduled fairly
(`hfairH`), read-side sections end (`hsec`), no further `call_rcu_before_fork()` / `fork()` during the run (`hnf`). -/
theorem child_callbacks_eventually_invoked (c : Cfg) (s sc : State) (t : Nat) (hs : Reach c s)
    (hfork : step c s (.forkChild t) = some sc)
    {ρ : Nat → State} {ℓ : Nat → Option Label} (hrun : IsRun (step c) ρ ℓ) (h0 : ρ 0 = sc)
    (hfairT : WeakFair (step c) ρ ℓ (fun l => l ∈ afcLabels t))
    (hfairH : ∀ x, WeakFair (step c) ρ ℓ (fhOwn x))
    (hsec : ∀ u j, 0 < (ρ j).nest u → ∃ j', j ≤ j' ∧ (ρ j').nest u = 0)
    (hnf : ∀ j l, ℓ j = some l → l.forky = false) :
    ∀ id, (∃ x, s.loc id = .queue x) → ∃ i, (ρ i).loc id = .done := by
  intro id ⟨x, hx⟩
  have hreach : Reach c (ρ 0) := by rw [h0]; exact Reach.step hs hfork
  have hR := freach_along c hrun hreach
  -- the child's state right after the fork
  have hsc : sc = childOf s t := by
    simp only [step] at hfork
    split at hfork
    · simp only [Option.some.injEq] at hfork; exact hfork.symm
    · simp at hfork
  have hafc : ((ρ 0).upc t).inAfc = true := by rw [h0, hsc]; simp [childOf, UPc.inAfc]
  have haf0 : (ρ 0).atFork id = true := by rw [h0, hsc]; simp [childOf, hx, isQueue]
  have haf : ∀ j, (ρ j).atFork id = true := by
    intro j
    induction j with
    | zero => exact haf0
    | succ n ih =>
      cases hl : ℓ n with
      | none => rw [hrun.idle n hl]; exact ih
      | some l => rw [atFork_frame c (hnf n l hl) (hrun.move n l hl)]; exact ih
  -- the handler returns
  obtain ⟨j1, -, hj1⟩ := after_fork_child_eventually_returns c hrun hreach t hfairT 0 hafc
  obtain ⟨m, -, -, hin, hout⟩ := change_step (ρ := ρ) (fun s => (s.upc t).inAfc = true) (Nat.zero_le j1) hafc (by rw [hj1]; simp)
  have hex : (ρ (m + 1)).child = false ∧ (ρ (m + 1)).win = none := by
    cases hl : ℓ m with
    | none => rw [hrun.idle m hl] at hout; exact absurd hin hout
    | some l =>
      have st := hrun.move m l hl
      by_cases hla : l ∈ afcLabels t
      · have := afc_exit c t hin (by simpa using hout) hla st
        exact ⟨this.2.1, this.2.2⟩
      · have := (afc_frame c t hin (afc_others_gone c (hR m) t hin) hla st).1
        rw [this] at hout; exact absurd hin hout
  -- where is the callback now?
  have I := inv_reach c (hR (m + 1))
  rcases I.k.af_loc id (haf (m + 1)) with hq | hinv
  · obtain ⟨j, -, hd⟩ := fork_callback_eventually_done c hrun hR hfairH hsec hnf id (m + 1) hq (fun h hl => by
      have hin := (I.k.loc_q h id hl).2
      have hng := I.p.list_alive hex.1 h hin
      have hnn := I.p.used h (I.p.list_lt h hin)
      refine ⟨by cases hq : (ρ (m + 1)).hpc h <;> simp_all [HPc.alive], (I.p.nowin hex.2 h hng).1⟩)
    exact ⟨j, hd⟩
  · exact ⟨m + 1, by cases hl : (ρ (m + 1)).loc id <;> simp_all [Loc.invoked]⟩

/-- **`C16_full'`** – `C16_full` restated with its provisos as explicit hypotheses (runs with idle steps, weak fairness
per thread instead of per label, "sections end", no further fork) – **proved**. -/
def C16_full' : Prop :=
  ∀ (c : Cfg) (s sc : State) (t : Nat), Reach c s → step c s (.forkChild t) = some sc →
    ∀ (ρ : Nat → State) (ℓ : Nat → Option Label), IsRun (step c) ρ ℓ → ρ 0 = sc →
      WeakFair (step c) ρ ℓ (fun l => l ∈ afcLabels t) → (∀ x, WeakFair (step c) ρ ℓ (fhOwn x)) →
      (∀ u j, 0 < (ρ j).nest u → ∃ j', j ≤ j' ∧ (ρ j').nest u = 0) → (∀ j l, ℓ j = some l → l.forky = false) →
      ∀ id, (∃ x, s.loc id = .queue x) → ∃ i, (ρ i).loc id = .done

theorem C16_full'_proved : C16_full' := fun c s sc t hs hf _ _ hrun h0 h1 h2 h3 h4 =>
  child_callbacks_eventually_invoked c s sc t hs hf hrun h0 h1 h2 h3 h4

/-- **parent_callbacks_eventually_invoked**: in the parent, every callback that was queued at the fork is eventually
invoked.  Hypotheses about the run of the parent (from the state `sp` right after `fork()` returned): the forking
thread is scheduled fairly inside `call_rcu_after_fork_parent()`, helpers are scheduled fairly, sections end, no
further fork. -/
theorem parent_callbacks_eventually_invoked (c : Cfg) (s sp : State) (t : Nat) (hs : Reach c s)
    (hfork : step c s (.forkParent t) = some sp)
    {ρ : Nat → State} {ℓ : Nat → Option Label} (hrun : IsRun (step c) ρ ℓ) (h0 : ρ 0 = sp)
    (hfairT : WeakFair (step c) ρ ℓ (fun l => l ∈ afpLabels t))
    (hfairH : ∀ x, WeakFair (step c) ρ ℓ (fhOwn x))
    (hsec : ∀ u j, 0 < (ρ j).nest u → ∃ j', j ≤ j' ∧ (ρ j').nest u = 0)
    (hnf : ∀ j l, ℓ j = some l → l.forky = false) :
    ∀ id, (∃ x, s.loc id = .queue x) → ∃ i, (ρ i).loc id = .done := by
  intro id ⟨x, hx⟩
  have hreach : Reach c (ρ 0) := by rw [h0]; exact Reach.step hs hfork
  have hR := freach_along c hrun hreach
  have hsp : sp = parentOf s t := by
    simp only [step] at hfork
    split at hfork
    · simp only [Option.some.injEq] at hfork; exact hfork.symm
    · simp at hfork
  have hclr : ((ρ 0).upc t).inClr = true := by rw [h0, hsp]; simp [parentOf, upd, UPc.inClr]
  have haf0 : (ρ 0).atFork id = true := by rw [h0, hsp]; simp [parentOf, hx, isQueue]
  have haf : ∀ j, (ρ j).atFork id = true := by
    intro j
    induction j with
    | zero => exact haf0
    | succ n ih =>
      cases hl : ℓ n with
      | none => rw [hrun.idle n hl]; exact ih
      | some l => rw [atFork_frame c (hnf n l hl) (hrun.move n l hl)]; exact ih
  -- PAUSE is cleared for every helper
  have hrunN := isRunN c hrun hnf
  have hfairTN : WeakFair (stepN c) ρ ℓ (fun l => l ∈ afpLabels t) := by
    intro i he
    refine hfairT i (fun j hj => ?_)
    obtain ⟨l, hl, hen⟩ := he j hj
    refine ⟨l, hl, ?_⟩
    unfold stepN at hen
    split at hen
    · simp at hen
    · exact hen
  obtain ⟨j1, -, hw⟩ := fair_measure_leadsTo_from hrunN (fun l => l ∈ afpLabels t) (Reach c)
    (fun s => (s.upc t).inClr = true) (fun s => (s.upc t).inWait = true) (fun s => clrRank (s.upc t)) 0 (fun j _ => hR j) hfairTN
    (fun s l s' R p _ st => by
      by_cases hl : l ∈ afpLabels t
      · rcases clr_own c t p hl (stepN_step st).1 with h | h
        · exact Or.inr h
        · exact Or.inl h.1
      · exact Or.inl (by rw [clr_frame c (inv_reach c R).p t p hl (stepN_step st).2 (stepN_step st).1]; exact p))
    (fun s R p _ => by
      obtain ⟨l, hl, he⟩ := clr_enabled c t p
      refine ⟨l, hl, ?_⟩
      unfold stepN
      rw [if_neg]; exact he
      simp only [afpLabels, List.mem_cons, List.mem_nil_iff, or_false] at hl
      rcases hl with rfl | rfl | rfl | rfl <;> simp [Label.forky])
    (fun s l s' R p _ hl st => by
      rcases clr_own c t p hl (stepN_step st).1 with h | h
      · exact Or.inr h
      · exact Or.inl h.2)
    (fun s l s' R p _ hl st => Or.inl (by
      rw [clr_frame c (inv_reach c R).p t p hl (stepN_step st).2 (stepN_step st).1]; exact Nat.le_refl _))
    0 (Nat.le_refl 0) hclr
  have I := inv_reach c (hR j1)
  obtain ⟨rem, hrem⟩ : ∃ rem, (ρ j1).upc t = .afpWait rem := by
    cases hq : (ρ j1).upc t <;> simp [hq, UPc.inWait] at hw
    exact ⟨_, rfl⟩
  have b5 := I.p.bf5 t rem hrem
  rcases I.k.af_loc id (haf j1) with hq | hinv
  · obtain ⟨j, -, hd⟩ := fork_callback_eventually_done c hrun hR hfairH hsec hnf id j1 hq (fun h hl => by
      have hin := (I.k.loc_q h id hl).2
      have hng := I.p.list_alive b5.2.2.2.2.1 h hin
      have hnn := I.p.used h (I.p.list_lt h hin)
      exact ⟨by cases hq : (ρ j1).hpc h <;> simp_all [HPc.alive], b5.2.1 h hin⟩)
    exact ⟨j, hd⟩
  · exact ⟨j1, by cases hl : (ρ j1).loc id <;> simp_all [Loc.invoked]⟩

/-- the parent's half, as a closed statement, **proved** -/
def C16_full_parent' : Prop :=
  ∀ (c : Cfg) (s sp : State) (t : Nat), Reach c s → step c s (.forkParent t) = some sp →
    ∀ (ρ : Nat → State) (ℓ : Nat → Option Label), IsRun (step c) ρ ℓ → ρ 0 = sp →
      WeakFair (step c) ρ ℓ (fun l => l ∈ afpLabels t) → (∀ x, WeakFair (step c) ρ ℓ (fhOwn x)) →
      (∀ u j, 0 < (ρ j).nest u → ∃ j', j ≤ j' ∧ (ρ j').nest u = 0) → (∀ j l, ℓ j = some l → l.forky = false) →
      ∀ id, (∃ x, s.loc id = .queue x) → ∃ i, (ρ i).loc id = .done

theorem C16_full_parent'_proved : C16_full_parent' := fun c s sp t hs hf _ _ hrun h0 h1 h2 h3 h4 =>
  parent_callbacks_eventually_invoked c s sp t hs hf hrun h0 h1 h2 h3 h4

/-! ### Non-vacuity (concrete fair prefixes reaching the goal)

The run of `Props/C16.lean`: callbacks 12 and 13 are queued on helper 1 at the fork.  Child: the handler
(`afcUnlock afcCreate afcDispose afcDispose afcDone`: the forking thread's own steps, scheduled), then the new default
helper 2 (`hStart hTop hSplice hGpSkip hInvoke hInvoke`: its own steps, scheduled); no further fork; no section is
open.  Parent: `afpClr afpClr afpClrDone` clear PAUSE, the helpers leave the spin, helper 1 splices, runs a grace
period and invokes both.  (In this model helpers never block – `hWait` always continues – so a fair *infinite* run
keeps cycling the idle helpers; the prefixes below are the part that matters.) -/

example : chk (run c2 init (preFork ++ childRun)) (fun s => s.loc 12 == .done && s.loc 13 == .done && s.upc 0 == .idle &&
    s.child == false) = true := by decide
example : chk (run c2 init preFork) (fun s => s.loc 12 == .queue 1 && s.loc 13 == .queue 1) = true := by decide
example : chk (run c2 init (preFork ++ parentRun)) (fun s => s.loc 12 == .done && s.loc 13 == .done && s.pause 1 == false) = true := by
  decide
example : (childRun.drop 1).all (fun l => !l.forky) = true ∧ (parentRun.drop 1).all (fun l => !l.forky) = true := by decide

end UrcuVerif.Fork
